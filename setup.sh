#!/bin/sh
# Build the framework from files on disk only (offline): Lean library + model drivers + Go harnesses.
cd "$(dirname "$0")"
export GOFLAGS=-mod=mod GOPROXY=off GOSUMDB=off GOTOOLCHAIN=local
exec python3 lib/vcheck.py setup
