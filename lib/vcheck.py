#!/usr/bin/env python3
"""
Generic check driver for the Lean-4-proof-based verification of named-data/YaNFD (ndnd).

  ./check <ID> [--tier quick|thorough] [--replay FILE] [--seed N] [--n N]

Flow for one property (every step starts from the repository's *current working tree*,
VERIF_REPO or /repo):

  0. regenerate facts (optional, props/<ID>.json "gen") into lean/NdnVerif/Gen/<ID>*.lean
  1. Lean:  forbidden-token grep; lake build of the property's Props module (theorems) and the
     core-only model driver executable; axiom audit of EVERY theorem of the Props module
     (names discovered by Lean itself from the compiled module); thorough: leanchecker.
  2. Go:    build the correspondence harness (go1.26 test -c -tags verif) against the working tree.
  3. corpus (minimised past failures) first, then generated histories:  gen -> exec (REAL code)
     -> trace -> Lean driver (model in lock-step + executable spec on the implementation's output).
  4. classify:  SPEC lines  = the implementation violates the property on a concrete history
                              -> shrink (ddmin over the ops), replay file, VIOLATION
                DIFF lines / broken Lean build = the tie or a proof obligation broke
                              -> search for a failing input; VIOLATION (… no-failing-input-found
                              when the search finds none)
     known findings (known_findings.json) print KNOWN-FINDING and do not fail the run.
  5. evidence/<ID>.json is rewritten on every run from measured numbers.
"""
import argparse, concurrent.futures as cf, fcntl, hashlib, json, os, re, shutil, subprocess, sys, tempfile, time

VERIF = os.path.dirname(os.path.dirname(os.path.abspath(__file__)))
LEAN = os.path.join(VERIF, "lean")
HARNESS = os.path.join(VERIF, "harness")
REPO = os.environ.get("VERIF_REPO", "/repo")
GO = os.environ.get("VERIF_GO", "go1.26")
ALLOWED_AXIOMS = {"propext", "Classical.choice", "Quot.sound"}
FORBIDDEN = re.compile(r"\b(sorry|admit|native_decide|bv_decide|implemented_by|unsafe)\b|^\s*axiom\s|maxHeartbeats\s+0\b")

GOENV = dict(os.environ, GOFLAGS="-mod=mod", GOPROXY="off", GOSUMDB="off", GOTOOLCHAIN="local", GORACE="halt_on_error=1")
GOENV.pop("GOROOT", None)


def log(*a):
    print(*a, flush=True)


def sh(cmd, cwd=None, env=None, timeout=None, stdin=None):
    """run, return (rc, stdout+stderr)"""
    try:
        p = subprocess.run(cmd, cwd=cwd, env=env, stdin=stdin, stdout=subprocess.PIPE, stderr=subprocess.STDOUT,
                           timeout=timeout, shell=isinstance(cmd, str))
        return p.returncode, p.stdout.decode("utf-8", "replace")
    except subprocess.TimeoutExpired as e:
        return 124, (e.stdout or b"").decode("utf-8", "replace") + "\nTIMEOUT"


class Lock:
    def __init__(self, path):
        self.path = path

    def __enter__(self):
        self.f = open(self.path, "w")
        fcntl.flock(self.f, fcntl.LOCK_EX)

    def __exit__(self, *a):
        fcntl.flock(self.f, fcntl.LOCK_UN)
        self.f.close()


def strip_lean_comments(src):
    # remove /- ... -/ (nested) and -- ... comments, and string literals
    out, i, depth, n = [], 0, 0, len(src)
    while i < n:
        if src.startswith("/-", i):
            depth += 1; i += 2; continue
        if depth and src.startswith("-/", i):
            depth -= 1; i += 2; continue
        if depth:
            if src[i] == "\n": out.append("\n")
            i += 1; continue
        if src.startswith("--", i):
            while i < n and src[i] != "\n": i += 1
            continue
        if src[i] == '"':
            i += 1
            while i < n and src[i] != '"':
                i += 2 if src[i] == "\\" else 1
            i += 1; continue
        out.append(src[i]); i += 1
    return "".join(out)


class Check:
    def __init__(self, pid, tier, seed, n_override=None):
        self.id = pid
        self.tier = tier
        self.seed = seed
        self.cfg = json.load(open(os.path.join(VERIF, "props", pid + ".json")))
        self.n_override = n_override
        self.t0 = time.time()
        self.work = tempfile.mkdtemp(prefix=f"verif-{pid}-", dir=os.environ.get("VERIF_TMP", "/var/tmp"))
        self.violations = []      # dicts: kind, clause, key, msg, replay
        self.known_hits = []
        self.broken = []          # (what, detail)  broken proofs / correspondences
        self.cov = {}
        self.stats = {}
        self.samples = []
        self.evaluations = 0
        self.hist_hashes = set()
        self.nt_hashes = set()
        self.lines = 0
        self.traces_validated = 0
        self.theorems = []
        self.discharged = 0
        self.axioms = {}
        self.lean_cmds = []
        self.notes = []
        kf = os.path.join(VERIF, "known_findings.json")
        self.known = [k for k in json.load(open(kf)).get("findings", []) if k.get("property") == pid] if os.path.exists(kf) else []

    # ------------------------------------------------------------------ step 0: facts
    def gen_facts(self):
        g = self.cfg.get("gen")
        if not g:
            return True
        cmd = g["cmd"].replace("{repo}", REPO).replace("{verif}", VERIF)
        rc, out = sh(cmd, cwd=HARNESS, env=GOENV, timeout=600)
        if rc != 0:
            self.broken.append(("fact-extraction", f"extractor failed on the working tree: {cmd}\n{out[-3000:]}"))
            return False
        return True

    # ------------------------------------------------------------------ step 1: lean
    def lean_sources(self):
        mods = [self.cfg["lean"]["props_module"]] + self.cfg["lean"].get("extra_modules", [])
        files = set()
        # all files of the property's directory + Base + Driver
        for d in self.cfg["lean"].get("dirs", []) + ["NdnVerif/Base", "NdnVerif/Driver"]:
            p = os.path.join(LEAN, d)
            if os.path.isdir(p):
                for r, _, fs in os.walk(p):
                    files.update(os.path.join(r, f) for f in fs if f.endswith(".lean"))
            elif os.path.isfile(p):
                files.add(p)
        for m in mods:
            files.add(os.path.join(LEAN, m.replace(".", "/") + ".lean"))
        return sorted(files)

    def lean(self):
        L = self.cfg["lean"]
        bad = []
        for f in self.lean_sources():
            if not os.path.exists(f):
                continue
            for ln, line in enumerate(strip_lean_comments(open(f).read()).split("\n"), 1):
                if FORBIDDEN.search(line):
                    bad.append(f"{os.path.relpath(f, LEAN)}:{ln}: {line.strip()[:100]}")
        if bad:
            self.broken.append(("forbidden-token", "\n".join(bad)))
        targets = [L["props_module"]] + L.get("extra_modules", [])
        ok_props = True
        # One lock around fact regeneration, builds and the audit: the regenerated Gen/*.lean files and
        # the driver executable live in the shared lake project, and a concurrent run of the same
        # property against ANOTHER tree (mutant testing) must not swap them underneath this run.
        with Lock(os.path.join(LEAN, ".build.lock")):
            self.gen_facts()
            cmd = ["lake", "build"] + targets
            self.lean_cmds.append("cd lean && " + " ".join(cmd))
            rc, out = sh(cmd, cwd=LEAN, timeout=3000)
            if rc != 0:
                ok_props = False
                self.broken.append(("lean-proof", self.describe_lean_failure(out)))
            exe = L.get("driver_exe")
            self.exe_ok = False
            if exe:
                rc2, out2 = sh(["lake", "build", exe], cwd=LEAN, timeout=3000)
                self.exe_ok = rc2 == 0
                if rc2 != 0:
                    self.broken.append(("lean-model-driver", "the model driver no longer builds:\n" + out2[-3000:]))
                else:
                    # private copy: this run's driver is the one built from this run's facts
                    self.exe_path = os.path.join(self.work, exe)
                    shutil.copy2(os.path.join(LEAN, ".lake", "build", "bin", exe), self.exe_path)
            if ok_props:
                self.audit()
                if self.tier == "thorough" and not os.environ.get("VERIF_NO_LEANCHECKER"):
                    cmd = ["lake", "env", "leanchecker", L["props_module"]]
                    self.lean_cmds.append("cd lean && " + " ".join(cmd))
                    rc, out = sh(cmd, cwd=LEAN, timeout=3000)
                    if rc != 0:
                        self.broken.append(("leanchecker", out[-3000:]))
        return ok_props

    def describe_lean_failure(self, out):
        # find the first error location and the enclosing theorem
        m = re.search(r"error: (\S+?\.lean):(\d+):(\d+): (.*)", out)
        desc = "lake build failed"
        if m:
            path, ln = os.path.join(LEAN, m.group(1)), int(m.group(2))
            thm = None
            try:
                lines = open(path).read().split("\n")
                for i in range(min(ln, len(lines)) - 1, -1, -1):
                    mm = re.match(r"\s*(?:private\s+|protected\s+)?(theorem|lemma|def|example|instance)\s+(\S+)?", lines[i])
                    if mm:
                        thm = (mm.group(1), mm.group(2)); break
            except OSError:
                pass
            desc = f"{m.group(1)}:{ln}: {m.group(4)}" + (f"  [in {thm[0]} {thm[1]}]" if thm else "")
        return desc + "\n" + out[-4000:]

    def audit(self):
        mod = self.cfg["lean"]["props_module"]
        src = f"""import Lean
import {mod}
open Lean Elab Command in
run_cmd do
  let env ← getEnv
  let some idx := env.getModuleIdx? `{mod} | throwError "module not found"
  let names := env.constants.map₁.fold (init := #[]) fun acc n ci =>
    if env.getModuleIdxFor? n == some idx then
      match ci with
      | .thmInfo _ => if n.isInternal || n.hasMacroScopes then acc else acc.push n
      | _ => acc
    else acc
  for n in names.qsort (fun a b => a.toString < b.toString) do
    let axs ← liftCoreM (collectAxioms n)
    let axs := axs.qsort (fun a b => a.toString < b.toString)
    logInfo m!"THM {{n}} AXIOMS {{axs.toList}}"
"""
        p = os.path.join(LEAN, f".audit_{self.id}_{os.getpid()}.lean")
        open(p, "w").write(src)
        try:
            cmd = ["lake", "env", "lean", p]
            self.lean_cmds.append(f"cd lean && lake env lean <audit of every theorem in {mod}: collectAxioms>")
            rc, out = sh(cmd, cwd=LEAN, timeout=1200)
        finally:
            os.unlink(p)
        thms = re.findall(r"THM (\S+) AXIOMS \[(.*?)\]", out)
        # keep only theorems written in the Props source (drop auto-generated equation lemmas etc.)
        psrc = strip_lean_comments(open(os.path.join(LEAN, mod.replace(".", "/") + ".lean")).read())
        declared = set(re.findall(r"^\s*(?:@\[[^\]]*\]\s*)?(?:private\s+|protected\s+)?theorem\s+([^\s:({\[]+)", psrc, re.M))
        thms = [(n, a) for n, a in thms if n.split(".")[-1] in declared or any(n.endswith("." + d) for d in declared)]
        self.declared_theorems = sorted(declared)
        if rc != 0 or not thms:
            self.broken.append(("axiom-audit", "audit failed:\n" + out[-3000:]))
            return
        min_thms = self.cfg["lean"].get("min_theorems", 1)
        for name, axs in thms:
            axl = [a.strip() for a in axs.split(",") if a.strip()]
            self.theorems.append(name)
            self.axioms[name] = axl
            extra = [a for a in axl if a not in ALLOWED_AXIOMS]
            if extra:
                self.broken.append(("axiom-audit", f"theorem {name} depends on non-standard axioms {extra}"))
            else:
                self.discharged += 1
        found_last = {n.split(".")[-1] for n in self.theorems} | set(self.theorems)
        for d in declared:
            if d.split(".")[-1] not in found_last and not any(t.endswith("." + d) for t in self.theorems):
                self.broken.append(("axiom-audit", f"theorem {d} is declared in the source but missing from the compiled module"))
        required = self.cfg["lean"].get("required_theorems", [])
        for r in required:
            if r not in self.theorems:
                self.broken.append(("lean-proof", f"required property theorem {r} is missing from {mod}"))
        if len(self.theorems) < min_thms:
            self.broken.append(("lean-proof", f"only {len(self.theorems)} theorems found in {mod}, expected >= {min_thms}"))

    # ------------------------------------------------------------------ step 2: go harness
    def build_harness(self):
        H = self.cfg["harness"]
        tag = hashlib.sha1(REPO.encode()).hexdigest()[:8]
        modfile = os.path.join(HARNESS, f".mod-{tag}.mod")
        base = open(os.path.join(HARNESS, "go.mod")).read().replace("=> /repo", "=> " + REPO)
        if not os.path.exists(modfile) or open(modfile).read() != base:
            open(modfile, "w").write(base)
        sumfile = modfile[:-4] + ".sum"
        shutil.copyfile(os.path.join(REPO, "go.sum"), sumfile)
        self.bin = os.path.join(HARNESS, "bin", f"{self.id.lower()}-{tag}.test")
        os.makedirs(os.path.dirname(self.bin), exist_ok=True)
        tags = "verif"
        cmd = [GO, "test", "-c", "-tags", tags, "-modfile", modfile, "-o", self.bin] + (["-race"] if H.get("race") else []) + [H["pkg"]]
        with Lock(os.path.join(HARNESS, f".build-{tag}.lock")):
            rc, out = sh(cmd, cwd=HARNESS, env=GOENV, timeout=1800)
        if rc != 0:
            self.broken.append(("harness-build", "the correspondence harness no longer builds against the working tree "
                                "(an API or hook it relies on changed):\n" + out[-4000:]))
            return False
        return True

    # ------------------------------------------------------------------ step 3: run
    def run_harness(self, mode, env_extra, timeout):
        env = dict(GOENV, VERIF_MODE=mode, VERIF_TIER=self.tier, **env_extra)
        args = [self.bin, "-test.run", "^TestVerif$", "-test.timeout", "0"]
        return sh(args, cwd=HARNESS, env=env, timeout=timeout)

    def gen_ops(self, seed, n, path):
        rc, out = self.run_harness("gen", {"VERIF_SEED": str(seed), "VERIF_N": str(n), "VERIF_OUT": path}, 1800)
        if rc != 0:
            raise RuntimeError("generator failed: " + out[-2000:])

    def exec_ops(self, ops_path, trace_path, timeout=None):
        """run ops against the real code; returns list of trace lines (crash is mapped to a CRASH output)"""
        timeout = timeout or self.cfg["harness"].get("exec_timeout", 1200)
        rc, out = self.run_harness("exec", {"VERIF_IN": ops_path, "VERIF_OUT": trace_path}, timeout)
        lines = open(trace_path, errors="replace").read().split("\n") if os.path.exists(trace_path) else []
        if lines and lines[-1] == "":
            lines.pop()
        res, pending = [], None
        for ln in lines:
            if ln.startswith("#run "):
                pending = ln[5:]
            elif ln.startswith("#"):
                continue
            else:
                res.append(ln); pending = None
        if rc != 0:
            why = "TIMEOUT" if rc == 124 else "exit=%d" % rc
            tail = " ".join(out.strip().split("\n")[-40:])
            m = re.search(r"(panic: [^\n]*|fatal error: [^\n]*|WARNING: DATA RACE)", out)
            if pending is not None:
                res.append(f"{pending} => CRASH {why} {m.group(1) if m else ''}".rstrip())
            else:
                res.append(f"harness-exit => CRASH {why} {m.group(1) if m else tail[-300:]}".rstrip())
        return res

    def drive(self, trace_lines):
        """pipe trace through the Lean model driver; returns parsed verdicts"""
        exe = getattr(self, "exe_path", None) or os.path.join(LEAN, ".lake", "build", "bin", self.cfg["lean"]["driver_exe"])
        data = ("\n".join(trace_lines) + "\n").encode()
        p = subprocess.run([exe], input=data, stdout=subprocess.PIPE, stderr=subprocess.STDOUT, timeout=3600)
        out = p.stdout.decode("utf-8", "replace")
        v = {"diff": [], "spec": [], "nt": set(), "cov": {}, "done": None, "raw": out}
        for ln in out.split("\n"):
            if ln.startswith("DIFF "):
                m = re.match(r"DIFF (\d+) (\d+) \| (.*)", ln)
                v["diff"].append((int(m.group(1)), int(m.group(2)), m.group(3)))
            elif ln.startswith("SPEC "):
                m = re.match(r"SPEC (\d+) (\d+) \| clause=(\S+) key=(\S*) \| (.*)", ln)
                if m:
                    v["spec"].append((int(m.group(1)), int(m.group(2)), m.group(3), m.group(4), m.group(5)))
            elif ln.startswith("NT "):
                v["nt"].add(int(ln[3:]))
            elif ln.startswith("COV "):
                _, k, n = ln.split(" ")
                v["cov"][k] = int(n)
            elif ln.startswith("DONE "):
                v["done"] = dict(kv.split("=") for kv in ln[5:].split(" "))
        if p.returncode != 0 or v["done"] is None:
            v["driver_error"] = out[-2000:]
        return v

    @staticmethod
    def split_histories(lines):
        hs, cur = [], None
        for ln in lines:
            if ln.startswith("#") or ln == "":
                continue
            if ln.startswith("new"):
                cur = [ln]; hs.append(cur)
            elif cur is None:
                cur = [ln]; hs.append(cur)
            else:
                cur.append(ln)
        return hs

    def batch(self, label, ops_path, collect_samples=True):
        trace_path = ops_path + ".trace"
        trace = self.exec_ops(ops_path, trace_path)
        v = self.drive(trace)
        hs = self.split_histories(trace)
        try:
            os.unlink(trace_path)
        except OSError:
            pass
        return label, trace, hs, v

    def account(self, label, trace, hs, v):
        self.lines += len(trace)
        self.evaluations += len(hs)
        for i, h in enumerate(hs, 1):
            hh = hashlib.sha1("\n".join(x.split(" => ")[0] for x in h).encode()).hexdigest()
            self.hist_hashes.add(hh)
            if i in v["nt"]:
                self.nt_hashes.add(hh)
        for k, n in v["cov"].items():
            self.cov[k] = self.cov.get(k, 0) + n
        if len(self.samples) < 3 and hs:
            nts = [h for i, h in enumerate(hs, 1) if i in v["nt"]] or hs
            self.samples.append({"source": label, "history": nts[0][:40]})
        if "driver_error" in v:
            self.broken.append(("model-driver-run", v["driver_error"]))
        if not v["diff"] and not v["spec"] and "driver_error" not in v:
            self.traces_validated += len(hs)
        else:
            bad = {d[1] for d in v["diff"]} | {s[1] for s in v["spec"]}
            self.traces_validated += len(hs) - len(bad)

    # ------------------------------------------------------------------ shrinking / replay
    def still_fails(self, ops, want):
        """want: ('spec', clause) or ('diff',)"""
        p = os.path.join(self.work, "shrink.ops")
        open(p, "w").write("\n".join(ops) + "\n")
        trace = self.exec_ops(p, p + ".trace", timeout=120)
        v = self.drive(trace)
        if want[0] == "spec":
            return any(s[2] == want[1] for s in v["spec"]), trace, v
        return bool(v["diff"]), trace, v

    def shrink(self, hist_lines, want, budget_s):
        ops = [x.split(" => ")[0] for x in hist_lines]
        head, body = ops[:1], ops[1:]
        t_end = time.time() + budget_s
        ok, trace, v = self.still_fails(head + body, want)
        if not ok:
            return head + body, hist_lines, None   # not reproducible in isolation (state carried over?) keep as is
        n = 2
        best = (trace, v)
        while len(body) >= 2 and time.time() < t_end:
            chunk = max(1, len(body) // n)
            reduced = False
            for i in range(0, len(body), chunk):
                cand = body[:i] + body[i + chunk:]
                ok, trace, v = self.still_fails(head + cand, want)
                if ok:
                    body, best, reduced = cand, (trace, v), True
                    n = max(n - 1, 2)
                    break
                if time.time() > t_end:
                    break
            if not reduced:
                if chunk == 1:
                    break
                n = min(n * 2, len(body))
        return head + body, best[0], best[1]

    def write_replay(self, kind, detail, ops=None, trace=None, verdict=None):
        os.makedirs(os.path.join(VERIF, "replays"), exist_ok=True)
        name = f"{self.id}-{kind}-{hashlib.sha1((detail + str(ops)).encode()).hexdigest()[:10]}.json"
        path = os.path.join(VERIF, "replays", name)
        json.dump({"property": self.id, "kind": kind, "detail": detail, "seed": self.seed, "tier": self.tier,
                   "repo": REPO, "ops": ops, "trace_on_real_code": trace,
                   "model_driver_output": verdict["raw"].split("\n")[:50] if verdict else None,
                   "how_to_replay": f"./check {self.id} --replay {path}"}, open(path, "w"), indent=1)
        return path

    def is_known(self, clause, key, msg):
        for k in self.known:
            if k.get("clause") and k["clause"] != clause:
                continue
            if k.get("key_regex") and not re.search(k["key_regex"], key):
                continue
            return k
        return None

    def handle_spec(self, hist_lines, spec, budget):
        _, _, clause, key, msg = spec
        k = self.is_known(clause, key, msg)
        if k:
            if k["id"] not in [x["id"] for x in self.known_hits]:
                self.known_hits.append(k)
            return
        sig = (clause, key)
        if any((x.get("clause"), x.get("key")) == sig for x in self.violations):
            return
        ops, trace, v = self.shrink(hist_lines, ("spec", clause), budget)
        path = self.write_replay("spec-violation", f"clause={clause} key={key}: {msg}", ops, trace, v)
        self.violations.append({"kind": "spec", "clause": clause, "key": key, "msg": msg, "replay": path})

    # ------------------------------------------------------------------ main flow
    def volumes(self):
        H = self.cfg["harness"]
        if self.n_override:
            return [(self.seed, self.n_override)]
        if self.tier == "quick":
            return [(self.seed, H.get("quick_n", 300))]
        per = H.get("thorough_batch", 2000)
        total = H.get("thorough_n", 20000)
        k = max(1, total // per)
        return [(self.seed * 1000003 + i, per) for i in range(k)]

    def explore(self, volumes, budget_shrink, stop_on_spec=False):
        jobs = []
        cdir = os.path.join(VERIF, "corpus", self.id)
        if os.path.isdir(cdir):
            for f in sorted(os.listdir(cdir)):
                if f.endswith(".ops"):
                    jobs.append(("corpus:" + f, os.path.join(cdir, f), False))
        for i, (seed, n) in enumerate(volumes):
            p = os.path.join(self.work, f"b{i}.ops")
            jobs.append((f"gen:seed={seed}:n={n}", p, (seed, n)))
        workers = int(os.environ.get("VERIF_JOBS", "0")) or (1 if self.tier == "quick" else min(8, os.cpu_count() or 1))

        def run(job):
            label, path, g = job
            if g:
                try:
                    self.gen_ops(g[0], g[1], path)
                except RuntimeError as e:
                    # generators build their inputs with the real code (names, packets): a crash there is a
                    # crash of the code under test on a generated input, not a reason to stop the check
                    if not any(b[0] == "harness-generator" for b in self.broken):
                        self.broken.append(("harness-generator", "the input generator of the harness, which builds its inputs "
                                            "with the real code, crashed against the working tree:\n" + str(e)[-3000:]))
                    return label, [], [], {"diff": [], "spec": [], "cov": {}, "nt": set(), "raw": ""}
                for ln in open(path, errors="replace"):
                    if ln.startswith("#stat "):
                        _, k, n = ln.split()
                        self.stats[k] = self.stats.get(k, 0) + int(n)
                tmp = path
            else:
                tmp = os.path.join(self.work, os.path.basename(path))
                shutil.copyfile(path, tmp)
            r = self.batch(label, tmp)
            if g:
                os.unlink(path)
            return r

        found_spec = False
        with cf.ThreadPoolExecutor(max_workers=workers) as ex:
            for label, trace, hs, v in ex.map(run, jobs):
                self.account(label, trace, hs, v)
                for s in v["spec"]:
                    found_spec = True
                    h = hs[s[1] - 1] if 0 < s[1] <= len(hs) else trace
                    self.handle_spec(h, s, budget_shrink)
                seen_h = set()
                for d in v["diff"]:
                    if d[1] in {s[1] for s in v["spec"]} or d[1] in seen_h:
                        continue
                    seen_h.add(d[1])
                    h = hs[d[1] - 1] if 0 < d[1] <= len(hs) else trace
                    if not any(b[0] == "correspondence" for b in self.broken):
                        ops, tr, vv = self.shrink(h, ("diff",), budget_shrink)
                        self.broken.append(("correspondence", f"model and implementation disagree: {d[2]}",
                                            ops, tr, vv))
        return found_spec

    def run(self):
        try:
            return self._run()
        finally:
            shutil.rmtree(self.work, ignore_errors=True)

    def _run(self):
        self.lean()
        can_run = getattr(self, "exe_ok", False) and self.build_harness()
        budget = 60 if self.tier == "quick" else 300
        if can_run:
            self.explore(self.volumes(), budget)
        # a broken proof / tie without a concrete failing input: search harder
        if self.broken and not self.violations:
            if can_run and not os.environ.get("VERIF_NO_SEARCH"):
                log(f"[{self.id}] a proof obligation or the model/implementation tie broke; searching for a failing input")
                extra = self.cfg["harness"].get("search_n", 4 * self.cfg["harness"].get("quick_n", 300))
                vols = [(self.seed * 7919 + 17 + i, extra) for i in range(3 if self.tier == "quick" else 8)]
                self.explore(vols, budget)
            if not self.violations:
                what = self.broken[0]
                detail = f"{what[0]}: {what[1]}"
                ops = what[2] if len(what) > 2 else None
                tr = what[3] if len(what) > 3 else None
                vv = what[4] if len(what) > 4 else None
                k = self.is_known("broken:" + what[0], detail.split("\n")[0], detail)
                if k:
                    self.known_hits.append(k)
                else:
                    path = self.write_replay("broken-" + what[0], detail, ops, tr, vv)
                    self.violations.append({"kind": "broken", "what": what[0], "detail": detail, "replay": path,
                                            "nofail": True})
        self.write_evidence()
        for b in self.broken:
            log(f"[{self.id}] BROKEN {b[0]}: {str(b[1])[:1500]}")
        for k in self.known_hits:
            log(f"KNOWN-FINDING: property={self.id} {k['what']}")
        for v in self.violations:
            if v.get("nofail"):
                log(f"VIOLATION property={self.id} replay={v['replay']} no-failing-input-found")
            else:
                log(f"[{self.id}] spec violated on the real code: clause={v['clause']} key={v['key']}: {v['msg'][:300]}")
                log(f"VIOLATION property={self.id} replay={v['replay']}")
        if not self.violations:
            log(f"[{self.id}] OK tier={self.tier} theorems={self.discharged}/{len(self.theorems)} histories={self.evaluations} "
                f"lines={self.lines} nontrivial={len(self.nt_hashes)} wall={time.time() - self.t0:.1f}s")
        return 1 if self.violations else 0

    def write_evidence(self):
        C = self.cfg
        uncovered = [t for t in C.get("coverage_tags", []) if self.cov.get(t, 0) == 0]
        ev = {
            "property_id": self.id, "tier": self.tier, "seed": self.seed, "level": "proof",
            "coverage": {
                "obligations": len(self.theorems), "discharged": self.discharged,
                "checker_cmd": " ; ".join(dict.fromkeys(self.lean_cmds)),
                "trusted_base": C.get("trusted_base", []),
                "theorems": self.theorems, "axioms_per_theorem": self.axioms,
                "evaluations": self.evaluations,
                "distinct_nontrivial": len(self.nt_hashes),
                "distinct_histories": len(self.hist_hashes),
                "rule": C.get("rule", ""),
                "samples": self.samples or [{"note": "no history was run (build failure)"}],
                "traces_validated_against_impl": self.traces_validated,
                "trace_lines": self.lines,
                "model_branch_coverage": dict(sorted(self.cov.items())),
                "model_branches_never_taken": uncovered,
                "input_distribution": dict(sorted(self.stats.items())),
                "broken": [{"what": b[0], "detail": str(b[1])[:2000]} for b in self.broken],
                "known_findings_hit": [k["id"] for k in self.known_hits],
                "explanation": C.get("explanation", ""),
                "repo": REPO,
            },
            "assumptions": C.get("assumptions", []),
            "wall_s": round(time.time() - self.t0, 2),
            "violations": len(self.violations),
        }
        evdir = os.environ.get("VERIF_EVIDENCE_DIR") or os.path.join(VERIF, "evidence")
        os.makedirs(evdir, exist_ok=True)
        p = os.path.join(evdir, self.id + ".json")
        json.dump(ev, open(p + ".tmp", "w"), indent=1)
        os.replace(p + ".tmp", p)

    # ------------------------------------------------------------------ replay mode
    def replay(self, path):
        r = json.load(open(path)) if path.endswith(".json") else {"ops": open(path).read().split("\n")}
        self.lean()
        if not (getattr(self, "exe_ok", False) and self.build_harness()):
            log("cannot build"); [log(b) for b in self.broken]; return 2
        if not r.get("ops"):
            log("replay has no operation history:", r.get("detail")); return 1
        p = os.path.join(self.work, "replay.ops")
        open(p, "w").write("\n".join(o for o in r["ops"] if o) + "\n")
        trace = self.exec_ops(p, p + ".trace")
        v = self.drive(trace)
        for ln in trace: log("  " + ln)
        log(v["raw"])
        shutil.rmtree(self.work, ignore_errors=True)
        return 1 if (v["spec"] or v["diff"]) else 0


def manifest():
    """regenerate MANIFEST.json from props/*.json"""
    checks, na = [], []
    for f in sorted(os.listdir(os.path.join(VERIF, "props"))):
        if not f.endswith(".json") or f.startswith("_"):
            continue
        c = json.load(open(os.path.join(VERIF, "props", f)))
        if c.get("not_applicable"):
            na.append({"property_id": c["id"], "reason": c["not_applicable"]}); continue
        if not c.get("claimed", True):
            na.append({"property_id": c["id"], "reason": c.get("unclaimed_reason", "not yet decided by a machine-checked proof; not claimed")}); continue
        checks.append({
            "property_id": c["id"],
            "quick_cmd": f"./check {c['id']} --tier quick",
            "thorough_cmd": f"./check {c['id']} --tier thorough",
            "evidence_file": f"/verif/evidence/{c['id']}.json",
            "replay_cmd_template": f"./check {c['id']} --replay {{path}}",
            "engine": "lean4-proof+correspondence",
            "level_claimed": c["level"],
            "level_note": c["level_note"],
            "technique": c["technique"],
        })
    have = {c["property_id"] for c in checks} | {n["property_id"] for n in na}
    for ln in open(os.path.join(VERIF, "properties.jsonl")):
        if ln.strip():
            pid = json.loads(ln)["id"]
            if pid not in have:
                na.append({"property_id": pid, "reason": "no machine-checked decision procedure built for this property yet; not claimed (not a statement that the technique cannot apply)"})
    na.sort(key=lambda x: x["property_id"])
    base = json.load(open(os.path.join(VERIF, "props", "_manifest_base.json")))
    for e in base.get("engines", []):
        e["serves_properties"] = [c["property_id"] for c in checks]
    base["checks"] = checks
    base["not_applicable"] = na
    json.dump(base, open(os.path.join(VERIF, "MANIFEST.json"), "w"), indent=1)
    log(f"MANIFEST.json: {len(checks)} checks, {len(na)} not claimed")


def setup():
    """build everything once (fresh restore, offline); failures of one property do not stop the others"""
    rc_all = 0
    for f in sorted(os.listdir(os.path.join(VERIF, "props"))):
        if not f.endswith(".json") or f.startswith("_"):
            continue
        c = json.load(open(os.path.join(VERIF, "props", f)))
        if c.get("not_applicable") or "lean" not in c:
            continue
        t0 = time.time()
        L = c["lean"]
        targets = [L["props_module"]] + L.get("extra_modules", []) + ([L["driver_exe"]] if L.get("driver_exe") else [])
        rc, out = sh(["lake", "build"] + targets, cwd=LEAN, timeout=7200)
        log(f"setup {c['id']}: lake build rc={rc} ({time.time() - t0:.0f}s)")
        if rc != 0:
            log(out[-1500:]); rc_all = 1
        try:
            ck = Check(c["id"], "quick", 1)
            ok = ck.build_harness()
            log(f"setup {c['id']}: harness build {'ok' if ok else 'FAILED'} ({time.time() - t0:.0f}s)")
            if not ok:
                log(str(ck.broken)[-1500:]); rc_all = 1
            shutil.rmtree(ck.work, ignore_errors=True)
        except Exception as e:  # noqa
            log(f"setup {c['id']}: harness build error {e}"); rc_all = 1
    return 0  # setup is best-effort: every check rebuilds what it needs anyway


def main():
    if len(sys.argv) > 1 and sys.argv[1] == "setup":
        return setup()
    if len(sys.argv) > 1 and sys.argv[1] == "manifest":
        manifest(); return 0
    ap = argparse.ArgumentParser()
    ap.add_argument("id")
    ap.add_argument("--tier", default=os.environ.get("VERIF_TIER", "quick"), choices=["quick", "thorough"])
    ap.add_argument("--seed", type=int, default=int(os.environ.get("VERIF_SEED", "1") or 1))
    ap.add_argument("--n", type=int)
    ap.add_argument("--replay")
    a = ap.parse_args()
    if a.id == "manifest":
        manifest(); return 0
    os.environ["VERIF_TIER"] = a.tier
    c = Check(a.id, a.tier, a.seed, a.n)
    if a.replay:
        return c.replay(a.replay)
    return c.run()


if __name__ == "__main__":
    sys.exit(main())
