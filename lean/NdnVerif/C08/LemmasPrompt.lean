/-
  C08 helper lemmas: a Data packet schedules every PIT entry it satisfies for "now".
-/
import NdnVerif.C08.LemmasDrain
namespace Ndn.C08

/-- entries with a token in `T` are scheduled for `now`; every entry has the token, name and
    CanBePrefix flag of an entry of `base` -/
structure Sat (now : Nat) (base pit : List PitEntry) (T : List Nat) : Prop where
  sched : ∀ x ∈ pit, x.tok ∈ T → x.sched = some now
  shape : ∀ x ∈ pit, ∃ y ∈ base, y.tok = x.tok ∧ y.name = x.name ∧ y.cbp = x.cbp

theorem satisfy_pit (s : St) (e : PitEntry) :
    (∀ x ∈ (satisfy s e).pit, (x.tok = e.tok ∧ x.sched = some s.now ∧ ∃ c ∈ s.pit, c.tok = x.tok ∧ c.name = x.name ∧ c.cbp = x.cbp) ∨
      (x ∈ s.pit ∧ x.tok ≠ e.tok)) := by
  intro x hx
  unfold satisfy at hx
  simp only at hx
  cases hg : getEntry s.pit e.tok with
  | some c =>
    have hc : c ∈ s.pit := List.mem_of_find?_eq_some hg
    have hct : c.tok = e.tok := by
      have := List.find?_some hg
      simpa using this
    rw [hg] at hx
    simp only [Option.getD_some] at hx
    rcases mem_setEntry hx with rfl | ⟨h1, h2⟩
    · exact Or.inl ⟨hct, rfl, c, hc, rfl, rfl, rfl⟩
    · exact Or.inr ⟨h1, by simpa [hct] using h2⟩
  | none =>
    have hno : ∀ y ∈ s.pit, y.tok ≠ e.tok := by
      intro y hy
      have := List.find?_eq_none.mp hg y hy
      simpa using this
    rw [hg] at hx
    simp only [Option.getD_none] at hx
    have : setEntry s.pit { e with ins := [], outs := [], sched := some s.now, satisfied := true } = s.pit := by
      unfold setEntry
      conv => rhs; rw [← List.map_id s.pit]
      apply List.map_congr_left
      intro y hy
      have : ¬ y.tok = e.tok := hno y hy
      simp [this]
    rw [this] at hx
    exact Or.inr ⟨hx, hno x hx⟩

theorem satisfy_sat {now : Nat} {base : List PitEntry} {T : List Nat} {s : St} (h : Sat now base s.pit T)
    (hn : s.now = now) (e : PitEntry) : Sat now base (satisfy s e).pit (e.tok :: T) := by
  constructor
  · intro x hx hT
    rcases satisfy_pit s e x hx with ⟨_, h2, _⟩ | ⟨h1, h2⟩
    · rw [h2, hn]
    · rcases List.mem_cons.mp hT with h3 | h3
      · exact absurd h3 h2
      · exact h.sched x h1 h3
  · intro x hx
    rcases satisfy_pit s e x hx with ⟨_, _, c, hc, c1, c2, c3⟩ | ⟨h1, _⟩
    · obtain ⟨y, hy, y1, y2, y3⟩ := h.shape c hc
      exact ⟨y, hy, by rw [y1, c1], by rw [y2, c2], by rw [y3, c3]⟩
    · exact h.shape x h1

theorem Sat.same {now : Nat} {base : List PitEntry} {T : List Nat} {s s' : St} (h : Sat now base s.pit T)
    (hs : SamePit s s') : Sat now base s'.pit T := by rw [hs.1]; exact h

theorem satisfy_now (s : St) (e : PitEntry) : (satisfy s e).now = s.now := rfl

theorem mem_prefixMatch {pit : List PitEntry} {n : Name} {e : PitEntry} :
    e ∈ prefixMatch pit n ↔ e ∈ pit ∧ dataSatisfies n e = true := by
  simp only [prefixMatch, List.mem_flatMap, List.mem_reverse, List.mem_range, List.mem_filter, Bool.and_eq_true,
    decide_eq_true_eq, Bool.or_eq_true, beq_iff_eq, dataSatisfies]
  constructor
  · rintro ⟨k, hk, he, hname, hc⟩
    refine ⟨he, ?_⟩
    rcases hc with hc | hc
    · right
      refine ⟨hc, ?_⟩
      rw [hname, List.length_take, Nat.min_eq_left (by omega)]
    · left; rw [hname, hc, List.take_length]
  · rintro ⟨he, hs⟩
    rcases hs with hs | ⟨hc, hs⟩
    · exact ⟨n.length, by omega, he, by rw [hs, List.take_length], Or.inr rfl⟩
    · refine ⟨e.name.length, ?_, he, hs.symm, Or.inl hc⟩
      have := congrArg List.length hs
      simp only [List.length_take] at this
      omega

/-- **Data satisfies promptly**: after `procData` for a Data packet without PIT token, every entry
    the Data satisfies by name is scheduled for the current instant. -/
theorem procData_prompt (s : St) (d : DataPkt) (htok : d.tok = none) :
    ∀ x ∈ (procData s d).1.pit, dataSatisfies d.name x = true → x.sched = some s.now := by
  have hnow1 : ({ s with cs := C07.insertData (pitAt s.pit) s.cs d.name d.wire d.fresh } : St).now = s.now :=
    insertData_now _ _ _ _ _
  unfold procData
  simp only
  generalize ({ s with cs := C07.insertData (pitAt s.pit) s.cs d.name d.wire d.fresh } : St) = s1 at hnow1
  have hms : ∀ e, e ∈ dataMatches s1 d ↔ e ∈ s1.pit ∧ dataSatisfies d.name e = true := by
    intro e; unfold dataMatches; rw [htok]; exact mem_prefixMatch
  have hbase : Sat s.now s1.pit s1.pit [] :=
    ⟨fun x _ h => (by cases h), fun x hx => ⟨x, hx, rfl, rfl, rfl⟩⟩
  -- a final state that is `Sat` for the tokens of all matches schedules every satisfied entry
  have hfin : ∀ (p : List PitEntry) (T : List Nat), Sat s.now s1.pit p T → (∀ e ∈ dataMatches s1 d, e.tok ∈ T) →
      ∀ x ∈ p, dataSatisfies d.name x = true → x.sched = some s.now := by
    intro p T hsat hT x hx hsx
    obtain ⟨y, hy, y1, y2, y3⟩ := hsat.shape x hx
    have hys : dataSatisfies d.name y = true := by
      simp only [dataSatisfies, y2, y3] at hsx ⊢; exact hsx
    exact hsat.sched x hx (by rw [← y1]; exact hT y ((hms y).mpr ⟨hy, hys⟩))
  have foldlem : ∀ (e0 : PitEntry) (l : List PitEntry) (acc : St × List Send) (T : List Nat), Sat s.now s1.pit acc.1.pit T → acc.1.now = s.now →
        ∃ T', (∀ t ∈ T, t ∈ T') ∧ (∀ e ∈ l, e.tok ∈ T') ∧ Sat s.now s1.pit (l.foldl (fun (acc : St × List Send) e =>
        (satisfy (((getEntry acc.1.pit e0.tok).getD e0).outs.foldl (fun s r => dnlInsert s d.name r.nonce) acc.1) e,
         acc.2 ++ (((getEntry (((getEntry acc.1.pit e0.tok).getD e0).outs.foldl (fun s r => dnlInsert s d.name r.nonce) acc.1).pit e.tok).getD e).ins.filter
            (fun r => r.face != d.face)).map (fun r => Send.data r.face d.name))) acc).1.pit T' := by
      intro e0 l
      induction l with
      | nil => intro acc T h _; exact ⟨T, fun t ht => ht, by simp, h⟩
      | cons x t ih =>
        intro acc T h hn
        simp only [List.foldl_cons]
        have hsame := fold_dnlInsert_same ((getEntry acc.1.pit e0.tok).getD e0).outs (fun (r : Rec) => (d.name, r.nonce)) acc.1
        have h2 := satisfy_sat (h.same hsame) (by rw [hsame.now_eq]; exact hn) x
        obtain ⟨T', t1, t2, t3⟩ := ih (satisfy _ x, _) (x.tok :: T) h2 (by
          show (satisfy _ x).now = s.now
          rw [satisfy_now, hsame.now_eq]; exact hn)
        refine ⟨T', fun t ht => t1 t (List.mem_cons_of_mem _ ht), ?_, t3⟩
        intro e he
        rcases List.mem_cons.mp he with rfl | he'
        · exact t1 _ (by simp)
        · exact t2 e he'
  generalize hmsl : dataMatches s1 d = ms at hfin
  match ms with
  | [] =>
    intro x hx hsx
    exact absurd ((hms x).mpr ⟨hx, hsx⟩) (by rw [hmsl]; simp)
  | [e] =>
    simp only
    have hsame := fold_dnlInsert_same e.outs (fun (r : Rec) => (d.name, r.nonce)) s1
    have h2 := satisfy_sat (hbase.same hsame) (by rw [hsame.now_eq]; exact hnow1) e
    exact hfin _ _ h2 (by intro e' he'; simp at he'; subst he'; simp)
  | e0 :: e1 :: rest =>
    simp only
    obtain ⟨T', _, t2, t3⟩ := foldlem e0 (e0 :: e1 :: rest) (s1, []) [] hbase hnow1
    exact hfin _ T' t3 t2

end Ndn.C08
