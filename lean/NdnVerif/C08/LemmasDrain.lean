/-
  C08 helper lemmas: the timing invariant `InvT` (the update signal is armed within one period and no
  scheduled entry is more than one period behind it), its preservation, and the drain of the PIT and
  of the dead nonce list when time passes without traffic.
-/
import NdnVerif.C08.LemmasPit3
namespace Ndn.C08
open Ndn.C07 (memb rem prefixes fill prune Minimal OnPath memb_iff mem_rem)

structure InvT (s : St) : Prop where
  armed : s.pitNext ≤ s.now + period
  behind : ∀ e ∈ s.pit, ∀ p, e.sched = some p → s.pitNext ≤ p + period

theorem invT_init (cfg : Cfg) (k : Nat) : InvT (init cfg k) := by
  constructor
  · simp [init, St.now, C07.init]
  · intro e he; cases he

theorem latest_ge (now : Nat) (e : PitEntry) : now ≤ latest now e := by
  unfold latest
  generalize e.ins ++ e.outs = l
  have : ∀ (acc : Nat), now ≤ acc → now ≤ l.foldl (fun m r => max m r.exp) acc := by
    induction l with
    | nil => intro acc h; exact h
    | cons r t ih => intro acc h; simp only [List.foldl_cons]; apply ih; omega
  exact this now (Nat.le_refl _)

/-- what a packet does to the timing: clock and timers untouched, every entry is either untouched
    or freshly scheduled for an instant that is not in the past -/
def Fresh (s s' : St) : Prop :=
  s'.now = s.now ∧ s'.pitNext = s.pitNext ∧ s'.dnlNext = s.dnlNext ∧
  ∀ x ∈ s'.pit, x ∈ s.pit ∨ ∃ p, x.sched = some p ∧ s.now ≤ p

theorem Fresh.invT {s s' : St} (h : Fresh s s') (hi : InvT s) : InvT s' := by
  obtain ⟨h1, h2, _, h4⟩ := h
  constructor
  · rw [h1, h2]; exact hi.armed
  · intro e he p hp
    rw [h2]
    rcases h4 e he with h | ⟨q, hq, hle⟩
    · exact hi.behind e h p hp
    · rw [hq] at hp; cases hp
      have := hi.armed; omega

theorem SamePit.now_eq {s s' : St} (h : SamePit s s') : s'.now = s.now := by
  simp only [St.now, h.2.1]

theorem fresh_setEntry {s b : St} (hb : b.now = s.now ∧ b.pitNext = s.pitNext ∧ b.dnlNext = s.dnlNext)
    (e : PitEntry) (t : Nat) (het : e.tok = t) (hs : ∃ p, e.sched = some p ∧ s.now ≤ p)
    (hold : ∀ x ∈ b.pit, x.tok ≠ t → x ∈ s.pit) (c : C07.St) (hc : c.now = b.cs.now) :
    Fresh s { b with cs := c, pit := setEntry b.pit e } := by
  refine ⟨?_, hb.2.1, hb.2.2, ?_⟩
  · show c.now = s.cs.now
    rw [hc]; exact hb.1
  · intro x hx
    rcases mem_setEntry hx with rfl | ⟨hx', hne⟩
    · exact Or.inr hs
    · exact Or.inl (hold x hx' (by rw [← het]; exact hne))

theorem forward_fresh {s b : St} (hb : b.now = s.now ∧ b.pitNext = s.pitNext ∧ b.dnlNext = s.dnlNext)
    (e : PitEntry) (i : Interest) (hold : ∀ x ∈ b.pit, x.tok ≠ e.tok → x ∈ s.pit) :
    Fresh s (forward b e i).1 := by
  have hl : s.now ≤ latest b.now e := by rw [hb.1]; exact latest_ge _ _
  unfold forward
  simp only
  show Fresh s { b with pit := setEntry b.pit _ }
  refine fresh_setEntry hb _ e.tok ?_ ?_ hold b.cs rfl
  · rfl
  · exact ⟨_, rfl, hl⟩

theorem interestTail_fresh (ord : List Name → List Name) {s b : St}
    (hb : b.now = s.now ∧ b.pitNext = s.pitNext ∧ b.dnlNext = s.dnlNext)
    (e : PitEntry) (i : Interest) (hold : ∀ x ∈ b.pit, x.tok ≠ e.tok → x ∈ s.pit) :
    Fresh s (interestTail ord b e i).1 := by
  unfold interestTail
  simp only
  cases e.ins.find? (fun r => r.face == i.face) with
  | some r0 =>
    simp only
    have hsame := dnlInsert_same b i.name r0.nonce
    apply forward_fresh (b := dnlInsert b i.name r0.nonce) ⟨by rw [hsame.now_eq]; exact hb.1, by rw [hsame.2.2.2.2.2.1]; exact hb.2.1,
      by rw [hsame.2.2.2.2.2.2]; exact hb.2.2⟩
    rw [hsame.1]; exact hold
  | none =>
    simp only
    have hnow : (C07.findData ord b.cs i.name i.cbp i.mbf).1.now = b.cs.now := (findData_frame ord b.cs _ _ _).2.2
    cases (C07.findData ord b.cs i.name i.cbp i.mbf).2 with
    | none =>
      simp only
      exact forward_fresh (b := { b with cs := (C07.findData ord b.cs i.name i.cbp i.mbf).1 })
        ⟨by show (C07.findData ord b.cs i.name i.cbp i.mbf).1.now = s.cs.now; rw [hnow]; exact hb.1, hb.2.1, hb.2.2⟩ _ i hold
    | some qa =>
      obtain ⟨q, a⟩ := qa
      simp only
      refine fresh_setEntry hb _ e.tok ?_ ?_ hold _ hnow
      · rfl
      · refine ⟨_, rfl, ?_⟩
        rw [← hb.1]; exact latest_ge _ _

theorem procInterest_fresh (ord : List Name → List Name) (s : St) (i : Interest) (_hi : Inv8 s) :
    Fresh s (procInterest ord s i).1 := by
  have hrefl : Fresh s s := ⟨rfl, rfl, rfl, fun x hx => Or.inl hx⟩
  unfold procInterest
  split
  · exact hrefl
  · simp only
    cases s.pit.find? (fun e => decide (e.name = i.name ∧ e.cbp = i.cbp ∧ e.mbf = i.mbf)) with
    | some e =>
      simp only
      split
      · exact hrefl
      · exact interestTail_fresh ord (s := s) ⟨rfl, rfl, rfl⟩ e i (fun x hx _ => hx)
    | none =>
      simp only
      refine interestTail_fresh ord (s := s) (b := _) ?_ _ i ?_
      · exact ⟨rfl, rfl, rfl⟩
      intro x hx hne
      rcases List.mem_append.mp hx with h | h
      · exact h
      · simp at h; subst h; exact absurd rfl hne

theorem satisfy_fresh {s b : St} (hf : Fresh s b) (e : PitEntry) : Fresh s (satisfy b e) := by
  obtain ⟨h1, h2, h3, h4⟩ := hf
  unfold satisfy
  refine ⟨h1, h2, h3, ?_⟩
  intro x hx
  rcases mem_setEntry hx with rfl | ⟨hx', _⟩
  · exact Or.inr ⟨_, rfl, by rw [h1]; exact Nat.le_refl _⟩
  · exact h4 x hx'

theorem Fresh.same {s b b' : St} (hf : Fresh s b) (hs : SamePit b b') : Fresh s b' := by
  obtain ⟨h1, h2, h3, h4⟩ := hf
  refine ⟨by rw [hs.now_eq]; exact h1, by rw [hs.2.2.2.2.2.1]; exact h2, by rw [hs.2.2.2.2.2.2]; exact h3, ?_⟩
  rw [hs.1]; exact h4

theorem procData_fresh (s : St) (d : DataPkt) : Fresh s (procData s d).1 := by
  have h1 : Fresh s { s with cs := C07.insertData (pitAt s.pit) s.cs d.name d.wire d.fresh } :=
    ⟨insertData_now _ _ _ _ _, rfl, rfl, fun x hx => Or.inl hx⟩
  unfold procData
  simp only
  generalize ({ s with cs := C07.insertData (pitAt s.pit) s.cs d.name d.wire d.fresh } : St) = s1 at h1
  generalize dataMatches s1 d = ms
  match ms with
  | [] => exact h1
  | [e] =>
    simp only
    exact satisfy_fresh (h1.same (fold_dnlInsert_same e.outs (fun (r : Rec) => (d.name, r.nonce)) s1)) e
  | e0 :: e1 :: rest =>
    simp only
    generalize (e0 :: e1 :: rest) = l
    have : ∀ (acc : St × List Send), Fresh s acc.1 → Fresh s (l.foldl (fun (acc : St × List Send) e =>
        (satisfy (((getEntry acc.1.pit e0.tok).getD e0).outs.foldl (fun s r => dnlInsert s d.name r.nonce) acc.1) e,
         acc.2 ++ (((getEntry (((getEntry acc.1.pit e0.tok).getD e0).outs.foldl (fun s r => dnlInsert s d.name r.nonce) acc.1).pit e.tok).getD e).ins.filter
            (fun r => r.face != d.face)).map (fun r => Send.data r.face d.name))) acc).1 := by
      induction l with
      | nil => intro acc h; exact h
      | cons x t ih =>
        intro acc h
        simp only [List.foldl_cons]
        apply ih
        exact satisfy_fresh (h.same (fold_dnlInsert_same _ (fun (r : Rec) => (d.name, r.nonce)) acc.1)) x
    exact this (s1, []) h1

/-! ### timers -/

theorem fireUpdate_invT {s : St} (hi : Inv8 s) (hord : s.pitNext ≤ s.dnlNext) (_ht : InvT s) : InvT (fireUpdate s) := by
  obtain ⟨_, r2, _, r4, r5, r6⟩ := fireUpdate_spec hi hord
  constructor
  · rw [r2]; exact r4
  · intro e he p hp
    obtain ⟨hes, hnd⟩ := (r6 e).mp he
    simp only [isDue, hp] at hnd
    have : s.pitNext < p := by simpa using hnd
    omega

theorem fireDnl_invT {s : St} (hi : Inv8 s) (hord : s.dnlNext ≤ s.pitNext) (ht : InvT s) : InvT (fireDnl s) := by
  obtain ⟨_, r2, r3, _, r5⟩ := fireDnl_spec hi hord
  constructor
  · rw [r2, r3]; have := ht.armed; have := hi.time.2; omega
  · rw [r3, r5]; exact ht.behind

theorem setNow_invT {s : St} (ht : InvT s) (t : Nat) (h : s.now ≤ t) : InvT (setNow s t) := by
  constructor
  · show s.pitNext ≤ t + period
    have := ht.armed; omega
  · exact ht.behind

theorem advanceTo_invT (tie : Nat → Bool) (f : Nat) {s : St} (hi : Inv8 s) (hT : InvT s) (target : Nat) (ht : s.now ≤ target) :
    InvT (advanceTo tie f s target) := by
  induction f generalizing s with
  | zero => exact hT
  | succ f ih =>
    unfold advanceTo
    split
    · rename_i h
      obtain ⟨r1, r2, _⟩ := fireUpdate_spec hi (by omega)
      exact ih r1 (fireUpdate_invT hi (by omega) hT) (by rw [r2]; exact h.1)
    · rename_i h
      split
      · rename_i h2
        have hord : s.dnlNext ≤ s.pitNext := by
          by_cases hp : s.pitNext ≤ target
          · cases htie : tie s.pitNext <;> simp [hp, htie] at h <;> omega
          · omega
        obtain ⟨r1, r2, _⟩ := fireDnl_spec hi hord
        exact ih r1 (fireDnl_invT hi hord hT) (by rw [r2]; exact h2)
      · rename_i h2
        split
        · rename_i h3
          obtain ⟨r1, r2, _⟩ := fireUpdate_spec hi (by omega)
          exact ih r1 (fireUpdate_invT hi (by omega) hT) (by rw [r2]; exact h3)
        · exact setNow_invT hT _ ht

theorem setCap_invT {s : St} (ht : InvT s) (k : Nat) : InvT (setCap s k) := ⟨ht.armed, ht.behind⟩

/-! ### all reachable states -/

theorem step_inv {s : St} (hi : Inv8 s) (hT : InvT s) (op : Op) : Inv8 (step s op) ∧ InvT (step s op) := by
  cases op with
  | interest ord face name cbp mbf nonce life hop nhf =>
    simp only [step, procInterestPkt]
    split
    · exact ⟨hi, hT⟩
    · split
      · exact ⟨hi, hT⟩
      · split
        · exact ⟨hi, hT⟩
        · cases nonce with
          | none => exact ⟨hi, hT⟩
          | some x => exact ⟨procInterest_inv ord hi _, (procInterest_fresh ord s _ hi).invT hT⟩
  | data d =>
    simp only [step, procDataPkt]
    split
    · exact ⟨hi, hT⟩
    · split
      · exact ⟨hi, hT⟩
      · exact ⟨procData_inv hi d, (procData_fresh s d).invT hT⟩
  | cap k => exact ⟨setCap_inv8 hi k, setCap_invT hT k⟩
  | adv tie fuel d =>
    exact ⟨advanceTo_inv tie fuel hi _ (Nat.le_add_right _ _), advanceTo_invT tie fuel hi hT _ (Nat.le_add_right _ _)⟩

theorem run_inv {s : St} (hi : Inv8 s) (hT : InvT s) (ops : List Op) : Inv8 (run s ops) ∧ InvT (run s ops) := by
  induction ops generalizing s with
  | nil => exact ⟨hi, hT⟩
  | cons op t ih =>
    obtain ⟨h1, h2⟩ := step_inv hi hT op
    exact ih h1 h2

end Ndn.C08
