/-
  C08 specification — what "reclaimed" means, stated on OBSERVATIONS (white-box dumps) only.

  A `Dump` is what the hooks report after an operation: the PIT entries found by walking the name
  tree (with their records and the priority of their expiry-queue item), the tree nodes, the names
  holding a cache entry, the LRU bookkeeping, the reported counters, the dead nonce list.
  The predicates are executable; the driver evaluates them on the IMPLEMENTATION's dumps.

  * `allScheduled`   every PIT entry has an item in the expiry queue (an entry without one is never
                     reaped);
  * `schedBounded`   … whose time is no later than the latest end of lifetime among the Interests
                     recorded in the entry (or now);
  * `notOverdue`     no entry is still present one update period after its scheduled time — with the
                     two above: removed no later than `period` after the latest lifetime, and within
                     `period` of being satisfied (satisfaction schedules the entry for "now");
  * `sizesTrue`      reported sizes = true sizes (PIT, CS, token map, queue, LRU bookkeeping);
  * `quiescentOk`    after all lifetimes: PIT, token map, queue, dead nonce list empty and the tree is
                     exactly the prefix closure of the live cache names (`treeMinimal`);
  * `fibTreeMinimal`, `fibHashMinimal`, `ribMinimal`  the route structures hold exactly what their
                     live entries require.
  Core Lean only.
-/
import NdnVerif.C08.Model
import NdnVerif.C08.ModelFib
namespace Ndn.C08
open Ndn.C07 (memb rem prefixes)

structure Dump where
  now : Nat := 0
  nPit : Nat := 0
  nCs : Nat := 0
  tokMap : Nat := 0
  qLen : Nat := 0
  pit : List PitEntry := []
  nodes : List Name := []
  cs : List Name := []
  lru : List Name := []
  loc : Nat := 0
  dnl : Nat := 0
  dnlq : Nat := 0

def subset (a b : List Name) : Bool := a.all (fun x => memb x b)
def sameSet (a b : List Name) : Bool := subset a b && subset b a

/-- all non-empty prefixes of the given names -/
def closure (names : List Name) : List Name := names.flatMap prefixes

def allScheduled (d : Dump) : Bool := d.pit.all (fun e => e.sched.isSome)

/-- `hz tok` = latest end of lifetime among the Interests recorded so far in entry `tok` -/
def schedBounded (hz : Nat → Nat) (d : Dump) : Bool :=
  d.pit.all (fun e => match e.sched with | some p => decide (p ≤ max (hz e.tok) d.now) | none => true)

def notOverdue (d : Dump) : Bool :=
  d.pit.all (fun e => match e.sched with | some p => decide (d.now < p + period) | none => true)

/-- `satisfied d matched`: every entry the Data just processed satisfies (`matched`) is scheduled for
    removal no later than now — "removed promptly once it is satisfied" -/
def satisfiedPrompt (d : Dump) (matched : PitEntry → Bool) : Bool :=
  d.pit.all (fun e => !matched e || (match e.sched with | some p => decide (p ≤ d.now) | none => true))

/-- does a Data packet named `n` satisfy the entry (by name: equal, or a prefix with CanBePrefix)? -/
def dataSatisfies (n : Name) (e : PitEntry) : Bool :=
  decide (e.name = n) || (e.cbp && decide (n.take e.name.length = e.name))

def sizesTrue (d : Dump) : Bool :=
  d.nPit == d.pit.length && d.tokMap == d.pit.length && d.qLen == (d.pit.filter (fun e => e.sched.isSome)).length &&
  d.nCs == d.cs.length && d.lru.length == d.cs.length && d.loc == d.cs.length

def treeMinimal (d : Dump) : Bool := sameSet d.nodes (closure (d.cs ++ d.pit.map (·.name)))

def quiescentPit (d : Dump) : Bool := d.pit.isEmpty && d.nPit == 0 && d.tokMap == 0 && d.qLen == 0
def quiescentDnl (d : Dump) : Bool := d.dnl == 0 && d.dnlq == 0
def quiescentOk (d : Dump) : Bool := quiescentPit d && quiescentDnl d && sizesTrue d && treeMinimal d

/-- observation of a state of the model -/
def dumpOf (s : St) : Dump :=
  { now := s.now, nPit := s.nPit, nCs := s.cs.nCs, tokMap := s.pit.length,
    qLen := (s.pit.filter (fun e => e.sched.isSome)).length, pit := s.pit, nodes := s.cs.nodes,
    cs := s.cs.cs.keys, lru := s.cs.queue, loc := s.cs.queue.length, dnl := s.dnl.length, dnlq := s.dnl.length }

/-! ### route structures -/

/-- name-tree FIB: `nodes` = non-root nodes, `live` = names with a next hop or a strategy,
    `pfx` = size of fibPrefixes, `withNh` = number of names with a next hop -/
def fibTreeMinimal (nodes live : List Name) (pfx withNh : Nat) : Bool :=
  sameSet nodes (closure live) && pfx == withNh

/-- hash-table FIB: `real` names, `liveReal` those with a next hop or strategy; virtual tables -/
def fibHashMinimal (m : Nat) (real live : List Name) (virt : List (Name × Nat)) (vnames : List (Name × List Name)) : Bool :=
  let long := real.filter (fun n => decide (n.length ≥ m))
  let vs := long.map (fun n => n.take m)
  sameSet real live &&
  sameSet (virt.map (·.1)) vs && sameSet (vnames.map (·.1)) vs &&
  virt.all (fun p => p.2 == maxLen (long.filter (fun n => decide (n.take m = p.1)))) &&
  vnames.all (fun p => sameSet p.2 (long.filter (fun n => decide (n.take m = p.1)))) &&
  virt.length == vnames.length && decide ((virt.map (·.1)).Nodup)

def ribMinimal (nodes live : List Name) : Bool := sameSet nodes (closure live)

/-- the FIB holds nothing beyond what the RIB's live routes require: every next-hop face of a FIB
    prefix is the face of a route registered at that prefix or at one of its prefixes (own routes
    and inherited ones are the only sources of next hops; the exact flattening is C06's subject) -/
def fibJustified (fibnh routes : List (Name × List Nat)) : Bool :=
  fibnh.all fun p => p.2.all fun f =>
    routes.any fun q => decide (p.1.take q.1.length = q.1) && q.2.any (· == f)

end Ndn.C08
