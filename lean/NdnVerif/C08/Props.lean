/-
  C08 — property theorems only (helper lemmas: LemmasPit*.lean, LemmasDrain.lean, LemmasFib.lean and
  the tree lemmas of NdnVerif/C07).  All statements are about the models of Model.lean / ModelFib.lean
  for EVERY history: any list of `Op` (Interests, Data, capacity changes, passages of time with any
  resolution `tie` of simultaneous timers and any fuel) from `init cfg cap`, any FIB configuration
  `cfg`, any capacity; any list of FIB / RIB operations.

  Assumptions: A-hash (tables keyed by names instead of 64-bit hashes; dead nonce list keyed by
  (name, nonce)), A-tok (PIT tokens are distinct: the code draws random tokens until unused; the
  model numbers entries).
-/
import NdnVerif.C08.LemmasDrain
import NdnVerif.C08.LemmasFib
import NdnVerif.C08.LemmasHash2
import NdnVerif.C08.LemmasDnl
import NdnVerif.C08.LemmasPrompt
namespace Ndn.C08
open Ndn.C07 (Minimal OnPath prefixes)

/-- every reachable state satisfies the structural invariant and the timing invariant -/
theorem reachable_inv (cfg : Cfg) (cap : Nat) (ops : List Op) :
    Inv8 (run (init cfg cap) ops) ∧ InvT (run (init cfg cap) ops) :=
  run_inv (inv8_init cfg cap) (invT_init cfg cap) ops

/-- **pit_entry_scheduled.** In every reachable state every PIT entry has an item in the expiry queue
    (`sched = some p`) — so it will be reaped — and its time `p` is no later than the latest end of
    lifetime among the Interests recorded in it (`horizon`, which also bounds the expiration of every
    in- and out-record) or the current instant.  This includes entries created for Interests that
    were answered from the Content Store. -/
theorem pit_entry_scheduled (cfg : Cfg) (cap : Nat) (ops : List Op) :
    let s := run (init cfg cap) ops
    (∀ e ∈ s.pit, ∃ p, e.sched = some p ∧ p ≤ max e.horizon s.now) ∧
    (∀ e ∈ s.pit, ∀ r ∈ e.ins ++ e.outs, r.exp ≤ e.horizon) ∧
    allScheduled (dumpOf s) = true := by
  intro s
  have h := (reachable_inv cfg cap ops).1
  refine ⟨h.sched, h.recs, ?_⟩
  simp only [allScheduled, dumpOf, List.all_eq_true]
  intro e he
  obtain ⟨p, hp, _⟩ := h.sched e he
  simp [hp]

example : (run (init { nexthops := [(3, 10)] } 4)
    [Op.data ⟨3, [⟨8, [97]⟩], 0, none, [1]⟩, Op.interest id 1 [⟨8, [97]⟩] false false (some 7) 1000 none none]).pit.map (·.sched)
    = [some 0] := by decide

/-- **pit_removed_by.** Whenever the forwarder is at rest (every armed timer lies in the future, as
    after each `advanceTo` that had enough fuel), no PIT entry is still present one update period
    after its scheduled time; one `Update` removes every entry whose time has come, and two
    consecutive updates are at most one period apart.  With `pit_entry_scheduled`: an entry is gone
    at most `period` (100 ms) after the latest lifetime recorded in it, and at most `period` after it
    was satisfied (satisfaction schedules it for "now"). -/
theorem pit_removed_by (cfg : Cfg) (cap : Nat) (ops : List Op) :
    let s := run (init cfg cap) ops
    (s.now < s.pitNext → notOverdue (dumpOf s) = true) ∧
    (s.pitNext ≤ s.dnlNext → (∀ x ∈ (fireUpdate s).pit, isDue s.pitNext x = false) ∧
      (fireUpdate s).pitNext ≤ s.pitNext + period) := by
  intro s
  obtain ⟨h, hT⟩ := reachable_inv cfg cap ops
  constructor
  · intro hrest
    simp only [notOverdue, dumpOf, List.all_eq_true]
    intro e he
    cases hs : e.sched with
    | none => rfl
    | some p =>
      have hb : s.pitNext ≤ p + period := hT.behind e he p hs
      exact decide_eq_true (by show s.now < p + period; omega)
  · intro hord
    obtain ⟨_, _, _, r4, _, r6⟩ := fireUpdate_spec h hord
    exact ⟨fun x hx => ((r6 x).mp hx).2, r4⟩

/-- **data_satisfied_promptly.** A Data packet (matched by name) schedules every PIT entry it
    satisfies — exact name, or a prefix with CanBePrefix; one match or many; whatever faces the
    in-records came from — for the current instant, so by `pit_removed_by` the entry is gone within
    one update period.  (`satisfiedPrompt` is the predicate the driver evaluates on the real dump.) -/
theorem data_satisfied_promptly (s : St) (d : DataPkt) (htok : d.tok = none) :
    (∀ x ∈ (procData s d).1.pit, dataSatisfies d.name x = true → x.sched = some s.now) ∧
    satisfiedPrompt (dumpOf (procData s d).1) (dataSatisfies d.name) = true := by
  have h := procData_prompt s d htok
  refine ⟨h, ?_⟩
  have hnow : (procData s d).1.now = s.now := (procData_fresh s d).1
  unfold satisfiedPrompt
  rw [List.all_eq_true]
  intro x hx
  have hx' : x ∈ (procData s d).1.pit := hx
  cases hs : dataSatisfies d.name x with
  | false => rfl
  | true =>
    have hsch := h x hx' hs
    have hn : (dumpOf (procData s d).1).now = s.now := hnow
    simp [hsch, hn]

theorem advanceTo_pit_sub (tie : Nat → Bool) (f : Nat) {s : St} (hi : Inv8 s) (target : Nat) :
    ∀ x ∈ (advanceTo tie f s target).pit, x ∈ s.pit := by
  induction f generalizing s with
  | zero => intro x hx; exact hx
  | succ f ih =>
    unfold advanceTo
    split
    · rename_i h
      obtain ⟨r1, _, _, _, _, r6⟩ := fireUpdate_spec hi (by omega)
      intro x hx; exact ((r6 x).mp (ih r1 x hx)).1
    · rename_i h
      split
      · rename_i h2
        have hord : s.dnlNext ≤ s.pitNext := by
          by_cases hp : s.pitNext ≤ target
          · cases htie : tie s.pitNext <;> simp [hp, htie] at h <;> omega
          · omega
        obtain ⟨r1, _, _, _, r5⟩ := fireDnl_spec hi hord
        intro x hx; have := ih r1 x hx; rw [r5] at this; exact this
      · split
        · rename_i h3
          obtain ⟨r1, _, _, _, _, r6⟩ := fireUpdate_spec hi (by omega)
          intro x hx; exact ((r6 x).mp (ih r1 x hx)).1
        · intro x hx; exact hx

/-- **quiescent_drain.** From any reachable state, let time pass without traffic until `target`, at
    least one update period after every scheduled expiry (`m` bounds them; by `pit_entry_scheduled`
    `m` can be taken as the latest lifetime recorded, or now).  If the timers were really run until
    then (`target < pitNext` afterwards, i.e. the fuel sufficed) the PIT is empty, its reported size
    and the token map are 0, the reported CS size is the true size, and the name tree is exactly the
    prefix closure of the names that still hold a cache entry: no dead branch from expiry or
    eviction. -/
theorem quiescent_drain (cfg : Cfg) (cap : Nat) (ops : List Op) (tie : Nat → Bool) (fuel m target : Nat) :
    let s := run (init cfg cap) ops
    let s' := advanceTo tie fuel s target
    (∀ e ∈ s.pit, ∀ p, e.sched = some p → p ≤ m) → s.now ≤ target → m + period ≤ target → target < s'.pitNext →
    s'.pit = [] ∧ s'.nPit = 0 ∧ (dumpOf s').tokMap = 0 ∧ (dumpOf s').qLen = 0 ∧
    s'.cs.nCs = s'.cs.cs.length ∧ s'.cs.queue.length = s'.cs.cs.length ∧
    Minimal s'.cs.nodes s'.cs.cs.keys := by
  intro s s' hm hnow hq hrun
  obtain ⟨h, hT⟩ := reachable_inv cfg cap ops
  have h' : Inv8 s' := advanceTo_inv tie fuel h target hnow
  have hT' : InvT s' := advanceTo_invT tie fuel h hT target hnow
  have hempty : s'.pit = [] := by
    apply List.eq_nil_iff_forall_not_mem.mpr
    intro x hx
    have hxs : x ∈ s.pit := advanceTo_pit_sub tie fuel h target x hx
    obtain ⟨p, hp, _⟩ := h'.sched x hx
    have h1 := hT'.behind x hx p hp
    have h2 := hm x hxs p hp
    omega
  have hmin := h'.minimal
  rw [hempty] at hmin
  refine ⟨hempty, by rw [h'.npit, hempty]; rfl, by simp [dumpOf, hempty], by simp [dumpOf, hempty],
    h'.cs.ncs, h'.cs.qlen, ?_⟩
  simpa using hmin

example :
    let s := run (init { nexthops := [(3, 10)] } 4) [Op.interest id 1 [⟨8, [97]⟩] false false (some 7) 1000000 none none]
    (advanceTo (fun _ => true) 50 s 200000000).pit = [] ∧ s.pit.length = 1 := by decide

-- an Interest pinned to a face that does not exist creates an entry that is scheduled and drains
example :
    let s := run (init { nexthops := [(3, 10)] } 4) [Op.interest id 1 [⟨8, [97]⟩] false false (some 7) 1000000 none (some 9)]
    s.pit.map (·.sched) = [some 1000000] ∧ (advanceTo (fun _ => true) 50 s 200000000).pit = [] := by decide

/-- **tree minimality** (every reachable state, not only at quiescence): the node set of the PIT-CS
    name tree is exactly the set of non-empty prefixes of the names holding a cache entry or a PIT
    entry; the reported sizes are the true sizes; PIT tokens are distinct. -/
theorem tree_minimal (cfg : Cfg) (cap : Nat) (ops : List Op) :
    let s := run (init cfg cap) ops
    Minimal s.cs.nodes (s.cs.cs.keys ++ s.pit.map (·.name)) ∧
    s.nPit = s.pit.length ∧ s.cs.nCs = s.cs.cs.length ∧ s.cs.queue.length = s.cs.cs.length ∧
    (s.pit.map (·.tok)).Nodup := by
  intro s
  have h := (reachable_inv cfg cap ops).1
  exact ⟨h.minimal, h.npit, h.cs.ncs, h.cs.qlen, h.toks⟩

/-- the executable predicate used by the driver agrees with `Minimal` -/
theorem sameSet_closure_iff (nodes L : List Name) : sameSet nodes (closure L) = true ↔ Minimal nodes L := by
  simp only [sameSet, subset, Bool.and_eq_true, List.all_eq_true, C07.memb_iff, closure, List.mem_flatMap, Minimal, OnPath]
  constructor
  · rintro ⟨h1, h2⟩ x
    exact ⟨h1 x, fun ⟨m, hm, hp⟩ => h2 x ⟨m, hm, hp⟩⟩
  · intro h
    exact ⟨fun x hx => (h x).mp hx, fun x hx => (h x).mpr hx⟩

theorem tree_minimal_spec (cfg : Cfg) (cap : Nat) (ops : List Op) :
    treeMinimal (dumpOf (run (init cfg cap) ops)) = true ∧ sizesTrue (dumpOf (run (init cfg cap) ops)) = true := by
  obtain ⟨h1, h2, h3, h4, _⟩ := tree_minimal cfg cap ops
  constructor
  · exact (sameSet_closure_iff _ _).mpr h1
  · simp [sizesTrue, dumpOf, h2, h3, h4, C07.CsMap.keys]

/-- **dnl_drains.** In every reachable state every dead-nonce record expires exactly its configured
    lifetime after its insertion (`exp = born + dnlLife`, `born ≤ now`), and whenever the forwarder is
    at rest (the reaper's next tick lies in the future) a record that is still present is younger than
    `lifetime + (⌊rank/100⌋ + 1)` ticks, where `rank` is the number of records that were in the list
    when it was inserted (the reaper removes at most `dnlBatch` = 100 expired records per 100 ms tick,
    oldest first).  So every record disappears at most that long after its insertion, for every
    traffic history. -/
theorem dnl_drains (cfg : Cfg) (cap : Nat) (ops : List Op) :
    let s := run (init cfg cap) ops
    (∀ x ∈ s.dnl, x.exp = x.born + cfg.dnlLife ∧ x.born ≤ s.now) ∧
    (s.now < s.dnlNext → ∀ x ∈ s.dnl, s.now < x.born + cfg.dnlLife + period * (x.rank / dnlBatch + 1)) := by
  intro s
  obtain ⟨hi, hT⟩ := inv8_init cfg cap, invT_init cfg cap
  have hd : DInv s := run_dinv hi hT (dinv_init cfg cap) ops
  have hcfg : s.cfg = cfg := run_cfg (init cfg cap) ops
  have hborn : ∀ x ∈ s.dnl, x.exp = x.born + cfg.dnlLife ∧ x.born ≤ s.now := by
    intro x hx; have := hd.born x hx; rw [hcfg] at this; exact this
  refine ⟨hborn, ?_⟩
  intro hrest x hx
  obtain ⟨i, hi', rfl⟩ := List.getElem_of_mem hx
  have hr := hd.rank i hi'
  obtain ⟨e1, _⟩ := hborn _ hx
  simp only [ticksAfter] at hr
  have hp := period_pos
  -- at most rank/100 ticks have fired since the expiry
  have hc : (s.dnlNext - 1 - s.dnl[i].exp) / period ≤ s.dnl[i].rank / dnlBatch := by
    rw [Nat.le_div_iff_mul_le (by decide)]
    rw [Nat.mul_comm]; omega
  have hlt : s.dnlNext - 1 - s.dnl[i].exp < period * (s.dnl[i].rank / dnlBatch + 1) := by
    have := Nat.lt_mul_div_succ (s.dnlNext - 1 - s.dnl[i].exp) hp
    have h2 : period * ((s.dnlNext - 1 - s.dnl[i].exp) / period + 1) ≤ period * (s.dnl[i].rank / dnlBatch + 1) :=
      Nat.mul_le_mul_left _ (by omega)
    omega
  omega

example :
    let s := run (init { nexthops := [(3, 10)], dnlLife := 50 } 4)
      [Op.interest id 1 [⟨8, [97]⟩] false false (some 7) 1000 none none, Op.interest id 1 [⟨8, [97]⟩] false false (some 8) 1000 none none]
    s.dnl.map (fun x => (x.nonce, x.exp, x.born, x.rank)) = [(7, 50, 0, 0)] := by decide

/-- corollary: at rest, once every record's deadline has passed, the dead nonce list is empty -/
theorem dnl_empty_at_quiescence (cfg : Cfg) (cap : Nat) (ops : List Op) :
    let s := run (init cfg cap) ops
    s.now < s.dnlNext →
    (∀ x ∈ s.dnl, x.born + cfg.dnlLife + period * (x.rank / dnlBatch + 1) ≤ s.now) → s.dnl = [] := by
  intro s hrest hall
  apply List.eq_nil_iff_forall_not_mem.mpr
  intro x hx
  have h1 : s.now < x.born + cfg.dnlLife + period * (x.rank / dnlBatch + 1) := (dnl_drains cfg cap ops).2 hrest x hx
  have h2 : x.born + cfg.dnlLife + period * (x.rank / dnlBatch + 1) ≤ s.now := hall x hx
  omega

/-- one tick of the reaper when every record is already past its expiry: `dnlBatch` records go (all
    of them if fewer), none is added, and the premise persists -/
theorem dnl_tick (s : St) (h : ∀ x ∈ s.dnl, x.exp < s.dnlNext) :
    (fireDnl s).dnl.length = s.dnl.length - dnlBatch ∧ (∀ x ∈ (fireDnl s).dnl, x.exp < (fireDnl s).dnlNext) := by
  have hall : ∀ (l : List Dn), (∀ x ∈ l, x.exp < s.dnlNext) →
      l.takeWhile (fun x => decide (x.exp < s.dnlNext)) = l := by
    intro l
    induction l with
    | nil => intro _; rfl
    | cons a t ih =>
      intro hl
      have ha := hl a (by simp)
      simp only [List.takeWhile_cons, ha, decide_true, ↓reduceIte]
      rw [ih (fun x hx => hl x (by simp [hx]))]
  have hall := hall s.dnl h
  unfold fireDnl
  simp only [hall, List.length_drop]
  constructor
  · omega
  · intro x hx
    have := h x (List.mem_of_mem_drop hx)
    show x.exp < s.dnlNext + period
    omega

/-- `n` consecutive ticks of the dead-nonce reaper -/
def ticks : Nat → St → St
  | 0, s => s
  | n + 1, s => ticks n (fireDnl s)

theorem dnl_ticks (s : St) (h : ∀ x ∈ s.dnl, x.exp < s.dnlNext) (n : Nat) :
    (ticks n s).dnl.length = s.dnl.length - dnlBatch * n := by
  induction n generalizing s with
  | zero => simp [ticks]
  | succ n ih =>
    obtain ⟨h1, h2⟩ := dnl_tick s h
    simp only [ticks]
    rw [ih (fireDnl s) h2, h1]
    simp only [Nat.mul_succ]; omega

example : (ticks 1 { dnl := [⟨[], 1, 5, 0, 0⟩, ⟨[], 2, 7, 0, 1⟩], dnlNext := 10 }).dnl = [] := by decide

/-- **fib_tree_minimal.** After every history of InsertNextHop / RemoveNextHop / ClearNextHops /
    SetStrategy / UnSetStrategy the name-tree FIB holds exactly the nodes on paths to prefixes with a
    next hop or a strategy. -/
theorem fib_tree_minimal (ops : List FibOp) :
    let f := ({} : FibTree).run ops
    Minimal f.nodes f.liveList ∧ (∀ m, m ∈ f.liveList ↔ f.live m = true) ∧
    -- the fibPrefixes side table holds exactly the prefixes with a next hop, each once
    f.pfx.Nodup ∧ (∀ m, m ∈ f.pfx ↔ (aget [] f.nh m).isEmpty = false) := by
  intro f
  have hp := FibTree.run_pfx FibTree.init_pfx ops
  exact ⟨FibTree.run_inv FibTree.init_inv ops, fun m => FibTree.mem_liveList, hp.nodup, hp.exact⟩

example : (({} : FibTree).run [FibOp.ins [⟨8, [97]⟩, ⟨8, [98]⟩, ⟨8, [99]⟩] 1, FibOp.rem [⟨8, [97]⟩, ⟨8, [98]⟩, ⟨8, [99]⟩] 1]).nodes = [] := by
  decide

/-- **fib_hash_minimal.** After every history of the five mutators on the hash-table FIB, for every
    virtual-name length `m ≥ 1`:
    * the real table has one entry per name and every entry carries a next hop or a strategy
      (so it holds exactly the prefixes with next hops or a strategy);
    * `virtTable` and `virtTableNames` have the same keys, one entry each, namely exactly the
      `m`-component prefixes of the real names of at least `m` components;
    * the names recorded under a virtual name are exactly those real names — at least one — and
      `md` is the length of the longest of them.
    (`m = 0` is excluded: the constructor puts "/" into the real table without a virtual entry.) -/
theorem fib_hash_minimal (m : Nat) (hm : 1 ≤ m) (ops : List FibOp) :
    let f := ({ m := m } : FibHash).run ops
    (keys f.real).Nodup ∧ (∀ n ∈ keys f.real, liveE (aget ([], false) f.real n) = true) ∧
    (keys f.vnames).Nodup ∧ (keys f.virt).Nodup ∧ (∀ v, v ∈ keys f.virt ↔ v ∈ keys f.vnames) ∧
    (∀ v, v ∈ keys f.vnames ↔ ∃ x, x ∈ keys f.real ∧ m ≤ x.length ∧ x.take m = v) ∧
    (∀ v, v ∈ keys f.vnames →
      (∀ x, x ∈ aget [] f.vnames v ↔ (x ∈ keys f.real ∧ m ≤ x.length ∧ x.take m = v)) ∧
      aget [] f.vnames v ≠ [] ∧ aget 0 f.virt v = maxLen (aget [] f.vnames v)) := by
  intro f
  obtain ⟨h, hfm⟩ := FibHash.run_inv (FibHash.init_inv m hm) ops
  have hfm' : f.m = m := hfm
  have hv := h.virt
  rw [hfm'] at hv
  refine ⟨h.rnodup, fun n hn => h.live n hn (by simp), hv.nodupN, hv.nodupT, hv.same, ?_, ?_⟩
  · intro v
    constructor
    · intro hk
      have hne := hv.nonempty v hk
      cases hl : aget [] f.vnames v with
      | nil => exact absurd hl hne
      | cons x t =>
        have hx : x ∈ aget [] f.vnames v := by rw [hl]; simp
        exact ⟨x, (hv.names v hk x).mp hx⟩
    · rintro ⟨x, hx, hl, rfl⟩
      exact hv.covered x hx hl
  · intro v hk
    exact ⟨hv.names v hk, hv.nonempty v hk, hv.md v ((hv.same v).mpr hk)⟩

example : (({ m := 2 } : FibHash).run [FibOp.ins [⟨8, [97]⟩, ⟨8, [98]⟩, ⟨8, [99]⟩] 1, FibOp.ins [⟨8, [97]⟩, ⟨8, [98]⟩, ⟨8, [99]⟩, ⟨8, [100]⟩] 1,
    FibOp.rem [⟨8, [97]⟩, ⟨8, [98]⟩, ⟨8, [99]⟩, ⟨8, [100]⟩] 1, FibOp.rem [⟨8, [97]⟩, ⟨8, [98]⟩, ⟨8, [99]⟩] 1]).virt = [] := by decide

/-- **rib_minimal.** After every history of AddRoute / RemoveRoute / CleanUpFace the RIB tree holds
    exactly the nodes on paths to names with at least one route. -/
theorem rib_minimal (ops : List RibOp) :
    let r := ({} : Rib).run ops
    Minimal r.nodes r.liveList ∧ ∀ m, m ∈ r.liveList ↔ r.live m = true := by
  intro r
  exact ⟨Rib.run_inv Rib.init_inv ops, fun m => Rib.mem_liveList⟩

example : (({} : Rib).run [RibOp.add [⟨8, [97]⟩, ⟨8, [98]⟩] 1 0, RibOp.add [⟨8, [97]⟩] 2 0, RibOp.cleanUp 1]).nodes = [[⟨8, [97]⟩]] := by
  decide

/-! ### the executable predicates of the driver hold on the models' dumps -/

theorem sameSet_iff (a b : List Name) : sameSet a b = true ↔ ∀ x, x ∈ a ↔ x ∈ b := by
  simp only [sameSet, subset, Bool.and_eq_true, List.all_eq_true, C07.memb_iff]
  constructor
  · rintro ⟨h1, h2⟩ x; exact ⟨h1 x, h2 x⟩
  · intro h; exact ⟨fun x hx => (h x).mp hx, fun x hx => (h x).mpr hx⟩

theorem rib_minimal_spec (ops : List RibOp) :
    ribMinimal (({} : Rib).run ops).nodes (({} : Rib).run ops).liveList = true :=
  (sameSet_closure_iff _ _).mpr (rib_minimal ops).1

theorem fib_tree_minimal_spec (ops : List FibOp) :
    sameSet (({} : FibTree).run ops).nodes (closure (({} : FibTree).run ops).liveList) = true :=
  (sameSet_closure_iff _ _).mpr (fib_tree_minimal ops).1

theorem aget_of_mem_nodup {β : Type} (d : β) (m : List (Name × β)) (h : (keys m).Nodup) {p : Name × β} (hp : p ∈ m) :
    aget d m p.1 = p.2 := by
  induction m with
  | nil => cases hp
  | cons q t ih =>
    obtain ⟨k, w⟩ := q
    simp only [keys, List.map_cons, List.nodup_cons] at h
    rcases List.mem_cons.mp hp with rfl | hp'
    · simp [aget]
    · have hne : ¬ k = p.1 := by
        intro e; apply h.1; rw [e]; exact List.mem_map.mpr ⟨p, hp', rfl⟩
      simp only [aget, hne, ↓reduceIte]
      exact ih h.2 hp'

theorem maxLen_congr {a b : List Name} (h : ∀ x, x ∈ a ↔ x ∈ b) : maxLen a = maxLen b := by
  cases hb : b with
  | nil =>
    have : a = [] := List.eq_nil_iff_forall_not_mem.mpr (fun x hx => by have := (h x).mp hx; rw [hb] at this; cases this)
    rw [this]
  | cons y t =>
    have hne : b ≠ [] := by rw [hb]; simp
    obtain ⟨z, hz, hzl⟩ := maxLen_attained hne
    rw [← hb]
    exact maxLen_eq_of (fun x hx => mem_le_maxLen ((h x).mp hx)) ⟨z, (h z).mpr hz, hzl⟩

/-- the predicate `fibHashMinimal` the driver evaluates on the real code's dump holds on the dump of
    the model after every history -/
theorem fib_hash_minimal_spec (m : Nat) (hm : 1 ≤ m) (ops : List FibOp) :
    let f := ({ m := m } : FibHash).run ops
    fibHashMinimal m (keys f.real) ((keys f.real).filter (fun n => liveE (aget ([], false) f.real n))) f.virt f.vnames = true := by
  intro f
  obtain ⟨_, hlive, hnN, hnT, hsame, hkeys, hrec⟩ := fib_hash_minimal m hm ops
  have hlong : ∀ v x, x ∈ ((keys f.real).filter (fun n => decide (n.length ≥ m))).filter (fun n => decide (n.take m = v)) ↔
      (x ∈ keys f.real ∧ m ≤ x.length ∧ x.take m = v) := by
    intro v x; simp only [List.mem_filter, decide_eq_true_eq, ge_iff_le]; constructor
    · rintro ⟨⟨h1, h2⟩, h3⟩; exact ⟨h1, h2, h3⟩
    · rintro ⟨h1, h2, h3⟩; exact ⟨⟨h1, h2⟩, h3⟩
  have hvs : ∀ v, v ∈ ((keys f.real).filter (fun n => decide (n.length ≥ m))).map (fun n => n.take m) ↔ v ∈ keys f.vnames := by
    intro v
    rw [hkeys v]
    simp only [List.mem_map, List.mem_filter, decide_eq_true_eq, ge_iff_le]
    constructor
    · rintro ⟨x, ⟨h1, h2⟩, h3⟩; exact ⟨x, h1, h2, h3⟩
    · rintro ⟨x, h1, h2, h3⟩; exact ⟨x, ⟨h1, h2⟩, h3⟩
  unfold fibHashMinimal
  simp only [Bool.and_eq_true, List.all_eq_true, decide_eq_true_eq, beq_iff_eq]
  refine ⟨⟨⟨⟨⟨⟨?_, ?_⟩, ?_⟩, ?_⟩, ?_⟩, ?_⟩, ?_⟩
  · rw [sameSet_iff]; intro x
    simp only [List.mem_filter]
    exact ⟨fun hx => ⟨hx, hlive x hx⟩, fun hx => hx.1⟩
  · rw [sameSet_iff]; intro v
    show v ∈ keys f.virt ↔ _
    rw [hvs v, hsame v]
  · rw [sameSet_iff]; intro v
    show v ∈ keys f.vnames ↔ _
    rw [hvs v]
  · intro p hp
    have hk : p.1 ∈ keys f.virt := List.mem_map.mpr ⟨p, hp, rfl⟩
    have hkN := (hsame p.1).mp hk
    obtain ⟨h1, _, h3⟩ := hrec p.1 hkN
    rw [← aget_of_mem_nodup 0 f.virt hnT hp, h3]
    apply maxLen_congr
    intro x; rw [h1 x, hlong p.1 x]
  · intro p hp
    have hkN : p.1 ∈ keys f.vnames := List.mem_map.mpr ⟨p, hp, rfl⟩
    obtain ⟨h1, _, _⟩ := hrec p.1 hkN
    rw [sameSet_iff]; intro x
    rw [← aget_of_mem_nodup [] f.vnames hnN hp, h1 x, hlong p.1 x]
  · have hperm : (keys f.virt).Perm (keys f.vnames) := (List.perm_ext_iff_of_nodup hnT hnN).mpr hsame
    have := hperm.length_eq
    simpa [keys] using this
  · exact hnT

end Ndn.C08
