/-
  C08 — property theorems only (helper lemmas live in Lemmas*.lean).
-/
import NdnVerif.C08.Spec
namespace Ndn.C08

theorem init_pit_empty (cfg : Cfg) (k : Nat) : (init cfg k).pit = [] := rfl

end Ndn.C08
