/-
  C08 helper lemmas: preservation of `Inv8` by Data processing, PIT update (expiry), dead-nonce tick,
  capacity changes and the passage of time.
-/
import NdnVerif.C08.LemmasPit2
namespace Ndn.C08
open Ndn.C07 (memb rem prefixes fill prune Minimal OnPath memb_iff mem_rem)

/-! ### Data -/

/-- marking one entry satisfied: records cleared, scheduled for now -/
theorem satisfy_inv {s : St} (hi : Inv8 s) (e : PitEntry) : Inv8 (satisfy s e) := by
  unfold satisfy
  simp only
  cases hg : getEntry s.pit e.tok with
  | some c =>
    have hc : c ∈ s.pit := List.mem_of_find?_eq_some hg
    have hct : c.tok = e.tok := by
      have := List.find?_some hg
      simpa using this
    simp only [Option.getD_some]
    exact setEntry_invx (hi.toX e.tok) c _ hc hct hct rfl ⟨_, rfl, by omega⟩ (by intro r hr; simp at hr)
  | none =>
    have hno : ∀ x ∈ s.pit, x.tok ≠ e.tok := by
      intro x hx
      have := List.find?_eq_none.mp hg x hx
      simpa using this
    simp only [Option.getD_none]
    have : setEntry s.pit { e with ins := [], outs := [], sched := some s.now, satisfied := true } = s.pit := by
      unfold setEntry
      conv => rhs; rw [← List.map_id s.pit]
      apply List.map_congr_left
      intro x hx
      have : ¬ x.tok = e.tok := hno x hx
      simp [this]
    rw [this]; exact hi

theorem procData_inv {s : St} (hi : Inv8 s) (d : DataPkt) : Inv8 (procData s d).1 := by
  -- after the Content-Store insertion
  have h1 : Inv8 { s with cs := C07.insertData (pitAt s.pit) s.cs d.name d.wire d.fresh } := by
    have hnow := insertData_now (pitAt s.pit) s.cs d.name d.wire d.fresh
    constructor
    · exact C07.insertData_inv _ hi.cs _ _ _
    · simp only [St.now, hnow]; exact hi.sched
    · exact hi.recs
    · exact hi.npit
    · exact hi.toks
    · exact hi.tokb
    · exact C07.insertData_minimal (pitAt s.pit) (s.pit.map (·.name)) (fun m => pitAt_iff) hi.cs hi.minimal _ _ _
    · simp only [St.now, hnow]; exact hi.time
  unfold procData
  simp only
  generalize ({ s with cs := C07.insertData (pitAt s.pit) s.cs d.name d.wire d.fresh } : St) = s1 at h1
  generalize dataMatches s1 d = ms
  match ms with
  | [] => exact h1
  | [e] =>
    simp only
    exact satisfy_inv ((fold_dnlInsert_same e.outs (fun (r : Rec) => (d.name, r.nonce)) s1).inv h1) e
  | e0 :: e1 :: rest =>
    simp only
    generalize (e0 :: e1 :: rest) = l
    have : ∀ (acc : St × List Send), Inv8 acc.1 → Inv8 (l.foldl (fun (acc : St × List Send) e =>
        (satisfy (((getEntry acc.1.pit e0.tok).getD e0).outs.foldl (fun s r => dnlInsert s d.name r.nonce) acc.1) e,
         acc.2 ++ (((getEntry (((getEntry acc.1.pit e0.tok).getD e0).outs.foldl (fun s r => dnlInsert s d.name r.nonce) acc.1).pit e.tok).getD e).ins.filter
            (fun r => r.face != d.face)).map (fun r => Send.data r.face d.name))) acc).1 := by
      induction l with
      | nil => intro acc h; exact h
      | cons x t ih =>
        intro acc h
        simp only [List.foldl_cons]
        apply ih
        exact satisfy_inv ((fold_dnlInsert_same _ (fun (r : Rec) => (d.name, r.nonce)) acc.1).inv h) x
    exact this (s1, []) h1

/-! ### expiry -/

theorem removeEntry_inv {s : St} (hi : Inv8 s) {e : PitEntry} (he : e ∈ s.pit) : Inv8 (removeEntry s e) := by
  obtain ⟨hmem, hlen, hnd⟩ := removeSwap_spec hi.toks he
  have hsub : ∀ x, x ∈ removeSwap s.pit e → x ∈ s.pit := fun x hx => ((hmem x).mp hx).1
  have hnames : ∀ m, m ∈ (removeSwap s.pit e).map (·.name) → m ∈ s.pit.map (·.name) := by
    intro m hm
    simp only [List.mem_map] at hm ⊢
    obtain ⟨x, hx, rfl⟩ := hm
    exact ⟨x, hsub x hx, rfl⟩
  have hpath : ∀ p ∈ prefixes e.name, p ∈ s.cs.nodes := by
    intro p hp
    exact (hi.minimal p).mpr ⟨e.name, List.mem_append_right _ (List.mem_map.mpr ⟨e, he, rfl⟩), hp⟩
  -- the new node set keeps every path to a cache entry and is minimal
  have hnodes : (∀ n, n ∈ s.cs.cs.keys → ∀ p ∈ prefixes n, p ∈ (removeEntry s e).cs.nodes) ∧
      Minimal (removeEntry s e).cs.nodes (s.cs.cs.keys ++ (removeSwap s.pit e).map (·.name)) := by
    unfold removeEntry
    simp only
    split
    · rename_i hat
      refine ⟨hi.cs.reach, ?_⟩
      apply C07.minimal_congr hi.minimal
      intro m
      simp only [List.mem_append]
      constructor
      · rintro (h | h)
        · exact Or.inl h
        · right
          simp only [List.mem_map] at h
          obtain ⟨x, hx, rfl⟩ := h
          by_cases hxe : x.tok = e.tok
          · have : x = e := tok_inj hi.toks hx he hxe
            subst this
            exact pitAt_iff.mp hat
          · exact List.mem_map.mpr ⟨x, (hmem x).mpr ⟨hx, hxe⟩, rfl⟩
      · rintro (h | h)
        · exact Or.inl h
        · exact Or.inr (hnames m h)
    · rename_i hat
      have hat' : e.name ∉ (removeSwap s.pit e).map (·.name) := fun h => hat (pitAt_iff.mpr h)
      constructor
      · intro n hn p hp
        apply C07.prune_keeps _ _ _ _ s.cs.cs.keys
        · intro m hm; simp [C07.has_iff.mpr hm]
        · exact hi.cs.reach
        · exact hn
        · exact hp
      · apply C07.prune_minimal' hi.minimal hpath
        · intro m hm
          rcases List.mem_append.mp hm with h | h
          · exact Or.inl (List.mem_append_left _ h)
          · simp only [List.mem_map] at h
            obtain ⟨x, hx, rfl⟩ := h
            by_cases hxe : x.tok = e.tok
            · have : x = e := tok_inj hi.toks hx he hxe
              subst this; exact Or.inr rfl
            · exact Or.inl (List.mem_append_right _ (List.mem_map.mpr ⟨x, (hmem x).mpr ⟨hx, hxe⟩, rfl⟩))
        · intro m hm
          rcases List.mem_append.mp hm with h | h
          · exact List.mem_append_left _ h
          · exact List.mem_append_right _ (hnames m h)
        · intro m _
          simp only [Bool.or_eq_true, C07.has_iff, pitAt_iff, List.mem_append]
  have hcs : (removeEntry s e).cs.cs = s.cs.cs ∧ (removeEntry s e).cs.now = s.cs.now ∧
      (removeEntry s e).pit = removeSwap s.pit e ∧ (removeEntry s e).nPit = s.nPit - 1 ∧
      (removeEntry s e).tokNext = s.tokNext ∧ (removeEntry s e).pitNext = s.pitNext ∧
      (removeEntry s e).dnlNext = s.dnlNext ∧ (removeEntry s e).cs.queue = s.cs.queue ∧
      (removeEntry s e).cs.nCs = s.cs.nCs ∧ (removeEntry s e).cs.hist = s.cs.hist := by
    unfold removeEntry; exact ⟨rfl, rfl, rfl, rfl, rfl, rfl, rfl, rfl, rfl, rfl⟩
  obtain ⟨c1, c2, c3, c4, c5, c6, c7, c8, c9, c10⟩ := hcs
  constructor
  · have := hi.cs
    constructor
    · rw [c8]; exact this.qnodup
    · rw [c1]; exact this.knodup
    · rw [c1, c8]; exact this.qmem
    · rw [c1, c9]; exact this.ncs
    · rw [c1, c10]; exact this.hist
    · rw [c8, c10]; exact this.lru
    · rw [c1]; exact hnodes.1
    · rw [c1, c10]; exact this.cached
  · rw [c3]; simp only [St.now, c2]
    intro x hx; exact hi.sched x (hsub x hx)
  · rw [c3]; intro x hx; exact hi.recs x (hsub x hx)
  · rw [c3, c4, hi.npit]; omega
  · rw [c3]; exact hnd
  · rw [c3, c5]; intro x hx; exact hi.tokb x (hsub x hx)
  · rw [c1, c3]; exact hnodes.2
  · simp only [St.now, c2, c6, c7]; exact hi.time

theorem setNow_inv {s : St} (hi : Inv8 s) (t : Nat) (h1 : s.now ≤ t) (h2 : t ≤ s.pitNext) (h3 : t ≤ s.dnlNext) :
    Inv8 (setNow s t) := by
  unfold setNow
  constructor
  · have := hi.cs
    exact ⟨this.qnodup, this.knodup, this.qmem, this.ncs, this.hist, this.lru, this.reach, this.cached⟩
  · intro x hx
    obtain ⟨p, hp, hb⟩ := hi.sched x hx
    refine ⟨p, hp, ?_⟩
    show p ≤ max x.horizon t
    simp only [St.now] at hb h1; omega
  · exact hi.recs
  · exact hi.npit
  · exact hi.toks
  · exact hi.tokb
  · exact hi.minimal
  · exact ⟨h2, h3⟩

theorem fold_remove_inv (l : List PitEntry) (hl : (l.map (·.tok)).Nodup) :
    ∀ (s : St), Inv8 s → (∀ e ∈ l, e ∈ s.pit) →
      Inv8 (l.foldl (fun s e => removeEntry (finalize s e) e) s) ∧
      (l.foldl (fun s e => removeEntry (finalize s e) e) s).now = s.now ∧
      (l.foldl (fun s e => removeEntry (finalize s e) e) s).pitNext = s.pitNext ∧
      (l.foldl (fun s e => removeEntry (finalize s e) e) s).dnlNext = s.dnlNext ∧
      (∀ x, x ∈ (l.foldl (fun s e => removeEntry (finalize s e) e) s).pit ↔ x ∈ s.pit ∧ x.tok ∉ l.map (·.tok)) := by
  induction l with
  | nil => intro s hi _; exact ⟨hi, rfl, rfl, rfl, by simp⟩
  | cons e t ih =>
    intro s hi hmem
    simp only [List.map_cons, List.nodup_cons] at hl
    simp only [List.foldl_cons]
    have hsame := finalize_same s e
    have hi1 : Inv8 (finalize s e) := hsame.inv hi
    have he1 : e ∈ (finalize s e).pit := by rw [hsame.1]; exact hmem e (by simp)
    have hi2 := removeEntry_inv hi1 he1
    obtain ⟨hm2, _, _⟩ := removeSwap_spec hi1.toks he1
    have hpit2 : (removeEntry (finalize s e) e).pit = removeSwap (finalize s e).pit e := rfl
    have hmem2 : ∀ x ∈ t, x ∈ (removeEntry (finalize s e) e).pit := by
      intro x hx
      rw [hpit2, hm2 x, hsame.1]
      refine ⟨hmem x (by simp [hx]), ?_⟩
      intro hxe
      exact hl.1 (List.mem_map.mpr ⟨x, hx, hxe⟩)
    obtain ⟨r1, r2, r3, r4, r5⟩ := ih hl.2 _ hi2 hmem2
    refine ⟨r1, ?_, ?_, ?_, ?_⟩
    · rw [r2]; show (finalize s e).cs.now = s.cs.now; rw [hsame.2.1]
    · rw [r3]; show (finalize s e).pitNext = s.pitNext; exact hsame.2.2.2.2.2.1
    · rw [r4]; show (finalize s e).dnlNext = s.dnlNext; exact hsame.2.2.2.2.2.2
    · intro x
      rw [r5 x, hpit2, hm2 x, hsame.1]
      constructor
      · rintro ⟨⟨h1, h2⟩, h3⟩
        refine ⟨h1, ?_⟩
        intro hc
        rcases List.mem_cons.mp hc with hc | hc
        · exact h2 hc
        · exact h3 hc
      · rintro ⟨h1, h2⟩
        exact ⟨⟨h1, fun hc => h2 (List.mem_cons.mpr (Or.inl hc))⟩, fun hc => h2 (List.mem_cons.mpr (Or.inr hc))⟩

theorem fireUpdate_spec {s : St} (hi : Inv8 s) (hord : s.pitNext ≤ s.dnlNext) :
    Inv8 (fireUpdate s) ∧ (fireUpdate s).now = s.pitNext ∧ (fireUpdate s).dnlNext = s.dnlNext ∧
    (fireUpdate s).pitNext ≤ s.pitNext + period ∧ s.pitNext ≤ (fireUpdate s).pitNext ∧
    (∀ x, x ∈ (fireUpdate s).pit ↔ x ∈ s.pit ∧ isDue s.pitNext x = false) := by
  have h0 : Inv8 (setNow s s.pitNext) := setNow_inv hi _ hi.time.1 (Nat.le_refl _) hord
  have hdue : ((List.filter (isDue s.pitNext) (setNow s s.pitNext).pit).map (·.tok)).Nodup :=
    h0.toks.sublist (List.Sublist.map _ List.filter_sublist)
  obtain ⟨r1, r2, r3, r4, r5⟩ := fold_remove_inv _ hdue (setNow s s.pitNext) h0
    (fun e he => (List.mem_filter.mp he).1)
  -- the delay until the next update signal
  have hd : ∀ (o : Option Nat), (match o with
      | some h => if h - s.pitNext > 0 then min (h - s.pitNext) period else period
      | none => period) ≤ period := by
    intro o
    cases o with
    | none => exact Nat.le_refl _
    | some h =>
      simp only
      split
      · exact Nat.min_le_right _ _
      · exact Nat.le_refl _
  unfold fireUpdate
  simp only
  generalize hS : List.foldl (fun s e => removeEntry (finalize s e) e) (setNow s s.pitNext)
      (List.filter (isDue s.pitNext) (setNow s s.pitNext).pit) = S at r1 r2 r3 r4 r5
  have e1 : S.now = s.pitNext := r2
  have e2 : S.dnlNext = s.dnlNext := r4
  refine ⟨?_, e1, e2, ?_, ?_, ?_⟩
  · refine ⟨r1.cs, r1.sched, r1.recs, r1.npit, r1.toks, r1.tokb, r1.minimal, ⟨?_, ?_⟩⟩
    · show S.now ≤ s.pitNext + _
      rw [e1]; exact Nat.le_add_right _ _
    · show S.now ≤ S.dnlNext
      omega
  · exact Nat.add_le_add_left (hd _) _
  · exact Nat.le_add_right _ _
  · intro x
    show x ∈ S.pit ↔ _
    rw [r5 x]
    show x ∈ s.pit ∧ _ ↔ _
    constructor
    · rintro ⟨h1, h2⟩
      refine ⟨h1, ?_⟩
      cases hdu : isDue s.pitNext x with
      | false => rfl
      | true => exact absurd (List.mem_map.mpr ⟨x, List.mem_filter.mpr ⟨h1, hdu⟩, rfl⟩) h2
    · rintro ⟨h1, h2⟩
      refine ⟨h1, ?_⟩
      intro hm
      simp only [List.mem_map, List.mem_filter] at hm
      obtain ⟨y, ⟨hy, hyd⟩, hyt⟩ := hm
      have : y = x := tok_inj hi.toks hy h1 hyt
      subst this
      rw [h2] at hyd; cases hyd

theorem fireDnl_spec {s : St} (hi : Inv8 s) (hord : s.dnlNext ≤ s.pitNext) :
    Inv8 (fireDnl s) ∧ (fireDnl s).now = s.dnlNext ∧ (fireDnl s).pitNext = s.pitNext ∧
    (fireDnl s).dnlNext = s.dnlNext + period ∧ (fireDnl s).pit = s.pit := by
  have h0 : Inv8 (setNow s s.dnlNext) := setNow_inv hi _ hi.time.2 hord (Nat.le_refl _)
  unfold fireDnl
  refine ⟨?_, rfl, rfl, rfl, rfl⟩
  exact ⟨h0.cs, h0.sched, h0.recs, h0.npit, h0.toks, h0.tokb, h0.minimal,
    ⟨hord, by show s.dnlNext ≤ s.dnlNext + period; omega⟩⟩

theorem advanceTo_inv (tie : Nat → Bool) (f : Nat) {s : St} (hi : Inv8 s) (target : Nat) (ht : s.now ≤ target) :
    Inv8 (advanceTo tie f s target) := by
  induction f generalizing s with
  | zero => exact hi
  | succ f ih =>
    unfold advanceTo
    split
    · rename_i h
      obtain ⟨r1, r2, _⟩ := fireUpdate_spec hi (by omega)
      exact ih r1 (by rw [r2]; exact h.1)
    · rename_i h
      split
      · rename_i h2
        have hord : s.dnlNext ≤ s.pitNext := by
          by_cases hp : s.pitNext ≤ target
          · cases htie : tie s.pitNext <;> simp [hp, htie] at h <;> omega
          · omega
        obtain ⟨r1, r2, _⟩ := fireDnl_spec hi hord
        exact ih r1 (by rw [r2]; exact h2)
      · rename_i h2
        split
        · rename_i h3
          obtain ⟨r1, r2, _⟩ := fireUpdate_spec hi (by omega)
          exact ih r1 (by rw [r2]; exact h3)
        · exact setNow_inv hi _ ht (by omega) (by omega)

theorem setCap_inv8 {s : St} (hi : Inv8 s) (k : Nat) : Inv8 (setCap s k) := by
  unfold setCap
  exact ⟨C07.setCap_inv hi.cs k, hi.sched, hi.recs, hi.npit, hi.toks, hi.tokb, hi.minimal, hi.time⟩

end Ndn.C08
