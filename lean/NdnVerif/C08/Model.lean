/-
  C08 model — life cycle of forwarder state in one forwarding thread:
  PIT entries (creation, in/out records, expiry scheduling, removal, pruning of the shared PIT-CS
  name tree), the Content Store side (imported from the C07 model, same tree), the dead nonce list
  with its ticker reaper, and the two timers that drive reclamation.

  Mirrors, branch by branch (after the fixes F-08a, F-08b, F-08e):
    fw/fw/thread.go          processIncomingInterest (167-332), processOutgoingInterest (334-383),
                             finalizeInterest (385-395), processIncomingData (397-513), Run (122-147)
    fw/fw/strategy.go        SendData;  bestroute.go / multicast.go  AfterContentStoreHit,
                             AfterReceiveData, AfterReceiveInterest (suppression 500 ms)
    fw/table/pit-cs-tree.go  InsertInterest (134-178), RemoveInterest (182-199), Update (94-117),
                             updatePitExpiry (119-126), FindInterestPrefixMatchByDataEnc (225-246),
                             InsertOutRecord (270-295), pruneIfEmpty (357-362)
    fw/table/pit-cs.go       InsertInRecord (123-154), UpdateExpirationTimer / SetExpirationTimerToNow
    fw/table/dead-nonce-list.go  Find / Insert / RemoveExpiredEntries (100 per tick)

  Not modelled (the harness never produces them): forwarding hints, HopLimit, NextHopFaceId, Interests
  without Nonce, non-existent or ad-hoc faces, /localhost names, CS admit/serve switched off.
  The FIB is the fixed configuration of the history: one entry at "/" (next hops `cfg.nexthops`,
  distinct costs), strategy best-route or multicast at "/".
  PIT tokens are random in the code; the model numbers entries by creation order (A-tok).
  The expiry queue is represented by `sched` (priority of the entry's queue item, `none` = the entry
  has no queue item); the dead nonce list, keyed by hash(name)+nonce in the code, is keyed by the
  pair (A-hash).  Times are nanoseconds since the creation of the thread.  Core Lean only.
-/
import NdnVerif.C07.Model
namespace Ndn.C08
open Ndn.C07 (memb rem prefixes fill prune)

def period : Nat := 100000000          -- expiredPitTickerInterval = DNL ticker = 100 ms
def suppress : Nat := 500000000        -- Best-route / multicast suppression time
def dnlBatch : Nat := 100              -- RemoveExpiredEntries evicts at most 100 per tick

structure Rec where
  face : Nat
  nonce : Nat
  ts : Nat
  exp : Nat
  name : Name
deriving DecidableEq, Repr

structure PitEntry where
  tok : Nat
  name : Name
  cbp : Bool
  mbf : Bool
  ins : List Rec := []
  outs : List Rec := []
  sched : Option Nat := none
  satisfied : Bool := false
  horizon : Nat := 0      -- ghost: latest end of lifetime among the Interests recorded in the entry
deriving DecidableEq, Repr

inductive Strat where | best | multi
deriving DecidableEq, Repr

structure Cfg where
  nexthops : List (Nat × Nat) := []     -- (face, cost) of the FIB entry "/"
  strat : Strat := .best
  dnlLife : Nat := 0
deriving Repr

structure Dn where
  name : Name
  nonce : Nat
  exp : Nat
  born : Nat := 0     -- ghost: insertion time
  rank : Nat := 0     -- ghost: number of records in the list when this one was inserted
deriving DecidableEq, Repr

inductive Send where
  | interest (face : Nat) (name : Name)
  | data (face : Nat) (name : Name)
deriving DecidableEq, Repr

structure St where
  cfg : Cfg := {}
  cs : C07.St := {}
  pit : List PitEntry := []
  nPit : Nat := 0
  tokNext : Nat := 0
  dnl : List Dn := []
  pitNext : Nat := period
  dnlNext : Nat := period

def init (cfg : Cfg) (cap : Nat) : St := { cfg := cfg, cs := C07.init cap }

def St.now (s : St) : Nat := s.cs.now
def setNow (s : St) (t : Nat) : St := { s with cs := { s.cs with now := t } }

/-- does a node hold PIT entries? -/
def pitAt (pit : List PitEntry) (n : Name) : Bool := pit.any (fun e => decide (e.name = n))

def getEntry (pit : List PitEntry) (tok : Nat) : Option PitEntry := pit.find? (fun e => e.tok == tok)
def setEntry (pit : List PitEntry) (e : PitEntry) : List PitEntry :=
  pit.map (fun x => if x.tok = e.tok then e else x)

/-! ### dead nonce list -/

def dnlHas (d : List Dn) (n : Name) (nonce : Nat) : Bool := d.any (fun x => decide (x.name = n ∧ x.nonce = nonce))

def dnlInsert (s : St) (n : Name) (nonce : Nat) : St :=
  if dnlHas s.dnl n nonce then s else { s with dnl := s.dnl ++ [⟨n, nonce, s.now + s.cfg.dnlLife, s.now, s.dnl.length⟩] }

/-- `RemoveExpiredEntries` at the tick armed for `dnlNext` -/
def fireDnl (s : St) : St :=
  let t := s.dnlNext
  let k := min dnlBatch (s.dnl.takeWhile (fun x => decide (x.exp < t))).length
  { setNow s t with dnl := s.dnl.drop k, dnlNext := t + period }

/-! ### PIT -/

/-- `UpdateExpirationTimer`: latest expiration of any record, at least now -/
def latest (now : Nat) (e : PitEntry) : Nat := (e.ins ++ e.outs).foldl (fun m r => max m r.exp) now

def upsertOut (outs : List Rec) (face nonce now exp : Nat) (name : Name) : List Rec :=
  if outs.any (fun r => r.face == face) then
    outs.map (fun r => if r.face = face then ⟨face, nonce, now, exp, name⟩ else r)
  else outs ++ [⟨face, nonce, now, exp, name⟩]

def insertByCost (x : Nat × Nat) : List (Nat × Nat) → List (Nat × Nat)
  | [] => [x]
  | y :: t => if x.2 < y.2 then x :: y :: t else y :: insertByCost x t
def sortByCost (l : List (Nat × Nat)) : List (Nat × Nat) := l.foldr insertByCost []

structure Interest where
  face : Nat
  name : Name
  cbp : Bool
  mbf : Bool
  nonce : Nat
  life : Nat
  hop : Option Nat := none      -- HopLimit after the decrement of the incoming pipeline
  nhf : Option Nat := none      -- NDNLPv2 NextHopFaceId

/-- the faces of the history: 1..4, all non-local point-to-point -/
def faceExists (f : Nat) : Bool := decide (1 ≤ f ∧ f ≤ 4)

/-- first component is `localhost` -/
def isLocalhost (n : Name) : Bool :=
  match n with
  | c :: _ => c.val == [108, 111, 99, 97, 108, 104, 111, 115, 116]
  | [] => false

/-- the faces an Interest is sent to (`processOutgoingInterest` succeeds: the face exists, is not
    the arrival face, and the HopLimit is not 0 — every face is non-local), for the entry `e` whose
    in-record was just updated: the NextHopFaceId when present, else the strategy's choice among the
    FIB next hops -/
def fwdTargets (s : St) (e : PitEntry) (i : Interest) : List (Nat × Nat) :=
  let now := s.now
  let hopOk := i.hop != some 0
  match i.nhf with
  | some f => if faceExists f && f != i.face && hopOk then [(f, 0)] else []
  | none =>
    let allowed := s.cfg.nexthops.filter (fun nh => !(e.ins.any (fun r => r.face == nh.1)) || nh.1 == i.face)
    if allowed.isEmpty then []
    else if e.outs.any (fun r => r.nonce != i.nonce && decide (r.ts + suppress > now)) then []
    else
      let sendable := fun (l : List (Nat × Nat)) => if hopOk then l.filter (fun nh => nh.1 != i.face) else []
      match s.cfg.strat with
      | .multi => sendable allowed
      | .best => (sendable (sortByCost allowed)).take 1

/-- tail of `processIncomingInterest` from `UpdateExpirationTimer` on: NextHopFaceId or FIB lookup +
    strategy, out-records -/
def forward (s : St) (e : PitEntry) (i : Interest) : St × List Send :=
  let now := s.now
  let e2 := { e with sched := some (latest now e) }
  let targets := fwdTargets s e2 i
  let outs' := targets.foldl (fun outs nh => upsertOut outs nh.1 i.nonce now (now + i.life) i.name) e2.outs
  ({ s with pit := setEntry s.pit { e2 with outs := outs' } }, targets.map (fun nh => Send.interest nh.1 i.name))

/-- `processIncomingInterest` from `InsertInRecord` on (after the duplicate-nonce test), for the PIT
    entry `e` of the Interest -/
def interestTail (ord : List Name → List Name) (s1 : St) (e : PitEntry) (i : Interest) : St × List Send :=
  let now := s1.now
  -- InsertInRecord
  let prev := e.ins.find? (fun r => r.face == i.face)
  let rec' : Rec := ⟨i.face, i.nonce, now, now + i.life, i.name⟩
  let ins' := match prev with
    | some _ => e.ins.map (fun r => if r.face = i.face then rec' else r)
    | none => e.ins ++ [rec']
  let e1 := { e with ins := ins', horizon := max e.horizon (now + i.life) }
  match prev with
  | none =>
    -- not already pending: Content Store
    let r := C07.findData ord s1.cs i.name i.cbp i.mbf
    match r.2 with
    | some (q, _) =>
      -- AfterContentStoreHit → SendData deletes the in-record; then UpdateExpirationTimer (F-08a fix)
      let e2 := { e1 with ins := e1.ins.filter (fun r => r.face != i.face) }
      let e3 := { e2 with sched := some (latest now e2) }
      ({ s1 with cs := r.1, pit := setEntry s1.pit e3 }, [Send.data i.face q])
    | none => forward { s1 with cs := r.1 } e1 i
  | some r => forward (dnlInsert s1 i.name r.nonce) e1 i

/-- `processIncomingInterest` -/
def procInterest (ord : List Name → List Name) (s : St) (i : Interest) : St × List Send :=
  if dnlHas s.dnl i.name i.nonce then (s, [])
  else
    -- InsertInterest
    let found := s.pit.find? (fun e => decide (e.name = i.name ∧ e.cbp = i.cbp ∧ e.mbf = i.mbf))
    match found with
    | some e =>
      if e.ins.any (fun r => r.face != i.face && r.nonce == i.nonce) then (s, [])
      else interestTail ord s e i
    | none =>
      let e : PitEntry := { tok := s.tokNext, name := i.name, cbp := i.cbp, mbf := i.mbf }
      interestTail ord
        { s with cs := { s.cs with nodes := fill s.cs.nodes i.name }, pit := s.pit ++ [e],
                 nPit := s.nPit + 1, tokNext := s.tokNext + 1 } e i

/-- `processIncomingInterest` from the top: the drops that precede the PIT (unknown arrival face,
    HopLimit 0, /localhost from a non-local face, no Nonce), HopLimit decrement -/
def procInterestPkt (ord : List Name → List Name) (s : St) (face : Nat) (name : Name) (cbp mbf : Bool)
    (nonce : Option Nat) (life : Nat) (hop nhf : Option Nat) : St × List Send :=
  if !faceExists face then (s, [])
  else if hop == some 0 then (s, [])
  else if isLocalhost name then (s, [])
  else match nonce with
    | none => (s, [])
    | some x => procInterest ord s ⟨face, name, cbp, mbf, x, life, hop.map (· - 1), nhf⟩

structure DataPkt where
  face : Nat
  name : Name
  fresh : Nat
  tok : Option (Option Nat)     -- none: no token; some none: a token no entry has; some (some k): token of entry k
  wire : Bytes

/-- `findInterestPrefixMatchByNameEnc`: from the node of the full name up to the root -/
def prefixMatch (pit : List PitEntry) (n : Name) : List PitEntry :=
  (List.range (n.length + 1)).reverse.flatMap fun k =>
    pit.filter (fun e => decide (e.name = n.take k) && (e.cbp || k == n.length))

/-- the PIT entries a Data packet satisfies: by token when it carries one, else by name -/
def dataMatches (s1 : St) (d : DataPkt) : List PitEntry :=
  match d.tok with
  | some (some k) => s1.pit.filter (fun e => e.tok == k)
  | some none => []
  | none => prefixMatch s1.pit d.name

/-- `SetExpirationTimerToNow` + `SetSatisfied` + `ClearInRecords` + `ClearOutRecords` on the entry
    with the token of `e` -/
def satisfy (s : St) (e : PitEntry) : St :=
  let cur := (getEntry s.pit e.tok).getD e
  { s with pit := setEntry s.pit { cur with ins := [], outs := [], sched := some s.now, satisfied := true } }

/-- `processIncomingData` -/
def procData (s : St) (d : DataPkt) : St × List Send :=
  let s1 := { s with cs := C07.insertData (pitAt s.pit) s.cs d.name d.wire d.fresh }
  match dataMatches s1 d with
  | [] => (s1, [])
  | [e] =>
    let s2 := e.outs.foldl (fun s r => dnlInsert s d.name r.nonce) s1
    (satisfy s2 e, e.ins.map (fun r => Send.data r.face d.name))
  | e0 :: rest =>
    (e0 :: rest).foldl (fun (acc : St × List Send) e =>
      let s := acc.1
      let first := (getEntry s.pit e0.tok).getD e0
      let s2 := first.outs.foldl (fun s r => dnlInsert s d.name r.nonce) s
      let cur := (getEntry s2.pit e.tok).getD e
      (satisfy s2 e, acc.2 ++ ((cur.ins.filter (fun r => r.face != d.face)).map (fun r => Send.data r.face d.name))))
      (s1, [])

/-- `processIncomingData` from the top: unknown arrival face and /localhost from a non-local face
    are dropped before the Content Store is touched -/
def procDataPkt (s : St) (d : DataPkt) : St × List Send :=
  if !faceExists d.face then (s, [])
  else if isLocalhost d.name then (s, [])
  else procData s d

/-- `RemoveInterest`: the last entry of the node takes the place of the removed one -/
def removeSwap (pit : List PitEntry) (e : PitEntry) : List PitEntry :=
  match (pit.filter (fun x => decide (x.name = e.name))).getLast? with
  | none => pit
  | some l =>
    if l.tok = e.tok then pit.filter (fun x => x.tok != e.tok)
    else (pit.filter (fun x => x.tok != l.tok)).map (fun x => if x.tok = e.tok then l else x)

def removeEntry (s : St) (e : PitEntry) : St :=
  let pit' := removeSwap s.pit e
  let nodes' :=
    if pitAt pit' e.name then s.cs.nodes
    else prune (fun n => s.cs.cs.has n || pitAt pit' n) (e.name.length + 1) s.cs.nodes e.name
  { s with pit := pit', nPit := s.nPit - 1, cs := { s.cs with nodes := nodes' } }

/-- `finalizeInterest`: out-record nonces go to the dead nonce list -/
def finalize (s : St) (e : PitEntry) : St := e.outs.foldl (fun s r => dnlInsert s r.name r.nonce) s

def isDue (t : Nat) (e : PitEntry) : Bool := match e.sched with | some p => decide (p ≤ t) | none => false

def minSched : List PitEntry → Option Nat
  | [] => none
  | e :: t => match e.sched, minSched t with
    | some p, some q => some (min p q)
    | some p, none => some p
    | none, r => r

/-- `PitCsTree.Update` at the instant the armed signal fires (`pitNext`) -/
def fireUpdate (s : St) : St :=
  let t := s.pitNext
  let s0 := setNow s t
  let s1 := (s0.pit.filter (isDue t)).foldl (fun s e => removeEntry (finalize s e) e) s0
  let d := match minSched s1.pit with
    | some h => if h - t > 0 then min (h - t) period else period
    | none => period
  { s1 with pitNext := t + d }

/-- let virtual time pass until `target`: armed timers fire in order.  When the PIT update signal and
    the dead-nonce ticker are due at the same instant, Go's `select` in `Thread.Run` picks either:
    `tie t` says whether the PIT update goes first at instant `t` (every choice is allowed).
    Fuel bounds the number of timer events; the driver reports exhaustion. -/
def advanceTo (tie : Nat → Bool) : Nat → St → Nat → St
  | 0, s, _ => s
  | f + 1, s, target =>
    if s.pitNext ≤ target ∧ (s.pitNext < s.dnlNext ∨ (s.pitNext = s.dnlNext ∧ tie s.pitNext)) then
      advanceTo tie f (fireUpdate s) target
    else if s.dnlNext ≤ target then advanceTo tie f (fireDnl s) target
    else if s.pitNext ≤ target then advanceTo tie f (fireUpdate s) target
    else setNow s target

def setCap (s : St) (k : Nat) : St := { s with cs := C07.setCap s.cs k }

/-- the events of a forwarding thread: a packet arrives, management changes the capacity, or `d`
    nanoseconds pass (`tie` resolves simultaneous timers, `fuel` bounds the timer events) -/
inductive Op where
  | interest (ord : List Name → List Name) (face : Nat) (name : Name) (cbp mbf : Bool) (nonce : Option Nat)
      (life : Nat) (hop nhf : Option Nat)
  | data (d : DataPkt)
  | cap (k : Nat)
  | adv (tie : Nat → Bool) (fuel : Nat) (d : Nat)

def step (s : St) : Op → St
  | .interest ord face name cbp mbf nonce life hop nhf => (procInterestPkt ord s face name cbp mbf nonce life hop nhf).1
  | .data d => (procDataPkt s d).1
  | .cap k => setCap s k
  | .adv tie fuel d => advanceTo tie fuel s (s.now + d)

def run (s : St) : List Op → St
  | [] => s
  | op :: ops => run (step s op) ops

end Ndn.C08
