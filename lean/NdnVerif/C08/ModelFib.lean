/-
  C08 model, part 2 — node sets of the three route structures (what they hold beyond live entries).

  Mirrors (after the fixes F-08c, F-08d):
    fw/table/fib-strategy-tree.go       fillTreeToPrefixEnc, pruneIfEmpty, InsertNextHopEnc,
                                        RemoveNextHopEnc, ClearNextHopsEnc, SetStrategyEnc,
                                        UnSetStrategyEnc, fibPrefixes side table
    fw/table/fib-strategy-hashtable.go  insertEntryEnc, pruneTables and the five mutators
    fw/table/rib.go                     fillTreeToPrefixEnc, pruneIfEmpty, AddEncRoute, RemoveRouteEnc,
                                        CleanUpFace (node set and route counts only; the FIB updates the
                                        RIB triggers are C06's subject)
  Only what decides the SHAPE of the structures is represented: per name the list of next-hop faces
  and whether a strategy is set / the list of (face, origin) routes; costs, strategy names and flags
  never influence which nodes exist.  Tables keyed by name hashes are keyed by names (A-hash).
  Core Lean only.
-/
import NdnVerif.C07.Model
namespace Ndn.C08
open Ndn.C07 (memb rem prefixes fill prune children)

/-! ### association lists keyed by names -/

def aget {β : Type} (d : β) : List (Name × β) → Name → β
  | [], _ => d
  | (k, v) :: t, n => if k = n then v else aget d t n

def aset {β : Type} : List (Name × β) → Name → β → List (Name × β)
  | [], n, v => [(n, v)]
  | (k, w) :: t, n, v => if k = n then (k, v) :: t else (k, w) :: aset t n v

def adel {β : Type} (m : List (Name × β)) (n : Name) : List (Name × β) := m.filter (fun p => decide (p.1 ≠ n))

/-- remove the first element satisfying `p` -/
def removeFirst {α : Type} (p : α → Bool) : List α → List α
  | [] => []
  | x :: t => if p x then t else x :: removeFirst p t

/-! ### name-tree FIB -/

structure FibTree where
  nodes : List Name := []                 -- non-root nodes
  nh : List (Name × List Nat) := []       -- next-hop faces per node (absent = none)
  st : List (Name × Bool) := [([], true)] -- strategy set? (the root has the default strategy)
  pfx : List Name := []                   -- keys of fibPrefixes

def FibTree.live (f : FibTree) (n : Name) : Bool := !(aget [] f.nh n).isEmpty || aget false f.st n
def FibTree.nodeAt (f : FibTree) (n : Name) : Bool := (prefixes n).all (fun p => memb p f.nodes)
def FibTree.pruneAt (f : FibTree) (n : Name) : FibTree :=
  { f with nodes := prune f.live (n.length + 1) f.nodes n }

def FibTree.ins (f : FibTree) (n : Name) (face : Nat) : FibTree :=
  let f := { f with nodes := fill f.nodes n }
  let cur := aget [] f.nh n
  if cur.any (· == face) then f
  else { f with nh := aset f.nh n (cur ++ [face]), pfx := if memb n f.pfx then f.pfx else f.pfx ++ [n] }

def FibTree.rem (f : FibTree) (n : Name) (face : Nat) : FibTree :=
  if f.nodeAt n then
    let cur := removeFirst (· == face) (aget [] f.nh n)
    let f := { f with nh := aset f.nh n cur, pfx := if cur.isEmpty then C07.rem n f.pfx else f.pfx }
    f.pruneAt n
  else f

def FibTree.clr (f : FibTree) (n : Name) : FibTree :=
  if f.nodeAt n then ({ f with nh := aset f.nh n [], pfx := C07.rem n f.pfx } : FibTree).pruneAt n else f

def FibTree.set (f : FibTree) (n : Name) : FibTree :=
  { f with nodes := fill f.nodes n, st := aset f.st n true }

def FibTree.uns (f : FibTree) (n : Name) : FibTree :=
  if f.nodeAt n then ({ f with st := aset f.st n false } : FibTree).pruneAt n else f

inductive FibOp where
  | ins (n : Name) (face : Nat)
  | rem (n : Name) (face : Nat)
  | clr (n : Name)
  | set (n : Name)
  | uns (n : Name)

def FibTree.step (f : FibTree) : FibOp → FibTree
  | .ins n face => f.ins n face
  | .rem n face => f.rem n face
  | .clr n => f.clr n
  | .set n => f.set n
  | .uns n => f.uns n

def FibTree.run (f : FibTree) : List FibOp → FibTree
  | [] => f
  | op :: ops => FibTree.run (f.step op) ops

/-- names with a next hop or a strategy -/
def FibTree.liveList (f : FibTree) : List Name := ((f.nh.map (·.1)) ++ (f.st.map (·.1))).filter f.live

/-! ### hash-table FIB -/

structure FibHash where
  m : Nat
  real : List (Name × (List Nat × Bool)) := [([], ([], true))]
  vnames : List (Name × List Name) := []     -- virtTableNames: virtual name ↦ real names of length ≥ m
  virt : List (Name × Nat) := []             -- virtTable: virtual name ↦ md

def maxLen (l : List Name) : Nat := l.foldl (fun a n => max a n.length) 0

def FibHash.has (f : FibHash) (n : Name) : Bool := f.real.any (fun p => decide (p.1 = n))

def FibHash.insertEntry (f : FibHash) (n : Name) : FibHash :=
  let f := if f.has n then f else { f with real := f.real ++ [(n, ([], false))] }
  if n.length ≥ f.m then
    let v := n.take f.m
    let md := if f.virt.any (fun p => decide (p.1 = v)) then max (aget 0 f.virt v) n.length else n.length
    let names := aget [] f.vnames v
    { f with virt := aset f.virt v md, vnames := aset f.vnames v (if memb n names then names else names ++ [n]) }
  else f

def FibHash.pruneTables (f : FibHash) (n : Name) : FibHash :=
  let e := aget ([], false) f.real n
  if e.1.isEmpty && !e.2 then
    let f := { f with real := adel f.real n }
    if n.length ≥ f.m then
      let v := n.take f.m
      let inVirt := f.virt.any (fun p => decide (p.1 = v))
      let inNames := f.vnames.any (fun p => decide (p.1 = v))
      let present := inNames && memb n (aget [] f.vnames v)
      let f :=
        if inVirt && present then
          let names := rem n (aget [] f.vnames v)
          if names.isEmpty then { f with vnames := adel f.vnames v } else { f with vnames := aset f.vnames v names }
        else f
      if inVirt && n.length == aget 0 f.virt v then
        if f.vnames.any (fun p => decide (p.1 = v)) then { f with virt := aset f.virt v (maxLen (aget [] f.vnames v)) }
        else { f with virt := adel f.virt v }
      else f
    else f
  else f

def FibHash.ins (f : FibHash) (n : Name) (face : Nat) : FibHash :=
  let f := f.insertEntry n
  let e := aget ([], false) f.real n
  if e.1.any (· == face) then f else { f with real := aset f.real n (e.1 ++ [face], e.2) }

def FibHash.rem (f : FibHash) (n : Name) (face : Nat) : FibHash :=
  if f.has n then
    let e := aget ([], false) f.real n
    if e.1.any (· == face) then
      -- the last next hop is swapped into the place of the removed one
      ({ f with real := aset f.real n (removeFirst (· == face) e.1, e.2) } : FibHash).pruneTables n
    else f
  else f

def FibHash.clr (f : FibHash) (n : Name) : FibHash :=
  if f.has n then
    let e := aget ([], false) f.real n
    ({ f with real := aset f.real n ([], e.2) } : FibHash).pruneTables n
  else f

def FibHash.set (f : FibHash) (n : Name) : FibHash :=
  let f := f.insertEntry n
  let e := aget ([], false) f.real n
  { f with real := aset f.real n (e.1, true) }

def FibHash.uns (f : FibHash) (n : Name) : FibHash :=
  if f.has n then
    let e := aget ([], false) f.real n
    ({ f with real := aset f.real n (e.1, false) } : FibHash).pruneTables n
  else f

def FibHash.step (f : FibHash) : FibOp → FibHash
  | .ins n face => f.ins n face
  | .rem n face => f.rem n face
  | .clr n => f.clr n
  | .set n => f.set n
  | .uns n => f.uns n

def FibHash.run (f : FibHash) : List FibOp → FibHash
  | [] => f
  | op :: ops => FibHash.run (f.step op) ops

/-! ### RIB -/

structure Rib where
  nodes : List Name := []
  routes : List (Name × List (Nat × Nat)) := []     -- (face, origin) per node

def Rib.live (r : Rib) (n : Name) : Bool := !(aget [] r.routes n).isEmpty
def Rib.nodeAt (r : Rib) (n : Name) : Bool := (prefixes n).all (fun p => memb p r.nodes)
def Rib.pruneAt (r : Rib) (n : Name) : Rib := { r with nodes := prune r.live (n.length + 1) r.nodes n }

def Rib.add (r : Rib) (n : Name) (face origin : Nat) : Rib :=
  let r := { r with nodes := fill r.nodes n }
  let cur := aget [] r.routes n
  if cur.any (fun x => x.1 == face && x.2 == origin) then r else { r with routes := aset r.routes n (cur ++ [(face, origin)]) }

def Rib.remove (r : Rib) (n : Name) (face origin : Nat) : Rib :=
  if r.nodeAt n then
    ({ r with routes := aset r.routes n (removeFirst (fun x => x.1 == face && x.2 == origin) (aget [] r.routes n)) } : Rib).pruneAt n
  else r

/-- insertion sort of names, deepest first (post-order of `CleanUpFace`) -/
def insertDeep (x : Name) : List Name → List Name
  | [] => [x]
  | y :: t => if x.length ≥ y.length then x :: y :: t else y :: insertDeep x t
def deepFirst (l : List Name) : List Name := l.foldr insertDeep []

/-- `CleanUpFace`: children first; every node loses all its routes over `face` and, if it had any,
    is pruned -/
def Rib.cleanUp (r : Rib) (face : Nat) : Rib :=
  (deepFirst ([] :: r.nodes)).foldl (fun (r : Rib) n =>
    if memb n ([] :: r.nodes) && (aget [] r.routes n).any (fun x => x.1 == face) then
      ({ r with routes := aset r.routes n ((aget [] r.routes n).filter (fun x => x.1 != face)) } : Rib).pruneAt n
    else r) r

inductive RibOp where
  | add (n : Name) (face origin : Nat)
  | remove (n : Name) (face origin : Nat)
  | cleanUp (face : Nat)

def Rib.step (r : Rib) : RibOp → Rib
  | .add n f o => r.add n f o
  | .remove n f o => r.remove n f o
  | .cleanUp f => r.cleanUp f

def Rib.run (r : Rib) : List RibOp → Rib
  | [] => r
  | op :: ops => Rib.run (r.step op) ops

/-- names with at least one route -/
def Rib.liveList (r : Rib) : List Name := (r.routes.map (·.1)).filter r.live

end Ndn.C08
