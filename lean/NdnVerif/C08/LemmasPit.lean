/-
  C08 helper lemmas: list facts about the PIT (setEntry, removeSwap), frames of the dead-nonce
  operations, and the invariant `Inv8` of the forwarding-thread model with its preservation by
  packet processing, timers and the passage of time.
-/
import NdnVerif.C08.Spec
import NdnVerif.C07.LemmasMin
namespace Ndn.C08
open Ndn.C07 (memb rem prefixes fill prune Minimal OnPath memb_iff mem_rem)

/-! ### setEntry -/

theorem mem_setEntry {pit : List PitEntry} {e x : PitEntry} (h : x ∈ setEntry pit e) :
    x = e ∨ (x ∈ pit ∧ x.tok ≠ e.tok) := by
  simp only [setEntry, List.mem_map] at h
  obtain ⟨y, hy, rfl⟩ := h
  by_cases ht : y.tok = e.tok
  · simp [ht]
  · simp [ht, hy]

theorem setEntry_map_tok (pit : List PitEntry) (e : PitEntry) : (setEntry pit e).map (·.tok) = pit.map (·.tok) := by
  simp only [setEntry, List.map_map]
  apply List.map_congr_left
  intro x _
  by_cases ht : x.tok = e.tok <;> simp [ht]

theorem setEntry_map_name (pit : List PitEntry) (e : PitEntry) (h : ∀ x ∈ pit, x.tok = e.tok → x.name = e.name) :
    (setEntry pit e).map (·.name) = pit.map (·.name) := by
  simp only [setEntry, List.map_map]
  apply List.map_congr_left
  intro x hx
  by_cases ht : x.tok = e.tok
  · simp [ht, h x hx ht]
  · simp [ht]

theorem setEntry_length (pit : List PitEntry) (e : PitEntry) : (setEntry pit e).length = pit.length := by
  simp [setEntry]

/-- entries are determined by their token when tokens are distinct -/
theorem tok_inj {pit : List PitEntry} (hn : (pit.map (·.tok)).Nodup) {x y : PitEntry} (hx : x ∈ pit) (hy : y ∈ pit)
    (h : x.tok = y.tok) : x = y := by
  induction pit with
  | nil => cases hx
  | cons p t ih =>
    simp only [List.map_cons, List.nodup_cons, List.mem_map, not_exists, not_and] at hn
    rcases List.mem_cons.mp hx with rfl | hx'
    · rcases List.mem_cons.mp hy with rfl | hy'
      · rfl
      · exact absurd h.symm (hn.1 y hy')
    · rcases List.mem_cons.mp hy with rfl | hy'
      · exact absurd h (hn.1 x hx')
      · exact ih hn.2 hx' hy'

theorem filter_tok_length {pit : List PitEntry} (hn : (pit.map (·.tok)).Nodup) {e : PitEntry} (he : e ∈ pit) :
    (pit.filter (fun x => x.tok != e.tok)).length + 1 = pit.length := by
  induction pit with
  | nil => cases he
  | cons p t ih =>
    simp only [List.map_cons, List.nodup_cons, List.mem_map, not_exists, not_and] at hn
    by_cases hp : p.tok = e.tok
    · have hnot : ∀ x ∈ t, (x.tok != e.tok) = true := by
        intro x hx; simp; intro h; exact hn.1 x hx (by rw [h, hp])
      have : t.filter (fun x => x.tok != e.tok) = t := List.filter_eq_self.mpr hnot
      simp [hp, this]
    · have het : e ∈ t := by
        rcases List.mem_cons.mp he with rfl | h
        · exact absurd rfl hp
        · exact h
      simp [hp, ih hn.2 het]

theorem nodup_of_map_tok {pit : List PitEntry} (h : (pit.map (·.tok)).Nodup) : pit.Nodup := by
  induction pit with
  | nil => simp
  | cons p t ih =>
    simp only [List.map_cons, List.nodup_cons, List.mem_map, not_exists, not_and] at h
    rw [List.nodup_cons]
    exact ⟨fun hp => h.1 p hp rfl, ih h.2⟩

theorem nodup_map_on {α β : Type} {f : α → β} {l : List α} (hinj : ∀ x ∈ l, ∀ y ∈ l, f x = f y → x = y)
    (hl : l.Nodup) : (l.map f).Nodup := by
  induction l with
  | nil => simp
  | cons a t ih =>
    rw [List.nodup_cons] at hl
    simp only [List.map_cons, List.nodup_cons, List.mem_map, not_exists, not_and]
    refine ⟨?_, ih (fun x hx y hy => hinj x (List.mem_cons_of_mem _ hx) y (List.mem_cons_of_mem _ hy)) hl.2⟩
    intro x hx hfx
    have := hinj x (List.mem_cons_of_mem _ hx) a (by simp) hfx
    subst this; exact hl.1 hx

/-! ### removeSwap -/

theorem removeSwap_spec {pit : List PitEntry} (hn : (pit.map (·.tok)).Nodup) {e : PitEntry} (he : e ∈ pit) :
    (∀ x, x ∈ removeSwap pit e ↔ x ∈ pit ∧ x.tok ≠ e.tok) ∧
    (removeSwap pit e).length + 1 = pit.length ∧ ((removeSwap pit e).map (·.tok)).Nodup := by
  unfold removeSwap
  have hne : pit.filter (fun x => decide (x.name = e.name)) ≠ [] := by
    intro h
    have : e ∈ pit.filter (fun x => decide (x.name = e.name)) := by simp [he]
    rw [h] at this; cases this
  cases hl : (pit.filter (fun x => decide (x.name = e.name))).getLast? with
  | none => rw [List.getLast?_eq_none_iff] at hl; exact absurd hl hne
  | some l =>
    have hlmem : l ∈ pit.filter (fun x => decide (x.name = e.name)) := List.mem_of_getLast? hl
    have hlp : l ∈ pit := (List.mem_filter.mp hlmem).1
    simp only
    split
    · rename_i hle
      refine ⟨?_, filter_tok_length hn he, ?_⟩
      · intro x; simp
      · exact (hn.sublist (List.Sublist.map _ List.filter_sublist))
    · rename_i hle
      have hpn : pit.Nodup := nodup_of_map_tok hn
      refine ⟨?_, ?_, ?_⟩
      · intro y
        simp only [List.mem_map, List.mem_filter, bne_iff_ne, ne_eq]
        constructor
        · rintro ⟨x, ⟨hx, hxl⟩, rfl⟩
          by_cases hxe : x.tok = e.tok
          · rw [if_pos hxe]; exact ⟨hlp, hle⟩
          · rw [if_neg hxe]; exact ⟨hx, hxe⟩
        · rintro ⟨hy, hye⟩
          by_cases hyl : y.tok = l.tok
          · have : y = l := tok_inj hn hy hlp hyl
            subst this
            exact ⟨e, ⟨he, fun h => hle h.symm⟩, by simp⟩
          · exact ⟨y, ⟨hy, hyl⟩, by simp [hye]⟩
      · rw [List.length_map]; exact filter_tok_length hn hlp
      · rw [List.map_map]
        apply nodup_map_on
        · intro x hx y hy hxy
          have hx' := List.mem_filter.mp hx
          have hy' := List.mem_filter.mp hy
          simp only [bne_iff_ne, ne_eq] at hx' hy'
          apply tok_inj hn hx'.1 hy'.1
          simp only [Function.comp] at hxy
          by_cases hxe : x.tok = e.tok <;> by_cases hye : y.tok = e.tok
          · rw [hxe, hye]
          · simp only [hxe, ↓reduceIte, hye] at hxy; exact absurd hxy.symm hy'.2
          · simp only [hxe, ↓reduceIte, hye] at hxy; exact absurd hxy hx'.2
          · simpa [hxe, hye] using hxy
        · exact hpn.sublist List.filter_sublist

/-! ### frames: what the dead-nonce operations leave alone -/

/-- `s'` differs from `s` at most in the dead nonce list -/
def SamePit (s s' : St) : Prop :=
  s'.pit = s.pit ∧ s'.cs = s.cs ∧ s'.nPit = s.nPit ∧ s'.tokNext = s.tokNext ∧ s'.cfg = s.cfg ∧
  s'.pitNext = s.pitNext ∧ s'.dnlNext = s.dnlNext

theorem SamePit.refl (s : St) : SamePit s s := ⟨rfl, rfl, rfl, rfl, rfl, rfl, rfl⟩

theorem SamePit.trans {a b c : St} (h1 : SamePit a b) (h2 : SamePit b c) : SamePit a c := by
  obtain ⟨a1, a2, a3, a4, a5, a6, a7⟩ := h1
  obtain ⟨b1, b2, b3, b4, b5, b6, b7⟩ := h2
  exact ⟨b1.trans a1, b2.trans a2, b3.trans a3, b4.trans a4, b5.trans a5, b6.trans a6, b7.trans a7⟩

theorem dnlInsert_same (s : St) (n : Name) (x : Nat) : SamePit s (dnlInsert s n x) := by
  unfold dnlInsert; split
  · exact SamePit.refl s
  · exact ⟨rfl, rfl, rfl, rfl, rfl, rfl, rfl⟩

theorem fold_dnlInsert_same {α : Type} (l : List α) (f : α → Name × Nat) (s : St) :
    SamePit s (l.foldl (fun s r => dnlInsert s (f r).1 (f r).2) s) := by
  induction l generalizing s with
  | nil => exact SamePit.refl s
  | cons a t ih => exact (dnlInsert_same s _ _).trans (ih _)

theorem finalize_same (s : St) (e : PitEntry) : SamePit s (finalize s e) :=
  fold_dnlInsert_same e.outs (fun r => (r.name, r.nonce)) s

/-! ### the invariant -/

theorem latest_le (now H : Nat) (e : PitEntry) (h : ∀ r ∈ e.ins ++ e.outs, r.exp ≤ H) : latest now e ≤ max H now := by
  unfold latest
  generalize e.ins ++ e.outs = l at h
  have : ∀ (acc : Nat), acc ≤ max H now → l.foldl (fun m r => max m r.exp) acc ≤ max H now := by
    induction l with
    | nil => intro acc ha; exact ha
    | cons r t ih =>
      intro acc ha
      simp only [List.foldl_cons]
      apply ih (fun r' hr' => h r' (List.mem_cons_of_mem _ hr'))
      have := h r (by simp)
      omega
  exact this now (by omega)

structure Inv8 (s : St) : Prop where
  cs : C07.Inv s.cs
  sched : ∀ e ∈ s.pit, ∃ p, e.sched = some p ∧ p ≤ max e.horizon s.now
  recs : ∀ e ∈ s.pit, ∀ r ∈ e.ins ++ e.outs, r.exp ≤ e.horizon
  npit : s.nPit = s.pit.length
  toks : (s.pit.map (·.tok)).Nodup
  tokb : ∀ e ∈ s.pit, e.tok < s.tokNext
  minimal : Minimal s.cs.nodes (s.cs.cs.keys ++ s.pit.map (·.name))
  time : s.now ≤ s.pitNext ∧ s.now ≤ s.dnlNext

theorem inv8_init (cfg : Cfg) (k : Nat) : Inv8 (init cfg k) := by
  constructor
  · exact C07.inv_init k
  · intro e he; cases he
  · intro e he; cases he
  · rfl
  · simp [init]
  · intro e he; cases he
  · intro x; simp [init, C07.init, OnPath, C07.CsMap.keys]
  · simp [init, St.now, C07.init, period]

theorem SamePit.inv {s s' : St} (h : SamePit s s') (hi : Inv8 s) : Inv8 s' := by
  obtain ⟨h1, h2, h3, h4, _, h6, h7⟩ := h
  constructor
  · rw [h2]; exact hi.cs
  · rw [h1]; simp only [St.now, h2]; exact hi.sched
  · rw [h1]; exact hi.recs
  · rw [h1, h3]; exact hi.npit
  · rw [h1]; exact hi.toks
  · rw [h1, h4]; exact hi.tokb
  · rw [h1, h2]; exact hi.minimal
  · simp only [St.now, h2, h6, h7]; exact hi.time

/-- replacing an entry by an updated version of itself (same token, same name) that is scheduled -/
theorem setEntry_inv {s : St} (hi : Inv8 s) (e0 e : PitEntry) (h0 : e0 ∈ s.pit) (ht : e.tok = e0.tok)
    (hname : e.name = e0.name) (hs : ∃ p, e.sched = some p ∧ p ≤ max e.horizon s.now)
    (hr : ∀ r ∈ e.ins ++ e.outs, r.exp ≤ e.horizon) :
    Inv8 { s with pit := setEntry s.pit e } := by
  have hnm : (setEntry s.pit e).map (·.name) = s.pit.map (·.name) := by
    apply setEntry_map_name
    intro x hx hxt
    have : x = e0 := tok_inj hi.toks hx h0 (hxt.trans ht)
    rw [this, hname]
  constructor
  · exact hi.cs
  · intro x hx
    rcases mem_setEntry hx with rfl | ⟨hx', _⟩
    · exact hs
    · exact hi.sched x hx'
  · intro x hx
    rcases mem_setEntry hx with rfl | ⟨hx', _⟩
    · exact hr
    · exact hi.recs x hx'
  · show s.nPit = (setEntry s.pit e).length
    rw [setEntry_length]; exact hi.npit
  · show ((setEntry s.pit e).map (·.tok)).Nodup
    rw [setEntry_map_tok]; exact hi.toks
  · intro x hx
    rcases mem_setEntry hx with rfl | ⟨hx', _⟩
    · show x.tok < s.tokNext
      rw [ht]; exact hi.tokb e0 h0
    · exact hi.tokb x hx'
  · show Minimal s.cs.nodes (s.cs.cs.keys ++ (setEntry s.pit e).map (·.name))
    rw [hnm]; exact hi.minimal
  · exact hi.time

end Ndn.C08
