/-
  C08 helper lemmas: the dead nonce list.  `DClosed P`: `P` looks only at the dead nonce list, the
  clock, the ticker and the configuration, and survives an insertion — every packet-processing
  function preserves such a `P`.  `DInv`: records are sorted by expiry, expiry = insertion time +
  lifetime, the ticker is armed within one period, and a record of rank `r` (number of records present
  when it was inserted) at index `i` has seen at most `(r - i)/100` ticks since it expired.
-/
import NdnVerif.C08.LemmasDrain
namespace Ndn.C08

def DSame (a b : St) : Prop := b.dnl = a.dnl ∧ b.now = a.now ∧ b.dnlNext = a.dnlNext ∧ b.cfg = a.cfg

structure DClosed (P : St → Prop) : Prop where
  same : ∀ a b, DSame a b → P a → P b
  ins : ∀ a n x, P a → P (dnlInsert a n x)

theorem DClosed.fold {P : St → Prop} (hc : DClosed P) {α : Type} (l : List α) (f : α → Name × Nat) (s : St) (h : P s) :
    P (l.foldl (fun s r => dnlInsert s (f r).1 (f r).2) s) := by
  induction l generalizing s with
  | nil => exact h
  | cons a t ih => exact ih _ (hc.ins s _ _ h)

theorem forward_d {P : St → Prop} (hc : DClosed P) (s : St) (e : PitEntry) (i : Interest) (h : P s) :
    P (forward s e i).1 := hc.same s _ ⟨rfl, rfl, rfl, rfl⟩ h

theorem interestTail_d {P : St → Prop} (hc : DClosed P) (ord : List Name → List Name) (s : St) (e : PitEntry)
    (i : Interest) (h : P s) : P (interestTail ord s e i).1 := by
  unfold interestTail
  simp only
  cases e.ins.find? (fun r => r.face == i.face) with
  | some r0 => exact forward_d hc _ _ _ (hc.ins s _ _ h)
  | none =>
    simp only
    have hnow : (C07.findData ord s.cs i.name i.cbp i.mbf).1.now = s.cs.now := (findData_frame ord s.cs _ _ _).2.2
    cases (C07.findData ord s.cs i.name i.cbp i.mbf).2 with
    | none =>
      exact forward_d hc _ _ _ (hc.same s { s with cs := (C07.findData ord s.cs i.name i.cbp i.mbf).1 } ⟨rfl, hnow, rfl, rfl⟩ h)
    | some qa =>
      obtain ⟨q, a⟩ := qa
      exact hc.same s _ ⟨rfl, hnow, rfl, rfl⟩ h

theorem procInterest_d {P : St → Prop} (hc : DClosed P) (ord : List Name → List Name) (s : St) (i : Interest) (h : P s) :
    P (procInterest ord s i).1 := by
  unfold procInterest
  split
  · exact h
  · simp only
    cases s.pit.find? (fun e => decide (e.name = i.name ∧ e.cbp = i.cbp ∧ e.mbf = i.mbf)) with
    | some e =>
      simp only
      split
      · exact h
      · exact interestTail_d hc ord s e i h
    | none =>
      exact interestTail_d hc ord _ _ i (hc.same s _ ⟨rfl, rfl, rfl, rfl⟩ h)

theorem satisfy_d {P : St → Prop} (hc : DClosed P) (s : St) (e : PitEntry) (h : P s) : P (satisfy s e) :=
  hc.same s _ ⟨rfl, rfl, rfl, rfl⟩ h

theorem procData_d {P : St → Prop} (hc : DClosed P) (s : St) (d : DataPkt) (h : P s) : P (procData s d).1 := by
  have h1 : P { s with cs := C07.insertData (pitAt s.pit) s.cs d.name d.wire d.fresh } :=
    hc.same s _ ⟨rfl, insertData_now _ _ _ _ _, rfl, rfl⟩ h
  unfold procData
  simp only
  generalize ({ s with cs := C07.insertData (pitAt s.pit) s.cs d.name d.wire d.fresh } : St) = s1 at h1
  generalize dataMatches s1 d = ms
  match ms with
  | [] => exact h1
  | [e] => exact satisfy_d hc _ e (hc.fold e.outs (fun (r : Rec) => (d.name, r.nonce)) s1 h1)
  | e0 :: e1 :: rest =>
    simp only
    generalize (e0 :: e1 :: rest) = l
    have : ∀ (acc : St × List Send), P acc.1 → P (l.foldl (fun (acc : St × List Send) e =>
        (satisfy (((getEntry acc.1.pit e0.tok).getD e0).outs.foldl (fun s r => dnlInsert s d.name r.nonce) acc.1) e,
         acc.2 ++ (((getEntry (((getEntry acc.1.pit e0.tok).getD e0).outs.foldl (fun s r => dnlInsert s d.name r.nonce) acc.1).pit e.tok).getD e).ins.filter
            (fun r => r.face != d.face)).map (fun r => Send.data r.face d.name))) acc).1 := by
      induction l with
      | nil => intro acc h; exact h
      | cons x t ih =>
        intro acc h
        simp only [List.foldl_cons]
        apply ih
        exact satisfy_d hc _ x (hc.fold _ (fun (r : Rec) => (d.name, r.nonce)) acc.1 h)
    exact this (s1, []) h1

theorem removeEntry_d {P : St → Prop} (hc : DClosed P) (s : St) (e : PitEntry) (h : P s) : P (removeEntry s e) :=
  hc.same s _ ⟨rfl, rfl, rfl, rfl⟩ h

theorem finalize_d {P : St → Prop} (hc : DClosed P) (s : St) (e : PitEntry) (h : P s) : P (finalize s e) :=
  hc.fold e.outs (fun (r : Rec) => (r.name, r.nonce)) s h

theorem fold_remove_d {P : St → Prop} (hc : DClosed P) (l : List PitEntry) (s : St) (h : P s) :
    P (l.foldl (fun s e => removeEntry (finalize s e) e) s) := by
  induction l generalizing s with
  | nil => exact h
  | cons e t ih => exact ih _ (removeEntry_d hc _ e (finalize_d hc s e h))

/-! ### the invariant -/

/-- ticks of the reaper that have fired strictly after instant `e` -/
def ticksAfter (s : St) (e : Nat) : Nat := (s.dnlNext - 1 - e) / period

structure DInv (s : St) : Prop where
  sorted : s.dnl.Pairwise (fun a b => a.exp ≤ b.exp)
  born : ∀ x ∈ s.dnl, x.exp = x.born + s.cfg.dnlLife ∧ x.born ≤ s.now
  armed : s.dnlNext ≤ s.now + period
  rank : ∀ (i : Nat) (h : i < s.dnl.length), i + dnlBatch * ticksAfter s (s.dnl[i]).exp ≤ (s.dnl[i]).rank

theorem period_pos : 0 < period := by decide

theorem dinv_closed : DClosed DInv := by
  constructor
  · intro a b ⟨h1, h2, h3, h4⟩ h
    constructor
    · rw [h1]; exact h.sorted
    · rw [h1, h2, h4]; exact h.born
    · rw [h2, h3]; exact h.armed
    · intro i hi
      have hi' : i < a.dnl.length := by rw [← h1]; exact hi
      have := h.rank i hi'
      simp only [ticksAfter, h3] at this ⊢
      simp only [h1]
      exact this
  · intro a n x h
    unfold dnlInsert
    split
    · exact h
    · constructor
      · show (a.dnl ++ [_]).Pairwise _
        rw [List.pairwise_append]
        refine ⟨h.sorted, by simp, ?_⟩
        intro y hy z hz
        simp at hz; subst hz
        obtain ⟨e1, e2⟩ := h.born y hy
        show y.exp ≤ a.now + a.cfg.dnlLife
        omega
      · intro y hy
        rcases List.mem_append.mp hy with hy | hy
        · exact h.born y hy
        · simp at hy; subst hy; exact ⟨rfl, Nat.le_refl _⟩
      · exact h.armed
      · intro i hi
        show i + dnlBatch * ((a.dnlNext - 1 - ((a.dnl ++ [_])[i]).exp) / period) ≤ ((a.dnl ++ [_])[i]).rank
        by_cases hlt : i < a.dnl.length
        · rw [List.getElem_append_left hlt]
          exact h.rank i hlt
        · have hieq : i = a.dnl.length := by
            simp only [List.length_append, List.length_cons, List.length_nil] at hi; omega
          subst hieq
          simp only [List.getElem_append_right (Nat.le_refl _), Nat.sub_self, List.getElem_cons_zero]
          have harm := h.armed
          have : (a.dnlNext - 1 - (a.now + a.cfg.dnlLife)) / period = 0 := by
            apply Nat.div_eq_of_lt
            have := period_pos
            omega
          rw [this]; omega

theorem setNow_dinv {s : St} (h : DInv s) (t : Nat) (ht : s.now ≤ t) : DInv (setNow s t) := by
  constructor
  · exact h.sorted
  · intro x hx
    obtain ⟨e1, e2⟩ := h.born x hx
    exact ⟨e1, by show x.born ≤ t; omega⟩
  · show s.dnlNext ≤ t + period
    have := h.armed; omega
  · exact h.rank

/-- if the first `j+1` elements satisfy `p`, `takeWhile p` is longer than `j` -/
theorem takeWhile_length_gt {α : Type} (p : α → Bool) (l : List α) (j : Nat) (hj : j < l.length)
    (h : ∀ (i : Nat) (hi : i < l.length), i ≤ j → p l[i] = true) : j < (l.takeWhile p).length := by
  induction l generalizing j with
  | nil => simp at hj
  | cons a t ih =>
    have ha : p a = true := h 0 (by simp) (Nat.zero_le _)
    simp only [List.takeWhile_cons, ha, ↓reduceIte, List.length_cons]
    cases j with
    | zero => omega
    | succ j =>
      have := ih j (by simpa using hj) (fun i hi hij => by
        have := h (i + 1) (by simp; omega) (by omega)
        simpa using this)
      omega

theorem fireDnl_dinv {s : St} (h : DInv s) (ht : s.now ≤ s.dnlNext) : DInv (fireDnl s) := by
  unfold fireDnl
  simp only
  generalize hk : min dnlBatch (s.dnl.takeWhile (fun x => decide (x.exp < s.dnlNext))).length = k
  constructor
  · show (s.dnl.drop k).Pairwise _
    exact h.sorted.sublist (List.drop_sublist _ _)
  · intro x hx
    obtain ⟨e1, e2⟩ := h.born x (List.mem_of_mem_drop hx)
    exact ⟨e1, by show x.born ≤ s.dnlNext; omega⟩
  · show s.dnlNext + period ≤ s.dnlNext + period
    exact Nat.le_refl _
  · intro i hi
    have hi' : i + k < s.dnl.length := by
      have : (s.dnl.drop k).length = s.dnl.length - k := List.length_drop
      have hi2 : i < (s.dnl.drop k).length := hi
      omega
    show i + dnlBatch * ((s.dnlNext + period - 1 - ((s.dnl.drop k)[i]).exp) / period) ≤ ((s.dnl.drop k)[i]).rank
    have hget : (s.dnl.drop k)[i] = s.dnl[i + k] := by
      rw [List.getElem_drop]; congr 1; omega
    rw [hget]
    have hold := h.rank (i + k) hi'
    simp only [ticksAfter] at hold
    have hp := period_pos
    by_cases hexp : s.dnl[i + k].exp < s.dnlNext
    · -- expired but still there: a full batch went, and one more tick is counted
      have htw : i + k < (s.dnl.takeWhile (fun x => decide (x.exp < s.dnlNext))).length := by
        apply takeWhile_length_gt _ _ _ hi'
        intro j hj hjle
        have hsorted := List.pairwise_iff_getElem.mp h.sorted
        by_cases hje : j = i + k
        · subst hje; simpa using hexp
        · have := hsorted j (i + k) hj hi' (by omega)
          simp only [decide_eq_true_eq]; omega
      have hk100 : k = dnlBatch := by
        have : dnlBatch = 100 := rfl
        omega
      have hdiv : (s.dnlNext + period - 1 - s.dnl[i + k].exp) / period = (s.dnlNext - 1 - s.dnl[i + k].exp) / period + 1 := by
        have : s.dnlNext + period - 1 - s.dnl[i + k].exp = (s.dnlNext - 1 - s.dnl[i + k].exp) + period := by omega
        rw [this, Nat.add_div_right _ hp]
      rw [hdiv, hk100] at *
      have : dnlBatch = 100 := rfl
      simp only [Nat.mul_add, Nat.mul_one]
      omega
    · have : (s.dnlNext + period - 1 - s.dnl[i + k].exp) / period = 0 := by
        apply Nat.div_eq_of_lt; omega
      rw [this]; omega

/-! ### everything the thread does preserves `DInv` -/

theorem fireUpdate_dinv {s : St} (h : DInv s) (ht : s.now ≤ s.pitNext) : DInv (fireUpdate s) := by
  unfold fireUpdate
  simp only
  have h0 := setNow_dinv h s.pitNext ht
  have h1 := fold_remove_d dinv_closed ((setNow s s.pitNext).pit.filter (isDue s.pitNext)) _ h0
  generalize List.foldl (fun s e => removeEntry (finalize s e) e) (setNow s s.pitNext)
      (List.filter (isDue s.pitNext) (setNow s s.pitNext).pit) = S at h1
  exact dinv_closed.same S _ ⟨rfl, rfl, rfl, rfl⟩ h1

theorem advanceTo_dinv (tie : Nat → Bool) (f : Nat) {s : St} (hi : Inv8 s) (hd : DInv s) (target : Nat) (ht : s.now ≤ target) :
    DInv (advanceTo tie f s target) := by
  induction f generalizing s with
  | zero => exact hd
  | succ f ih =>
    unfold advanceTo
    split
    · rename_i h
      obtain ⟨r1, r2, _⟩ := fireUpdate_spec hi (by omega)
      exact ih r1 (fireUpdate_dinv hd hi.time.1) (by rw [r2]; exact h.1)
    · rename_i h
      split
      · rename_i h2
        have hord : s.dnlNext ≤ s.pitNext := by
          by_cases hp : s.pitNext ≤ target
          · cases htie : tie s.pitNext <;> simp [hp, htie] at h <;> omega
          · omega
        obtain ⟨r1, r2, _⟩ := fireDnl_spec hi hord
        exact ih r1 (fireDnl_dinv hd hi.time.2) (by rw [r2]; exact h2)
      · rename_i h2
        split
        · rename_i h3
          obtain ⟨r1, r2, _⟩ := fireUpdate_spec hi (by omega)
          exact ih r1 (fireUpdate_dinv hd hi.time.1) (by rw [r2]; exact h3)
        · exact setNow_dinv hd _ ht

theorem step_dinv {s : St} (hi : Inv8 s) (hd : DInv s) (op : Op) : DInv (step s op) := by
  cases op with
  | interest ord face name cbp mbf nonce life hop nhf =>
    simp only [step, procInterestPkt]
    split
    · exact hd
    · split
      · exact hd
      · split
        · exact hd
        · cases nonce with
          | none => exact hd
          | some x => exact procInterest_d dinv_closed ord s _ hd
  | data d =>
    simp only [step, procDataPkt]
    split
    · exact hd
    · split
      · exact hd
      · exact procData_d dinv_closed s d hd
  | cap k => exact dinv_closed.same s _ ⟨rfl, rfl, rfl, rfl⟩ hd
  | adv tie fuel d => exact advanceTo_dinv tie fuel hi hd _ (Nat.le_add_right _ _)

theorem dinv_init (cfg : Cfg) (k : Nat) : DInv (init cfg k) := by
  constructor
  · simp [init]
  · intro x hx; simp [init] at hx
  · simp [init, St.now, C07.init]
  · intro i hi; simp [init] at hi

theorem run_dinv {s : St} (hi : Inv8 s) (hT : InvT s) (hd : DInv s) (ops : List Op) : DInv (run s ops) := by
  induction ops generalizing s with
  | nil => exact hd
  | cons op t ih =>
    obtain ⟨h1, h2⟩ := step_inv hi hT op
    exact ih h1 h2 (step_dinv hi hd op)

end Ndn.C08

namespace Ndn.C08

/-- the configuration never changes -/
theorem cfg_closed (c : Cfg) : DClosed (fun s => s.cfg = c) := by
  constructor
  · intro a b h ha; rw [h.2.2.2]; exact ha
  · intro a n x ha
    unfold dnlInsert; split
    · exact ha
    · exact ha

theorem advanceTo_cfg (tie : Nat → Bool) (f : Nat) (s : St) (target : Nat) : (advanceTo tie f s target).cfg = s.cfg := by
  have hU : ∀ s : St, (fireUpdate s).cfg = s.cfg := by
    intro s
    unfold fireUpdate
    simp only
    exact fold_remove_d (cfg_closed s.cfg) ((setNow s s.pitNext).pit.filter (isDue s.pitNext)) (setNow s s.pitNext) rfl
  have hD : ∀ s : St, (fireDnl s).cfg = s.cfg := fun s => rfl
  induction f generalizing s with
  | zero => rfl
  | succ f ih =>
    unfold advanceTo
    split
    · rw [ih, hU]
    · split
      · rw [ih, hD]
      · split
        · rw [ih, hU]
        · rfl

theorem run_cfg (s : St) (ops : List Op) : (run s ops).cfg = s.cfg := by
  induction ops generalizing s with
  | nil => rfl
  | cons op t ih =>
    show (run (step s op) t).cfg = s.cfg
    rw [ih]
    cases op with
    | interest ord face name cbp mbf nonce life hop nhf =>
      simp only [step, procInterestPkt]
      split
      · rfl
      · split
        · rfl
        · split
          · rfl
          · cases nonce with
            | none => rfl
            | some x => exact procInterest_d (cfg_closed s.cfg) ord s _ rfl
    | data d =>
      simp only [step, procDataPkt]
      split
      · rfl
      · split
        · rfl
        · exact procData_d (cfg_closed s.cfg) s d rfl
    | cap k => rfl
    | adv tie fuel d => exact advanceTo_cfg tie fuel s _

end Ndn.C08
