/-
  C08 helper lemmas: preservation of `Inv8` by Interest / Data processing, the PIT update, the
  dead-nonce tick and the passage of time.
-/
import NdnVerif.C08.LemmasPit
namespace Ndn.C08
open Ndn.C07 (memb rem prefixes fill prune Minimal OnPath memb_iff mem_rem)

/-- `Inv8` except that the entry with token `t` need not be scheduled yet -/
structure Inv8x (t : Nat) (s : St) : Prop where
  cs : C07.Inv s.cs
  sched : ∀ e ∈ s.pit, e.tok ≠ t → ∃ p, e.sched = some p ∧ p ≤ max e.horizon s.now
  recs : ∀ e ∈ s.pit, e.tok ≠ t → ∀ r ∈ e.ins ++ e.outs, r.exp ≤ e.horizon
  npit : s.nPit = s.pit.length
  toks : (s.pit.map (·.tok)).Nodup
  tokb : ∀ e ∈ s.pit, e.tok < s.tokNext
  minimal : Minimal s.cs.nodes (s.cs.cs.keys ++ s.pit.map (·.name))
  time : s.now ≤ s.pitNext ∧ s.now ≤ s.dnlNext

theorem Inv8.toX {s : St} (h : Inv8 s) (t : Nat) : Inv8x t s :=
  ⟨h.cs, fun e he _ => h.sched e he, fun e he _ => h.recs e he, h.npit, h.toks, h.tokb, h.minimal, h.time⟩

theorem SamePit.invx {s s' : St} {t : Nat} (h : SamePit s s') (hi : Inv8x t s) : Inv8x t s' := by
  obtain ⟨h1, h2, h3, h4, _, h6, h7⟩ := h
  constructor
  · rw [h2]; exact hi.cs
  · rw [h1]; simp only [St.now, h2]; exact hi.sched
  · rw [h1]; exact hi.recs
  · rw [h1, h3]; exact hi.npit
  · rw [h1]; exact hi.toks
  · rw [h1, h4]; exact hi.tokb
  · rw [h1, h2]; exact hi.minimal
  · simp only [St.now, h2, h6, h7]; exact hi.time

/-- scheduling the one entry that was still exempt -/
theorem setEntry_invx {s : St} {t : Nat} (hi : Inv8x t s) (e0 e : PitEntry) (h0 : e0 ∈ s.pit) (ht0 : e0.tok = t)
    (ht : e.tok = t) (hname : e.name = e0.name) (hs : ∃ p, e.sched = some p ∧ p ≤ max e.horizon s.now)
    (hr : ∀ r ∈ e.ins ++ e.outs, r.exp ≤ e.horizon) :
    Inv8 { s with pit := setEntry s.pit e } := by
  have hnm : (setEntry s.pit e).map (·.name) = s.pit.map (·.name) := by
    apply setEntry_map_name
    intro x hx hxt
    have : x = e0 := tok_inj hi.toks hx h0 (by rw [hxt, ht, ht0])
    rw [this, hname]
  constructor
  · exact hi.cs
  · intro x hx
    rcases mem_setEntry hx with rfl | ⟨hx', hne⟩
    · exact hs
    · exact hi.sched x hx' (by rw [← ht]; exact hne)
  · intro x hx
    rcases mem_setEntry hx with rfl | ⟨hx', hne⟩
    · exact hr
    · exact hi.recs x hx' (by rw [← ht]; exact hne)
  · show s.nPit = (setEntry s.pit e).length
    rw [setEntry_length]; exact hi.npit
  · show ((setEntry s.pit e).map (·.tok)).Nodup
    rw [setEntry_map_tok]; exact hi.toks
  · intro x hx
    rcases mem_setEntry hx with rfl | ⟨hx', _⟩
    · show x.tok < s.tokNext
      rw [ht, ← ht0]; exact hi.tokb e0 h0
    · exact hi.tokb x hx'
  · show Minimal s.cs.nodes (s.cs.cs.keys ++ (setEntry s.pit e).map (·.name))
    rw [hnm]; exact hi.minimal
  · exact hi.time

/-! ### Content-Store lookups and insertions inside the thread -/

theorem findData_frame (ord : List Name → List Name) (c : C07.St) (n : Name) (cbp mbf : Bool) :
    (C07.findData ord c n cbp mbf).1.cs = c.cs ∧ (C07.findData ord c n cbp mbf).1.nodes = c.nodes ∧
    (C07.findData ord c n cbp mbf).1.now = c.now := by
  unfold C07.findData
  split
  · split
    · split <;> exact ⟨rfl, rfl, rfl⟩
    · exact ⟨rfl, rfl, rfl⟩
  · exact ⟨rfl, rfl, rfl⟩

theorem findData_invx (ord : List Name → List Name) {s : St} {t : Nat} (hi : Inv8x t s) (n : Name) (cbp mbf : Bool) :
    Inv8x t { s with cs := (C07.findData ord s.cs n cbp mbf).1 } := by
  obtain ⟨h1, h2, h3⟩ := findData_frame ord s.cs n cbp mbf
  constructor
  · exact C07.findData_inv ord hi.cs n cbp mbf
  · simp only [St.now, h3]; exact hi.sched
  · exact hi.recs
  · exact hi.npit
  · exact hi.toks
  · exact hi.tokb
  · simp only [h1, h2]; exact hi.minimal
  · simp only [St.now, h3]; exact hi.time

theorem insertData_now (pit : Name → Bool) (c : C07.St) (n : Name) (w : Bytes) (f : Nat) :
    (C07.insertData pit c n w f).now = c.now := by
  unfold C07.insertData
  split
  · rfl
  · simp only [C07.evict]
    exact (C07.fold_eraseCs_fields pit _ _).2.1

theorem pitAt_iff {pit : List PitEntry} {m : Name} : pitAt pit m = true ↔ m ∈ pit.map (·.name) := by
  simp [pitAt]

/-! ### upsertOut -/

theorem upsertOut_recs {outs : List Rec} {H : Nat} (h : ∀ r ∈ outs, r.exp ≤ H) (face nonce now exp : Nat) (name : Name)
    (he : exp ≤ H) : ∀ r ∈ upsertOut outs face nonce now exp name, r.exp ≤ H := by
  intro r hr
  unfold upsertOut at hr
  split at hr
  · simp only [List.mem_map] at hr
    obtain ⟨x, hx, rfl⟩ := hr
    split
    · exact he
    · exact h x hx
  · rcases List.mem_append.mp hr with hr | hr
    · exact h r hr
    · simp at hr; subst hr; exact he

theorem fold_upsertOut_recs {H : Nat} (targets : List (Nat × Nat)) (nonce now exp : Nat) (name : Name) (he : exp ≤ H) :
    ∀ (outs : List Rec), (∀ r ∈ outs, r.exp ≤ H) →
      ∀ r ∈ targets.foldl (fun outs nh => upsertOut outs nh.1 nonce now exp name) outs, r.exp ≤ H := by
  induction targets with
  | nil => intro outs h; exact h
  | cons a t ih =>
    intro outs h
    simp only [List.foldl_cons]
    exact ih _ (upsertOut_recs h _ _ _ _ _ he)

/-! ### Interests -/

theorem forward_inv {s : St} {e0 : PitEntry} (e : PitEntry) (i : Interest) (hi : Inv8x e0.tok s) (h0 : e0 ∈ s.pit) (ht : e.tok = e0.tok)
    (hname : e.name = e0.name) (hr : ∀ r ∈ e.ins ++ e.outs, r.exp ≤ e.horizon) (hl : s.now + i.life ≤ e.horizon) :
    Inv8 (forward s e i).1 := by
  have hs : latest s.now e ≤ max e.horizon s.now := latest_le _ _ _ hr
  have hins : ∀ r ∈ e.ins, r.exp ≤ e.horizon := fun r h => hr r (List.mem_append_left _ h)
  have houts : ∀ r ∈ e.outs, r.exp ≤ e.horizon := fun r h => hr r (List.mem_append_right _ h)
  unfold forward
  simp only
  show Inv8 { s with pit := setEntry s.pit _ }
  apply setEntry_invx hi e0 _ h0
  · rfl
  · exact ht
  · exact hname
  · exact ⟨_, rfl, hs⟩
  · intro r hr'
    rcases List.mem_append.mp hr' with h | h
    · exact hins r h
    · exact fold_upsertOut_recs _ _ _ _ _ hl _ houts r h

theorem interestTail_inv (ord : List Name → List Name) {s : St} {e : PitEntry} (i : Interest)
    (hi : Inv8x e.tok s) (he : e ∈ s.pit) (hr : ∀ r ∈ e.ins ++ e.outs, r.exp ≤ e.horizon) :
    Inv8 (interestTail ord s e i).1 := by
  have hins : ∀ r ∈ e.ins, r.exp ≤ e.horizon := fun r h => hr r (List.mem_append_left _ h)
  have houts : ∀ r ∈ e.outs, r.exp ≤ e.horizon := fun r h => hr r (List.mem_append_right _ h)
  -- records of the entry after InsertInRecord
  have hrec1 : ∀ (ins' : List Rec), (∀ r ∈ ins', r.exp ≤ max e.horizon (s.now + i.life)) →
      ∀ r ∈ ins' ++ e.outs, r.exp ≤ max e.horizon (s.now + i.life) := by
    intro ins' h r hr'
    rcases List.mem_append.mp hr' with h' | h'
    · exact h r h'
    · have := houts r h'; omega
  have hmap : ∀ r ∈ e.ins.map (fun r => if r.face = i.face then (⟨i.face, i.nonce, s.now, s.now + i.life, i.name⟩ : Rec) else r),
      r.exp ≤ max e.horizon (s.now + i.life) := by
    intro r hr'
    simp only [List.mem_map] at hr'
    obtain ⟨x, hx, rfl⟩ := hr'
    split
    · simp; omega
    · have := hins x hx; omega
  have happ : ∀ r ∈ e.ins ++ [(⟨i.face, i.nonce, s.now, s.now + i.life, i.name⟩ : Rec)],
      r.exp ≤ max e.horizon (s.now + i.life) := by
    intro r hr'
    rcases List.mem_append.mp hr' with h | h
    · have := hins r h; omega
    · simp at h; subst h; simp; omega
  unfold interestTail
  simp only
  cases hprev : e.ins.find? (fun r => r.face == i.face) with
  | some r0 =>
    simp only
    refine forward_inv (e0 := e) _ i ((dnlInsert_same s _ _).invx hi) ?_ ?_ ?_ ?_ ?_
    · rw [(dnlInsert_same s _ _).1]; exact he
    · rfl
    · rfl
    · exact hrec1 _ hmap
    · show (dnlInsert s i.name r0.nonce).now + i.life ≤ max e.horizon (s.now + i.life)
      have : (dnlInsert s i.name r0.nonce).now = s.now := by
        have := (dnlInsert_same s i.name r0.nonce).2.1
        simp only [St.now, this]
      omega
  | none =>
    simp only
    cases hans : (C07.findData ord s.cs i.name i.cbp i.mbf).2 with
    | none =>
      simp only
      refine forward_inv (e0 := e) _ i (findData_invx ord hi _ _ _) he ?_ ?_ ?_ ?_
      · rfl
      · rfl
      · exact hrec1 _ happ
      · have : (C07.findData ord s.cs i.name i.cbp i.mbf).1.now = s.now := (findData_frame ord s.cs _ _ _).2.2
        show (C07.findData ord s.cs i.name i.cbp i.mbf).1.now + i.life ≤ max e.horizon (s.now + i.life)
        omega
    | some qa =>
      obtain ⟨q, a⟩ := qa
      simp only
      have hx := findData_invx ord hi i.name i.cbp i.mbf
      have hnow : (C07.findData ord s.cs i.name i.cbp i.mbf).1.now = s.now := (findData_frame ord s.cs _ _ _).2.2
      have hrecs : ∀ r ∈ (e.ins ++ [(⟨i.face, i.nonce, s.now, s.now + i.life, i.name⟩ : Rec)]).filter (fun r => r.face != i.face) ++ e.outs,
          r.exp ≤ max e.horizon (s.now + i.life) := by
        intro r hr'
        rcases List.mem_append.mp hr' with h | h
        · exact happ r (List.mem_filter.mp h).1
        · have := houts r h; omega
      refine setEntry_invx (s := { s with cs := (C07.findData ord s.cs i.name i.cbp i.mbf).1 }) hx e _ he rfl rfl rfl ⟨_, rfl, ?_⟩ hrecs
      have := latest_le s.now (max e.horizon (s.now + i.life))
        { e with ins := (e.ins ++ [(⟨i.face, i.nonce, s.now, s.now + i.life, i.name⟩ : Rec)]).filter (fun r => r.face != i.face),
                 horizon := max e.horizon (s.now + i.life) } hrecs
      simp only [St.now, hnow] at this ⊢
      exact this

theorem procInterest_inv (ord : List Name → List Name) {s : St} (hi : Inv8 s) (i : Interest) :
    Inv8 (procInterest ord s i).1 := by
  unfold procInterest
  split
  · exact hi
  · simp only
    cases hf : s.pit.find? (fun e => decide (e.name = i.name ∧ e.cbp = i.cbp ∧ e.mbf = i.mbf)) with
    | some e =>
      have he : e ∈ s.pit := List.mem_of_find?_eq_some hf
      simp only
      split
      · exact hi
      · exact interestTail_inv ord i (hi.toX e.tok) he (hi.recs e he)
    | none =>
      simp only
      apply interestTail_inv ord i
      · -- the extended state: only the new entry is unscheduled
        constructor
        · have := hi.cs
          exact ⟨this.qnodup, this.knodup, this.qmem, this.ncs, this.hist, this.lru,
            fun n hn p hp => C07.mem_fill.mpr (Or.inl (this.reach n hn p hp)), this.cached⟩
        · intro x hx hne
          rcases List.mem_append.mp hx with h | h
          · exact hi.sched x h
          · simp at h; subst h; exact absurd rfl hne
        · intro x hx hne
          rcases List.mem_append.mp hx with h | h
          · exact hi.recs x h
          · simp at h; subst h; exact absurd rfl hne
        · simp [hi.npit]
        · simp only [List.map_append, List.map_cons, List.map_nil]
          rw [List.nodup_append]
          refine ⟨hi.toks, by simp, ?_⟩
          intro a ha b hb
          simp at hb; subst hb
          simp only [List.mem_map] at ha
          obtain ⟨x, hx, rfl⟩ := ha
          have := hi.tokb x hx
          omega
        · intro x hx
          rcases List.mem_append.mp hx with h | h
          · have := hi.tokb x h
            show x.tok < s.tokNext + 1
            omega
          · simp at h; subst h; show s.tokNext < s.tokNext + 1; omega
        · show Minimal (fill s.cs.nodes i.name) (s.cs.cs.keys ++ (s.pit ++ [_]).map (fun (e : PitEntry) => e.name))
          apply C07.fill_minimal' hi.minimal
          intro m
          simp only [List.map_append, List.map_cons, List.map_nil, List.mem_append, List.mem_singleton]
          constructor
          · rintro (h | h | h)
            · exact Or.inl (Or.inl h)
            · exact Or.inl (Or.inr h)
            · exact Or.inr h
          · rintro ((h | h) | h)
            · exact Or.inl h
            · exact Or.inr (Or.inl h)
            · exact Or.inr (Or.inr h)
        · exact hi.time
      · simp
      · intro r hr; simp at hr

end Ndn.C08
