/-
  C08 helper lemmas: the name-tree FIB and the RIB keep exactly the prefix closure of their live names.
-/
import NdnVerif.C08.ModelFib
import NdnVerif.C07.LemmasPrune
namespace Ndn.C08
open Ndn.C07 (memb rem prefixes fill prune children Minimal OnPath memb_iff mem_rem)

/-! ### association lists -/

theorem aget_aset {β : Type} (d : β) (m : List (Name × β)) (n x : Name) (v : β) :
    aget d (aset m n v) x = if x = n then v else aget d m x := by
  induction m with
  | nil =>
    by_cases hx : x = n
    · simp [aset, aget, hx]
    · have : ¬ n = x := fun e => hx e.symm
      simp [aset, aget, hx, this]
  | cons p t ih =>
    obtain ⟨k, w⟩ := p
    by_cases hk : k = n
    · subst hk
      by_cases hx : x = k
      · simp [aset, aget, hx]
      · have : ¬ k = x := fun e => hx e.symm
        simp [aset, aget, hx, this]
    · by_cases hx : k = x
      · subst hx; simp [aset, aget, hk]
      · simp only [aset, hk, ↓reduceIte, aget, hx, ih]

theorem aget_mem_keys {β : Type} (d : β) (m : List (Name × β)) (n : Name) (h : aget d m n ≠ d) : n ∈ m.map (·.1) := by
  induction m with
  | nil => simp [aget] at h
  | cons p t ih =>
    obtain ⟨k, w⟩ := p
    by_cases hk : k = n
    · simp [hk]
    · simp only [aget, hk, ↓reduceIte] at h
      simp only [List.map_cons, List.mem_cons]; right; exact ih h

theorem removeFirst_nil_of_nil {α : Type} (p : α → Bool) (l : List α) (h : l.isEmpty = true) :
    (removeFirst p l).isEmpty = true := by
  cases l with
  | nil => rfl
  | cons _ _ => simp at h

/-! ### name-tree FIB -/

theorem FibTree.mem_liveList {f : FibTree} {m : Name} : m ∈ f.liveList ↔ f.live m = true := by
  simp only [FibTree.liveList, List.mem_filter, List.mem_append]
  constructor
  · exact fun h => h.2
  · intro h
    refine ⟨?_, h⟩
    simp only [FibTree.live, Bool.or_eq_true, Bool.not_eq_true'] at h
    rcases h with h | h
    · left; apply aget_mem_keys [] f.nh m
      intro e; rw [e] at h; simp at h
    · right; apply aget_mem_keys false f.st m
      intro e; rw [e] at h; cases h

def FibTree.Inv (f : FibTree) : Prop := Minimal f.nodes f.liveList

theorem FibTree.nodeAt_path {f : FibTree} {n : Name} (h : f.nodeAt n = true) : ∀ p ∈ prefixes n, p ∈ f.nodes := by
  simpa [FibTree.nodeAt, memb_iff] using h

/-- common shape of the three removing mutators: the tables change only at `n`, nothing becomes
    live, then the tree is pruned from `n` -/
theorem FibTree.pruneAt_inv {f g : FibTree} {n : Name} (hf : f.Inv) (hn : g.nodes = f.nodes)
    (hpath : ∀ p ∈ prefixes n, p ∈ f.nodes)
    (hsame : ∀ m, m ≠ n → g.live m = f.live m) (hless : g.live n = true → f.live n = true) :
    (g.pruneAt n).Inv := by
  have hl : (g.pruneAt n).liveList = g.liveList := rfl
  unfold FibTree.Inv
  rw [hl]
  show Minimal (prune g.live (n.length + 1) g.nodes n) g.liveList
  rw [hn]
  apply C07.prune_minimal' hf hpath
  · intro m hm
    by_cases e : m = n
    · exact Or.inr e
    · left; rw [FibTree.mem_liveList] at hm ⊢; rw [hsame m e]; exact hm
  · intro m hm
    rw [FibTree.mem_liveList] at hm ⊢
    by_cases e : m = n
    · subst e; exact hless hm
    · rw [← hsame m e]; exact hm
  · intro m _; exact FibTree.mem_liveList.symm

theorem FibTree.fill_inv {f g : FibTree} {n : Name} (hf : f.Inv) (hn : g.nodes = fill f.nodes n)
    (hsame : ∀ m, m ≠ n → g.live m = f.live m) (hlive : g.live n = true) : g.Inv := by
  unfold FibTree.Inv
  rw [hn]
  apply C07.fill_minimal' hf
  intro m
  rw [FibTree.mem_liveList, FibTree.mem_liveList]
  by_cases e : m = n
  · subst e; simp [hlive]
  · simp [hsame m e, e]

theorem FibTree.step_inv {f : FibTree} (hf : f.Inv) (op : FibOp) : (f.step op).Inv := by
  cases op with
  | ins n face =>
    simp only [FibTree.step, FibTree.ins]
    split
    · rename_i hc
      refine FibTree.fill_inv (n := n) hf ?_ (fun m _ => rfl) ?_
      · rfl
      simp only [FibTree.live, Bool.or_eq_true, Bool.not_eq_true']
      left
      cases hcur : aget [] f.nh n with
      | nil => simp [hcur] at hc
      | cons _ _ => rfl
    · refine FibTree.fill_inv (n := n) hf ?_ ?_ ?_
      · rfl
      · intro m hm; simp [FibTree.live, aget_aset, hm]
      · simp [FibTree.live, aget_aset]
  | rem n face =>
    simp only [FibTree.step, FibTree.rem]
    split
    · rename_i hnode
      refine FibTree.pruneAt_inv (n := n) hf ?_ (FibTree.nodeAt_path hnode) ?_ ?_
      · rfl
      · intro m hm; simp [FibTree.live, aget_aset, hm]
      · simp only [FibTree.live, aget_aset, ↓reduceIte, Bool.or_eq_true, Bool.not_eq_true']
        rintro (h | h)
        · left
          cases hcur : (aget [] f.nh n).isEmpty with
          | false => rfl
          | true => rw [removeFirst_nil_of_nil _ _ hcur] at h; cases h
        · exact Or.inr h
    · exact hf
  | clr n =>
    simp only [FibTree.step, FibTree.clr]
    split
    · rename_i hnode
      refine FibTree.pruneAt_inv (n := n) hf ?_ (FibTree.nodeAt_path hnode) ?_ ?_
      · rfl
      · intro m hm; simp [FibTree.live, aget_aset, hm]
      · simp only [FibTree.live, aget_aset, ↓reduceIte, Bool.or_eq_true, Bool.not_eq_true']
        rintro (h | h)
        · simp at h
        · exact Or.inr h
    · exact hf
  | set n =>
    simp only [FibTree.step, FibTree.set]
    refine FibTree.fill_inv (n := n) hf ?_ ?_ ?_
    · rfl
    · intro m hm; simp [FibTree.live, aget_aset, hm]
    · simp [FibTree.live, aget_aset]
  | uns n =>
    simp only [FibTree.step, FibTree.uns]
    split
    · rename_i hnode
      refine FibTree.pruneAt_inv (n := n) hf ?_ (FibTree.nodeAt_path hnode) ?_ ?_
      · rfl
      · intro m hm; simp [FibTree.live, aget_aset, hm]
      · simp only [FibTree.live, aget_aset, ↓reduceIte, Bool.or_eq_true, Bool.not_eq_true']
        rintro (h | h)
        · exact Or.inl h
        · cases h
    · exact hf

theorem FibTree.init_inv : ({} : FibTree).Inv := by
  intro x
  simp [OnPath, FibTree.liveList, FibTree.live, aget, prefixes]

theorem FibTree.run_inv {f : FibTree} (hf : f.Inv) (ops : List FibOp) : (f.run ops).Inv := by
  induction ops generalizing f with
  | nil => exact hf
  | cons op t ih => exact ih (FibTree.step_inv hf op)

/-! ### RIB -/

theorem Rib.mem_liveList {r : Rib} {m : Name} : m ∈ r.liveList ↔ r.live m = true := by
  simp only [Rib.liveList, List.mem_filter]
  constructor
  · exact fun h => h.2
  · intro h
    refine ⟨?_, h⟩
    simp only [Rib.live, Bool.not_eq_true'] at h
    apply aget_mem_keys [] r.routes m
    intro e; rw [e] at h; simp at h

def Rib.Inv (r : Rib) : Prop := Minimal r.nodes r.liveList

theorem Rib.pruneAt_inv {r g : Rib} {n : Name} (hr : r.Inv) (hn : g.nodes = r.nodes)
    (hpath : ∀ p ∈ prefixes n, p ∈ r.nodes)
    (hsame : ∀ m, m ≠ n → g.live m = r.live m) (hless : g.live n = true → r.live n = true) :
    (g.pruneAt n).Inv := by
  have hl : (g.pruneAt n).liveList = g.liveList := rfl
  unfold Rib.Inv
  rw [hl]
  show Minimal (prune g.live (n.length + 1) g.nodes n) g.liveList
  rw [hn]
  apply C07.prune_minimal' hr hpath
  · intro m hm
    by_cases e : m = n
    · exact Or.inr e
    · left; rw [Rib.mem_liveList] at hm ⊢; rw [hsame m e]; exact hm
  · intro m hm
    rw [Rib.mem_liveList] at hm ⊢
    by_cases e : m = n
    · subst e; exact hless hm
    · rw [← hsame m e]; exact hm
  · intro m _; exact Rib.mem_liveList.symm

theorem Rib.removeAt_inv {r : Rib} (hr : r.Inv) (n : Name) (g : List (Nat × Nat) → List (Nat × Nat))
    (hg : ∀ l, l.isEmpty = true → (g l).isEmpty = true)
    (hpath : ∀ q ∈ prefixes n, q ∈ r.nodes) :
    (({ r with routes := aset r.routes n (g (aget [] r.routes n)) } : Rib).pruneAt n).Inv := by
  refine Rib.pruneAt_inv (n := n) hr ?_ hpath ?_ ?_
  · rfl
  · intro m hm; simp [Rib.live, aget_aset, hm]
  · simp only [Rib.live, aget_aset, ↓reduceIte, Bool.not_eq_true']
    intro h
    cases hcur : (aget [] r.routes n).isEmpty with
    | false => rfl
    | true => rw [hg _ hcur] at h; cases h

theorem Rib.cleanUp_inv {r : Rib} (hr : r.Inv) (face : Nat) : (r.cleanUp face).Inv := by
  unfold Rib.cleanUp
  generalize deepFirst ([] :: r.nodes) = l
  induction l generalizing r with
  | nil => exact hr
  | cons n t ih =>
    simp only [List.foldl_cons]
    apply ih
    split
    · rename_i hm
      simp only [Bool.and_eq_true] at hm
      apply Rib.removeAt_inv hr n (fun l => l.filter (fun x => x.1 != face))
      · intro l hl
        cases l with
        | nil => rfl
        | cons _ _ => simp at hl
      · rcases List.mem_cons.mp (memb_iff.mp hm.1) with rfl | hn
        · simp [prefixes]
        · exact C07.minimal_path hr hn
    · exact hr

theorem Rib.step_inv {r : Rib} (hr : r.Inv) (op : RibOp) : (r.step op).Inv := by
  cases op with
  | add n f o =>
    simp only [Rib.step, Rib.add]
    have key : ∀ g : Rib, g.nodes = fill r.nodes n → (∀ m, m ≠ n → g.live m = r.live m) → g.live n = true → g.Inv := by
      intro g hn hsame hlive
      unfold Rib.Inv
      rw [hn]
      apply C07.fill_minimal' hr
      intro m
      rw [Rib.mem_liveList, Rib.mem_liveList]
      by_cases e : m = n
      · subst e; simp [hlive]
      · simp [hsame m e, e]
    split
    · rename_i hc
      refine key _ ?_ (fun m _ => rfl) ?_
      · rfl
      simp only [Rib.live, Bool.not_eq_true']
      cases hcur : aget [] r.routes n with
      | nil => simp [hcur] at hc
      | cons _ _ => rfl
    · refine key _ ?_ ?_ ?_
      · rfl
      · intro m hm; simp [Rib.live, aget_aset, hm]
      · simp [Rib.live, aget_aset]
  | remove n f o =>
    simp only [Rib.step, Rib.remove]
    split
    · rename_i hnode
      apply Rib.removeAt_inv hr n (removeFirst (fun x => x.1 == f && x.2 == o)) (removeFirst_nil_of_nil _)
      simpa [Rib.nodeAt, memb_iff] using hnode
    · exact hr
  | cleanUp f => exact Rib.cleanUp_inv hr f

theorem Rib.init_inv : ({} : Rib).Inv := by
  intro x
  simp [OnPath, Rib.liveList]

theorem Rib.run_inv {r : Rib} (hr : r.Inv) (ops : List RibOp) : (r.run ops).Inv := by
  induction ops generalizing r with
  | nil => exact hr
  | cons op t ih => exact ih (Rib.step_inv hr op)

end Ndn.C08

namespace Ndn.C08
open Ndn.C07 (memb rem memb_iff mem_rem)

/-- `fibPrefixes` holds exactly the prefixes with a next hop, each once -/
structure FibTree.PfxInv (f : FibTree) : Prop where
  nodup : f.pfx.Nodup
  exact : ∀ m, m ∈ f.pfx ↔ (aget [] f.nh m).isEmpty = false

theorem removeFirst_nonempty {α : Type} (p : α → Bool) (l : List α) (h : (removeFirst p l).isEmpty = false) :
    l.isEmpty = false := by
  cases hl : l.isEmpty with
  | false => rfl
  | true => rw [removeFirst_nil_of_nil p l hl] at h; cases h

theorem FibTree.step_pfx {f : FibTree} (h : f.PfxInv) (op : FibOp) : (f.step op).PfxInv := by
  have hprune : ∀ (g : FibTree) (n : Name), g.PfxInv → (g.pruneAt n).PfxInv := fun g n hg => ⟨hg.nodup, hg.exact⟩
  cases op with
  | ins n face =>
    simp only [FibTree.step, FibTree.ins]
    split
    · exact ⟨h.nodup, h.exact⟩
    · constructor
      · show (if memb n f.pfx then f.pfx else f.pfx ++ [n]).Nodup
        split
        · exact h.nodup
        · rename_i hm
          rw [List.nodup_append]
          refine ⟨h.nodup, by simp, ?_⟩
          intro a ha b hb
          simp at hb; subst hb
          intro e; exact hm (memb_iff.mpr (e ▸ ha))
      · intro m
        show m ∈ (if memb n f.pfx then f.pfx else f.pfx ++ [n]) ↔ (aget [] (aset f.nh n (aget [] f.nh n ++ [face])) m).isEmpty = false
        rw [aget_aset]
        by_cases hmn : m = n
        · subst hmn
          simp only [↓reduceIte]
          constructor
          · intro _; simp
          · intro _
            split
            · rename_i hm; exact memb_iff.mp hm
            · simp
        · simp only [hmn, ↓reduceIte]
          rw [← h.exact m]
          split
          · rfl
          · simp [hmn]
  | rem n face =>
    simp only [FibTree.step, FibTree.rem]
    split
    · apply hprune
      constructor
      · show (if (removeFirst (· == face) (aget [] f.nh n)).isEmpty then C07.rem n f.pfx else f.pfx).Nodup
        split
        · exact C07.rem_nodup h.nodup
        · exact h.nodup
      · intro m
        show m ∈ (if (removeFirst (· == face) (aget [] f.nh n)).isEmpty then C07.rem n f.pfx else f.pfx) ↔
          (aget [] (aset f.nh n (removeFirst (· == face) (aget [] f.nh n))) m).isEmpty = false
        rw [aget_aset]
        by_cases hmn : m = n
        · subst hmn
          simp only [↓reduceIte]
          split
          · rename_i he
            rw [mem_rem]; simp [he]
          · rename_i he
            have he' : (removeFirst (· == face) (aget [] f.nh m)).isEmpty = false := by simpa using he
            rw [he', h.exact m]
            simp [removeFirst_nonempty _ _ he']
        · simp only [hmn, ↓reduceIte]
          rw [← h.exact m]
          split
          · rw [mem_rem]; simp [hmn]
          · rfl
    · exact h
  | clr n =>
    simp only [FibTree.step, FibTree.clr]
    split
    · apply hprune
      constructor
      · exact C07.rem_nodup h.nodup
      · intro m
        show m ∈ C07.rem n f.pfx ↔ (aget [] (aset f.nh n []) m).isEmpty = false
        rw [aget_aset, mem_rem]
        by_cases hmn : m = n
        · simp [hmn]
        · simp only [hmn, ↓reduceIte, ne_eq, not_false_eq_true, and_true]
          exact h.exact m
    · exact h
  | set n => exact ⟨h.nodup, h.exact⟩
  | uns n =>
    simp only [FibTree.step, FibTree.uns]
    split
    · exact hprune _ n ⟨h.nodup, h.exact⟩
    · exact h

theorem FibTree.run_pfx {f : FibTree} (h : f.PfxInv) (ops : List FibOp) : (f.run ops).PfxInv := by
  induction ops generalizing f with
  | nil => exact h
  | cons op t ih => exact ih (FibTree.step_pfx h op)

theorem FibTree.init_pfx : ({} : FibTree).PfxInv := ⟨by simp, by intro m; simp [aget]⟩

end Ndn.C08
