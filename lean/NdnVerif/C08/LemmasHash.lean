/-
  C08 helper lemmas: the hash-table FIB model keeps its three tables exact.
  `VInv m inK vn vt`: for the set `inK` of real names, the virtual tables `vn` (virtTableNames) and
  `vt` (virtTable) hold exactly one entry per virtual name `take m x` of a real name `x` with
  `m ≤ |x|`, the recorded names are exactly those real names, and md is the longest of them.
-/
import NdnVerif.C08.LemmasFib
namespace Ndn.C08
open Ndn.C07 (memb rem memb_iff mem_rem)

/-! ### association lists: keys -/

def keys {β : Type} (m : List (Name × β)) : List Name := m.map (·.1)

theorem any_key_iff {β : Type} (m : List (Name × β)) (v : Name) :
    m.any (fun p => decide (p.1 = v)) = true ↔ v ∈ keys m := by
  simp only [List.any_eq_true, decide_eq_true_eq, keys, List.mem_map]

theorem mem_keys_aset {β : Type} (m : List (Name × β)) (n x : Name) (v : β) :
    x ∈ keys (aset m n v) ↔ x ∈ keys m ∨ x = n := by
  induction m with
  | nil => simp [aset, keys]
  | cons p t ih =>
    obtain ⟨k, w⟩ := p
    by_cases hk : k = n
    · subst hk; simp only [aset, ↓reduceIte, keys, List.map_cons, List.mem_cons]
      constructor
      · rintro (h | h)
        · exact Or.inl (Or.inl h)
        · exact Or.inl (Or.inr h)
      · rintro ((h | h) | h)
        · exact Or.inl h
        · exact Or.inr h
        · exact Or.inl h
    · simp only [aset, hk, ↓reduceIte, keys, List.map_cons, List.mem_cons]
      simp only [keys] at ih
      rw [ih]
      constructor
      · rintro (h | h | h)
        · exact Or.inl (Or.inl h)
        · exact Or.inl (Or.inr h)
        · exact Or.inr h
      · rintro ((h | h) | h)
        · exact Or.inl h
        · exact Or.inr (Or.inl h)
        · exact Or.inr (Or.inr h)

theorem nodup_keys_aset {β : Type} (m : List (Name × β)) (n : Name) (v : β) (h : (keys m).Nodup) :
    (keys (aset m n v)).Nodup := by
  induction m with
  | nil => simp [aset, keys]
  | cons p t ih =>
    obtain ⟨k, w⟩ := p
    simp only [keys, List.map_cons, List.nodup_cons] at h
    by_cases hk : k = n
    · subst hk; simp only [aset, ↓reduceIte, keys, List.map_cons, List.nodup_cons]; exact h
    · simp only [aset, hk, ↓reduceIte, keys, List.map_cons, List.nodup_cons]
      refine ⟨?_, ih h.2⟩
      intro hm
      have := (mem_keys_aset t n k v).mp hm
      rcases this with h' | h'
      · exact h.1 h'
      · exact hk h'

theorem mem_keys_adel {β : Type} (m : List (Name × β)) (n x : Name) :
    x ∈ keys (adel m n) ↔ x ∈ keys m ∧ x ≠ n := by
  simp only [keys, adel, List.mem_map, List.mem_filter, decide_eq_true_eq]
  constructor
  · rintro ⟨p, ⟨hp, hne⟩, rfl⟩; exact ⟨⟨p, hp, rfl⟩, hne⟩
  · rintro ⟨⟨p, hp, rfl⟩, hne⟩; exact ⟨p, ⟨hp, hne⟩, rfl⟩

theorem nodup_keys_adel {β : Type} (m : List (Name × β)) (n : Name) (h : (keys m).Nodup) :
    (keys (adel m n)).Nodup := by
  simp only [keys, adel]
  exact h.sublist (List.Sublist.map _ List.filter_sublist)

theorem aget_adel {β : Type} (d : β) (m : List (Name × β)) (n x : Name) :
    aget d (adel m n) x = if x = n then d else aget d m x := by
  induction m with
  | nil => simp [adel, aget]
  | cons p t ih =>
    obtain ⟨k, w⟩ := p
    by_cases hk : k = n
    · subst hk
      have : adel ((k, w) :: t) k = adel t k := by simp [adel]
      rw [this, ih]
      by_cases hx : x = k
      · simp [hx]
      · have : ¬ k = x := fun e => hx e.symm
        simp [hx, aget, this]
    · have : adel ((k, w) :: t) n = (k, w) :: adel t n := by simp [adel, hk]
      rw [this]
      by_cases hx : k = x
      · subst hx; simp [aget, hk]
      · simp only [aget, hx, ↓reduceIte]; exact ih

theorem aget_of_not_mem {β : Type} (d : β) (m : List (Name × β)) (n : Name) (h : n ∉ keys m) : aget d m n = d := by
  induction m with
  | nil => rfl
  | cons p t ih =>
    obtain ⟨k, w⟩ := p
    simp only [keys, List.map_cons, List.mem_cons, not_or] at h
    have : ¬ k = n := fun e => h.1 e.symm
    simp only [aget, this, ↓reduceIte]
    exact ih h.2

theorem aget_append_of_mem {β : Type} (d : β) (m l : List (Name × β)) (x : Name) (h : x ∈ keys m) :
    aget d (m ++ l) x = aget d m x := by
  induction m with
  | nil => simp [keys] at h
  | cons p t ih =>
    obtain ⟨k, w⟩ := p
    by_cases hk : k = x
    · simp [aget, hk]
    · simp only [List.cons_append, aget, hk, ↓reduceIte]
      apply ih
      simp only [keys, List.map_cons, List.mem_cons] at h
      rcases h with h | h
      · exact absurd h.symm hk
      · exact h

theorem aget_append_of_not_mem {β : Type} (d : β) (m l : List (Name × β)) (x : Name) (h : x ∉ keys m) :
    aget d (m ++ l) x = aget d l x := by
  induction m with
  | nil => rfl
  | cons p t ih =>
    obtain ⟨k, w⟩ := p
    simp only [keys, List.map_cons, List.mem_cons, not_or] at h
    have : ¬ k = x := fun e => h.1 e.symm
    simp only [List.cons_append, aget, this, ↓reduceIte]
    exact ih h.2

/-! ### maxLen -/

theorem maxLen_fold_ge (l : List Name) (a : Nat) : a ≤ l.foldl (fun a n => max a n.length) a := by
  induction l generalizing a with
  | nil => exact Nat.le_refl _
  | cons x t ih => simp only [List.foldl_cons]; exact Nat.le_trans (Nat.le_max_left _ _) (ih _)

theorem maxLen_fold_mem (l : List Name) (a : Nat) {x : Name} (hx : x ∈ l) :
    x.length ≤ l.foldl (fun a n => max a n.length) a := by
  induction l generalizing a with
  | nil => cases hx
  | cons y t ih =>
    simp only [List.foldl_cons]
    rcases List.mem_cons.mp hx with rfl | h
    · exact Nat.le_trans (Nat.le_max_right _ _) (maxLen_fold_ge t _)
    · exact ih _ h

theorem maxLen_fold_attained (l : List Name) (a : Nat) :
    l.foldl (fun a n => max a n.length) a = a ∨ ∃ x ∈ l, x.length = l.foldl (fun a n => max a n.length) a := by
  induction l generalizing a with
  | nil => exact Or.inl rfl
  | cons y t ih =>
    simp only [List.foldl_cons]
    rcases ih (max a y.length) with h | ⟨x, hx, hl⟩
    · rw [h]
      by_cases hay : y.length ≤ a
      · left; omega
      · right; exact ⟨y, by simp, by omega⟩
    · right; exact ⟨x, by simp [hx], hl⟩

theorem mem_le_maxLen {l : List Name} {x : Name} (hx : x ∈ l) : x.length ≤ maxLen l := maxLen_fold_mem l 0 hx

/-- `maxLen l = k` as soon as `k` bounds every length and is attained -/
theorem maxLen_eq_of {l : List Name} {k : Nat} (hle : ∀ x ∈ l, x.length ≤ k) (hat : ∃ x ∈ l, x.length = k) :
    maxLen l = k := by
  obtain ⟨x, hx, hk⟩ := hat
  have h1 : k ≤ maxLen l := by rw [← hk]; exact mem_le_maxLen hx
  have h2 : maxLen l ≤ k := by
    rcases maxLen_fold_attained l 0 with h | ⟨y, hy, hl⟩
    · unfold maxLen; omega
    · unfold maxLen; rw [← hl]; exact hle y hy
  omega

theorem maxLen_attained {l : List Name} (h : l ≠ []) : ∃ x ∈ l, x.length = maxLen l := by
  rcases maxLen_fold_attained l 0 with h0 | h1
  · cases l with
    | nil => exact absurd rfl h
    | cons y t =>
      refine ⟨y, by simp, ?_⟩
      have := mem_le_maxLen (l := y :: t) (x := y) (by simp)
      unfold maxLen at this ⊢; omega
  · exact h1

/-! ### the invariant of the virtual tables -/

structure VInv (m : Nat) (inK : Name → Prop) (vn : List (Name × List Name)) (vt : List (Name × Nat)) : Prop where
  nodupN : (keys vn).Nodup
  nodupT : (keys vt).Nodup
  same : ∀ v, v ∈ keys vt ↔ v ∈ keys vn
  names : ∀ v, v ∈ keys vn → ∀ x, x ∈ aget [] vn v ↔ (inK x ∧ m ≤ x.length ∧ x.take m = v)
  nonempty : ∀ v, v ∈ keys vn → aget [] vn v ≠ []
  md : ∀ v, v ∈ keys vt → aget 0 vt v = maxLen (aget [] vn v)
  covered : ∀ x, inK x → m ≤ x.length → x.take m ∈ keys vn

theorem VInv.congr {m : Nat} {inK inK' : Name → Prop} {vn vt} (h : VInv m inK vn vt) (hk : ∀ x, inK x ↔ inK' x) :
    VInv m inK' vn vt :=
  ⟨h.nodupN, h.nodupT, h.same, fun v hv x => by rw [← hk x]; exact h.names v hv x, h.nonempty, h.md,
   fun x hx => h.covered x ((hk x).mpr hx)⟩

/-- a name too short to have a virtual name joins or leaves the real table -/
theorem VInv.short {m : Nat} {inK inK' : Name → Prop} {vn vt} (h : VInv m inK vn vt)
    (hk : ∀ x, m ≤ x.length → (inK x ↔ inK' x)) : VInv m inK' vn vt := by
  refine ⟨h.nodupN, h.nodupT, h.same, ?_, h.nonempty, h.md, ?_⟩
  · intro v hv x
    rw [h.names v hv x]
    constructor
    · rintro ⟨h1, h2, h3⟩; exact ⟨(hk x h2).mp h1, h2, h3⟩
    · rintro ⟨h1, h2, h3⟩; exact ⟨(hk x h2).mpr h1, h2, h3⟩
  · intro x hx hl; exact h.covered x ((hk x hl).mpr hx) hl

/-- `insertEntryEnc` for a name with a virtual name -/
theorem VInv.insert {m : Nat} {inK : Name → Prop} {vn vt} (h : VInv m inK vn vt) (n : Name) (hl : m ≤ n.length) :
    VInv m (fun x => inK x ∨ x = n)
      (aset vn (n.take m) (if memb n (aget [] vn (n.take m)) then aget [] vn (n.take m) else aget [] vn (n.take m) ++ [n]))
      (aset vt (n.take m) (if vt.any (fun p => decide (p.1 = n.take m)) then max (aget 0 vt (n.take m)) n.length else n.length)) := by
  -- membership in the new name set of `take m n`
  have hmem : ∀ x, x ∈ (if memb n (aget [] vn (n.take m)) then aget [] vn (n.take m) else aget [] vn (n.take m) ++ [n]) ↔
      (x ∈ aget [] vn (n.take m) ∨ x = n) := by
    intro x
    split
    · rename_i hm
      constructor
      · exact Or.inl
      · rintro (h' | rfl)
        · exact h'
        · exact memb_iff.mp hm
    · simp
  constructor
  · exact nodup_keys_aset _ _ _ h.nodupN
  · exact nodup_keys_aset _ _ _ h.nodupT
  · intro v; rw [mem_keys_aset, mem_keys_aset, h.same v]
  · intro v hv x
    rw [aget_aset]
    by_cases hvn : v = n.take m
    · subst hvn
      simp only [↓reduceIte]
      rw [hmem x]
      by_cases hkey : n.take m ∈ keys vn
      · rw [h.names _ hkey x]
        constructor
        · rintro (⟨h1, h2, h3⟩ | rfl)
          · exact ⟨Or.inl h1, h2, h3⟩
          · exact ⟨Or.inr rfl, hl, rfl⟩
        · rintro ⟨h1 | rfl, h2, h3⟩
          · exact Or.inl ⟨h1, h2, h3⟩
          · exact Or.inr rfl
      · rw [aget_of_not_mem _ _ _ hkey]
        constructor
        · rintro (h' | rfl)
          · cases h'
          · exact ⟨Or.inr rfl, hl, rfl⟩
        · rintro ⟨h1 | rfl, h2, h3⟩
          · exact absurd (h3 ▸ h.covered x h1 h2) hkey
          · exact Or.inr rfl
    · simp only [hvn, ↓reduceIte]
      have hv' : v ∈ keys vn := by
        rcases (mem_keys_aset _ _ _ _).mp hv with h' | h'
        · exact h'
        · exact absurd h' hvn
      rw [h.names v hv' x]
      constructor
      · rintro ⟨h1, h2, h3⟩; exact ⟨Or.inl h1, h2, h3⟩
      · rintro ⟨h1 | rfl, h2, h3⟩
        · exact ⟨h1, h2, h3⟩
        · exact absurd h3.symm hvn
  · intro v hv
    rw [aget_aset]
    by_cases hvn : v = n.take m
    · subst hvn
      simp only [↓reduceIte]
      intro he
      have := (hmem n).mpr (Or.inr rfl)
      rw [he] at this; cases this
    · simp only [hvn, ↓reduceIte]
      apply h.nonempty
      rcases (mem_keys_aset _ _ _ _).mp hv with h' | h'
      · exact h'
      · exact absurd h' hvn
  · intro v hv
    rw [aget_aset, aget_aset]
    by_cases hvn : v = n.take m
    · subst hvn
      simp only [↓reduceIte]
      symm
      by_cases hkey : n.take m ∈ keys vt
      · have hkeyN := (h.same _).mp hkey
        have hany : vt.any (fun p => decide (p.1 = n.take m)) = true := (any_key_iff _ _).mpr hkey
        simp only [hany, ↓reduceIte]
        rw [h.md _ hkey]
        have hne := h.nonempty _ hkeyN
        obtain ⟨y, hy, hyl⟩ := maxLen_attained hne
        apply maxLen_eq_of
        · intro x hx
          rcases (hmem x).mp hx with h' | rfl
          · have := mem_le_maxLen h'; omega
          · omega
        · by_cases hc : n.length ≤ maxLen (aget [] vn (n.take m))
          · exact ⟨y, (hmem y).mpr (Or.inl hy), by omega⟩
          · exact ⟨n, (hmem n).mpr (Or.inr rfl), by omega⟩
      · have hkeyN : n.take m ∉ keys vn := fun e => hkey ((h.same _).mpr e)
        have hany : vt.any (fun p => decide (p.1 = n.take m)) = false := by
          cases hb : vt.any (fun p => decide (p.1 = n.take m)) with
          | false => rfl
          | true => exact absurd ((any_key_iff _ _).mp hb) hkey
        simp only [hany, Bool.false_eq_true, ↓reduceIte]
        apply maxLen_eq_of
        · intro x hx
          rcases (hmem x).mp hx with h' | rfl
          · rw [aget_of_not_mem _ _ _ hkeyN] at h'; cases h'
          · exact Nat.le_refl _
        · exact ⟨n, (hmem n).mpr (Or.inr rfl), rfl⟩
    · simp only [hvn, ↓reduceIte]
      apply h.md
      rcases (mem_keys_aset _ _ _ _).mp hv with h' | h'
      · exact h'
      · exact absurd h' hvn
  · intro x hx hxl
    rw [mem_keys_aset]
    rcases hx with hx | rfl
    · exact Or.inl (h.covered x hx hxl)
    · exact Or.inr rfl

/-- the virtual part of `pruneTables` -/
def vnDel (vn : List (Name × List Name)) (n v : Name) : List (Name × List Name) :=
  if (rem n (aget [] vn v)).isEmpty then adel vn v else aset vn v (rem n (aget [] vn v))

def vtDel (vn' : List (Name × List Name)) (vt : List (Name × Nat)) (n v : Name) : List (Name × Nat) :=
  if n.length == aget 0 vt v then
    (if vn'.any (fun p => decide (p.1 = v)) then aset vt v (maxLen (aget [] vn' v)) else adel vt v)
  else vt

theorem VInv.delete {m : Nat} {inK : Name → Prop} {vn vt} (h : VInv m inK vn vt) (n : Name) (hn : inK n)
    (hl : m ≤ n.length) :
    VInv m (fun x => inK x ∧ x ≠ n) (vnDel vn n (n.take m)) (vtDel (vnDel vn n (n.take m)) vt n (n.take m)) := by
  have hkN : n.take m ∈ keys vn := h.covered n hn hl
  have hkT : n.take m ∈ keys vt := (h.same _).mpr hkN
  have hnin : n ∈ aget [] vn (n.take m) := (h.names _ hkN n).mpr ⟨hn, hl, rfl⟩
  have hmd := h.md _ hkT
  -- names recorded under another virtual name never contain n
  have hother : ∀ v, v ≠ n.take m → v ∈ keys vn → ∀ x, x ∈ aget [] vn v ↔ ((inK x ∧ x ≠ n) ∧ m ≤ x.length ∧ x.take m = v) := by
    intro v hv hk x
    rw [h.names v hk x]
    constructor
    · rintro ⟨h1, h2, h3⟩
      exact ⟨⟨h1, fun e => hv (by rw [← h3, e])⟩, h2, h3⟩
    · rintro ⟨⟨h1, _⟩, h2, h3⟩; exact ⟨h1, h2, h3⟩
  by_cases hemp : (rem n (aget [] vn (n.take m))).isEmpty = true
  · -- n was the only name under its virtual name: both virtual entries go
    have hall : ∀ x ∈ aget [] vn (n.take m), x = n := by
      intro x hx
      by_cases e : x = n
      · exact e
      · have : x ∈ rem n (aget [] vn (n.take m)) := mem_rem.mpr ⟨hx, e⟩
        rw [List.isEmpty_iff.mp hemp] at this; cases this
    have hmax : maxLen (aget [] vn (n.take m)) = n.length :=
      maxLen_eq_of (fun x hx => by rw [hall x hx]; exact Nat.le_refl _) ⟨n, hnin, rfl⟩
    have hvn : vnDel vn n (n.take m) = adel vn (n.take m) := by simp [vnDel, hemp]
    have hany : (adel vn (n.take m)).any (fun p => decide (p.1 = n.take m)) = false := by
      cases hb : (adel vn (n.take m)).any (fun p => decide (p.1 = n.take m)) with
      | false => rfl
      | true => exact absurd ((mem_keys_adel _ _ _).mp ((any_key_iff _ _).mp hb)).2 (fun h => h rfl)
    have hvt : vtDel (adel vn (n.take m)) vt n (n.take m) = adel vt (n.take m) := by
      simp [vtDel, hmd, hmax, hany]
    rw [hvn, hvt]
    constructor
    · exact nodup_keys_adel _ _ h.nodupN
    · exact nodup_keys_adel _ _ h.nodupT
    · intro v; rw [mem_keys_adel, mem_keys_adel, h.same v]
    · intro v hv x
      obtain ⟨hv1, hv2⟩ := (mem_keys_adel _ _ _).mp hv
      rw [aget_adel]; simp only [hv2, ↓reduceIte]
      exact hother v hv2 hv1 x
    · intro v hv
      obtain ⟨hv1, hv2⟩ := (mem_keys_adel _ _ _).mp hv
      rw [aget_adel]; simp only [hv2, ↓reduceIte]
      exact h.nonempty v hv1
    · intro v hv
      obtain ⟨hv1, hv2⟩ := (mem_keys_adel _ _ _).mp hv
      rw [aget_adel, aget_adel]; simp only [hv2, ↓reduceIte]
      exact h.md v hv1
    · intro x hx hxl
      rw [mem_keys_adel]
      refine ⟨h.covered x hx.1 hxl, ?_⟩
      intro e
      have : x ∈ aget [] vn (n.take m) := (h.names _ hkN x).mpr ⟨hx.1, hxl, e⟩
      exact hx.2 (hall x this)
  · -- other names remain under the virtual name
    have hemp' : (rem n (aget [] vn (n.take m))).isEmpty = false := by simpa using hemp
    have hvn : vnDel vn n (n.take m) = aset vn (n.take m) (rem n (aget [] vn (n.take m))) := by simp [vnDel, hemp']
    have hne : rem n (aget [] vn (n.take m)) ≠ [] := by
      intro e; rw [e] at hemp'; simp at hemp'
    have hany : (aset vn (n.take m) (rem n (aget [] vn (n.take m)))).any (fun p => decide (p.1 = n.take m)) = true :=
      (any_key_iff _ _).mpr ((mem_keys_aset _ _ _ _).mpr (Or.inr rfl))
    -- the new md is the longest remaining name in both cases
    have hvt : ∀ v, aget 0 (vtDel (aset vn (n.take m) (rem n (aget [] vn (n.take m)))) vt n (n.take m)) v =
        if v = n.take m then maxLen (rem n (aget [] vn (n.take m))) else aget 0 vt v := by
      intro v
      unfold vtDel
      by_cases hc : n.length = aget 0 vt (n.take m)
      · simp only [hc, beq_self_eq_true, ↓reduceIte, hany, aget_aset]
      · have hc' : (n.length == aget 0 vt (n.take m)) = false := by simpa using hc
        simp only [hc', Bool.false_eq_true, ↓reduceIte]
        by_cases hv : v = n.take m
        · subst hv
          simp only [↓reduceIte]
          rw [hmd]
          symm
          have hlt : n.length < maxLen (aget [] vn (n.take m)) := by
            have := mem_le_maxLen hnin
            rw [hmd] at hc; omega
          obtain ⟨y, hy, hyl⟩ := maxLen_attained (h.nonempty _ hkN)
          apply maxLen_eq_of
          · intro x hx; exact mem_le_maxLen (mem_rem.mp hx).1
          · exact ⟨y, mem_rem.mpr ⟨hy, fun e => by rw [e] at hyl; omega⟩, hyl⟩
        · simp [hv]
    have hvtform : vtDel (aset vn (n.take m) (rem n (aget [] vn (n.take m)))) vt n (n.take m) = vt ∨
        vtDel (aset vn (n.take m) (rem n (aget [] vn (n.take m)))) vt n (n.take m) =
          aset vt (n.take m) (maxLen (aget [] (aset vn (n.take m) (rem n (aget [] vn (n.take m)))) (n.take m))) := by
      unfold vtDel
      by_cases hc : n.length = aget 0 vt (n.take m)
      · right; simp only [hc, beq_self_eq_true, ↓reduceIte, hany]
      · left
        have hc' : (n.length == aget 0 vt (n.take m)) = false := by simpa using hc
        simp only [hc', Bool.false_eq_true, ↓reduceIte]
    have hkeysT : ∀ v, v ∈ keys (vtDel (aset vn (n.take m) (rem n (aget [] vn (n.take m)))) vt n (n.take m)) ↔ v ∈ keys vt := by
      intro v
      rcases hvtform with e | e
      · rw [e]
      · rw [e, mem_keys_aset]
        constructor
        · rintro (h' | rfl)
          · exact h'
          · exact hkT
        · exact Or.inl
    have hnodT : (keys (vtDel (aset vn (n.take m) (rem n (aget [] vn (n.take m)))) vt n (n.take m))).Nodup := by
      rcases hvtform with e | e
      · rw [e]; exact h.nodupT
      · rw [e]; exact nodup_keys_aset _ _ _ h.nodupT
    have hkeysN : ∀ v, v ∈ keys (aset vn (n.take m) (rem n (aget [] vn (n.take m)))) ↔ v ∈ keys vn := by
      intro v; rw [mem_keys_aset]
      constructor
      · rintro (h' | rfl)
        · exact h'
        · exact hkN
      · exact Or.inl
    rw [hvn]
    constructor
    · exact nodup_keys_aset _ _ _ h.nodupN
    · exact hnodT
    · intro v; rw [hkeysT, hkeysN, h.same v]
    · intro v hv x
      have hv' := (hkeysN v).mp hv
      rw [aget_aset]
      by_cases hvn' : v = n.take m
      · subst hvn'
        simp only [↓reduceIte]
        rw [mem_rem, h.names _ hkN x]
        constructor
        · rintro ⟨⟨h1, h2, h3⟩, h4⟩; exact ⟨⟨h1, h4⟩, h2, h3⟩
        · rintro ⟨⟨h1, h4⟩, h2, h3⟩; exact ⟨⟨h1, h2, h3⟩, h4⟩
      · simp only [hvn', ↓reduceIte]
        exact hother v hvn' hv' x
    · intro v hv
      have hv' := (hkeysN v).mp hv
      rw [aget_aset]
      by_cases hvn' : v = n.take m
      · subst hvn'; simp only [↓reduceIte]; exact hne
      · simp only [hvn', ↓reduceIte]; exact h.nonempty v hv'
    · intro v hv
      have hv' := (hkeysT v).mp hv
      rw [hvt v, aget_aset]
      by_cases hvn' : v = n.take m
      · simp only [hvn', ↓reduceIte]
      · simp only [hvn', ↓reduceIte]; exact h.md v hv'
    · intro x hx hxl
      rw [hkeysN]; exact h.covered x hx.1 hxl

end Ndn.C08
