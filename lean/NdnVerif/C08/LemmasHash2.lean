/-
  C08 helper lemmas: invariant `HInv` of the hash-table FIB model and its preservation by the five
  mutators.
-/
import NdnVerif.C08.LemmasHash
namespace Ndn.C08
open Ndn.C07 (memb rem memb_iff mem_rem)

/-- a real entry carries information: a next hop or a strategy -/
def liveE (e : List Nat × Bool) : Bool := !e.1.isEmpty || e.2

structure HInvX (n : Option Name) (f : FibHash) : Prop where
  rnodup : (keys f.real).Nodup
  live : ∀ x, x ∈ keys f.real → some x ≠ n → liveE (aget ([], false) f.real x) = true
  virt : VInv f.m (fun x => x ∈ keys f.real) f.vnames f.virt

/-- the invariant: every real entry is live, the virtual tables are exact -/
abbrev HInv (f : FibHash) : Prop := HInvX none f

theorem HInvX.weaken {f : FibHash} (h : HInv f) (n : Name) : HInvX (some n) f :=
  ⟨h.rnodup, fun x hx _ => h.live x hx (by simp), h.virt⟩

theorem has_iff_keys (f : FibHash) (n : Name) : f.has n = true ↔ n ∈ keys f.real := any_key_iff _ _

/-- writing a live entry at the exempt name closes the invariant -/
theorem HInvX.setReal {f : FibHash} {n : Name} (h : HInvX (some n) f) (hn : n ∈ keys f.real) (e : List Nat × Bool)
    (he : liveE e = true) : HInv { f with real := aset f.real n e } := by
  have hk : ∀ x, x ∈ keys (aset f.real n e) ↔ x ∈ keys f.real := by
    intro x; rw [mem_keys_aset]
    constructor
    · rintro (h' | rfl)
      · exact h'
      · exact hn
    · exact Or.inl
  constructor
  · exact nodup_keys_aset _ _ _ h.rnodup
  · intro x hx _
    show liveE (aget ([], false) (aset f.real n e) x) = true
    rw [aget_aset]
    by_cases hxn : x = n
    · simp [hxn, he]
    · simp only [hxn, ↓reduceIte]
      exact h.live x ((hk x).mp hx) (by simp; exact hxn)
  · exact h.virt.congr (fun x => (hk x).symm)

/-- writing any entry at a name of the real table keeps everything but that entry's liveness -/
theorem HInv.setRealX {f : FibHash} {n : Name} (h : HInv f) (hn : n ∈ keys f.real) (e : List Nat × Bool) :
    HInvX (some n) { f with real := aset f.real n e } ∧ n ∈ keys (aset f.real n e) ∧
    aget ([], false) (aset f.real n e) n = e := by
  have hk : ∀ x, x ∈ keys (aset f.real n e) ↔ x ∈ keys f.real := by
    intro x; rw [mem_keys_aset]
    constructor
    · rintro (h' | rfl)
      · exact h'
      · exact hn
    · exact Or.inl
  refine ⟨⟨nodup_keys_aset _ _ _ h.rnodup, ?_, h.virt.congr (fun x => (hk x).symm)⟩, (hk n).mpr hn, by simp [aget_aset]⟩
  intro x hx hxn
  show liveE (aget ([], false) (aset f.real n e) x) = true
  have hxn' : x ≠ n := fun e' => hxn (by rw [e'])
  rw [aget_aset]; simp only [hxn', ↓reduceIte]
  exact h.live x ((hk x).mp hx) (by simp)

theorem insertEntry_spec {f : FibHash} (h : HInv f) (n : Name) :
    HInvX (some n) (f.insertEntry n) ∧ n ∈ keys (f.insertEntry n).real ∧
    (n ∈ keys f.real → aget ([], false) (f.insertEntry n).real n = aget ([], false) f.real n) ∧
    (n ∉ keys f.real → aget ([], false) (f.insertEntry n).real n = ([], false)) := by
  -- the real table after the first step
  let real1 := if f.has n then f.real else f.real ++ [(n, ([], false))]
  have hk1 : ∀ x, x ∈ keys real1 ↔ x ∈ keys f.real ∨ x = n := by
    intro x
    by_cases hh : f.has n = true
    · simp only [real1, hh, ↓reduceIte]
      constructor
      · exact Or.inl
      · rintro (h' | rfl)
        · exact h'
        · exact (has_iff_keys f _).mp hh
    · have hh' : f.has n = false := by simpa using hh
      simp [real1, hh', keys]
  have hnod1 : (keys real1).Nodup := by
    by_cases hh : f.has n = true
    · simp only [real1, hh, ↓reduceIte]; exact h.rnodup
    · have hh' : f.has n = false := by simpa using hh
      have hnk : n ∉ keys f.real := fun e => hh ((has_iff_keys f n).mpr e)
      simp only [real1, hh', Bool.false_eq_true, ↓reduceIte, keys, List.map_append, List.map_cons, List.map_nil]
      rw [List.nodup_append]
      refine ⟨h.rnodup, by simp, ?_⟩
      intro a ha b hb
      simp at hb; subst hb
      intro e; exact hnk (e ▸ ha)
  have hget1 : ∀ x, x ∈ keys f.real → aget ([], false) real1 x = aget ([], false) f.real x := by
    intro x hx
    by_cases hh : f.has n = true
    · simp only [real1, hh, ↓reduceIte]
    · have hh' : f.has n = false := by simpa using hh
      simp only [real1, hh', Bool.false_eq_true, ↓reduceIte]
      exact aget_append_of_mem _ _ _ _ hx
  have hget1n : n ∉ keys f.real → aget ([], false) real1 n = ([], false) := by
    intro hnk
    have hh' : f.has n = false := by
      cases hb : f.has n with
      | false => rfl
      | true => exact absurd ((has_iff_keys f n).mp hb) hnk
    simp only [real1, hh', Bool.false_eq_true, ↓reduceIte]
    rw [aget_append_of_not_mem _ _ _ _ hnk]
    simp [aget]
  have hlive1 : ∀ x, x ∈ keys real1 → some x ≠ some n → liveE (aget ([], false) real1 x) = true := by
    intro x hx hxn
    have hxn' : x ≠ n := fun e => hxn (by rw [e])
    rcases (hk1 x).mp hx with hx' | hx'
    · rw [hget1 x hx']; exact h.live x hx' (by simp)
    · exact absurd hx' hxn'
  have hfm : (if f.has n then f else { f with real := f.real ++ [(n, ([], false))] } : FibHash) =
      { f with real := real1 } := by
    by_cases hh : f.has n = true
    · simp [real1, hh]
    · have hh' : f.has n = false := by simpa using hh
      simp [real1, hh']
  unfold FibHash.insertEntry
  simp only [hfm]
  by_cases hl : f.m ≤ n.length
  · simp only [ge_iff_le, hl, ↓reduceIte]
    refine ⟨⟨hnod1, hlive1, ?_⟩, (hk1 n).mpr (Or.inr rfl), fun hx => hget1 n hx, hget1n⟩
    exact (h.virt.insert n hl).congr (fun x => (hk1 x).symm)
  · simp only [ge_iff_le, hl, ↓reduceIte]
    refine ⟨⟨hnod1, hlive1, ?_⟩, (hk1 n).mpr (Or.inr rfl), fun hx => hget1 n hx, hget1n⟩
    apply h.virt.short
    intro x hxl
    rw [hk1 x]
    constructor
    · exact Or.inl
    · rintro (h' | rfl)
      · exact h'
      · omega

theorem ite_virt (c a : Bool) (m : Nat) (R : List (Name × (List Nat × Bool))) (N : List (Name × List Name))
    (V X Y : List (Name × Nat)) :
    (if c = true then (if a = true then ({ m := m, real := R, vnames := N, virt := X } : FibHash)
        else { m := m, real := R, vnames := N, virt := Y }) else { m := m, real := R, vnames := N, virt := V })
      = { m := m, real := R, vnames := N, virt := if c = true then (if a = true then X else Y) else V } := by
  cases c <;> cases a <;> rfl

theorem pruneTables_inv {f : FibHash} {n : Name} (h : HInvX (some n) f) (hn : n ∈ keys f.real) :
    HInv (f.pruneTables n) := by
  unfold FibHash.pruneTables
  simp only
  by_cases hlive : liveE (aget ([], false) f.real n) = true
  · -- still live: nothing is pruned
    have : ((aget ([], false) f.real n).1.isEmpty && !(aget ([], false) f.real n).2) = false := by
      simp only [liveE, Bool.or_eq_true, Bool.not_eq_true'] at hlive
      rcases hlive with h1 | h1 <;> simp [h1]
    simp only [this, Bool.false_eq_true, ↓reduceIte]
    refine ⟨h.rnodup, ?_, h.virt⟩
    intro x hx _
    by_cases hxn : x = n
    · rw [hxn]; exact hlive
    · exact h.live x hx (by simp; exact hxn)
  · have hdead : ((aget ([], false) f.real n).1.isEmpty && !(aget ([], false) f.real n).2) = true := by
      simp only [liveE, Bool.or_eq_true, Bool.not_eq_true', not_or] at hlive
      simp [hlive.1, hlive.2]
    simp only [hdead, ↓reduceIte]
    have hk : ∀ x, x ∈ keys (adel f.real n) ↔ (x ∈ keys f.real ∧ x ≠ n) := fun x => mem_keys_adel _ _ _
    have hlive' : ∀ x, x ∈ keys (adel f.real n) → some x ≠ none → liveE (aget ([], false) (adel f.real n) x) = true := by
      intro x hx _
      obtain ⟨hx1, hx2⟩ := (hk x).mp hx
      rw [aget_adel]; simp only [hx2, ↓reduceIte]
      exact h.live x hx1 (by simp; exact hx2)
    by_cases hl : f.m ≤ n.length
    · simp only [ge_iff_le, hl, ↓reduceIte]
      have hkN : n.take f.m ∈ keys f.vnames := h.virt.covered n hn hl
      have hkT : n.take f.m ∈ keys f.virt := (h.virt.same _).mpr hkN
      have hnin : n ∈ aget [] f.vnames (n.take f.m) := (h.virt.names _ hkN n).mpr ⟨hn, hl, rfl⟩
      have a1 : f.virt.any (fun p => decide (p.1 = n.take f.m)) = true := (any_key_iff _ _).mpr hkT
      have a2 : f.vnames.any (fun p => decide (p.1 = n.take f.m)) = true := (any_key_iff _ _).mpr hkN
      have a3 : memb n (aget [] f.vnames (n.take f.m)) = true := memb_iff.mpr hnin
      have hdel := h.virt.delete n hn hl
      simp only [a1, a2, a3, Bool.and_self, ↓reduceIte, Bool.true_and]
      -- the two tables are exactly vnDel / vtDel
      by_cases hemp : (rem n (aget [] f.vnames (n.take f.m))).isEmpty = true
      · have e1 : vnDel f.vnames n (n.take f.m) = adel f.vnames (n.take f.m) := by simp [vnDel, hemp]
        rw [e1] at hdel
        simp only [hemp, ↓reduceIte]
        rw [ite_virt]
        refine ⟨nodup_keys_adel _ _ h.rnodup, hlive', ?_⟩
        have := hdel.congr (inK' := fun x => x ∈ keys (adel f.real n)) (fun x => (hk x).symm)
        unfold vtDel at this
        exact this
      · have hemp' : (rem n (aget [] f.vnames (n.take f.m))).isEmpty = false := by simpa using hemp
        have e1 : vnDel f.vnames n (n.take f.m) = aset f.vnames (n.take f.m) (rem n (aget [] f.vnames (n.take f.m))) := by
          simp [vnDel, hemp']
        rw [e1] at hdel
        simp only [hemp', Bool.false_eq_true, ↓reduceIte]
        rw [ite_virt]
        refine ⟨nodup_keys_adel _ _ h.rnodup, hlive', ?_⟩
        have := hdel.congr (inK' := fun x => x ∈ keys (adel f.real n)) (fun x => (hk x).symm)
        unfold vtDel at this
        exact this
    · simp only [ge_iff_le, hl, ↓reduceIte]
      refine ⟨nodup_keys_adel _ _ h.rnodup, hlive', ?_⟩
      apply h.virt.short
      intro x hxl
      rw [hk x]
      constructor
      · intro hx; exact ⟨hx, fun e => by rw [e] at hxl; omega⟩
      · exact fun hx => hx.1

end Ndn.C08

namespace Ndn.C08

theorem liveE_of_any {l : List Nat} {b : Bool} {face : Nat} (h : l.any (· == face) = true) : liveE (l, b) = true := by
  cases l with
  | nil => simp at h
  | cons _ _ => simp [liveE]

theorem FibHash.step_inv {f : FibHash} (h : HInv f) (op : FibOp) : HInv (f.step op) ∧ (f.step op).m = f.m := by
  have hm_ins : ∀ n, (f.insertEntry n).m = f.m := by
    intro n; unfold FibHash.insertEntry; simp only; split <;> split <;> rfl
  have hm_prune : ∀ (g : FibHash) n, (g.pruneTables n).m = g.m := by
    intro g n
    unfold FibHash.pruneTables
    simp only
    split
    · split
      · split <;> split <;> (try split) <;> (try split) <;> rfl
      · rfl
    · rfl
  cases op with
  | ins n face =>
    obtain ⟨hx, hn, _, _⟩ := insertEntry_spec h n
    simp only [FibHash.step, FibHash.ins]
    split
    · rename_i hc
      refine ⟨⟨hx.rnodup, ?_, hx.virt⟩, hm_ins n⟩
      intro x hxk _
      by_cases hxn : x = n
      · rw [hxn]; exact liveE_of_any hc
      · exact hx.live x hxk (by simp; exact hxn)
    · exact ⟨hx.setReal hn _ (by simp [liveE]), hm_ins n⟩
  | rem n face =>
    simp only [FibHash.step, FibHash.rem]
    split
    · rename_i hh
      split
      · obtain ⟨hx, hn, _⟩ := h.setRealX ((has_iff_keys f n).mp hh)
          (removeFirst (· == face) (aget ([], false) f.real n).1, (aget ([], false) f.real n).2)
        exact ⟨pruneTables_inv hx hn, hm_prune _ n⟩
      · exact ⟨h, rfl⟩
    · exact ⟨h, rfl⟩
  | clr n =>
    simp only [FibHash.step, FibHash.clr]
    split
    · rename_i hh
      obtain ⟨hx, hn, _⟩ := h.setRealX ((has_iff_keys f n).mp hh) ([], (aget ([], false) f.real n).2)
      exact ⟨pruneTables_inv hx hn, hm_prune _ n⟩
    · exact ⟨h, rfl⟩
  | set n =>
    obtain ⟨hx, hn, _, _⟩ := insertEntry_spec h n
    simp only [FibHash.step, FibHash.set]
    exact ⟨hx.setReal hn _ (by simp [liveE]), hm_ins n⟩
  | uns n =>
    simp only [FibHash.step, FibHash.uns]
    split
    · rename_i hh
      obtain ⟨hx, hn, _⟩ := h.setRealX ((has_iff_keys f n).mp hh) ((aget ([], false) f.real n).1, false)
      exact ⟨pruneTables_inv hx hn, hm_prune _ n⟩
    · exact ⟨h, rfl⟩

theorem FibHash.init_inv (m : Nat) (hm : 1 ≤ m) : HInv ({ m := m } : FibHash) := by
  constructor
  · simp [keys]
  · intro x hx _
    simp only [keys, List.map_cons, List.map_nil, List.mem_singleton] at hx
    subst hx; simp [aget, liveE]
  · constructor
    · simp [keys]
    · simp [keys]
    · intro v; simp [keys]
    · intro v hv; simp [keys] at hv
    · intro v hv; simp [keys] at hv
    · intro v hv; simp [keys] at hv
    · intro x hx hl
      simp only [keys, List.map_cons, List.map_nil, List.mem_singleton] at hx
      subst hx
      -- the root has length 0 < m: it has no virtual name
      simp only [List.length_nil, Nat.le_zero_eq] at hl
      omega

theorem FibHash.run_inv {f : FibHash} (h : HInv f) (ops : List FibOp) : HInv (f.run ops) ∧ (f.run ops).m = f.m := by
  induction ops generalizing f with
  | nil => exact ⟨h, rfl⟩
  | cons op t ih =>
    obtain ⟨h1, h2⟩ := FibHash.step_inv h op
    obtain ⟨h3, h4⟩ := ih h1
    exact ⟨h3, by show ((f.step op).run t).m = f.m; rw [h4, h2]⟩

end Ndn.C08
