/-
  C20 — negative witnesses: the model of the PINNED tree (`stepPinned`, NdnVerif/C20/Pinned.lean)
  violates the property on the very histories that are replayed against the real unfixed engine
  (corpus/C20/f20*.ops, `VERIF_C20_PINNED=1 ./check C20 --replay …` shows 0 DIFF and the SPEC line).
  These are facts about the old code, kept as documentation; the theorems in Props.lean are about
  the fixed code.
-/
import NdnVerif.C20.Pinned
namespace Ndn.C20

def runPinned (s : St) : List Op → St
  | [] => s
  | op :: ops => runPinned (stepPinned s op).1 ops

private def a : Component := ⟨8, [97]⟩
private def b : Component := ⟨8, [98]⟩

/-- F-20a: pending /a/b/a, unsolicited Data /a unlinks the subtree, Data /a/b/a is not delivered
    (corpus/C20/f20a-data-deletes-subtree.ops) -/
example : (runPinned St.init [.express [a, b, a] false (some 100000), .setTime 1000, .data [a] [1],
    .setTime 2000, .data [a, b, a] [2]]).cbs = [] := by decide

/-- the fixed model delivers it -/
example : (run St.init [.express [a, b, a] false (some 100000), .setTime 1000, .data [a] [1],
    .setTime 2000, .data [a, b, a] [2]]).cbs = [⟨0, .data [a, b, a] [2], 2000⟩] := by decide

/-- F-20c: Nack, then a Timeout for the same Interest from a sibling's still armed timer
    (corpus/C20/f20c-nack-then-timeout.ops) -/
example : ((runPinned St.init [.express [a] false (some 100000), .setTime 5000, .express [a] false (some 100000),
    .setTime 13000, .express [a] false (some 100000), .setTime 110000, .timerStart 0, .timerRun 0,
    .setTime 112000, .nack [a], .setTime 115000, .timerStart 1, .timerRun 1]).cbs.map (·.id))
    = [0, 1, 2, 2] := by decide

/-- F-20b: the stale timer of an unlinked node removes the re-created node, Data /a is not delivered
    (corpus/C20/f20b-stale-timer-deletes-new-node.ops) -/
example : ((runPinned St.init [.express [a] false (some 100000), .setTime 5000, .express [a] false (some 100000),
    .setTime 110000, .timerStart 0, .timerRun 0, .setTime 112000, .express [a] false (some 100000),
    .setTime 115000, .timerStart 1, .timerRun 1, .setTime 120000, .data [a] [1]]).cbs.map (·.id))
    = [0, 1] := by decide

/-- F-20a (handlers): detaching /a also removed the handler of /a/b
    (corpus/C20/f20a-detach-removes-subtree-handlers.ops) -/
example : (stepPinned (runPinned St.init [.attach [a] 0, .attach [a, b] 1, .detach [a]])
    (.interest [a, b, a] none)).2 = .handled none defaultLife 0 := by decide

end Ndn.C20
