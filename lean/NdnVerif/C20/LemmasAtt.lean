/-
  C20 — attachedness: a node is attached when descending from the root along its own name reaches
  it.  Lookups (`ExactMatch`, `PrefixMatch`) only ever see attached nodes; the lemmas here show
  which operations keep nodes attached and that the parent walk from the `PrefixMatch` node visits
  every attached node whose name is a prefix of the looked-up name.
-/
import NdnVerif.C20.LemmasTrie
namespace Ndn.C20

variable {V : Type}

def Att (h : Heap V) (i : Nat) : Prop := ∃ n : TNode V, h[i]? = some n ∧ descend h 0 n.name = (i, [])

/-! ### descend -/

theorem descend_append (h : Heap V) : ∀ (a b : Name) (i : Nat),
    descend h i (a ++ b) = match descend h i a with
      | (j, []) => descend h j b
      | (j, c :: r) => (j, c :: r ++ b) := by
  intro a
  induction a with
  | nil => intro b i; simp [descend]
  | cons c rest ih =>
    intro b i
    simp only [List.cons_append]
    rw [descend.eq_2, descend.eq_2]
    cases hi : h[i]? with
    | none => simp
    | some n =>
      simp only
      cases hl : alookup c n.chd with
      | none => simp
      | some j => simp only; exact ih b j

/-- links of `h` are also links of `h'` -/
def LinksLe (h h' : Heap V) : Prop :=
  ∀ (x : Nat) (nx : TNode V) (c : Component) (y : Nat), h[x]? = some nx → alookup c nx.chd = some y →
    ∃ nx' : TNode V, h'[x]? = some nx' ∧ alookup c nx'.chd = some y

theorem LinksLe.refl (h : Heap V) : LinksLe h h := fun _ nx _ _ hx hl => ⟨nx, hx, hl⟩

theorem LinksLe.trans {a b c : Heap V} (x : LinksLe a b) (y : LinksLe b c) : LinksLe a c := by
  intro i n k j hi hl
  obtain ⟨n', hi', hl'⟩ := x i n k j hi hl
  exact y i n' k j hi' hl'

/-- a complete match survives when links are only added -/
theorem descend_mono {h h' : Heap V} (le : LinksLe h h') : ∀ (nm : Name) (i k : Nat),
    i < h.length → descend h i nm = (k, []) → descend h' i nm = (k, []) := by
  intro nm
  induction nm with
  | nil => intro i k _ hd; simpa [descend] using hd
  | cons c rest ih =>
    intro i k hi hd
    rw [descend.eq_2] at hd
    cases hn : h[i]? with
    | none => rw [List.getElem?_eq_none_iff] at hn; omega
    | some n =>
      simp only [hn] at hd
      cases hl : alookup c n.chd with
      | none => simp [hl] at hd
      | some j =>
        simp only [hl] at hd
        obtain ⟨n', hn', hl'⟩ := le i n c j hn hl
        rw [descend.eq_2]
        simp only [hn', hl']
        -- j is a node of h
        by_cases hj : j < h.length
        · exact ih j k hj hd
        · -- a dangling link: descend stops there, so rest = []
          have : h[j]? = none := by rw [List.getElem?_eq_none_iff]; omega
          cases rest with
          | nil => simp [descend] at hd ⊢; exact hd
          | cons c2 r2 => rw [descend.eq_2] at hd; simp [this] at hd

/-! ### operations that do not touch child lists -/

def chdAt (h : Heap V) (j : Nat) : Option (List (Component × Nat)) := (h[j]?).map (·.chd)

theorem descend_congr {h h' : Heap V} (e : ∀ j : Nat, chdAt h' j = chdAt h j) : ∀ (nm : Name) (i : Nat),
    descend h' i nm = descend h i nm := by
  intro nm
  induction nm with
  | nil => intro i; simp [descend]
  | cons c rest ih =>
    intro i
    rw [descend.eq_2, descend.eq_2]
    have := e i
    unfold chdAt at this
    cases h1 : h'[i]? <;> cases h2 : h[i]? <;> simp [h1, h2] at this ⊢
    rw [this]
    cases alookup c _ with
    | none => rfl
    | some j => exact ih j

theorem chdAt_setVal {h : Heap V} {i : Nat} {n : TNode V} (hi : h[i]? = some n) (v : V) (j : Nat) :
    chdAt (h.set i { n with val := v }) j = chdAt h j := by
  unfold chdAt; rw [get_set hi]
  by_cases hji : j = i
  · subst hji; simp [hi]
  · simp [hji]

theorem att_setVal {h : Heap V} {i : Nat} {n : TNode V} (hi : h[i]? = some n) (v : V) (j : Nat) :
    Att (h.set i { n with val := v }) j ↔ Att h j := by
  unfold Att
  constructor
  · rintro ⟨m, hm, hd⟩
    rw [get_set hi] at hm
    rw [descend_congr (chdAt_setVal hi v)] at hd
    by_cases hji : j = i
    · subst hji; simp at hm; subst hm; exact ⟨n, hi, hd⟩
    · simp [hji] at hm; exact ⟨m, hm, hd⟩
  · rintro ⟨m, hm, hd⟩
    by_cases hji : j = i
    · subst hji; rw [hi] at hm; cases hm
      exact ⟨{ n with val := v }, by rw [get_set hi]; simp, by rw [descend_congr (chdAt_setVal hi v)]; exact hd⟩
    · exact ⟨m, by rw [get_set hi]; simp [hji, hm], by rw [descend_congr (chdAt_setVal hi v)]; exact hd⟩

/-! ### DeleteIf keeps every node with a non-empty value attached -/

theorem descend_childless {h : Heap V} {i : Nat} {n : TNode V} (hi : h[i]? = some n) (hc : n.chd = [])
    (nm : Name) : descend h i nm = (i, nm) := by
  cases nm with
  | nil => simp [descend]
  | cons c rest => rw [descend.eq_2]; simp [hi, hc, alookup]

/-- erasing the link to a childless node `i` does not change complete matches that end elsewhere -/
theorem descend_erase {h : Heap V} {p i : Nat} {pn ni : TNode V} (hp : h[p]? = some pn)
    (hi : h[i]? = some ni) (hci : ni.chd = []) (hl : alookup ni.key pn.chd = some i) :
    ∀ (nm : Name) (x j : Nat), j ≠ i → descend h x nm = (j, []) →
      descend (h.set p { pn with chd := aerase ni.key pn.chd }) x nm = (j, []) := by
  intro nm
  induction nm with
  | nil => intro x j _ hd; simpa [descend] using hd
  | cons c rest ih =>
    intro x j hji hd
    rw [descend.eq_2] at hd
    cases hx : h[x]? with
    | none => simp [hx] at hd
    | some nx =>
      simp only [hx] at hd
      cases hlx : alookup c nx.chd with
      | none => simp [hlx] at hd
      | some y =>
        simp only [hlx] at hd
        rw [descend.eq_2, get_set hp]
        by_cases hxp : x = p
        · subst hxp
          rw [hp] at hx; cases hx
          simp only [if_true]
          rw [alookup_aerase]
          by_cases hck : c = ni.key
          · subst hck
            rw [hl] at hlx; cases hlx
            rw [descend_childless hi hci] at hd
            cases hd; exact absurd rfl hji
          · simp only [hck, if_false, hlx]
            exact ih y j hji hd
        · simp only [hxp, if_false, hx, hlx]
          exact ih y j hji hd

theorem deleteIf_att (pred : V → Bool) : ∀ (fuel : Nat) (h : Heap V) (i j : Nat) (nj : TNode V),
    h[j]? = some nj → pred nj.val = false → Att h j → Att (deleteIf pred fuel h i) j := by
  intro fuel
  induction fuel with
  | zero => intro h i j nj _ _ a; exact a
  | succ f ih =>
    intro h i j nj hj hpj a
    unfold deleteIf
    cases hi : h[i]? with
    | none => exact a
    | some ni =>
      simp only
      split
      · exact a
      · rename_i hcond
        cases hpar : ni.par with
        | none => exact a
        | some p =>
          simp only
          cases hp : h[p]? with
          | none => exact a
          | some pn =>
            simp only
            split
            · rename_i hl
              simp only [Bool.not_eq_true, Bool.or_eq_true, Bool.not_eq_eq_eq_not, Bool.not_true, not_or,
                Bool.not_eq_false] at hcond
              have hci : ni.chd = [] := by
                have := hcond.1; cases hc : ni.chd <;> simp [hc] at this ⊢
              have hji : j ≠ i := by
                intro e; subst e; rw [hj] at hi; cases hi
                rw [hpj] at hcond; simp at hcond
              -- j is still attached after the link is erased
              obtain ⟨nj0, hj0, hd⟩ := a
              rw [hj] at hj0; cases hj0
              have hd' := descend_erase hp hi hci hl nj.name 0 j hji hd
              -- the node j in the new heap
              have hj' : ∃ nj' : TNode V, (h.set p { pn with chd := aerase ni.key pn.chd })[j]? = some nj' ∧
                  nj'.name = nj.name ∧ nj'.val = nj.val := by
                rw [get_set hp]
                by_cases hjp' : j = p
                · subst hjp'; rw [hp] at hj; cases hj
                  exact ⟨{ nj with chd := aerase ni.key nj.chd }, by simp, rfl, rfl⟩
                · exact ⟨nj, by simp [hjp', hj], rfl, rfl⟩
              obtain ⟨nj', h1, h2, h3⟩ := hj'
              exact ih _ p j nj' h1 (by rw [h3]; exact hpj) ⟨nj', h1, by rw [h2]; exact hd'⟩
            · exact a

theorem prune_att (pred : V → Bool) (h : Heap V) (i j : Nat) (nj : TNode V)
    (hj : h[j]? = some nj) (hp : pred nj.val = false) (a : Att h j) : Att (prune pred h i) j :=
  deleteIf_att pred _ h i j nj hj hp a

/-! ### MatchAlways keeps nodes attached and returns an attached node -/

theorem descend_split (h : Heap V) : ∀ (nm : Name) (i : Nat),
    ∃ m : Name, nm = m ++ (descend h i nm).2 ∧ descend h i m = ((descend h i nm).1, []) := by
  intro nm
  induction nm with
  | nil => intro i; exact ⟨[], by simp [descend], by simp [descend]⟩
  | cons c rest ih =>
    intro i
    rw [descend.eq_2]
    cases hi : h[i]? with
    | none => exact ⟨[], by simp, by simp [descend]⟩
    | some n =>
      simp only
      cases hl : alookup c n.chd with
      | none => exact ⟨[], by simp, by simp [descend]⟩
      | some j =>
        simp only
        obtain ⟨m, h1, h2⟩ := ih j
        refine ⟨c :: m, by rw [List.cons_append, ← h1], ?_⟩
        rw [descend.eq_2]; simp only [hi, hl]; exact h2

theorem descend_stop (h : Heap V) : ∀ (nm : Name) (i : Nat) (c : Component) (r : Name) (nk : TNode V),
    (descend h i nm).2 = c :: r → h[(descend h i nm).1]? = some nk → alookup c nk.chd = none := by
  intro nm
  induction nm with
  | nil => intro i c r nk h1; simp [descend] at h1
  | cons c0 rest ih =>
    intro i c r nk
    rw [descend.eq_2]
    cases hi : h[i]? with
    | none => simp only; intro _ h2; rw [hi] at h2; cases h2
    | some n =>
      simp only
      cases hl : alookup c0 n.chd with
      | none =>
        simp only
        intro h1 h2
        rw [hi] at h2; cases h2
        cases h1; exact hl
      | some j => simp only; exact ih j c r nk

theorem create_links (z : V) : ∀ (nm : Name) (h : Heap V) (i : Nat) (ni : TNode V), h[i]? = some ni →
    (∀ (c : Component) (r : Name), nm = c :: r → alookup c ni.chd = none) →
    LinksLe h (create z h i nm).1 ∧ descend (create z h i nm).1 i nm = ((create z h i nm).2, []) := by
  intro nm
  induction nm with
  | nil => intro h i ni _ _; exact ⟨LinksLe.refl h, by simp [create, descend]⟩
  | cons c rest ih =>
    intro h i ni hi hpre
    have hlt := lt_of_get hi
    unfold create
    rw [hi]
    simp only
    obtain ⟨nn, hnnd⟩ : ∃ nn : TNode V, nn = ⟨c, some i, ni.dep + 1, ni.name ++ [c], [], z⟩ := ⟨_, rfl⟩
    obtain ⟨h1, hh1⟩ : ∃ h1 : Heap V, h1 = (h.set i { ni with chd := (c, h.length) :: ni.chd }) ++ [nn] :=
      ⟨_, rfl⟩
    rw [← hnnd, ← hh1]
    have g1 : ∀ j : Nat, j < h.length → h1[j]? = if j = i then some { ni with chd := (c, h.length) :: ni.chd }
        else h[j]? := by
      intro j hj
      rw [hh1, List.getElem?_append_left (by simp; exact hj), get_set hi]
    have gn : h1[h.length]? = some nn := by
      rw [hh1, List.getElem?_append_right (by simp)]; simp
    have le1 : LinksLe h h1 := by
      intro x nx c' y hx hl
      have hxl := lt_of_get hx
      by_cases hxi : x = i
      · subst hxi; rw [hi] at hx; cases hx
        refine ⟨{ ni with chd := (c, h.length) :: ni.chd }, by rw [g1 x hxl]; simp, ?_⟩
        simp only [alookup]
        by_cases hcc : c = c'
        · subst hcc; rw [hpre c rest rfl] at hl; cases hl
        · simp [hcc, hl]
      · exact ⟨nx, by rw [g1 x hxl]; simp [hxi, hx], hl⟩
    obtain ⟨le2, d2⟩ := ih h1 h.length nn gn (by intro c' r _; rw [hnnd]; simp [alookup])
    refine ⟨le1.trans le2, ?_⟩
    -- the link i --c--> h.length exists in h1, hence in the final heap
    have hlink : ∃ ni' : TNode V, (create z h1 h.length rest).1[i]? = some ni' ∧
        alookup c ni'.chd = some h.length :=
      le2 i { ni with chd := (c, h.length) :: ni.chd } c h.length (by rw [g1 i hlt]; simp) (by simp [alookup])
    obtain ⟨ni', h3, h4⟩ := hlink
    rw [descend.eq_2]
    simp only [h3, h4]
    exact d2

theorem matchAlways_att (z : V) {h : Heap V} (w : WF h) (nm : Name) :
    (∀ j : Nat, Att h j → Att (matchAlways z h nm).1 j) ∧ Att (matchAlways z h nm).1 (matchAlways z h nm).2 := by
  obtain ⟨r, hr, _, _, hrn⟩ := w.root
  obtain ⟨nk, hk1, hk2⟩ := descend_spec w nm 0 r hr
  obtain ⟨a1, a2, a3, a4, nn, a5, a6⟩ := matchAlways_spec z w nm
  have hpre : ∀ (c : Component) (r' : Name), (descend h 0 nm).2 = c :: r' → alookup c nk.chd = none :=
    fun c r' he => descend_stop h nm 0 c r' nk he hk1
  obtain ⟨le, dd⟩ := create_links z (descend h 0 nm).2 h (descend h 0 nm).1 nk hk1 hpre
  have h0 : 0 < h.length := lt_of_get hr
  constructor
  · rintro j ⟨nj, hj, hd⟩
    have hc := a3 j (lt_of_get hj)
    unfold coreAt at hc
    rw [hj] at hc
    cases hj' : (matchAlways z h nm).1[j]? with
    | none => simp [hj'] at hc
    | some nj' =>
      simp [hj'] at hc
      refine ⟨nj', hj', ?_⟩
      rw [hc.2.2.2.1]
      exact descend_mono le nj.name 0 j h0 hd
  · refine ⟨nn, a5, ?_⟩
    rw [a6]
    obtain ⟨m, hm1, hm2⟩ := descend_split h nm 0
    have hm2' : descend (matchAlways z h nm).1 0 m = ((descend h 0 nm).1, []) :=
      descend_mono le m 0 _ h0 hm2
    have : descend (matchAlways z h nm).1 0 (m ++ (descend h 0 nm).2) = ((matchAlways z h nm).2, []) := by
      rw [descend_append, hm2']
      exact dd
    rw [← hm1] at this
    exact this

/-! ### the parent walk visits every attached prefix node -/

/-- the nodes visited by a parent walk of at most `fuel` steps starting at `cur` -/
def anc (h : Heap V) : Nat → Nat → List Nat
  | 0, _ => []
  | fuel + 1, cur => cur :: (match parOf h cur with
      | none => []
      | some p => anc h fuel p)

theorem anc_par {h : Heap V} : ∀ (f : Nat) (k j i : Nat), j ∈ anc h f k → parOf h j = some i →
    i ∈ anc h (f + 1) k := by
  intro f
  induction f with
  | zero => intro k j i hj; simp [anc] at hj
  | succ f ih =>
    intro k j i hj hp
    rw [anc] at hj
    rcases List.mem_cons.mp hj with rfl | hj
    · rw [anc, hp]; simp [anc]
    · rw [anc]
      cases hpk : parOf h k with
      | none => simp [hpk] at hj
      | some p => simp [hpk] at hj ⊢; exact Or.inr (ih p j i hj hp)

theorem anc_mono {h : Heap V} : ∀ (f : Nat) (k i : Nat), i ∈ anc h f k → i ∈ anc h (f + 1) k := by
  intro f
  induction f with
  | zero => intro k i hi; simp [anc] at hi
  | succ f ih =>
    intro k i hi
    rw [anc] at hi ⊢
    rcases List.mem_cons.mp hi with rfl | hi
    · exact List.mem_cons_self
    · cases hpk : parOf h k with
      | none => simp [hpk] at hi
      | some p => simp [hpk] at hi ⊢; exact Or.inr (ih p i hi)

theorem anc_mono_le {h : Heap V} {f g : Nat} (hfg : f ≤ g) {k i : Nat} (hi : i ∈ anc h f k) : i ∈ anc h g k := by
  induction hfg with
  | refl => exact hi
  | step _ ih => exact anc_mono _ k i ih

/-- descending from `i` ends at a node from which the parent walk comes back to `i` -/
theorem descend_anc {h : Heap V} (w : WF h) : ∀ (nm : Name) (i : Nat) (ni : TNode V), h[i]? = some ni →
    i ∈ anc h (depOf h (descend h i nm).1 + 1 - ni.dep) (descend h i nm).1 := by
  intro nm
  induction nm with
  | nil =>
    intro i ni hi
    simp only [descend, depOf, hi]
    have : ni.dep + 1 - ni.dep = 0 + 1 := by omega
    rw [this, anc]; exact List.mem_cons_self
  | cons c rest ih =>
    intro i ni hi
    rw [descend.eq_2]
    simp only [hi]
    cases hl : alookup c ni.chd with
    | none =>
      simp only [depOf, hi]
      have : ni.dep + 1 - ni.dep = 0 + 1 := by omega
      rw [this, anc]; exact List.mem_cons_self
    | some j =>
      simp only
      obtain ⟨m, hm, hp, _⟩ := w.chd i ni c j hi hl
      have hj := ih j m hm
      obtain ⟨_, pn, hpn, hd, _⟩ := w.par j m i hm hp
      rw [hi] at hpn; cases hpn
      have hpo : parOf h j = some i := by simp [parOf, hm, hp]
      have := anc_par _ _ j i hj hpo
      -- fuel bookkeeping: the end node is at least as deep as j
      obtain ⟨nk, hk1, hk2⟩ := descend_spec w rest j m hm
      have hdk := w.dep_eq _ nk hk1
      have hdm := w.dep_eq j m hm
      obtain ⟨m', hm1, _⟩ := descend_split h rest j
      have hlen : m.name.length ≤ nk.name.length := by
        have e1 := congrArg List.length hk2
        have e2 := congrArg List.length hm1
        simp only [List.length_append] at e1 e2
        omega
      have hdepk : depOf h (descend h j rest).1 = nk.dep := by simp [depOf, hk1]
      rw [hdepk] at this ⊢
      have e : nk.dep + 1 - m.dep + 1 = nk.dep + 1 - ni.dep := by omega
      rw [e] at this; exact this

/-- an attached node whose name is a prefix of `nm` is on the parent walk from `PrefixMatch nm` -/
theorem att_on_walk {h : Heap V} (w : WF h) {i : Nat} {ni : TNode V} (hi : h[i]? = some ni)
    (hd : descend h 0 ni.name = (i, [])) (r : Name) :
    i ∈ anc h (depOf h (prefixMatch h (ni.name ++ r)) + 1) (prefixMatch h (ni.name ++ r)) := by
  have : descend h 0 (ni.name ++ r) = descend h i r := by rw [descend_append, hd]
  unfold prefixMatch
  rw [this]
  exact anc_mono_le (by omega) (descend_anc w r i ni hi)

end Ndn.C20
