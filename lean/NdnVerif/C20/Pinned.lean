/-
  C20 — the trie deletion and the three call sites AS THEY WERE on the pinned tree (before the
  `fix:` commits for F-20a / F-20b).  Used only (a) by the driver when VERIF_C20_PINNED=1, to
  validate this reading of the defective code against the unfixed tree, and (b) for the negative
  witnesses in Props.lean.  Core Lean only.
-/
import NdnVerif.C20.Model
namespace Ndn.C20

/-- pinned `DeleteIf`: unlinks the node WITH its subtree, by key (not identity), clears the
    children of the root -/
def deleteIfU {V : Type} (pred : V → Bool) : Nat → Heap V → Nat → Heap V
  | 0, h, _ => h
  | fuel + 1, h, i =>
    match h[i]? with
    | none => h
    | some n =>
      if !pred n.val then h
      else
        let h1 := h.set i { n with chd := [] }
        match n.par with
        | none => h1
        | some p =>
          match h1[p]? with
          | none => h1
          | some pn =>
            let c' := aerase n.key pn.chd
            let h2 := h1.set p { pn with chd := c' }
            if c'.isEmpty then deleteIfU pred fuel h2 p else h2

/-- pinned `Delete`: unconditional, and the emptied parent is deleted whatever its value -/
def deleteU {V : Type} : Nat → Heap V → Nat → Heap V
  | 0, h, _ => h
  | fuel + 1, h, i =>
    match h[i]? with
    | none => h
    | some n =>
      let h1 := h.set i { n with chd := [] }
      match n.par with
      | none => h1
      | some p =>
        match h1[p]? with
        | none => h1
        | some pn =>
          let c' := aerase n.key pn.chd
          let h2 := h1.set p { pn with chd := c' }
          if c'.isEmpty then deleteU fuel h2 p else h2

def stepPinned (s : St) : Op → St × Out
  | .data name dig =>
    let n := prefixMatch s.pit name
    let (pit1, sat) := dataWalk name.length dig (depOf s.pit n + 1) s.pit n []
    let pit2 := deleteIfU isEmptyList (depOf pit1 n + 1) pit1 n
    let cbs := sat.map fun p => (⟨p.id, .data name dig, s.now⟩ : Cb)
    ({ s with pit := pit2, timers := cancelAll s.timers sat, cbs := s.cbs ++ cbs }, .cbs cbs)
  | .nack name =>
    match exactMatch s.pit name with
    | none => (s, .cbs [])
    | some n =>
      let lst := getVal [] s.pit n
      let cbs := lst.map fun p => (⟨p.id, .nack, s.now⟩ : Cb)
      let pit2 := deleteU (depOf s.pit n + 1) s.pit n     -- the value list stays in the node
      ({ s with pit := pit2, timers := cancelAll s.timers lst, cbs := s.cbs ++ cbs }, .cbs cbs)
  | .timerRun k =>
    match s.timers[k]? with
    | none => (s, .skip)
    | some t =>
      if t.st = .started then
        let lst := getVal [] s.pit t.node
        let keep := lst.filter fun p => s.now < p.deadline
        let gone := lst.filter fun p => !(s.now < p.deadline)
        let cbs := gone.map fun p => (⟨p.id, .timeout, s.now⟩ : Cb)
        let pit1 := setVal s.pit t.node keep
        let pit2 := deleteIfU isEmptyList (depOf pit1 t.node + 1) pit1 t.node
        ({ s with pit := pit2, timers := s.timers.set k { t with st := .fired },
                  cbs := s.cbs ++ cbs }, .cbs cbs)
      else (s, .skip)
  | .detach p =>
    match exactMatch s.fib p with
    | none => (s, .err)
    | some n => ({ s with fib := deleteU (depOf s.fib n + 1) s.fib n }, .ok)
  | op => step s op

end Ndn.C20
