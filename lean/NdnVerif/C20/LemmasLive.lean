/-
  C20 — every pending entry sits in an ATTACHED node (so arriving Data finds it), and the loop of
  onData leaves no satisfied entry on the walked chain.
-/
import NdnVerif.C20.LemmasStep
import NdnVerif.C20.LemmasAtt
namespace Ndn.C20

theorem att_congr {V : Type} {h h' : Heap V} (hc : ∀ j : Nat, chdAt h' j = chdAt h j)
    (hn : ∀ j : Nat, nameAt h' j = nameAt h j) (i : Nat) : Att h' i ↔ Att h i := by
  unfold Att
  have key : ∀ (a b : Heap V), (∀ j : Nat, chdAt b j = chdAt a j) → (∀ j : Nat, nameAt b j = nameAt a j) →
      (∃ n : TNode V, a[i]? = some n ∧ descend a 0 n.name = (i, [])) →
      (∃ n : TNode V, b[i]? = some n ∧ descend b 0 n.name = (i, [])) := by
    rintro a b hc' hn' ⟨n, hi, hd⟩
    have := hn' i
    unfold nameAt at this
    rw [hi] at this
    cases hb : b[i]? with
    | none => simp [hb] at this
    | some m =>
      simp [hb] at this
      exact ⟨m, rfl, by rw [this, descend_congr hc']; exact hd⟩
  exact ⟨key h' h (fun j => (hc j).symm) (fun j => (hn j).symm), key h h' hc hn⟩

theorem parOf_setVal {V : Type} {h : Heap V} {i : Nat} {n : TNode V} (hi : h[i]? = some n) (v : V) (j : Nat) :
    parOf (h.set i { n with val := v }) j = parOf h j := by
  unfold parOf; rw [get_set hi]
  by_cases hji : j = i
  · subst hji; simp [hi]
  · simp [hji]

theorem anc_congr {V : Type} {h h' : Heap V} (hp : ∀ j : Nat, parOf h' j = parOf h j) :
    ∀ (f k : Nat), anc h' f k = anc h f k := by
  intro f
  induction f with
  | zero => intro k; rfl
  | succ f ih =>
    intro k
    rw [anc, anc, hp k]
    cases parOf h k with
    | none => rfl
    | some p => simp only; rw [ih p]

/-! ### dataWalk: what it leaves alone, what it clears -/

theorem dataWalk_frame (dataLen : Nat) (dig : Bytes) : ∀ (fuel : Nat) (h : PHeap) (cur : Nat) (acc : List Pend),
    (∀ j : Nat, chdAt (dataWalk dataLen dig fuel h cur acc).1 j = chdAt h j) ∧
    Shrink h (dataWalk dataLen dig fuel h cur acc).1 ∧
    (∀ j : Nat, depAt (dataWalk dataLen dig fuel h cur acc).1 j = depAt h j) := by
  intro fuel
  induction fuel with
  | zero => intro h cur acc; exact ⟨fun _ => rfl, Shrink.refl h, fun _ => rfl⟩
  | succ f ih =>
    intro h cur acc
    unfold dataWalk
    cases hc : h[cur]? with
    | none => exact ⟨fun _ => rfl, Shrink.refl h, fun _ => rfl⟩
    | some n =>
      simp only
      obtain ⟨h1, hh1⟩ : ∃ h1 : PHeap,
          h1 = h.set cur { n with val := n.val.filter fun p => !satisfiedBy n.dep dataLen dig p } := ⟨_, rfl⟩
      rw [← hh1]
      have c1 : ∀ j : Nat, chdAt h1 j = chdAt h j := by intro j; rw [hh1]; exact chdAt_setVal hc _ j
      have s1 : Shrink h h1 := by rw [hh1]; exact filterNode_shrink hc _
      have d1 : ∀ j : Nat, depAt h1 j = depAt h j := by
        intro j; unfold depAt; rw [hh1, get_set hc]
        by_cases hjc : j = cur
        · subst hjc; simp [hc]
        · simp [hjc]
      cases hp : n.par with
      | none => exact ⟨c1, s1, d1⟩
      | some p =>
        simp only
        obtain ⟨c2, s2, d2⟩ := ih h1 p (acc ++ n.val.filter (satisfiedBy n.dep dataLen dig))
        exact ⟨fun j => by rw [c2, c1], s1.trans s2, fun j => by rw [d2, d1]⟩

/-- after the loop, no entry that is still in a visited node is satisfied by the Data -/
theorem dataWalk_clears (dataLen : Nat) (dig : Bytes) : ∀ (fuel : Nat) (h : PHeap) (cur : Nat) (acc : List Pend)
    (i : Nat) (ni : TNode (List Pend)) (e : Pend), i ∈ anc h fuel cur → h[i]? = some ni →
    pendH (dataWalk dataLen dig fuel h cur acc).1 i e → satisfiedBy ni.dep dataLen dig e = false := by
  intro fuel
  induction fuel with
  | zero => intro h cur acc i ni e hi; simp [anc] at hi
  | succ f ih =>
    intro h cur acc i ni e hi hni hpe
    rw [anc] at hi
    unfold dataWalk at hpe
    cases hc : h[cur]? with
    | none =>
      have hpn : parOf h cur = none := by simp [parOf, hc]
      rw [hpn] at hi; simp at hi; subst hi
      rw [hc] at hni; cases hni
    | some n =>
      simp only [hc] at hpe
      obtain ⟨h1, hh1⟩ : ∃ h1 : PHeap, h1 = h.set cur { n with val := n.val.filter fun p => !satisfiedBy n.dep dataLen dig p } :=
        ⟨_, rfl⟩
      rw [← hh1] at hpe
      have v1 : ∀ j : Nat, valAt h1 j = if j = cur then some (n.val.filter fun p => !satisfiedBy n.dep dataLen dig p)
          else valAt h j := by
        intro j; rw [hh1]; exact valAt_setVal hc _ j
      -- entries of cur that survive in h1 are not satisfied
      have hcur : ∀ e' : Pend, pendH h1 cur e' → satisfiedBy n.dep dataLen dig e' = false := by
        rintro e' ⟨l, hl, he'⟩
        rw [v1] at hl; simp at hl; subst hl
        have := (List.mem_filter.mp he').2
        simpa using this
      have hpar : parOf h cur = n.par := by simp [parOf, hc]
      rw [hpar] at hi
      cases hp : n.par with
      | none =>
        simp only [hp] at hpe hi
        simp at hi; subst hi
        rw [hc] at hni; cases hni
        exact hcur e hpe
      | some p =>
        simp only [hp] at hpe hi
        rcases List.mem_cons.mp hi with hic | hit
        · subst hic
          rw [hc] at hni; cases hni
          exact hcur e ((dataWalk_frame dataLen dig f h1 p _).2.1.pend hpe)
        · have hanc : anc h1 f p = anc h f p := anc_congr (fun j => by rw [hh1]; exact parOf_setVal hc _ j) f p
          have hni1 : ∃ ni1 : TNode (List Pend), h1[i]? = some ni1 ∧ ni1.dep = ni.dep := by
            rw [hh1, get_set hc]
            by_cases hic : i = cur
            · subst hic; rw [hc] at hni; cases hni
              exact ⟨{ ni with val := ni.val.filter fun p => !satisfiedBy ni.dep dataLen dig p }, by simp, rfl⟩
            · exact ⟨ni, by simp [hic, hni], rfl⟩
          obtain ⟨ni1, g1, g2⟩ := hni1
          rw [← g2]
          exact ih h1 p _ i ni1 e (by rw [hanc]; exact hit) g1 hpe

/-! ### the liveness invariant -/

structure Inv2 (s : St) : Prop where
  att : ∀ (i : Nat) (e : Pend), pendingAt s i e → Att s.pit i

theorem Inv2.init : Inv2 St.init := by
  refine ⟨?_⟩
  rintro i e ⟨l, hl, he⟩
  cases i with
  | zero => simp [valAt, St.init, newTrie] at hl; subst hl; cases he
  | succ i => simp [valAt, St.init, newTrie] at hl

/-- shrink the entry lists, then prune: what is still pending is still attached -/
theorem inv2_shrink_prune {s : St} (I2 : Inv2 s) (h1 : PHeap)
    (hc : ∀ j : Nat, chdAt h1 j = chdAt s.pit j) (sh : Shrink s.pit h1) (n : Nat) :
    ∀ (i : Nat) (e : Pend), pendH (prune isEmptyList h1 n) i e → Att (prune isEmptyList h1 n) i := by
  intro i e hpe
  have core := fun j => prune_core isEmptyList h1 n j
  have hp1 : pendH h1 i e := (pend_of_core core i e).mp hpe
  have ha : Att h1 i := (att_congr hc sh.name i).mpr (I2.att i e (sh.pend hp1))
  obtain ⟨l, hl, he⟩ := hp1
  unfold valAt at hl
  cases hi : h1[i]? with
  | none => simp [hi] at hl
  | some ni =>
    simp [hi] at hl; subst hl
    refine prune_att isEmptyList h1 n i ni hi ?_ ha
    cases hv : ni.val with
    | nil => rw [hv] at he; cases he
    | cons a t => simp [isEmptyList]

theorem Inv2.step {s : St} (I1 : Inv1 s) (I2 : Inv2 s) (op : Op) : Inv2 (step s op).1 := by
  cases op with
  | express final cbp life =>
    cases hlast : final.getLast? with
    | none => simp only [C20.step, hlast]; exact I2
    | some last =>
      simp only [C20.step, hlast]
      obtain ⟨nodeName, hnode⟩ : ∃ d : Name, d = (splitDigest final).2 := ⟨_, rfl⟩
      rw [← hnode]
      obtain ⟨a1, a2, a3, a4, nn, a5, a6⟩ := matchAlways_spec ([] : List Pend) I1.wf nodeName
      obtain ⟨b1, b2⟩ := matchAlways_att ([] : List Pend) I1.wf nodeName
      obtain ⟨pit1, hpit1⟩ : ∃ h : PHeap, h = (matchAlways [] s.pit nodeName).1 := ⟨_, rfl⟩
      obtain ⟨n, hn⟩ : ∃ n : Nat, n = (matchAlways [] s.pit nodeName).2 := ⟨_, rfl⟩
      rw [← hpit1, ← hn] at a5 b2
      rw [← hpit1] at a1 a2 a3 a4 b1
      rw [← hpit1, ← hn]
      refine ⟨?_⟩
      intro i e hpe
      obtain ⟨l, hl, he⟩ := hpe
      have hsv : ∀ v : List Pend, setVal pit1 n v = pit1.set n { nn with val := v } := by
        intro v; simp [setVal, a5]
      change valAt (setVal pit1 n _) i = some l at hl
      show Att (setVal pit1 n _) i
      rw [hsv] at hl ⊢
      rw [att_setVal a5]
      rw [valAt_setVal a5] at hl
      by_cases hin : i = n
      · subst hin; exact b2
      · simp [hin] at hl
        by_cases hlt : i < s.pit.length
        · rw [valAt_of_core (a3 i hlt)] at hl
          exact b1 i (I2.att i e ⟨l, hl, he⟩)
        · by_cases hlt2 : i < pit1.length
          · rw [a4 i (by omega) hlt2] at hl; cases hl; cases he
          · simp [valAt] at hl
            obtain ⟨a, ha, _⟩ := hl
            exact absurd (lt_of_get ha) hlt2
  | data name dig =>
    rw [step_data_eq]
    obtain ⟨c1, s1, _⟩ := dataWalk_frame name.length dig (depOf s.pit (prefixMatch s.pit name) + 1) s.pit
      (prefixMatch s.pit name) []
    exact ⟨inv2_shrink_prune I2 _ c1 s1 _⟩
  | nack name =>
    simp only [C20.step]
    cases hm : exactMatch s.pit (splitDigest name).2 with
    | none => exact I2
    | some n =>
      simp only
      obtain ⟨w1, nm1, v1⟩ := setVal_filter_spec I1.wf n (fun p => !decide (p.dig = (splitDigest name).1))
      refine ⟨inv2_shrink_prune I2 _ ?_ ⟨nm1, ?_⟩ n⟩
      · intro j
        unfold setVal
        cases hn : s.pit[n]? with
        | none => rfl
        | some nd => exact chdAt_setVal hn _ j
      · intro j l' hl'
        rw [v1] at hl'
        by_cases hjn : j = n
        · subst hjn
          simp only [if_true] at hl'
          cases hv : valAt s.pit j with
          | none => simp [hv] at hl'
          | some l => simp [hv] at hl'; subst hl'; exact ⟨l, rfl, List.filter_sublist⟩
        · simp [hjn] at hl'; exact ⟨l', hl', List.Sublist.refl _⟩
  | timerRun k =>
    simp only [C20.step]
    cases hk : s.timers[k]? with
    | none => exact I2
    | some t =>
      simp only
      split
      · obtain ⟨w1, nm1, v1⟩ := setVal_filter_spec I1.wf t.node (fun p => decide (s.now < p.deadline))
        refine ⟨inv2_shrink_prune I2 _ ?_ ⟨nm1, ?_⟩ t.node⟩
        · intro j
          unfold setVal
          cases hn : s.pit[t.node]? with
          | none => rfl
          | some nd => exact chdAt_setVal hn _ j
        · intro j l' hl'
          rw [v1] at hl'
          by_cases hjn : j = t.node
          · subst hjn
            simp only [if_true] at hl'
            cases hv : valAt s.pit t.node with
            | none => simp [hv] at hl'
            | some l => simp [hv] at hl'; subst hl'; exact ⟨l, rfl, List.filter_sublist⟩
          · simp [hjn] at hl'; exact ⟨l', hl', List.Sublist.refl _⟩
      · exact I2
  | setTime t => exact ⟨I2.att⟩
  | timerStart k =>
    simp only [C20.step]
    cases s.timers[k]? with
    | none => exact I2
    | some t => simp only; split <;> exact ⟨I2.att⟩
  | attach p hid => simp only [C20.step]; split <;> exact ⟨I2.att⟩
  | detach p =>
    simp only [C20.step]
    split
    · exact I2
    · split <;> exact ⟨I2.att⟩
  | interest name life => simp only [C20.step]; split <;> exact ⟨I2.att⟩
  | reply r =>
    simp only [C20.step]
    split
    · exact I2
    · split <;> exact I2

theorem inv12_run : ∀ (ops : List Op) (s : St), Inv1 s → Inv2 s → Inv1 (run s ops) ∧ Inv2 (run s ops) := by
  intro ops
  induction ops with
  | nil => intro s a b; exact ⟨a, b⟩
  | cons op rest ih => intro s a b; exact ih _ (a.step op) (Inv2.step a b op)

end Ndn.C20
