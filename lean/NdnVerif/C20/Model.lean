/-
  C20 model — std/engine/basic/engine.go (Express, onData, onNack, the timeout closure,
  AttachHandler/DetachHandler, onInterest, Reply), simple_trie.go (NameTrie), timer.go (Timer).

  The name trie is a HEAP: a list of nodes addressed by their index (allocation order), with a
  parent index, a child association list (Go: map keyed by Component.String()) and a value.
  A heap is needed because the timeout closure of every expressed Interest keeps a pointer to the
  node it was inserted at, and keeps using it after the node has been unlinked from the tree.
  Nodes are never freed in the model (Go: garbage collection, unobservable).

  Operations are atomic: every callback runs under the engine's PIT lock, so the only scheduling
  freedom is the ORDER in which the receive path and the timer goroutines obtain the lock, and
  whether `time.Timer.Stop` still catches a timer (`armed`) or comes too late (`started`: the
  runtime already launched the goroutine, which is waiting for the lock).  Both are explicit:
  `timerStart k` / `timerRun k` are separate operations and `setTime` lets the clock advance
  between any two of them.

  Core Lean only.
-/
import NdnVerif.Base.Name
import NdnVerif.Gen.C20Consts
namespace Ndn.C20

/-! ## constants, re-extracted from the working tree on every run (harness/cmd/c20facts → Gen/C20Consts.lean) -/
def defaultLife : Nat := Gen.defaultLifeUs         -- DefaultInterestLife (4 s), µs
def margin : Nat := Gen.marginUs                   -- TimeoutMargin (10 ms), µs
def tImplicitDigest : Nat := Gen.typeImplicitDigest -- enc.TypeImplicitSha256DigestComponent

/-! ## the generic name trie (simple_trie.go) -/

structure TNode (V : Type) where
  key : Component              -- n.key (component under which the parent links this node)
  par : Option Nat             -- n.par
  dep : Nat                    -- n.dep
  name : Name                  -- ghost: the full name of the node (never read by the operations)
  chd : List (Component × Nat) -- n.chd  (nil and empty map are both [])
  val : V                      -- n.val

abbrev Heap (V : Type) := List (TNode V)

def alookup (c : Component) : List (Component × Nat) → Option Nat
  | [] => none
  | (k, v) :: t => if k = c then some v else alookup c t

def aerase (c : Component) : List (Component × Nat) → List (Component × Nat)
  | [] => []
  | (k, v) :: t => if k = c then aerase c t else (k, v) :: aerase c t

/-- `NewNameTrie`: a heap with only the root (index 0) -/
def newTrie {V : Type} (z : V) : Heap V := [⟨⟨0, []⟩, none, 0, [], [], z⟩]

/-- follow child links from node `i` along `nm` as far as they exist: (last node, unmatched rest).
    `ExactMatch`, `PrefixMatch` and the first half of `MatchAlways` are this walk. -/
def descend {V : Type} (h : Heap V) : Nat → Name → Nat × Name
  | i, [] => (i, [])
  | i, c :: rest =>
    match h[i]? with
    | none => (i, c :: rest)
    | some n =>
      match alookup c n.chd with
      | some j => descend h j rest
      | none => (i, c :: rest)

/-- `PrefixMatch` from the root: always succeeds -/
def prefixMatch {V : Type} (h : Heap V) (nm : Name) : Nat := (descend h 0 nm).1

/-- `ExactMatch` from the root -/
def exactMatch {V : Type} (h : Heap V) (nm : Name) : Option Nat :=
  match descend h 0 nm with
  | (i, []) => some i
  | _ => none

/-- second half of `MatchAlways`: create the missing chain below node `i` -/
def create {V : Type} (z : V) (h : Heap V) (i : Nat) : Name → Heap V × Nat
  | [] => (h, i)
  | c :: rest =>
    match h[i]? with
    | none => (h, i)
    | some pn =>
      let j := h.length
      let nn : TNode V := ⟨c, some i, pn.dep + 1, pn.name ++ [c], [], z⟩
      let h' := (h.set i { pn with chd := (c, j) :: pn.chd }) ++ [nn]
      create z h' j rest

/-- `MatchAlways` from the root -/
def matchAlways {V : Type} (z : V) (h : Heap V) (nm : Name) : Heap V × Nat :=
  let (i, rest) := descend h 0 nm
  create z h i rest

def setVal {V : Type} (h : Heap V) (i : Nat) (v : V) : Heap V :=
  match h[i]? with
  | none => h
  | some n => h.set i { n with val := v }

def getVal {V : Type} (z : V) (h : Heap V) (i : Nat) : V :=
  match h[i]? with
  | none => z
  | some n => n.val

/-- `DeleteIf` (simple_trie.go, after fix F-20a/F-20b): a node is unlinked only if it has no
    children, its value is empty according to `pred`, and its parent still links THIS node under
    its key; then the parent is tried.  `fuel` bounds the walk (the code's recursion follows
    `par`; `dep + 1` is always enough). -/
def deleteIf {V : Type} (pred : V → Bool) : Nat → Heap V → Nat → Heap V
  | 0, h, _ => h
  | fuel + 1, h, i =>
    match h[i]? with
    | none => h
    | some n =>
      if !n.chd.isEmpty || !pred n.val then h
      else match n.par with
        | none => h
        | some p =>
          match h[p]? with
          | none => h
          | some pn =>
            if alookup n.key pn.chd = some i then
              deleteIf pred fuel (h.set p { pn with chd := aerase n.key pn.chd }) p
            else h

def depOf {V : Type} (h : Heap V) (i : Nat) : Nat :=
  match h[i]? with
  | none => 0
  | some n => n.dep

def parOf {V : Type} (h : Heap V) (i : Nat) : Option Nat :=
  match h[i]? with
  | none => none
  | some n => n.par

/-- `n.DeleteIf(pred)` as called by the engine -/
def prune {V : Type} (pred : V → Bool) (h : Heap V) (i : Nat) : Heap V :=
  deleteIf pred (depOf h i + 1) h i

/-! ## engine state -/

/-- state of a `time.AfterFunc` timer -/
inductive TSt where
  | armed      -- waiting for its instant
  | cancelled  -- Stop() came in time
  | started    -- the runtime has launched the goroutine; it is waiting for the PIT lock
  | fired      -- the timeout closure has run
deriving DecidableEq, Repr

structure Tmr where
  fire : Nat       -- instant of the AfterFunc
  node : Nat       -- the PIT node captured by the closure
  st : TSt
deriving Repr

/-- `pendInt` -/
structure Pend where
  id : Nat               -- identity of the expressed Interest (the callback)
  deadline : Nat
  cbp : Bool             -- canBePrefix
  dig : Option Bytes     -- impSha256
  tid : Nat              -- timeoutCancel: index of its timer
deriving Repr

/-- result kinds seen by a callback -/
inductive Kind where
  | data (name : Name) (dig : Bytes)
  | nack
  | timeout
deriving DecidableEq, Repr

/-- one callback invocation -/
structure Cb where
  id : Nat
  kind : Kind
  t : Nat
deriving DecidableEq, Repr

/-- ghost record of one successful `Express` -/
structure Expr where
  id : Nat
  final : Name           -- finalName (with the digest component, if any)
  node : Name            -- nodeName
  cbp : Bool
  dig : Option Bytes
  t : Nat
  life : Nat
deriving Repr

/-- one Interest handed to a handler -/
structure Rx where
  deadline : Nat
deriving Repr

structure St where
  now : Nat := 0
  pit : Heap (List Pend) := newTrie []
  fib : Heap (Option Nat) := newTrie none
  timers : List Tmr := []
  rx : List Rx := []
  -- ghost history
  exprs : List Expr := []
  cbs : List Cb := []
  hs : List (Name × Nat) := []    -- ghost: the handler table as the registration history defines it

def St.init : St := {}

inductive Op where
  | express (final : Name) (cbp : Bool) (life : Option Nat)
  | data (name : Name) (dig : Bytes)
  | nack (name : Name)
  | setTime (t : Nat)
  | timerStart (k : Nat)
  | timerRun (k : Nat)
  | attach (p : Name) (hid : Nat)
  | detach (p : Name)
  | interest (name : Name) (life : Option Nat)
  | reply (r : Nat)
deriving Repr

inductive Out where
  | expressed (id : Nat)          -- Express returned nil, Interest sent
  | exprErr                        -- empty final name
  | cbs (l : List Cb)              -- callbacks made by this operation
  | ok | err | dup
  | handled (hid : Option Nat) (deadline : Nat) (rx : Nat)
  | sent | late | skip
deriving DecidableEq, Repr

/-! ## helpers -/

def cancelTimer (ts : List Tmr) (k : Nat) : List Tmr :=
  match ts[k]? with
  | none => ts
  | some t => if t.st = .armed then ts.set k { t with st := .cancelled } else ts

def cancelAll (ts : List Tmr) (ps : List Pend) : List Tmr :=
  ps.foldl (fun ts p => cancelTimer ts p.tid) ts

/-- the test applied by `onData` to one entry at a node of depth `dep` -/
def satisfiedBy (dep : Nat) (dataLen : Nat) (dig : Bytes) (p : Pend) : Bool :=
  if dep < dataLen && !p.cbp then false
  else match p.dig with
    | some d => d = dig
    | none => true

/-- the loop `for cur := n; cur != nil; cur = cur.Parent()` of `onData` -/
def dataWalk (dataLen : Nat) (dig : Bytes) :
    Nat → Heap (List Pend) → Nat → List Pend → Heap (List Pend) × List Pend
  | 0, h, _, acc => (h, acc)
  | fuel + 1, h, cur, acc =>
    match h[cur]? with
    | none => (h, acc)
    | some n =>
      let sat := n.val.filter (satisfiedBy n.dep dataLen dig)
      let keep := n.val.filter (fun p => !satisfiedBy n.dep dataLen dig p)
      let h' := h.set cur { n with val := keep }
      match n.par with
      | none => (h', acc ++ sat)
      | some p => dataWalk dataLen dig fuel h' p (acc ++ sat)

def isEmptyList (l : List Pend) : Bool := l.isEmpty
def isNoneH (v : Option Nat) : Bool := v.isNone

/-- the loop of `onInterest`: nearest ancestor-or-self with a handler -/
def handlerWalk : Nat → Heap (Option Nat) → Nat → Option Nat
  | 0, _, _ => none
  | fuel + 1, h, cur =>
    match h[cur]? with
    | none => none
    | some n =>
      match n.val with
      | some hid => some hid
      | none =>
        match n.par with
        | none => none
        | some p => handlerWalk fuel h p

/-- `Express` / `onNack`: split the implicit digest off a name: (impSha256, nodeName) -/
def splitDigest (final : Name) : Option Bytes × Name :=
  match final.getLast? with
  | none => (none, final)
  | some last => if last.typ = tImplicitDigest then (some last.val, final.dropLast) else (none, final)

/-! ## the step function -/

def step (s : St) : Op → St × Out
  | .express final cbp life =>
    -- engine.go Express
    match final.getLast? with
    | none => (s, .exprErr)
    | some _ =>
      let (dig, nodeName) := splitDigest final
      let lifetime := life.getD defaultLife
      let deadline := s.now + lifetime
      let (pit1, n) := matchAlways [] s.pit nodeName
      let id := s.exprs.length
      let tid := s.timers.length
      let entry : Pend := ⟨id, deadline, cbp, dig, tid⟩
      let pit2 := setVal pit1 n (getVal [] pit1 n ++ [entry])
      ({ s with pit := pit2,
                timers := s.timers ++ [⟨s.now + lifetime + margin, n, .armed⟩],
                exprs := s.exprs ++ [⟨id, final, nodeName, cbp, dig, s.now, lifetime⟩] },
       .expressed id)
  | .data name dig =>
    -- engine.go onData
    let n := prefixMatch s.pit name
    let (pit1, sat) := dataWalk name.length dig (depOf s.pit n + 1) s.pit n []
    let pit2 := prune isEmptyList pit1 n
    let cbs := sat.map fun p => (⟨p.id, .data name dig, s.now⟩ : Cb)
    ({ s with pit := pit2, timers := cancelAll s.timers sat, cbs := s.cbs ++ cbs }, .cbs cbs)
  | .nack name =>
    -- engine.go onNack
    let (dig, nodeName) := splitDigest name
    match exactMatch s.pit nodeName with
    | none => (s, .cbs [])
    | some n =>
      let lst := getVal [] s.pit n
      let hit := lst.filter fun p => decide (p.dig = dig)
      let keep := lst.filter fun p => !decide (p.dig = dig)
      let cbs := hit.map fun p => (⟨p.id, .nack, s.now⟩ : Cb)
      let pit1 := setVal s.pit n keep
      let pit2 := prune isEmptyList pit1 n
      ({ s with pit := pit2, timers := cancelAll s.timers hit, cbs := s.cbs ++ cbs }, .cbs cbs)
  | .setTime t => ({ s with now := max s.now t }, .ok)
  | .timerStart k =>
    match s.timers[k]? with
    | none => (s, .skip)
    | some t =>
      if t.st = .armed ∧ t.fire ≤ s.now then
        ({ s with timers := s.timers.set k { t with st := .started } }, .ok)
      else (s, .skip)
  | .timerRun k =>
    -- the closure timeoutFunc of Express
    match s.timers[k]? with
    | none => (s, .skip)
    | some t =>
      if t.st = .started then
        let lst := getVal [] s.pit t.node
        let keep := lst.filter fun p => s.now < p.deadline
        let gone := lst.filter fun p => !(s.now < p.deadline)
        let cbs := gone.map fun p => (⟨p.id, .timeout, s.now⟩ : Cb)
        let pit1 := setVal s.pit t.node keep
        let pit2 := prune isEmptyList pit1 t.node
        ({ s with pit := pit2, timers := s.timers.set k { t with st := .fired },
                  cbs := s.cbs ++ cbs }, .cbs cbs)
      else (s, .skip)
  | .attach p hid =>
    -- engine.go AttachHandler
    let (fib1, n) := matchAlways none s.fib p
    match getVal none fib1 n with
    | some _ => ({ s with fib := fib1 }, .dup)
    | none => ({ s with fib := setVal fib1 n (some hid), hs := s.hs ++ [(p, hid)] }, .ok)
  | .detach p =>
    -- engine.go DetachHandler
    match exactMatch s.fib p with
    | none => (s, .err)
    | some n =>
      match getVal none s.fib n with
      | none => (s, .err)
      | some _ =>
        let fib1 := setVal s.fib n none
        ({ s with fib := prune isNoneH fib1 n, hs := s.hs.filter fun e => !decide (e.1 = p) }, .ok)
  | .interest name life =>
    -- engine.go onInterest
    let deadline := s.now + life.getD defaultLife
    let n := prefixMatch s.fib name
    match handlerWalk (depOf s.fib n + 1) s.fib n with
    | none => (s, .handled none deadline 0)
    | some hid => ({ s with rx := s.rx ++ [⟨deadline⟩] }, .handled (some hid) deadline s.rx.length)
  | .reply r =>
    -- the Reply closure
    match s.rx[r]? with
    | none => (s, .skip)
    | some x => if x.deadline < s.now then (s, .late) else (s, .sent)

/-- run a history -/
def run (s : St) : List Op → St
  | [] => s
  | op :: ops => run (step s op).1 ops

end Ndn.C20
