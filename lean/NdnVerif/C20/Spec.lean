/-
  C20 specification — what the property statement demands of ANY engine, as decidable predicates
  over an observable trace (no trie, no timers).  Used twice: (1) the theorems in Props.lean show
  that every history of the model satisfies these predicates; (2) the driver evaluates them on the
  real engine's own outputs (SPEC lines).  Core Lean only.
-/
import NdnVerif.Base.Name
namespace Ndn.C20.Spec

/-- what is known about an expressed Interest -/
structure Int where
  node : Name             -- name without the implicit-digest component
  final : Name            -- the name given to Express
  cbp : Bool
  dig : Option Bytes
  t : Nat                 -- instant of Express
  life : Nat              -- lifetime

/-- `a` is a (non-strict) prefix of `b` -/
def isPre : Name → Name → Bool
  | [], _ => true
  | _ :: _, [] => false
  | a :: as, b :: bs => decide (a = b) && isPre as bs

/-- does Data `(name, dig)` satisfy the Interest?  same name, or longer only with CanBePrefix,
    and the implicit digest, if requested, equals the Data's digest -/
def satisfies (i : Int) (name : Name) (dig : Bytes) : Bool :=
  (if i.cbp then isPre i.node name else decide (i.node = name)) &&
  (match i.dig with | some d => decide (d = dig) | none => true)

/-- a timeout at instant `t` is not early -/
def timeoutOk (i : Int) (t : Nat) : Bool := i.t + i.life ≤ t

/-- longest prefix among the attached handlers -/
def lpm (fib : List (Name × Nat)) (name : Name) : Option (Name × Nat) :=
  fib.foldl (fun best e =>
    if isPre e.1 name then
      match best with
      | none => some e
      | some b => if b.1.length < e.1.length then some e else some b
    else best) none

/-- a reply may be transmitted at `now` for an Interest with this deadline -/
def replyOk (deadline now : Nat) : Bool := now ≤ deadline

end Ndn.C20.Spec
