/-
  C20 — the loops of the engine over PIT nodes: `dataWalk` (onData) and the single-node sweep used
  by onNack and the timeout closure; timers cancelled by a resolution.
-/
import NdnVerif.C20.LemmasPit
namespace Ndn.C20

abbrev PHeap := Heap (List Pend)

def pendH (h : PHeap) (i : Nat) (e : Pend) : Prop := ∃ l, valAt h i = some l ∧ e ∈ l

theorem pendingAt_iff (s : St) (i : Nat) (e : Pend) : pendingAt s i e ↔ pendH s.pit i e := Iff.rfl

/-- per-node and cross-node uniqueness of entry ids -/
structure UniqH (h : PHeap) : Prop where
  nodup : ∀ (i : Nat) (l : List Pend), valAt h i = some l → (l.map (·.id)).Nodup
  cross : ∀ (i j : Nat) (e1 e2 : Pend), pendH h i e1 → pendH h j e2 → e1.id = e2.id → i = j ∧ e1 = e2

theorem Inv1.uniqH {s : St} (I : Inv1 s) : UniqH s.pit :=
  ⟨I.nodup, fun _ _ _ _ h1 h2 hid => I.uniq h1 h2 hid⟩

/-- heap `h'` has the same nodes as `h` with possibly fewer entries -/
structure Shrink (h h' : PHeap) : Prop where
  name : ∀ j : Nat, nameAt h' j = nameAt h j
  sub : ∀ (j : Nat) (l' : List Pend), valAt h' j = some l' → ∃ l, valAt h j = some l ∧ l'.Sublist l

theorem Shrink.refl (h : PHeap) : Shrink h h := ⟨fun _ => rfl, fun _ l' hl => ⟨l', hl, List.Sublist.refl _⟩⟩

theorem Shrink.trans {a b c : PHeap} (x : Shrink a b) (y : Shrink b c) : Shrink a c := by
  refine ⟨fun j => by rw [y.name, x.name], ?_⟩
  intro j l'' hl
  obtain ⟨l', h1, s1⟩ := y.sub j l'' hl
  obtain ⟨l, h2, s2⟩ := x.sub j l' h1
  exact ⟨l, h2, s1.trans s2⟩

theorem Shrink.pend {h h' : PHeap} (x : Shrink h h') {i : Nat} {e : Pend} (p : pendH h' i e) : pendH h i e := by
  obtain ⟨l', hl', he⟩ := p
  obtain ⟨l, hl, hs⟩ := x.sub i l' hl'
  exact ⟨l, hl, hs.subset he⟩

theorem UniqH.shrink {h h' : PHeap} (u : UniqH h) (x : Shrink h h') : UniqH h' := by
  refine ⟨?_, ?_⟩
  · intro i l' hl'
    obtain ⟨l, hl, hs⟩ := x.sub i l' hl'
    exact (u.nodup i l hl).sublist (hs.map _)
  · intro i j e1 e2 p1 p2 hid
    exact u.cross i j e1 e2 (x.pend p1) (x.pend p2) hid

/-- heaps that differ only in child lists -/
theorem shrink_of_core {h h' : PHeap} (c : ∀ j : Nat, coreAt h' j = coreAt h j) : Shrink h h' := by
  refine ⟨fun j => nameAt_of_core (c j), ?_⟩
  intro j l' hl'
  rw [valAt_of_core (c j)] at hl'
  exact ⟨l', hl', List.Sublist.refl _⟩

theorem pend_of_core {h h' : PHeap} (c : ∀ j : Nat, coreAt h' j = coreAt h j) (i : Nat) (e : Pend) :
    pendH h' i e ↔ pendH h i e := by
  unfold pendH; rw [valAt_of_core (c i)]

/-! ### replacing the entry list of one node by a filtered list -/

theorem filterNode_shrink {h : PHeap} {i : Nat} {n : TNode (List Pend)} (hi : h[i]? = some n)
    (q : Pend → Bool) : Shrink h (h.set i { n with val := n.val.filter q }) := by
  refine ⟨fun j => nameAt_setVal hi _ j, ?_⟩
  intro j l' hl'
  rw [valAt_setVal hi] at hl'
  by_cases hji : j = i
  · subst hji; simp at hl'; subst hl'
    exact ⟨n.val, by simp [valAt, hi], List.filter_sublist⟩
  · simp [hji] at hl'; exact ⟨l', hl', List.Sublist.refl _⟩

/-! ### the loop of onData -/

theorem dataWalk_spec (dataLen : Nat) (dig : Bytes) : ∀ (fuel : Nat) (h : PHeap) (cur : Nat) (acc : List Pend),
    WF h → UniqH h → (acc.map (·.id)).Nodup →
    (∀ a ∈ acc, ∀ (j : Nat) (e : Pend), pendH h j e → e.id ≠ a.id) →
    WF (dataWalk dataLen dig fuel h cur acc).1 ∧
    Shrink h (dataWalk dataLen dig fuel h cur acc).1 ∧
    (∀ (j : Nat) (e : Pend), pendH h j e →
        pendH (dataWalk dataLen dig fuel h cur acc).1 j e ∨ e ∈ (dataWalk dataLen dig fuel h cur acc).2) ∧
    (∀ e ∈ (dataWalk dataLen dig fuel h cur acc).2, e ∈ acc ∨
        ∃ (j : Nat) (nd : TNode (List Pend)), h[j]? = some nd ∧ e ∈ nd.val ∧
          satisfiedBy nd.dep dataLen dig e = true ∧
          ¬ pendH (dataWalk dataLen dig fuel h cur acc).1 j e ∧
          (∀ cn : Name, nameAt h cur = some cn → ∃ r, nd.name ++ r = cn)) ∧
    (∀ a ∈ acc, a ∈ (dataWalk dataLen dig fuel h cur acc).2) ∧
    ((dataWalk dataLen dig fuel h cur acc).2.map (·.id)).Nodup ∧
    (∀ a ∈ (dataWalk dataLen dig fuel h cur acc).2, ∀ (j : Nat) (e : Pend),
        pendH (dataWalk dataLen dig fuel h cur acc).1 j e → e.id ≠ a.id) := by
  intro fuel
  induction fuel with
  | zero =>
    intro h cur acc w u nd dj
    simp only [dataWalk]
    exact ⟨w, Shrink.refl h, fun j e p => Or.inl p, fun e he => Or.inl he, fun a ha => ha, nd, dj⟩
  | succ f ih =>
    intro h cur acc w u nd dj
    unfold dataWalk
    cases hc : h[cur]? with
    | none =>
      simp only
      exact ⟨w, Shrink.refl h, fun j e p => Or.inl p, fun e he => Or.inl he, fun a ha => ha, nd, dj⟩
    | some n =>
      simp only
      -- the heap after filtering node cur
      obtain ⟨q, hq⟩ : ∃ q : Pend → Bool, q = satisfiedBy n.dep dataLen dig := ⟨_, rfl⟩
      obtain ⟨h1, hh1⟩ : ∃ h1 : PHeap, h1 = h.set cur { n with val := n.val.filter fun p => !q p } := ⟨_, rfl⟩
      have hkeep : (List.filter (fun p => !satisfiedBy n.dep dataLen dig p) n.val) = n.val.filter fun p => !q p := by
        rw [hq]
      rw [hkeep, ← hq, ← hh1]
      have sh1 : Shrink h h1 := by rw [hh1]; exact filterNode_shrink hc _
      have w1 : WF h1 := by rw [hh1]; exact w.setVal hc _
      have u1 : UniqH h1 := u.shrink sh1
      have v1 : ∀ j : Nat, valAt h1 j = if j = cur then some (n.val.filter fun p => !q p) else valAt h j := by
        intro j; rw [hh1]; exact valAt_setVal hc _ j
      have hvc : valAt h cur = some n.val := by simp [valAt, hc]
      -- acc ++ sat
      have nd1 : ((acc ++ n.val.filter q).map (·.id)).Nodup := by
        rw [List.map_append, List.nodup_append]
        refine ⟨nd, ((u.nodup cur n.val hvc).sublist (List.filter_sublist.map _)), ?_⟩
        intro a ha b hb hab
        obtain ⟨a0, ha0, rfl⟩ := List.mem_map.mp ha
        obtain ⟨b0, hb0, rfl⟩ := List.mem_map.mp hb
        exact dj a0 ha0 cur b0 ⟨n.val, hvc, (List.mem_filter.mp hb0).1⟩ hab.symm
      have dj1 : ∀ a ∈ acc ++ n.val.filter q, ∀ (j : Nat) (e : Pend), pendH h1 j e → e.id ≠ a.id := by
        intro a ha j e pe hid
        rcases List.mem_append.mp ha with ha | ha
        · exact dj a ha j e (sh1.pend pe) hid
        · have pa : pendH h cur a := ⟨n.val, hvc, (List.mem_filter.mp ha).1⟩
          obtain ⟨hjc, hea⟩ := u.cross j cur e a (sh1.pend pe) pa hid
          subst hjc; subst hea
          obtain ⟨l, hl, hel⟩ := pe
          rw [v1] at hl; simp at hl; subst hl
          have := (List.mem_filter.mp hel).2
          have := (List.mem_filter.mp ha).2
          simp_all
      -- what a pending entry of h becomes in h1
      have step1 : ∀ (j : Nat) (e : Pend), pendH h j e → pendH h1 j e ∨ e ∈ n.val.filter q := by
        intro j e ⟨l, hl, he⟩
        by_cases hjc : j = cur
        · subst hjc; rw [hvc] at hl; cases hl
          by_cases hqe : q e = true
          · exact Or.inr (List.mem_filter.mpr ⟨he, hqe⟩)
          · exact Or.inl ⟨n.val.filter fun p => !q p, by rw [v1]; simp,
              List.mem_filter.mpr ⟨he, by simp [hqe]⟩⟩
        · exact Or.inl ⟨l, by rw [v1]; simp [hjc, hl], he⟩
      have satfacts : ∀ e ∈ n.val.filter q, ∀ hf : PHeap, Shrink h1 hf →
          ∃ (j : Nat) (nd0 : TNode (List Pend)), h[j]? = some nd0 ∧ e ∈ nd0.val ∧
            satisfiedBy nd0.dep dataLen dig e = true ∧ ¬ pendH hf j e ∧
            (∀ cn : Name, nameAt h cur = some cn → ∃ r, nd0.name ++ r = cn) := by
        intro e he hf shf
        refine ⟨cur, n, hc, (List.mem_filter.mp he).1, by rw [← hq]; exact (List.mem_filter.mp he).2, ?_, ?_⟩
        · intro pf
          obtain ⟨l, hl, hel⟩ := shf.pend pf
          rw [v1] at hl; simp at hl; subst hl
          have := (List.mem_filter.mp hel).2
          have := (List.mem_filter.mp he).2
          simp_all
        · intro cn hcn
          simp [nameAt, hc] at hcn
          exact ⟨[], by simp [hcn]⟩
      cases hp : n.par with
      | none =>
        simp only
        refine ⟨w1, sh1, ?_, ?_, fun a ha => List.mem_append_left _ ha, nd1, dj1⟩
        · intro j e pe
          rcases step1 j e pe with h' | h'
          · exact Or.inl h'
          · exact Or.inr (List.mem_append_right _ h')
        · intro e he
          rcases List.mem_append.mp he with he | he
          · exact Or.inl he
          · exact Or.inr (satfacts e he h1 (Shrink.refl h1))
      | some p =>
        simp only
        obtain ⟨a1, a2, a3, a4, a5, a6, a7⟩ := ih h1 p (acc ++ n.val.filter q) w1 u1 nd1 dj1
        refine ⟨a1, sh1.trans a2, ?_, ?_, fun a ha => a5 a (List.mem_append_left _ ha), a6, a7⟩
        · intro j e pe
          rcases step1 j e pe with h' | h'
          · exact a3 j e h'
          · exact Or.inr (a5 e (List.mem_append_right _ h'))
        · intro e he
          rcases a4 e he with h' | ⟨j, nd0, b1, b2, b3, b4, b5⟩
          · rcases List.mem_append.mp h' with h'' | h''
            · exact Or.inl h''
            · exact Or.inr (satfacts e h'' _ a2)
          · -- a node visited later, seen in h1: translate back to h
            right
            obtain ⟨_, pn, hpn, _, hnm⟩ := w.par cur n p hc hp
            have hname : ∀ cn : Name, nameAt h cur = some cn → ∃ r, nd0.name ++ r = cn := by
              intro cn hcn
              simp [nameAt, hc] at hcn
              have hp1 : nameAt h1 p = some pn.name := by rw [sh1.name]; simp [nameAt, hpn]
              obtain ⟨r, hr⟩ := b5 pn.name hp1
              exact ⟨r ++ [n.key], by rw [← hcn, hnm, ← hr]; simp⟩
            by_cases hjc : j = cur
            · subst hjc
              rw [hh1, get_set hc] at b1; simp at b1; subst b1
              exact ⟨j, n, hc, (List.mem_filter.mp b2).1, b3, b4, hname⟩
            · rw [hh1, get_set hc] at b1; simp [hjc] at b1
              exact ⟨j, nd0, b1, b2, b3, b4, hname⟩

end Ndn.C20
