/-
  C20 — the handler trie (application FIB): the trie holds exactly the handler table defined by the
  registration history, every handler node is attached, and the walk of onInterest finds the
  longest registered prefix.
-/
import NdnVerif.C20.LemmasLive
namespace Ndn.C20

abbrev FHeap := Heap (Option Nat)

/-! ### Spec.lpm -/

theorem lpm_foldl (name : Name) : ∀ (l : List (Name × Nat)) (best : Option (Name × Nat)),
    (∀ b, best = some b → Spec.isPre b.1 name = true) →
    let r := l.foldl (fun best e =>
      if Spec.isPre e.1 name then
        match best with
        | none => some e
        | some b => if b.1.length < e.1.length then some e else some b
      else best) best
    (∀ b, r = some b → (best = some b ∨ b ∈ l) ∧ Spec.isPre b.1 name = true ∧
        (∀ e ∈ l, Spec.isPre e.1 name = true → e.1.length ≤ b.1.length) ∧
        (∀ b0, best = some b0 → b0.1.length ≤ b.1.length)) ∧
    (r = none → best = none ∧ ∀ e ∈ l, Spec.isPre e.1 name = false) := by
  intro l
  induction l with
  | nil =>
    intro best hb
    simp only [List.foldl_nil]
    refine ⟨?_, ?_⟩
    · intro b h
      refine ⟨Or.inl h, hb b h, ?_, ?_⟩
      · intro e he; cases he
      · intro b0 h0; rw [h] at h0; cases h0; exact Nat.le_refl _
    · intro h
      refine ⟨h, ?_⟩
      intro e he; cases he
  | cons e rest ih =>
    intro best hb
    simp only [List.foldl_cons]
    by_cases hp : Spec.isPre e.1 name = true
    · simp only [hp, if_true]
      cases hbest : best with
      | none =>
        simp only
        obtain ⟨i1, i2⟩ := ih (some e) (fun b h => by cases h; exact hp)
        refine ⟨?_, ?_⟩
        · intro b hr
          obtain ⟨j1, j2, j3, j4⟩ := i1 b hr
          refine ⟨?_, j2, ?_, fun b0 h0 => by cases h0⟩
          · rcases j1 with j1 | j1
            · cases j1; exact Or.inr List.mem_cons_self
            · exact Or.inr (List.mem_cons_of_mem _ j1)
          · intro e' he' hp'
            rcases List.mem_cons.mp he' with rfl | he'
            · exact j4 e' rfl
            · exact j3 e' he' hp'
        · intro hr; obtain ⟨j1, _⟩ := i2 hr; cases j1
      | some b0 =>
        simp only
        by_cases hlt : b0.1.length < e.1.length
        · simp only [hlt, if_true]
          obtain ⟨i1, i2⟩ := ih (some e) (fun b h => by cases h; exact hp)
          refine ⟨?_, ?_⟩
          · intro b hr
            obtain ⟨j1, j2, j3, j4⟩ := i1 b hr
            refine ⟨?_, j2, ?_, ?_⟩
            · rcases j1 with j1 | j1
              · cases j1; exact Or.inr List.mem_cons_self
              · exact Or.inr (List.mem_cons_of_mem _ j1)
            · intro e' he' hp'
              rcases List.mem_cons.mp he' with rfl | he'
              · exact j4 e' rfl
              · exact j3 e' he' hp'
            · intro b1 h1; cases h1; have := j4 e rfl; omega
          · intro hr; obtain ⟨j1, _⟩ := i2 hr; cases j1
        · simp only [hlt, if_false]
          obtain ⟨i1, i2⟩ := ih (some b0) (fun b h => by cases h; exact hb b0 hbest)
          refine ⟨?_, ?_⟩
          · intro b hr
            obtain ⟨j1, j2, j3, j4⟩ := i1 b hr
            refine ⟨?_, j2, ?_, ?_⟩
            · rcases j1 with j1 | j1
              · exact Or.inl j1
              · exact Or.inr (List.mem_cons_of_mem _ j1)
            · intro e' he' hp'
              rcases List.mem_cons.mp he' with rfl | he'
              · have := j4 b0 rfl; omega
              · exact j3 e' he' hp'
            · intro b1 h1; cases h1; exact j4 b0 rfl
          · intro hr; obtain ⟨j1, _⟩ := i2 hr; cases j1
    · have hp' : Spec.isPre e.1 name = false := by simpa using hp
      simp only [hp', Bool.false_eq_true, if_false]
      obtain ⟨i1, i2⟩ := ih best hb
      refine ⟨?_, ?_⟩
      · intro b hr
        obtain ⟨j1, j2, j3, j4⟩ := i1 b hr
        refine ⟨?_, j2, ?_, j4⟩
        · rcases j1 with j1 | j1
          · exact Or.inl j1
          · exact Or.inr (List.mem_cons_of_mem _ j1)
        · intro e' he' hpe
          rcases List.mem_cons.mp he' with rfl | he'
          · rw [hp'] at hpe; cases hpe
          · exact j3 e' he' hpe
      · intro hr
        obtain ⟨j1, j2⟩ := i2 hr
        refine ⟨j1, ?_⟩
        intro e' he'
        rcases List.mem_cons.mp he' with rfl | he'
        · exact hp'
        · exact j2 e' he'

theorem lpm_some {hs : List (Name × Nat)} {name : Name} {b : Name × Nat} (h : Spec.lpm hs name = some b) :
    b ∈ hs ∧ Spec.isPre b.1 name = true ∧ ∀ e ∈ hs, Spec.isPre e.1 name = true → e.1.length ≤ b.1.length := by
  obtain ⟨i1, _⟩ := lpm_foldl name hs none (fun b h => by cases h)
  obtain ⟨j1, j2, j3, _⟩ := i1 b h
  rcases j1 with j1 | j1
  · cases j1
  · exact ⟨j1, j2, j3⟩

theorem lpm_none {hs : List (Name × Nat)} {name : Name} (h : Spec.lpm hs name = none) :
    ∀ e ∈ hs, Spec.isPre e.1 name = false :=
  ((lpm_foldl name hs none (fun b h => by cases h)).2 h).2

/-! ### the invariant of the handler trie -/

structure Inv3 (s : St) : Prop where
  wf : WF s.fib
  val_att : ∀ (i : Nat) (n : TNode (Option Nat)) (v : Nat), s.fib[i]? = some n → n.val = some v →
      Att s.fib i ∧ (n.name, v) ∈ s.hs
  hs_node : ∀ (nm : Name) (v : Nat), (nm, v) ∈ s.hs →
      ∃ (i : Nat) (n : TNode (Option Nat)), s.fib[i]? = some n ∧ n.name = nm ∧ n.val = some v
  nodup : (s.hs.map (·.1)).Nodup

theorem att_unique {V : Type} {h : Heap V} {i j : Nat} {ni nj : TNode V} (ai : Att h i) (aj : Att h j)
    (hi : h[i]? = some ni) (hj : h[j]? = some nj) (hn : ni.name = nj.name) : i = j := by
  obtain ⟨ni', hi', di⟩ := ai
  obtain ⟨nj', hj', dj⟩ := aj
  rw [hi] at hi'; cases hi'
  rw [hj] at hj'; cases hj'
  rw [hn, dj] at di
  exact (Prod.mk.inj di).1.symm

theorem core_get {V : Type} {h h' : Heap V} {j : Nat} (e : coreAt h' j = coreAt h j) {m0 : TNode V}
    (hj : h[j]? = some m0) : ∃ m : TNode V, h'[j]? = some m ∧ m.name = m0.name ∧ m.val = m0.val := by
  unfold coreAt at e
  rw [hj] at e
  cases h1 : h'[j]? with
  | none => simp [h1] at e
  | some m => simp [h1] at e; exact ⟨m, rfl, e.2.2.2.1, e.2.2.2.2⟩

theorem core_get' {V : Type} {h h' : Heap V} {j : Nat} (e : coreAt h' j = coreAt h j) {m : TNode V}
    (hj : h'[j]? = some m) : ∃ m0 : TNode V, h[j]? = some m0 ∧ m.name = m0.name ∧ m.val = m0.val := by
  obtain ⟨m0, a, b, c⟩ := core_get e.symm hj
  exact ⟨m0, a, b.symm, c.symm⟩

theorem Inv3.init : Inv3 St.init := by
  refine ⟨WF.newTrie _, ?_, ?_, List.nodup_nil⟩
  · intro i n v hi hv
    cases i with
    | zero => simp [St.init, newTrie] at hi; subst hi; simp at hv
    | succ i => simp [St.init, newTrie] at hi
  · intro nm v h; simp [St.init] at h

theorem exactMatch_att {V : Type} {h : Heap V} (w : WF h) {p : Name} {n : Nat} (hm : exactMatch h p = some n) :
    ∃ nk : TNode V, h[n]? = some nk ∧ nk.name = p ∧ Att h n := by
  obtain ⟨r, hr, _, _, hrn⟩ := w.root
  obtain ⟨nk, h1, h2⟩ := descend_spec w p 0 r hr
  unfold exactMatch at hm
  cases hd : descend h 0 p with
  | mk k rest =>
    rw [hd] at hm h1 h2
    cases rest with
    | cons c t => simp at hm
    | nil =>
      simp at hm; subst hm
      simp [hrn] at h2
      exact ⟨nk, h1, h2, nk, h1, by rw [h2]; exact hd⟩

theorem exactMatch_of_att {V : Type} {h : Heap V} {i : Nat} {ni : TNode V} (a : Att h i) (hi : h[i]? = some ni) :
    exactMatch h ni.name = some i := by
  obtain ⟨ni', hi', d⟩ := a
  rw [hi] at hi'; cases hi'
  simp [exactMatch, d]

theorem Inv3.attach {s : St} (I : Inv3 s) (p : Name) (hid : Nat) :
    Inv3 (step s (.attach p hid)).1 ∧ ((step s (.attach p hid)).2 = .dup ↔ p ∈ s.hs.map (·.1)) := by
  obtain ⟨a1, a2, a3, a4, nn, a5, a6⟩ := matchAlways_spec (none : Option Nat) I.wf p
  obtain ⟨b1, b2⟩ := matchAlways_att (none : Option Nat) I.wf p
  simp only [step]
  obtain ⟨fib1, hf⟩ : ∃ f : FHeap, f = (matchAlways none s.fib p).1 := ⟨_, rfl⟩
  obtain ⟨n, hn⟩ : ∃ n : Nat, n = (matchAlways none s.fib p).2 := ⟨_, rfl⟩
  rw [← hf, ← hn] at a5 b2
  rw [← hf] at a1 a2 a3 a4 b1
  rw [← hf, ← hn]
  have hgv : getVal none fib1 n = nn.val := by simp [getVal, a5]
  -- nodes with a value in fib1 are old nodes
  have old : ∀ (i : Nat) (m : TNode (Option Nat)) (v : Nat), fib1[i]? = some m → m.val = some v →
      ∃ m0 : TNode (Option Nat), s.fib[i]? = some m0 ∧ m.name = m0.name ∧ m0.val = some v := by
    intro i m v hi hv
    by_cases hlt : i < s.fib.length
    · obtain ⟨m0, c1, c2, c3⟩ := core_get' (a3 i hlt) hi
      exact ⟨m0, c1, c2, by rw [← c3, hv]⟩
    · have := a4 i (by omega) (lt_of_get hi)
      simp [valAt, hi, hv] at this
  have keys_iff : (∃ v, nn.val = some v) ↔ p ∈ s.hs.map (·.1) := by
    constructor
    · rintro ⟨v, hv⟩
      obtain ⟨m0, c1, c2, c3⟩ := old n nn v a5 hv
      have := (I.val_att n m0 v c1 c3).2
      rw [← c2, a6] at this
      exact List.mem_map.mpr ⟨(p, v), this, rfl⟩
    · intro hp
      obtain ⟨⟨q, v⟩, hq, rfl⟩ := List.mem_map.mp hp
      obtain ⟨i, m0, c1, c2, c3⟩ := I.hs_node q v hq
      obtain ⟨m, d1, d2, d3⟩ := core_get (a3 i (lt_of_get c1)) c1
      have ai := b1 i (I.val_att i m0 v c1 c3).1
      have : i = n := att_unique ai b2 d1 a5 (by rw [d2, c2, a6])
      subst this
      rw [a5] at d1; cases d1
      exact ⟨v, by rw [d3, c3]⟩
  cases hv : nn.val with
  | some v0 =>
    simp only [hgv, hv]
    refine ⟨⟨a1, ?_, ?_, I.nodup⟩, ?_⟩
    · intro i m v hi hmv
      obtain ⟨m0, c1, c2, c3⟩ := old i m v hi hmv
      obtain ⟨d1, d2⟩ := I.val_att i m0 v c1 c3
      exact ⟨b1 i d1, by rw [c2]; exact d2⟩
    · intro nm v hmem
      obtain ⟨i, m0, c1, c2, c3⟩ := I.hs_node nm v hmem
      obtain ⟨m, d1, d2, d3⟩ := core_get (a3 i (lt_of_get c1)) c1
      exact ⟨i, m, d1, by rw [d2, c2], by rw [d3, c3]⟩
    · simp only [true_iff]
      exact keys_iff.mp ⟨v0, hv⟩
  | none =>
    simp only [hgv, hv]
    have hnotin : p ∉ s.hs.map (·.1) := by
      intro hp; obtain ⟨v, hv'⟩ := keys_iff.mpr hp; rw [hv] at hv'; cases hv'
    have hsv : setVal fib1 n (some hid) = fib1.set n { nn with val := some hid } := by simp [setVal, a5]
    rw [hsv]
    refine ⟨⟨a1.setVal a5 _, ?_, ?_, ?_⟩, ?_⟩
    · intro i m v hi hmv
      change (fib1.set n { nn with val := some hid })[i]? = some m at hi
      rw [get_set a5] at hi
      show Att (fib1.set n _) i ∧ _ ∈ s.hs ++ [(p, hid)]
      rw [att_setVal a5]
      by_cases hin : i = n
      · subst hin
        simp at hi; subst hi
        simp at hmv; subst hmv
        exact ⟨b2, by simp [a6]⟩
      · simp [hin] at hi
        obtain ⟨m0, c1, c2, c3⟩ := old i m v hi hmv
        obtain ⟨d1, d2⟩ := I.val_att i m0 v c1 c3
        exact ⟨b1 i d1, by rw [c2]; exact List.mem_append_left _ d2⟩
    · intro nm v hmem
      change (nm, v) ∈ s.hs ++ [(p, hid)] at hmem
      show ∃ i m, (fib1.set n { nn with val := some hid })[i]? = some m ∧ _
      rcases List.mem_append.mp hmem with hmem | hmem
      · obtain ⟨i, m0, c1, c2, c3⟩ := I.hs_node nm v hmem
        obtain ⟨m, d1, d2, d3⟩ := core_get (a3 i (lt_of_get c1)) c1
        have hin : i ≠ n := by
          intro e; subst e; rw [a5] at d1; cases d1; rw [hv] at d3; rw [c3] at d3; cases d3
        exact ⟨i, m, by rw [get_set a5]; simp [hin, d1], by rw [d2, c2], by rw [d3, c3]⟩
      · simp at hmem
        obtain ⟨e1, e2⟩ := hmem
        exact ⟨n, { nn with val := some hid }, by rw [get_set a5]; simp, by rw [e1]; exact a6, by rw [e2]⟩
    · show ((s.hs ++ [(p, hid)]).map (·.1)).Nodup
      rw [List.map_append, List.nodup_append]
      refine ⟨I.nodup, by simp, ?_⟩
      intro a ha b hb hab
      simp at hb; subst hb; subst hab
      exact hnotin ha
    · constructor
      · intro h; cases h
      · intro h; exact absurd h hnotin

theorem Inv3.detach {s : St} (I : Inv3 s) (p : Name) :
    Inv3 (step s (.detach p)).1 ∧ ((step s (.detach p)).2 = .err ↔ p ∉ s.hs.map (·.1)) := by
  simp only [step]
  cases hm : exactMatch s.fib p with
  | none =>
    simp only
    refine ⟨I, ?_⟩
    simp only [true_iff]
    intro hp
    obtain ⟨⟨q, v⟩, hq, rfl⟩ := List.mem_map.mp hp
    obtain ⟨i, m0, c1, c2, c3⟩ := I.hs_node q v hq
    have := exactMatch_of_att (I.val_att i m0 v c1 c3).1 c1
    rw [c2] at this
    rw [hm] at this; cases this
  | some n =>
    simp only
    obtain ⟨nk, h1, h2, h3⟩ := exactMatch_att I.wf hm
    have hgv : getVal none s.fib n = nk.val := by simp [getVal, h1]
    rw [hgv]
    cases hv : nk.val with
    | none =>
      simp only
      refine ⟨I, ?_⟩
      simp only [true_iff]
      intro hp
      obtain ⟨⟨q, v⟩, hq, rfl⟩ := List.mem_map.mp hp
      obtain ⟨i, m0, c1, c2, c3⟩ := I.hs_node q v hq
      have : i = n := att_unique (I.val_att i m0 v c1 c3).1 h3 c1 h1 (by rw [c2, h2])
      subst this
      rw [h1] at c1; cases c1
      rw [hv] at c3; cases c3
    | some v0 =>
      simp only
      have hsv : setVal s.fib n none = s.fib.set n { nk with val := none } := by simp [setVal, h1]
      rw [hsv]
      obtain ⟨fib1, hf1⟩ : ∃ f : FHeap, f = s.fib.set n { nk with val := none } := ⟨_, rfl⟩
      rw [← hf1]
      have w1 : WF fib1 := by rw [hf1]; exact I.wf.setVal h1 _
      have core := fun j => prune_core isNoneH fib1 n j
      have g1 : ∀ j : Nat, fib1[j]? = if j = n then some { nk with val := none } else s.fib[j]? := by
        intro j; rw [hf1]; exact get_set h1 j
      refine ⟨⟨prune_wf _ _ _ w1, ?_, ?_, ?_⟩, ?_⟩
      · intro i m v hi hmv
        change (prune isNoneH fib1 n)[i]? = some m at hi
        show Att (prune isNoneH fib1 n) i ∧ _ ∈ s.hs.filter _
        obtain ⟨m1, c1, c2, c3⟩ := core_get' (core i) hi
        have hin : i ≠ n := by
          intro e; subst e; rw [g1] at c1; simp at c1; subst c1; simp at c3; rw [c3] at hmv; cases hmv
        have c1' : s.fib[i]? = some m1 := by rw [g1] at c1; simpa [hin] using c1
        obtain ⟨d1, d2⟩ := I.val_att i m1 v c1' (by rw [← c3, hmv])
        have att1 : Att fib1 i := by rw [hf1, att_setVal h1]; exact d1
        refine ⟨prune_att isNoneH fib1 n i m1 c1 (by rw [← c3, hmv]; rfl) att1, ?_⟩
        rw [List.mem_filter]
        refine ⟨by rw [c2]; exact d2, ?_⟩
        simp only [Bool.not_eq_eq_eq_not, Bool.not_true, decide_eq_false_iff_not]
        intro e
        exact hin (att_unique d1 h3 c1' h1 (by rw [← c2, e, h2]))
      · intro nm v hmem
        change (nm, v) ∈ s.hs.filter _ at hmem
        show ∃ i m, (prune isNoneH fib1 n)[i]? = some m ∧ _
        rw [List.mem_filter] at hmem
        obtain ⟨hmem, hne⟩ := hmem
        simp only [Bool.not_eq_eq_eq_not, Bool.not_true, decide_eq_false_iff_not] at hne
        obtain ⟨i, m0, c1, c2, c3⟩ := I.hs_node nm v hmem
        have hin : i ≠ n := by
          intro e; subst e; rw [h1] at c1; cases c1; exact hne (by rw [← c2, h2])
        have c1' : fib1[i]? = some m0 := by rw [g1]; simp [hin, c1]
        obtain ⟨m, d1, d2, d3⟩ := core_get (core i) c1'
        exact ⟨i, m, d1, by rw [d2, c2], by rw [d3, c3]⟩
      · show ((s.hs.filter _).map (·.1)).Nodup
        exact I.nodup.sublist (List.filter_sublist.map _)
      · constructor
        · intro h; cases h
        · intro hnot
          exfalso; apply hnot
          have := (I.val_att n nk v0 h1 hv).2
          rw [h2] at this
          exact List.mem_map.mpr ⟨(p, v0), this, rfl⟩

theorem Inv3.step {s : St} (I : Inv3 s) (op : Op) : Inv3 (step s op).1 := by
  have same : ∀ s' : St, s'.fib = s.fib → s'.hs = s.hs → Inv3 s' := by
    intro s' h1 h2
    exact ⟨by rw [h1]; exact I.wf, by rw [h1, h2]; exact I.val_att, by rw [h1, h2]; exact I.hs_node,
      by rw [h2]; exact I.nodup⟩
  cases op with
  | attach p hid => exact (I.attach p hid).1
  | detach p => exact (I.detach p).1
  | express final cbp life =>
    cases hl : final.getLast? with
    | none => simp only [C20.step, hl]; exact I
    | some last => simp only [C20.step, hl]; exact same _ rfl rfl
  | data name dig => rw [step_data_eq]; exact same _ rfl rfl
  | nack name =>
    simp only [C20.step]
    cases exactMatch s.pit (splitDigest name).2 with
    | none => exact I
    | some n => exact same _ rfl rfl
  | setTime t => exact same _ rfl rfl
  | timerStart k =>
    simp only [C20.step]
    cases s.timers[k]? with
    | none => exact I
    | some t => simp only; split <;> first | exact I | exact same _ rfl rfl
  | timerRun k =>
    simp only [C20.step]
    cases s.timers[k]? with
    | none => exact I
    | some t => simp only; split <;> first | exact I | exact same _ rfl rfl
  | interest name life => simp only [C20.step]; split <;> first | exact I | exact same _ rfl rfl
  | reply r =>
    simp only [C20.step]
    split
    · exact I
    · split <;> exact I

theorem Inv3.run : ∀ (ops : List Op) (s : St), Inv3 s → Inv3 (run s ops) := by
  intro ops
  induction ops with
  | nil => intro s a; exact a
  | cons op rest ih => intro s a; exact ih _ (a.step op)

/-! ### the walk of onInterest -/

theorem anc_dep {V : Type} {h : Heap V} (w : WF h) : ∀ (f cur j : Nat) (nj nc : TNode V), j ∈ anc h f cur →
    h[j]? = some nj → h[cur]? = some nc → nj.dep ≤ nc.dep ∧ ∃ r : Name, nj.name ++ r = nc.name := by
  intro f
  induction f with
  | zero => intro cur j nj nc hj; simp [anc] at hj
  | succ f ih =>
    intro cur j nj nc hj hnj hnc
    rw [anc] at hj
    rcases List.mem_cons.mp hj with rfl | hj
    · rw [hnj] at hnc; cases hnc; exact ⟨Nat.le_refl _, [], by simp⟩
    · have hpo : parOf h cur = nc.par := by simp [parOf, hnc]
      rw [hpo] at hj
      cases hp : nc.par with
      | none => simp [hp] at hj
      | some p =>
        simp only [hp] at hj
        obtain ⟨_, pn, hpn, hd, hn⟩ := w.par cur nc p hnc hp
        obtain ⟨i1, r, i2⟩ := ih p j nj pn hj hnj hpn
        exact ⟨by omega, r ++ [nc.key], by rw [hn, ← i2]; simp⟩

theorem handlerWalk_spec {h : FHeap} (w : WF h) : ∀ (f cur : Nat),
    (∀ v : Nat, handlerWalk f h cur = some v → ∃ (i : Nat) (n : TNode (Option Nat)), i ∈ anc h f cur ∧
      h[i]? = some n ∧ n.val = some v ∧
      ∀ (j : Nat) (nj : TNode (Option Nat)) (v' : Nat), j ∈ anc h f cur → h[j]? = some nj → nj.val = some v' →
        nj.dep ≤ n.dep) ∧
    (handlerWalk f h cur = none → ∀ (j : Nat) (nj : TNode (Option Nat)), j ∈ anc h f cur → h[j]? = some nj →
      nj.val = none) := by
  intro f
  induction f with
  | zero => intro cur; exact ⟨fun v h => by simp [handlerWalk] at h, fun _ j nj hj => by simp [anc] at hj⟩
  | succ f ih =>
    intro cur
    unfold handlerWalk
    cases hc : h[cur]? with
    | none =>
      simp only
      refine ⟨?_, ?_⟩
      · intro v h; cases h
      intro _ j nj hj hnj
      rw [anc] at hj
      have : parOf h cur = none := by simp [parOf, hc]
      rw [this] at hj; simp at hj; subst hj
      rw [hc] at hnj; cases hnj
    | some n =>
      simp only
      have hpo : parOf h cur = n.par := by simp [parOf, hc]
      cases hv : n.val with
      | some hid =>
        simp only
        refine ⟨?_, fun h => by cases h⟩
        intro v hvv; cases hvv
        refine ⟨cur, n, by rw [anc]; exact List.mem_cons_self, hc, hv, ?_⟩
        intro j nj v' hj hnj _
        exact (anc_dep w (f + 1) cur j nj n hj hnj hc).1
      | none =>
        simp only
        cases hp : n.par with
        | none =>
          simp only
          refine ⟨?_, ?_⟩
          · intro v h; cases h
          intro _ j nj hj hnj
          rw [anc, hpo, hp] at hj; simp at hj; subst hj
          rw [hc] at hnj; cases hnj; exact hv
        | some p =>
          simp only
          obtain ⟨i1, i2⟩ := ih p
          have hanc : anc h (f + 1) cur = cur :: anc h f p := by rw [anc, hpo, hp]
          refine ⟨?_, ?_⟩
          · intro v hvv
            obtain ⟨i, ni, a1, a2, a3, a4⟩ := i1 v hvv
            refine ⟨i, ni, by rw [hanc]; exact List.mem_cons_of_mem _ a1, a2, a3, ?_⟩
            intro j nj v' hj hnj hnv
            rw [hanc] at hj
            rcases List.mem_cons.mp hj with rfl | hj
            · rw [hc] at hnj; cases hnj; rw [hv] at hnv; cases hnv
            · exact a4 j nj v' hj hnj hnv
          · intro hnone j nj hj hnj
            rw [hanc] at hj
            rcases List.mem_cons.mp hj with rfl | hj
            · rw [hc] at hnj; cases hnj; exact hv
            · exact i2 hnone j nj hj hnj

theorem fst_inj_of_nodup {l : List (Name × Nat)} (nd : (l.map (·.1)).Nodup) {a b : Name × Nat}
    (ha : a ∈ l) (hb : b ∈ l) (h : a.1 = b.1) : a = b :=
  inj_of_nodup_map (·.1) l nd a b ha hb h

theorem prefix_eq_of_len {a b r1 r2 nm : Name} (h1 : a ++ r1 = nm) (h2 : b ++ r2 = nm)
    (hl : a.length = b.length) : a = b := by
  have := h1.trans h2.symm
  exact (List.append_inj this hl).1

/-- the handler found by onInterest is the one registered at the longest matching prefix -/
theorem lpm_correct {s : St} (I : Inv3 s) (name : Name) :
    handlerWalk (depOf s.fib (prefixMatch s.fib name) + 1) s.fib (prefixMatch s.fib name) =
      (Spec.lpm s.hs name).map (·.2) := by
  obtain ⟨r0, hr0, _, _, hrn⟩ := I.wf.root
  obtain ⟨nk, hk1, hk2⟩ := descend_spec I.wf name 0 r0 hr0
  obtain ⟨k, hk⟩ : ∃ k : Nat, k = prefixMatch s.fib name := ⟨_, rfl⟩
  have hk1' : s.fib[k]? = some nk := by rw [hk]; exact hk1
  have hk2' : nk.name ++ (descend s.fib 0 name).2 = name := by rw [hk2, hrn]; rfl
  rw [← hk]
  obtain ⟨w1, w2⟩ := handlerWalk_spec I.wf (depOf s.fib k + 1) k
  -- every registered prefix of `name` has its node on the walked chain
  have onchain : ∀ b ∈ s.hs, Spec.isPre b.1 name = true → ∃ (j : Nat) (nj : TNode (Option Nat)),
      j ∈ anc s.fib (depOf s.fib k + 1) k ∧ s.fib[j]? = some nj ∧ nj.name = b.1 ∧ nj.val = some b.2 := by
    intro b hb hp
    obtain ⟨j, nj, c1, c2, c3⟩ := I.hs_node b.1 b.2 hb
    obtain ⟨nj', c1', dj⟩ := (I.val_att j nj b.2 c1 c3).1
    rw [c1] at c1'; cases c1'
    obtain ⟨r, hr⟩ := (isPre_iff _ _).mp hp
    have := att_on_walk I.wf c1 dj r
    rw [c2, hr, ← hk] at this
    exact ⟨j, nj, this, c1, c2, c3⟩
  cases hw : handlerWalk (depOf s.fib k + 1) s.fib k with
  | none =>
    cases hl : Spec.lpm s.hs name with
    | none => rfl
    | some b =>
      obtain ⟨b1, b2, _⟩ := lpm_some hl
      obtain ⟨j, nj, c1, c2, _, c4⟩ := onchain b b1 b2
      have := w2 hw j nj c1 c2
      rw [c4] at this; cases this
  | some v =>
    obtain ⟨i, n, a1, a2, a3, a4⟩ := w1 v hw
    obtain ⟨_, hmem⟩ := I.val_att i n v a2 a3
    obtain ⟨_, r, hr⟩ := anc_dep I.wf _ k i n nk a1 a2 hk1'
    have hpre : n.name ++ (r ++ (descend s.fib 0 name).2) = name := by rw [← List.append_assoc, hr, hk2']
    have hisp : Spec.isPre n.name name = true := (isPre_iff _ _).mpr ⟨_, hpre⟩
    cases hl : Spec.lpm s.hs name with
    | none =>
      have := lpm_none hl (n.name, v) hmem
      simp only at this
      rw [hisp] at this; cases this
    | some b =>
      obtain ⟨b1, b2, b3⟩ := lpm_some hl
      obtain ⟨j, nj, c1, c2, c3, c4⟩ := onchain b b1 b2
      have l1 := b3 (n.name, v) hmem hisp
      have l2 := a4 j nj b.2 c1 c2 c4
      have d1 := I.wf.dep_eq i n a2
      have d2 := I.wf.dep_eq j nj c2
      simp only at l1
      obtain ⟨rb, hrb⟩ := (isPre_iff _ _).mp b2
      have hname : n.name = b.1 := prefix_eq_of_len hpre hrb (by rw [← c3] at l1 ⊢; omega)
      have : (n.name, v) = b := fst_inj_of_nodup I.nodup hmem b1 hname
      simp [← this]

end Ndn.C20
