/-
  C20 — the PIT invariant (every pending entry is owned by exactly one node, has a live timer and an
  `Express` record; every callback belongs to an entry that is gone) and its preservation.
-/
import NdnVerif.C20.LemmasTrie
import NdnVerif.C20.Spec
namespace Ndn.C20

/-! ### prefixes -/

theorem isPre_iff (a b : Name) : Spec.isPre a b = true ↔ ∃ r, a ++ r = b := by
  induction a generalizing b with
  | nil => simp [Spec.isPre]
  | cons x xs ih =>
    cases b with
    | nil => simp [Spec.isPre]
    | cons y ys =>
      simp only [Spec.isPre, Bool.and_eq_true, decide_eq_true_eq, ih, List.cons_append, List.cons.injEq]
      constructor
      · rintro ⟨rfl, r, hr⟩; exact ⟨r, rfl, hr⟩
      · rintro ⟨r, rfl, hr⟩; exact ⟨rfl, r, hr⟩

theorem inj_of_nodup_map {α β : Type} (f : α → β) : ∀ (l : List α), (l.map f).Nodup →
    ∀ a b : α, a ∈ l → b ∈ l → f a = f b → a = b := by
  intro l
  induction l with
  | nil => intro _ a b ha; cases ha
  | cons x t ih =>
    intro nd a b ha hb hab
    simp only [List.map_cons, List.nodup_cons, List.mem_map, not_exists, not_and] at nd
    rcases List.mem_cons.mp ha with rfl | ha' <;> rcases List.mem_cons.mp hb with rfl | hb'
    · rfl
    · exact absurd hab.symm (nd.1 b hb')
    · exact absurd hab (nd.1 a ha')
    · exact ih nd.2 a b ha' hb' hab

theorem lt_of_getElem? {α : Type} {l : List α} {i : Nat} {a : α} (h : l[i]? = some a) : i < l.length := by
  rcases List.getElem?_eq_some_iff.mp h with ⟨hl, _⟩; exact hl

/-! ### names of nodes -/

def nameAt {V : Type} (h : Heap V) (j : Nat) : Option Name := (h[j]?).map (·.name)
def depAt {V : Type} (h : Heap V) (j : Nat) : Option Nat := (h[j]?).map (·.dep)

theorem nameAt_of_core {V : Type} {h h' : Heap V} {j : Nat} (e : coreAt h' j = coreAt h j) :
    nameAt h' j = nameAt h j := by
  unfold coreAt at e; unfold nameAt
  cases h1 : h'[j]? <;> cases h2 : h[j]? <;> simp [h1, h2] at e ⊢
  exact e.2.2.2.1

theorem coreAt_setVal {V : Type} {h : Heap V} {i : Nat} {n : TNode V} (hi : h[i]? = some n) (v : V) (j : Nat)
    (hji : j ≠ i) : coreAt (h.set i { n with val := v }) j = coreAt h j := by
  unfold coreAt; rw [get_set hi]; simp [hji]

theorem nameAt_setVal {V : Type} {h : Heap V} {i : Nat} {n : TNode V} (hi : h[i]? = some n) (v : V) (j : Nat) :
    nameAt (h.set i { n with val := v }) j = nameAt h j := by
  unfold nameAt; rw [get_set hi]
  by_cases hji : j = i
  · subst hji; simp [hi]
  · simp [hji]

theorem valAt_setVal {V : Type} {h : Heap V} {i : Nat} {n : TNode V} (hi : h[i]? = some n) (v : V) (j : Nat) :
    valAt (h.set i { n with val := v }) j = if j = i then some v else valAt h j := by
  unfold valAt; rw [get_set hi]
  by_cases hji : j = i
  · subst hji; simp
  · simp [hji]

/-! ### the state invariant -/

def pendingAt (s : St) (i : Nat) (e : Pend) : Prop := ∃ l, valAt s.pit i = some l ∧ e ∈ l

structure Inv1 (s : St) : Prop where
  wf : WF s.pit
  len : s.exprs.length = s.timers.length
  exid : ∀ (k : Nat) (x : Expr), s.exprs[k]? = some x → x.id = k
  own : ∀ (i : Nat) (e : Pend), pendingAt s i e →
      e.tid = e.id ∧ ∃ (tm : Tmr) (x : Expr), s.timers[e.id]? = some tm ∧ tm.node = i ∧
        tm.fire = e.deadline + margin ∧ (tm.st = .armed ∨ (tm.st = .started ∧ tm.fire ≤ s.now)) ∧
        s.exprs[e.id]? = some x ∧ e.deadline = x.t + x.life ∧ x.cbp = e.cbp ∧ x.dig = e.dig ∧
        nameAt s.pit i = some x.node
  nodup : ∀ (i : Nat) (l : List Pend), valAt s.pit i = some l → (l.map (·.id)).Nodup
  cbs_nodup : (s.cbs.map (·.id)).Nodup
  cbs_done : ∀ c ∈ s.cbs, c.id < s.exprs.length ∧ ∀ (i : Nat) (e : Pend), pendingAt s i e → e.id ≠ c.id
  cover : ∀ id : Nat, id < s.exprs.length →
      (∃ c ∈ s.cbs, c.id = id) ∨ (∃ (i : Nat) (e : Pend), pendingAt s i e ∧ e.id = id)
  tout : ∀ c ∈ s.cbs, c.kind = .timeout → ∃ x : Expr, s.exprs[c.id]? = some x ∧ x.t + x.life ≤ c.t
  dsat : ∀ c ∈ s.cbs, ∀ (nm : Name) (dg : Bytes), c.kind = .data nm dg →
      ∃ x : Expr, s.exprs[c.id]? = some x ∧
        Spec.satisfies ⟨x.node, x.final, x.cbp, x.dig, x.t, x.life⟩ nm dg = true

/-- two pending entries with the same id are the same entry of the same node -/
theorem Inv1.uniq {s : St} (I : Inv1 s) {i j : Nat} {e1 e2 : Pend} (h1 : pendingAt s i e1)
    (h2 : pendingAt s j e2) (hid : e1.id = e2.id) : i = j ∧ e1 = e2 := by
  obtain ⟨_, tm1, _, ht1, hn1, _⟩ := I.own i e1 h1
  obtain ⟨_, tm2, _, ht2, hn2, _⟩ := I.own j e2 h2
  rw [hid, ht2] at ht1; cases ht1
  have hij : i = j := by rw [← hn1, ← hn2]
  subst hij
  refine ⟨rfl, ?_⟩
  obtain ⟨l1, hl1, m1⟩ := h1
  obtain ⟨l2, hl2, m2⟩ := h2
  rw [hl1] at hl2; cases hl2
  have nd := I.nodup i l1 hl1
  exact inj_of_nodup_map _ l1 nd e1 e2 m1 m2 hid

theorem Inv1.init : Inv1 St.init := by
  have hv : ∀ (i : Nat) (l : List Pend), valAt St.init.pit i = some l → l = [] := by
    intro i l h
    cases i with
    | zero => simp [valAt, St.init, newTrie] at h; exact h.symm ▸ rfl
    | succ i => simp [valAt, St.init, newTrie] at h
  refine ⟨WF.newTrie _, rfl, ?_, ?_, ?_, ?_, ?_, ?_, ?_, ?_⟩
  · intro k x h; simp [St.init] at h
  · rintro i e ⟨l, hl, he⟩; rw [hv i l hl] at he; cases he
  · intro i l hl; rw [hv i l hl]; exact List.nodup_nil
  · exact List.nodup_nil
  · intro c hc; simp [St.init] at hc
  · intro id hid; simp [St.init] at hid
  · intro c hc; simp [St.init] at hc
  · intro c hc; simp [St.init] at hc

/-! ### a resolution step: entries leave the PIT, each with one callback -/

structure Resolve (s s' : St) (new : List Cb) : Prop where
  now : s'.now = s.now
  exprs : s'.exprs = s.exprs
  cbs : s'.cbs = s.cbs ++ new
  wf : WF s'.pit
  name : ∀ j : Nat, nameAt s'.pit j = nameAt s.pit j
  sub : ∀ (j : Nat) (l' : List Pend), valAt s'.pit j = some l' →
      ∃ l, valAt s.pit j = some l ∧ l'.Sublist l
  kept_or_cb : ∀ (i : Nat) (e : Pend), pendingAt s i e → pendingAt s' i e ∨ ∃ c ∈ new, c.id = e.id
  cb_from : ∀ c ∈ new, c.t = s.now ∧ ∃ (i : Nat) (e : Pend), pendingAt s i e ∧ e.id = c.id ∧
      ¬ pendingAt s' i e ∧ (c.kind = .timeout → e.deadline ≤ s.now) ∧
      (∀ (nm : Name) (dg : Bytes), c.kind = .data nm dg → ∃ nn : Name, nameAt s.pit i = some nn ∧
          (if e.cbp then Spec.isPre nn nm = true else nn = nm) ∧
          (match e.dig with | some d => d = dg | none => True))
  new_nodup : (new.map (·.id)).Nodup
  tlen : s'.timers.length = s.timers.length
  tmr : ∀ (k : Nat) (tm : Tmr), s.timers[k]? = some tm → ∃ tm' : Tmr, s'.timers[k]? = some tm' ∧
      tm'.node = tm.node ∧ tm'.fire = tm.fire ∧
      (tm'.st = tm.st ∨ ∀ (i : Nat) (e : Pend), pendingAt s' i e → e.id ≠ k)

theorem pendingAt_mono {s s' : St} {new : List Cb} (R : Resolve s s' new) {i : Nat} {e : Pend}
    (h : pendingAt s' i e) : pendingAt s i e := by
  obtain ⟨l', hl', he⟩ := h
  obtain ⟨l, hl, hs⟩ := R.sub i l' hl'
  exact ⟨l, hl, hs.subset he⟩

theorem Inv1.resolve {s s' : St} {new : List Cb} (I : Inv1 s) (R : Resolve s s' new) : Inv1 s' := by
  -- an entry whose callback is in `new` is pending nowhere in s'
  have gone : ∀ c ∈ new, ∀ (i : Nat) (e : Pend), pendingAt s' i e → e.id ≠ c.id := by
    intro c hc i e he hid
    obtain ⟨_, i0, e0, hp0, hid0, hnp, _⟩ := R.cb_from c hc
    have hp := pendingAt_mono R he
    obtain ⟨hij, hee⟩ := I.uniq hp hp0 (by rw [hid, hid0])
    subst hij; subst hee
    exact hnp he
  refine ⟨R.wf, by rw [R.exprs, R.tlen]; exact I.len, by rw [R.exprs]; exact I.exid, ?_, ?_, ?_, ?_, ?_, ?_, ?_⟩
  · -- own
    intro i e he
    have hp := pendingAt_mono R he
    obtain ⟨h1, tm, x, ht, hn, hf, hst, hx, hd, hc, hg, hnm⟩ := I.own i e hp
    obtain ⟨tm', ht', hn', hf', hst'⟩ := R.tmr e.id tm ht
    refine ⟨h1, tm', x, ht', by rw [hn', hn], by rw [hf', hf], ?_, by rw [R.exprs]; exact hx, hd, hc, hg,
      by rw [R.name]; exact hnm⟩
    rcases hst' with h | h
    · rw [h, hf', R.now]; exact hst
    · exact absurd rfl (h i e he)
  · -- nodup
    intro i l' hl'
    obtain ⟨l, hl, hs⟩ := R.sub i l' hl'
    exact (I.nodup i l hl).sublist (hs.map _)
  · -- cbs_nodup
    rw [R.cbs, List.map_append, List.nodup_append]
    refine ⟨I.cbs_nodup, R.new_nodup, ?_⟩
    intro a ha b hb hab
    obtain ⟨c1, hc1, rfl⟩ := List.mem_map.mp ha
    obtain ⟨c2, hc2, rfl⟩ := List.mem_map.mp hb
    obtain ⟨_, i0, e0, hp0, hid0, _⟩ := R.cb_from c2 hc2
    exact (I.cbs_done c1 hc1).2 i0 e0 hp0 (by rw [hid0, hab])
  · -- cbs_done
    intro c hc
    rw [R.cbs, List.mem_append] at hc
    rw [R.exprs]
    rcases hc with hc | hc
    · refine ⟨(I.cbs_done c hc).1, ?_⟩
      intro i e he
      exact (I.cbs_done c hc).2 i e (pendingAt_mono R he)
    · obtain ⟨_, i0, e0, hp0, hid0, _⟩ := R.cb_from c hc
      obtain ⟨_, tm, x, _, _, _, _, hx, _⟩ := I.own i0 e0 hp0
      refine ⟨?_, gone c hc⟩
      rw [← hid0]
      exact lt_of_getElem? hx
  · -- cover
    intro id hid
    rw [R.exprs] at hid
    rcases I.cover id hid with ⟨c, hc, h⟩ | ⟨i, e, he, h⟩
    · exact Or.inl ⟨c, by rw [R.cbs]; exact List.mem_append_left _ hc, h⟩
    · rcases R.kept_or_cb i e he with h' | ⟨c, hc, h'⟩
      · exact Or.inr ⟨i, e, h', h⟩
      · exact Or.inl ⟨c, by rw [R.cbs]; exact List.mem_append_right _ hc, by rw [h', h]⟩
  · -- tout
    intro c hc hk
    rw [R.cbs, List.mem_append] at hc
    rw [R.exprs]
    rcases hc with hc | hc
    · exact I.tout c hc hk
    · obtain ⟨ht, i0, e0, hp0, hid0, _, hto, _⟩ := R.cb_from c hc
      obtain ⟨_, tm, x, _, _, _, _, hx, hd, _⟩ := I.own i0 e0 hp0
      refine ⟨x, by rw [← hid0]; exact hx, ?_⟩
      have := hto hk
      omega
  · -- dsat
    intro c hc nm dg hk
    rw [R.cbs, List.mem_append] at hc
    rw [R.exprs]
    rcases hc with hc | hc
    · exact I.dsat c hc nm dg hk
    · obtain ⟨_, i0, e0, hp0, hid0, _, _, hds⟩ := R.cb_from c hc
      obtain ⟨_, tm, x, _, _, _, _, hx, _, hcbp, hdig, hnm⟩ := I.own i0 e0 hp0
      obtain ⟨nn, hnn, h1, h2⟩ := hds nm dg hk
      rw [hnm] at hnn; cases hnn
      refine ⟨x, by rw [← hid0]; exact hx, ?_⟩
      simp only [Spec.satisfies, Bool.and_eq_true]
      constructor
      · rw [hcbp]
        cases hb : e0.cbp <;> simp [hb] at h1 ⊢ <;> exact h1
      · rw [hdig]
        cases hd : e0.dig <;> simp [hd] at h2 ⊢
        exact h2

end Ndn.C20
