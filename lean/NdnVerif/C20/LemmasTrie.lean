/-
  C20 — lemmas about the generic heap trie (simple_trie.go model): well-formedness and its
  preservation by every trie operation, what the operations do to node values.
-/
import NdnVerif.C20.Model
namespace Ndn.C20

variable {V : Type}

/-! ### association lists -/

theorem alookup_aerase (c k : Component) (l : List (Component × Nat)) :
    alookup c (aerase k l) = if c = k then none else alookup c l := by
  induction l with
  | nil => simp [aerase, alookup]
  | cons x t ih =>
    obtain ⟨a, v⟩ := x
    by_cases hak : a = k
    · subst hak
      simp only [aerase, if_true, ih, alookup]
      by_cases hc : c = a
      · simp [hc]
      · have : ¬ a = c := fun h => hc h.symm
        simp [hc, this]
    · simp only [aerase, hak, if_false, alookup, ih]
      by_cases hac : a = c
      · subst hac; simp [hak]
      · simp [hac]

/-! ### reading the heap after `set` -/

theorem get_set {h : Heap V} {i : Nat} {n m : TNode V} (hi : h[i]? = some n) (j : Nat) :
    (h.set i m)[j]? = if j = i then some m else h[j]? := by
  have hlt : i < h.length := by
    rcases List.getElem?_eq_some_iff.mp hi with ⟨hl, _⟩; exact hl
  rw [List.getElem?_set]
  by_cases hji : j = i
  · subst hji; simp [hlt]
  · have : ¬ i = j := fun e => hji e.symm
    simp [hji, this]

theorem lt_of_get {h : Heap V} {i : Nat} {n : TNode V} (hi : h[i]? = some n) : i < h.length := by
  rcases List.getElem?_eq_some_iff.mp hi with ⟨hl, _⟩; exact hl

/-- value of node `i`, if it exists -/
def valAt (h : Heap V) (i : Nat) : Option V := (h[i]?).map (·.val)

/-! ### well-formed heaps -/

structure WF (h : Heap V) : Prop where
  root : ∃ r, h[0]? = some r ∧ r.par = none ∧ r.dep = 0 ∧ r.name = []
  par : ∀ (i : Nat) (n : TNode V) (p : Nat), h[i]? = some n → n.par = some p →
    p < i ∧ ∃ pn, h[p]? = some pn ∧ n.dep = pn.dep + 1 ∧ n.name = pn.name ++ [n.key]
  top : ∀ (i : Nat) (n : TNode V), h[i]? = some n → n.par = none → i = 0
  chd : ∀ (i : Nat) (n : TNode V) (c : Component) (j : Nat), h[i]? = some n → alookup c n.chd = some j →
    ∃ m, h[j]? = some m ∧ m.par = some i ∧ m.key = c

theorem WF.newTrie (z : V) : WF (newTrie z) := by
  refine ⟨⟨_, rfl, rfl, rfl, rfl⟩, ?_, ?_, ?_⟩
  · intro i n p hi hp
    cases i with
    | zero => simp [C20.newTrie] at hi; subst hi; simp at hp
    | succ i => simp [C20.newTrie] at hi
  · intro i n hi _
    cases i with
    | zero => rfl
    | succ i => simp [C20.newTrie] at hi
  · intro i n c j hi hl
    cases i with
    | zero => simp [C20.newTrie] at hi; subst hi; simp [alookup] at hl
    | succ i => simp [C20.newTrie] at hi

/-- `dep` is the length of the name -/
theorem WF.dep_eq {h : Heap V} (w : WF h) : ∀ (i : Nat) (n : TNode V), h[i]? = some n → n.dep = n.name.length := by
  intro i
  induction i using Nat.strongRecOn with
  | _ i ih =>
    intro n hi
    cases hp : n.par with
    | none =>
      have := w.top i n hi hp
      subst this
      obtain ⟨r, hr, _, hd, hn⟩ := w.root
      rw [hi] at hr; cases hr
      simp [hd, hn]
    | some p =>
      obtain ⟨hlt, pn, hpn, hd, hn⟩ := w.par i n p hi hp
      have := ih p hlt pn hpn
      simp [hd, hn, this]

/-- replacing a node by one with the same key/parent/depth/name and no new child links keeps the
    heap well-formed -/
theorem WF.setNode {h : Heap V} (w : WF h) {i : Nat} {n m : TNode V} (hi : h[i]? = some n)
    (hk : m.key = n.key) (hp : m.par = n.par) (hd : m.dep = n.dep) (hn : m.name = n.name)
    (hc : ∀ c j, alookup c m.chd = some j → alookup c n.chd = some j) :
    WF (h.set i m) := by
  have g := fun j => get_set (m := m) hi j
  -- every old node has a counterpart with the same immutable part
  have cp : ∀ (j : Nat) (x : TNode V), h[j]? = some x →
      ∃ y : TNode V, (h.set i m)[j]? = some y ∧ y.key = x.key ∧ y.par = x.par ∧ y.dep = x.dep ∧ y.name = x.name := by
    intro j x hj
    by_cases hji : j = i
    · subst hji; rw [hi] at hj; cases hj
      exact ⟨m, by rw [g]; simp, hk, hp, hd, hn⟩
    · exact ⟨x, by rw [g]; simp [hji, hj], rfl, rfl, rfl, rfl⟩
  -- every new node comes from an old one
  have pc : ∀ (j : Nat) (y : TNode V), (h.set i m)[j]? = some y →
      ∃ x : TNode V, h[j]? = some x ∧ y.key = x.key ∧ y.par = x.par ∧ y.dep = x.dep ∧ y.name = x.name ∧
        (∀ c k, alookup c y.chd = some k → alookup c x.chd = some k) := by
    intro j y hj
    rw [g] at hj
    by_cases hji : j = i
    · subst hji; simp at hj; subst hj
      exact ⟨n, hi, hk, hp, hd, hn, hc⟩
    · simp [hji] at hj
      exact ⟨y, hj, rfl, rfl, rfl, rfl, fun _ _ h => h⟩
  refine ⟨?_, ?_, ?_, ?_⟩
  · obtain ⟨r, hr, h1, h2, h3⟩ := w.root
    obtain ⟨y, hy, _, e2, e3, e4⟩ := cp 0 r hr
    exact ⟨y, hy, by rw [e2, h1], by rw [e3, h2], by rw [e4, h3]⟩
  · intro j y p hj hyp
    obtain ⟨x, hx, e1, e2, e3, e4, _⟩ := pc j y hj
    obtain ⟨hlt, pn, hpn, hd', hn'⟩ := w.par j x p hx (by rw [← e2, hyp])
    obtain ⟨pn', hpn', _, _, f3, f4⟩ := cp p pn hpn
    exact ⟨hlt, pn', hpn', by rw [e3, hd', f3], by rw [e4, hn', f4, e1]⟩
  · intro j y hj hyp
    obtain ⟨x, hx, _, e2, _, _, _⟩ := pc j y hj
    exact w.top j x hx (by rw [← e2, hyp])
  · intro j y c k hj hl
    obtain ⟨x, hx, _, _, _, _, e5⟩ := pc j y hj
    obtain ⟨m', hm', h1, h2⟩ := w.chd j x c k hx (e5 c k hl)
    obtain ⟨m'', hm'', f1, f2, _, _⟩ := cp k m' hm'
    exact ⟨m'', hm'', by rw [f2, h1], by rw [f1, h2]⟩

theorem WF.setVal {h : Heap V} (w : WF h) {i : Nat} {n : TNode V} (hi : h[i]? = some n) (v : V) :
    WF (h.set i { n with val := v }) :=
  w.setNode hi rfl rfl rfl rfl (fun _ _ h => h)

theorem WF.setChd {h : Heap V} (w : WF h) {i : Nat} {n : TNode V} (hi : h[i]? = some n)
    (c' : List (Component × Nat)) (hc : ∀ c j, alookup c c' = some j → alookup c n.chd = some j) :
    WF (h.set i { n with chd := c' }) :=
  w.setNode hi rfl rfl rfl rfl hc

/-! ### what the operations keep: everything but the child list -/

/-- key, parent, depth, name and value of node `j` -/
def coreAt (h : Heap V) (j : Nat) : Option (Component × Option Nat × Nat × Name × V) :=
  (h[j]?).map fun n => (n.key, n.par, n.dep, n.name, n.val)

theorem valAt_of_core {h h' : Heap V} {j : Nat} (e : coreAt h' j = coreAt h j) : valAt h' j = valAt h j := by
  unfold coreAt at e; unfold valAt
  cases h1 : h'[j]? <;> cases h2 : h[j]? <;> simp [h1, h2] at e ⊢
  exact e.2.2.2.2

theorem coreAt_setChd {h : Heap V} {i : Nat} {n : TNode V} (hi : h[i]? = some n)
    (c' : List (Component × Nat)) (j : Nat) : coreAt (h.set i { n with chd := c' }) j = coreAt h j := by
  unfold coreAt
  rw [get_set hi]
  by_cases hji : j = i
  · subst hji; simp [hi]
  · simp [hji]

theorem deleteIf_length (pred : V → Bool) : ∀ (fuel : Nat) (h : Heap V) (i : Nat),
    (deleteIf pred fuel h i).length = h.length := by
  intro fuel
  induction fuel with
  | zero => intro h i; rfl
  | succ f ih =>
    intro h i
    unfold deleteIf
    split
    · rfl
    · split
      · rfl
      · split
        · rfl
        · split
          · rfl
          · split
            · rw [ih]; simp
            · rfl

theorem deleteIf_core (pred : V → Bool) : ∀ (fuel : Nat) (h : Heap V) (i j : Nat),
    coreAt (deleteIf pred fuel h i) j = coreAt h j := by
  intro fuel
  induction fuel with
  | zero => intro h i j; rfl
  | succ f ih =>
    intro h i j
    unfold deleteIf
    split
    · rfl
    · split
      · rfl
      · split
        · rfl
        · split
          · rfl
          · rename_i p _ pn hpn
            split
            · rw [ih, coreAt_setChd hpn]
            · rfl

theorem deleteIf_wf (pred : V → Bool) : ∀ (fuel : Nat) (h : Heap V) (i : Nat), WF h →
    WF (deleteIf pred fuel h i) := by
  intro fuel
  induction fuel with
  | zero => intro h i w; exact w
  | succ f ih =>
    intro h i w
    unfold deleteIf
    split
    · exact w
    · split
      · exact w
      · split
        · exact w
        · split
          · exact w
          · rename_i p _ pn hpn
            split
            · apply ih
              apply w.setChd hpn
              intro c j hl
              rw [alookup_aerase] at hl
              split at hl
              · cases hl
              · exact hl
            · exact w

theorem prune_core (pred : V → Bool) (h : Heap V) (i j : Nat) : coreAt (prune pred h i) j = coreAt h j :=
  deleteIf_core pred _ h i j
theorem prune_wf (pred : V → Bool) (h : Heap V) (i : Nat) (w : WF h) : WF (prune pred h i) :=
  deleteIf_wf pred _ h i w
theorem prune_length (pred : V → Bool) (h : Heap V) (i : Nat) : (prune pred h i).length = h.length :=
  deleteIf_length pred _ h i

/-! ### descend -/

theorem descend_spec {h : Heap V} (w : WF h) : ∀ (nm : Name) (i : Nat) (ni : TNode V), h[i]? = some ni →
    ∃ nk : TNode V, h[(descend h i nm).1]? = some nk ∧ nk.name ++ (descend h i nm).2 = ni.name ++ nm := by
  intro nm
  induction nm with
  | nil => intro i ni hi; exact ⟨ni, by simp [descend, hi], by simp [descend]⟩
  | cons c rest ih =>
    intro i ni hi
    unfold descend
    rw [hi]
    simp only
    cases hl : alookup c ni.chd with
    | none => exact ⟨ni, hi, rfl⟩
    | some j =>
      simp only
      obtain ⟨m, hm, hp, hk⟩ := w.chd i ni c j hi hl
      obtain ⟨nk, h1, h2⟩ := ih j m hm
      refine ⟨nk, h1, ?_⟩
      rw [h2]
      obtain ⟨_, pn, hpn, _, hn⟩ := w.par j m i hm hp
      rw [hi] at hpn; cases hpn
      rw [hn, hk]; simp

/-! ### create / matchAlways -/

theorem create_spec (z : V) : ∀ (nm : Name) (h : Heap V) (i : Nat) (ni : TNode V), WF h → h[i]? = some ni →
    WF (create z h i nm).1 ∧ h.length ≤ (create z h i nm).1.length ∧
    (∀ j : Nat, j < h.length → coreAt (create z h i nm).1 j = coreAt h j) ∧
    (∀ j : Nat, h.length ≤ j → j < (create z h i nm).1.length → valAt (create z h i nm).1 j = some z) ∧
    (∃ nn : TNode V, (create z h i nm).1[(create z h i nm).2]? = some nn ∧ nn.name = ni.name ++ nm) := by
  intro nm
  induction nm with
  | nil =>
    intro h i ni w hi
    refine ⟨w, Nat.le_refl _, fun _ _ => rfl, fun j h1 h2 => ?_, ni, hi, by simp⟩
    simp only [create] at h2; omega
  | cons c rest ih =>
    intro h i ni w hi
    unfold create
    rw [hi]
    simp only
    have hlt := lt_of_get hi
    -- the heap after linking and appending the new node
    obtain ⟨nn, hnnd⟩ : ∃ nn : TNode V, nn = ⟨c, some i, ni.dep + 1, ni.name ++ [c], [], z⟩ := ⟨_, rfl⟩
    obtain ⟨h1, hh1⟩ : ∃ h1 : Heap V, h1 = (h.set i { ni with chd := (c, h.length) :: ni.chd }) ++ [nn] :=
      ⟨_, rfl⟩
    rw [← hnnd, ← hh1]
    have g1 : ∀ j : Nat, h1[j]? = if j = h.length then some nn
        else if j = i then some { ni with chd := (c, h.length) :: ni.chd } else h[j]? := by
      intro j
      rw [hh1, List.getElem?_append]
      simp only [List.length_set]
      by_cases hj : j < h.length
      · have : ¬ j = h.length := by omega
        simp only [hj, if_true, this, if_false]
        rw [get_set hi]
      · by_cases hj2 : j = h.length
        · subst hj2; simp
        · have : h.length ≤ j := by omega
          have hne : ¬ j = i := by omega
          simp [hj, hj2, hne]
          omega
    have hl1 : h1.length = h.length + 1 := by simp [hh1]
    have w1 : WF h1 := by
      refine ⟨?_, ?_, ?_, ?_⟩
      · obtain ⟨r, hr, a1, a2, a3⟩ := w.root
        have h0 : ¬ 0 = h.length := by omega
        by_cases h0i : 0 = i
        · subst h0i; rw [hi] at hr; cases hr
          exact ⟨{ ni with chd := (c, h.length) :: ni.chd }, by rw [g1]; simp [h0], a1, a2, a3⟩
        · exact ⟨r, by rw [g1]; simp [h0, h0i, hr], a1, a2, a3⟩
      · intro j y p hj hyp
        rw [g1] at hj
        by_cases hjl : j = h.length
        · subst hjl; simp at hj; subst hj
          simp [hnnd] at hyp; subst hyp
          refine ⟨hlt, { ni with chd := (c, h.length) :: ni.chd }, ?_, by simp [hnnd], by simp [hnnd]⟩
          rw [g1]; have : ¬ i = h.length := by omega
          simp [this]
        · simp only [hjl, if_false] at hj
          have old : ∀ x : TNode V, h[j]? = some x → x.par = some p →
              p < j ∧ ∃ pn : TNode V, h1[p]? = some pn ∧ x.dep = pn.dep + 1 ∧ x.name = pn.name ++ [x.key] := by
            intro x hx hxp
            obtain ⟨hlt', pn, hpn, hd, hn⟩ := w.par j x p hx hxp
            refine ⟨hlt', ?_⟩
            have hpl : ¬ p = h.length := by have := lt_of_get hpn; omega
            by_cases hpi : p = i
            · subst hpi; rw [hi] at hpn; cases hpn
              exact ⟨{ ni with chd := (c, h.length) :: ni.chd }, by rw [g1]; simp [hpl], hd, hn⟩
            · exact ⟨pn, by rw [g1]; simp [hpl, hpi, hpn], hd, hn⟩
          by_cases hji : j = i
          · subst hji; simp at hj; subst hj; exact old ni hi hyp
          · simp [hji] at hj; exact old y hj hyp
      · intro j y hj hyp
        rw [g1] at hj
        by_cases hjl : j = h.length
        · subst hjl; simp at hj; subst hj; simp [hnnd] at hyp
        · simp only [hjl, if_false] at hj
          by_cases hji : j = i
          · subst hji; simp at hj; subst hj; exact w.top j ni hi hyp
          · simp [hji] at hj; exact w.top j y hj hyp
      · intro j y c' k hj hl
        rw [g1] at hj
        have old : ∀ x : TNode V, h[j]? = some x → alookup c' x.chd = some k →
            ∃ m : TNode V, h1[k]? = some m ∧ m.par = some j ∧ m.key = c' := by
          intro x hx hxl
          obtain ⟨m, hm, a1, a2⟩ := w.chd j x c' k hx hxl
          have hkl : ¬ k = h.length := by have := lt_of_get hm; omega
          by_cases hki : k = i
          · subst hki; rw [hi] at hm; cases hm
            exact ⟨{ ni with chd := (c, h.length) :: ni.chd }, by rw [g1]; simp [hkl], a1, a2⟩
          · exact ⟨m, by rw [g1]; simp [hkl, hki, hm], a1, a2⟩
        by_cases hjl : j = h.length
        · subst hjl; simp at hj; subst hj; simp [hnnd, alookup] at hl
        · simp only [hjl, if_false] at hj
          by_cases hji : j = i
          · subst hji; simp at hj; subst hj
            simp only [alookup] at hl
            by_cases hcc : c = c'
            · subst hcc; simp at hl; subst hl
              exact ⟨nn, by rw [g1]; simp, by simp [hnnd], by simp [hnnd]⟩
            · simp [hcc] at hl; exact old ni hi hl
          · simp [hji] at hj; exact old y hj hl
    have hnn : h1[h.length]? = some nn := by rw [g1]; simp
    obtain ⟨b1, b2, b3, b4, nn', b5, b6⟩ := ih h1 h.length nn w1 hnn
    refine ⟨b1, by omega, ?_, ?_, nn', b5, ?_⟩
    · intro j hj
      rw [b3 j (by omega)]
      unfold coreAt
      rw [g1]
      have : ¬ j = h.length := by omega
      by_cases hji : j = i
      · subst hji; simp [this, hi]
      · simp [this, hji]
    · intro j hj1 hj2
      by_cases hjl : j = h.length
      · subst hjl
        have := b3 h.length (by omega)
        rw [valAt_of_core this]
        unfold valAt; rw [hnn]; simp [hnnd]
      · exact b4 j (by omega) hj2
    · rw [b6]; simp [hnnd]

theorem descend_lt {h : Heap V} (w : WF h) (nm : Name) : (descend h 0 nm).1 < h.length := by
  obtain ⟨r, hr, _⟩ := w.root
  obtain ⟨nk, h1, _⟩ := descend_spec w nm 0 r hr
  exact lt_of_get h1

/-- `MatchAlways`: the heap stays well-formed, old nodes keep key/parent/depth/name/value, new nodes
    have the zero value, and the returned node exists and has the requested name -/
theorem matchAlways_spec (z : V) {h : Heap V} (w : WF h) (nm : Name) :
    WF (matchAlways z h nm).1 ∧ h.length ≤ (matchAlways z h nm).1.length ∧
    (∀ j : Nat, j < h.length → coreAt (matchAlways z h nm).1 j = coreAt h j) ∧
    (∀ j : Nat, h.length ≤ j → j < (matchAlways z h nm).1.length → valAt (matchAlways z h nm).1 j = some z) ∧
    (∃ nn : TNode V, (matchAlways z h nm).1[(matchAlways z h nm).2]? = some nn ∧ nn.name = nm) := by
  obtain ⟨r, hr, _, _, hrn⟩ := w.root
  obtain ⟨nk, h1, h2⟩ := descend_spec w nm 0 r hr
  unfold matchAlways
  obtain ⟨a1, a2, a3, a4, nn, a5, a6⟩ := create_spec z (descend h 0 nm).2 h (descend h 0 nm).1 nk w h1
  refine ⟨a1, a2, a3, a4, nn, a5, ?_⟩
  rw [a6, h2, hrn]; simp

end Ndn.C20
