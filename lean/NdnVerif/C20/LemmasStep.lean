/-
  C20 — every operation of the model preserves the PIT invariant `Inv1`.
-/
import NdnVerif.C20.LemmasWalk
namespace Ndn.C20

/-! ### timers -/

theorem cancelTimer_spec (ts : List Tmr) (k : Nat) :
    (cancelTimer ts k).length = ts.length ∧
    ∀ (j : Nat) (tm : Tmr), ts[j]? = some tm → ∃ tm' : Tmr, (cancelTimer ts k)[j]? = some tm' ∧
      tm'.node = tm.node ∧ tm'.fire = tm.fire ∧ (tm'.st = tm.st ∨ j = k) := by
  unfold cancelTimer
  cases hk : ts[k]? with
  | none => exact ⟨rfl, fun j tm h => ⟨tm, h, rfl, rfl, Or.inl rfl⟩⟩
  | some t =>
    simp only
    split
    · refine ⟨by simp, ?_⟩
      intro j tm hj
      rw [List.getElem?_set]
      by_cases hkj : k = j
      · subst hkj
        rw [hk] at hj; cases hj
        simp [lt_of_getElem? hk]
      · simp [hkj]; exact ⟨tm, hj, rfl, rfl, Or.inl rfl⟩
    · exact ⟨rfl, fun j tm h => ⟨tm, h, rfl, rfl, Or.inl rfl⟩⟩

theorem cancelAll_spec : ∀ (ps : List Pend) (ts : List Tmr),
    (cancelAll ts ps).length = ts.length ∧
    ∀ (j : Nat) (tm : Tmr), ts[j]? = some tm → ∃ tm' : Tmr, (cancelAll ts ps)[j]? = some tm' ∧
      tm'.node = tm.node ∧ tm'.fire = tm.fire ∧ (tm'.st = tm.st ∨ ∃ p ∈ ps, p.tid = j) := by
  intro ps
  induction ps with
  | nil => intro ts; exact ⟨rfl, fun j tm h => ⟨tm, h, rfl, rfl, Or.inl rfl⟩⟩
  | cons p rest ih =>
    intro ts
    simp only [cancelAll, List.foldl_cons]
    obtain ⟨l1, c1⟩ := cancelTimer_spec ts p.tid
    obtain ⟨l2, c2⟩ := ih (cancelTimer ts p.tid)
    simp only [cancelAll] at l2 c2
    refine ⟨by rw [l2, l1], ?_⟩
    intro j tm hj
    obtain ⟨tm1, h1, n1, f1, s1⟩ := c1 j tm hj
    obtain ⟨tm2, h2, n2, f2, s2⟩ := c2 j tm1 h1
    refine ⟨tm2, h2, by rw [n2, n1], by rw [f2, f1], ?_⟩
    rcases s2 with s2 | ⟨q, hq, hqj⟩
    · rcases s1 with s1 | s1
      · exact Or.inl (by rw [s2, s1])
      · exact Or.inr ⟨p, List.mem_cons_self, s1.symm⟩
    · exact Or.inr ⟨q, List.mem_cons_of_mem _ hq, hqj⟩

/-! ### onData -/

theorem step_data_eq (s : St) (nm : Name) (dg : Bytes) :
    (step s (.data nm dg)).1 =
      { s with
        pit := prune isEmptyList
          (dataWalk nm.length dg (depOf s.pit (prefixMatch s.pit nm) + 1) s.pit (prefixMatch s.pit nm) []).1
          (prefixMatch s.pit nm),
        timers := cancelAll s.timers
          (dataWalk nm.length dg (depOf s.pit (prefixMatch s.pit nm) + 1) s.pit (prefixMatch s.pit nm) []).2,
        cbs := s.cbs ++
          (dataWalk nm.length dg (depOf s.pit (prefixMatch s.pit nm) + 1) s.pit (prefixMatch s.pit nm) []).2.map
            fun p => (⟨p.id, .data nm dg, s.now⟩ : Cb) } := rfl

theorem data_resolve {s : St} (I : Inv1 s) (nm : Name) (dg : Bytes) :
    Resolve s (step s (.data nm dg)).1
      ((dataWalk nm.length dg (depOf s.pit (prefixMatch s.pit nm) + 1) s.pit (prefixMatch s.pit nm) []).2.map
        fun p => (⟨p.id, .data nm dg, s.now⟩ : Cb)) := by
  rw [step_data_eq]
  obtain ⟨n0, hn0⟩ : ∃ n0 : Nat, n0 = prefixMatch s.pit nm := ⟨_, rfl⟩
  rw [← hn0]
  obtain ⟨a1, a2, a3, a4, _, a6, a7⟩ :=
    dataWalk_spec nm.length dg (depOf s.pit n0 + 1) s.pit n0 [] I.wf I.uniqH List.nodup_nil
      (fun a ha => by cases ha)
  obtain ⟨h1, hh1⟩ : ∃ h1 : PHeap, h1 = (dataWalk nm.length dg (depOf s.pit n0 + 1) s.pit n0 []).1 := ⟨_, rfl⟩
  obtain ⟨sat, hsat⟩ : ∃ sat : List Pend, sat = (dataWalk nm.length dg (depOf s.pit n0 + 1) s.pit n0 []).2 :=
    ⟨_, rfl⟩
  rw [← hh1] at a1 a2 a3 a4 a7
  rw [← hsat] at a3 a4 a6 a7
  rw [← hh1, ← hsat]
  have core := fun j => prune_core isEmptyList h1 n0 j
  -- the name of the start node is a prefix of the Data name
  obtain ⟨r0, hr0, _, _, hrn⟩ := I.wf.root
  obtain ⟨nk, hk1, hk2⟩ := descend_spec I.wf nm 0 r0 hr0
  have hstart : ∃ rest : Name, nameAt s.pit n0 = some nk.name ∧ nk.name ++ rest = nm := by
    refine ⟨(descend s.pit 0 nm).2, ?_, by rw [hk2, hrn]; rfl⟩
    rw [hn0]; simp [nameAt, prefixMatch, hk1]
  obtain ⟨rest, hs1, hs2⟩ := hstart
  refine ⟨rfl, rfl, rfl, prune_wf _ _ _ a1, ?_, ?_, ?_, ?_, ?_, ?_, ?_⟩
  · intro j; show nameAt (prune isEmptyList h1 n0) j = _
    rw [nameAt_of_core (core j), a2.name]
  · intro j l' hl'
    have : valAt (prune isEmptyList h1 n0) j = some l' := hl'
    rw [valAt_of_core (core j)] at this
    exact a2.sub j l' this
  · intro i e he
    rcases a3 i e he with h' | h'
    · exact Or.inl ((pend_of_core core i e).mpr h')
    · exact Or.inr ⟨_, List.mem_map.mpr ⟨e, h', rfl⟩, rfl⟩
  · intro c hc
    obtain ⟨e, he, rfl⟩ := List.mem_map.mp hc
    refine ⟨rfl, ?_⟩
    rcases a4 e he with h' | ⟨j, nd, b1, b2, b3, b4, b5⟩
    · cases h'
    · have hp : pendingAt s j e := ⟨nd.val, by simp [valAt, b1], b2⟩
      refine ⟨j, e, hp, rfl, ?_, ?_, ?_⟩
      · intro h'; exact b4 ((pend_of_core core j e).mp h')
      · intro h'; simp at h'
      intro nm' dg' hk
      cases hk
      refine ⟨nd.name, by simp [nameAt, b1], ?_, ?_⟩
      · obtain ⟨r, hr⟩ := b5 nk.name hs1
        have hpre : nd.name ++ (r ++ rest) = nm := by rw [← List.append_assoc, hr, hs2]
        have hdep := I.wf.dep_eq j nd b1
        simp only [satisfiedBy] at b3
        cases hcb : e.cbp with
        | true => simp; exact (isPre_iff _ _).mpr ⟨_, hpre⟩
        | false =>
          have hlen : nm.length ≤ nd.name.length := by
            by_cases hlt : nd.dep < nm.length
            · simp [hlt, hcb] at b3
            · omega
          have hl2 : (nd.name ++ (r ++ rest)).length = nm.length := by rw [hpre]
          simp only [List.length_append] at hl2
          have hz : r ++ rest = [] := by
            apply List.eq_nil_of_length_eq_zero; simp only [List.length_append]; omega
          rw [hz] at hpre
          simp only [Bool.false_eq_true, if_false]
          simpa using hpre
      · simp only [satisfiedBy] at b3
        cases hd : e.dig with
        | none => trivial
        | some d =>
          simp only
          split at b3
          · cases b3
          · simp [hd] at b3; exact b3
  · rw [List.map_map]; exact a6
  · exact (cancelAll_spec sat s.timers).1
  · intro k tm hk
    obtain ⟨tm', h1', n1, f1, s1⟩ := (cancelAll_spec sat s.timers).2 k tm hk
    refine ⟨tm', h1', n1, f1, ?_⟩
    rcases s1 with s1 | ⟨p, hp, hpk⟩
    · exact Or.inl s1
    · right
      intro i e he
      rcases a4 p hp with h' | ⟨j, nd, b1, b2, _⟩
      · cases h'
      · have hpp : pendingAt s j p := ⟨nd.val, by simp [valAt, b1], b2⟩
        have := (I.own j p hpp).1
        rw [← hpk, this]
        exact a7 p hp i e ((pend_of_core core i e).mp he)

/-! ### the single-node sweep of onNack and of the timeout closure -/

theorem setVal_filter_spec {h : PHeap} (w : WF h) (n : Nat) (q : Pend → Bool) :
    WF (setVal h n ((getVal [] h n).filter q)) ∧
    (∀ j : Nat, nameAt (setVal h n ((getVal [] h n).filter q)) j = nameAt h j) ∧
    (∀ j : Nat, valAt (setVal h n ((getVal [] h n).filter q)) j =
        if j = n then (valAt h n).map (fun l => l.filter q) else valAt h j) := by
  unfold setVal getVal
  cases hn : h[n]? with
  | none =>
    refine ⟨w, fun _ => rfl, ?_⟩
    intro j
    by_cases hjn : j = n
    · subst hjn; simp [valAt, hn]
    · simp [hjn]
  | some nd =>
    simp only
    refine ⟨w.setVal hn _, fun j => nameAt_setVal hn _ j, ?_⟩
    intro j
    rw [valAt_setVal hn]
    by_cases hjn : j = n
    · subst hjn; simp [valAt, hn]
    · simp [hjn]

theorem getVal_mem {h : PHeap} {n : Nat} {e : Pend} : e ∈ getVal [] h n ↔ pendH h n e := by
  unfold getVal pendH valAt
  cases h[n]? with
  | none => simp
  | some nd => simp

theorem sweep_resolve {s s' : St} (I : Inv1 s) (n : Nat) (q : Pend → Bool) (k : Kind)
    (hk : ∀ (nm : Name) (dg : Bytes), k ≠ .data nm dg)
    (hto : k = .timeout → ∀ p : Pend, q p = false → p.deadline ≤ s.now)
    (hnow : s'.now = s.now) (hex : s'.exprs = s.exprs)
    (hpit : s'.pit = prune isEmptyList (setVal s.pit n ((getVal [] s.pit n).filter q)) n)
    (hcbs : s'.cbs = s.cbs ++
      ((getVal [] s.pit n).filter fun p => !q p).map fun p => (⟨p.id, k, s.now⟩ : Cb))
    (htl : s'.timers.length = s.timers.length)
    (htm : ∀ (j : Nat) (tm : Tmr), s.timers[j]? = some tm → ∃ tm' : Tmr, s'.timers[j]? = some tm' ∧
      tm'.node = tm.node ∧ tm'.fire = tm.fire ∧
      (tm'.st = tm.st ∨ (∃ p ∈ (getVal [] s.pit n).filter fun p => !q p, p.tid = j) ∨
        (∀ (i : Nat) (e : Pend), pendingAt s i e → e.id = j → i = n ∧ q e = false))) :
    Resolve s s' (((getVal [] s.pit n).filter fun p => !q p).map fun p => (⟨p.id, k, s.now⟩ : Cb)) := by
  obtain ⟨w1, nm1, v1⟩ := setVal_filter_spec I.wf n q
  have core := fun j => prune_core isEmptyList (setVal s.pit n ((getVal [] s.pit n).filter q)) n j
  -- pending entries of s'
  have pend' : ∀ (i : Nat) (e : Pend), pendingAt s' i e ↔ (pendingAt s i e ∧ (i = n → q e = true)) := by
    intro i e
    unfold pendingAt
    rw [hpit, valAt_of_core (core i), v1]
    by_cases hin : i = n
    · subst hin
      simp only [if_true]
      cases hv : valAt s.pit i with
      | none => simp
      | some l => simp [List.mem_filter]
    · simp [hin]
  have gone_mem : ∀ p : Pend, p ∈ ((getVal [] s.pit n).filter fun p => !q p) ↔ (pendingAt s n p ∧ q p = false) := by
    intro p; rw [List.mem_filter, getVal_mem]; simp [pendingAt_iff]
  refine ⟨hnow, hex, hcbs, by rw [hpit]; exact prune_wf _ _ _ w1, ?_, ?_, ?_, ?_, ?_, htl, ?_⟩
  · intro j; rw [hpit, nameAt_of_core (core j), nm1]
  · intro j l' hl'
    rw [hpit, valAt_of_core (core j), v1] at hl'
    by_cases hjn : j = n
    · subst hjn
      simp only [if_true] at hl'
      cases hv : valAt s.pit j with
      | none => simp [hv] at hl'
      | some l => simp [hv] at hl'; subst hl'; exact ⟨l, rfl, List.filter_sublist⟩
    · simp [hjn] at hl'; exact ⟨l', hl', List.Sublist.refl _⟩
  · intro i e he
    by_cases hin : i = n
    · subst hin
      by_cases hq : q e = true
      · exact Or.inl ((pend' i e).mpr ⟨he, fun _ => hq⟩)
      · refine Or.inr ⟨⟨e.id, k, s.now⟩, List.mem_map.mpr ⟨e, (gone_mem e).mpr ⟨he, by simpa using hq⟩, rfl⟩, rfl⟩
    · exact Or.inl ((pend' i e).mpr ⟨he, fun h => absurd h hin⟩)
  · intro c hc
    obtain ⟨e, he, rfl⟩ := List.mem_map.mp hc
    obtain ⟨hp, hq⟩ := (gone_mem e).mp he
    refine ⟨rfl, n, e, hp, rfl, ?_, ?_, ?_⟩
    · intro h'
      have := ((pend' n e).mp h').2 rfl
      rw [hq] at this; cases this
    · intro hkt; exact hto hkt e hq
    · intro nm dg hkd; exact absurd hkd (hk nm dg)
  · rw [List.map_map]
    have nd := I.nodup n
    unfold valAt at nd
    unfold getVal
    cases hn : s.pit[n]? with
    | none => simp
    | some x =>
      simp only
      have := nd x.val (by simp [hn])
      exact this.sublist (List.filter_sublist.map _)
  · intro j tm hj
    obtain ⟨tm', h1, h2, h3, h4⟩ := htm j tm hj
    refine ⟨tm', h1, h2, h3, ?_⟩
    rcases h4 with h4 | ⟨p, hp, hpj⟩ | h4
    · exact Or.inl h4
    · right
      intro i e he hid
      obtain ⟨hpp, hpq⟩ := (gone_mem p).mp hp
      obtain ⟨he1, he2⟩ := (pend' i e).mp he
      have := (I.own n p hpp).1
      obtain ⟨hin, hep⟩ := I.uniq he1 hpp (by rw [hid, ← hpj, this])
      subst hin; subst hep
      have := he2 rfl
      rw [hpq] at this; cases this
    · right
      intro i e he hid
      obtain ⟨he1, he2⟩ := (pend' i e).mp he
      obtain ⟨hin, hq⟩ := h4 i e he1 hid
      have := he2 hin
      rw [hq] at this; cases this

/-! ### operations that leave the PIT alone -/

theorem Inv1.same_pit {s s' : St} (I : Inv1 s) (hp : s'.pit = s.pit) (he : s'.exprs = s.exprs)
    (hc : s'.cbs = s.cbs) (hn : s.now ≤ s'.now) (hl : s'.timers.length = s.timers.length)
    (ht : ∀ (k : Nat) (tm : Tmr), s.timers[k]? = some tm → ∃ tm' : Tmr, s'.timers[k]? = some tm' ∧
      tm'.node = tm.node ∧ tm'.fire = tm.fire ∧
      (tm'.st = tm.st ∨ (tm.st = .armed ∧ tm'.st = .started ∧ tm'.fire ≤ s'.now))) : Inv1 s' := by
  have pe : ∀ (i : Nat) (e : Pend), pendingAt s' i e ↔ pendingAt s i e := by
    intro i e; unfold pendingAt; rw [hp]
  refine ⟨by rw [hp]; exact I.wf, by rw [he, hl]; exact I.len, by rw [he]; exact I.exid, ?_,
    by rw [hp]; exact I.nodup, by rw [hc]; exact I.cbs_nodup, ?_, ?_, by rw [hc, he]; exact I.tout,
    by rw [hc, he]; exact I.dsat⟩
  · intro i e hpe
    obtain ⟨h1, tm, x, h2, h3, h4, h5, h6, h7, h8, h9, h10⟩ := I.own i e ((pe i e).mp hpe)
    obtain ⟨tm', g1, g2, g3, g4⟩ := ht e.id tm h2
    refine ⟨h1, tm', x, g1, by rw [g2, h3], by rw [g3, h4], ?_, by rw [he]; exact h6, h7, h8, h9,
      by rw [hp]; exact h10⟩
    rcases g4 with g4 | ⟨_, g5, g6⟩
    · rw [g4, g3]
      rcases h5 with h5 | ⟨h5, h5'⟩
      · exact Or.inl h5
      · exact Or.inr ⟨h5, by omega⟩
    · exact Or.inr ⟨g5, g6⟩
  · intro c hcm
    rw [hc] at hcm; rw [he]
    exact ⟨(I.cbs_done c hcm).1, fun i e hpe => (I.cbs_done c hcm).2 i e ((pe i e).mp hpe)⟩
  · intro id hid
    rw [he] at hid
    rcases I.cover id hid with ⟨c, h1, h2⟩ | ⟨i, e, h1, h2⟩
    · exact Or.inl ⟨c, by rw [hc]; exact h1, h2⟩
    · exact Or.inr ⟨i, e, (pe i e).mpr h1, h2⟩

theorem same_timers (s : St) : ∀ (k : Nat) (tm : Tmr), s.timers[k]? = some tm → ∃ tm' : Tmr,
    s.timers[k]? = some tm' ∧ tm'.node = tm.node ∧ tm'.fire = tm.fire ∧
    (tm'.st = tm.st ∨ (tm.st = .armed ∧ tm'.st = .started ∧ tm'.fire ≤ s.now)) :=
  fun _ tm h => ⟨tm, h, rfl, rfl, Or.inl rfl⟩

/-! ### Express -/

theorem Inv1.express {s : St} (I : Inv1 s) (final : Name) (cbp : Bool) (life : Option Nat) :
    Inv1 (step s (.express final cbp life)).1 := by
  cases hlast : final.getLast? with
  | none => simp only [step, hlast]; exact I
  | some last =>
    simp only [step, hlast]
    obtain ⟨dig, hdig⟩ : ∃ d : Option Bytes, d = (splitDigest final).1 := ⟨_, rfl⟩
    obtain ⟨nodeName, hnode⟩ : ∃ d : Name, d = (splitDigest final).2 := ⟨_, rfl⟩
    rw [← hdig, ← hnode]
    obtain ⟨a1, a2, a3, a4, nn, a5, a6⟩ := matchAlways_spec ([] : List Pend) I.wf nodeName
    obtain ⟨pit1, hpit1⟩ : ∃ h : PHeap, h = (matchAlways [] s.pit nodeName).1 := ⟨_, rfl⟩
    obtain ⟨n, hn⟩ : ∃ n : Nat, n = (matchAlways [] s.pit nodeName).2 := ⟨_, rfl⟩
    rw [← hpit1, ← hn] at a5
    rw [← hpit1] at a1 a2 a3 a4
    rw [← hpit1, ← hn]
    obtain ⟨lt, hlt⟩ : ∃ l : Nat, l = life.getD defaultLife := ⟨_, rfl⟩
    rw [← hlt]
    obtain ⟨entry, hentry⟩ : ∃ e : Pend, e = ⟨s.exprs.length, s.now + lt, cbp, dig, s.timers.length⟩ := ⟨_, rfl⟩
    rw [← hentry]
    have hsv : setVal pit1 n (getVal [] pit1 n ++ [entry]) = pit1.set n { nn with val := nn.val ++ [entry] } := by
      simp [setVal, getVal, a5]
    rw [hsv]
    -- values of the new PIT
    have vold : ∀ j : Nat, valAt pit1 j = if j < s.pit.length then valAt s.pit j
        else if j < pit1.length then some [] else none := by
      intro j
      by_cases h1 : j < s.pit.length
      · simp [h1]; exact valAt_of_core (a3 j h1)
      · by_cases h2 : j < pit1.length
        · simp [h1, h2]; exact a4 j (by omega) h2
        · simp [h1, h2, valAt]
    have v2 : ∀ j : Nat, valAt (pit1.set n { nn with val := nn.val ++ [entry] }) j =
        if j = n then some (nn.val ++ [entry]) else valAt pit1 j := fun j => valAt_setVal a5 _ j
    have hnnv : valAt pit1 n = some nn.val := by simp [valAt, a5]
    -- pending entries afterwards: the old ones, and the new entry at n
    have pold : ∀ (i : Nat) (e : Pend), pendH pit1 i e ↔ pendH s.pit i e := by
      intro i e
      unfold pendH
      rw [vold]
      by_cases h1 : i < s.pit.length
      · simp [h1]
      · have : valAt s.pit i = none := by simp [valAt]; omega
        by_cases h2 : i < pit1.length <;> simp [h1, h2, this]
    have pnew : ∀ (i : Nat) (e : Pend), pendH (pit1.set n { nn with val := nn.val ++ [entry] }) i e ↔
        (pendH s.pit i e ∨ (i = n ∧ e = entry)) := by
      intro i e
      unfold pendH
      rw [v2]
      by_cases hin : i = n
      · subst hin
        simp only [if_true, Option.some.injEq, exists_eq_left', List.mem_append, List.mem_singleton]
        have := pold i e
        unfold pendH at this
        rw [hnnv] at this
        simp only [Option.some.injEq, exists_eq_left'] at this
        rw [this]; simp
      · simp only [hin, if_false, false_and, or_false]
        exact pold i e
    have nameold : ∀ j : Nat, j < s.pit.length →
        nameAt (pit1.set n { nn with val := nn.val ++ [entry] }) j = nameAt s.pit j := by
      intro j hj
      rw [nameAt_setVal a5, nameAt_of_core (a3 j hj)]
    have oldlt : ∀ (i : Nat) (e : Pend), pendH s.pit i e → i < s.pit.length ∧ e.id < s.exprs.length := by
      intro i e he
      obtain ⟨_, tm, x, _, _, _, _, hx, _⟩ := I.own i e he
      refine ⟨?_, lt_of_getElem? hx⟩
      obtain ⟨l, hl, _⟩ := he
      unfold valAt at hl
      cases hh : s.pit[i]? with
      | none => simp [hh] at hl
      | some y => exact lt_of_get hh
    refine ⟨a1.setVal a5 _, by simp [I.len], ?_, ?_, ?_, I.cbs_nodup, ?_, ?_, ?_, ?_⟩
    · -- exid
      intro k x hk
      show x.id = k
      have hk' : (s.exprs ++ [_])[k]? = some x := hk
      rw [List.getElem?_append] at hk'
      by_cases hkl : k < s.exprs.length
      · simp only [hkl, if_true] at hk'; exact I.exid k x hk'
      · simp only [hkl, if_false] at hk'
        have : k = s.exprs.length := by
          by_cases h' : k - s.exprs.length = 0
          · omega
          · obtain ⟨m, hm⟩ := Nat.exists_eq_succ_of_ne_zero h'
            rw [hm] at hk'; simp at hk'
        subst this; simp at hk'; rw [← hk']
    · -- own
      intro i e he
      rcases (pnew i e).mp he with hold | ⟨hin, hee⟩
      · obtain ⟨h1, tm, x, h2, h3, h4, h5, h6, h7, h8, h9, h10⟩ := I.own i e hold
        refine ⟨h1, tm, x, ?_, h3, h4, h5, ?_, h7, h8, h9, ?_⟩
        · show (s.timers ++ [_])[e.id]? = some tm
          rw [List.getElem?_append_left (lt_of_getElem? h2)]; exact h2
        · show (s.exprs ++ [_])[e.id]? = some x
          rw [List.getElem?_append_left (lt_of_getElem? h6)]; exact h6
        · show nameAt (pit1.set n _) i = _
          rw [nameold i (oldlt i e hold).1]; exact h10
      · subst hin; subst hee
        rw [hentry]
        refine ⟨by simp [I.len], ⟨s.now + lt + margin, i, .armed⟩,
          ⟨s.exprs.length, final, nodeName, cbp, dig, s.now, lt⟩, ?_, rfl, rfl, Or.inl rfl, ?_, rfl, rfl, rfl, ?_⟩
        · show (s.timers ++ [_])[s.exprs.length]? = _
          rw [I.len]; simp
        · show (s.exprs ++ [_])[s.exprs.length]? = _
          simp
        · show nameAt (pit1.set i _) i = some nodeName
          rw [nameAt_setVal a5]; simp [nameAt, a5, a6]
    · -- nodup
      intro i l hl
      have hl' : valAt (pit1.set n { nn with val := nn.val ++ [entry] }) i = some l := hl
      rw [v2] at hl'
      by_cases hin : i = n
      · subst hin
        simp at hl'; subst hl'
        rw [List.map_append, List.nodup_append]
        have hnd : (nn.val.map (·.id)).Nodup := by
          have := vold i
          rw [hnnv] at this
          by_cases h1 : i < s.pit.length
          · simp [h1] at this; exact I.nodup i nn.val this.symm
          · by_cases h2 : i < pit1.length
            · simp [h1, h2] at this; rw [this]; exact List.nodup_nil
            · simp [h1, h2] at this
        refine ⟨hnd, by simp, ?_⟩
        intro a ha b hb hab
        obtain ⟨e0, he0, rfl⟩ := List.mem_map.mp ha
        simp at hb; subst hb
        have hp0 : pendH s.pit i e0 := (pold i e0).mp ⟨nn.val, hnnv, he0⟩
        have := (oldlt i e0 hp0).2
        rw [hentry] at hab; simp at hab; omega
      · simp [hin] at hl'
        rw [vold] at hl'
        by_cases h1 : i < s.pit.length
        · simp [h1] at hl'; exact I.nodup i l hl'
        · by_cases h2 : i < pit1.length
          · simp [h1, h2] at hl'; rw [hl']; exact List.nodup_nil
          · simp [h1, h2] at hl'
    · -- cbs_done
      intro c hc
      refine ⟨by show c.id < (s.exprs ++ [_]).length; simp; have := (I.cbs_done c hc).1; omega, ?_⟩
      intro i e he
      rcases (pnew i e).mp he with hold | ⟨_, hee⟩
      · exact (I.cbs_done c hc).2 i e hold
      · subst hee; rw [hentry]; simp; have := (I.cbs_done c hc).1; omega
    · -- cover
      intro id hid
      have hid' : id < (s.exprs ++ [_]).length := hid
      simp at hid'
      by_cases hlt' : id < s.exprs.length
      · rcases I.cover id hlt' with h1 | ⟨i, e, h1, h2⟩
        · exact Or.inl h1
        · exact Or.inr ⟨i, e, (pnew i e).mpr (Or.inl h1), h2⟩
      · refine Or.inr ⟨n, entry, (pnew n entry).mpr (Or.inr ⟨rfl, rfl⟩), ?_⟩
        rw [hentry]; simp; omega
    · -- tout
      intro c hc hk
      obtain ⟨x, h1, h2⟩ := I.tout c hc hk
      refine ⟨x, ?_, h2⟩
      show (s.exprs ++ [_])[c.id]? = some x
      rw [List.getElem?_append_left (lt_of_getElem? h1)]; exact h1
    · -- dsat
      intro c hc nm dg hk
      obtain ⟨x, h1, h2⟩ := I.dsat c hc nm dg hk
      refine ⟨x, ?_, h2⟩
      show (s.exprs ++ [_])[c.id]? = some x
      rw [List.getElem?_append_left (lt_of_getElem? h1)]; exact h1

/-! ### onNack, the timeout closure, and the whole step function -/

theorem Inv1.nack {s : St} (I : Inv1 s) (name : Name) : Inv1 (step s (.nack name)).1 := by
  simp only [step]
  cases hm : exactMatch s.pit (splitDigest name).2 with
  | none => exact I
  | some n =>
    simp only
    obtain ⟨dig, hdig⟩ : ∃ d : Option Bytes, d = (splitDigest name).1 := ⟨_, rfl⟩
    rw [← hdig]
    have hf : (fun p : Pend => decide (p.dig = dig)) = fun p => !(fun p : Pend => !decide (p.dig = dig)) p := by
      funext p; simp
    have R := sweep_resolve (s := s)
      (s' := { s with
        pit := prune isEmptyList (setVal s.pit n ((getVal [] s.pit n).filter fun p => !decide (p.dig = dig))) n,
        timers := cancelAll s.timers ((getVal [] s.pit n).filter fun p => decide (p.dig = dig)),
        cbs := s.cbs ++ ((getVal [] s.pit n).filter fun p => decide (p.dig = dig)).map
          fun p => (⟨p.id, .nack, s.now⟩ : Cb) })
      I n (fun p => !decide (p.dig = dig)) .nack (fun _ _ h => by cases h) (fun h => by cases h) rfl rfl rfl
      (by rw [hf]) (cancelAll_spec _ _).1
      (by
        intro j tm hj
        obtain ⟨tm', h1, h2, h3, h4⟩ := (cancelAll_spec ((getVal [] s.pit n).filter fun p => decide (p.dig = dig))
          s.timers).2 j tm hj
        refine ⟨tm', h1, h2, h3, ?_⟩
        rcases h4 with h4 | ⟨p, hp, hpj⟩
        · exact Or.inl h4
        · exact Or.inr (Or.inl ⟨p, by rw [← hf]; exact hp, hpj⟩))
    exact I.resolve R

theorem Inv1.timerRun {s : St} (I : Inv1 s) (k : Nat) : Inv1 (step s (.timerRun k)).1 := by
  simp only [step]
  cases hk : s.timers[k]? with
  | none => exact I
  | some t =>
    simp only
    split
    · rename_i hst
      have R := sweep_resolve (s := s)
        (s' := { s with
          pit := prune isEmptyList
            (setVal s.pit t.node ((getVal [] s.pit t.node).filter fun p => decide (s.now < p.deadline))) t.node,
          timers := s.timers.set k { t with st := .fired },
          cbs := s.cbs ++ ((getVal [] s.pit t.node).filter fun p => !decide (s.now < p.deadline)).map
            fun p => (⟨p.id, .timeout, s.now⟩ : Cb) })
        I t.node (fun p => decide (s.now < p.deadline)) .timeout (fun _ _ h => by cases h)
        (fun _ p hq => by simp at hq; exact hq) rfl rfl rfl rfl (by simp)
        (by
          intro j tm hj
          by_cases hjk : j = k
          · subst hjk
            rw [hk] at hj; cases hj
            refine ⟨{ t with st := .fired }, by simp [lt_of_getElem? hk], rfl, rfl, Or.inr (Or.inr ?_)⟩
            intro i e he hid
            obtain ⟨_, tm', x, h2, h3, h4, h5, _⟩ := I.own i e he
            rw [hid, hk] at h2; cases h2
            refine ⟨h3.symm, ?_⟩
            rcases h5 with h5 | ⟨_, h5⟩
            · rw [hst] at h5; cases h5
            · simp; omega
          · refine ⟨tm, ?_, rfl, rfl, Or.inl rfl⟩
            show (s.timers.set k _)[j]? = some tm
            rw [List.getElem?_set]
            have : ¬ k = j := fun h => hjk h.symm
            simp [this, hj])
      exact I.resolve R
    · exact I

theorem Inv1.step {s : St} (I : Inv1 s) (op : Op) : Inv1 (step s op).1 := by
  cases op with
  | express final cbp life => exact I.express final cbp life
  | data name dig => exact I.resolve (data_resolve I name dig)
  | nack name => exact I.nack name
  | setTime t =>
    exact I.same_pit (s' := { s with now := max s.now t }) rfl rfl rfl (Nat.le_max_left _ _) rfl
      (fun k tm h => ⟨tm, h, rfl, rfl, Or.inl rfl⟩)
  | timerStart k =>
    simp only [C20.step]
    cases hk : s.timers[k]? with
    | none => exact I
    | some t =>
      simp only
      split
      · rename_i hc
        refine I.same_pit (s' := { s with timers := s.timers.set k { t with st := .started } }) rfl rfl rfl
          (Nat.le_refl _) (by simp) ?_
        intro j tm hj
        by_cases hjk : j = k
        · subst hjk
          rw [hk] at hj; cases hj
          exact ⟨{ t with st := .started }, by simp [lt_of_getElem? hk], rfl, rfl, Or.inr ⟨hc.1, rfl, hc.2⟩⟩
        · refine ⟨tm, ?_, rfl, rfl, Or.inl rfl⟩
          show (s.timers.set k _)[j]? = some tm
          rw [List.getElem?_set]
          have : ¬ k = j := fun h => hjk h.symm
          simp [this, hj]
      · exact I
  | timerRun k => exact I.timerRun k
  | attach p hid =>
    simp only [C20.step]
    split <;> exact I.same_pit rfl rfl rfl (Nat.le_refl _) rfl (same_timers s)
  | detach p =>
    simp only [C20.step]
    split
    · exact I
    · split
      · exact I
      · exact I.same_pit rfl rfl rfl (Nat.le_refl _) rfl (same_timers s)
  | interest name life =>
    simp only [C20.step]
    split
    · exact I
    · exact I.same_pit rfl rfl rfl (Nat.le_refl _) rfl (same_timers s)
  | reply r =>
    simp only [C20.step]
    split
    · exact I
    · split <;> exact I

theorem Inv1.run {s : St} (I : Inv1 s) (ops : List Op) : Inv1 (run s ops) := by
  induction ops generalizing s with
  | nil => exact I
  | cons op rest ih => exact ih (I.step op)

end Ndn.C20
