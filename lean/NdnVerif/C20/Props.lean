/-
  C20 — property theorems.  Every theorem is about EVERY history: `run St.init ops` for an
  arbitrary list `ops` of the model's atomic operations (express / data / nack / clock advance /
  timer goroutine start / timer goroutine run / attach / detach / incoming Interest / reply), i.e.
  every interleaving of arrivals and timer expirations the engine's lock admits, with no bound on
  the length of the history, the number of pending Interests or the depth of names.

  The ghost logs `exprs` (one record per successful Express) and `cbs` (one record per callback
  invocation) are what the theorems talk about; `log_faithful_*` show that these logs are exactly
  the outputs of the operations.
-/
import NdnVerif.C20.LemmasFib
namespace Ndn.C20

/-- the Interest record as the specification sees it -/
def Expr.toSpec (x : Expr) : Spec.Int := ⟨x.node, x.final, x.cbp, x.dig, x.t, x.life⟩

/-- callbacks made by one operation, as reported by its output -/
def Out.callbacks : Out → List Cb
  | .cbs l => l
  | _ => []

/-! ### the logs are the outputs -/

/-- the callback log grows by exactly the callbacks the operation reports -/
theorem log_faithful_cbs (s : St) (op : Op) : (step s op).1.cbs = s.cbs ++ (step s op).2.callbacks := by
  cases op <;> simp only [step] <;> (repeat' split) <;> simp [Out.callbacks]

/-- a callback is logged with the instant at which the operation runs -/
theorem log_faithful_time (s : St) (op : Op) : ∀ c ∈ (step s op).2.callbacks, c.t = s.now := by
  cases op <;> simp only [step] <;> (repeat' split) <;> simp [Out.callbacks] <;>
    (intros; subst_vars; rfl)

/-- `Express` succeeds exactly when the name is not empty, and then (and only then) a record with a
    fresh id, the current instant and the requested lifetime (default 4 s) is logged -/
theorem log_faithful_express (s : St) (final : Name) (cbp : Bool) (life : Option Nat) :
    (final = [] → (step s (.express final cbp life)) = (s, .exprErr)) ∧
    (final ≠ [] → (step s (.express final cbp life)).2 = .expressed s.exprs.length ∧
      (step s (.express final cbp life)).1.exprs = s.exprs ++
        [⟨s.exprs.length, final, (splitDigest final).2, cbp, (splitDigest final).1, s.now,
          life.getD defaultLife⟩]) := by
  constructor
  · intro h; subst h; simp [step]
  · intro h
    cases hl : final.getLast? with
    | none => simp [List.getLast?_eq_none_iff] at hl; exact absurd hl h
    | some last => simp [step, hl]

/-! ### exactly once -/

/-- **at most once**: in every history, no expressed Interest has its callback invoked twice
    (whatever the kinds of the two invocations, whichever interleaving of Data, Nack and timers) -/
theorem callback_at_most_once (ops : List Op) : ((run St.init ops).cbs.map (·.id)).Nodup :=
  (Inv1.init.run ops).cbs_nodup

example : ((run St.init [.express [⟨8, [97]⟩] false (some 100), .express [⟨8, [97]⟩] true none,
    .data [⟨8, [97]⟩] [1], .data [⟨8, [97]⟩] [1], .setTime (100 + margin), .timerStart 0, .timerRun 0]).cbs.map (·.id))
    = [0, 1] := by decide

/-- **exactly once after the deadline**: in every history, once the clock has passed
    `express instant + lifetime + margin` of an expressed Interest and every timer that is due has
    run (or was cancelled), its callback has been invoked — exactly once -/
theorem callback_exactly_once_after_deadline (ops : List Op) (id : Nat) (x : Expr)
    (hx : (run St.init ops).exprs[id]? = some x)
    (hquiet : ∀ (k : Nat) (tm : Tmr), (run St.init ops).timers[k]? = some tm → tm.fire ≤ (run St.init ops).now →
      tm.st = .fired ∨ tm.st = .cancelled)
    (hlate : x.t + x.life + margin ≤ (run St.init ops).now) :
    ∃ c ∈ (run St.init ops).cbs, c.id = id ∧ ∀ c' ∈ (run St.init ops).cbs, c'.id = id → c' = c := by
  have I := Inv1.init.run ops
  rcases I.cover id (lt_of_getElem? hx) with ⟨c, hc, hid⟩ | ⟨i, e, he, hid⟩
  · refine ⟨c, hc, hid, ?_⟩
    intro c' hc' hid'
    exact inj_of_nodup_map _ _ I.cbs_nodup c' c hc' hc (by rw [hid, hid'])
  · exfalso
    obtain ⟨_, tm, x', h2, _, h4, h5, h6, h7, _⟩ := I.own i e he
    rw [hid, hx] at h6; cases h6
    rw [hid] at h2
    have := hquiet id tm h2 (by rw [h4, h7]; exact hlate)
    rcases h5 with h5 | ⟨h5, _⟩ <;> rcases this with h | h <;> rw [h] at h5 <;> cases h5

example : ∃ c ∈ (run St.init [.express [⟨8, [97]⟩] false (some 100), .setTime (100 + margin), .timerStart 0,
    .timerRun 0]).cbs, c.id = 0 ∧ c.kind = .timeout := by decide

/-! ### what a callback is given -/

/-- **Data satisfies**: in every history, every callback invoked with Data was expressed for a name
    the Data satisfies: the same name, or a prefix of the Data name only if CanBePrefix was set, and
    the implicit digest, if one was requested, equals the Data's digest -/
theorem data_callback_satisfies (ops : List Op) : ∀ c ∈ (run St.init ops).cbs, ∀ (nm : Name) (dg : Bytes),
    c.kind = .data nm dg → ∃ x : Expr, (run St.init ops).exprs[c.id]? = some x ∧
      Spec.satisfies x.toSpec nm dg = true :=
  (Inv1.init.run ops).dsat

example : (run St.init [.express [⟨8, [97]⟩] true (some 100), .express [⟨8, [97]⟩] false (some 100),
    .data [⟨8, [97]⟩, ⟨8, [98]⟩] [1]]).cbs = [⟨0, .data [⟨8, [97]⟩, ⟨8, [98]⟩] [1], 0⟩] := by decide

/-- **timeout not early**: in every history, a callback invoked with a timeout happens no earlier
    than the Interest's lifetime after it was expressed -/
theorem timeout_not_early (ops : List Op) : ∀ c ∈ (run St.init ops).cbs, c.kind = .timeout →
    ∃ x : Expr, (run St.init ops).exprs[c.id]? = some x ∧ Spec.timeoutOk x.toSpec c.t = true := by
  intro c hc hk
  obtain ⟨x, h1, h2⟩ := (Inv1.init.run ops).tout c hc hk
  exact ⟨x, h1, by simp only [Spec.timeoutOk, Expr.toSpec]; exact decide_eq_true h2⟩

example : (run St.init [.express [⟨8, [97]⟩] false (some 100), .setTime (100 + margin), .timerStart 0,
    .timerRun 0]).cbs = [⟨0, .timeout, 100 + margin⟩] := by decide

/-- **resolves all**: in every history, when Data arrives, EVERY expressed Interest that has not been
    resolved yet and that the Data satisfies gets its callback invoked by that very arrival, with
    that Data (so nested names, duplicates and earlier deletions of trie nodes cannot hide a pending
    Interest from the Data) -/
theorem data_resolves_all_satisfied (ops : List Op) (nm : Name) (dg : Bytes) (id : Nat) (x : Expr)
    (hx : (run St.init ops).exprs[id]? = some x)
    (hpend : ∀ c ∈ (run St.init ops).cbs, c.id ≠ id)
    (hsat : Spec.satisfies x.toSpec nm dg = true) :
    ∃ c ∈ (step (run St.init ops) (.data nm dg)).2.callbacks, c.id = id ∧ c.kind = .data nm dg := by
  obtain ⟨I1, I2⟩ := inv12_run ops St.init Inv1.init Inv2.init
  obtain ⟨s, hs⟩ : ∃ s : St, s = run St.init ops := ⟨_, rfl⟩
  rw [← hs] at hx hpend I1 I2 ⊢
  -- the Interest is pending in some node i
  rcases I1.cover id (lt_of_getElem? hx) with ⟨c, hc, hid⟩ | ⟨i, e, he, hid⟩
  · exact absurd hid (hpend c hc)
  obtain ⟨_, tm, x', _, _, _, _, h6, _, hcbp, hdig, hname⟩ := I1.own i e he
  rw [hid, hx] at h6; cases h6
  obtain ⟨ni, hni, hdesc⟩ := I2.att i e he
  have hnin : ni.name = x.node := by simpa [nameAt, hni] using hname
  -- the node name is a prefix of the Data name
  simp only [Spec.satisfies, Expr.toSpec, Bool.and_eq_true] at hsat
  obtain ⟨hs1, hs2⟩ := hsat
  have hpre : ∃ r : Name, ni.name ++ r = nm := by
    rw [hnin]
    cases hb : x.cbp with
    | true => simp only [hb, if_true] at hs1; exact (isPre_iff _ _).mp hs1
    | false => simp [hb] at hs1; exact ⟨[], by simp [of_decide_eq_true hs1]⟩
  obtain ⟨r, hr⟩ := hpre
  have hwalk := att_on_walk I1.wf hni hdesc r
  rw [hr] at hwalk
  -- the entry is satisfied according to the engine's test
  have hdep := I1.wf.dep_eq i ni hni
  have hsb : satisfiedBy ni.dep nm.length dg e = true := by
    simp only [satisfiedBy]
    have h1 : (decide (ni.dep < nm.length) && !e.cbp) = false := by
      cases hb : x.cbp with
      | true => rw [← hcbp, hb]; simp
      | false =>
        simp [hb] at hs1
        rw [hdep, hnin, of_decide_eq_true hs1]; simp
    rw [h1]
    simp only [Bool.false_eq_true, if_false]
    rw [← hdig]
    cases hd : x.dig with
    | none => rfl
    | some d => simp [hd] at hs2; simp [hs2]
  -- so the loop removes it and reports it
  obtain ⟨_, _, a3, _, _, _, _⟩ :=
    dataWalk_spec nm.length dg (depOf s.pit (prefixMatch s.pit nm) + 1) s.pit (prefixMatch s.pit nm) []
      I1.wf I1.uniqH List.nodup_nil (fun a ha => by cases ha)
  have hin : e ∈ (dataWalk nm.length dg (depOf s.pit (prefixMatch s.pit nm) + 1) s.pit
      (prefixMatch s.pit nm) []).2 := by
    rcases a3 i e he with h' | h'
    · have := dataWalk_clears nm.length dg _ s.pit _ [] i ni e hwalk hni h'
      rw [hsb] at this; cases this
    · exact h'
  refine ⟨⟨e.id, .data nm dg, s.now⟩, ?_, hid, rfl⟩
  show _ ∈ Out.callbacks (step s (.data nm dg)).2
  have : (step s (.data nm dg)).2 = .cbs ((dataWalk nm.length dg (depOf s.pit (prefixMatch s.pit nm) + 1) s.pit
      (prefixMatch s.pit nm) []).2.map fun p => (⟨p.id, .data nm dg, s.now⟩ : Cb)) := rfl
  rw [this]
  exact List.mem_map.mpr ⟨e, hin, rfl⟩

example : (step (run St.init [.express [⟨8, [97]⟩, ⟨8, [98]⟩] false (some 100), .express [⟨8, [97]⟩] true none,
    .express [⟨8, [97]⟩] false none, .data [⟨8, [99]⟩] [1], .nack [⟨8, [97]⟩]])
    (.data [⟨8, [97]⟩, ⟨8, [98]⟩] [1])).2.callbacks.map (·.id) = [0] := by decide

/-! ### handlers -/

/-- the ghost handler table `hs` follows the registration history as the specification defines it:
    `AttachHandler(p)` is refused exactly when a handler is already attached at `p` and otherwise
    adds `(p, handler)`; `DetachHandler(p)` fails exactly when none is attached at `p` and otherwise
    removes the handler of `p` and of no other prefix -/
theorem handler_table_follows_history (ops : List Op) (p : Name) (hid : Nat) :
    ((step (run St.init ops) (.attach p hid)).2 = .dup ↔ p ∈ (run St.init ops).hs.map (·.1)) ∧
    ((step (run St.init ops) (.attach p hid)).2 ≠ .dup →
      (step (run St.init ops) (.attach p hid)).1.hs = (run St.init ops).hs ++ [(p, hid)]) ∧
    ((step (run St.init ops) (.detach p)).2 = .err ↔ p ∉ (run St.init ops).hs.map (·.1)) ∧
    ((step (run St.init ops) (.detach p)).2 ≠ .err →
      (step (run St.init ops) (.detach p)).1.hs = (run St.init ops).hs.filter fun e => !decide (e.1 = p)) := by
  have I := Inv3.run ops St.init Inv3.init
  refine ⟨(I.attach p hid).2, ?_, (I.detach p).2, ?_⟩
  · simp only [step]
    split
    · intro h; exact absurd rfl h
    · intro _; rfl
  · simp only [step]
    split
    · intro h; exact absurd rfl h
    · split
      · intro h; exact absurd rfl h
      · intro _; rfl

/-- **handler is the longest prefix**: in every registration history, an incoming Interest is
    handed to the handler attached at the longest prefix of its name among the attached prefixes
    (and to none iff no attached prefix matches) -/
theorem handler_is_longest_prefix (ops : List Op) (name : Name) (life : Option Nat) :
    ∃ dl r : Nat, (step (run St.init ops) (.interest name life)).2 =
      .handled ((Spec.lpm (run St.init ops).hs name).map (·.2)) dl r := by
  have I := Inv3.run ops St.init Inv3.init
  have h := lpm_correct I name
  simp only [step]
  cases hl : Spec.lpm (run St.init ops).hs name with
  | none =>
    rw [hl] at h; simp only [Option.map_none] at h
    rw [h]; exact ⟨_, _, rfl⟩
  | some b =>
    rw [hl] at h; simp only [Option.map_some] at h
    rw [h]; exact ⟨_, _, rfl⟩

example : (step (run St.init [.attach [⟨8, [97]⟩] 1, .attach [⟨8, [97]⟩, ⟨8, [98]⟩] 2, .attach [] 3,
    .detach [⟨8, [97]⟩]]) (.interest [⟨8, [97]⟩, ⟨8, [98]⟩, ⟨8, [99]⟩] none)).2 = .handled (some 2) defaultLife 0 ∧
    (step (run St.init [.attach [⟨8, [97]⟩] 1, .attach [⟨8, [97]⟩, ⟨8, [98]⟩] 2, .attach [] 3,
    .detach [⟨8, [97]⟩]]) (.interest [⟨8, [97]⟩, ⟨8, [99]⟩] none)).2 = .handled (some 3) defaultLife 0 := by
  decide

/-! ### replies -/

/-- the deadline given to the handler is the arrival instant plus the Interest's lifetime (4 s if
    it carries none) -/
theorem interest_deadline (s : St) (name : Name) (life : Option Nat) (h : Option Nat) (dl r : Nat)
    (ho : (step s (.interest name life)).2 = .handled h dl r) : dl = s.now + life.getD defaultLife := by
  simp only [step] at ho
  split at ho <;> cases ho <;> rfl

/-- **reply only before the deadline**: `Reply` transmits only if the clock has not passed the
    deadline of that Interest -/
theorem reply_only_before_deadline (s : St) (r : Nat) (x : Rx) (hx : s.rx[r]? = some x)
    (h : (step s (.reply r)).2 = .sent) : Spec.replyOk x.deadline s.now = true := by
  simp only [step, hx] at h
  simp only [Spec.replyOk, decide_eq_true_eq]
  split at h
  · cases h
  · omega

example : (step (run St.init [.attach [] 7, .interest [⟨8, [97]⟩] (some 5), .setTime 5]) (.reply 0)).2 = .sent ∧
    (step (run St.init [.attach [] 7, .interest [⟨8, [97]⟩] (some 5), .setTime 6]) (.reply 0)).2 = .late := by
  decide

end Ndn.C20
