/-
  C20 — property theorems (placeholder stage: real theorems follow).
-/
import NdnVerif.C20.Model
import NdnVerif.C20.Spec
namespace Ndn.C20

theorem reply_only_before_deadline (s : St) (r : Nat) (x : Rx) (hx : s.rx[r]? = some x)
    (h : (step s (.reply r)).2 = .sent) : Spec.replyOk x.deadline s.now = true := by
  simp only [step, hx] at h
  simp only [Spec.replyOk, decide_eq_true_eq]
  split at h
  · cases h
  · omega

end Ndn.C20
