/-
  Tree minimality across Content-Store insertions/evictions when the tree is shared with a PIT
  (`P` = names holding PIT entries, recognised by `pit`).  Used by C08.
-/
import NdnVerif.C07.LemmasInv
import NdnVerif.C07.LemmasPrune
namespace Ndn.C07

theorem eraseCs_minimal (pit : Name → Bool) (P : List Name) (hp : ∀ m, pit m = true ↔ m ∈ P)
    {v : Name} {q : List Name} {s : St} (h : InvQ (v :: q) s) (hm : Minimal s.nodes (s.cs.keys ++ P)) :
    Minimal (eraseCs pit s v).nodes ((eraseCs pit s v).cs.keys ++ P) := by
  have hv : v ∈ s.cs.keys := (h.qmem v).mp (by simp)
  have hhas : s.cs.has v = true := has_iff.mpr hv
  simp only [eraseCs, hhas, ↓reduceIte]
  apply prune_minimal' hm (h.reach v hv)
  · intro m hm'
    rcases List.mem_append.mp hm' with h1 | h1
    · by_cases e : m = v
      · exact Or.inr e
      · exact Or.inl (List.mem_append_left _ (mem_keys_del.mpr ⟨h1, e⟩))
    · exact Or.inl (List.mem_append_right _ h1)
  · intro m hm'
    rcases List.mem_append.mp hm' with h1 | h1
    · exact List.mem_append_left _ (mem_keys_del.mp h1).1
    · exact List.mem_append_right _ h1
  · intro m _
    simp only [Bool.or_eq_true, has_iff, hp m, List.mem_append]

theorem fold_eraseCs_minimal (pit : Name → Bool) (P : List Name) (hp : ∀ m, pit m = true ↔ m ∈ P)
    (vs rest : List Name) (s : St) (h : InvQ (vs ++ rest) s) (hm : Minimal s.nodes (s.cs.keys ++ P)) :
    Minimal (vs.foldl (eraseCs pit) s).nodes ((vs.foldl (eraseCs pit) s).cs.keys ++ P) := by
  induction vs generalizing s with
  | nil => exact hm
  | cons v t ih => exact ih _ (eraseCs_inv pit h) (eraseCs_minimal pit P hp h hm)

theorem insertData_minimal (pit : Name → Bool) (P : List Name) (hp : ∀ m, pit m = true ↔ m ∈ P)
    {s : St} (h : Inv s) (hm : Minimal s.nodes (s.cs.keys ++ P)) (n : Name) (w : Bytes) (f : Nat) :
    Minimal (insertData pit s n w f).nodes ((insertData pit s n w f).cs.keys ++ P) := by
  unfold insertData
  by_cases hn : s.cs.has n = true
  · simp only [hn, ↓reduceIte, keys_set]; exact hm
  · have hn' : s.cs.has n = false := by simpa using hn
    simp only [hn', Bool.false_eq_true, ↓reduceIte]
    -- the state before eviction satisfies the invariant and is minimal
    have h1 := insertData_inv pit h n w f
    let s1 : St := { s with nCs := s.nCs + 1, nodes := fill s.nodes n, cs := s.cs ++ [(n, ⟨w, s.now + f⟩)],
                            queue := s.queue ++ [n], hist := Ev.ins n w f s.now :: s.hist }
    have hk : n ∉ s.cs.keys := has_false_iff.mp hn'
    have hq : n ∉ s.queue := fun e => hk ((h.qmem n).mp e)
    have hinv1 : Inv s1 := by
      constructor
      · rw [List.nodup_append]
        refine ⟨h.qnodup, by simp, ?_⟩
        intro a ha b hb
        simp at hb; subst hb
        intro e; exact hq (e ▸ ha)
      · simp only [s1, keys_append]
        rw [List.nodup_append]
        refine ⟨h.knodup, by simp, ?_⟩
        intro a ha b hb
        simp at hb; subst hb
        intro e; exact hk (e ▸ ha)
      · intro x
        simp only [s1, keys_append, List.mem_append, List.mem_singleton, h.qmem x]
      · simp [s1, h.ncs]
      · intro x e he
        simp only [s1, get?_append] at he
        cases hg : s.cs.get? x with
        | some v =>
          simp [hg] at he
          subst he
          obtain ⟨f', t0, h1, h2⟩ := h.hist x v hg
          have : ¬ n = x := fun e => hk (e ▸ get?_some_mem_keys hg)
          exact ⟨f', t0, by simp [s1, lastInsert, this, h1], h2⟩
        | none =>
          simp [hg] at he
          obtain ⟨rfl, rfl⟩ := he
          exact ⟨f, s.now, by simp [s1, lastInsert], rfl⟩
      · have := touch_pairwise (e := Ev.ins n w f s.now) (n := n) h.lru (by simp [touches])
          (by intro x hx; simp [touches]; exact fun e => hx e.symm)
        rwa [rem_of_not_mem hq] at this
      · intro x hx p hp
        simp only [s1, keys_append, List.mem_append, List.mem_singleton] at hx
        show p ∈ fill s.nodes n
        rw [mem_fill]
        rcases hx with hx | rfl
        · exact Or.inl (h.reach x hx p hp)
        · exact Or.inr hp
      · intro x
        simp only [s1, cachedH, keys_append, List.mem_append, List.mem_singleton]
        by_cases hx : n = x
        · subst hx; simp
        · have : ¬ x = n := fun e => hx e.symm
          simp [hx, this, h.cached x]
    have hmin1 : Minimal s1.nodes (s1.cs.keys ++ P) := by
      apply fill_minimal' hm
      intro m
      simp only [s1, keys_append, List.mem_append, List.mem_singleton]
      constructor
      · rintro ((h | h) | h)
        · exact Or.inl (Or.inl h)
        · exact Or.inr h
        · exact Or.inl (Or.inr h)
      · rintro ((h | h) | h)
        · exact Or.inl (Or.inl h)
        · exact Or.inr h
        · exact Or.inl (Or.inr h)
    show Minimal (evict pit s1).nodes ((evict pit s1).cs.keys ++ P)
    unfold evict
    have h' : InvQ (s1.queue.take (s1.queue.length - s1.cap) ++ s1.queue.drop (s1.queue.length - s1.cap)) s1 := by
      rw [List.take_append_drop]; exact hinv1
    exact fold_eraseCs_minimal pit P hp _ _ s1 h' hmin1

end Ndn.C07
