/-
  C07 model — the Content-Store side of the PIT-CS name tree.

  Mirrors, branch by branch:
    fw/table/pit-cs-tree.go   InsertData (395-430), FindMatchingDataFromCS (376-392),
                              findMatchingDataCSPrefix (447-466), findExactMatchEntryEnc (317-326),
                              fillTreeToPrefixEnc (337-351), pruneIfEmpty (357-362),
                              eraseCsDataFromReplacementStrategy (434-441, with the F-08b fix: prune)
    fw/table/cs-lru.go        AfterInsert / AfterRefresh / BeforeUse / EvictEntries
    fw/table/init.go          SetCsCapacity / csCapacity
    fw/table/pit-cs.go        baseCsEntry.Copy (the bytes returned are the stored copy)

  Representation.  The pointer tree is represented by the list of the names of its non-root nodes
  (`nodes`); `csMap`, which the code keys by the 64-bit name hash, is keyed by the name itself
  (assumption A-hash: xxhash64 is injective on the names of a run — checked at run time by the
  harness).  The LRU `queue` holds names, head = next victim; `locations` is not represented (it is
  only ever used to find the queue element of a name that is in the queue).
  `hist` is a ghost event log (newest first) used by the specification only; no branch reads it.

  Core Lean only.
-/
import NdnVerif.Base.Name
namespace Ndn.C07

/-! ### small list helpers with `DecidableEq` (the derived `BEq` of `Component` is not lawful) -/

def memb (n : Name) (l : List Name) : Bool := l.any (fun x => decide (x = n))
def rem (n : Name) (l : List Name) : List Name := l.filter (fun x => decide (x ≠ n))

/-- all non-empty prefixes of `n`, shortest first -/
def prefixes (n : Name) : List Name := (List.range n.length).map (fun k => n.take (k + 1))

/-- `q` is a child of `p` in the name tree -/
def isChild (p q : Name) : Bool := decide (q ≠ [] ∧ q.dropLast = p)

def children (nodes : List Name) (p : Name) : List Name := nodes.filter (isChild p)

/-- `fillTreeToPrefixEnc`: create the missing nodes on the path to `n` -/
def fill (nodes : List Name) (n : Name) : List Name :=
  (prefixes n).foldl (fun acc p => if memb p acc then acc else acc ++ [p]) nodes

/-- `pruneIfEmpty` starting at `n`: walk towards the root removing nodes that have no children and
    that `keep` does not hold (keep = has a CS entry or PIT entries).  Fuel = depth. -/
def prune (keep : Name → Bool) : Nat → List Name → Name → List Name
  | 0, nodes, _ => nodes
  | k + 1, nodes, n =>
    if n ≠ [] ∧ (children nodes n).isEmpty ∧ keep n = false then prune keep k (rem n nodes) n.dropLast
    else nodes

structure Entry where
  wire : Bytes
  stale : Nat
deriving DecidableEq, Repr

/-- specification-level events (ghost) -/
inductive Ev where
  | ins (n : Name) (wire : Bytes) (fresh : Nat) (t : Nat)
  | hit (n : Name)
  | evict (n : Name)
  | cap (k : Nat)
deriving DecidableEq, Repr

abbrev CsMap := List (Name × Entry)

def CsMap.get? : CsMap → Name → Option Entry
  | [], _ => none
  | (k, e) :: t, n => if k = n then some e else CsMap.get? t n

def CsMap.del (m : CsMap) (n : Name) : CsMap := m.filter (fun p => decide (p.1 ≠ n))
def CsMap.keys (m : CsMap) : List Name := m.map (·.1)
def CsMap.has (m : CsMap) (n : Name) : Bool := (m.get? n).isSome
/-- replace the entry of an existing key in place -/
def CsMap.set : CsMap → Name → Entry → CsMap
  | [], _, _ => []
  | (k, e) :: t, n, e' => if k = n then (k, e') :: t else (k, e) :: CsMap.set t n e'

structure St where
  now : Nat := 0
  cap : Nat := 0
  nodes : List Name := []
  cs : CsMap := []
  queue : List Name := []
  nCs : Nat := 0
  hist : List Ev := []

def init (cap : Nat) : St := { cap := cap }

/-- `eraseCsDataFromReplacementStrategy` for one victim (+ prune, fix F-08b).
    `pit` tells which nodes hold PIT entries (always false at table level in C07). -/
def eraseCs (pit : Name → Bool) (s : St) (v : Name) : St :=
  if s.cs.has v then
    let cs' := s.cs.del v
    { s with cs := cs', nCs := s.nCs - 1,
             nodes := prune (fun n => CsMap.has cs' n || pit n) (v.length + 1) s.nodes v,
             hist := Ev.evict v :: s.hist }
  else s

/-- `CsLRU.EvictEntries`: while the queue is longer than the capacity erase the front -/
def evict (pit : Name → Bool) (s : St) : St :=
  let k := s.queue.length - s.cap
  let s' := (s.queue.take k).foldl (eraseCs pit) s
  { s' with queue := s.queue.drop k }

/-- `InsertData` (fresh = FreshnessPeriod, 0 when absent) -/
def insertData (pit : Name → Bool) (s : St) (n : Name) (wire : Bytes) (fresh : Nat) : St :=
  let e : Entry := ⟨wire, s.now + fresh⟩
  let h := Ev.ins n wire fresh s.now :: s.hist
  if s.cs.has n then
    -- refresh: AfterRefresh moves the name to the back of the queue
    { s with cs := s.cs.set n e, queue := rem n s.queue ++ [n], hist := h }
  else
    evict pit { s with nCs := s.nCs + 1, nodes := fill s.nodes n, cs := s.cs ++ [(n, e)],
                       queue := s.queue ++ [n], hist := h }

/-- `findExactMatchEntryEnc`: the node of `n` is reached from the root -/
def nodeAt (s : St) (n : Name) : Bool := (prefixes n).all (fun p => memb p s.nodes)

/-- the freshness test of both lookups -/
def acceptable (s : St) (mbf : Bool) (p : Name) : Bool :=
  match s.cs.get? p with
  | some e => !mbf || decide (s.now < e.stale)
  | none => false

/-- `findMatchingDataCSPrefix` for the child order `ord` (Go map iteration order) -/
def walk (ord : List Name → List Name) (s : St) (mbf : Bool) : Nat → Name → Option Name
  | 0, p => if acceptable s mbf p then some p else none
  | f + 1, p =>
    if acceptable s mbf p then some p
    else (ord (children s.nodes p)).findSome? (walk ord s mbf f)

/-- every answer some child order can produce -/
def walkAll (s : St) (mbf : Bool) : Nat → Name → List Name
  | 0, p => if acceptable s mbf p then [p] else []
  | f + 1, p =>
    if acceptable s mbf p then [p]
    else (children s.nodes p).flatMap (walkAll s mbf f)

def fuel (s : St) : Nat := s.nodes.length + 1

/-- result of a lookup: name and bytes of the entry returned -/
abbrev Ans := Option (Name × Bytes)

def ansOf (s : St) (p : Option Name) : Ans :=
  match p with
  | none => none
  | some q => (s.cs.get? q).map (fun e => (q, e.wire))

/-- `FindMatchingDataFromCS` -/
def findData (ord : List Name → List Name) (s : St) (n : Name) (cbp mbf : Bool) : St × Ans :=
  if nodeAt s n then
    if !cbp then
      if acceptable s mbf n then
        -- BeforeUse: move to the back of the LRU queue
        ({ s with queue := rem n s.queue ++ [n], hist := Ev.hit n :: s.hist }, ansOf s (some n))
      else (s, none)
    else (s, ansOf s (walk ord s mbf (fuel s) n))
  else (s, none)

def setCap (s : St) (k : Nat) : St := { s with cap := k, hist := Ev.cap k :: s.hist }
def advance (s : St) (d : Nat) : St := { s with now := s.now + d }

/-- `fw/mgmt/cs.go` `ContentStoreModule.config` for well-formed ControlParameters: 409 when exactly
    one of Flags / Mask is present, otherwise 200 and — when a Capacity (≤ MaxInt) is given, with or
    without Flags+Mask — `table.SetCsCapacity`, the Capacity echoed in the response -/
def csConfig (s : St) (cap : Option Nat) (hasFlags hasMask : Bool) : St × Nat × Option Nat :=
  if hasFlags != hasMask then (s, 409, none)
  else match cap with
    | some k => (setCap s k, 200, some k)
    | none => (s, 200, none)

inductive Op where
  | ins (n : Name) (wire : Bytes) (fresh : Nat)
  | find (n : Name) (cbp mbf : Bool) (ord : List Name → List Name)
  | cap (k : Nat)
  | mgmt (cap : Option Nat) (hasFlags hasMask : Bool)
  | adv (d : Nat)

def step (s : St) : Op → St × Ans
  | .ins n w f => (insertData (fun _ => false) s n w f, none)
  | .find n c m ord => findData ord s n c m
  | .cap k => (setCap s k, none)
  | .mgmt c hf hm => ((csConfig s c hf hm).1, none)
  | .adv d => (advance s d, none)

def run (s : St) : List Op → St
  | [] => s
  | op :: ops => run (step s op).1 ops

end Ndn.C07
