/-
  C07 helper lemmas: the invariant of the Content-Store model and its preservation.
  `InvQ q s` is the invariant stated for an explicit LRU queue `q` (during `EvictEntries` the
  victims leave the map one by one while `s.queue` is only cut afterwards); `Inv s = InvQ s.queue s`.
-/
import NdnVerif.C07.LemmasTree
namespace Ndn.C07

/-- an event that inserts, refreshes or exact-hits no name -/
def Ev.quiet : Ev → Bool
  | Ev.evict _ => true
  | Ev.cap _ => true
  | _ => false

theorem age_quiet {e : Ev} (h : e.quiet = true) (hs : List Ev) (x : Name) : age (e :: hs) x = age hs x + 1 := by
  cases e <;> simp_all [Ev.quiet, age, touches]

theorem lastInsert_quiet_or_hit {e : Ev} (h : e.quiet = true ∨ ∃ m, e = Ev.hit m) (hs : List Ev) (x : Name) :
    lastInsert (e :: hs) x = lastInsert hs x := by
  rcases h with h | ⟨m, rfl⟩
  · cases e <;> simp_all [Ev.quiet, lastInsert]
  · simp [lastInsert]

structure InvQ (q : List Name) (s : St) : Prop where
  qnodup : q.Nodup
  knodup : s.cs.keys.Nodup
  qmem : ∀ n, n ∈ q ↔ n ∈ s.cs.keys
  ncs : s.nCs = s.cs.length
  hist : ∀ n e, s.cs.get? n = some e → ∃ f t0, lastInsert s.hist n = some (e.wire, f, t0) ∧ e.stale = t0 + f
  lru : q.Pairwise (fun a b => age s.hist b < age s.hist a)
  reach : ∀ n, n ∈ s.cs.keys → ∀ p ∈ prefixes n, p ∈ s.nodes
  cached : ∀ n, cachedH s.hist n = true ↔ n ∈ s.cs.keys

abbrev Inv (s : St) : Prop := InvQ s.queue s

theorem inv_init (k : Nat) : Inv (init k) := by
  constructor <;> simp [init, CsMap.keys, CsMap.get?, cachedH]

theorem Inv.qlen {s : St} (h : Inv s) : s.queue.length = s.cs.length := by
  have hp : s.queue.Perm s.cs.keys := (List.perm_ext_iff_of_nodup h.qnodup h.knodup).mpr h.qmem
  have := hp.length_eq
  simpa [CsMap.keys] using this

/-! ### moving a name to the back of the queue (refresh / exact hit) -/

theorem touch_pairwise {q : List Name} {hs : List Ev} {e : Ev} {n : Name}
    (hq : q.Pairwise (fun a b => age hs b < age hs a))
    (hn : touches e n = true) (ho : ∀ x, x ≠ n → touches e x = false) :
    (rem n q ++ [n]).Pairwise (fun a b => age (e :: hs) b < age (e :: hs) a) := by
  rw [List.pairwise_append]
  refine ⟨?_, by simp, ?_⟩
  · have hsub : (rem n q).Sublist q := List.filter_sublist
    have := hq.sublist hsub
    rw [List.pairwise_iff_forall_sublist] at this ⊢
    intro a b hab
    have ha : a ∈ rem n q := hab.subset (by simp)
    have hb : b ∈ rem n q := hab.subset (by simp)
    have hab' := this hab
    simp only [age, ho a (mem_rem.mp ha).2, ho b (mem_rem.mp hb).2]
    simp; omega
  · intro a ha b hb
    simp at hb; subst hb
    simp only [age, hn, ho a (mem_rem.mp ha).2]
    simp

theorem quiet_pairwise {q : List Name} {hs : List Ev} {e : Ev} (he : e.quiet = true)
    (hq : q.Pairwise (fun a b => age hs b < age hs a)) :
    q.Pairwise (fun a b => age (e :: hs) b < age (e :: hs) a) := by
  apply hq.imp
  intro a b hab
  rw [age_quiet he, age_quiet he]; omega

/-! ### one eviction -/

theorem eraseCs_inv (pit : Name → Bool) {v : Name} {q : List Name} {s : St} (h : InvQ (v :: q) s) :
    InvQ q (eraseCs pit s v) := by
  have hv : v ∈ s.cs.keys := (h.qmem v).mp (by simp)
  have hhas : s.cs.has v = true := has_iff.mpr hv
  have hvq : v ∉ q := (List.nodup_cons.mp h.qnodup).1
  simp only [eraseCs, hhas, ↓reduceIte]
  constructor
  · exact (List.nodup_cons.mp h.qnodup).2
  · simp only [keys_del]; exact rem_nodup h.knodup
  · intro n
    simp only [mem_keys_del]
    constructor
    · intro hn
      exact ⟨(h.qmem n).mp (List.mem_cons_of_mem _ hn), fun e => hvq (e ▸ hn)⟩
    · rintro ⟨hn, hne⟩
      rcases List.mem_cons.mp ((h.qmem n).mpr hn) with e | hn'
      · exact absurd e hne
      · exact hn'
  · have := length_del h.knodup hv
    simp only [h.ncs]; omega
  · intro n e he
    simp only [get?_del] at he
    split at he
    · cases he
    · obtain ⟨f, t0, h1, h2⟩ := h.hist n e he
      exact ⟨f, t0, by simpa [lastInsert] using h1, h2⟩
  · exact quiet_pairwise (by simp [Ev.quiet]) (List.Pairwise.of_cons h.lru)
  · intro n hn p hp
    apply prune_keeps _ _ _ _ (s.cs.del v).keys
    · intro m hm; simp [has_iff.mpr hm]
    · intro m hm p hp
      exact h.reach m (mem_keys_del.mp hm).1 p hp
    · exact hn
    · exact hp
  · intro n
    simp only [cachedH, mem_keys_del]
    by_cases hvn : v = n
    · subst hvn; simp
    · have : n ≠ v := fun e => hvn e.symm
      simp [hvn, this, h.cached n]

theorem eraseCs_fields (pit : Name → Bool) (s : St) (v : Name) :
    (eraseCs pit s v).queue = s.queue ∧ (eraseCs pit s v).cap = s.cap ∧ (eraseCs pit s v).now = s.now ∧
    ∃ l, (∀ e ∈ l, Ev.quiet e = true) ∧ (eraseCs pit s v).hist = l ++ s.hist := by
  unfold eraseCs
  split
  · exact ⟨rfl, rfl, rfl, [Ev.evict v], by simp [Ev.quiet], rfl⟩
  · exact ⟨rfl, rfl, rfl, [], by simp, rfl⟩

theorem fold_eraseCs_inv (pit : Name → Bool) (vs rest : List Name) (s : St) (h : InvQ (vs ++ rest) s) :
    InvQ rest (vs.foldl (eraseCs pit) s) := by
  induction vs generalizing s with
  | nil => exact h
  | cons v t ih => exact ih _ (eraseCs_inv pit h)

theorem fold_eraseCs_fields (pit : Name → Bool) (vs : List Name) (s : St) :
    (vs.foldl (eraseCs pit) s).cap = s.cap ∧ (vs.foldl (eraseCs pit) s).now = s.now ∧
    ∃ l, (∀ e ∈ l, Ev.quiet e = true) ∧ (vs.foldl (eraseCs pit) s).hist = l ++ s.hist := by
  induction vs generalizing s with
  | nil => exact ⟨rfl, rfl, [], by simp, rfl⟩
  | cons v t ih =>
    obtain ⟨h1, h2, l, hl, h3⟩ := ih (eraseCs pit s v)
    obtain ⟨_, g1, g2, l', hl', g3⟩ := eraseCs_fields pit s v
    refine ⟨by simp [h1, g1], by simp [h2, g2], l ++ l', ?_, ?_⟩
    · intro e he; rcases List.mem_append.mp he with he | he
      · exact hl e he
      · exact hl' e he
    · simp [h3, g3]

theorem evict_inv (pit : Name → Bool) {s : St} (h : Inv s) : Inv (evict pit s) := by
  unfold evict
  have h' : InvQ (s.queue.take (s.queue.length - s.cap) ++ s.queue.drop (s.queue.length - s.cap)) s := by
    rw [List.take_append_drop]; exact h
  have := fold_eraseCs_inv pit _ _ s h'
  exact ⟨this.qnodup, this.knodup, this.qmem, this.ncs, this.hist, this.lru, this.reach, this.cached⟩

/-! ### the operations -/

theorem insertData_inv (pit : Name → Bool) {s : St} (h : Inv s) (n : Name) (w : Bytes) (f : Nat) :
    Inv (insertData pit s n w f) := by
  unfold insertData
  by_cases hn : s.cs.has n = true
  · -- refresh
    have hk : n ∈ s.cs.keys := has_iff.mp hn
    simp only [hn, ↓reduceIte]
    constructor
    · have := rem_nodup (n := n) h.qnodup
      rw [List.nodup_append]
      refine ⟨this, by simp, ?_⟩
      intro a ha b hb
      simp at hb; subst hb
      exact (mem_rem.mp ha).2
    · simp only [keys_set]; exact h.knodup
    · intro x
      simp only [keys_set, List.mem_append, mem_rem, List.mem_singleton]
      constructor
      · rintro (⟨hx, _⟩ | rfl)
        · exact (h.qmem x).mp hx
        · exact hk
      · intro hx
        by_cases e : x = n
        · exact Or.inr e
        · exact Or.inl ⟨(h.qmem x).mpr hx, e⟩
    · simp only [length_set]; exact h.ncs
    · intro x e he
      simp only [get?_set] at he
      by_cases hx : x = n
      · subst hx
        obtain ⟨e0, he0⟩ := mem_keys_get? hk
        simp [he0] at he
        subst he
        exact ⟨f, s.now, by simp [lastInsert], rfl⟩
      · simp only [hx, ↓reduceIte] at he
        obtain ⟨f', t0, h1, h2⟩ := h.hist x e he
        have : ¬ n = x := fun e => hx e.symm
        exact ⟨f', t0, by simp [lastInsert, this, h1], h2⟩
    · exact touch_pairwise h.lru (by simp [touches]) (by intro x hx; simp [touches]; exact fun e => hx e.symm)
    · simp only [keys_set]; exact h.reach
    · intro x
      simp only [cachedH, keys_set]
      by_cases hx : n = x
      · subst hx; simp [hk]
      · simp [hx, h.cached x]
  · -- new name, then evict
    have hn' : s.cs.has n = false := by simpa using hn
    have hk : n ∉ s.cs.keys := has_false_iff.mp hn'
    have hq : n ∉ s.queue := fun e => hk ((h.qmem n).mp e)
    simp only [hn']
    apply evict_inv
    constructor
    · rw [List.nodup_append]
      refine ⟨h.qnodup, by simp, ?_⟩
      intro a ha b hb
      simp at hb; subst hb
      intro e; exact hq (e ▸ ha)
    · simp only [keys_append]
      rw [List.nodup_append]
      refine ⟨h.knodup, by simp, ?_⟩
      intro a ha b hb
      simp at hb; subst hb
      intro e; exact hk (e ▸ ha)
    · intro x
      simp only [keys_append, List.mem_append, List.mem_singleton, h.qmem x]
    · simp [h.ncs]
    · intro x e he
      simp only [get?_append] at he
      cases hg : s.cs.get? x with
      | some v =>
        simp [hg] at he
        subst he
        obtain ⟨f', t0, h1, h2⟩ := h.hist x v hg
        have : ¬ n = x := fun e => hk (e ▸ get?_some_mem_keys hg)
        exact ⟨f', t0, by simp [lastInsert, this, h1], h2⟩
      | none =>
        simp [hg] at he
        obtain ⟨rfl, rfl⟩ := he
        exact ⟨f, s.now, by simp [lastInsert], rfl⟩
    · have := touch_pairwise (e := Ev.ins n w f s.now) (n := n) h.lru (by simp [touches])
        (by intro x hx; simp [touches]; exact fun e => hx e.symm)
      rwa [rem_of_not_mem hq] at this
    · intro x hx p hp
      simp only [keys_append, List.mem_append, List.mem_singleton] at hx
      rw [mem_fill]
      rcases hx with hx | rfl
      · exact Or.inl (h.reach x hx p hp)
      · exact Or.inr hp
    · intro x
      simp only [cachedH, keys_append, List.mem_append, List.mem_singleton]
      by_cases hx : n = x
      · subst hx; simp
      · have : ¬ x = n := fun e => hx e.symm
        simp [hx, this, h.cached x]

theorem acceptable_get? {s : St} {mbf : Bool} {p : Name} (h : acceptable s mbf p = true) :
    ∃ e, s.cs.get? p = some e ∧ (mbf = true → s.now < e.stale) := by
  unfold acceptable at h
  cases hg : s.cs.get? p with
  | none => simp [hg] at h
  | some e =>
    simp [hg] at h
    refine ⟨e, rfl, ?_⟩
    intro hm; rcases h with h | h
    · simp [hm] at h
    · exact h

theorem findData_inv (ord : List Name → List Name) {s : St} (h : Inv s) (n : Name) (cbp mbf : Bool) :
    Inv (findData ord s n cbp mbf).1 := by
  unfold findData
  split
  · split
    · split
      · rename_i hacc
        obtain ⟨e, he, _⟩ := acceptable_get? hacc
        have hk : n ∈ s.cs.keys := get?_some_mem_keys he
        constructor
        · have := rem_nodup (n := n) h.qnodup
          rw [List.nodup_append]
          refine ⟨this, by simp, ?_⟩
          intro a ha b hb
          simp at hb; subst hb
          exact (mem_rem.mp ha).2
        · exact h.knodup
        · intro x
          simp only [List.mem_append, mem_rem, List.mem_singleton]
          constructor
          · rintro (⟨hx, _⟩ | rfl)
            · exact (h.qmem x).mp hx
            · exact hk
          · intro hx
            by_cases e : x = n
            · exact Or.inr e
            · exact Or.inl ⟨(h.qmem x).mpr hx, e⟩
        · exact h.ncs
        · intro x e hx
          obtain ⟨f', t0, h1, h2⟩ := h.hist x e hx
          exact ⟨f', t0, by simpa [lastInsert] using h1, h2⟩
        · exact touch_pairwise h.lru (by simp [touches]) (by intro x hx; simp [touches]; exact fun e => hx e.symm)
        · exact h.reach
        · intro x; simp only [cachedH]; exact h.cached x
      · exact h
    · exact h
  · exact h

theorem setCap_inv {s : St} (h : Inv s) (k : Nat) : Inv (setCap s k) := by
  unfold setCap
  constructor
  · exact h.qnodup
  · exact h.knodup
  · exact h.qmem
  · exact h.ncs
  · intro x e hx
    obtain ⟨f', t0, h1, h2⟩ := h.hist x e hx
    exact ⟨f', t0, by simpa [lastInsert] using h1, h2⟩
  · exact quiet_pairwise (by simp [Ev.quiet]) h.lru
  · exact h.reach
  · intro x; simp only [cachedH]; exact h.cached x

theorem advance_inv {s : St} (h : Inv s) (d : Nat) : Inv (advance s d) := by
  unfold advance
  exact ⟨h.qnodup, h.knodup, h.qmem, h.ncs, h.hist, h.lru, h.reach, h.cached⟩

theorem step_inv {s : St} (h : Inv s) (op : Op) : Inv (step s op).1 := by
  cases op with
  | ins n w f => exact insertData_inv _ h n w f
  | find n c m ord => exact findData_inv ord h n c m
  | cap k => exact setCap_inv h k
  | mgmt c hf hm =>
    simp only [step, csConfig]
    split
    · exact h
    · cases c with
      | none => exact h
      | some k => exact setCap_inv h k
  | adv d => exact advance_inv h d

theorem run_inv {s : St} (h : Inv s) (ops : List Op) : Inv (run s ops) := by
  induction ops generalizing s with
  | nil => exact h
  | cons op t ih => exact ih (step_inv h op)

end Ndn.C07
