/-
  C07/C08 helper lemmas about the name-tree node set: prefixes, fill, prune.
-/
import NdnVerif.C07.Lemmas
namespace Ndn.C07

theorem mem_prefixes {p m : Name} : p ∈ prefixes m ↔ ∃ k, k < m.length ∧ p = m.take (k + 1) := by
  simp [prefixes]
  constructor
  · rintro ⟨k, hk, rfl⟩; exact ⟨k, hk, rfl⟩
  · rintro ⟨k, hk, rfl⟩; exact ⟨k, hk, rfl⟩

theorem self_mem_prefixes {m : Name} (h : m ≠ []) : m ∈ prefixes m := by
  rw [mem_prefixes]
  have : 0 < m.length := List.length_pos_iff.mpr h
  refine ⟨m.length - 1, by omega, ?_⟩
  have e : m.length - 1 + 1 = m.length := by omega
  rw [e, List.take_length]

theorem prefixes_ne_nil {p m : Name} (h : p ∈ prefixes m) : p ≠ [] := by
  obtain ⟨k, hk, rfl⟩ := mem_prefixes.mp h
  intro e
  have := congrArg List.length e
  simp only [List.length_take, List.length_nil] at this; omega

/-- a prefix of a prefix is a prefix -/
theorem prefixes_trans {q p m : Name} (hp : p ∈ prefixes m) (hq : q ∈ prefixes p) : q ∈ prefixes m := by
  obtain ⟨k, hk, rfl⟩ := mem_prefixes.mp hp
  obtain ⟨j, hj, rfl⟩ := mem_prefixes.mp hq
  rw [mem_prefixes]
  simp at hj
  refine ⟨j, by omega, ?_⟩
  rw [List.take_take]; congr 1; omega

/-- a proper prefix `p` of `m` has a child that is again a prefix of `m` -/
theorem proper_prefix_child {p m : Name} (hp : p ∈ prefixes m) (hne : p ≠ m) :
    ∃ c, c ∈ prefixes m ∧ isChild p c = true := by
  obtain ⟨k, hk, rfl⟩ := mem_prefixes.mp hp
  have hlt : k + 1 < m.length := by
    rcases Nat.lt_or_ge (k + 1) m.length with h | h
    · exact h
    · exfalso; apply hne; exact List.take_of_length_le h
  refine ⟨m.take (k + 2), mem_prefixes.mpr ⟨k + 1, hlt, rfl⟩, ?_⟩
  simp only [isChild, decide_eq_true_eq]
  constructor
  · intro e
    have := congrArg List.length e
    simp only [List.length_take, List.length_nil] at this; omega
  · rw [List.dropLast_eq_take, List.length_take, List.take_take]; congr 1; omega

theorem mem_children {nodes : List Name} {p c : Name} : c ∈ children nodes p ↔ c ∈ nodes ∧ isChild p c = true := by
  simp [children]

/-! ### fill -/

theorem fill_aux_mono (ps : List Name) (acc : List Name) (x : Name) (h : x ∈ acc) :
    x ∈ ps.foldl (fun acc p => if memb p acc then acc else acc ++ [p]) acc := by
  induction ps generalizing acc with
  | nil => exact h
  | cons p t ih =>
    simp only [List.foldl_cons]
    apply ih
    split
    · exact h
    · exact List.mem_append_left _ h

theorem fill_aux_mem (ps : List Name) (acc : List Name) (x : Name) (h : x ∈ ps) :
    x ∈ ps.foldl (fun acc p => if memb p acc then acc else acc ++ [p]) acc := by
  induction ps generalizing acc with
  | nil => cases h
  | cons p t ih =>
    simp only [List.foldl_cons]
    rcases List.mem_cons.mp h with rfl | h
    · apply fill_aux_mono
      split
      · rename_i hm; exact memb_iff.mp hm
      · simp
    · exact ih _ h

theorem fill_aux_sub (ps : List Name) (acc : List Name) (x : Name)
    (h : x ∈ ps.foldl (fun acc p => if memb p acc then acc else acc ++ [p]) acc) : x ∈ acc ∨ x ∈ ps := by
  induction ps generalizing acc with
  | nil => exact Or.inl h
  | cons p t ih =>
    simp only [List.foldl_cons] at h
    rcases ih _ h with h | h
    · split at h
      · exact Or.inl h
      · rcases List.mem_append.mp h with h | h
        · exact Or.inl h
        · simp at h; exact Or.inr (by simp [h])
    · exact Or.inr (List.mem_cons_of_mem _ h)

theorem mem_fill {nodes : List Name} {n x : Name} : x ∈ fill nodes n ↔ x ∈ nodes ∨ x ∈ prefixes n := by
  constructor
  · exact fill_aux_sub _ _ _
  · rintro (h | h)
    · exact fill_aux_mono _ _ _ h
    · exact fill_aux_mem _ _ _ h

/-! ### prune -/

theorem prune_sub (keep : Name → Bool) (k : Nat) (nodes : List Name) (n x : Name)
    (h : x ∈ prune keep k nodes n) : x ∈ nodes := by
  induction k generalizing nodes n with
  | zero => exact h
  | succ k ih =>
    simp only [prune] at h
    split at h
    · exact (mem_rem.mp (ih _ _ h)).1
    · exact h

/-- pruning never removes a node that lies on the path to a kept name -/
theorem prune_keeps (keep : Name → Bool) (k : Nat) (nodes : List Name) (n : Name) (K : List Name)
    (hk : ∀ m ∈ K, keep m = true) (hr : ∀ m ∈ K, ∀ p ∈ prefixes m, p ∈ nodes) :
    ∀ m ∈ K, ∀ p ∈ prefixes m, p ∈ prune keep k nodes n := by
  induction k generalizing nodes n with
  | zero => exact hr
  | succ k ih =>
    simp only [prune]
    split
    · rename_i hc
      obtain ⟨_, hch, hkeep⟩ := hc
      apply ih
      intro m hm p hp
      rw [mem_rem]
      refine ⟨hr m hm p hp, ?_⟩
      intro e
      subst e
      by_cases hpm : p = m
      · subst hpm; rw [hk p hm] at hkeep; cases hkeep
      · obtain ⟨c, hc1, hc2⟩ := proper_prefix_child hp hpm
        have : c ∈ children nodes p := mem_children.mpr ⟨hr m hm c hc1, hc2⟩
        simp [List.isEmpty_iff] at hch
        rw [hch] at this; cases this
    · exact hr

theorem nodeAt_iff {s : St} {n : Name} : nodeAt s n = true ↔ ∀ p ∈ prefixes n, p ∈ s.nodes := by
  simp [nodeAt, memb_iff]

end Ndn.C07
