/-
  C07 helper lemmas: the prefix walk, ages across eviction events.
-/
import NdnVerif.C07.LemmasInv
namespace Ndn.C07

theorem isPrefix_iff {a b : Name} : isPrefix a b = true ↔ a <+: b := by
  simp only [isPrefix, decide_eq_true_eq]
  rw [List.prefix_iff_eq_take]
  exact ⟨fun h => h.symm, fun h => h.symm⟩

theorem isChild_prefix {p c : Name} (h : isChild p c = true) : p <+: c := by
  simp only [isChild, decide_eq_true_eq] at h
  rw [← h.2]; exact List.dropLast_prefix c

/-- whatever the child order, the walk returns an acceptable entry at or below its start node -/
theorem walk_sound {ord : List Name → List Name} (ho : OrdOk ord) (s : St) (mbf : Bool) :
    ∀ (f : Nat) (p q : Name), walk ord s mbf f p = some q → acceptable s mbf q = true ∧ p <+: q := by
  intro f
  induction f with
  | zero =>
    intro p q h
    simp only [walk] at h
    split at h
    · cases h; rename_i ha; exact ⟨ha, List.prefix_refl _⟩
    · cases h
  | succ f ih =>
    intro p q h
    simp only [walk] at h
    split at h
    · cases h; rename_i ha; exact ⟨ha, List.prefix_refl _⟩
    · obtain ⟨l1, c, l2, hl, hc, _⟩ := List.findSome?_eq_some_iff.mp h
      have hmem : c ∈ ord (children s.nodes p) := by rw [hl]; simp
      have hch := mem_children.mp (ho _ _ hmem)
      obtain ⟨ha, hpre⟩ := ih c q hc
      exact ⟨ha, (isChild_prefix hch.2).trans hpre⟩

/-- every answer of the walk is one of `walkAll` (what the driver accepts) -/
theorem walk_mem_walkAll {ord : List Name → List Name} (ho : OrdOk ord) (s : St) (mbf : Bool) :
    ∀ (f : Nat) (p q : Name), walk ord s mbf f p = some q → q ∈ walkAll s mbf f p := by
  intro f
  induction f with
  | zero =>
    intro p q h
    simp only [walk] at h
    simp only [walkAll]
    split at h
    · cases h; rename_i ha; simp [ha]
    · cases h
  | succ f ih =>
    intro p q h
    simp only [walk] at h
    simp only [walkAll]
    split at h
    · cases h; rename_i ha; simp [ha]
    · rename_i hna
      obtain ⟨l1, c, l2, hl, hc, _⟩ := List.findSome?_eq_some_iff.mp h
      have hmem : c ∈ ord (children s.nodes p) := by rw [hl]; simp
      simp only [hna, Bool.false_eq_true, ↓reduceIte, List.mem_flatMap]
      exact ⟨c, ho _ _ hmem, ih c q hc⟩

theorem age_quiets {l : List Ev} (hl : ∀ e ∈ l, Ev.quiet e = true) (hs : List Ev) (x : Name) :
    age (l ++ hs) x = age hs x + l.length := by
  induction l with
  | nil => simp
  | cons e t ih =>
    have he : Ev.quiet e = true := hl e (by simp)
    have ht : ∀ e ∈ t, Ev.quiet e = true := fun e h => hl e (by simp [h])
    simp only [List.cons_append, age_quiet he, ih ht, List.length_cons]; omega

end Ndn.C07
