/-
  C07 specification — what a Content Store may answer, stated over the HISTORY of events only
  (insertions with their time, exact-name hits, capacity changes); no tree, no queue, no map.

  * `csAnswerOk`   : an answer is the bytes most recently inserted under a name that equals the
                     Interest name (or extends it when CanBePrefix), and with MustBeFresh only while
                     `now < t0 + freshness` (t0 = time of that insertion).
  * `Ref`/`refOf`  : the reference LRU cache: the names cached, least recently used first, obtained
                     by replaying insert / refresh / exact-hit / capacity events.  It defines which
                     names are cached after a history (capacity, eviction order).
  * `age`          : number of events since a name was last inserted, refreshed or hit; the LRU
                     victim is the cached name of greatest age.
  All predicates are Bool-valued and executable: the driver evaluates them on the
  IMPLEMENTATION's outputs.  Core Lean only.
-/
import NdnVerif.C07.Model
namespace Ndn.C07

structure Interest where
  name : Name
  cbp : Bool
  mbf : Bool

/-- `a` is a prefix of `b` -/
def isPrefix (a b : Name) : Bool := decide (b.take a.length = a)

/-- most recent insertion under `n`: bytes, freshness period, insertion time (history newest first) -/
def lastInsert : List Ev → Name → Option (Bytes × Nat × Nat)
  | [], _ => none
  | Ev.ins m w f t :: h, n => if m = n then some (w, f, t) else lastInsert h n
  | _ :: h, n => lastInsert h n

def nameMatches (i : Interest) (n : Name) : Bool := decide (n = i.name) || (i.cbp && isPrefix i.name n)

/-- the C07 answer predicate (DESIGN Appendix B) -/
def csAnswerOk (hist : List Ev) (now : Nat) (i : Interest) (ans : Ans) : Bool :=
  match ans with
  | none => true
  | some (n, b) =>
    match lastInsert hist n with
    | some (w, f, t0) => decide (w = b) && nameMatches i n && (!i.mbf || decide (now < t0 + f))
    | none => false

/-- does the event insert, refresh or exact-hit `n`? -/
def touches : Ev → Name → Bool
  | Ev.ins m _ _ _, n => decide (m = n)
  | Ev.hit m, n => decide (m = n)
  | _, _ => false

/-- events since `n` was last touched (history newest first) -/
def age : List Ev → Name → Nat
  | [], _ => 0
  | e :: h, n => if touches e n then 0 else age h n + 1

/-- reference LRU cache -/
structure Ref where
  cap : Nat
  order : List Name      -- least recently used first

def refStep (r : Ref) : Ev → Ref
  | Ev.ins n _ _ _ =>
    if memb n r.order then { r with order := rem n r.order ++ [n] }
    else
      let o := r.order ++ [n]
      { r with order := o.drop (o.length - r.cap) }
  | Ev.hit n => if memb n r.order then { r with order := rem n r.order ++ [n] } else r
  | Ev.evict _ => r
  | Ev.cap k => { r with cap := k }

def refOf (cap0 : Nat) : List Ev → Ref
  | [] => ⟨cap0, []⟩
  | e :: h => refStep (refOf cap0 h) e

/-- is `n` cached according to the event log (inserted and not evicted since)? -/
def cachedH : List Ev → Name → Bool
  | [], _ => false
  | Ev.ins m _ _ _ :: h, n => if m = n then true else cachedH h n
  | Ev.evict m :: h, n => if m = n then false else cachedH h n
  | _ :: h, n => cachedH h n

/-- child orders considered: the walk visits children only (any permutation qualifies) -/
def OrdOk (ord : List Name → List Name) : Prop := ∀ l x, x ∈ ord l → x ∈ l

end Ndn.C07
