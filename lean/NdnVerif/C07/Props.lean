/-
  C07 — property theorems only (helper lemmas: Lemmas.lean, LemmasTree.lean, LemmasInv.lean,
  LemmasFind.lean).  Every theorem is about the model of Model.lean, for EVERY history of operations
  (`run (init cap) ops`, no bound on length, names, capacities or times) and every order in which a
  Go map may enumerate the children of a tree node (`OrdOk`).

  Assumption A-hash: the tables of the model are keyed by names; the code keys them by xxhash64 of
  the names (injective on the names of a run: checked by the harness at run time).
-/
import NdnVerif.C07.LemmasFind
namespace Ndn.C07

/-- every state reached from an empty store of any capacity by any history satisfies the invariant -/
theorem reachable_inv (cap : Nat) (ops : List Op) : Inv (run (init cap) ops) :=
  run_inv (inv_init cap) ops

/-- **cs_find_sound.** A lookup answers only with the bytes most recently inserted under a name
    that equals the Interest name — or extends it when CanBePrefix is set — and, when MustBeFresh is
    set, only while `now < insertion time + freshness period`; for every history and child order. -/
theorem cs_find_sound (cap : Nat) (ops : List Op) (n : Name) (cbp mbf : Bool)
    (ord : List Name → List Name) (ho : OrdOk ord) :
    let s := run (init cap) ops
    csAnswerOk s.hist s.now ⟨n, cbp, mbf⟩ (findData ord s n cbp mbf).2 = true := by
  intro s
  have h : Inv s := reachable_inv cap ops
  -- every acceptable entry at a matching name is a correct answer
  have key : ∀ q, acceptable s mbf q = true → nameMatches ⟨n, cbp, mbf⟩ q = true →
      csAnswerOk s.hist s.now ⟨n, cbp, mbf⟩ (ansOf s (some q)) = true := by
    intro q ha hm
    obtain ⟨e, he, hf⟩ := acceptable_get? ha
    obtain ⟨f, t0, h1, h2⟩ := h.hist q e he
    simp only [ansOf, he, Option.map_some, csAnswerOk, h1, hm]
    cases mbf with
    | false => simp
    | true => have := hf rfl; simp; omega
  unfold findData
  split
  · split
    · split
      · rename_i ha; exact key n ha (by simp [nameMatches])
      · simp [csAnswerOk]
    · rename_i hc
      have hc' : cbp = true := by simpa using hc
      cases hw : walk ord s mbf (fuel s) n with
      | none => simp [ansOf, csAnswerOk]
      | some q =>
        obtain ⟨ha, hp⟩ := walk_sound ho s mbf _ _ _ hw
        exact key q ha (by simp [nameMatches, hc', isPrefix_iff.mpr hp])
  · simp [csAnswerOk]

example : csAnswerOk [Ev.ins [⟨8, [97]⟩] [1] 5 0] 3 ⟨[], true, true⟩ (some ([⟨8, [97]⟩], [1])) = true := by decide
example : csAnswerOk [Ev.ins [⟨8, [97]⟩] [1] 5 0] 5 ⟨[], true, true⟩ (some ([⟨8, [97]⟩], [1])) = false := by decide

/-- **cs_capacity_after_insert.** Inserting a packet under a name that is not cached leaves at most
    the currently configured capacity of packets cached, and the reported size is the true size —
    whatever the history, hence also when the capacity was lowered before (`Op.cap`). -/
theorem cs_capacity_after_insert (cap : Nat) (ops : List Op) (n : Name) (w : Bytes) (f : Nat)
    (pit : Name → Bool) :
    let s := run (init cap) ops
    let s' := insertData pit s n w f
    s.cs.has n = false → s'.cs.length ≤ s.cap ∧ s'.cap = s.cap ∧ s'.nCs = s'.cs.length := by
  intro s s' hn
  have h : Inv s := reachable_inv cap ops
  have h' : Inv s' := insertData_inv pit h n w f
  have hq : s'.queue.length ≤ s.cap ∧ s'.cap = s.cap := by
    simp only [s', insertData, hn, Bool.false_eq_true, ↓reduceIte, evict]
    obtain ⟨h1, _, _⟩ := fold_eraseCs_fields pit
      ((s.queue ++ [n]).take ((s.queue ++ [n]).length - s.cap))
      { s with nCs := s.nCs + 1, nodes := fill s.nodes n, cs := s.cs ++ [(n, ⟨w, s.now + f⟩)],
               queue := s.queue ++ [n], hist := Ev.ins n w f s.now :: s.hist }
    simp only [List.length_drop] at *
    exact ⟨by omega, h1⟩
  exact ⟨by rw [← h'.qlen]; exact hq.1, hq.2, h'.ncs⟩

example : (insertData (fun _ => false) (run (init 1) [Op.ins [⟨8, [97]⟩] [1] 0]) [⟨8, [98]⟩] [2] 0).cs.length = 1 := by decide
example : (insertData (fun _ => false) (run (init 2) [Op.ins [⟨8, [97]⟩] [1] 0, Op.ins [⟨8, [99]⟩] [1] 0, Op.cap 0]) [⟨8, [98]⟩] [2] 0).cs.length = 0 := by decide

/-- **cs_evicts_lru.** Whatever an insertion evicts was touched (inserted, refreshed or hit by an
    exact-name lookup) less recently than everything that stays cached: `age` = number of events
    since the last touch, so every victim is strictly older than every survivor. -/
theorem cs_evicts_lru (cap : Nat) (ops : List Op) (n : Name) (w : Bytes) (f : Nat) (pit : Name → Bool) :
    let s := run (init cap) ops
    let s' := insertData pit s n w f
    ∀ v, (v ∈ s.cs.keys ∨ v = n) → v ∉ s'.cs.keys → ∀ m ∈ s'.cs.keys, age s'.hist m < age s'.hist v := by
  intro s s' v hv hv' m hm
  have h : Inv s := reachable_inv cap ops
  have h' : Inv s' := insertData_inv pit h n w f
  by_cases hn : s.cs.has n = true
  · -- refresh: nothing leaves the store
    exfalso; apply hv'
    simp only [s', insertData, hn, ↓reduceIte, keys_set]
    rcases hv with hv | rfl
    · exact hv
    · exact has_iff.mp hn
  · have hn' : s.cs.has n = false := by simpa using hn
    have hk : n ∉ s.cs.keys := has_false_iff.mp hn'
    have hnq : n ∉ s.queue := fun e => hk ((h.qmem n).mp e)
    -- the state before eviction
    let s1 : St := { s with nCs := s.nCs + 1, nodes := fill s.nodes n, cs := s.cs ++ [(n, ⟨w, s.now + f⟩)],
                            queue := s.queue ++ [n], hist := Ev.ins n w f s.now :: s.hist }
    have hs' : s' = evict pit s1 := by simp only [s', insertData, hn', Bool.false_eq_true, ↓reduceIte, s1]
    have hlru1 : s1.queue.Pairwise (fun a b => age s1.hist b < age s1.hist a) := by
      have := touch_pairwise (e := Ev.ins n w f s.now) (n := n) h.lru (by simp [touches])
        (by intro x hx; simp [touches]; exact fun e => hx e.symm)
      rwa [rem_of_not_mem hnq] at this
    let k := s1.queue.length - s1.cap
    obtain ⟨_, _, l, hl, hhist⟩ := fold_eraseCs_fields pit (s1.queue.take k) s1
    have hq' : s'.queue = s1.queue.drop k := by rw [hs']; rfl
    have hh' : s'.hist = l ++ s1.hist := by rw [hs']; exact hhist
    have hmq : m ∈ s1.queue.drop k := by rw [← hq']; exact (h'.qmem m).mpr hm
    have hvq1 : v ∈ s1.queue := by
      show v ∈ s.queue ++ [n]
      rcases hv with hv | rfl
      · exact List.mem_append_left _ ((h.qmem v).mpr hv)
      · simp
    have hvq : v ∈ s1.queue.take k := by
      rw [← List.take_append_drop k s1.queue] at hvq1
      rcases List.mem_append.mp hvq1 with hv1 | hv1
      · exact hv1
      · exfalso; apply hv'; exact (h'.qmem v).mp (by rw [hq']; exact hv1)
    have hpw := hlru1
    rw [← List.take_append_drop k s1.queue, List.pairwise_append] at hpw
    have := hpw.2.2 v hvq m hmq
    rw [hh', age_quiets hl, age_quiets hl]; omega

example :
    let s' := insertData (fun _ => false)
      (run (init 2) [Op.ins [⟨8, [97]⟩] [1] 0, Op.ins [⟨8, [98]⟩] [1] 0, Op.find [⟨8, [97]⟩] false false id]) [⟨8, [99]⟩] [2] 0
    s'.cs.keys = [[⟨8, [97]⟩], [⟨8, [99]⟩]] := by decide

/-- **cs_find_exact_complete.** A packet that is cached and unevicted according to the history
    (`cachedH`: inserted, no eviction of it since) and fresh (or MustBeFresh unset) is always found
    by an exact-name lookup, with the bytes of its most recent insertion. -/
theorem cs_find_exact_complete (cap : Nat) (ops : List Op) (n : Name) (mbf : Bool)
    (ord : List Name → List Name) (w : Bytes) (f t0 : Nat) :
    let s := run (init cap) ops
    cachedH s.hist n = true → lastInsert s.hist n = some (w, f, t0) → (mbf = true → s.now < t0 + f) →
    (findData ord s n false mbf).2 = some (n, w) := by
  intro s hc hl hf
  have h : Inv s := reachable_inv cap ops
  have hk : n ∈ s.cs.keys := (h.cached n).mp hc
  obtain ⟨e, he⟩ := mem_keys_get? hk
  obtain ⟨f', t0', h1, h2⟩ := h.hist n e he
  rw [hl] at h1
  simp only [Option.some.injEq, Prod.mk.injEq] at h1
  obtain ⟨hw, hf', ht'⟩ := h1
  subst hw hf' ht'
  have hnode : nodeAt s n = true := nodeAt_iff.mpr (h.reach n hk)
  have hacc : acceptable s mbf n = true := by
    simp only [acceptable, he]
    cases mbf with
    | false => simp
    | true => have := hf rfl; simp; omega
  simp [findData, hnode, hacc, ansOf, he]

example : (findData id (run (init 3) [Op.ins [⟨8, [97]⟩, ⟨8, [98]⟩] [7] 5, Op.adv 4]) [⟨8, [97]⟩, ⟨8, [98]⟩] false true).2
    = some ([⟨8, [97]⟩, ⟨8, [98]⟩], [7]) := by decide

/-- the LRU queue and the map always hold the same names, each once; the reported size is exact -/
theorem cs_size_true (cap : Nat) (ops : List Op) :
    let s := run (init cap) ops
    s.nCs = s.cs.length ∧ s.queue.length = s.cs.length := by
  intro s
  have h : Inv s := reachable_inv cap ops
  exact ⟨h.ncs, h.qlen⟩

end Ndn.C07
