/-
  C07 — property theorems only (helper lemmas live in Lemmas.lean).
-/
import NdnVerif.C07.Spec
namespace Ndn.C07

theorem init_empty (k : Nat) : (init k).cs = [] := rfl

end Ndn.C07
