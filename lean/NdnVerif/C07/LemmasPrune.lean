/-
  Minimality of a name tree under `fill` / `prune`: the node set is exactly the prefix closure of the
  live names.  Shared by C07/C08 (PIT-CS tree), and the FIB-tree / RIB node-set models of C08.
-/
import NdnVerif.C07.LemmasTree
namespace Ndn.C07

/-- `x` lies on the path to one of the names `L` -/
def OnPath (L : List Name) (x : Name) : Prop := ∃ m, m ∈ L ∧ x ∈ prefixes m

/-- the node set `nodes` is exactly the prefix closure of `L` -/
def Minimal (nodes L : List Name) : Prop := ∀ x, x ∈ nodes ↔ OnPath L x

theorem prefixes_length_le {p m : Name} (h : p ∈ prefixes m) : p.length ≤ m.length := by
  obtain ⟨k, hk, rfl⟩ := mem_prefixes.mp h
  simp only [List.length_take]; omega

theorem mem_prefixes_dropLast {x y : Name} (hy : y ≠ []) : x ∈ prefixes y ↔ x ∈ prefixes y.dropLast ∨ x = y := by
  have hpos : 0 < y.length := List.length_pos_iff.mpr hy
  constructor
  · intro h
    obtain ⟨k, hk, rfl⟩ := mem_prefixes.mp h
    by_cases hlast : k + 1 = y.length
    · right; rw [hlast, List.take_length]
    · left
      rw [mem_prefixes]
      refine ⟨k, by simp only [List.length_dropLast]; omega, ?_⟩
      rw [List.dropLast_eq_take, List.take_take]; congr 1; omega
  · rintro (h | rfl)
    · obtain ⟨k, hk, rfl⟩ := mem_prefixes.mp h
      simp only [List.length_dropLast] at hk
      rw [mem_prefixes]
      refine ⟨k, by omega, ?_⟩
      rw [List.dropLast_eq_take, List.take_take]; congr 1; omega
    · exact self_mem_prefixes hy

/-- the parent of a node on the path to `m` is on the path to `m` (unless it is the root) -/
theorem parent_mem_prefixes {y c m : Name} (hc : c ∈ prefixes m) (hch : isChild y c = true) (hy : y ≠ []) :
    y ∈ prefixes m := by
  simp only [isChild, decide_eq_true_eq] at hch
  obtain ⟨hcne, rfl⟩ := hch
  apply prefixes_trans hc
  have := (mem_prefixes_dropLast (x := c.dropLast) hcne).mpr
  exact this (Or.inl (self_mem_prefixes hy))

theorem child_not_prefix {y c : Name} (hch : isChild y c = true) : c ∉ prefixes y := by
  intro h
  have h1 := prefixes_length_le h
  simp only [isChild, decide_eq_true_eq] at hch
  obtain ⟨hcne, rfl⟩ := hch
  have : 0 < c.length := List.length_pos_iff.mpr hcne
  simp only [List.length_dropLast] at h1; omega

theorem onPath_self {L : List Name} {m : Name} (hm : m ∈ L) (hne : m ≠ []) : OnPath L m :=
  ⟨m, hm, self_mem_prefixes hne⟩

theorem onPath_prefix {L : List Name} {x y : Name} (hy : OnPath L y) (hx : x ∈ prefixes y) : OnPath L x := by
  obtain ⟨m, hm, hp⟩ := hy
  exact ⟨m, hm, prefixes_trans hp hx⟩

/-- **prune is exact**: if the nodes are the closure of the live names `L` plus the path to `y`, and
    `keep` recognises the live names, pruning from `y` leaves exactly the closure of `L`. -/
theorem prune_exact (keep : Name → Bool) (L : List Name) (hk : ∀ m, m ≠ [] → (keep m = true ↔ m ∈ L)) :
    ∀ (k : Nat) (nodes : List Name) (y : Name), y.length + 1 ≤ k →
      (∀ x, x ∈ nodes ↔ OnPath L x ∨ x ∈ prefixes y) → Minimal (prune keep k nodes y) L := by
  intro k
  induction k with
  | zero => intro nodes y hlen; omega
  | succ k ih =>
    intro nodes y hlen hn
    by_cases hy : y = []
    · subst hy
      simp only [prune, ne_eq, not_true_eq_false, false_and, ↓reduceIte]
      intro x; rw [hn x]; simp [prefixes]
    · by_cases hon : OnPath L y
      · -- y is still needed: nothing on its path is dead
        have hmin : Minimal nodes L := by
          intro x; rw [hn x]
          constructor
          · rintro (h | h)
            · exact h
            · exact onPath_prefix hon h
          · intro h; exact Or.inl h
        simp only [prune]
        split
        · rename_i hc
          obtain ⟨_, hch, hkeep⟩ := hc
          exfalso
          obtain ⟨m, hm, hp⟩ := hon
          by_cases hym : y = m
          · subst hym
            have := (hk y hy).mpr hm
            rw [this] at hkeep; cases hkeep
          · obtain ⟨c, hc1, hc2⟩ := proper_prefix_child hp hym
            have : c ∈ children nodes y := mem_children.mpr ⟨(hmin c).mpr ⟨m, hm, hc1⟩, hc2⟩
            simp [List.isEmpty_iff] at hch
            rw [hch] at this; cases this
        · exact hmin
      · -- y is dead: it has no children and is not kept, so it is removed and the walk goes on
        have hkeep : keep y = false := by
          cases hkv : keep y with
          | false => rfl
          | true => exact absurd (onPath_self ((hk y hy).mp hkv) hy) hon
        have hch : (children nodes y).isEmpty = true := by
          rw [List.isEmpty_iff]
          apply List.eq_nil_iff_forall_not_mem.mpr
          intro c hc
          obtain ⟨hcn, hcc⟩ := mem_children.mp hc
          rcases (hn c).mp hcn with ⟨m, hm, hp⟩ | hp
          · exact hon ⟨m, hm, parent_mem_prefixes hp hcc hy⟩
          · exact child_not_prefix hcc hp
        simp only [prune, ne_eq, hy, not_false_eq_true, hch, hkeep, and_self, ↓reduceIte]
        have hpos' : 0 < y.length := List.length_pos_iff.mpr hy
        apply ih
        · simp only [List.length_dropLast]; omega
        · intro x
          rw [mem_rem, hn x, mem_prefixes_dropLast hy]
          constructor
          · rintro ⟨h | h | h, hne⟩
            · exact Or.inl h
            · exact Or.inr h
            · exact absurd h hne
          · rintro (h | h)
            · exact ⟨Or.inl h, fun e => hon (e ▸ h)⟩
            · refine ⟨Or.inr (Or.inl h), ?_⟩
              intro e
              have := prefixes_length_le h
              have hpos : 0 < y.length := List.length_pos_iff.mpr hy
              rw [e] at this
              simp only [List.length_dropLast] at this; omega

/-- `fill` keeps the tree minimal for the live names plus the new one -/
theorem fill_minimal {nodes L : List Name} (h : Minimal nodes L) (n : Name) : Minimal (fill nodes n) (L ++ [n]) := by
  intro x
  rw [mem_fill, h x]
  constructor
  · rintro (⟨m, hm, hp⟩ | hp)
    · exact ⟨m, List.mem_append_left _ hm, hp⟩
    · exact ⟨n, by simp, hp⟩
  · rintro ⟨m, hm, hp⟩
    rcases List.mem_append.mp hm with hm | hm
    · exact Or.inl ⟨m, hm, hp⟩
    · simp at hm; subst hm; exact Or.inr hp

/-- minimality only depends on the SET of live names -/
theorem minimal_congr {nodes L L' : List Name} (h : Minimal nodes L) (hl : ∀ m, m ∈ L ↔ m ∈ L') : Minimal nodes L' := by
  intro x; rw [h x]
  constructor <;> rintro ⟨m, hm, hp⟩
  · exact ⟨m, (hl m).mp hm, hp⟩
  · exact ⟨m, (hl m).mpr hm, hp⟩

/-- removing the live name `n` and pruning from it keeps the tree minimal -/
theorem prune_minimal {keep : Name → Bool} {nodes L L' : List Name} {n : Name} (h : Minimal nodes L)
    (hl : ∀ m, m ∈ L ↔ m ∈ L' ∨ m = n) (hk : ∀ m, m ≠ [] → (keep m = true ↔ m ∈ L')) :
    Minimal (prune keep (n.length + 1) nodes n) L' := by
  apply prune_exact keep L' hk _ _ _ (Nat.le_refl _)
  intro x; rw [h x]
  constructor
  · rintro ⟨m, hm, hp⟩
    rcases (hl m).mp hm with hm | rfl
    · exact Or.inl ⟨m, hm, hp⟩
    · exact Or.inr hp
  · rintro (⟨m, hm, hp⟩ | hp)
    · exact ⟨m, (hl m).mpr (Or.inl hm), hp⟩
    · by_cases hnl : n ∈ L
      · exact ⟨n, hnl, hp⟩
      · -- n is not live at all: then the path to n is not in the tree... but it may be: use L' ∨ n
        exact ⟨n, (hl n).mpr (Or.inr rfl), hp⟩

end Ndn.C07

namespace Ndn.C07

/-- general form: some live names may disappear (only `n` can), none appears, and the path to `n`
    is in the tree; pruning from `n` restores minimality -/
theorem prune_minimal' {keep : Name → Bool} {nodes L L' : List Name} {n : Name} (h : Minimal nodes L)
    (hpath : ∀ p ∈ prefixes n, p ∈ nodes)
    (h1 : ∀ m, m ∈ L → m ∈ L' ∨ m = n) (h2 : ∀ m, m ∈ L' → m ∈ L)
    (hk : ∀ m, m ≠ [] → (keep m = true ↔ m ∈ L')) :
    Minimal (prune keep (n.length + 1) nodes n) L' := by
  apply prune_exact keep L' hk _ _ _ (Nat.le_refl _)
  intro x; rw [h x]
  constructor
  · rintro ⟨m, hm, hp⟩
    rcases h1 m hm with hm | rfl
    · exact Or.inl ⟨m, hm, hp⟩
    · exact Or.inr hp
  · rintro (⟨m, hm, hp⟩ | hp)
    · exact ⟨m, h2 m hm, hp⟩
    · exact (h x).mp (hpath x hp)

theorem minimal_path {nodes L : List Name} (h : Minimal nodes L) {n : Name} (hn : n ∈ nodes) :
    ∀ p ∈ prefixes n, p ∈ nodes := by
  intro p hp
  exact (h p).mpr (onPath_prefix ((h n).mp hn) hp)

/-- adding a live name and filling its path keeps minimality (set version) -/
theorem fill_minimal' {nodes L L' : List Name} (h : Minimal nodes L) (n : Name)
    (hl : ∀ m, m ∈ L' ↔ m ∈ L ∨ m = n) : Minimal (fill nodes n) L' := by
  apply minimal_congr (fill_minimal h n)
  intro m; rw [hl m]; simp

end Ndn.C07
