/-
  C07 helper lemmas: list/association-list facts, the invariant `Inv` of the CS model and its
  preservation by every operation.
-/
import NdnVerif.C07.Spec
namespace Ndn.C07

/-! ### memb / rem -/

theorem memb_iff {n : Name} {l : List Name} : memb n l = true ↔ n ∈ l := by
  simp [memb]

theorem memb_false_iff {n : Name} {l : List Name} : memb n l = false ↔ n ∉ l := by
  rw [← memb_iff]; simp

theorem mem_rem {x n : Name} {l : List Name} : x ∈ rem n l ↔ x ∈ l ∧ x ≠ n := by
  simp [rem]

theorem rem_nodup {n : Name} {l : List Name} (h : l.Nodup) : (rem n l).Nodup := by
  unfold rem; exact h.filter _

theorem rem_of_not_mem {n : Name} {l : List Name} (h : n ∉ l) : rem n l = l := by
  unfold rem; apply List.filter_eq_self.mpr; intro a ha; simp; intro e; exact h (e ▸ ha)

theorem rem_length {n : Name} {l : List Name} (hn : l.Nodup) (hm : n ∈ l) : (rem n l).length + 1 = l.length := by
  induction l with
  | nil => cases hm
  | cons x t ih =>
    have hx : x ∉ t := (List.nodup_cons.mp hn).1
    have ht : t.Nodup := (List.nodup_cons.mp hn).2
    by_cases hxn : x = n
    · subst hxn
      have : rem x (x :: t) = t := by
        have := rem_of_not_mem hx
        simp [rem] at this ⊢; exact this
      simp [this]
    · have hm' : n ∈ t := by
        rcases List.mem_cons.mp hm with h | h
        · exact absurd h.symm hxn
        · exact h
      have : rem n (x :: t) = x :: rem n t := by simp [rem, hxn]
      simp [this, ih ht hm']

/-! ### CsMap -/

theorem get?_some_mem_keys {m : CsMap} {n : Name} {e : Entry} (h : m.get? n = some e) : n ∈ m.keys := by
  induction m with
  | nil => simp [CsMap.get?] at h
  | cons p t ih =>
    obtain ⟨k, v⟩ := p
    by_cases hk : k = n
    · simp [CsMap.keys, hk]
    · simp [CsMap.get?, hk] at h
      have := ih h
      simp [CsMap.keys] at this ⊢; right; exact this

theorem mem_keys_get? {m : CsMap} {n : Name} (h : n ∈ m.keys) : ∃ e, m.get? n = some e := by
  induction m with
  | nil => simp [CsMap.keys] at h
  | cons p t ih =>
    obtain ⟨k, v⟩ := p
    by_cases hk : k = n
    · exact ⟨v, by simp [CsMap.get?, hk]⟩
    · have : n ∈ CsMap.keys t := by
        simp [CsMap.keys] at h ⊢
        rcases h with h | h
        · exact absurd h.symm hk
        · exact h
      obtain ⟨e, he⟩ := ih this
      exact ⟨e, by simp [CsMap.get?, hk, he]⟩

theorem has_iff {m : CsMap} {n : Name} : m.has n = true ↔ n ∈ m.keys := by
  constructor
  · intro h
    simp [CsMap.has, Option.isSome_iff_exists] at h
    obtain ⟨e, he⟩ := h
    exact get?_some_mem_keys he
  · intro h
    obtain ⟨e, he⟩ := mem_keys_get? h
    simp [CsMap.has, he]

theorem has_false_iff {m : CsMap} {n : Name} : m.has n = false ↔ n ∉ m.keys := by
  rw [← has_iff]; simp

theorem keys_set (m : CsMap) (n : Name) (e : Entry) : (m.set n e).keys = m.keys := by
  induction m with
  | nil => rfl
  | cons p t ih =>
    obtain ⟨k, v⟩ := p
    by_cases hk : k = n
    · simp [CsMap.set, hk, CsMap.keys]
    · simp [CsMap.set, hk, CsMap.keys] at ih ⊢; exact ih

theorem length_set (m : CsMap) (n : Name) (e : Entry) : (m.set n e).length = m.length := by
  have := congrArg List.length (keys_set m n e)
  simpa [CsMap.keys] using this

theorem get?_set (m : CsMap) (n x : Name) (e : Entry) :
    (m.set n e).get? x = if x = n then (m.get? n).map (fun _ => e) else m.get? x := by
  induction m with
  | nil => simp [CsMap.set, CsMap.get?]
  | cons p t ih =>
    obtain ⟨k, v⟩ := p
    by_cases hk : k = n
    · subst hk
      by_cases hx : k = x
      · subst hx; simp [CsMap.set, CsMap.get?]
      · have : ¬ x = k := fun h => hx h.symm
        simp [CsMap.set, CsMap.get?, hx, this]
    · by_cases hx : k = x
      · subst hx; simp [CsMap.set, CsMap.get?, hk]
      · simp only [CsMap.set, hk, ↓reduceIte, CsMap.get?, hx, ih]

theorem get?_append (m : CsMap) (n x : Name) (e : Entry) :
    (m ++ [(n, e)]).get? x = match m.get? x with | some v => some v | none => if n = x then some e else none := by
  induction m with
  | nil => simp [CsMap.get?]
  | cons p t ih =>
    obtain ⟨k, v⟩ := p
    by_cases hx : k = x
    · simp [CsMap.get?, hx]
    · simp only [List.cons_append, CsMap.get?, hx, ↓reduceIte]; exact ih

theorem keys_append (m : CsMap) (n : Name) (e : Entry) : (m ++ [(n, e)]).keys = m.keys ++ [n] := by
  simp [CsMap.keys]

theorem mem_keys_del {m : CsMap} {n x : Name} : x ∈ (m.del n).keys ↔ x ∈ m.keys ∧ x ≠ n := by
  simp only [CsMap.del, CsMap.keys, List.mem_map, List.mem_filter, decide_eq_true_eq]
  constructor
  · rintro ⟨p, ⟨hp, hne⟩, rfl⟩; exact ⟨⟨p, hp, rfl⟩, hne⟩
  · rintro ⟨⟨p, hp, rfl⟩, hne⟩; exact ⟨p, ⟨hp, hne⟩, rfl⟩

theorem keys_del (m : CsMap) (n : Name) : (m.del n).keys = rem n m.keys := by
  simp [CsMap.del, CsMap.keys, rem, List.filter_map, Function.comp_def]

theorem get?_del (m : CsMap) (n x : Name) : (m.del n).get? x = if x = n then none else m.get? x := by
  induction m with
  | nil => simp [CsMap.del, CsMap.get?]
  | cons p t ih =>
    obtain ⟨k, v⟩ := p
    by_cases hk : k = n
    · subst hk
      have : CsMap.del ((k, v) :: t) k = CsMap.del t k := by simp [CsMap.del]
      rw [this, ih]
      by_cases hx : x = k
      · simp [hx]
      · have : ¬ k = x := fun h => hx h.symm
        simp [hx, CsMap.get?, this]
    · have : CsMap.del ((k, v) :: t) n = (k, v) :: CsMap.del t n := by simp [CsMap.del, hk]
      rw [this]
      by_cases hx : k = x
      · subst hx; simp [CsMap.get?, hk]
      · simp only [CsMap.get?, hx, ↓reduceIte]; exact ih

theorem length_del {m : CsMap} {n : Name} (hn : m.keys.Nodup) (hm : n ∈ m.keys) : (m.del n).length + 1 = m.length := by
  have h1 : (m.del n).length = (m.del n).keys.length := by simp [CsMap.keys]
  have h2 : m.length = m.keys.length := by simp [CsMap.keys]
  rw [h1, h2, keys_del]; exact rem_length hn hm

end Ndn.C07
