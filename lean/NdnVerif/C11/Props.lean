import NdnVerif.C11.Model
import NdnVerif.C11.Spec
namespace Ndn.C11

theorem parseLoop_nil : parseLoop [] = ([], [], .more) := by
  rw [parseLoop]; simp [decTL]

end Ndn.C11
