/-
  C11 — property theorems (only).  Helper lemmas: `Lemmas.lean`.

  Reading guide.  `run init chunks` is the model of `readTlvStream` driven by a reader that returns
  the chunks one after the other (a chunk larger than the free space of the receive buffer is
  handed over in several reads — reads are bounded by the free space) and then reports EOF.
  `Admissible blocks`: every block is a well-formed TLV (T and L in ANY form the readers accept —
  1, 3, 5 or 9 bytes, shortest or not —, |V| = L) of at most 8800 bytes.  There is no bound on the number of blocks, the total length or the number
  and sizes of the chunks.
-/
import NdnVerif.C11.Lemmas
namespace Ndn.C11

/-- **C11, main clause.**  For EVERY list of admissible blocks and EVERY way of cutting their
    concatenation into reads — one byte at a time, many blocks per read, reads ending inside a
    type or length field, even empty reads — `readTlvStream` hands up exactly the blocks, byte
    identical, in order, none lost / duplicated / split / merged, never reports an error, never
    stalls for lack of buffer space, and returns nil at EOF. -/
theorem stream_refines_blocks (blocks : List Bytes) (chunks : List Bytes)
    (hadm : Admissible blocks) (hcut : chunks.flatten = blocks.flatten) :
    run init chunks = (blocks, Outcome.eof) := by
  have hwf := blk_of_admissible hadm
  obtain ⟨k, u', hrun, hu', hl⟩ :=
    run_stream_prefix (scriptSize chunks) chunks init blocks [] (Nat.le_refl _) hwf (inv_init blocks hwf)
      (by simpa [init] using hcut)
  have hk : blocks.drop k = [] := by
    cases hd : blocks.drop k with
    | nil => rfl
    | cons b tl =>
      exfalso
      have h1 := hl b tl hd
      rw [hd] at hu'
      simp at hu'
      have : u'.length = b.length + tl.flatten.length := by rw [hu']; simp
      omega
  have : blocks.take k = blocks := by
    have := List.take_append_drop k blocks
    rw [hk, List.append_nil] at this; exact this
  rw [hrun, this]

/-- non-vacuity: two admissible blocks (a 1-byte-length and a 3-byte-type one), cut inside T and L -/
example : run init [[6], [2, 1], [2, 0xfd, 3], [0x20, 1, 7], []] = ([[6, 2, 1, 2], [0xfd, 3, 0x20, 1, 7]], Outcome.eof) :=
  stream_refines_blocks [[6, 2, 1, 2], [0xfd, 3, 0x20, 1, 7]] _
    (by
      intro b hb
      simp at hb
      rcases hb with rfl | rfl
      · exact ⟨by decide, by decide⟩
      · exact ⟨by decide, by decide⟩)
    (by decide)

/-- **C11, the quantifier's "1/3/5-byte length forms".**  A block of at most 8800 bytes whose T and L
    are written in ANY form that holds them — in particular L in the 5-byte form, which is never the
    shortest one for such a block — is admissible, so every clause below covers it: it is framed by
    what was read of it (`rdr.Pos()`), not by what its numbers would take in the shortest form. -/
theorem every_length_form_is_admissible (ft fl typ : Nat) (v : Bytes) (ht : formFits ft typ)
    (hl : formFits fl v.length)
    (hsz : (encTLForm ft typ ++ encTLForm fl v.length ++ v).length ≤ specMaxPkt) :
    Admissible [encTLForm ft typ ++ encTLForm fl v.length ++ v] := by
  intro b hb
  simp at hb; subst hb
  exact ⟨by simpa using wellFormed_of_forms ft fl typ v ht hl, by simpa using hsz⟩

/-- the shortest form, which the specification required until round 13, is a special case -/
theorem shortest_form_is_admissible (b : Bytes) (h : ShortestForm b) (hsz : b.length ≤ specMaxPkt) :
    Admissible [b] := by
  intro b' hb
  simp at hb; subst hb
  exact ⟨wellFormed_of_shortest h (by unfold specMaxPkt at hsz; omega), hsz⟩

/-- non-vacuity: type 6 in the 3-byte form, length 2 in the 5-byte form, cut inside T and inside L;
    then an ordinary block -/
example : run init [[0xfd, 0], [6, 0xfe, 0, 0], [0, 2, 1], [2, 6, 2, 1, 2]] =
    ([[0xfd, 0, 6, 0xfe, 0, 0, 0, 2, 1, 2], [6, 2, 1, 2]], Outcome.eof) :=
  stream_refines_blocks [[0xfd, 0, 6, 0xfe, 0, 0, 0, 2, 1, 2], [6, 2, 1, 2]] _
    (by
      intro b hb
      simp at hb
      rcases hb with rfl | rfl
      · exact every_length_form_is_admissible 3 5 6 [1, 2] (by decide) (by decide) (by decide) _ (by simp [encTLForm, be])
      · exact ⟨by decide, by decide⟩)
    (by decide)

/-- **C11, reads that come with an ignored error.**  The same for read results `(bytes, ignored error?)`
    — a transient socket error the transport chooses to ignore, reported alone or TOGETHER with
    data: no byte is lost, the frames are exactly the blocks. -/
theorem stream_refines_blocks_ignored_errors (blocks : List Bytes) (script : List ReadRes)
    (hadm : Admissible blocks) (hcut : (script.map (·.1)).flatten = blocks.flatten) :
    runE init script = (blocks, Outcome.eof) :=
  stream_refines_blocks blocks _ hadm hcut

example : runE init [([6, 2], true), ([], true), ([1, 2], false)] = ([[6, 2, 1, 2]], Outcome.eof) :=
  stream_refines_blocks_ignored_errors [[6, 2, 1, 2]] _
    (by
      intro b hb
      simp at hb; subst hb
      exact ⟨by decide, by decide⟩)
    (by decide)

/-- **C11, prompt delivery (refinement of the abstract receiver after every read).**  At any moment
    — `chunks` received so far, `later` still to come — the frames handed up so far are exactly the
    blocks completely contained in the bytes received so far (`completeBlocks`): a block is handed
    up by the very read that completes it, and moving unread bytes to the front of the buffer
    never corrupts the partial block that stays behind. -/
theorem stream_prompt (blocks : List Bytes) (chunks later : List Bytes)
    (hadm : Admissible blocks) (hcut : (chunks ++ later).flatten = blocks.flatten) :
    (run init chunks).1 = completeBlocks blocks chunks.flatten.length := by
  have hwf := blk_of_admissible hadm
  obtain ⟨k, u', hrun, hu', hl⟩ :=
    run_stream_prefix (scriptSize chunks) chunks init blocks later.flatten (Nat.le_refl _) hwf
      (inv_init blocks hwf) (by simpa [init] using hcut)
  rw [hrun]
  symm
  apply completeBlocks_take blocks k _ u' _ hl
  have h1 : chunks.flatten ++ later.flatten = (blocks.take k).flatten ++ (u' ++ later.flatten) := by
    have e : (blocks.take k).flatten ++ (blocks.drop k).flatten = blocks.flatten := by
      rw [← List.flatten_append, List.take_append_drop]
    rw [hu', e, ← List.flatten_append]; exact hcut
  have h2 : chunks.flatten = (blocks.take k).flatten ++ u' := by
    rw [← List.append_assoc] at h1
    exact List.append_cancel_right h1
  rw [h2]; simp

example : (run init [[6, 2, 1], [2, 0xfd]]).1 = [[6, 2, 1, 2]] := by
  rw [stream_prompt [[6, 2, 1, 2], [0xfd, 3, 0x20, 1, 7]] [[6, 2, 1], [2, 0xfd]] [[3, 0x20, 1, 7]]
    (by
      intro b hb
      simp at hb
      rcases hb with rfl | rfl
      · exact ⟨by decide, by decide⟩
      · exact ⟨by decide, by decide⟩)
    (by decide)]
  decide

/-- **C11, reconnection of a permanent face.**  Every connection `c = (blocks, chunks, later)` carries
    the first `chunks` of an admissible block stream and then fails (anywhere — `later` never arrives,
    the connection may end in the middle of a block); the face reconnects and the peer starts a new
    block stream.  The link service is handed, connection after connection, exactly the blocks that
    were completely received on that connection: the partly received block of a failed connection is
    gone with it and never contaminates the next connection's stream. -/
theorem reconnect_fresh_buffer (conns : List (List Bytes × List Bytes × List Bytes))
    (h : ∀ c ∈ conns, Admissible c.1 ∧ (c.2.1 ++ c.2.2).flatten = c.1.flatten) :
    runConns (conns.map (·.2.1)) =
      (conns.map fun c => completeBlocks c.1 c.2.1.flatten.length).flatten := by
  induction conns with
  | nil => rfl
  | cons c rest ih =>
    have hc := h c (List.mem_cons_self ..)
    have hr : ∀ c' ∈ rest, Admissible c'.1 ∧ (c'.2.1 ++ c'.2.2).flatten = c'.1.flatten :=
      fun c' hc' => h c' (List.mem_cons_of_mem _ hc')
    simp only [List.map_cons, runConns, List.flatten_cons]
    rw [stream_prompt c.1 c.2.1 c.2.2 hc.1 hc.2, ih hr]

/-- non-vacuity: the first connection fails after block 1 and two bytes of block 2, the second
    connection carries one block -/
example : runConns [[[6, 2, 1], [2, 0xfd, 3]], [[6, 2], [1, 2]]] = [[6, 2, 1, 2], [6, 2, 1, 2]] := by
  have hA : Admissible [[6, 2, 1, 2], [0xfd, 3, 0x20, 1, 7]] := by
    intro b hb
    simp at hb
    rcases hb with rfl | rfl
    · exact ⟨by decide, by decide⟩
    · exact ⟨by decide, by decide⟩
  have hB : Admissible [[6, 2, 1, 2]] := by
    intro b hb
    simp at hb; subst hb
    exact ⟨by decide, by decide⟩
  have := reconnect_fresh_buffer
    [([[6, 2, 1, 2], [0xfd, 3, 0x20, 1, 7]], [[6, 2, 1], [2, 0xfd, 3]], [[0x20, 1, 7]]),
     ([[6, 2, 1, 2]], [[6, 2], [1, 2]], [])]
    (by
      intro c hc
      simp at hc
      rcases hc with rfl | rfl
      · exact ⟨hA, by decide⟩
      · exact ⟨hB, by decide⟩)
  simpa [completeBlocks] using this

/-- **C11, buffer space.**  Between two reads of an admissible stream nothing is parked in front of
    the unread bytes and fewer than `MaxNDNPacketSize` bytes are unread, so every `Read` is offered
    more than `len(recvBuf) - MaxNDNPacketSize` (= 31 packets) of space: the reader never starves,
    however long the stream. -/
theorem stream_buffer_invariant (blocks : List Bytes) (hadm : Admissible blocks)
    (s : St) (c R : Bytes) (h : s.unread ++ (c ++ R) = blocks.flatten) :
    (onRead s c).1.tlvOff = 0 ∧ (onRead s c).1.unread.length < maxPkt ∧
    cap - maxPkt < (onRead s c).1.free := by
  have hwf := blk_of_admissible hadm
  obtain ⟨k, _, _, hi, _⟩ := onRead_stream s blocks hwf c R h
  have hwf' : ∀ b ∈ blocks.drop k, Blk b := fun b hb => hwf b (List.mem_of_mem_drop hb)
  exact ⟨hi.1, hi.unread_lt hwf', hi.free_pos hwf'⟩

example : (onRead init [6, 2, 1]).1.tlvOff = 0 ∧ (onRead init [6, 2, 1]).1.unread.length < maxPkt ∧
    cap - maxPkt < (onRead init [6, 2, 1]).1.free :=
  stream_buffer_invariant [[6, 2, 1, 2]] (by
      intro b hb
      simp at hb
      subst hb
      exact ⟨by decide, by decide⟩) init [6, 2, 1] [2] (by decide)

/-- **C11, application-side counterpart** (`std/engine/face/stream_face.go` `StreamFace.Run`: read T,
    read L, read exactly L bytes).  Same statement: for every admissible block list and every
    chunking, the packets handed to the engine are exactly the blocks, in order, byte-identical. -/
theorem app_refines_blocks (blocks : List Bytes) (chunks : List Bytes)
    (hadm : Admissible blocks) (hcut : chunks.flatten = blocks.flatten) :
    appRun [] chunks = (blocks, Outcome.eof) := by
  have hwf := blk_of_admissible hadm
  have hl0 : ∀ b tl, blocks = b :: tl → ([] : Bytes).length < b.length := by
    intro b tl hb
    have := wf_length_pos (hwf b (by rw [hb]; simp)).1
    simp; omega
  obtain ⟨k, u', hrun, hu', hl⟩ := appRun_stream_prefix chunks [] blocks [] hwf hl0 (by simpa using hcut)
  have hk : blocks.drop k = [] := by
    cases hd : blocks.drop k with
    | nil => rfl
    | cons b tl =>
      exfalso
      have h1 := hl b tl hd
      rw [hd] at hu'
      simp at hu'
      have : u'.length = b.length + tl.flatten.length := by rw [hu']; simp
      omega
  have : blocks.take k = blocks := by
    have := List.take_append_drop k blocks
    rw [hk, List.append_nil] at this; exact this
  rw [hrun, this]

example : appRun [] [[6], [2, 1], [2, 0xfd, 3], [0x20, 1, 7]] = ([[6, 2, 1, 2], [0xfd, 3, 0x20, 1, 7]], Outcome.eof) :=
  app_refines_blocks [[6, 2, 1, 2], [0xfd, 3, 0x20, 1, 7]] _
    (by
      intro b hb
      simp at hb
      rcases hb with rfl | rfl
      · exact ⟨by decide, by decide⟩
      · exact ⟨by decide, by decide⟩)
    (by decide)

/-- non-vacuity on the application side: type 6 in the 3-byte form, length 2 in the 5-byte form — the engine gets
    the bytes that were sent (F-11c), then an ordinary block -/
example : appRun [] [[0xfd, 0], [6, 0xfe, 0, 0], [0, 2, 1], [2, 6, 2, 1, 2]] =
    ([[0xfd, 0, 6, 0xfe, 0, 0, 0, 2, 1, 2], [6, 2, 1, 2]], Outcome.eof) :=
  app_refines_blocks [[0xfd, 0, 6, 0xfe, 0, 0, 0, 2, 1, 2], [6, 2, 1, 2]] _
    (by
      intro b hb
      simp at hb
      rcases hb with rfl | rfl
      · exact ⟨by decide, by decide⟩
      · exact ⟨by decide, by decide⟩)
    (by decide)

/-- application side, after every chunk: exactly the completely received blocks were handed up -/
theorem app_prompt (blocks : List Bytes) (chunks later : List Bytes)
    (hadm : Admissible blocks) (hcut : (chunks ++ later).flatten = blocks.flatten) :
    (appRun [] chunks).1 = completeBlocks blocks chunks.flatten.length := by
  have hwf := blk_of_admissible hadm
  have hl0 : ∀ b tl, blocks = b :: tl → ([] : Bytes).length < b.length := by
    intro b tl hb
    have := wf_length_pos (hwf b (by rw [hb]; simp)).1
    simp; omega
  obtain ⟨k, u', hrun, hu', hl⟩ :=
    appRun_stream_prefix chunks [] blocks later.flatten hwf hl0 (by simpa using hcut)
  rw [hrun]
  symm
  apply completeBlocks_take blocks k _ u' _ hl
  have h1 : chunks.flatten ++ later.flatten = (blocks.take k).flatten ++ (u' ++ later.flatten) := by
    have e : (blocks.take k).flatten ++ (blocks.drop k).flatten = blocks.flatten := by
      rw [← List.flatten_append, List.take_append_drop]
    rw [hu', e, ← List.flatten_append]; exact hcut
  have h2 : chunks.flatten = (blocks.take k).flatten ++ u' := by
    rw [← List.append_assoc] at h1
    exact List.append_cancel_right h1
  rw [h2]; simp

example : (appRun [] [[6, 2, 1], [2, 0xfd]]).1 = [[6, 2, 1, 2]] := by
  rw [app_prompt [[6, 2, 1, 2], [0xfd, 3, 0x20, 1, 7]] [[6, 2, 1], [2, 0xfd]] [[3, 0x20, 1, 7]]
    (by
      intro b hb
      simp at hb
      rcases hb with rfl | rfl
      · exact ⟨by decide, by decide⟩
      · exact ⟨by decide, by decide⟩)
    (by decide)]
  decide

/-- the model constants agree with the protocol constant the property names -/
theorem consts_agree : maxPkt = specMaxPkt ∧ maxPkt < cap := by decide

end Ndn.C11
