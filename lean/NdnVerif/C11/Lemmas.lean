/-
  C11 helper lemmas (no property statements here).
-/
import NdnVerif.C11.Model
import NdnVerif.C11.Spec
namespace Ndn.C11

/-- decoding a TL number only looks at a prefix -/
theorem decTL_append {p r : Bytes} {v : Nat} (h : decTL p = some (v, r)) (z : Bytes) :
    decTL (p ++ z) = some (v, r ++ z) := by
  cases p with
  | nil => simp [decTL] at h
  | cons x t =>
    simp only [decTL, List.cons_append] at h ⊢
    by_cases hx : x ≤ 0xfc
    · simp only [hx, if_true] at h ⊢
      simp at h; simp [h.1, h.2]
    · simp only [hx, if_false] at h ⊢
      by_cases hl : t.length < tlExtra x
      · simp [hl] at h
      · simp only [hl, if_false] at h
        have hl' : ¬ (t ++ z).length < tlExtra x := by simp; omega
        simp only [hl', if_false]
        simp at h
        have hle : tlExtra x ≤ t.length := by omega
        simp [List.take_append_of_le_length hle, List.drop_append_of_le_length hle, h.1, h.2]

theorem tlLen_pos (x : Nat) : 1 ≤ tlLen x := by
  unfold tlLen; repeat' split
  all_goals omega

theorem tlLen_le9 (x : Nat) : tlLen x ≤ 9 := by
  unfold tlLen; repeat' split
  all_goals omega

/-- for lengths far below 2^63 the Go `int` arithmetic of `rdr.Pos() + int(len)` is exact -/
theorem hdrSize_exact (hdr len : Nat) (hh : hdr ≤ 4611686018427387904) (h : len < 4611686018427387904) :
    hdrSize hdr len = ((hdr + len : Nat) : Int) := by
  unfold hdrSize wrapI64 toI64
  have hm : len % 18446744073709551616 = len := Nat.mod_eq_of_lt (by omega)
  rw [hm]
  have : len < 9223372036854775808 := by omega
  simp only [this, if_true]
  split
  · omega
  · omega

/-- **the tie of the sizing**: on the working tree the header of a block is measured by what was read of it.
    Depends on the regenerated fact `Ndn.Gen.C11.blockSizedByReaderPos`; with the other sizing
    (`EncodingLength()`, the pinned tree) this does not check — and it is false: see `corpus/C11/f11b-*.ops`. -/
theorem hdrBytes_eq (u r2 : Bytes) (typ len : Nat) : hdrBytes u r2 typ len = u.length - r2.length := by
  simp [hdrBytes, Ndn.Gen.C11.blockSizedByReaderPos]

/-- anatomy of a well-formed block: header bytes (T and L as sent) in front of the value -/
theorem wf_anatomy {b : Bytes} (h : WellFormedTlv b) :
    ∃ (typ : Nat) (hd1 hd2 v : Bytes), b = hd1 ++ (hd2 ++ v) ∧ decTL b = some (typ, hd2 ++ v) ∧
      decTL (hd2 ++ v) = some (v.length, v) ∧ 1 ≤ hd1.length ∧ 1 ≤ hd2.length := by
  obtain ⟨typ, len, r1, v, h1, h2, hv⟩ := h
  obtain ⟨hd1, rfl, hl1⟩ := decTL_split h1
  obtain ⟨hd2, rfl, hl2⟩ := decTL_split h2
  subst hv
  exact ⟨typ, hd1, hd2, v, rfl, h1, h2, by omega, by omega⟩

theorem parseLoop_nil : parseLoop [] = ([], [], Status.more) := by
  rw [parseLoop]; simp [decTL]

/-- a block, as the property quantifies over them (model-side size bound) -/
def Blk (b : Bytes) : Prop := WellFormedTlv b ∧ b.length ≤ maxPkt

theorem maxPkt_small : maxPkt < 4611686018427387904 := by decide
theorem maxPkt_lt_cap : maxPkt < cap := by decide
theorem maxPkt_pos : 0 < maxPkt := by decide

/-- a complete block at the front of the unread region is delivered and parsing continues -/
theorem parseLoop_block (b u' : Bytes) (hb : Blk b) :
    parseLoop (b ++ u') = (b :: (parseLoop u').1, (parseLoop u').2.1, (parseLoop u').2.2) := by
  obtain ⟨hwf, hlen⟩ := hb
  obtain ⟨typ, hd1, hd2, v, rfl, h1, h2, hl1, hl2⟩ := wf_anatomy hwf
  have e1 := decTL_append h1 u'
  have e2 := decTL_append h2 u'
  rw [List.append_assoc] at e2
  have hcap : ¬ v.length > cap := by have := maxPkt_lt_cap; simp at hlen; omega
  rw [parseLoop]
  split
  · rename_i h; rw [e1] at h; simp at h
  · rename_i t' r1' h
    rw [e1] at h; simp at h; obtain ⟨rfl, rfl⟩ := h
    split
    · rename_i h'; rw [e2] at h'; simp at h'
    · rename_i l' r2 h'
      rw [e2] at h'; simp at h'; obtain ⟨rfl, rfl⟩ := h'
      simp only [hcap, if_false, hdrBytes_eq]
      have hsz : (hd1 ++ (hd2 ++ v) ++ u').length - (v ++ u').length + v.length = (hd1 ++ (hd2 ++ v)).length := by
        simp; omega
      rw [hsz]
      generalize hd1 ++ (hd2 ++ v) = B
      simp

/-- a proper prefix of a block: nothing is delivered, everything stays unread -/
theorem parseLoop_partial (b u z : Bytes) (hb : Blk b) (hz : z ≠ []) (hu : u ++ z = b) :
    parseLoop u = ([], u, Status.more) := by
  obtain ⟨hwf, hlen⟩ := hb
  obtain ⟨typ, hd1, hd2, v, hbeq, h1, h2, hl1, hl2⟩ := wf_anatomy hwf
  have hcap : ¬ v.length > cap := by have := maxPkt_lt_cap; rw [hbeq] at hlen; simp at hlen; omega
  have hzl : 0 < z.length := List.length_pos_iff.mpr hz
  have hul : u.length + z.length = b.length := by rw [← hu]; simp
  rw [parseLoop]
  split
  · rfl
  · rename_i t' r1 h
    have e1 := decTL_append h z
    rw [hu, h1] at e1
    simp at e1; obtain ⟨rfl, hr1⟩ := e1
    split
    · rfl
    · rename_i l' r2 h'
      have e2 := decTL_append h' z
      rw [← hr1, h2] at e2
      simp at e2; obtain ⟨rfl, hv⟩ := e2
      simp only [hcap, if_false, hdrBytes_eq]
      have hvl : v.length = r2.length + z.length := by rw [hv]; simp
      have hr2 : r2.length < u.length := by
        have := decTL_rest_lt h; have := decTL_rest_lt h'; omega
      have hlt : ¬ (u.length ≥ u.length - r2.length + v.length) := by omega
      simp only [hlt, if_false]
      have : ¬ (u.length > maxPkt) := by omega
      simp [this]

/-- The inner loop on any prefix `u` of a stream of blocks (`R` = the bytes still to come):
    it delivers exactly the blocks completely contained in `u`, keeps the partial block unread and
    asks for more. -/
theorem parseLoop_stream (bs : List Bytes) (hwf : ∀ b ∈ bs, Blk b) :
    ∀ (u R : Bytes), u ++ R = bs.flatten →
      ∃ k rest, parseLoop u = (bs.take k, rest, Status.more) ∧ rest ++ R = (bs.drop k).flatten ∧
        (∀ b tl, bs.drop k = b :: tl → rest.length < b.length) := by
  induction bs with
  | nil =>
    intro u R h
    simp at h
    refine ⟨0, [], ?_, by simp [h.2], by simp⟩
    rw [h.1]; simpa using parseLoop_nil
  | cons b bs ih =>
    intro u R h
    have hb : Blk b := hwf b (by simp)
    have hbs : ∀ x ∈ bs, Blk x := fun x hx => hwf x (by simp [hx])
    simp only [List.flatten_cons] at h
    rcases List.append_eq_append_iff.mp h with ⟨a', hb', hR⟩ | ⟨c', hu, hc⟩
    · -- b = u ++ a'
      by_cases ha : a' = []
      · subst ha
        simp at hb' hR
        obtain ⟨k, rest, hp, hr, hl⟩ := ih hbs [] R (by simpa using hR)
        refine ⟨k + 1, rest, ?_, by simpa using hr, by simpa using hl⟩
        have := parseLoop_block b [] hb
        rw [List.append_nil] at this
        rw [← hb', this, hp]; simp
      · refine ⟨0, u, ?_, ?_, ?_⟩
        · simpa using parseLoop_partial b u a' hb ha hb'.symm
        · simp [hR, hb']
        · intro b' tl hbt
          simp at hbt
          rw [← hbt.1, hb']
          have := List.length_pos_iff.mpr ha
          simp; omega
    · -- u = b ++ c'
      obtain ⟨k, rest, hp, hr, hl⟩ := ih hbs c' R hc.symm
      refine ⟨k + 1, rest, ?_, by simpa using hr, by simpa using hl⟩
      rw [hu, parseLoop_block b c' hb, hp]; simp


/-- invariant between two reads: nothing is parked in front of the unread bytes, and the unread
    bytes are a proper prefix of the next block -/
def Inv (s : St) (bs : List Bytes) : Prop :=
  s.tlvOff = 0 ∧ (∀ b tl, bs = b :: tl → s.unread.length < b.length) ∧ (bs = [] → s.unread = [])

theorem Inv.unread_lt {s : St} {bs : List Bytes} (h : Inv s bs) (hwf : ∀ b ∈ bs, Blk b) :
    s.unread.length < maxPkt := by
  cases bs with
  | nil => rw [h.2.2 rfl]; exact maxPkt_pos
  | cons b tl =>
    have := h.2.1 b tl rfl
    have := (hwf b (by simp)).2
    omega

theorem Inv.free_pos {s : St} {bs : List Bytes} (h : Inv s bs) (hwf : ∀ b ∈ bs, Blk b) :
    cap - maxPkt < s.free := by
  have := h.unread_lt hwf
  have := maxPkt_lt_cap
  unfold St.free St.recvOff
  rw [h.1]; omega

/-- one read of a piece `c` of the stream re-establishes the invariant and delivers `bs.take k` -/
theorem onRead_stream (s : St) (bs : List Bytes) (hwf : ∀ b ∈ bs, Blk b)
    (c R : Bytes) (h : s.unread ++ (c ++ R) = bs.flatten) :
    ∃ k, (onRead s c).2.1 = bs.take k ∧ (onRead s c).2.2 = Status.more ∧
      Inv (onRead s c).1 (bs.drop k) ∧ (onRead s c).1.unread ++ R = (bs.drop k).flatten := by
  obtain ⟨k, rest, hp, hr, hl⟩ := parseLoop_stream bs hwf (s.unread ++ c) R (by simpa using h)
  have hwf' : ∀ b ∈ bs.drop k, Blk b := fun b hb => hwf b (List.mem_of_mem_drop hb)
  have hrest : rest.length < maxPkt := by
    cases hd : bs.drop k with
    | nil => rw [hd] at hr; simp at hr; rw [hr.1]; exact maxPkt_pos
    | cons b tl =>
      have := hl b tl hd
      have := (hwf' b (by rw [hd]; simp)).2
      omega
  refine ⟨k, ?_, ?_, ?_, ?_⟩
  · simp [onRead, hp]
  · simp [onRead, hp]
  · simp only [onRead, hp, Nat.le_of_lt hrest, if_true]
    refine ⟨rfl, hl, ?_⟩
    intro hd; rw [hd] at hr; simp at hr; exact hr.1
  · simp only [onRead, hp, Nat.le_of_lt hrest, if_true]; exact hr

def scriptSize (script : List Bytes) : Nat := (script.map List.length).sum + script.length

/-- The whole run over any script whose bytes are a prefix of the rest of the block stream (`R` =
    what the peer sends later): the run delivers `bs.take k`, where the `k` blocks are exactly the
    ones completely received, and ends (EOF) holding a proper prefix `u'` of the next block. -/
theorem run_stream_prefix : ∀ (n : Nat) (script : List Bytes) (s : St) (bs : List Bytes) (R : Bytes),
    scriptSize script ≤ n → (∀ b ∈ bs, Blk b) → Inv s bs →
    s.unread ++ (script.flatten ++ R) = bs.flatten →
    ∃ k u', run s script = (bs.take k, Outcome.eof) ∧ u' ++ R = (bs.drop k).flatten ∧
      (∀ b tl, bs.drop k = b :: tl → u'.length < b.length) := by
  intro n
  induction n with
  | zero =>
    intro script s bs R hn hwf hinv h
    cases script with
    | nil =>
      refine ⟨0, s.unread, ?_, by simpa using h, by simpa using hinv.2.1⟩
      rw [run]; simp
    | cons c cs => simp [scriptSize] at hn
  | succ n ih =>
    intro script s bs R hn hwf hinv h
    cases script with
    | nil => exact ih [] s bs R (by simp [scriptSize]) hwf hinv h
    | cons c cs =>
      have hfree := hinv.free_pos hwf
      rw [run]
      by_cases hfit : c.length ≤ s.free
      · simp only [hfit, if_true]
        obtain ⟨k, hf, hs, hi, hr⟩ := onRead_stream s bs hwf c (cs.flatten ++ R) (by simpa using h)
        have hwf' : ∀ b ∈ bs.drop k, Blk b := fun b hb => hwf b (List.mem_of_mem_drop hb)
        obtain ⟨k2, u', hrun, hu', hl'⟩ :=
          ih cs (onRead s c).1 (bs.drop k) R (by simp [scriptSize] at hn ⊢; omega) hwf' hi
            (by simpa using hr)
        refine ⟨k + k2, u', ?_, by simpa [List.drop_drop, Nat.add_comm] using hu',
          by simpa [List.drop_drop, Nat.add_comm] using hl'⟩
        simp only [hs, hrun, hf, List.take_add]
      · simp only [hfit, if_false]
        have hz : ¬ s.free = 0 := by omega
        simp only [hz, if_false]
        have hsplit : s.unread ++ (c.take s.free ++ ((c.drop s.free :: cs).flatten ++ R)) = bs.flatten := by
          rw [← h]; simp [← List.append_assoc, List.take_append_drop]
        obtain ⟨k, hf, hs, hi, hr⟩ := onRead_stream s bs hwf (c.take s.free) _ hsplit
        have hwf' : ∀ b ∈ bs.drop k, Blk b := fun b hb => hwf b (List.mem_of_mem_drop hb)
        obtain ⟨k2, u', hrun, hu', hl'⟩ :=
          ih (c.drop s.free :: cs) (onRead s (c.take s.free)).1 (bs.drop k) R
            (by simp [scriptSize] at hn ⊢; omega) hwf' hi hr
        refine ⟨k + k2, u', ?_, by simpa [List.drop_drop, Nat.add_comm] using hu',
          by simpa [List.drop_drop, Nat.add_comm] using hl'⟩
        simp only [hs, hrun, hf, List.take_add]

/-- the abstract receiver picks exactly `bs.take k` when `n` bytes = those k blocks plus a proper
    prefix of the next one -/
theorem completeBlocks_take : ∀ (bs : List Bytes) (k n : Nat) (u' : Bytes),
    n = (bs.take k).flatten.length + u'.length →
    (∀ b tl, bs.drop k = b :: tl → u'.length < b.length) →
    completeBlocks bs n = bs.take k := by
  intro bs
  induction bs with
  | nil => intro k n u' _ _; simp [completeBlocks]
  | cons b bs ih =>
    intro k n u' hn hl
    cases k with
    | zero =>
      have := hl b bs (by simp)
      simp at hn
      simp [completeBlocks]; omega
    | succ k =>
      rw [List.take_succ_cons, List.flatten_cons, List.length_append] at hn
      have hle : b.length ≤ n := by omega
      simp only [completeBlocks, hle, if_true, List.take_succ_cons]
      congr 1
      exact ih k (n - b.length) u' (by omega) (by simpa using hl)

theorem blk_of_admissible {blocks : List Bytes} (h : Admissible blocks) : ∀ b ∈ blocks, Blk b := by
  intro b hb
  have hle : specMaxPkt ≤ maxPkt := by decide
  exact ⟨(h b hb).1, Nat.le_trans (h b hb).2 hle⟩

theorem wf_length_pos {b : Bytes} (h : WellFormedTlv b) : 2 ≤ b.length := by
  obtain ⟨typ, hd1, hd2, v, rfl, _, _, hl1, hl2⟩ := wf_anatomy h
  simp; omega

theorem inv_init (bs : List Bytes) (hwf : ∀ b ∈ bs, Blk b) : Inv init bs := by
  refine ⟨rfl, ?_, fun _ => rfl⟩
  intro b tl hb
  have := wf_length_pos (hwf b (by rw [hb]; simp)).1
  simp [init]; omega

/-! ### application side (`StreamFace.Run`) -/

theorem appLoop_nil : appLoop [] = ([], [], Status.more) := by
  rw [appLoop]; simp [decTL]

theorem toI64_small (len : Nat) (h : len < 4611686018427387904) : toI64 len = (len : Int) := by
  unfold toI64
  have hm : len % 18446744073709551616 = len := Nat.mod_eq_of_lt (by omega)
  rw [hm]
  have : len < 9223372036854775808 := by omega
  simp [this]

theorem appLoop_block (b u' : Bytes) (hb : Blk b) :
    appLoop (b ++ u') = (b :: (appLoop u').1, (appLoop u').2.1, (appLoop u').2.2) := by
  obtain ⟨hwf, hlen⟩ := hb
  obtain ⟨typ, hd1, hd2, v, rfl, h1, h2, hl1, hl2⟩ := wf_anatomy hwf
  have hvlen : v.length < 4611686018427387904 := by
    have := maxPkt_small; simp at hlen; omega
  have hhd : hd1.length + hd2.length ≤ 4611686018427387904 := by
    have := maxPkt_small; simp at hlen; omega
  have e1 := decTL_append h1 u'
  have e2 := decTL_append h2 u'
  rw [List.append_assoc] at e2
  have hi := toI64_small v.length hvlen
  rw [appLoop]
  split
  · rename_i h; rw [e1] at h; simp at h
  · rename_i t' r1' h
    rw [e1] at h; simp at h; obtain ⟨rfl, rfl⟩ := h
    split
    · rename_i h'; rw [e2] at h'; simp at h'
    · rename_i l' r2 h'
      rw [e2] at h'; simp at h'; obtain ⟨rfl, rfl⟩ := h'
      have hpos : (hd1 ++ (hd2 ++ v) ++ u').length - (v ++ u').length = hd1.length + hd2.length := by
        simp; omega
      rw [hpos]
      have hno : ¬ (hdrSize (hd1.length + hd2.length) v.length < 0 ∨ toI64 v.length < 0) := by
        rw [hdrSize_exact _ _ hhd hvlen, hi]; omega
      simp only [hno, if_false]
      have hge : (v ++ u').length ≥ v.length := by simp
      simp only [hge, if_true]
      have ht : List.take (hd1.length + hd2.length) (hd1 ++ (hd2 ++ v) ++ u') = hd1 ++ hd2 := by
        have : hd1 ++ (hd2 ++ v) ++ u' = (hd1 ++ hd2) ++ (v ++ u') := by simp
        rw [this, List.take_left' (by simp)]
      rw [ht]
      simp

theorem appLoop_partial (b u z : Bytes) (hb : Blk b) (hz : z ≠ []) (hu : u ++ z = b) :
    appLoop u = ([], u, Status.more) := by
  obtain ⟨hwf, hlen⟩ := hb
  obtain ⟨typ, hd1, hd2, v, hbeq, h1, h2, hl1, hl2⟩ := wf_anatomy hwf
  have hvlen : v.length < 4611686018427387904 := by
    have := maxPkt_small; rw [hbeq] at hlen; simp at hlen; omega
  have hul : u.length + z.length = b.length := by rw [← hu]; simp
  have hulen : u.length ≤ 4611686018427387904 := by have := maxPkt_small; omega
  have hi := toI64_small v.length hvlen
  have hzl : 0 < z.length := List.length_pos_iff.mpr hz
  rw [appLoop]
  split
  · rfl
  · rename_i t' r1 h
    have e1 := decTL_append h z
    rw [hu, h1] at e1
    simp at e1; obtain ⟨rfl, hr1⟩ := e1
    split
    · rfl
    · rename_i l' r2 h'
      have e2 := decTL_append h' z
      rw [← hr1, h2] at e2
      simp at e2; obtain ⟨rfl, hv⟩ := e2
      have hno : ¬ (hdrSize (u.length - r2.length) v.length < 0 ∨ toI64 v.length < 0) := by
        rw [hdrSize_exact _ _ (by omega) hvlen, hi]; omega
      simp only [hno, if_false]
      have : ¬ (r2.length ≥ v.length) := by
        have : v.length = r2.length + z.length := by rw [hv]; simp
        omega
      simp [this]

theorem appLoop_stream (bs : List Bytes) (hwf : ∀ b ∈ bs, Blk b) :
    ∀ (u R : Bytes), u ++ R = bs.flatten →
      ∃ k rest, appLoop u = (bs.take k, rest, Status.more) ∧ rest ++ R = (bs.drop k).flatten ∧
        (∀ b tl, bs.drop k = b :: tl → rest.length < b.length) := by
  induction bs with
  | nil =>
    intro u R h
    simp at h
    refine ⟨0, [], ?_, by simp [h.2], by simp⟩
    rw [h.1]; simpa using appLoop_nil
  | cons b bs ih =>
    intro u R h
    have hb : Blk b := hwf b (by simp)
    have hbs : ∀ x ∈ bs, Blk x := fun x hx => hwf x (by simp [hx])
    simp only [List.flatten_cons] at h
    rcases List.append_eq_append_iff.mp h with ⟨a', hb', hR⟩ | ⟨c', hu, hc⟩
    · by_cases ha : a' = []
      · subst ha
        simp at hb' hR
        obtain ⟨k, rest, hp, hr, hl⟩ := ih hbs [] R (by simpa using hR)
        refine ⟨k + 1, rest, ?_, by simpa using hr, by simpa using hl⟩
        have := appLoop_block b [] hb
        rw [List.append_nil] at this
        rw [← hb', this, hp]; simp
      · refine ⟨0, u, ?_, ?_, ?_⟩
        · simpa using appLoop_partial b u a' hb ha hb'.symm
        · simp [hR, hb']
        · intro b' tl hbt
          simp at hbt
          rw [← hbt.1, hb']
          have := List.length_pos_iff.mpr ha
          simp; omega
    · obtain ⟨k, rest, hp, hr, hl⟩ := ih hbs c' R hc.symm
      refine ⟨k + 1, rest, ?_, by simpa using hr, by simpa using hl⟩
      rw [hu, appLoop_block b c' hb, hp]; simp

theorem appRun_stream_prefix : ∀ (chunks : List Bytes) (pending : Bytes) (bs : List Bytes) (R : Bytes),
    (∀ b ∈ bs, Blk b) → (∀ b tl, bs = b :: tl → pending.length < b.length) →
    pending ++ (chunks.flatten ++ R) = bs.flatten →
    ∃ k u', appRun pending chunks = (bs.take k, Outcome.eof) ∧ u' ++ R = (bs.drop k).flatten ∧
      (∀ b tl, bs.drop k = b :: tl → u'.length < b.length) := by
  intro chunks
  induction chunks with
  | nil =>
    intro pending bs R hwf hl h
    exact ⟨0, pending, by simp [appRun], by simpa using h, by simpa using hl⟩
  | cons c cs ih =>
    intro pending bs R hwf hl h
    obtain ⟨k, rest, hp, hr, hl1⟩ := appLoop_stream bs hwf (pending ++ c) (cs.flatten ++ R) (by simpa using h)
    have hwf' : ∀ b ∈ bs.drop k, Blk b := fun b hb => hwf b (List.mem_of_mem_drop hb)
    obtain ⟨k2, u', hrun, hu', hl'⟩ := ih rest (bs.drop k) R hwf' hl1 hr
    refine ⟨k + k2, u', ?_, by simpa [List.drop_drop, Nat.add_comm] using hu',
      by simpa [List.drop_drop, Nat.add_comm] using hl'⟩
    simp only [appRun, hp, hrun, List.take_add]

end Ndn.C11
