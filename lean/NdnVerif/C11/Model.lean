/-
  C11 model — stream framing.

  * `fw/face/stream-transport.go` `readTlvStream` (lines 11–71): fixed receive buffer of
    `recvBufSize = 32·MaxNDNPacketSize` bytes, write offset `recvOff`, parse offset `tlvOff`; every
    `Read` gets the free tail `recvBuf[recvOff:]`; after each read the inner loop parses T and L
    from the unread region (a length beyond the buffer capacity is an error), delivers complete
    blocks, and the unread bytes are moved to the front when at most `MaxNDNPacketSize` of them
    remain.
  * `std/engine/face/stream_face.go` `StreamFace.Run` (lines 25–72): reads T, L, then exactly L
    bytes through a `bufio.Reader`, puts the T and L bytes as received in front of the value.

  The bytes in front of `tlvOff` are dead (never read again), so the state keeps `tlvOff` and the
  unread bytes `recvBuf[tlvOff:recvOff]`; `recvOff = tlvOff + unread.length`.
  Go `int` arithmetic (`int(len)` of a 64-bit length) is modelled exactly where it can go wrong
  (application side: explicit `panic` outcome), never totalised away.  Core Lean only.
-/
import NdnVerif.Base.Num
import NdnVerif.Gen.C11Consts
set_option linter.unusedVariables false
namespace Ndn.C11

/-- `defn.MaxNDNPacketSize` (regenerated from the working tree) -/
abbrev maxPkt : Nat := Ndn.Gen.C11.maxNDNPacketSize
/-- `len(recvBuf)` (regenerated from the working tree) -/
abbrev cap : Nat := Ndn.Gen.C11.recvBufSize

/-- Go `int(x)` for a `uint64` x on a 64-bit platform -/
def toI64 (x : Nat) : Int :=
  if x % 18446744073709551616 < 9223372036854775808 then ((x % 18446744073709551616 : Nat) : Int)
  else ((x % 18446744073709551616 : Nat) : Int) - 18446744073709551616

/-- wrap-around of an `int` sum that left the int64 range upwards -/
def wrapI64 (i : Int) : Int :=
  if i ≥ 9223372036854775808 then i - 18446744073709551616 else i

/-- `rdr.Pos() + int(len)` resp. `len(hdr) + int(l)`: header bytes consumed plus the value length,
    in Go `int` arithmetic -/
def hdrSize (hdr len : Nat) : Int :=
  wrapI64 ((hdr : Int) + toI64 len)

/-- why the inner loop / the whole function stopped -/
inductive Status
  | more      -- `break`: incomplete block, wait for the next read
  | tooMuch   -- `return errors.New("received too much data without valid TLV block")`
  | tooBig    -- `return errors.New("received TLV block larger than the receive buffer")`
  | panic     -- Go runtime panic (application side only: `make` with a negative size)
  deriving DecidableEq, Repr

/-- how many bytes of the unread region `u` the code takes for T and L of the block in front (`r2` = what
    is left after both were read): by the REGENERATED fact `blockSizedByReaderPos` either what was read
    (`rdr.Pos()`, the working tree after repair F-11b) or the shortest forms of the two numbers
    (`typ.EncodingLength() + len.EncodingLength()`, the pinned tree).  A tree that goes back to the
    second sizing regenerates the fact, and `hdrBytes_eq` — on which both block lemmas rest — no longer
    checks. -/
def hdrBytes (u r2 : Bytes) (typ len : Nat) : Nat :=
  if Ndn.Gen.C11.blockSizedByReaderPos = 1 then u.length - r2.length else tlLen typ + tlLen len

/-- The inner `for` loop of `readTlvStream` on the unread region `u = recvBuf[tlvOff:recvOff]`:
    delivered frames, the bytes still unread afterwards, and how the loop ended.
    `tlvSize := rdr.Pos() + int(len)`: the block is as long as what `ReadTLNum` consumed of it for
    T and L (whatever form they were sent in — repair F-11b; before it the code re-measured T and L
    with `EncodingLength()`, i.e. assumed the shortest form) plus the value.  After the guard
    `uint64(len) > uint64(cap(recvBuf))` the Go `int` arithmetic is exact (`hdrSize_exact`). -/
def parseLoop (u : Bytes) : List Bytes × Bytes × Status :=
  match h1 : decTL u with
  | none => ([], u, .more)                       -- ReadTLNum(typ) failed
  | some (typ, r1) =>
    match h2 : decTL r1 with
    | none => ([], u, .more)                     -- ReadTLNum(len) failed
    | some (len, r2) =>
      if len > cap then ([], u, .tooBig)         -- can never fit in the receive buffer
      else
        let sz := hdrBytes u r2 typ len + len    -- rdr.Pos() + int(len)
        if u.length ≥ sz then                    -- recvOff-tlvOff >= tlvSize
          let r := parseLoop (u.drop sz)
          (u.take sz :: r.1, r.2.1, r.2.2)
        else if u.length > maxPkt then ([], u, .tooMuch)
        else ([], u, .more)
termination_by u.length
decreasing_by
  have a := decTL_rest_lt h1
  have b := decTL_rest_lt h2
  have c : 1 ≤ tlLen typ := by unfold tlLen; repeat' split
                               all_goals omega
  have d : 1 ≤ hdrBytes u r2 typ len := by unfold hdrBytes; split <;> omega
  simp only [List.length_drop]
  omega

/-- state between two `Read` calls -/
structure St where
  tlvOff : Nat
  unread : Bytes
  deriving Repr

def St.recvOff (s : St) : Nat := s.tlvOff + s.unread.length
/-- length of the slice handed to `Read` -/
def St.free (s : St) : Nat := cap - s.recvOff

def init : St := ⟨0, []⟩

/-- one outer iteration after `Read` returned the bytes `c` (`c.length ≤ free`): parse/deliver,
    then compact when at most `maxPkt` unread bytes remain -/
def onRead (s : St) (c : Bytes) : St × List Bytes × Status :=
  let u := s.unread ++ c
  let r := parseLoop u
  let rest := r.2.1
  let s' : St := if rest.length ≤ maxPkt then ⟨0, rest⟩ else ⟨s.tlvOff + (u.length - rest.length), rest⟩
  (s', r.1, r.2.2)

/-- how a whole run ended -/
inductive Outcome
  | eof       -- the reader reported io.EOF, `readTlvStream` returned nil
  | stall     -- no free space left: `Read` gets an empty slice and can never make progress
  | tooMuch | tooBig | panic
  deriving DecidableEq, Repr

def Status.toOutcome : Status → Outcome
  | .more => .eof | .tooMuch => .tooMuch | .tooBig => .tooBig | .panic => .panic

/-- The scripted reader offers the chunks one by one; a `Read` returns
    `min(chunk, free)` bytes and the remainder of the chunk stays pending (reads are bounded by the
    free space of the buffer).  When the script is exhausted the reader reports EOF. -/
def run (s : St) (script : List Bytes) : List Bytes × Outcome :=
  match script with
  | [] => ([], .eof)
  | c :: cs =>
    if c.length ≤ s.free then
      let r := onRead s c
      match r.2.2 with
      | .more => let t := run r.1 cs; (r.2.1 ++ t.1, t.2)
      | st => (r.2.1, st.toOutcome)
    else if s.free = 0 then ([], .stall)
    else
      let r := onRead s (c.take s.free)
      match r.2.2 with
      | .more => let t := run r.1 (c.drop s.free :: cs); (r.2.1 ++ t.1, t.2)
      | st => (r.2.1, st.toOutcome)
termination_by (script.map List.length).sum + script.length
decreasing_by
  all_goals simp only [List.map_cons, List.sum_cons, List.length_cons, List.length_drop]
  all_goals omega

/-- A permanent TCP face over successive connections (`UnicastTCPTransport.runReceive`): when a
    connection fails the transport dials again and calls `readTlvStream` anew — with a fresh receive
    buffer.  One chunk script per connection (a connection may end anywhere, also inside a block);
    the frames handed to the link service are those of the connections, one after the other. -/
def runConns : List (List Bytes) → List Bytes
  | [] => []
  | cs :: rest => (run init cs).1 ++ runConns rest

/-- One `Read` result as the UDP transports may see it: the bytes, and whether an error that the
    `ignoreError` callback swallows came TOGETHER with them (`([], true)` = the error alone).
    `readTlvStream` processes the n > 0 bytes first and considers the error afterwards (io.Reader
    contract; repair of F-11a), and an ignored error just continues the loop — so an ignored error
    is transparent: the run is the run over the bytes. -/
abbrev ReadRes := Bytes × Bool

def runE (s : St) (script : List ReadRes) : List Bytes × Outcome := run s (script.map (·.1))

/-! ### application side: `StreamFace.Run` -/

/-- The loop of `StreamFace.Run` over the bytes received so far: `ReadTLNum`, `ReadTLNum` through a
    reader that keeps the header bytes as they arrive, `io.ReadFull` of exactly L bytes,
    frame = the received T and L bytes ++ value (repair F-11c; before it T and L were re-encoded in
    the shortest form, so a block sent in another form reached the engine with other bytes).
    Returns the delivered frames and the bytes not yet consumed into a complete frame (T/L/value
    prefix the goroutine is blocked on).  `make([]byte, l0+int(l))` with a negative size panics. -/
def appLoop (u : Bytes) : List Bytes × Bytes × Status :=
  match h1 : decTL u with
  | none => ([], u, .more)
  | some (typ, r1) =>
    match h2 : decTL r1 with
    | none => ([], u, .more)
    | some (len, r2) =>
      if hdrSize (u.length - r2.length) len < 0 ∨ toI64 len < 0 then ([], u, .panic)
      else if r2.length ≥ len then
        let r := appLoop (r2.drop len)
        ((u.take (u.length - r2.length) ++ r2.take len) :: r.1, r.2.1, r.2.2)
      else ([], u, .more)
termination_by u.length
decreasing_by
  have a := decTL_rest_lt h1
  have b := decTL_rest_lt h2
  simp only [List.length_drop]
  omega

/-- bytes arrive in chunks; everything received and not yet framed is pending -/
def appRun (pending : Bytes) : List Bytes → List Bytes × Outcome
  | [] => ([], .eof)
  | c :: cs =>
    let r := appLoop (pending ++ c)
    match r.2.2 with
    | .more => let t := appRun r.2.1 cs; (r.1 ++ t.1, t.2)
    | st => (r.1, st.toOutcome)

end Ndn.C11
