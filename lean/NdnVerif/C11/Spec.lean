/-
  C11 specification (core Lean, executable).

  A *well-formed TLV block* is  T ++ L ++ V  with T and L in the shortest TLV-number form (the NDN
  packet format requires the shortest form), |V| = L.  The protocol constant the property names —
  maximum packet size 8800 — is hard-wired HERE; the model takes `MaxNDNPacketSize` from the
  regenerated `Gen/C11Consts.lean`, so changing the constant in the source falsifies a theorem.

  Specification of a stream receiver: whatever way the concatenation of the blocks is cut into
  reads, the frames handed up are exactly the blocks, in order — and after every single read,
  exactly the blocks completely received so far have been handed up (`completeBlocks`).
-/
import NdnVerif.Base.Num
namespace Ndn.C11

/-- the protocol's maximum packet size (property text: "sizes 2..8800") -/
def specMaxPkt : Nat := 8800

/-- `b` is T ++ L ++ V in shortest form with |V| = L and a 64-bit type number -/
def WellFormedTlv (b : Bytes) : Prop :=
  ∃ (typ : Nat) (v : Bytes), typ < 2 ^ 64 ∧ b = encTL typ ++ encTL v.length ++ v

/-- executable recogniser used by the driver and the non-vacuity examples -/
def isWellFormedTlv (b : Bytes) : Bool :=
  match decTL b with
  | none => false
  | some (typ, r1) =>
    match decTL r1 with
    | none => false
    | some (len, v) => v.length == len && b == encTL typ ++ encTL len ++ v

/-- the admissible inputs of C11: well-formed blocks no larger than the maximum packet size -/
def Admissible (blocks : List Bytes) : Prop :=
  ∀ b ∈ blocks, WellFormedTlv b ∧ b.length ≤ specMaxPkt

/-- The abstract receiver: of the blocks `bs` whose concatenation starts with the `n` bytes received
    so far, the ones that are complete. -/
def completeBlocks : List Bytes → Nat → List Bytes
  | [], _ => []
  | b :: bs, n => if b.length ≤ n then b :: completeBlocks bs (n - b.length) else []

end Ndn.C11
