/-
  C11 specification (core Lean, executable).

  A *well-formed TLV block* is  T ++ L ++ V  with |V| = L, where T and L are TLV numbers in ANY of
  the forms the readers accept (first byte <= 0xfc, or 0xfd / 0xfe / 0xff followed by 2 / 4 / 8 bytes):
  the property quantifies over "1/3/5-byte length forms" of blocks of at most 8800 bytes, and a 5-byte
  length form of such a block is never the shortest one — so the shortest form is NOT required here
  (it was until round 13; `ShortestForm` below is the old definition, a special case:
  `wellFormed_of_shortest`).  The protocol constant the property names —
  maximum packet size 8800 — is hard-wired HERE; the model takes `MaxNDNPacketSize` from the
  regenerated `Gen/C11Consts.lean`, so changing the constant in the source falsifies a theorem.

  Specification of a stream receiver: whatever way the concatenation of the blocks is cut into
  reads, the frames handed up are exactly the blocks, in order — and after every single read,
  exactly the blocks completely received so far have been handed up (`completeBlocks`).
-/
import NdnVerif.Base.Num
namespace Ndn.C11

/-- the protocol's maximum packet size (property text: "sizes 2..8800") -/
def specMaxPkt : Nat := 8800

/-- `b` is T ++ L ++ V with |V| = L; T and L in any accepted form (`decTL` = `ReadTLNum`) -/
def WellFormedTlv (b : Bytes) : Prop :=
  ∃ (typ len : Nat) (r1 v : Bytes), decTL b = some (typ, r1) ∧ decTL r1 = some (len, v) ∧ v.length = len

/-- the narrower notion used until round 13: T and L in the shortest form, a 64-bit type number -/
def ShortestForm (b : Bytes) : Prop :=
  ∃ (typ : Nat) (v : Bytes), typ < 2 ^ 64 ∧ b = encTL typ ++ encTL v.length ++ v

/-- executable recogniser used by the driver and the non-vacuity examples -/
def isWellFormedTlv (b : Bytes) : Bool :=
  match decTL b with
  | none => false
  | some (_, r1) =>
    match decTL r1 with
    | none => false
    | some (len, v) => v.length == len

theorem isWellFormedTlv_iff (b : Bytes) : isWellFormedTlv b = true ↔ WellFormedTlv b := by
  unfold isWellFormedTlv WellFormedTlv
  constructor
  · intro h
    split at h
    · simp at h
    · rename_i typ r1 h1
      split at h
      · simp at h
      · rename_i len v h2
        exact ⟨typ, len, r1, v, h1, h2, by simpa using h⟩
  · rintro ⟨typ, len, r1, v, h1, h2, h3⟩
    simp [h1, h2, h3]

instance (b : Bytes) : Decidable (WellFormedTlv b) :=
  decidable_of_iff _ (isWellFormedTlv_iff b)

/-- every shortest-form block (of a length a 64-bit number can express) is well-formed -/
theorem wellFormed_of_shortest {b : Bytes} (h : ShortestForm b) (hl : b.length < 2 ^ 64) :
    WellFormedTlv b := by
  obtain ⟨typ, v, htyp, rfl⟩ := h
  have hv : v.length < 2 ^ 64 := by simp at hl; omega
  refine ⟨typ, v.length, encTL v.length ++ v, v, ?_, decTL_encTL _ hv _, rfl⟩
  rw [List.append_assoc]; exact decTL_encTL typ htyp _

/-- a TLV number written in the form that takes `form` bytes (1, 3, 5 or 9) -/
def encTLForm (form x : Nat) : Bytes :=
  if form = 1 then [x] else if form = 3 then 0xfd :: be 2 x else if form = 5 then 0xfe :: be 4 x
  else 0xff :: be 8 x

/-- the value fits the form (the one-byte form holds 0..0xfc) -/
def formFits (form x : Nat) : Prop :=
  (form = 1 ∧ x ≤ 0xfc) ∨ (form = 3 ∧ x < 2 ^ 16) ∨ (form = 5 ∧ x < 2 ^ 32) ∨ (form = 9 ∧ x < 2 ^ 64)

instance (form x : Nat) : Decidable (formFits form x) := by unfold formFits; exact inferInstance

/-- the readers accept every form, shortest or not -/
theorem decTL_encTLForm (form x : Nat) (h : formFits form x) (rest : Bytes) :
    decTL (encTLForm form x ++ rest) = some (x, rest) := by
  unfold formFits at h
  rcases h with ⟨rfl, hx⟩ | ⟨rfl, hx⟩ | ⟨rfl, hx⟩ | ⟨rfl, hx⟩
  · simp [encTLForm, decTL, hx]
  · have : beDec (be 2 x) = x := beDec_be 2 x (by omega)
    simp [encTLForm, decTL, tlExtra, this]
  · have : beDec (be 4 x) = x := beDec_be 4 x (by omega)
    simp [encTLForm, decTL, tlExtra, this]
  · have : beDec (be 8 x) = x := beDec_be 8 x (by omega)
    simp [encTLForm, decTL, tlExtra, this]

/-- T and L written in ANY fitting form (in particular L in the 5-byte form for a block of at most
    8800 bytes, which the quantifier of C11 names) make a well-formed block -/
theorem wellFormed_of_forms (ft fl typ : Nat) (v : Bytes) (ht : formFits ft typ)
    (hl : formFits fl v.length) : WellFormedTlv (encTLForm ft typ ++ encTLForm fl v.length ++ v) := by
  refine ⟨typ, v.length, encTLForm fl v.length ++ v, v, ?_, decTL_encTLForm _ _ hl _, rfl⟩
  rw [List.append_assoc]; exact decTL_encTLForm _ _ ht _

/-- the admissible inputs of C11: well-formed blocks no larger than the maximum packet size -/
def Admissible (blocks : List Bytes) : Prop :=
  ∀ b ∈ blocks, WellFormedTlv b ∧ b.length ≤ specMaxPkt

/-- The abstract receiver: of the blocks `bs` whose concatenation starts with the `n` bytes received
    so far, the ones that are complete. -/
def completeBlocks : List Bytes → Nat → List Bytes
  | [], _ => []
  | b :: bs, n => if b.length ≤ n then b :: completeBlocks bs (n - b.length) else []

end Ndn.C11
