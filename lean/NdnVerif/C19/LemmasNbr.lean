/-
  C19 helper lemmas, part A5 (decides F-19a): along every history of router-level events
  (sync Interest from a neighbour = ping, advertisement processed, dead-neighbour check, prefix ops)
  every next hop the RIB holds at finite cost has a neighbour state, so `GetFibEntries` never falls
  back to face 0.  Core Lean only.
-/
import NdnVerif.C19.LemmasFib4
import NdnVerif.C18.LemmasRib
namespace Ndn.C19
open Ndn.C18 (Rib Entry)

/-- finite costs are held only via neighbours that have a neighbour state (or the own entry) -/
structure NbrInv (t : Tables) : Prop where
  wf : t.rib.WF
  loc : ∀ d h, t.rib.cst d h < C18.inf → (pget t.nbrs h).isSome ∨ (d = t.self ∧ h = t.self)

theorem nbrInv_start (self : Nat) : NbrInv (Tables.start self) := by
  constructor
  · exact (C18.start_wf_cst self).1
  · intro d h hlt
    have := (C18.start_wf_cst self).2 d h
    simp only [Tables.start] at hlt ⊢
    rw [this] at hlt
    by_cases hc : d = self ∧ h = self
    · exact Or.inr hc
    · simp [hc] at hlt

theorem pget_recvPing_isSome {nbrs : List (Nat × Nbr)} {w face : Nat} {active : Bool} {h : Nat}
    (hs : (pget nbrs h).isSome) : (pget (recvPing nbrs w face active).1 h).isSome := by
  unfold recvPing
  simp only
  split
  · split
    · simp only [pget_pset]; by_cases e : h = w <;> simp [e, hs]
    · simp only [pget_pset]; by_cases e : h = w <;> simp [e, hs]
  · simp only [pget_pset]; by_cases e : h = w <;> simp [e, hs]

theorem deadOne_eq (t : Tables) (w : Nat) : t.deadOne w = t.stepDirty (.dead w) := rfl

theorem sweep_fold_fst (ws : List Nat) : ∀ (t : Tables) (d : Bool),
    (ws.foldl (fun acc w => ((Tables.deadOne acc.1 w).1, acc.2 || (Tables.deadOne acc.1 w).2)) (t, d)).1 =
      ws.foldl (fun t w => t.step (.dead w)) t := by
  induction ws with
  | nil => intro t d; rfl
  | cons w r ih => intro t d; simp only [List.foldl_cons]; rw [ih]; rfl

theorem nbrInv_step {t : Tables} (inv : NbrInv t) (ev : RouterEvent) : NbrInv (t.step ev) := by
  cases ev with
  | ping w face active =>
    exact ⟨inv.wf, fun d h hlt => by
      rcases inv.loc d h hlt with h1 | h1
      · exact Or.inl (pget_recvPing_isSome h1)
      · exact Or.inr h1⟩
  | adv w entries =>
    simp only [Tables.step, Tables.stepDirty]
    cases hw : pget t.nbrs w with
    | none => exact inv
    | some nb =>
      simp only
      obtain ⟨wf', hc⟩ := C18.ribUpdate_wf_cst t.self inv.wf w entries
      refine ⟨wf', ?_⟩
      intro d h hlt
      rw [hc] at hlt
      by_cases hh : h = w
      · subst hh; exact Or.inl (by simp [hw])
      · simp only [hh, if_false] at hlt
        exact inv.loc d h hlt
  | dead w =>
    simp only [Tables.step, Tables.stepDirty]
    cases hw : pget t.nbrs w with
    | none => exact inv
    | some nb =>
      simp only
      obtain ⟨wf', hc⟩ := C18.ribDead_wf_cst inv.wf w
      refine ⟨wf', ?_⟩
      intro d h hlt
      rw [hc] at hlt
      by_cases hh : h = w
      · simp [hh] at hlt
      · simp only [hh, if_false] at hlt
        rcases inv.loc d h hlt with h1 | h1
        · exact Or.inl (by simp only [pget_perase, hh, if_false]; exact h1)
        · exact Or.inr h1
  | papply x reset adds rems => exact ⟨inv.wf, inv.loc⟩
  | sweep ws =>
    have hd : ∀ (t : Tables) (w : Nat), NbrInv t → NbrInv (t.step (.dead w)) := by
      intro t w inv
      simp only [Tables.step, Tables.stepDirty]
      cases hw : pget t.nbrs w with
      | none => exact inv
      | some nb =>
        simp only
        obtain ⟨wf', hc⟩ := C18.ribDead_wf_cst inv.wf w
        refine ⟨wf', ?_⟩
        intro d h hlt
        rw [hc] at hlt
        by_cases hh : h = w
        · simp [hh] at hlt
        · simp only [hh, if_false] at hlt
          rcases inv.loc d h hlt with h1 | h1
          · exact Or.inl (by simp only [pget_perase, hh, if_false]; exact h1)
          · exact Or.inr h1
    simp only [Tables.step, Tables.stepDirty, sweep_fold_fst]
    have : ∀ (ws : List Nat) (t : Tables), NbrInv t → NbrInv (ws.foldl (fun t w => t.step (.dead w)) t) := by
      intro ws
      induction ws with
      | nil => intro t h; exact h
      | cons w r ih => intro t h; exact ih _ (hd t w h)
    exact this ws t inv

/-- the invariant gives what the installer needs -/
theorem nbrOk_of_inv {t : Tables} (inv : NbrInv t) : NbrOk t := by
  intro e he hne
  have hmem : e ∈ t.rib.entries := (List.mem_filter.1 he).1
  have p : C18.Post t.rib.entries := inv.wf
  have ok := p.ok e hmem
  have t2 := C18.refreshOf_top2 e.costs ok.nd
  have hfresh := p.fresh e hmem
  have hcst : ∀ h k, (h, k) ∈ e.costs → t.rib.cst e.dest h = k := by
    intro h k hm
    unfold Rib.cst C18.cstL C18.costsL
    rw [C18.findE_of_mem p.nd hmem]
    unfold C18.cget
    rw [C18.aget_of_mem ok.nd hm]; rfl
  have hl1 : e.best.low1 < C18.inf := p.finite e hmem
  constructor
  · have hm := t2.mem1 (by rw [← hfresh]; exact hl1)
    rw [← hfresh] at hm
    rcases inv.loc e.dest e.best.nh1 (by rw [hcst _ _ hm]; exact hl1) with h | h
    · exact h
    · exact absurd h.1 hne
  · intro hl2
    have hl2' : e.best.low2 < C18.inf := hl2
    have hm := (t2.mem2 (by rw [← hfresh]; exact hl2')).1
    rw [← hfresh] at hm
    rcases inv.loc e.dest e.best.nh2 (by rw [hcst _ _ hm]; exact hl2') with h | h
    · exact h
    · exact absurd h.1 hne

end Ndn.C19
