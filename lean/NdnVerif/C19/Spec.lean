/-
  C19 specification (executable, independent of the model).

  (A) The routes registered in the forwarder = the replay of the emitted register / unregister
      command stream into a reference route table.  They must equal the from-scratch prescription:
      for each prefix, over all reachable remote routers currently announcing it (and for each such
      router's own routing prefix), the faces of that router's best and finite second-best next
      hops, each face at the lowest such cost; nothing else.
  (B) The prefix set a peer holds for a publisher at sequence number k equals the publisher's
      announced set after its k-th publication.

  infinity is the protocol constant 16 (hard-wired). Core Lean only.
-/
namespace Ndn.C19

/-- a management command for module "rib" (the observable alphabet of the installer) -/
inductive Cmd where
  | register (name face cost : Nat)
  | unregister (name face : Nat)
deriving DecidableEq, Repr

namespace Spec

def infinity : Nat := 16

/-- reference route table: (name, face) ↦ cost -/
abbrev Routes := List ((Nat × Nat) × Nat)

def rget : Routes → Nat × Nat → Option Nat
  | [], _ => none
  | (k', v) :: t, k => if k' = k then some v else rget t k

def rerase : Routes → Nat × Nat → Routes
  | [], _ => []
  | (k', v) :: t, k => if k' = k then rerase t k else (k', v) :: rerase t k

/-- register overwrites the cost of (name, face); unregister removes it -/
def applyCmd (r : Routes) : Cmd → Routes
  | .register name face cost => ((name, face), cost) :: rerase r (name, face)
  | .unregister name face => rerase r (name, face)

def replay (r : Routes) (cmds : List Cmd) : Routes := cmds.foldl applyCmd r

/-- one reachable destination of the routing table as observed: best / second-best next hop
    (router key, 0 = none) and cost -/
structure RibObs where
  dest : Nat
  nh1 : Nat
  c1 : Nat
  nh2 : Nat
  c2 : Nat
deriving Repr

/-- the (name, face, cost) triples the tables prescribe.
    `self`      : key of this router
    `prefixOf`  : router key ↦ id of its routing prefix "<router>/32=DV"
    `faceOf`    : neighbour key ↦ face of its neighbour state (none: no neighbour state)
    `announced` : router key ↦ names it currently announces -/
def candidates (self : Nat) (prefixOf : Nat → Nat) (faceOf : Nat → Option Nat)
    (announced : Nat → List Nat) (rib : List RibObs) : List (Nat × Nat × Nat) :=
  rib.flatMap fun e =>
    if e.dest = self ∨ ¬ e.c1 < infinity then []
    else
      let hops :=
        (match faceOf e.nh1 with | some f => [(f, e.c1)] | none => []) ++
        (if e.c2 < infinity then (match faceOf e.nh2 with | some f => [(f, e.c2)] | none => []) else [])
      (prefixOf e.dest :: announced e.dest).flatMap fun n => hops.map fun (f, c) => (n, f, c)

/-- lowest prescribed cost of (name, face); none = nothing prescribed -/
def prescribedCost (cands : List (Nat × Nat × Nat)) (name face : Nat) : Option Nat :=
  cands.foldl (fun best (n, f, c) =>
      if n = name ∧ f = face then
        match best with
        | none => some c
        | some b => some (min b c)
      else best) none

def insertSorted (x : (Nat × Nat) × Nat) : Routes → Routes
  | [] => [x]
  | y :: t =>
    if x.1.1 < y.1.1 ∨ (x.1.1 = y.1.1 ∧ x.1.2 ≤ y.1.2) then x :: y :: t else y :: insertSorted x t

/-- canonical form of a route table with unique keys: sorted by (name, face) -/
def canon (r : Routes) : Routes := r.foldr insertSorted []

/-- the prescription as a canonical route table -/
def prescribed (cands : List (Nat × Nat × Nat)) : Routes :=
  canon ((cands.map fun (n, f, _) => (n, f)).eraseDups.filterMap fun (n, f) =>
    (prescribedCost cands n f).map fun c => ((n, f), c))

/-! ### (B) prefix log -/

/-- a publisher operation as issued (readvertise register / unregister) -/
inductive PubOp where
  | announce (name : Nat)
  | withdraw (name : Nat)
deriving Repr

/-- the announced set after an operation; `changed` = the operation is published -/
def announce (s : List Nat) : PubOp → List Nat × Bool
  | .announce n => if s.contains n then (s, false) else (n :: s, true)
  | .withdraw n => if s.contains n then (s.filter (· ≠ n), true) else (s, false)

def sortNat (l : List Nat) : List Nat := l.mergeSort (· ≤ ·)

end Spec
end Ndn.C19
