/-
  C19 helper lemmas, part A3: `updateAll`, `sweep` and `fibUpdate` — after a fibUpdate the replayed
  routes equal the lowest finite cost per (name, face) of the desired entries.  Core Lean only.
-/
import NdnVerif.C19.LemmasFib2
namespace Ndn.C19
open Spec (Routes rget rerase applyCmd replay)

/-- lowest finite desired cost of (name, face) -/
def desCost (des : List (Nat × List (Nat × Nat))) (name face : Nat) : Option Nat :=
  match pget des name with
  | some L => minFin L face
  | none => none

theorem pget_none_of_not_mem {α : Type} {m : List (Nat × α)} {k : Nat} (h : k ∉ m.map (·.1)) : pget m k = none := by
  induction m with
  | nil => rfl
  | cons x t ih =>
    obtain ⟨xk, xv⟩ := x
    simp only [List.map_cons, List.mem_cons, not_or] at h
    have : ¬ xk = k := fun e => h.1 e.symm
    simp [pget, this, ih h.2]

theorem pget_some_of_mem {α : Type} {m : List (Nat × α)} {k : Nat} (h : k ∈ m.map (·.1)) : ∃ v, pget m k = some v := by
  induction m with
  | nil => cases h
  | cons x t ih =>
    obtain ⟨xk, xv⟩ := x
    simp only [pget]
    by_cases hx : xk = k
    · exact ⟨xv, by simp [hx]⟩
    · simp only [hx, if_false]
      simp only [List.map_cons, List.mem_cons] at h
      rcases h with h | h
      · exact absurd h.symm hx
      · exact ih h

theorem replay_append (r : Routes) (a b : List Cmd) : replay r (a ++ b) = replay (replay r a) b := by
  simp [replay, List.foldl_append]

theorem mirror_mark {fib : Fib} {routes : Routes} (m : Mirror fib routes) (mk : List Nat) :
    Mirror { fib with mark := mk } routes := ⟨m.good, m.agree⟩

theorem fibCost_congr {fib fib' : Fib} {n : Nat} (h : pget fib'.prefixes n = pget fib.prefixes n) (f : Nat) :
    fibCost fib' n f = fibCost fib n f := by unfold fibCost; rw [h]

theorem updateAll_spec (des : List (Nat × List (Nat × Nat))) : ∀ {fib : Fib} {routes : Routes},
    Mirror fib routes → (des.map (·.1)).Nodup →
    Mirror (updateAll fib des).1 (replay routes (updateAll fib des).2) ∧
    (∀ name, name ∈ des.map (·.1) → ∀ f, fibCost (updateAll fib des).1 name f = desCost des name f) ∧
    (∀ name, name ∉ des.map (·.1) → pget (updateAll fib des).1.prefixes name = pget fib.prefixes name) ∧
    (∀ name, name ∈ (updateAll fib des).1.mark → name ∈ des.map (·.1) ∨ name ∈ fib.mark) ∧
    (∀ name, name ∈ des.map (·.1) → pget (updateAll fib des).1.prefixes name ≠ none → name ∈ (updateAll fib des).1.mark) ∧
    (∀ name, name ∉ des.map (·.1) → name ∈ fib.mark → name ∈ (updateAll fib des).1.mark) := by
  induction des with
  | nil =>
    intro fib routes mir _
    exact ⟨mir, (by intro n h; simp at h), fun _ _ => rfl, fun _ h => Or.inr h, (by intro n h; simp at h), fun _ _ h => h⟩
  | cons x t ih =>
    intro fib routes mir nd
    obtain ⟨n, L⟩ := x
    simp only [List.map_cons, List.nodup_cons] at nd
    obtain ⟨hmir, hcost, hother, hok, hnok⟩ := updateH_spec mir n L
    simp only [updateAll]
    -- the state after the optional MarkH
    generalize hB : (if (fib.updateH n L).2.2 = true then
        { (fib.updateH n L).1 with mark := n :: (fib.updateH n L).1.mark } else (fib.updateH n L).1) = fibB
    have hBp : fibB.prefixes = (fib.updateH n L).1.prefixes := by
      rw [← hB]; split <;> rfl
    have hBm : ∀ name, name ∈ fibB.mark ↔ (name ∈ (fib.updateH n L).1.mark ∨ (name = n ∧ (fib.updateH n L).2.2 = true)) := by
      intro name; rw [← hB]
      by_cases hk : (fib.updateH n L).2.2 = true
      · simp [hk]; constructor
        · rintro (h | h)
          · exact Or.inr h
          · exact Or.inl h
        · rintro (h | h)
          · exact Or.inr h
          · exact Or.inl h
      · simp [hk]
    have mirB : Mirror fibB (replay routes (fib.updateH n L).2.1) :=
      ⟨by intro a es h; rw [hBp] at h; exact hmir.good a es h,
       by intro a f; rw [hmir.agree]; unfold fibCost; rw [hBp]⟩
    obtain ⟨m2, c2, o2, mk2, pr2, keep2⟩ := ih mirB nd.2
    refine ⟨?_, ?_, ?_, ?_, ?_, ?_⟩
    · rw [replay_append]; exact m2
    · intro name hname f
      simp only [List.map_cons, List.mem_cons] at hname
      by_cases hn : name = n
      · subst hn
        have h1 := o2 name nd.1
        rw [fibCost_congr h1, fibCost_congr (show pget fibB.prefixes name = pget (fib.updateH name L).1.prefixes name by rw [hBp]),
          hcost f]
        simp [desCost, pget]
      · have hnt : name ∈ t.map (·.1) := by
          rcases hname with h | h
          · exact absurd h hn
          · exact h
        rw [c2 name hnt f]
        have : ¬ n = name := fun e => hn e.symm
        simp [desCost, pget, this]
    · intro name hname
      simp only [List.map_cons, List.mem_cons, not_or] at hname
      rw [o2 name hname.2, hBp, hother name hname.1]
    · intro name hm
      rcases mk2 name hm with h | h
      · exact Or.inl (List.mem_cons_of_mem _ h)
      · rcases (hBm name).1 h with h | ⟨h, _⟩
        · by_cases hk : (fib.updateH n L).2.2 = true
          · rw [(hok hk).2] at h; exact Or.inr h
          · have hk' : (fib.updateH n L).2.2 = false := by simpa using hk
            rw [(hnok hk').2] at h
            exact Or.inr (List.mem_filter.1 h).1
        · exact Or.inl (by rw [h]; exact List.mem_cons_self ..)
    · intro name hname hpres
      simp only [List.map_cons, List.mem_cons] at hname
      by_cases hn : name = n
      · subst hn
        have h1 := o2 name nd.1
        rw [h1, hBp] at hpres
        have hk : (fib.updateH name L).2.2 = true := by
          by_cases hk : (fib.updateH name L).2.2 = true
          · exact hk
          · have hk' : (fib.updateH name L).2.2 = false := by simpa using hk
            exact absurd (hnok hk').1 hpres
        exact keep2 name nd.1 ((hBm name).2 (Or.inr ⟨rfl, hk⟩))
      · have hnt : name ∈ t.map (·.1) := by
          rcases hname with h | h
          · exact absurd h hn
          · exact h
        exact pr2 name hnt hpres
    · intro name hname hm
      simp only [List.map_cons, List.mem_cons, not_or] at hname
      apply keep2 name hname.2
      apply (hBm name).2
      left
      by_cases hk : (fib.updateH n L).2.2 = true
      · rw [(hok hk).2]; exact hm
      · have hk' : (fib.updateH n L).2.2 = false := by simpa using hk
        rw [(hnok hk').2]
        exact List.mem_filter.2 ⟨hm, by simpa using hname.1⟩

theorem minFin_nil (f : Nat) : minFin [] f = none := rfl

theorem sweep_spec (ns : List Nat) : ∀ {fib : Fib} {routes : Routes}, Mirror fib routes →
    Mirror (sweep fib ns).1 (replay routes (sweep fib ns).2) ∧
    (∀ name, name ∈ ns → name ∉ fib.mark → ∀ f, fibCost (sweep fib ns).1 name f = none) ∧
    (∀ name, ¬ (name ∈ ns ∧ name ∉ fib.mark) → pget (sweep fib ns).1.prefixes name = pget fib.prefixes name) := by
  induction ns with
  | nil =>
    intro fib routes mir
    exact ⟨mir, (by intro n h; cases h), fun _ _ => rfl⟩
  | cons n t ih =>
    intro fib routes mir
    simp only [sweep]
    by_cases hmk : fib.mark.contains n = true
    · simp only [hmk, if_true]
      have hmem : n ∈ fib.mark := by simpa using hmk
      obtain ⟨m2, c2, o2⟩ := ih mir
      refine ⟨m2, ?_, ?_⟩
      · intro name hname hnm f
        rcases List.mem_cons.1 hname with rfl | h
        · exact absurd hmem hnm
        · exact c2 name h hnm f
      · intro name hnot
        apply o2
        intro ⟨h1, h2⟩
        exact hnot ⟨List.mem_cons_of_mem _ h1, h2⟩
    · have hmk' : fib.mark.contains n = false := by simpa using hmk
      simp only [hmk', Bool.false_eq_true, if_false]
      have hnmem : n ∉ fib.mark := by simpa using hmk
      obtain ⟨hmir, hcost, hother, hok, hnok⟩ := updateH_spec mir n []
      -- marks of the other names are unchanged
      have hmarks : ∀ name, name ∈ (fib.updateH n []).1.mark → name ∈ fib.mark := by
        intro name h
        by_cases hk : (fib.updateH n []).2.2 = true
        · rw [(hok hk).2] at h; exact h
        · have hk' : (fib.updateH n []).2.2 = false := by simpa using hk
          rw [(hnok hk').2] at h; exact (List.mem_filter.1 h).1
      have hmarks' : ∀ name, name ≠ n → name ∈ fib.mark → name ∈ (fib.updateH n []).1.mark := by
        intro name hne h
        by_cases hk : (fib.updateH n []).2.2 = true
        · rw [(hok hk).2]; exact h
        · have hk' : (fib.updateH n []).2.2 = false := by simpa using hk
          rw [(hnok hk').2]; exact List.mem_filter.2 ⟨h, by simpa using hne⟩
      obtain ⟨m2, c2, o2⟩ := ih hmir
      refine ⟨by rw [replay_append]; exact m2, ?_, ?_⟩
      · intro name hname hnm f
        by_cases hin : name ∈ t
        · exact c2 name hin (fun h => hnm (hmarks name h)) f
        · have hn : name = n := by
            rcases List.mem_cons.1 hname with h | h
            · exact h
            · exact absurd h hin
          subst hn
          rw [fibCost_congr (o2 name (fun h => hin h.1)), hcost f]; rfl
      · intro name hnot
        have hne : name ≠ n := by
          intro e; subst e
          exact hnot ⟨List.mem_cons_self .., hnmem⟩
        rw [o2 name (by
          intro ⟨h1, h2⟩
          exact hnot ⟨List.mem_cons_of_mem _ h1, fun h => h2 (hmarks' name hne h)⟩)]
        exact hother name hne

/-- after `fibUpdate` the replayed route table is exactly the desired one -/
theorem fibUpdate_spec (prefixOf : Nat → Nat) (t : Tables) {fib : Fib} {routes : Routes}
    (mir : Mirror fib routes) (nd : ((desired prefixOf t).map (·.1)).Nodup) :
    Mirror (fibUpdate prefixOf t fib).1 (replay routes (fibUpdate prefixOf t fib).2) ∧
    ∀ name f, rget (replay routes (fibUpdate prefixOf t fib).2) (name, f) = desCost (desired prefixOf t) name f := by
  unfold fibUpdate
  simp only
  have mir0 : Mirror { fib with mark := [] } routes := mirror_mark mir []
  obtain ⟨m1, c1, o1, mk1, pr1, _⟩ := updateAll_spec (desired prefixOf t) mir0 nd
  generalize updateAll { fib with mark := [] } (desired prefixOf t) = ua at m1 c1 o1 mk1 pr1
  obtain ⟨m2, c2, o2⟩ := sweep_spec (ua.1.prefixes.map (·.1)) m1
  refine ⟨by rw [replay_append]; exact m2, ?_⟩
  intro name f
  rw [replay_append, m2.agree]
  by_cases hin : name ∈ (desired prefixOf t).map (·.1)
  · -- desired names are never swept
    have hns : ¬ (name ∈ ua.1.prefixes.map (·.1) ∧ name ∉ ua.1.mark) := by
      intro ⟨h1, h2⟩
      obtain ⟨v, hv⟩ := pget_some_of_mem h1
      exact h2 (pr1 name hin (by rw [hv]; simp))
    rw [fibCost_congr (o2 name hns), c1 name hin f]
  · have hdes : desCost (desired prefixOf t) name f = none := by
      unfold desCost; rw [pget_none_of_not_mem hin]
    rw [hdes]
    have hnm : name ∉ ua.1.mark := by
      intro h
      rcases mk1 name h with h | h
      · exact hin h
      · cases h
    by_cases hpres : name ∈ ua.1.prefixes.map (·.1)
    · exact c2 name hpres hnm f
    · rw [fibCost_congr (o2 name (fun h => hpres h.1))]
      unfold fibCost; rw [pget_none_of_not_mem hpres]

end Ndn.C19
