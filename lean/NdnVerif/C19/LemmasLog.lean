/-
  C19 helper lemmas, part B: the prefix operation log.  Ghost function `setAtL log k` = the
  publisher's announced set after its publication number k (replay of the logged operations with
  sequence number ≤ k); invariants of the publisher (log strictly decreasing, current set and snapshot
  are replays) and of a peer (its set is the replay up to its Known; an outstanding op Interest asks
  for Known+1).  Core Lean only.
-/
import NdnVerif.C19.Model
namespace Ndn.C19

/-- the announced set after the publication with sequence number `k` (log is newest first) -/
def setAtL : List (UInt64 × LogOp) → UInt64 → List Nat
  | [], _ => []
  | (s, op) :: t, k => if s ≤ k then applyOp (setAtL t k) op else setAtL t k

/-- strictly decreasing sequence numbers, all above `lo` and at most `hi` -/
def LogSorted : List (UInt64 × LogOp) → Prop
  | [] => True
  | (s, _) :: t => (∀ x ∈ t, x.1 < s) ∧ LogSorted t

theorem setAtL_stable {log : List (UInt64 × LogOp)} {k k' : UInt64}
    (h : ∀ x ∈ log, x.1 ≤ k) (hk : k ≤ k') : setAtL log k' = setAtL log k := by
  induction log with
  | nil => rfl
  | cons x t ih =>
    obtain ⟨s, op⟩ := x
    have hs : s ≤ k := h (s, op) (List.mem_cons_self ..)
    have hs' : s ≤ k' := UInt64.le_trans hs hk
    simp only [setAtL, hs, hs', if_true]
    rw [ih (fun y hy => h y (List.mem_cons_of_mem _ hy))]

theorem logGet_mem {log : List (UInt64 × LogOp)} {n : UInt64} {op : LogOp} (h : logGet log n = some op) :
    (n, op) ∈ log := by
  induction log with
  | nil => simp [logGet] at h
  | cons x t ih =>
    obtain ⟨s, o⟩ := x
    simp only [logGet] at h
    by_cases hs : s = n
    · simp only [hs, if_true, Option.some.injEq] at h
      subst hs; subst h; exact List.mem_cons_self ..
    · simp only [hs, if_false] at h
      exact List.mem_cons_of_mem _ (ih h)

/-- applying logged operation `n = known + 1` to the replay up to `known` gives the replay up to `n` -/
theorem setAtL_next {log : List (UInt64 × LogOp)} (srt : LogSorted log) {known n : UInt64} {op : LogOp}
    (hn : n.toNat = known.toNat + 1) (hg : logGet log n = some op) :
    setAtL log n = applyOp (setAtL log known) op := by
  induction log with
  | nil => simp [logGet] at hg
  | cons x t ih =>
    obtain ⟨s, o⟩ := x
    obtain ⟨hlt, srt'⟩ := srt
    simp only [logGet] at hg
    by_cases hs : s = n
    · subst hs
      simp only [if_true, Option.some.injEq] at hg
      subst hg
      have h1 : s ≤ s := UInt64.le_refl s
      have h2 : ¬ s ≤ known := by
        rw [UInt64.le_iff_toNat_le]; omega
      simp only [setAtL, h1, h2, if_true, if_false]
      have hall : ∀ y ∈ t, y.1 ≤ known := by
        intro y hy
        have := hlt y hy
        rw [UInt64.lt_iff_toNat_lt] at this
        rw [UInt64.le_iff_toNat_le]; omega
      have hkn : known ≤ s := by rw [UInt64.le_iff_toNat_le]; omega
      rw [setAtL_stable hall hkn]
    · simp only [hs, if_false] at hg
      have hmem := logGet_mem hg
      have hns : n < s := hlt (n, op) hmem
      have h1 : ¬ s ≤ n := by
        rw [UInt64.lt_iff_toNat_lt] at hns
        rw [UInt64.le_iff_toNat_le]; omega
      have h2 : ¬ s ≤ known := by
        rw [UInt64.lt_iff_toNat_lt] at hns
        rw [UInt64.le_iff_toNat_le]; omega
      simp only [setAtL, h1, h2, if_false]
      exact ih srt' hg

/-- publisher invariant -/
structure PubInv (p : Pub) : Prop where
  sorted : LogSorted p.log
  top : ∀ x ∈ p.log, x.1 ≤ p.seq
  cur : p.set = setAtL p.log p.seq
  snapLe : p.snapAt ≤ p.seq
  snap : p.snapSet = setAtL p.log p.snapAt

theorem pubInv_init (seq0 : UInt64) : PubInv (Pub.init seq0) :=
  ⟨trivial, (by intro x hx; cases hx), rfl, UInt64.le_refl _, rfl⟩

theorem toNat_succ {s : UInt64} (h : s.toNat + 1 < 2 ^ 64) : (s + 1).toNat = s.toNat + 1 := by
  rw [UInt64.toNat_add]
  simp only [UInt64.toNat_one]
  exact Nat.mod_eq_of_lt h

/-- `publishOp` keeps the invariant; replays up to any earlier sequence number are unchanged -/
theorem publishOp_inv {p : Pub} (inv : PubInv { p with set := p.set } ) (newSet : List Nat) (op : LogOp)
    (hset : newSet = applyOp p.set op) (hw : p.seq.toNat + 1 < 2 ^ 64) :
    PubInv (Pub.publishOp { p with set := newSet } op) ∧
    (Pub.publishOp { p with set := newSet } op).seq = p.seq + 1 ∧
    ∀ k, k ≤ p.seq → setAtL (Pub.publishOp { p with set := newSet } op).log k = setAtL p.log k := by
  have hsucc := toNat_succ hw
  have hlt : p.seq < p.seq + 1 := by rw [UInt64.lt_iff_toNat_lt]; omega
  have hle : p.seq ≤ p.seq + 1 := by rw [UInt64.le_iff_toNat_le]; omega
  have hnew : setAtL ((p.seq + 1, op) :: p.log) (p.seq + 1) = newSet := by
    simp only [setAtL, UInt64.le_refl, if_true]
    rw [setAtL_stable inv.top hle, ← inv.cur, hset]
  have hold : ∀ k, k ≤ p.seq → setAtL ((p.seq + 1, op) :: p.log) k = setAtL p.log k := by
    intro k hk
    have : ¬ p.seq + 1 ≤ k := by
      rw [UInt64.le_iff_toNat_le] at hk ⊢; omega
    simp only [setAtL, this, if_false]
  have srt : LogSorted ((p.seq + 1, op) :: p.log) :=
    ⟨fun x hx => by
        have := inv.top x hx
        rw [UInt64.le_iff_toNat_le] at this
        rw [UInt64.lt_iff_toNat_lt]; omega, inv.sorted⟩
  have top : ∀ x ∈ (p.seq + 1, op) :: p.log, x.1 ≤ p.seq + 1 := by
    intro x hx
    rcases List.mem_cons.1 hx with rfl | hx
    · exact UInt64.le_refl _
    · exact UInt64.le_trans (inv.top x hx) hle
  unfold Pub.publishOp
  simp only
  split
  · refine ⟨⟨srt, top, hnew.symm, UInt64.le_refl _, ?_⟩, rfl, hold⟩
    simp only [Pub.publishSnap]; exact hnew.symm
  · refine ⟨⟨srt, top, hnew.symm, UInt64.le_trans inv.snapLe hle, ?_⟩, rfl, hold⟩
    simp only
    rw [hold _ inv.snapLe]; exact inv.snap

theorem announce_inv {p : Pub} (inv : PubInv p) (name : Nat) (hw : p.seq.toNat + 1 < 2 ^ 64) :
    PubInv (p.announce name) ∧ p.seq ≤ (p.announce name).seq ∧
    ∀ k, k ≤ p.seq → setAtL (p.announce name).log k = setAtL p.log k := by
  unfold Pub.announce
  split
  · exact ⟨inv, UInt64.le_refl _, fun _ _ => rfl⟩
  · rename_i hc
    have hset : p.set ++ [name] = applyOp p.set (.add name) := by
      simp only [applyOp, hc]; rfl
    have := publishOp_inv (p := p) inv (p.set ++ [name]) (.add name) hset hw
    refine ⟨this.1, ?_, this.2.2⟩
    rw [this.2.1, UInt64.le_iff_toNat_le, toNat_succ hw]; omega

theorem withdraw_inv {p : Pub} (inv : PubInv p) (name : Nat) (hw : p.seq.toNat + 1 < 2 ^ 64) :
    PubInv (p.withdraw name) ∧ p.seq ≤ (p.withdraw name).seq ∧
    ∀ k, k ≤ p.seq → setAtL (p.withdraw name).log k = setAtL p.log k := by
  unfold Pub.withdraw
  split
  · have := publishOp_inv (p := p) inv (p.set.filter (· ≠ name)) (.remove name) (by simp [applyOp]) hw
    refine ⟨this.1, ?_, this.2.2⟩
    rw [this.2.1, UInt64.le_iff_toNat_le, toNat_succ hw]; omega
  · exact ⟨inv, UInt64.le_refl _, fun _ _ => rfl⟩

/-- peer invariant relative to the publisher -/
structure PeerInv (p : Pub) (q : Peer) : Prop where
  le : q.known ≤ p.seq
  set : q.set = setAtL p.log q.known
  next : ∀ n, q.pend = some (.seq n) → n.toNat = q.known.toNat + 1

theorem setAtL_zero (log : List (UInt64 × LogOp)) (h : ∀ x ∈ log, (0 : UInt64) < x.1) : setAtL log 0 = [] := by
  induction log with
  | nil => rfl
  | cons x t ih =>
    obtain ⟨s, op⟩ := x
    have hs := h (s, op) (List.mem_cons_self ..)
    have : ¬ s ≤ 0 := by
      rw [UInt64.lt_iff_toNat_lt] at hs
      rw [UInt64.le_iff_toNat_le]
      simp only [UInt64.toNat_zero] at hs ⊢; omega
    simp only [setAtL, this, if_false]
    exact ih (fun y hy => h y (List.mem_cons_of_mem _ hy))

theorem peerInv_init (p : Pub) (h : ∀ x ∈ p.log, (0 : UInt64) < x.1) : PeerInv p Peer.init := by
  refine ⟨by rw [UInt64.le_iff_toNat_le]; simp [Peer.init], ?_, by intro n hn; simp [Peer.init] at hn⟩
  simp only [Peer.init]
  exact (setAtL_zero p.log h).symm

theorem fetch_inv {p : Pub} {q : Peer} (inv : PeerInv p q) : PeerInv p q.fetch := by
  unfold Peer.fetch
  split
  · exact inv
  · rename_i hc
    refine ⟨inv.le, inv.set, ?_⟩
    intro n hn
    simp only [Option.some.injEq] at hn
    split at hn
    · cases hn
    · simp only [Want.seq.injEq] at hn
      subst hn
      have hlt : q.known < q.latest := by
        have : ¬ q.known ≥ q.latest := fun h => hc (Or.inr (Or.inr h))
        rw [ge_iff_le, UInt64.le_iff_toNat_le] at this
        rw [UInt64.lt_iff_toNat_lt]; omega
      rw [UInt64.lt_iff_toNat_lt] at hlt
      have := UInt64.toNat_lt q.latest
      exact toNat_succ (by omega)

theorem deliver_inv {p : Pub} {q q' : Peer} {ok : Bool} (pinv : PubInv p) (inv : PeerInv p q)
    (hd : q.deliver p = some (q', ok)) : PeerInv p q' := by
  unfold Peer.deliver at hd
  cases hp : q.pend with
  | none => simp [hp] at hd
  | some want =>
    cases want with
    | snap =>
      simp only [hp, Option.some.injEq, Prod.mk.injEq] at hd
      rw [← hd.1]
      apply fetch_inv
      exact ⟨pinv.snapLe, pinv.snap, by intro n hn; simp at hn⟩
    | seq n =>
      simp only [hp] at hd
      cases hg : logGet p.log n with
      | none =>
        simp only [hg, Option.some.injEq, Prod.mk.injEq] at hd
        rw [← hd.1]; exact inv
      | some op =>
        simp only [hg, Option.some.injEq, Prod.mk.injEq] at hd
        rw [← hd.1]
        apply fetch_inv
        refine ⟨pinv.top _ (logGet_mem hg), ?_, by intro m hm; simp at hm⟩
        simp only
        rw [inv.set]
        exact (setAtL_next pinv.sorted (inv.next n hp) hg).symm

theorem timeout_inv {p : Pub} {q q' : Peer} (inv : PeerInv p q) (hd : q.timeout = some q') : PeerInv p q' := by
  unfold Peer.timeout at hd
  cases hp : q.pend with
  | none => simp [hp] at hd
  | some want =>
    simp only [hp, Option.some.injEq] at hd
    rw [← hd]
    apply fetch_inv
    exact ⟨inv.le, inv.set, by intro n hn; simp at hn⟩

theorem sync_inv {p : Pub} {q : Peer} (inv : PeerInv p q) (high : UInt64) : PeerInv p (q.sync high) := by
  unfold Peer.sync
  apply fetch_inv
  exact ⟨inv.le, inv.set, inv.next⟩

theorem path_inv {p : Pub} {q : Peer} (inv : PeerInv p q) (up : Bool) :
    PeerInv p (if up then q.gainPath else q.losePath) := by
  cases up with
  | false => exact ⟨inv.le, inv.set, inv.next⟩
  | true =>
    simp only [if_true, Peer.gainPath]
    split
    · exact inv
    · apply fetch_inv; exact ⟨inv.le, inv.set, inv.next⟩

theorem svsReceive_inv {p : Pub} {q : Peer} (inv : PeerInv p q) (high : UInt64) : PeerInv p (q.svsReceive high) := by
  unfold Peer.svsReceive
  split
  · exact sync_inv (q := { q with svs := high }) ⟨inv.le, inv.set, inv.next⟩ high
  · exact inv

theorem peerInv_pub {p p' : Pub} {q : Peer} (inv : PeerInv p q) (hle : p.seq ≤ p'.seq)
    (hold : ∀ k, k ≤ p.seq → setAtL p'.log k = setAtL p.log k) : PeerInv p' q :=
  ⟨UInt64.le_trans inv.le hle, by rw [hold _ inv.le]; exact inv.set, inv.next⟩

/-! ### the replication system: one publisher, any number of peers, any interleaving -/

inductive LogEvent where
  /-- the RIB of peer `b` gains / loses its path to the publisher -/
  | path (b : Nat) (up : Bool)
  | announce (name : Nat)
  | withdraw (name : Nat)
  /-- a Sync Interest carrying the publisher's sequence number `high` reaches peer `b`'s SvSync -/
  | sync (b : Nat) (high : UInt64)
  /-- the outstanding Interest of peer `b` is answered from the publisher's repo -/
  | deliver (b : Nat)
  /-- the outstanding Interest of peer `b` times out -/
  | timeout (b : Nat)

structure LogSys where
  pub : Pub
  peers : List Peer

def LogSys.init (seq0 : UInt64) (k : Nat) : LogSys := { pub := Pub.init seq0, peers := List.replicate k Peer.init }

def LogSys.step (s : LogSys) : LogEvent → LogSys
  | .path b up => match s.peers[b]? with
    | some q => { s with peers := s.peers.set b (if up then q.gainPath else q.losePath) }
    | none => s
  | .announce n => { s with pub := s.pub.announce n }
  | .withdraw n => { s with pub := s.pub.withdraw n }
  | .sync b high => match s.peers[b]? with
    | some q => { s with peers := s.peers.set b (q.svsReceive high) }
    | none => s
  | .deliver b => match s.peers[b]? with
    | some q => match q.deliver s.pub with
      | some (q', _) => { s with peers := s.peers.set b q' }
      | none => s
    | none => s
  | .timeout b => match s.peers[b]? with
    | some q => match q.timeout with
      | some q' => { s with peers := s.peers.set b q' }
      | none => s
    | none => s

def LogSys.run (s : LogSys) (evs : List LogEvent) : LogSys := evs.foldl LogSys.step s

structure SysInv (s : LogSys) : Prop where
  pub : PubInv s.pub
  peers : ∀ q ∈ s.peers, PeerInv s.pub q

theorem sysInv_init (seq0 : UInt64) (k : Nat) : SysInv (LogSys.init seq0 k) := by
  refine ⟨pubInv_init seq0, ?_⟩
  intro q hq
  have := List.eq_of_mem_replicate hq
  subst this
  exact peerInv_init _ (by intro x hx; cases hx)

theorem sysInv_step {s : LogSys} (inv : SysInv s) (ev : LogEvent) (hw : s.pub.seq.toNat + 1 < 2 ^ 64) :
    SysInv (s.step ev) ∧ (s.step ev).pub.seq.toNat ≤ s.pub.seq.toNat + 1 := by
  have setInv : ∀ b q', (∀ q, s.peers[b]? = some q → PeerInv s.pub q') →
      ∀ q0, s.peers[b]? = some q0 → SysInv { s with peers := s.peers.set b q' } := by
    intro b q' h q0 hq0
    refine ⟨inv.pub, ?_⟩
    intro q hq
    rcases List.mem_or_eq_of_mem_set hq with hq | rfl
    · exact inv.peers q hq
    · exact h q0 hq0
  cases ev with
  | path b up =>
    simp only [LogSys.step]
    cases hq : s.peers[b]? with
    | none => exact ⟨inv, Nat.le_succ _⟩
    | some q =>
      refine ⟨setInv b _ (fun _ _ => path_inv (inv.peers q (List.mem_of_getElem? hq)) up) q hq, by simp⟩
  | announce n =>
    obtain ⟨pi, hle, hold⟩ := announce_inv inv.pub n hw
    refine ⟨⟨pi, fun q hq => peerInv_pub (inv.peers q hq) hle hold⟩, ?_⟩
    simp only [LogSys.step, Pub.announce]
    split
    · omega
    · simp only [Pub.publishOp]; split <;> simp [Pub.publishSnap, toNat_succ hw]
  | withdraw n =>
    obtain ⟨pi, hle, hold⟩ := withdraw_inv inv.pub n hw
    refine ⟨⟨pi, fun q hq => peerInv_pub (inv.peers q hq) hle hold⟩, ?_⟩
    simp only [LogSys.step, Pub.withdraw]
    split
    · simp only [Pub.publishOp]; split <;> simp [Pub.publishSnap, toNat_succ hw]
    · omega
  | sync b high =>
    simp only [LogSys.step]
    cases hq : s.peers[b]? with
    | none => exact ⟨inv, Nat.le_succ _⟩
    | some q =>
      refine ⟨setInv b _ (fun _ _ => svsReceive_inv (inv.peers q (List.mem_of_getElem? hq)) high) q hq, by simp⟩
  | deliver b =>
    simp only [LogSys.step]
    cases hq : s.peers[b]? with
    | none => exact ⟨inv, Nat.le_succ _⟩
    | some q =>
      simp only
      cases hd : q.deliver s.pub with
      | none => exact ⟨inv, Nat.le_succ _⟩
      | some r =>
        refine ⟨setInv b _ (fun _ _ => deliver_inv inv.pub (inv.peers q (List.mem_of_getElem? hq))
          (show q.deliver s.pub = some (r.1, r.2) from hd)) q hq, by simp⟩
  | timeout b =>
    simp only [LogSys.step]
    cases hq : s.peers[b]? with
    | none => exact ⟨inv, Nat.le_succ _⟩
    | some q =>
      simp only
      cases hd : q.timeout with
      | none => exact ⟨inv, Nat.le_succ _⟩
      | some q' =>
        refine ⟨setInv b _ (fun _ _ => timeout_inv (inv.peers q (List.mem_of_getElem? hq)) hd) q hq, by simp⟩

theorem sysInv_run (evs : List LogEvent) : ∀ {s : LogSys}, SysInv s → s.pub.seq.toNat + evs.length < 2 ^ 64 →
    SysInv (s.run evs) := by
  induction evs with
  | nil => intro s inv _; exact inv
  | cons ev t ih =>
    intro s inv hw
    simp only [List.length_cons] at hw
    obtain ⟨inv', hle⟩ := sysInv_step inv ev (by omega)
    exact ih inv' (by omega)

end Ndn.C19
