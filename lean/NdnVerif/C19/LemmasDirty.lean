/-
  C19 helper lemmas, part A6: the `dirty` results that decide whether `fibUpdate` is started are
  sufficient — when `ribUpdate` / `checkDeadNeighbors` / `RecvPing` / `Apply` report "nothing changed",
  nothing the route prescription depends on has changed.  Core Lean only.
-/
import NdnVerif.C19.LemmasNbr
namespace Ndn.C19
open Ndn.C18 (Rib Entry Best Costs refreshOf refreshStep best0 aget aset aerase setEntries pruneEntries
  removeNhEntries ribUpdateStep)

/-- what the installer reads from the RIB: destination and cached selection of every entry, in order -/
def bests (es : List Entry) : List (Nat × Best) := es.map fun e => (e.dest, e.best)

theorem refreshOf_single_ne_zero (w c : Nat) : refreshOf [(w, c)] ≠ { low1 := 0, nh1 := 0, low2 := 0, nh2 := 0 } := by
  intro h
  have h2 : (refreshOf [(w, c)]).low2 = C18.inf := by
    simp only [refreshOf, List.foldl_cons, List.foldl_nil, refreshStep, best0]
    by_cases h1 : c < C18.inf <;> simp [h1]
  rw [h] at h2
  exact absurd h2.symm (Nat.ne_of_gt C18.inf_pos)

theorem entry_set_bests (e : Entry) (nh cost : Nat) (h : (e.set nh cost).2 = false) :
    (e.set nh cost).1.best = e.best ∧ (e.set nh cost).1.dest = e.dest := by
  refine ⟨?_, C18.set_dest e nh cost⟩
  unfold Entry.set at h ⊢
  cases hg : aget e.costs nh with
  | none =>
    simp only [hg] at h ⊢
    simp only [Entry.refresh, decide_eq_false_iff_not, Decidable.not_not] at h
    exact h
  | some known =>
    simp only [hg] at h ⊢
    by_cases hk : known = cost
    · simp [hk]
    · simp only [hk, if_false] at h ⊢
      simp only [Entry.refresh, decide_eq_false_iff_not, Decidable.not_not] at h
      exact h

theorem setEntries_bests (es : List Entry) (dest nh cost : Nat) (h : (setEntries es dest nh cost).2 = false) :
    bests (setEntries es dest nh cost).1 = bests es := by
  induction es with
  | nil =>
    exfalso
    simp only [setEntries, Entry.set, Entry.fresh, aget, Entry.refresh, aset, decide_eq_false_iff_not, Decidable.not_not] at h
    exact refreshOf_single_ne_zero nh cost h
  | cons e t ih =>
    simp only [setEntries] at h ⊢
    by_cases he : e.dest = dest
    · simp only [he, if_true] at h ⊢
      obtain ⟨hb, hd⟩ := entry_set_bests e nh cost h
      simp only [bests, List.map_cons, hb, hd]
    · simp only [he, if_false] at h ⊢
      simp only [bests, List.map_cons] at ih ⊢
      rw [ih h]

theorem fold_bests (self w : Nat) (adv : List C18.AdvEntry) : ∀ (r : Rib) (fl : Bool),
    (adv.foldl (ribUpdateStep self w) (r, fl)).2 = false →
    fl = false ∧ bests (adv.foldl (ribUpdateStep self w) (r, fl)).1.entries = bests r.entries := by
  induction adv with
  | nil => intro r fl h; exact ⟨h, rfl⟩
  | cons a t ih =>
    intro r fl h
    have hstep : ribUpdateStep self w (r, fl) a =
        if C18.advCost self a ≥ C18.inf then (r, fl)
        else ((r.set a.dest w (C18.advCost self a)).1, (r.set a.dest w (C18.advCost self a)).2 || fl) := rfl
    simp only [List.foldl_cons] at h ⊢
    rw [hstep] at h ⊢
    by_cases hc : C18.advCost self a ≥ C18.inf
    · simp only [hc, if_true] at h ⊢
      exact ih r fl h
    · simp only [hc, if_false] at h ⊢
      obtain ⟨hfl, hb⟩ := ih _ _ h
      have h1 : (r.set a.dest w (C18.advCost self a)).2 = false ∧ fl = false := by
        cases h2 : (r.set a.dest w (C18.advCost self a)).2 <;> cases fl <;> simp_all
      refine ⟨h1.2, ?_⟩
      rw [hb]
      exact setEntries_bests r.entries a.dest w _ h1.1

theorem prune_bests (es : List Entry) (h : (pruneEntries es).2 = false) : bests (pruneEntries es).1 = bests es := by
  induction es with
  | nil => rfl
  | cons e t ih =>
    simp only [pruneEntries] at h ⊢
    by_cases hd : e.dirty = true
    · simp only [hd, if_true] at h ⊢
      by_cases hi : e.refresh.1.best.low1 = C18.inf
      · simp [hi] at h
      · simp only [hi, if_false, Bool.or_eq_false_iff] at h ⊢
        have hb : e.refresh.1.best = e.best := by
          have := h.1
          simp only [Entry.refresh, decide_eq_false_iff_not, Decidable.not_not] at this
          simp only [Entry.refresh]; exact this
        simp only [bests, List.map_cons] at ih ⊢
        rw [ih h.2, hb]; rfl
    · have hd' : e.dirty = false := by simpa using hd
      simp only [hd'] at h ⊢
      by_cases hi : e.best.low1 = C18.inf
      · simp [hi] at h
      · simp [hi] at h ⊢
        simp only [bests, List.map_cons] at ih ⊢
        rw [ih h]

theorem dirtyReset_bests (r : Rib) (w : Nat) : bests (r.dirtyReset w).entries = bests r.entries := by
  simp [bests, Rib.dirtyReset, List.map_map, Function.comp_def]

/-- `ribUpdate` reports clean ⇒ no entry appeared, disappeared or changed its selection -/
theorem ribUpdate_clean (self : Nat) (r : Rib) (w : Nat) (adv : List C18.AdvEntry)
    (h : (C18.ribUpdate self r w adv).2 = false) :
    bests (C18.ribUpdate self r w adv).1.entries = bests r.entries := by
  unfold C18.ribUpdate at h ⊢
  simp only [Bool.or_eq_false_iff] at h
  have hp := prune_bests _ h.1
  have hf := fold_bests self w adv (r.dirtyReset w) false h.2
  simp only [Rib.prune] at hp ⊢
  rw [hp, hf.2, dirtyReset_bests]

theorem removeNh_bests (es : List Entry) (w : Nat) (h : (removeNhEntries es w).2 = false) :
    bests (removeNhEntries es w).1 = bests es := by
  induction es with
  | nil => rfl
  | cons e t ih =>
    simp only [removeNhEntries] at h ⊢
    cases hg : aget e.costs w with
    | none =>
      simp only [hg] at h ⊢
      simp only [bests, List.map_cons] at ih ⊢
      rw [ih h]
    | some v =>
      simp only [hg, Bool.or_eq_false_iff] at h ⊢
      have hb : (Entry.refresh { e with costs := aerase e.costs w }).1.best = e.best := by
        have := h.1
        simp only [Entry.refresh, decide_eq_false_iff_not, Decidable.not_not] at this
        simp only [Entry.refresh]; exact this
      simp only [bests, List.map_cons] at ih ⊢
      rw [ih h.2, hb]; rfl

/-- `checkDeadNeighbors` reports clean ⇒ the selections are unchanged -/
theorem ribDead_clean (r : Rib) (w : Nat) (h : (C18.ribDead r w).2 = false) :
    bests (C18.ribDead r w).1.entries = bests r.entries := by
  unfold C18.ribDead at h ⊢
  simp only [Bool.or_eq_false_iff] at h
  have hp := prune_bests _ h.1
  have hr := removeNh_bests r.entries w h.2
  simp only [Rib.prune, Rib.removeNextHop] at hp ⊢
  rw [hp, hr]

/-! ### the prescription depends only on what the installer reads -/

theorem obsOf_bests {t t' : Tables} (h : bests t'.rib.entries = bests t.rib.entries) : obsOf t' = obsOf t := by
  unfold obsOf Rib.reachable
  have : ∀ (a b : List Entry), bests a = bests b →
      (a.filter fun e => decide (e.best.low1 < C18.inf)).map (fun e => ({ dest := e.dest, nh1 := e.best.nh1, c1 := e.best.low1, nh2 := e.best.nh2, c2 := e.best.low2 } : Spec.RibObs)) =
      (b.filter fun e => decide (e.best.low1 < C18.inf)).map (fun e => ({ dest := e.dest, nh1 := e.best.nh1, c1 := e.best.low1, nh2 := e.best.nh2, c2 := e.best.low2 } : Spec.RibObs)) := by
    intro a
    induction a with
    | nil =>
      intro b hb
      cases b with
      | nil => rfl
      | cons y r => simp [bests] at hb
    | cons x r ih =>
      intro b hb
      cases b with
      | nil => simp [bests] at hb
      | cons y r' =>
        simp only [bests, List.map_cons, List.cons.injEq, Prod.mk.injEq] at hb
        obtain ⟨⟨hd, hbst⟩, hrest⟩ := hb
        have := ih r' hrest
        simp only [List.filter_cons, hbst, hd]
        by_cases hl : y.best.low1 < C18.inf
        · simp only [hl, decide_true, if_true, List.map_cons, this, hd, hbst]
        · simp only [hl, decide_false, Bool.false_eq_true, if_false, this]
  exact this _ _ h

theorem flatMap_congr' {α β : Type} {l : List α} {f g : α → List β} (h : ∀ x ∈ l, f x = g x) :
    l.flatMap f = l.flatMap g := by
  induction l with
  | nil => rfl
  | cons x t ih =>
    simp only [List.flatMap_cons]
    rw [h x (List.mem_cons_self ..), ih (fun y hy => h y (List.mem_cons_of_mem _ hy))]

/-- same selections, same announcements, same faces for the hops in use ⇒ same prescription -/
theorem prescription_congr (prefixOf : Nat → Nat) {t t' : Tables} (hself : t'.self = t.self)
    (hb : bests t'.rib.entries = bests t.rib.entries)
    (hann : ∀ d, announcedS t' d = announcedS t d)
    (hface : ∀ o ∈ obsOf t, o.dest ≠ t.self →
      faceOfS t' o.nh1 = faceOfS t o.nh1 ∧ (o.c2 < Spec.infinity → faceOfS t' o.nh2 = faceOfS t o.nh2)) :
    prescription prefixOf t' = prescription prefixOf t := by
  unfold prescription Spec.candidates
  rw [obsOf_bests hb, hself]
  apply flatMap_congr'
  intro o ho
  by_cases hs : o.dest = t.self
  · simp [hs]
  · obtain ⟨h1, h2⟩ := hface o ho hs
    have hann' : announcedS t' o.dest = announcedS t o.dest := hann o.dest
    by_cases hc2 : o.c2 < Spec.infinity
    · simp only [hs, false_or, h1, h2 hc2, hc2, if_true, hann']
    · simp only [hs, false_or, h1, hc2, if_false, hann']

end Ndn.C19
