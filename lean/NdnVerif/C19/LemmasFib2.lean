/-
  C19 helper lemmas, part A2: `Fib.updateH`, `updateAll`, `sweep`, `fibUpdate` against the mirror
  invariant.  Core Lean only.
-/
import NdnVerif.C19.LemmasFib
namespace Ndn.C19
open Spec (Routes rget rerase applyCmd replay)

/-- installed cost of (name, face) according to the installer's own table -/
def fibCost (fib : Fib) (name face : Nat) : Option Nat :=
  match pget fib.prefixes name with
  | some es => (eget es face).map (·.cost)
  | none => none

structure Good (es : List FibEntry) : Prop where
  nd : (es.map (·.face)).Nodup
  fin : ∀ e ∈ es, e.cost < inf

/-- the installer's table mirrors the replayed command stream -/
structure Mirror (fib : Fib) (routes : Routes) : Prop where
  good : ∀ name es, pget fib.prefixes name = some es → Good es
  agree : ∀ name face, rget routes (name, face) = fibCost fib name face

theorem mirror_empty : Mirror Fib.empty [] :=
  ⟨by intro n es h; simp [Fib.empty, pget] at h, by intro n f; simp [rget, fibCost, Fib.empty, pget]⟩

theorem eget_resetOld (old : List FibEntry) (f : Nat) :
    eget (resetOld old) f = (eget old f).map fun e => { e with prev := e.cost, cost := inf } := by
  induction old with
  | nil => rfl
  | cons x t ih =>
    simp only [resetOld, List.map_cons, eget] at ih ⊢
    by_cases hx : x.face = f
    · simp [hx]
    · simp only [hx, if_false]; exact ih

theorem faces_resetOld (old : List FibEntry) : (resetOld old).map (·.face) = old.map (·.face) := by
  simp [resetOld, List.map_map, Function.comp_def]

theorem eff_filter_map (name : Nat) (M : List FibEntry) (nd : (M.map (·.face)).Nodup)
    (p : FibEntry → Bool) (mk : FibEntry → Cmd) (hk : ∀ e, cmdKey (mk e) = (name, e.face))
    (f : Nat) (r0 : Option Nat) :
    eff ((M.filter p).map mk) (name, f) r0 =
      match eget M f with
      | some e => if p e then cmdVal (mk e) else r0
      | none => r0 := by
  induction M generalizing r0 with
  | nil => rfl
  | cons x t ih =>
    simp only [List.map_cons, List.nodup_cons] at nd
    by_cases hx : x.face = f
    · have htn : eget t f = none := eget_none_of_not_mem (by rw [← hx]; exact nd.1)
      have iht := fun r => ih nd.2 r
      simp only [htn] at iht
      by_cases hp : p x = true
      · simp only [List.filter_cons, hp, if_true, List.map_cons, eff, List.foldl_cons, hk, hx, eget]
        exact iht _
      · have hp' : p x = false := by simpa using hp
        simp only [List.filter_cons, hp', eget, hx, if_true]
        exact iht r0
    · have hne : ¬ (name, x.face) = (name, f) := by
        intro e; exact hx (Prod.mk.inj e).2
      by_cases hp : p x = true
      · simp only [List.filter_cons, hp, if_true, List.map_cons, eff, List.foldl_cons, hk, hne, if_false, eget, hx]
        exact ih nd.2 r0
      · have hp' : p x = false := by simpa using hp
        simp only [List.filter_cons, hp', eget, hx, if_false]
        exact ih nd.2 r0

theorem eff_other_name (name name' : Nat) (hne : name' ≠ name) (M : List FibEntry)
    (mk : FibEntry → Cmd) (hk : ∀ e, cmdKey (mk e) = (name, e.face)) (f : Nat) (r0 : Option Nat) :
    eff (M.map mk) (name', f) r0 = r0 := by
  apply eff_none_match
  intro c hc
  obtain ⟨e, _, rfl⟩ := List.mem_map.1 hc
  rw [hk]
  intro e'; exact hne (Prod.mk.inj e').1.symm

/-- `UpdateH` with the old entries of the name as a parameter -/
def updateHWith (fib : Fib) (name : Nat) (old0 : List FibEntry) (newEntries : List (Nat × Nat)) : Fib × List Cmd × Bool :=
  let old := mergeNew (resetOld old0) newEntries
  let unregs := (old.filter fun e => e.cost ≥ inf).map fun e => Cmd.unregister name e.face
  let final := old.filter fun e => ¬ e.cost ≥ inf
  let regs := (final.filter fun e => e.cost ≠ e.prev).map fun e => Cmd.register name e.face e.cost
  if final.length > 0 then
    ({ fib with prefixes := pset fib.prefixes name final }, unregs ++ regs, true)
  else
    ({ prefixes := perase fib.prefixes name, mark := fib.mark.filter (· ≠ name) }, unregs ++ regs, false)

theorem updateH_eq (fib : Fib) (name : Nat) (L : List (Nat × Nat)) :
    fib.updateH name L = updateHWith fib name ((pget fib.prefixes name).getD []) L := rfl

theorem updateHWith_spec {fib : Fib} {routes : Routes} (mir : Mirror fib routes) (name : Nat) (L : List (Nat × Nat))
    (old0 : List FibEntry) (hgood0 : Good old0)
    (hr0 : ∀ face, rget routes (name, face) = (eget old0 face).map (·.cost)) :
    Mirror (updateHWith fib name old0 L).1 (replay routes (updateHWith fib name old0 L).2.1) ∧
    (∀ face, fibCost (updateHWith fib name old0 L).1 name face = minFin L face) ∧
    (∀ name', name' ≠ name → pget (updateHWith fib name old0 L).1.prefixes name' = pget fib.prefixes name') ∧
    ((updateHWith fib name old0 L).2.2 = true → pget (updateHWith fib name old0 L).1.prefixes name ≠ none ∧
        (updateHWith fib name old0 L).1.mark = fib.mark) ∧
    ((updateHWith fib name old0 L).2.2 = false → pget (updateHWith fib name old0 L).1.prefixes name = none ∧
        (updateHWith fib name old0 L).1.mark = fib.mark.filter (· ≠ name)) := by
  have ndR : ((resetOld old0).map (·.face)).Nodup := by rw [faces_resetOld]; exact hgood0.nd
  have mg := mergeNew_spec L (resetOld old0) ndR
  -- abbreviations
  have hM : ∀ f, (match eget old0 f with
      | some eo => ∃ e, eget (mergeNew (resetOld old0) L) f = some e ∧ e.prev = eo.cost ∧ eo.cost < inf ∧
          e.cost = (match minFin L f with | some m => m | none => inf)
      | none => match minFin L f with
        | some m => ∃ e, eget (mergeNew (resetOld old0) L) f = some e ∧ e.prev = inf ∧ e.cost = m
        | none => eget (mergeNew (resetOld old0) L) f = none) := by
    intro f
    cases ho : eget old0 f with
    | some eo =>
      simp only
      obtain ⟨e, he, hp, hc⟩ := mg.oldFace f _ (by rw [eget_resetOld, ho]; rfl)
      refine ⟨e, he, hp, hgood0.fin eo (eget_mem ho).1, ?_⟩
      rw [hc]
      cases hm : minFin L f with
      | none => rfl
      | some m => have := minFin_lt hm; simp only; omega
    | none =>
      simp only
      exact mg.newFace f (by rw [eget_resetOld, ho]; rfl)
  -- the resulting cost per face
  have hfinal : ∀ f, (eget ((mergeNew (resetOld old0) L).filter fun e => decide (¬ e.cost ≥ inf)) f).map (·.cost) = minFin L f := by
    intro f
    rw [eget_filter mg.nd]
    have := hM f
    cases ho : eget old0 f with
    | some eo =>
      simp only [ho] at this
      obtain ⟨e, he, _, _, hc⟩ := this
      rw [he]
      cases hm : minFin L f with
      | none =>
        simp only [hm] at hc
        have h1 : inf ≤ e.cost := by omega
        simp [h1]
      | some m =>
        simp only [hm] at hc
        have hml := minFin_lt hm
        have h1 : e.cost < inf := by omega
        simp [h1, hc] <;> omega
    | none =>
      simp only [ho] at this
      cases hm : minFin L f with
      | none => simp only [hm] at this; rw [this]; rfl
      | some m =>
        simp only [hm] at this
        obtain ⟨e, he, _, hc⟩ := this
        have hml := minFin_lt hm
        have h1 : e.cost < inf := by omega
        rw [he]; simp [h1, hc] <;> omega
  -- the replayed routes of this name
  have hkU : ∀ e : FibEntry, cmdKey (Cmd.unregister name e.face) = (name, e.face) := fun _ => rfl
  have hkR : ∀ e : FibEntry, cmdKey (Cmd.register name e.face e.cost) = (name, e.face) := fun _ => rfl
  have hreplay : ∀ f, eff
      (((mergeNew (resetOld old0) L).filter fun e => decide (e.cost ≥ inf)).map (fun e => Cmd.unregister name e.face) ++
       (((mergeNew (resetOld old0) L).filter fun e => decide (¬ e.cost ≥ inf)).filter fun e => decide (e.cost ≠ e.prev)).map
          (fun e => Cmd.register name e.face e.cost))
      (name, f) (rget routes (name, f)) = minFin L f := by
    intro f
    rw [eff_append, List.filter_filter,
      eff_filter_map name _ mg.nd _ (fun e => Cmd.unregister name e.face) hkU,
      eff_filter_map name _ mg.nd _ (fun e => Cmd.register name e.face e.cost) hkR, hr0]
    have := hM f
    cases ho : eget old0 f with
    | some eo =>
      simp only [ho] at this
      obtain ⟨e, he, hp, hfo, hc⟩ := this
      rw [he]
      cases hm : minFin L f with
      | none =>
        simp only [hm] at hc
        have h1 : inf ≤ e.cost := by omega
        simp [h1, cmdVal]
      | some m =>
        simp only [hm] at hc
        have hml := minFin_lt hm
        have h1 : e.cost < inf := by omega
        have h2 : ¬ inf ≤ e.cost := by omega
        by_cases hne : e.cost = e.prev
        · simp [h1, h2, hne, cmdVal]; omega
        · simp [h1, h2, hne, cmdVal, hc] <;> omega
    | none =>
      simp only [ho] at this
      cases hm : minFin L f with
      | none => simp only [hm] at this; rw [this]; rfl
      | some m =>
        simp only [hm] at this
        obtain ⟨e, he, hp, hc⟩ := this
        have hml := minFin_lt hm
        have h1 : e.cost < inf := by omega
        have h2 : ¬ inf ≤ e.cost := by omega
        have hne : ¬ e.cost = e.prev := by omega
        rw [he]; simp [h1, h2, hne, cmdVal, hc] <;> omega
  have hreplay' : ∀ name' f, name' ≠ name → eff
      (((mergeNew (resetOld old0) L).filter fun e => decide (e.cost ≥ inf)).map (fun e => Cmd.unregister name e.face) ++
       (((mergeNew (resetOld old0) L).filter fun e => decide (¬ e.cost ≥ inf)).filter fun e => decide (e.cost ≠ e.prev)).map
          (fun e => Cmd.register name e.face e.cost))
      (name', f) (rget routes (name', f)) = rget routes (name', f) := by
    intro name' f hne
    rw [eff_append, eff_other_name name name' hne _ _ hkU, eff_other_name name name' hne _ _ hkR]
  have hgoodF : Good ((mergeNew (resetOld old0) L).filter fun e => decide (¬ e.cost ≥ inf)) := by
    constructor
    · exact List.Nodup.sublist (List.Sublist.map _ List.filter_sublist) mg.nd
    · intro e he
      have := (List.mem_filter.1 he).2
      simp only [decide_eq_true_eq] at this; omega
  -- assemble
  have hfc : ∀ (fib' : Fib) n f, pget fib'.prefixes n = pget fib.prefixes n → fibCost fib' n f = fibCost fib n f := by
    intro fib' n f h; unfold fibCost; rw [h]
  unfold updateHWith
  simp only
  by_cases hlen : ((mergeNew (resetOld old0) L).filter fun e => decide (¬ e.cost ≥ inf)).length > 0
  · simp only [hlen, if_true]
    refine ⟨⟨?_, ?_⟩, ?_, ?_, ?_, ?_⟩
    · intro n es h
      rw [pget_pset] at h
      by_cases hn : n = name
      · simp only [hn, if_true, Option.some.injEq] at h; rw [← h]; exact hgoodF
      · simp only [hn, if_false] at h; exact mir.good n es h
    · intro n f
      rw [rget_replay]
      by_cases hn : n = name
      · subst hn
        rw [hreplay f]
        unfold fibCost
        simp only [pget_pset, if_true]
        exact (hfinal f).symm
      · rw [hreplay' n f hn, mir.agree]
        exact (hfc _ n f (by simp only [pget_pset, hn, if_false])).symm
    · intro f
      unfold fibCost
      simp only [pget_pset, if_true]
      exact hfinal f
    · intro n hn; simp only [pget_pset, hn, if_false]
    · intro _; exact ⟨by simp [pget_pset], trivial⟩
    · intro h; cases h
  · simp only [hlen, if_false]
    have hnil : ((mergeNew (resetOld old0) L).filter fun e => decide (¬ e.cost ≥ inf)) = [] :=
      List.eq_nil_of_length_eq_zero (by omega)
    have hmin : ∀ f, minFin L f = none := by
      intro f; rw [← hfinal f, hnil]; rfl
    refine ⟨⟨?_, ?_⟩, ?_, ?_, ?_, ?_⟩
    · intro n es h
      rw [pget_perase] at h
      by_cases hn : n = name
      · simp [hn] at h
      · simp only [hn, if_false] at h; exact mir.good n es h
    · intro n f
      rw [rget_replay]
      by_cases hn : n = name
      · subst hn
        rw [hreplay f, hmin f]
        unfold fibCost
        simp [pget_perase]
      · rw [hreplay' n f hn, mir.agree]
        exact (hfc _ n f (by simp only [pget_perase, hn, if_false])).symm
    · intro f
      unfold fibCost
      simp [pget_perase, hmin f]
    · intro n hn; simp only [pget_perase, hn, if_false]
    · intro h; cases h
    · intro _; exact ⟨by simp [pget_perase], trivial⟩

/-- everything `UpdateH` does, per (name, face) -/
theorem updateH_spec {fib : Fib} {routes : Routes} (mir : Mirror fib routes) (name : Nat) (L : List (Nat × Nat)) :
    Mirror (fib.updateH name L).1 (replay routes (fib.updateH name L).2.1) ∧
    (∀ face, fibCost (fib.updateH name L).1 name face = minFin L face) ∧
    (∀ name', name' ≠ name → pget (fib.updateH name L).1.prefixes name' = pget fib.prefixes name') ∧
    ((fib.updateH name L).2.2 = true → pget (fib.updateH name L).1.prefixes name ≠ none ∧
        (fib.updateH name L).1.mark = fib.mark) ∧
    ((fib.updateH name L).2.2 = false → pget (fib.updateH name L).1.prefixes name = none ∧
        (fib.updateH name L).1.mark = fib.mark.filter (· ≠ name)) := by
  rw [updateH_eq]
  apply updateHWith_spec mir
  · cases h : pget fib.prefixes name with
    | none => exact ⟨by simp, by simp⟩
    | some es => exact mir.good name es h
  · intro face
    rw [mir.agree, fibCost]
    cases pget fib.prefixes name <;> simp [eget]

end Ndn.C19
