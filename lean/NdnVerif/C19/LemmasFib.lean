/-
  C19 helper lemmas, part A: the route installer.  `Fib.updateH` makes the replayed route table of
  one name equal to the lowest finite cost per face of the new entries (`minFin`), leaves other names
  alone and keeps the mirror invariant "installed entries = replayed routes".  Core Lean only.
-/
import NdnVerif.C19.Model
namespace Ndn.C19
open Spec (Routes rget rerase applyCmd replay)

theorem inf_eq : inf = 16 := rfl

/-! ### generic association lists -/

theorem pget_pset {α : Type} (m : List (Nat × α)) (k : Nat) (v : α) (k' : Nat) :
    pget (pset m k v) k' = if k' = k then some v else pget m k' := by
  induction m with
  | nil =>
    simp only [pset, pget]
    by_cases h : k' = k
    · simp [h]
    · have : ¬ k = k' := fun e => h e.symm
      simp [h, this]
  | cons x t ih =>
    obtain ⟨xk, xv⟩ := x
    simp only [pset]
    by_cases hx : xk = k
    · subst hx
      simp only [if_true, pget]
      by_cases h : k' = xk
      · simp [h]
      · have : ¬ xk = k' := fun e => h e.symm
        simp [h, this]
    · simp only [hx, if_false, pget, ih]
      by_cases h : k' = k
      · subst h; simp [hx]
      · simp [h]

theorem pget_perase {α : Type} (m : List (Nat × α)) (k k' : Nat) :
    pget (perase m k) k' = if k' = k then none else pget m k' := by
  induction m with
  | nil => simp [perase, pget]
  | cons x t ih =>
    obtain ⟨xk, xv⟩ := x
    simp only [perase]
    by_cases hx : xk = k
    · subst hx
      simp only [if_true, ih, pget]
      by_cases h : k' = xk
      · simp [h]
      · have : ¬ xk = k' := fun e => h e.symm
        simp [h, this]
    · simp only [hx, if_false, pget, ih]
      by_cases h : k' = k
      · subst h; simp [hx]
      · simp [h]

theorem mem_keys_of_pget {α : Type} {m : List (Nat × α)} {k : Nat} {v : α} (h : pget m k = some v) :
    k ∈ m.map (·.1) := by
  induction m with
  | nil => simp [pget] at h
  | cons x t ih =>
    obtain ⟨xk, xv⟩ := x
    simp only [pget] at h
    by_cases hx : xk = k
    · simp [hx]
    · simp only [hx, if_false] at h
      exact List.mem_cons_of_mem _ (ih h)

/-! ### replay of a command stream, per key -/

def cmdKey : Cmd → Nat × Nat
  | .register n f _ => (n, f)
  | .unregister n f => (n, f)

def cmdVal : Cmd → Option Nat
  | .register _ _ c => some c
  | .unregister _ _ => none

/-- effect of a command stream on the entry of one key -/
def eff (cmds : List Cmd) (k : Nat × Nat) (r0 : Option Nat) : Option Nat :=
  cmds.foldl (fun acc c => if cmdKey c = k then cmdVal c else acc) r0

theorem rget_rerase (r : Routes) (k k' : Nat × Nat) : rget (rerase r k) k' = if k' = k then none else rget r k' := by
  induction r with
  | nil => simp [rerase, rget]
  | cons x t ih =>
    obtain ⟨xk, xv⟩ := x
    simp only [rerase]
    by_cases hx : xk = k
    · subst hx
      simp only [if_true, ih, rget]
      by_cases h : k' = xk
      · simp [h]
      · have : ¬ xk = k' := fun e => h e.symm
        simp [h, this]
    · simp only [hx, if_false, rget, ih]
      by_cases h : k' = k
      · subst h; simp [hx]
      · simp [h]

theorem rget_applyCmd (r : Routes) (c : Cmd) (k : Nat × Nat) :
    rget (applyCmd r c) k = if cmdKey c = k then cmdVal c else rget r k := by
  cases c with
  | register n f c =>
    simp only [applyCmd, rget, cmdKey, cmdVal, rget_rerase]
    by_cases h : (n, f) = k
    · simp [h]
    · have : ¬ k = (n, f) := fun e => h e.symm
      simp [h, this]
  | unregister n f =>
    simp only [applyCmd, cmdKey, cmdVal, rget_rerase]
    by_cases h : (n, f) = k
    · simp [h]
    · have : ¬ k = (n, f) := fun e => h e.symm
      simp [h, this]

theorem rget_replay (cmds : List Cmd) : ∀ (r : Routes) (k : Nat × Nat),
    rget (replay r cmds) k = eff cmds k (rget r k) := by
  induction cmds with
  | nil => intro r k; rfl
  | cons c t ih =>
    intro r k
    simp only [replay, List.foldl_cons, eff] at ih ⊢
    rw [ih, rget_applyCmd]

theorem eff_append (a b : List Cmd) (k : Nat × Nat) (r0 : Option Nat) :
    eff (a ++ b) k r0 = eff b k (eff a k r0) := by
  simp [eff, List.foldl_append]

theorem eff_none_match (cmds : List Cmd) (k : Nat × Nat) (r0 : Option Nat)
    (h : ∀ c ∈ cmds, cmdKey c ≠ k) : eff cmds k r0 = r0 := by
  induction cmds generalizing r0 with
  | nil => rfl
  | cons c t ih =>
    simp only [eff, List.foldl_cons] at ih ⊢
    have : ¬ cmdKey c = k := h c (List.mem_cons_self ..)
    simp only [this, if_false]
    exact ih r0 (fun x hx => h x (List.mem_cons_of_mem _ hx))

/-! ### entry lists -/

def eget : List FibEntry → Nat → Option FibEntry
  | [], _ => none
  | e :: t, f => if e.face = f then some e else eget t f

/-- lowest finite cost of `face` among the new entries -/
def minFin : List (Nat × Nat) → Nat → Option Nat
  | [], _ => none
  | (f, c) :: t, face =>
    if f = face ∧ c < inf then
      match minFin t face with
      | none => some c
      | some m => some (min c m)
    else minFin t face

theorem minFin_lt {l : List (Nat × Nat)} {face m : Nat} (h : minFin l face = some m) : m < inf := by
  induction l generalizing m with
  | nil => simp [minFin] at h
  | cons x t ih =>
    obtain ⟨f, c⟩ := x
    simp only [minFin] at h
    by_cases hc : f = face ∧ c < inf
    · simp only [hc, and_self, if_true] at h
      cases hm : minFin t face with
      | none => simp [hm] at h; omega
      | some m' =>
        simp only [hm, Option.some.injEq] at h
        have := ih hm; omega
    · simp only [hc, if_false] at h; exact ih h

theorem eget_mem {es : List FibEntry} {f : Nat} {e : FibEntry} (h : eget es f = some e) : e ∈ es ∧ e.face = f := by
  induction es with
  | nil => simp [eget] at h
  | cons x t ih =>
    simp only [eget] at h
    by_cases hx : x.face = f
    · simp only [hx, if_true, Option.some.injEq] at h
      subst h; exact ⟨List.mem_cons_self .., hx⟩
    · simp only [hx, if_false] at h
      exact ⟨List.mem_cons_of_mem _ (ih h).1, (ih h).2⟩

theorem eget_none_of_not_mem {es : List FibEntry} {f : Nat} (h : f ∉ es.map (·.face)) : eget es f = none := by
  induction es with
  | nil => rfl
  | cons x t ih =>
    simp only [List.map_cons, List.mem_cons, not_or] at h
    have : ¬ x.face = f := fun e => h.1 e.symm
    simp [eget, this, ih h.2]

theorem eget_of_mem {es : List FibEntry} (nd : (es.map (·.face)).Nodup) {e : FibEntry} (h : e ∈ es) :
    eget es e.face = some e := by
  induction es with
  | nil => cases h
  | cons x t ih =>
    simp only [List.map_cons, List.nodup_cons] at nd
    simp only [eget]
    rcases List.mem_cons.1 h with rfl | h'
    · simp
    · have : x.face ≠ e.face := fun e' => nd.1 (by rw [e']; exact List.mem_map.2 ⟨e, h', rfl⟩)
      simp [this, ih nd.2 h']

theorem eget_filter {es : List FibEntry} (nd : (es.map (·.face)).Nodup) (p : FibEntry → Bool) (f : Nat) :
    eget (es.filter p) f = match eget es f with
      | some e => if p e then some e else none
      | none => none := by
  induction es with
  | nil => rfl
  | cons x t ih =>
    simp only [List.map_cons, List.nodup_cons] at nd
    simp only [List.filter_cons]
    by_cases hx : x.face = f
    · have htn : eget t f = none := eget_none_of_not_mem (by rw [← hx]; exact nd.1)
      by_cases hp : p x = true
      · simp [hp, eget, hx]
      · have hp' : p x = false := by simpa using hp
        simp [hp', eget, hx, ih nd.2, htn]
    · by_cases hp : p x = true
      · simp [hp, eget, hx, ih nd.2]
      · have hp' : p x = false := by simpa using hp
        simp [hp', eget, hx, ih nd.2]

/-! ### the merge loop -/

theorem mergeFace_spec (es : List FibEntry) (face cost : Nat) :
    match mergeFace es face cost with
    | some es' => (∃ e, eget es face = some e ∧
        ∀ f, eget es' f = if f = face then some { e with cost := min cost e.cost } else eget es f) ∧
        es'.map (·.face) = es.map (·.face)
    | none => eget es face = none := by
  induction es with
  | nil => simp [mergeFace, eget]
  | cons x t ih =>
    simp only [mergeFace]
    by_cases hx : x.face = face
    · subst hx
      simp only [if_true]
      refine ⟨⟨x, by simp only [eget, if_true], ?_⟩, by simp⟩
      intro f
      by_cases hf : f = x.face
      · subst hf; simp only [eget, if_true]
      · have : ¬ x.face = f := fun e => hf e.symm
        simp [eget, hf, this]
    · simp only [hx, if_false]
      cases hm : mergeFace t face cost with
      | none =>
        simp only [hm] at ih
        simp [eget, hx, ih]
      | some t' =>
        simp only [hm] at ih
        obtain ⟨⟨e, he, hall⟩, hfaces⟩ := ih
        simp only [Option.map_some]
        refine ⟨⟨e, by simp [eget, hx, he], ?_⟩, by simp [hfaces]⟩
        intro f
        simp only [eget]
        by_cases hxf : x.face = f
        · have : ¬ f = face := fun e' => hx (hxf.trans e')
          simp [hxf, this]
        · simp only [hxf, if_false]; exact hall f

/-- what an entry looks like after the merge loop -/
structure Merged (old : List FibEntry) (L : List (Nat × Nat)) (M : List FibEntry) : Prop where
  nd : (M.map (·.face)).Nodup
  oldFace : ∀ f eo, eget old f = some eo → ∃ e, eget M f = some e ∧ e.prev = eo.prev ∧
      e.cost = match minFin L f with | some m => min eo.cost m | none => eo.cost
  newFace : ∀ f, eget old f = none →
      match minFin L f with
      | some m => ∃ e, eget M f = some e ∧ e.prev = inf ∧ e.cost = m
      | none => eget M f = none

theorem eget_append_single (es : List FibEntry) (x : FibEntry) (f : Nat) :
    eget (es ++ [x]) f = match eget es f with
      | some e => some e
      | none => if x.face = f then some x else none := by
  induction es with
  | nil => simp [eget]
  | cons y t ih =>
    simp only [List.cons_append, eget]
    by_cases hy : y.face = f
    · simp [hy]
    · simp only [hy, if_false]; exact ih

theorem mergeNew_spec (L : List (Nat × Nat)) : ∀ (old : List FibEntry), (old.map (·.face)).Nodup →
    Merged old L (mergeNew old L) := by
  induction L with
  | nil =>
    intro old nd
    refine ⟨nd, ?_, ?_⟩
    · intro f eo h; exact ⟨eo, h, rfl, by simp [minFin]⟩
    · intro f h; simp [minFin, mergeNew, h]
  | cons x t ih =>
    intro old nd
    obtain ⟨f0, c0⟩ := x
    simp only [mergeNew]
    by_cases hc : c0 ≥ inf
    · simp only [hc, if_true]
      have hlt : ¬ c0 < inf := by omega
      have m := ih old nd
      refine ⟨m.nd, ?_, ?_⟩
      · intro f eo h
        obtain ⟨e, he, hp, hcost⟩ := m.oldFace f eo h
        exact ⟨e, he, hp, by simp only [minFin, hlt, and_false, if_false]; exact hcost⟩
      · intro f h
        have := m.newFace f h
        simp only [minFin, hlt, and_false, if_false]; exact this
    · simp only [hc, if_false]
      have hlt : c0 < inf := by omega
      have hspec := mergeFace_spec old f0 c0
      cases hm : mergeFace old f0 c0 with
      | some old' =>
        simp only [hm] at hspec ⊢
        obtain ⟨⟨e0, he0, hall⟩, hfaces⟩ := hspec
        have nd' : (old'.map (·.face)).Nodup := by rw [hfaces]; exact nd
        have m := ih old' nd'
        refine ⟨m.nd, ?_, ?_⟩
        · intro f eo h
          by_cases hf : f = f0
          · subst hf
            have heq : eo = e0 := by rw [he0] at h; exact (Option.some.inj h).symm
            subst heq
            obtain ⟨e, he, hp, hcost⟩ := m.oldFace f { eo with cost := min c0 eo.cost } (by rw [hall f]; simp)
            refine ⟨e, he, hp, ?_⟩
            simp only [minFin, hlt, and_self, if_true]
            cases hmt : minFin t f with
            | none => simp only [hmt] at hcost ⊢; rw [hcost, Nat.min_comm]
            | some m' => simp only [hmt] at hcost ⊢; rw [hcost, Nat.min_comm c0 eo.cost, Nat.min_assoc]
          · have hf' : ¬ f0 = f := fun e => hf e.symm
            obtain ⟨e, he, hp, hcost⟩ := m.oldFace f eo (by rw [hall f]; simp [hf, h])
            exact ⟨e, he, hp, by simp only [minFin, hf', false_and, if_false]; exact hcost⟩
        · intro f h
          have hf : ¬ f = f0 := by
            intro e; subst e; rw [he0] at h; cases h
          have hf' : ¬ f0 = f := fun e => hf e.symm
          have := m.newFace f (by rw [hall f]; simp [hf, h])
          simp only [minFin, hf', false_and, if_false]; exact this
      | none =>
        simp only [hm] at hspec ⊢
        have nd' : ((old ++ [(⟨f0, c0, inf⟩ : FibEntry)]).map (·.face)).Nodup := by
          rw [List.map_append, List.nodup_append]
          refine ⟨nd, by simp, ?_⟩
          intro a ha b hb
          simp only [List.map_cons, List.map_nil, List.mem_singleton] at hb
          subst hb
          intro e; subst e
          obtain ⟨e', he', hf'⟩ := List.mem_map.1 ha
          have := eget_of_mem nd he'
          rw [hf', hspec] at this; cases this
        have m := ih _ nd'
        refine ⟨m.nd, ?_, ?_⟩
        · intro f eo h
          have hf : ¬ f0 = f := by
            intro e; subst e; rw [hspec] at h; cases h
          obtain ⟨e, he, hp, hcost⟩ := m.oldFace f eo (by rw [eget_append_single, h])
          exact ⟨e, he, hp, by simp only [minFin, hf, false_and, if_false]; exact hcost⟩
        · intro f h
          by_cases hf : f0 = f
          · subst hf
            obtain ⟨e, he, hp, hcost⟩ := m.oldFace f0 (⟨f0, c0, inf⟩ : FibEntry)
              (by rw [eget_append_single, h]; simp)
            simp only [minFin, hlt, and_self, if_true]
            cases hmt : minFin t f0 with
            | none => simp only [hmt] at hcost; exact ⟨e, he, hp, hcost⟩
            | some m' => simp only [hmt] at hcost; exact ⟨e, he, hp, hcost⟩
          · have := m.newFace f (by rw [eget_append_single, h]; simp [hf])
            simp only [minFin, hf, false_and, if_false]; exact this

end Ndn.C19
