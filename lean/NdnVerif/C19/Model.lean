/-
  C19 model — (A) the route installer, (B) the prefix operation log.

  (A) dv/table/fib.go        GetFibEntries, Fib.UpdateH (incremental differ with prevCost),
                             MarkH / UnmarkAll / RemoveUnmarked (mark & sweep)
      dv/dv/table_algo.go    fibUpdate (collect desired entries from RIB x prefix table)
      dv/table/neighbor_table.go  Add / Remove / RecvPing (which neighbours exist, face, active flag)
      dv/table/prefix_table.go    GetRouter / Apply (prefix table of remote routers)
      The RIB is the C18 model (`Ndn.C18.Rib`, `ribUpdate`, `ribDead`).
      The installer emits a stream of `Cmd`s (what nfdc.Exec is called with for module "rib").

  (B) dv/table/prefix_table.go    Announce / Withdraw / publishOp / publishSnap / OnDataInterest
      dv/dv/prefix_sync.go        onPfxSyncUpdate / prefixDataFetch / processPrefixData

  Names are abstract ids (`Nat`); map keys are name hashes in the code (assumed injective on the
  names of a run, checked by the harness). Router keys are the name hashes (tie-break order of the
  RIB), `prefixOf : key → name id` gives the id of "<router>/32=DV".
  Sequence arithmetic that can wrap is done in `UInt64` exactly as in the code.
  Thresholds / operand order come from `Gen/C19Consts.lean` (regenerated from the working tree).
  Core Lean only.
-/
import NdnVerif.C18.Model
import NdnVerif.C19.Spec
import NdnVerif.Gen.C19Consts
namespace Ndn.C19
open Ndn.C18 (Rib Entry aget aset aerase)

/-- `config.CostInfinity` (regenerated) -/
abbrev inf : Nat := Ndn.Gen.C19.costInfinity

/-! ## (A) route installer -/

-- `Cmd` (a management command for module "rib": what nfdc.Exec is called with) is declared in Spec.lean

/-- `table.FibEntry` -/
structure FibEntry where
  face : Nat
  cost : Nat
  prev : Nat
deriving DecidableEq, Repr

/-- `table.Fib` (the `names` map is keyed like `prefixes` and never nil for wire names; omitted) -/
structure Fib where
  prefixes : List (Nat × List FibEntry)
  mark : List Nat
deriving Repr

def Fib.empty : Fib := { prefixes := [], mark := [] }

def pget {α : Type} : List (Nat × α) → Nat → Option α
  | [], _ => none
  | (k', v) :: t, k => if k' = k then some v else pget t k

def pset {α : Type} : List (Nat × α) → Nat → α → List (Nat × α)
  | [], k, v => [(k, v)]
  | (k', v') :: t, k, v => if k' = k then (k, v) :: t else (k', v') :: pset t k v

def perase {α : Type} : List (Nat × α) → Nat → List (Nat × α)
  | [], _ => []
  | (k', v') :: t, k => if k' = k then perase t k else (k', v') :: perase t k

/-- "Set cost of all current entries to infinite and store existing params" -/
def resetOld (old : List FibEntry) : List FibEntry :=
  old.map fun e => { e with prev := e.cost, cost := inf }

/-- the inner loop: first entry with the same face gets `min` of the costs; `none` if no such entry -/
def mergeFace : List FibEntry → Nat → Nat → Option (List FibEntry)
  | [], _, _ => none
  | e :: t, face, cost =>
    if e.face = face then some ({ e with cost := min cost e.cost } :: t)
    else (mergeFace t face cost).map (e :: ·)

/-- "Merge new entries into old entries" -/
def mergeNew (old : List FibEntry) : List (Nat × Nat) → List FibEntry
  | [] => old
  | (face, cost) :: t =>
    if cost ≥ inf then mergeNew old t
    else match mergeFace old face cost with
      | some old' => mergeNew old' t
      | none => mergeNew (old ++ [{ face := face, cost := cost, prev := inf }]) t

/-- `Fib.UpdateH`: new state, emitted commands (in order), return value -/
def Fib.updateH (fib : Fib) (name : Nat) (newEntries : List (Nat × Nat)) : Fib × List Cmd × Bool :=
  let old := mergeNew (resetOld ((pget fib.prefixes name).getD [])) newEntries
  let unregs := (old.filter fun e => e.cost ≥ inf).map fun e => Cmd.unregister name e.face
  let final := old.filter fun e => ¬ e.cost ≥ inf
  let regs := (final.filter fun e => e.cost ≠ e.prev).map fun e => Cmd.register name e.face e.cost
  if final.length > 0 then
    ({ fib with prefixes := pset fib.prefixes name final }, unregs ++ regs, true)
  else
    ({ prefixes := perase fib.prefixes name, mark := fib.mark.filter (· ≠ name) }, unregs ++ regs, false)

/-- neighbour table entry -/
structure Nbr where
  face : Nat
  active : Bool
deriving DecidableEq, Repr

/-- the tables of one router -/
structure Tables where
  self : Nat
  rib : Rib
  nbrs : List (Nat × Nbr)
  /-- prefix table: router key ↦ announced name ids -/
  pfx : List (Nat × List Nat)
deriving Repr

def faceOf (nbrs : List (Nat × Nbr)) (nh : Nat) : Nat :=
  match pget nbrs nh with
  | some n => n.face
  | none => 0

/-- `Rib.GetFibEntries` -/
def fibEntriesOf (nbrs : List (Nat × Nbr)) (e : Entry) : List (Nat × Nat) :=
  [(faceOf nbrs e.best.nh1, e.best.low1), (faceOf nbrs e.best.nh2, e.best.low2)]

/-- the `register` helper of `fibUpdate`: append to the desired entries of `name` -/
def addDesired (acc : List (Nat × List (Nat × Nat))) (name : Nat) (fes : List (Nat × Nat)) :
    List (Nat × List (Nat × Nat)) :=
  pset acc name ((pget acc name).getD [] ++ fes)

/-- first phase of `fibUpdate`: desired entries per name from RIB × prefix table -/
def desired (prefixOf : Nat → Nat) (t : Tables) : List (Nat × List (Nat × Nat)) :=
  t.rib.reachable.foldl (fun acc e =>
      if e.dest = t.self then acc
      else
        let fes := fibEntriesOf t.nbrs e
        let acc := addDesired acc (prefixOf e.dest) fes
        ((pget t.pfx e.dest).getD []).foldl (fun acc p => addDesired acc p fes) acc) []

/-- "Update all FIB entries to NFD": UpdateH + MarkH for every desired name -/
def updateAll (fib : Fib) : List (Nat × List (Nat × Nat)) → Fib × List Cmd
  | [] => (fib, [])
  | (name, fes) :: t =>
    let (fib1, cmds, ok) := fib.updateH name fes
    let fib2 := if ok then { fib1 with mark := name :: fib1.mark } else fib1
    let (fib3, cmds') := updateAll fib2 t
    (fib3, cmds ++ cmds')

/-- `Fib.RemoveUnmarked` over the names in `names` (the keys of `prefixes` when the sweep starts) -/
def sweep (fib : Fib) : List Nat → Fib × List Cmd
  | [] => (fib, [])
  | name :: t =>
    if fib.mark.contains name then sweep fib t
    else
      let (fib1, cmds, _) := fib.updateH name []
      let (fib2, cmds') := sweep fib1 t
      (fib2, cmds ++ cmds')

/-- `Router.fibUpdate` -/
def fibUpdate (prefixOf : Nat → Nat) (t : Tables) (fib : Fib) : Fib × List Cmd :=
  let des := desired prefixOf t
  let (fib1, cmds1) := updateAll { fib with mark := [] } des
  let (fib2, cmds2) := sweep fib1 (fib1.prefixes.map (·.1))
  (fib2, cmds1 ++ cmds2)

/-- `NeighborState.RecvPing` on the neighbour table (creating the state as advertSyncOnInterest does);
    returns whether the face changed -/
def recvPing (nbrs : List (Nat × Nbr)) (w face : Nat) (active : Bool) : List (Nat × Nbr) × Bool :=
  let cur := (pget nbrs w).getD { face := 0, active := false }
  if cur.face ≠ face then
    if cur.active ∧ ¬ active then (pset nbrs w cur, false)
    else (pset nbrs w { face := face, active := active }, true)
  else (pset nbrs w cur, false)

/-- `PrefixTable.Apply` for exit router `x` -/
def pfxApply (pfx : List (Nat × List Nat)) (x : Nat) (reset : Bool) (adds rems : List Nat) :
    List (Nat × List Nat) × Bool :=
  let cur := if reset then [] else (pget pfx x).getD []
  let cur := adds.foldl (fun s a => if s.contains a then s else s ++ [a]) cur
  let cur := rems.foldl (fun s a => s.filter (· ≠ a)) cur
  (pset pfx x cur, reset || !adds.isEmpty || !rems.isEmpty)

/-! ### the router as a whole: events, tables, when `fibUpdate` is started -/

/-- a router-level event -/
inductive RouterEvent where
  /-- a sync Interest of neighbour `w` arrives on `face` (advertSyncOnInterest → Add / RecvPing) -/
  | ping (w face : Nat) (active : Bool)
  /-- the advertisement of neighbour `w` is processed (advertDataHandler → ribUpdate); ignored without
      neighbour state (also when the neighbour died in between: `ns.Advert` is nil) -/
  | adv (w : Nat) (entries : List C18.AdvEntry)
  /-- checkDeadNeighbors finds `w` dead -/
  | dead (w : Nat)
  /-- ONE checkDeadNeighbors call finds all of `ws` dead (Remove + RemoveNextHop + Prune per neighbour,
      one `dirty` for the whole call) -/
  | sweep (ws : List Nat)
  /-- a prefix op list of exit router `x` is applied (processPrefixData → Apply) -/
  | papply (x : Nat) (reset : Bool) (adds rems : List Nat)

/-- the tables after a router-level event, and whether the code starts `fibUpdate`:
    advertSyncOnInterest (`fibDirty`), ribUpdate / checkDeadNeighbors (`dirty`), processPrefixData (`Apply`) -/
def Tables.deadOne (t : Tables) (w : Nat) : Tables × Bool :=
  match pget t.nbrs w with
  | some _ => ({ t with rib := (C18.ribDead t.rib w).1, nbrs := perase t.nbrs w }, (C18.ribDead t.rib w).2)
  | none => (t, false)

def Tables.stepDirty (t : Tables) : RouterEvent → Tables × Bool
  | .sweep ws => ws.foldl (fun acc w => ((acc.1.deadOne w).1, acc.2 || (acc.1.deadOne w).2)) (t, false)
  | .ping w face active =>
    ({ t with nbrs := (recvPing t.nbrs w face active).1 }, (recvPing t.nbrs w face active).2)
  | .adv w entries =>
    match pget t.nbrs w with
    | some _ => ({ t with rib := (C18.ribUpdate t.self t.rib w entries).1 }, (C18.ribUpdate t.self t.rib w entries).2)
    | none => (t, false)
  | .dead w =>
    match pget t.nbrs w with
    | some _ => ({ t with rib := (C18.ribDead t.rib w).1, nbrs := perase t.nbrs w }, (C18.ribDead t.rib w).2)
    | none => (t, false)
  | .papply x reset adds rems =>
    ({ t with pfx := (pfxApply t.pfx x reset adds rems).1 }, (pfxApply t.pfx x reset adds rems).2)

def Tables.step (t : Tables) (ev : RouterEvent) : Tables := (t.stepDirty ev).1

/-- `NewRouter` + `Router.Start` -/
def Tables.start (self : Nat) : Tables :=
  { self := self, rib := (C18.Router.start self).rib, nbrs := [], pfx := [] }

/-- tables, installer state and the forwarder's route table (replay of every emitted command) -/
structure RState where
  t : Tables
  fib : Fib
  routes : Spec.Routes

def RState.start (self : Nat) : RState := { t := Tables.start self, fib := Fib.empty, routes := [] }

/-- one router-level event: the tables change and `fibUpdate` runs iff the code's dirty result is true;
    also returns the commands emitted -/
def RState.stepCmds (prefixOf : Nat → Nat) (s : RState) (ev : RouterEvent) : RState × List Cmd :=
  if (s.t.stepDirty ev).2 then
    let r := fibUpdate prefixOf (s.t.step ev) s.fib
    ({ t := s.t.step ev, fib := r.1, routes := Spec.replay s.routes r.2 }, r.2)
  else ({ s with t := s.t.step ev }, [])

def RState.step (prefixOf : Nat → Nat) (s : RState) (ev : RouterEvent) : RState := (s.stepCmds prefixOf ev).1

/-- an explicit `fibUpdate` -/
def RState.fibUpdateCmds (prefixOf : Nat → Nat) (s : RState) : RState × List Cmd :=
  let r := fibUpdate prefixOf s.t s.fib
  ({ s with fib := r.1, routes := Spec.replay s.routes r.2 }, r.2)

/-! ## (B) prefix operation log -/

/-- a published PrefixOpList of the publisher -/
inductive LogOp where
  | add (name : Nat)
  | remove (name : Nat)
deriving DecidableEq, Repr

/-- the publisher's prefix table with its in-memory repo -/
structure Pub where
  seq : UInt64                      -- pt.me.Latest = pt.me.Known
  set : List Nat                    -- pt.me.Prefixes
  snapAt : UInt64                   -- pt.snapshotAt
  snapSet : List Nat                -- content of the snapshot the SNAP prefix points to
  log : List (UInt64 × LogOp)       -- repo: PFX/seq=<n> ↦ op
deriving Repr

/-- `NewPrefixTable`: Known = Latest = svs seq, then `publishSnap` -/
def Pub.init (seq0 : UInt64) : Pub := { seq := seq0, set := [], snapAt := seq0, snapSet := [], log := [] }

/-- `publishSnap` -/
def Pub.publishSnap (p : Pub) : Pub := { p with snapAt := p.seq, snapSet := p.set }

/-- the snapshot rule of `publishOp` with the operand order found in the working tree -/
def snapDue (snapAt seq : UInt64) : Bool :=
  if Ndn.Gen.C19.snapshotAtMinusSeq then snapAt - seq ≥ UInt64.ofNat Ndn.Gen.C19.snapshotThreshold
  else seq - snapAt ≥ UInt64.ofNat Ndn.Gen.C19.snapshotThreshold

/-- `publishOp` -/
def Pub.publishOp (p : Pub) (op : LogOp) : Pub :=
  let seq := p.seq + 1
  let p := { p with seq := seq, log := (seq, op) :: p.log }
  if snapDue p.snapAt seq then p.publishSnap else p

/-- `Announce` -/
def Pub.announce (p : Pub) (name : Nat) : Pub :=
  if p.set.contains name then p
  else Pub.publishOp { p with set := p.set ++ [name] } (.add name)

/-- `Withdraw` -/
def Pub.withdraw (p : Pub) (name : Nat) : Pub :=
  if p.set.contains name then Pub.publishOp { p with set := p.set.filter (· ≠ name) } (.remove name)
  else p

/-- A readvertise command Interest as `readvertiseOnInterest` (dv/dv/readvertise.go) looks at it: the
    number of name components, the module and verb components, and the name carried by the
    ControlParameters component (`none`: the component does not parse or carries no Name). -/
structure RvCmd where
  comps : Nat
  module : String
  verb : String
  name : Option Nat
deriving Repr

/-- `readvertiseOnInterest`: a name of exactly six components (/localhost/nlsr/rib/<verb>/<params>/
    <digest>), module `rib`, parameters that carry a name, verb `register` → `Announce`, `unregister` →
    `Withdraw`, answered 200; anything else is answered 400 and changes nothing. -/
def Pub.readvertise (p : Pub) (c : RvCmd) : Pub × Nat :=
  if c.comps != 6 then (p, 400)
  else if c.module != "rib" then (p, 400)
  else match c.name with
    | none => (p, 400)
    | some n =>
      if c.verb == "register" then (p.announce n, 200)
      else if c.verb == "unregister" then (p.withdraw n, 200)
      else (p, 400)

/-- what a peer has outstanding -/
inductive Want where
  | snap
  | seq (n : UInt64)
deriving DecidableEq, Repr

/-- a peer's view of the publisher (`PrefixTableRouter`) plus its outstanding Interest -/
structure Peer where
  known : UInt64
  latest : UInt64
  fetching : Bool
  set : List Nat
  pend : Option Want
  /-- `rib.Has(publisher)`: the peer's RIB currently has a finite path to the publisher -/
  reach : Bool := false
  /-- the publisher's number in the peer's prefix-sync state vector (std/sync SvSync.state) -/
  svs : UInt64 := 0
deriving Repr

def Peer.init : Peer := { known := 0, latest := 0, fetching := false, set := [], pend := none, reach := false }

/-- `prefixDataFetch` (the RIB reaches the publisher) -/
def Peer.fetch (q : Peer) : Peer :=
  if ¬ q.reach ∨ q.fetching ∨ q.known ≥ q.latest then q
  else
    let isSnap := q.latest - q.known > UInt64.ofNat Ndn.Gen.C19.fetchGap
    { q with fetching := true, pend := some (if isSnap then .snap else .seq (q.known + 1)) }

/-- the RIB gains a path to the publisher: `ribUpdate` was dirty, so `prefixDataFetchAll` runs
    (`Known < Latest` ⇒ fetch); nothing happens when the path already existed -/
def Peer.gainPath (q : Peer) : Peer := if q.reach then q else Peer.fetch { q with reach := true }

/-- the RIB loses its path to the publisher -/
def Peer.losePath (q : Peer) : Peer := { q with reach := false }

/-- `onPfxSyncUpdate`: the new number is recorded even while there is no path -/
def Peer.sync (q : Peer) (high : UInt64) : Peer := Peer.fetch { q with latest := high }

/-- a Sync Interest of the prefix-sync group carrying the publisher's number reaches the peer's SvSync
    (`onReceiveStateVector`): only a strictly larger number is reported to `onPfxSyncUpdate` -/
def Peer.svsReceive (q : Peer) (high : UInt64) : Peer :=
  if high > q.svs then Peer.sync { q with svs := high } high else q

def applyOp (s : List Nat) : LogOp → List Nat
  | .add n => if s.contains n then s else s ++ [n]
  | .remove n => s.filter (· ≠ n)

def logGet : List (UInt64 × LogOp) → UInt64 → Option LogOp
  | [], _ => none
  | (k, op) :: t, n => if k = n then some op else logGet t n

/-- the Interest is answered from the publisher's repo (`OnDataInterest`), the Data is processed
    (`processPrefixData` + `Apply`), `Fetching` is cleared and the fetch is re-checked.
    `none`: nothing outstanding; `some (q, false)`: the repo has no such Data (no reply). -/
def Peer.deliver (q : Peer) (p : Pub) : Option (Peer × Bool) :=
  match q.pend with
  | none => none
  | some .snap =>
    some (Peer.fetch { q with known := p.snapAt, set := p.snapSet, fetching := false, pend := none }, true)
  | some (.seq n) =>
    match logGet p.log n with
    | some op => some (Peer.fetch { q with known := n, set := applyOp q.set op, fetching := false, pend := none }, true)
    | none => some (q, false)

/-- the Interest times out: `Fetching` is cleared and the fetch is re-checked -/
def Peer.timeout (q : Peer) : Option Peer :=
  match q.pend with
  | none => none
  | some _ => some (Peer.fetch { q with fetching := false, pend := none })

end Ndn.C19
