/-
  C19 — property theorems only (helper lemmas live in Lemmas*.lean).
-/
import NdnVerif.C19.Model
namespace Ndn.C19

/-- the regenerated constants are the protocol's: infinity 16, snapshot gap 100 -/
theorem consts_are_protocol : inf = 16 ∧ Ndn.Gen.C19.fetchGap = 100 ∧ Ndn.Gen.C19.snapshotThreshold = 100 :=
  ⟨rfl, rfl, rfl⟩

end Ndn.C19
