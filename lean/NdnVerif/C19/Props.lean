/-
  C19 — property theorems only (helper lemmas live in Lemmas*.lean).

  Clauses of the property and the theorem that covers each:
    * the routes registered in the forwarder (replay of the emitted register / unregister stream)
      equal what the current tables prescribe, after every sequence of table changes
        -> commands_replay_eq_prescribed        (any history, arbitrary table changes between updates)
        -> next_hops_have_neighbor_state        (the side condition is an invariant of the router: F-19a is
                                                 not reachable; no command ever names face 0)
        -> routes_mirror_tables_always          (the router as a whole: fibUpdate is started only when the code's
                                                 dirty results say so — and that is enough: after EVERY event)
    * the prefix set a peer reconstructs from the published op log equals the announced set
        -> log_replay_eq_announced              (every publisher history, every peer start point / interleaving)
        -> announced_set_is_spec                (the publisher's set is the announced-and-not-withdrawn set)
-/
import NdnVerif.C19.LemmasRouter
import NdnVerif.C19.LemmasLog
import NdnVerif.Gen.C19Locks
namespace Ndn.C19
open Spec (Routes rget replay)

/-- the regenerated constants are the protocol's: infinity 16, snapshot gap 100 -/
theorem consts_are_protocol : inf = 16 ∧ Ndn.Gen.C19.fetchGap = 100 ∧ Ndn.Gen.C19.snapshotThreshold = 100 :=
  ⟨rfl, rfl, rfl⟩

/-- `NfdMgmtThread.Exec` queues every command with a blocking send (regenerated from dv/nfdc/nfdc.go): no
    command the installer emits is ever dropped on the way to the forwarder — the assumption under which the
    replay of the EMITTED stream (theorems below) is the forwarder's route table. -/
theorem exec_never_drops_commands : Ndn.Gen.C19.execSendBlocks = true := rfl

/-- The router and its prefix-table sync group never take their two mutexes in opposite orders (regenerated from
    std/sync/svs.go and dv/dv/readvertise.go): an announcement holds `Router.mutex` while it calls into SvSync
    (`IncrSeqNo` takes `SvSync.mutex`), so SvSync must not hold its mutex while it calls the router's update callback
    (`onPfxSyncUpdate` takes `Router.mutex`). With both orders present an announcement that overlaps an incoming
    prefix-sync update dead-locks the router for good — no operation is published, no table or route is ever
    updated again (F-19b) — and every theorem below, which treats handlers as atomic steps that terminate, is void. -/
theorem no_lock_order_cycle :
    (Ndn.Gen.C19.svsUpdateUnderLock && Ndn.Gen.C19.announceUnderRouterLock) = false := by decide

/-! ### (A) installed routes mirror the tables -/

/-- what can happen between two route updates: ANY change of the tables (RIB, neighbour faces,
    prefix table — not even restricted to what the router's own algorithms produce), or a `fibUpdate` -/
inductive InstEvent where
  | tables (t : Tables)
  | fibUpdate

/-- tables, the installer's own state, and the forwarder's route table (replay of every command) -/
structure InstState where
  t : Tables
  fib : Fib
  routes : Routes

def InstState.init (t : Tables) : InstState := { t := t, fib := Fib.empty, routes := [] }

def InstState.step (prefixOf : Nat → Nat) (s : InstState) : InstEvent → InstState
  | .tables t' => { s with t := t' }
  | .fibUpdate =>
    let r := fibUpdate prefixOf s.t s.fib
    { s with fib := r.1, routes := replay s.routes r.2 }

def InstState.run (prefixOf : Nat → Nat) (s : InstState) (evs : List InstEvent) : InstState :=
  evs.foldl (InstState.step prefixOf) s

theorem run_mirror (prefixOf : Nat → Nat) (evs : List InstEvent) : ∀ (s : InstState),
    Mirror s.fib s.routes → Mirror (s.run prefixOf evs).fib (s.run prefixOf evs).routes := by
  induction evs with
  | nil => intro s m; exact m
  | cons ev t ih =>
    intro s m
    simp only [InstState.run, List.foldl_cons]
    apply ih
    cases ev with
    | tables t' => exact m
    | fibUpdate => exact (fibUpdate_spec prefixOf s.t m (desired_nodup prefixOf s.t)).1

/-- After EVERY `fibUpdate` of ANY history (arbitrary table changes and earlier updates, starting from
    an empty installer): the forwarder's route table obtained by replaying the whole emitted
    register / unregister stream holds, for every (prefix, face), exactly the lowest cost the
    specification prescribes from the current tables — over the reachable remote routers announcing
    the prefix (and each router's own routing prefix), the faces of the best and the finite second-best
    next hop — and nothing else (`none` = no route: unreachable, withdrawn, abandoned face).
    Side condition `NbrOk`: every next hop in use has a neighbour state; it is an invariant of the
    router (`next_hops_have_neighbor_state`). -/
theorem commands_replay_eq_prescribed (prefixOf : Nat → Nat) (t0 : Tables) (evs : List InstEvent) :
    let s := (InstState.init t0).run prefixOf evs
    NbrOk s.t →
    ∀ name face, rget (s.step prefixOf .fibUpdate).routes (name, face) =
      Spec.prescribedCost (prescription prefixOf s.t) name face := by
  intro s ok name face
  have m : Mirror s.fib s.routes := run_mirror prefixOf evs _ mirror_empty
  have h := (fibUpdate_spec prefixOf s.t m (desired_nodup prefixOf s.t)).2 name face
  simp only [InstState.step]
  rw [h, desCost_eq_prescribed prefixOf s.t ok]

/-- router 2 reaches router 7 via neighbour 5 (face 3) at cost 2 and via neighbour 6 (face 4) at cost 4;
    7 announces prefix 100 -/
def exTables : Tables :=
  { self := 2
    nbrs := [(5, { face := 3, active := true }), (6, { face := 4, active := false })]
    pfx := [(7, [100])]
    rib := (C18.ribUpdate 2 (C18.ribUpdate 2 (C18.Router.start 2).rib 5 [⟨7, 7, 1, 16⟩]).1 6 [⟨7, 9, 3, 16⟩]).1 }

/-- both faces are registered for 7's routing prefix (name 1007) and for the announced prefix 100 -/
example : (fibUpdate (· + 1000) exTables Fib.empty).2 =
    [.register 1007 3 2, .register 1007 4 4, .register 100 3 2, .register 100 4 4] := by decide

/-- Along every history of router-level events from start-up (sync Interests of neighbours on any
    faces, advertisements, dead-neighbour checks, prefix ops), every next hop the installer reads has a
    neighbour state: `GetFibEntries` never falls back to face 0 (decides F-19a: not reachable). -/
theorem next_hops_have_neighbor_state (self : Nat) (evs : List RouterEvent) :
    NbrOk (evs.foldl Tables.step (Tables.start self)) := by
  have : ∀ (evs : List RouterEvent) (t : Tables), NbrInv t → NbrInv (evs.foldl Tables.step t) := by
    intro evs
    induction evs with
    | nil => intro t h; exact h
    | cons ev r ih => intro t h; exact ih _ (nbrInv_step h ev)
  exact nbrOk_of_inv (this evs _ (nbrInv_start self))

example : NbrOk (([.ping 5 3 true, .adv 5 [⟨7, 7, 1, 16⟩], .dead 5] : List RouterEvent).foldl Tables.step (Tables.start 2)) :=
  next_hops_have_neighbor_state 2 _

/-- The router as a whole, from start-up, through ANY history of router-level events (sync Interests of
    neighbours on any faces, active or passive; advertisements with any content; dead-neighbour checks;
    prefix op lists of any exit router): the tables change and `fibUpdate` runs only when
    `RecvPing` / `ribUpdate` / `checkDeadNeighbors` / `Apply` report a change, exactly as in
    advertSyncOnInterest, ribUpdate, checkDeadNeighbors and processPrefixData.  After EVERY event the
    forwarder's route table (replay of all emitted commands) equals the prescription of the current tables
    — the dirty results never suppress a needed update. -/
theorem routes_mirror_tables_always (prefixOf : Nat → Nat) (self : Nat) (evs : List RouterEvent) :
    let s := evs.foldl (RState.step prefixOf) (RState.start self)
    ∀ name face, rget s.routes (name, face) = Spec.prescribedCost (prescription prefixOf s.t) name face := by
  have : ∀ (evs : List RouterEvent) (s : RState), RInv prefixOf s → RInv prefixOf (evs.foldl (RState.step prefixOf) s) := by
    intro evs
    induction evs with
    | nil => intro s h; exact h
    | cons ev r ih => intro s h; exact ih _ (rinv_step prefixOf h ev)
  exact (this evs _ (rinv_start prefixOf self)).eq

/-- neighbour 5 comes up on face 3 and advertises router 7, which announces prefix 100; 5 moves to face 4;
    7 withdraws 100; 5 dies: the replayed table follows -/
example :
    let run := fun (evs : List RouterEvent) => (evs.foldl (RState.step (· + 1000)) (RState.start 2)).routes
    run [.ping 5 3 true, .adv 5 [⟨7, 7, 1, 16⟩], .papply 7 false [100] []] = [((100, 3), 2), ((1007, 3), 2)] ∧
    run [.ping 5 3 true, .adv 5 [⟨7, 7, 1, 16⟩, ⟨5, 5, 0, 16⟩], .papply 7 false [100] [], .ping 5 4 true, .papply 7 false [] [100]]
      = [((1005, 4), 1), ((1007, 4), 2)] ∧
    run [.ping 5 3 true, .adv 5 [⟨7, 7, 1, 16⟩, ⟨5, 5, 0, 16⟩], .papply 7 false [100] [], .ping 5 4 true, .papply 7 false [] [100], .dead 5] = [] := by
  decide

/-! ### (B) the prefix log replicates the announced set -/

/-- For every publisher history and every interleaving with the events of any number of peers
    (learning any sequence number — also stale or future ones, also while the peer has no path to the
    publisher yet —, gaining and losing the path, deliveries from the publisher's repo,
    time-outs; peers may start at any point), provided sequence numbers do not wrap around 2^64:
    every peer's prefix set is the publisher's announced set after the publication whose sequence
    number the peer has reached (`setAtL log known`; snapshot or op by op, gap > 100 forces a snapshot),
    the peer never runs ahead of the publisher, and a peer that has caught up holds exactly the
    publisher's current set. -/
theorem log_replay_eq_announced (seq0 : UInt64) (k : Nat) (evs : List LogEvent)
    (hw : seq0.toNat + evs.length < 2 ^ 64) :
    let s := (LogSys.init seq0 k).run evs
    ∀ q ∈ s.peers, q.set = setAtL s.pub.log q.known ∧ q.known ≤ s.pub.seq ∧
      (q.known = s.pub.seq → q.set = s.pub.set) := by
  intro s q hq
  have inv : SysInv s := sysInv_run evs (sysInv_init seq0 k) hw
  have pi := inv.peers q hq
  refine ⟨pi.set, pi.le, ?_⟩
  intro he
  rw [pi.set, he, inv.pub.cur]

/-- a late peer starts from a snapshot, an up-to-date peer follows op by op; both end with the
    publisher's set (the outcome does not depend on how often the publisher takes snapshots) -/
example :
    let s := (LogSys.init 1000 2).run [.path 0 true, .announce 7, .sync 0 1001, .deliver 0, .deliver 0, .announce 8, .withdraw 7,
      .sync 0 1003, .deliver 0, .deliver 0, .deliver 0, .sync 1 1003, .path 1 true, .deliver 1, .deliver 1, .deliver 1, .deliver 1]
    (s.peers.map fun q => (q.known, q.set)) = [(1003, [8]), (1003, [8])] ∧ s.pub.set = [8] := by decide

/-- the announced set by the operations issued (specification side) -/
def specSet (ops : List Spec.PubOp) : List Nat := ops.foldl (fun s op => (Spec.announce s op).1) []

def Pub.apply (p : Pub) : Spec.PubOp → Pub
  | .announce n => p.announce n
  | .withdraw n => p.withdraw n

theorem pub_set_mem (p : Pub) (s : List Nat) (h : ∀ n, n ∈ p.set ↔ n ∈ s) (op : Spec.PubOp) :
    ∀ n, n ∈ (p.apply op).set ↔ n ∈ (Spec.announce s op).1 := by
  intro n
  cases op with
  | announce a =>
    by_cases hm : a ∈ p.set
    · have hs : a ∈ s := (h a).1 hm
      simp [Pub.apply, Pub.announce, Spec.announce, hm, hs, h]
    · have hs : a ∉ s := fun x => hm ((h a).2 x)
      simp only [Pub.apply, Pub.announce, Spec.announce, List.contains_iff_mem, hm, hs, if_false, Pub.publishOp]
      split <;> simp [Pub.publishSnap, h, or_comm]
  | withdraw a =>
    by_cases hm : a ∈ p.set
    · have hs : a ∈ s := (h a).1 hm
      simp only [Pub.apply, Pub.withdraw, Spec.announce, List.contains_iff_mem, hm, hs, if_true, Pub.publishOp]
      split <;> simp [Pub.publishSnap, h]
    · have hs : a ∉ s := fun x => hm ((h a).2 x)
      simp [Pub.apply, Pub.withdraw, Spec.announce, hm, hs, h]

/-- the publisher's table holds exactly the prefixes announced and not withdrawn since -/
theorem announced_set_is_spec (seq0 : UInt64) (ops : List Spec.PubOp) :
    ∀ n, n ∈ (ops.foldl Pub.apply (Pub.init seq0)).set ↔ n ∈ specSet ops := by
  have : ∀ (ops : List Spec.PubOp) (p : Pub) (s : List Nat), (∀ n, n ∈ p.set ↔ n ∈ s) →
      ∀ n, n ∈ (ops.foldl Pub.apply p).set ↔ n ∈ ops.foldl (fun s op => (Spec.announce s op).1) s := by
    intro ops
    induction ops with
    | nil => intro p s h; exact h
    | cons op r ih => intro p s h; exact ih _ _ (pub_set_mem p s h op)
  exact this ops _ [] (by intro n; simp [Pub.init])

example : (([.announce 3, .announce 5, .withdraw 3, .withdraw 9] : List Spec.PubOp).foldl Pub.apply (Pub.init 77)).set = [5] := by
  decide

/-- the abstract operation a readvertise command stands for, if it is one -/
def RvCmd.op (c : RvCmd) : Option Spec.PubOp :=
  if c.comps = 6 ∧ c.module = "rib" then
    match c.name with
    | none => none
    | some n => if c.verb = "register" then some (.announce n)
                else if c.verb = "unregister" then some (.withdraw n) else none
  else none

/-- **C19, the entry point of announcements.**  `readvertiseOnInterest` answers 200 exactly for the
    well-formed commands, and then has performed exactly the operation the command stands for; every
    other command is answered 400 and leaves the prefix table (set, log, sequence number, snapshot)
    untouched. -/
theorem readvertise_is_the_command (p : Pub) (c : RvCmd) :
    (p.readvertise c) = (match c.op with | some op => (p.apply op, 200) | none => (p, 400)) := by
  unfold Pub.readvertise RvCmd.op
  by_cases h6 : c.comps = 6
  · by_cases hm : c.module = "rib"
    · cases hn : c.name with
      | none => simp [h6, hm]
      | some n =>
        by_cases hr : c.verb = "register"
        · simp [h6, hm, hr, Pub.apply]
        · by_cases hu : c.verb = "unregister"
          · simp [h6, hm, hr, hu, Pub.apply]
          · simp [h6, hm, hr, hu]
    · simp [h6, hm]
  · simp [h6]

/-- a history of readvertise commands, well-formed or not, leaves exactly the prefixes announced and not
    withdrawn since by the well-formed ones -/
theorem readvertise_history_is_spec (seq0 : UInt64) (cs : List RvCmd) :
    ∀ n, n ∈ (cs.foldl (fun p c => (p.readvertise c).1) (Pub.init seq0)).set ↔
         n ∈ specSet (cs.filterMap RvCmd.op) := by
  have hfold : ∀ (cs : List RvCmd) (p : Pub),
      cs.foldl (fun p c => (p.readvertise c).1) p = (cs.filterMap RvCmd.op).foldl Pub.apply p := by
    intro cs
    induction cs with
    | nil => intro p; rfl
    | cons c r ih =>
      intro p
      simp only [List.foldl_cons, List.filterMap_cons]
      rw [readvertise_is_the_command]
      cases hop : c.op with
      | none => simpa using ih p
      | some op => simpa using ih (p.apply op)
  rw [hfold]
  exact announced_set_is_spec seq0 _

example : ((([⟨6, "rib", "register", some 3⟩, ⟨5, "rib", "register", some 4⟩, ⟨6, "fib", "register", some 5⟩,
             ⟨6, "rib", "unregister", none⟩, ⟨6, "rib", "announce", some 6⟩, ⟨6, "rib", "register", some 7⟩,
             ⟨6, "rib", "unregister", some 3⟩] : List RvCmd).foldl (fun p c => (p.readvertise c).1) (Pub.init 9)).set) = [7] := by
  decide

end Ndn.C19
