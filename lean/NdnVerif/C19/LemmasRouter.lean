/-
  C19 helper lemmas, part A7: the router as a whole — tables change by router-level events and
  `fibUpdate` is started exactly when the code's dirty results say so; the installed routes equal the
  prescription after EVERY event.  Core Lean only.
-/
import NdnVerif.C19.LemmasDirty
namespace Ndn.C19
open Spec (Routes rget replay)
open Ndn.C18 (Rib Entry)

theorem step_self (t : Tables) (ev : RouterEvent) : (t.step ev).self = t.self := by
  cases ev with
  | ping w face active => rfl
  | adv w entries => simp only [Tables.step, Tables.stepDirty]; cases pget t.nbrs w <;> rfl
  | dead w => simp only [Tables.step, Tables.stepDirty]; cases pget t.nbrs w <;> rfl
  | papply x reset adds rems => rfl
  | sweep ws =>
    simp only [Tables.step, Tables.stepDirty, sweep_fold_fst]
    have : ∀ (ws : List Nat) (t : Tables), (ws.foldl (fun t w => t.step (.dead w)) t).self = t.self := by
      intro ws
      induction ws with
      | nil => intro t; rfl
      | cons w r ih =>
        intro t
        simp only [List.foldl_cons]
        rw [ih]
        simp only [Tables.step, Tables.stepDirty]; cases pget t.nbrs w <;> rfl
    exact this ws t

theorem recvPing_clean {nbrs : List (Nat × Nbr)} {w face : Nat} {active : Bool}
    (hc : (recvPing nbrs w face active).2 = false) {h : Nat} (hs : (pget nbrs h).isSome) :
    pget (recvPing nbrs w face active).1 h = pget nbrs h := by
  unfold recvPing at hc ⊢
  simp only at hc ⊢
  by_cases hw : h = w
  · subst hw
    obtain ⟨nb, hnb⟩ := Option.isSome_iff_exists.1 hs
    simp only [hnb, Option.getD_some] at hc ⊢
    by_cases hf : nb.face ≠ face
    · rw [if_pos hf] at hc ⊢
      by_cases ha : nb.active = true ∧ ¬ active = true
      · rw [if_pos ha]; simp only [pget_pset, if_true]
      · rw [if_neg ha] at hc; simp at hc
    · rw [if_neg hf]; simp only [pget_pset, if_true]
  · by_cases hf : ((pget nbrs w).getD { face := 0, active := false }).face ≠ face
    · rw [if_pos hf]
      by_cases ha : ((pget nbrs w).getD { face := 0, active := false }).active = true ∧ ¬ active = true
      · rw [if_pos ha]; simp only [pget_pset, hw, if_false]
      · rw [if_neg ha]; simp only [pget_pset, hw, if_false]
    · rw [if_neg hf]; simp only [pget_pset, hw, if_false]

theorem pfxApply_clean {pfx : List (Nat × List Nat)} {x : Nat} {reset : Bool} {adds rems : List Nat}
    (hc : (pfxApply pfx x reset adds rems).2 = false) (d : Nat) :
    (pget (pfxApply pfx x reset adds rems).1 d).getD [] = (pget pfx d).getD [] := by
  unfold pfxApply at hc ⊢
  simp only [Bool.or_eq_false_iff, Bool.not_eq_eq_eq_not, Bool.not_false, List.isEmpty_iff] at hc
  obtain ⟨⟨hr, ha⟩, hrm⟩ := hc
  subst ha; subst hrm
  simp only [hr, Bool.false_eq_true, if_false, List.foldl_nil, pget_pset]
  by_cases hd : d = x
  · subst hd; simp
  · simp [hd]

/-- if the code does not start `fibUpdate`, the prescription has not changed -/
theorem clean_same_prescription_basic (prefixOf : Nat → Nat) {t : Tables} (inv : NbrInv t) (ev : RouterEvent)
    (hns : ∀ ws, ev ≠ .sweep ws)
    (hc : (t.stepDirty ev).2 = false) : prescription prefixOf (t.step ev) = prescription prefixOf t := by
  have inv' := nbrInv_step inv ev
  have ok := nbrOk_of_inv inv
  have ok' := nbrOk_of_inv inv'
  -- hops in use have a neighbour state, before and after
  have used : ∀ (tt : Tables), NbrOk tt → ∀ o ∈ obsOf tt, o.dest ≠ tt.self →
      (pget tt.nbrs o.nh1).isSome ∧ (o.c2 < Spec.infinity → (pget tt.nbrs o.nh2).isSome) := by
    intro tt okk o ho hne
    obtain ⟨e, he, rfl⟩ := List.mem_map.1 ho
    exact okk e he hne
  cases ev with
  | ping w face active =>
    simp only [Tables.stepDirty] at hc
    refine prescription_congr prefixOf (t := t) (t' := t.step (.ping w face active)) rfl rfl (fun _ => rfl) ?_
    intro o ho hne
    obtain ⟨u1, u2⟩ := used t ok o ho hne
    simp only [faceOfS, Tables.step, Tables.stepDirty]
    exact ⟨by rw [recvPing_clean hc u1], fun h2 => by rw [recvPing_clean hc (u2 h2)]⟩
  | adv w entries =>
    simp only [Tables.stepDirty, Tables.step] at hc ⊢
    cases hw : pget t.nbrs w with
    | none => rfl
    | some nb =>
      simp only [hw] at hc ⊢
      exact prescription_congr prefixOf (t := t) (t' := { t with rib := (C18.ribUpdate t.self t.rib w entries).1 })
        rfl (ribUpdate_clean _ _ _ _ hc) (fun _ => rfl) (fun _ _ _ => ⟨rfl, fun _ => rfl⟩)
  | dead w =>
    simp only [Tables.stepDirty] at hc
    cases hw : pget t.nbrs w with
    | none => simp only [Tables.step, Tables.stepDirty, hw]
    | some nb =>
      simp only [hw] at hc
      have hb := ribDead_clean t.rib w hc
      have hstep' : t.step (.dead w) = { t with rib := (C18.ribDead t.rib w).1, nbrs := perase t.nbrs w } := by
        simp only [Tables.step, Tables.stepDirty, hw]
      rw [hstep'] at ok' ⊢
      refine prescription_congr prefixOf (t := t)
        (t' := { t with rib := (C18.ribDead t.rib w).1, nbrs := perase t.nbrs w }) rfl hb (fun _ => rfl) ?_
      intro o ho hne
      -- the same observation exists after the step, where its hops have a neighbour state ≠ w
      have ho' : o ∈ obsOf { t with rib := (C18.ribDead t.rib w).1, nbrs := perase t.nbrs w } := by
        rw [obsOf_bests (t := t) hb]; exact ho
      obtain ⟨u1, u2⟩ := used _ ok' o ho' hne
      simp only [pget_perase] at u1 u2
      have hn1 : o.nh1 ≠ w := by
        intro e; simp [e] at u1
      simp only [faceOfS, pget_perase, hn1, if_false, true_and]
      intro h2
      have hn2 : o.nh2 ≠ w := by
        intro e; have := u2 h2; simp [e] at this
      simp [hn2]
  | papply x reset adds rems =>
    simp only [Tables.stepDirty] at hc
    refine prescription_congr prefixOf (t := t) (t' := t.step (.papply x reset adds rems)) rfl rfl ?_ ?_
    · intro d
      simp only [announcedS, Tables.step, Tables.stepDirty]
      exact pfxApply_clean hc d
    · intro _ _ _; exact ⟨rfl, fun _ => rfl⟩
  | sweep ws => exact absurd rfl (hns ws)

theorem sweep_fold_clean (prefixOf : Nat → Nat) (ws : List Nat) : ∀ (t : Tables) (d : Bool), NbrInv t →
    (ws.foldl (fun acc w => ((Tables.deadOne acc.1 w).1, acc.2 || (Tables.deadOne acc.1 w).2)) (t, d)).2 = false →
    d = false ∧ prescription prefixOf
      (ws.foldl (fun acc w => ((Tables.deadOne acc.1 w).1, acc.2 || (Tables.deadOne acc.1 w).2)) (t, d)).1 =
      prescription prefixOf t := by
  induction ws with
  | nil => intro t d _ h; exact ⟨h, rfl⟩
  | cons w r ih =>
    intro t d inv h
    simp only [List.foldl_cons] at h ⊢
    have inv' : NbrInv (t.deadOne w).1 := nbrInv_step inv (.dead w)
    obtain ⟨hd, hp⟩ := ih _ _ inv' h
    have h2 : d = false ∧ (t.deadOne w).2 = false := by
      cases d <;> cases hx : (t.deadOne w).2 <;> simp_all
    refine ⟨h2.1, ?_⟩
    rw [hp]
    exact clean_same_prescription_basic prefixOf inv (.dead w) (fun ws => by intro e; cases e) h2.2

/-- if the code does not start `fibUpdate`, the prescription has not changed -/
theorem clean_same_prescription (prefixOf : Nat → Nat) {t : Tables} (inv : NbrInv t) (ev : RouterEvent)
    (hc : (t.stepDirty ev).2 = false) : prescription prefixOf (t.step ev) = prescription prefixOf t := by
  cases ev with
  | sweep ws =>
    simp only [Tables.step, Tables.stepDirty] at hc ⊢
    exact (sweep_fold_clean prefixOf ws t false inv hc).2
  | ping w face active => exact clean_same_prescription_basic prefixOf inv _ (fun ws => by intro e; cases e) hc
  | adv w entries => exact clean_same_prescription_basic prefixOf inv _ (fun ws => by intro e; cases e) hc
  | dead w => exact clean_same_prescription_basic prefixOf inv _ (fun ws => by intro e; cases e) hc
  | papply x reset adds rems => exact clean_same_prescription_basic prefixOf inv _ (fun ws => by intro e; cases e) hc

structure RInv (prefixOf : Nat → Nat) (s : RState) : Prop where
  nbr : NbrInv s.t
  mir : Mirror s.fib s.routes
  eq : ∀ name face, rget s.routes (name, face) = Spec.prescribedCost (prescription prefixOf s.t) name face

theorem prescription_start (prefixOf : Nat → Nat) (self : Nat) : prescription prefixOf (Tables.start self) = [] := by
  unfold prescription Spec.candidates
  have : ∀ o ∈ obsOf (Tables.start self), o.dest = self := by
    intro o ho
    obtain ⟨e, he, rfl⟩ := List.mem_map.1 ho
    have hm := (List.mem_filter.1 he).1
    simp only [Tables.start, C18.Router.start, C18.Rib.set, C18.Rib.empty, C18.setEntries, List.mem_singleton] at hm
    rw [hm]; exact C18.set_dest _ _ _
  have hz : ∀ (l : List Spec.RibObs), (∀ o ∈ l, o.dest = self) →
      l.flatMap (fun e => if e.dest = (Tables.start self).self ∨ ¬ e.c1 < Spec.infinity then []
        else
          let hops := (match faceOfS (Tables.start self) e.nh1 with | some f => [(f, e.c1)] | none => []) ++
            (if e.c2 < Spec.infinity then (match faceOfS (Tables.start self) e.nh2 with | some f => [(f, e.c2)] | none => []) else [])
          (prefixOf e.dest :: announcedS (Tables.start self) e.dest).flatMap fun n => hops.map fun (f, c) => (n, f, c)) = [] := by
    intro l hl
    induction l with
    | nil => rfl
    | cons o r ih =>
      have ho : o.dest = (Tables.start self).self := hl o (List.mem_cons_self ..)
      simp only [List.flatMap_cons, ho, true_or, if_true, List.nil_append]
      exact ih (fun x hx => hl x (List.mem_cons_of_mem _ hx))
  exact hz _ this

theorem rinv_start (prefixOf : Nat → Nat) (self : Nat) : RInv prefixOf (RState.start self) := by
  refine ⟨nbrInv_start self, mirror_empty, ?_⟩
  intro name face
  simp only [RState.start, prescription_start]
  rfl

theorem rinv_step (prefixOf : Nat → Nat) {s : RState} (inv : RInv prefixOf s) (ev : RouterEvent) :
    RInv prefixOf (s.step prefixOf ev) := by
  have nbr' := nbrInv_step inv.nbr ev
  unfold RState.step RState.stepCmds
  by_cases hd : (s.t.stepDirty ev).2 = true
  · simp only [hd, if_true]
    obtain ⟨m, h⟩ := fibUpdate_spec prefixOf (s.t.step ev) inv.mir (desired_nodup prefixOf (s.t.step ev))
    refine ⟨nbr', m, ?_⟩
    intro name face
    rw [h, desCost_eq_prescribed prefixOf _ (nbrOk_of_inv nbr')]
  · have hd' : (s.t.stepDirty ev).2 = false := by simpa using hd
    simp only [hd', Bool.false_eq_true, if_false]
    refine ⟨nbr', inv.mir, ?_⟩
    intro name face
    simp only
    rw [clean_same_prescription prefixOf inv.nbr ev hd']
    exact inv.eq name face

end Ndn.C19
