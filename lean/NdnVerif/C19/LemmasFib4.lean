/-
  C19 helper lemmas, part A4: the collection phase of `fibUpdate` (`desired`) computes the
  specification's prescription (`Spec.candidates` / `Spec.prescribedCost`) whenever every next hop in
  use has a neighbour state.  Core Lean only.
-/
import NdnVerif.C19.LemmasFib3
namespace Ndn.C19
open Ndn.C18 (Entry)

/-! ### option-min -/

def omin : Option Nat → Option Nat → Option Nat
  | none, b => b
  | some a, none => some a
  | some a, some b => some (min a b)

theorem omin_none_right (a : Option Nat) : omin a none = a := by cases a <;> rfl

theorem omin_assoc (a b c : Option Nat) : omin (omin a b) c = omin a (omin b c) := by
  cases a <;> cases b <;> cases c <;> simp [omin, Nat.min_assoc]

def ofold {α : Type} (g : α → Option Nat) (l : List α) : Option Nat :=
  l.foldr (fun a acc => omin (g a) acc) none

theorem ofold_congr {α : Type} {g g' : α → Option Nat} {l : List α} (h : ∀ a ∈ l, g a = g' a) :
    ofold g l = ofold g' l := by
  induction l with
  | nil => rfl
  | cons x t ih =>
    simp only [ofold, List.foldr_cons] at ih ⊢
    rw [h x (List.mem_cons_self ..), ih (fun a ha => h a (List.mem_cons_of_mem _ ha))]

/-! ### minFin is a homomorphism -/

theorem minFin_cons (f c : Nat) (t : List (Nat × Nat)) (face : Nat) :
    minFin ((f, c) :: t) face = omin (if f = face ∧ c < inf then some c else none) (minFin t face) := by
  simp only [minFin]
  by_cases h : f = face ∧ c < inf
  · simp only [h, and_self, if_true]
    cases minFin t face <;> rfl
  · simp only [h, if_false]; rfl

theorem minFin_append (a b : List (Nat × Nat)) (face : Nat) :
    minFin (a ++ b) face = omin (minFin a face) (minFin b face) := by
  induction a with
  | nil => rfl
  | cons x t ih =>
    obtain ⟨f, c⟩ := x
    rw [List.cons_append, minFin_cons, minFin_cons, ih, omin_assoc]

theorem minFin_flatMap {α : Type} (h : α → List (Nat × Nat)) (l : List α) (face : Nat) :
    minFin (l.flatMap h) face = ofold (fun a => minFin (h a) face) l := by
  induction l with
  | nil => rfl
  | cons x t ih =>
    simp only [List.flatMap_cons, minFin_append, ih, ofold, List.foldr_cons]

/-! ### prescribedCost is a homomorphism -/

def pcStep (name face : Nat) (best : Option Nat) (x : Nat × Nat × Nat) : Option Nat :=
  if x.1 = name ∧ x.2.1 = face then
    match best with
    | none => some x.2.2
    | some b => some (min b x.2.2)
  else best

def pcOne (name face : Nat) (x : Nat × Nat × Nat) : Option Nat :=
  if x.1 = name ∧ x.2.1 = face then some x.2.2 else none

theorem pcStep_eq (name face : Nat) (best : Option Nat) (x : Nat × Nat × Nat) :
    pcStep name face best x = omin best (pcOne name face x) := by
  unfold pcStep pcOne
  by_cases h : x.1 = name ∧ x.2.1 = face
  · simp only [h, and_self, if_true]; cases best <;> rfl
  · simp only [h, if_false]; exact (omin_none_right best).symm

theorem prescribedCost_eq (cands : List (Nat × Nat × Nat)) (name face : Nat) :
    Spec.prescribedCost cands name face = ofold (pcOne name face) cands := by
  have hstep : ∀ (l : List (Nat × Nat × Nat)) (init : Option Nat),
      l.foldl (pcStep name face) init = omin init (ofold (pcOne name face) l) := by
    intro l
    induction l with
    | nil => intro init; exact (omin_none_right init).symm
    | cons x t ih =>
      intro init
      simp only [List.foldl_cons, ih, pcStep_eq, ofold, List.foldr_cons, omin_assoc]
  have : Spec.prescribedCost cands name face = cands.foldl (pcStep name face) none := by
    unfold Spec.prescribedCost
    congr 1
  rw [this, hstep]; rfl

theorem ofold_append {α : Type} (g : α → Option Nat) (a b : List α) :
    ofold g (a ++ b) = omin (ofold g a) (ofold g b) := by
  induction a with
  | nil => rfl
  | cons x t ih => simp only [List.cons_append, ofold, List.foldr_cons] at ih ⊢; rw [ih, omin_assoc]

theorem ofold_flatMap {α β : Type} (g : β → Option Nat) (h : α → List β) (l : List α) :
    ofold g (l.flatMap h) = ofold (fun a => ofold g (h a)) l := by
  induction l with
  | nil => rfl
  | cons x t ih =>
    simp only [List.flatMap_cons, ofold_append, ih]
    rfl

/-! ### the accumulated desired entries -/

theorem getD_addDesired (acc : List (Nat × List (Nat × Nat))) (n : Nat) (fes : List (Nat × Nat)) (name : Nat) :
    (pget (addDesired acc n fes) name).getD [] =
      (pget acc name).getD [] ++ (if n = name then fes else []) := by
  unfold addDesired
  rw [pget_pset]
  by_cases h : name = n
  · subst h; simp
  · have : ¬ n = name := fun e => h e.symm
    simp [h, this]

theorem getD_names_fold (fes : List (Nat × Nat)) (names : List Nat) (name : Nat) :
    ∀ acc : List (Nat × List (Nat × Nat)),
    (pget (names.foldl (fun acc p => addDesired acc p fes) acc) name).getD [] =
      (pget acc name).getD [] ++ names.flatMap (fun n => if n = name then fes else []) := by
  induction names with
  | nil => intro acc; simp
  | cons n t ih =>
    intro acc
    simp only [List.foldl_cons, ih, getD_addDesired, List.flatMap_cons, List.append_assoc]

/-- contribution of one RIB entry to the desired entries of `name` -/
def contrib (prefixOf : Nat → Nat) (t : Tables) (name : Nat) (e : Entry) : List (Nat × Nat) :=
  if e.dest = t.self then []
  else (prefixOf e.dest :: (pget t.pfx e.dest).getD []).flatMap
    (fun n => if n = name then fibEntriesOf t.nbrs e else [])

theorem getD_desired_fold (prefixOf : Nat → Nat) (t : Tables) (name : Nat) (es : List Entry) :
    ∀ acc : List (Nat × List (Nat × Nat)),
    (pget (es.foldl (fun acc e =>
        if e.dest = t.self then acc
        else
          let fes := fibEntriesOf t.nbrs e
          let acc := addDesired acc (prefixOf e.dest) fes
          ((pget t.pfx e.dest).getD []).foldl (fun acc p => addDesired acc p fes) acc) acc) name).getD [] =
      (pget acc name).getD [] ++ es.flatMap (contrib prefixOf t name) := by
  induction es with
  | nil => intro acc; simp
  | cons e r ih =>
    intro acc
    simp only [List.foldl_cons, List.flatMap_cons]
    rw [ih]
    by_cases hs : e.dest = t.self
    · simp [hs, contrib]
    · simp only [hs, if_false, contrib]
      rw [getD_names_fold, getD_addDesired]
      simp only [List.flatMap_cons, List.append_assoc]

theorem desCost_desired (prefixOf : Nat → Nat) (t : Tables) (name face : Nat) :
    desCost (desired prefixOf t) name face = minFin (t.rib.reachable.flatMap (contrib prefixOf t name)) face := by
  have h := getD_desired_fold prefixOf t name t.rib.reachable []
  simp only [pget, Option.getD_none, List.nil_append] at h
  unfold desCost
  have hd : desired prefixOf t = t.rib.reachable.foldl (fun acc e =>
        if e.dest = t.self then acc
        else
          let fes := fibEntriesOf t.nbrs e
          let acc := addDesired acc (prefixOf e.dest) fes
          ((pget t.pfx e.dest).getD []).foldl (fun acc p => addDesired acc p fes) acc) [] := rfl
  rw [hd]
  cases hp : pget (t.rib.reachable.foldl _ []) name with
  | none =>
    rw [hp] at h
    simp only [Option.getD_none] at h
    rw [← h]; rfl
  | some L =>
    rw [hp] at h
    simp only [Option.getD_some] at h
    rw [← h]

/-! ### keys of the desired entries are distinct -/

theorem keys_pset {α : Type} (m : List (Nat × α)) (k : Nat) (v : α) (nd : (m.map (·.1)).Nodup) :
    ((pset m k v).map (·.1)).Nodup := by
  induction m with
  | nil => simp [pset]
  | cons x t ih =>
    obtain ⟨xk, xv⟩ := x
    simp only [List.map_cons, List.nodup_cons] at nd
    simp only [pset]
    by_cases hx : xk = k
    · subst hx; simp only [if_true, List.map_cons, List.nodup_cons]; exact nd
    · simp only [hx, if_false, List.map_cons, List.nodup_cons]
      refine ⟨?_, ih nd.2⟩
      intro hm
      obtain ⟨v', hv'⟩ := pget_some_of_mem hm
      rw [pget_pset] at hv'
      have : ¬ xk = k := hx
      simp only [this, if_false] at hv'
      exact nd.1 (mem_keys_of_pget hv')

theorem desired_nodup (prefixOf : Nat → Nat) (t : Tables) : ((desired prefixOf t).map (·.1)).Nodup := by
  unfold desired
  have hnames : ∀ (fes : List (Nat × Nat)) (names : List Nat) (acc : List (Nat × List (Nat × Nat))),
      (acc.map (·.1)).Nodup → ((names.foldl (fun acc p => addDesired acc p fes) acc).map (·.1)).Nodup := by
    intro fes names
    induction names with
    | nil => intro acc h; exact h
    | cons n r ih => intro acc h; exact ih _ (keys_pset _ _ _ h)
  have : ∀ (es : List Entry) (acc : List (Nat × List (Nat × Nat))), (acc.map (·.1)).Nodup →
      ((es.foldl (fun acc e =>
        if e.dest = t.self then acc
        else
          let fes := fibEntriesOf t.nbrs e
          let acc := addDesired acc (prefixOf e.dest) fes
          ((pget t.pfx e.dest).getD []).foldl (fun acc p => addDesired acc p fes) acc) acc).map (·.1)).Nodup := by
    intro es
    induction es with
    | nil => intro acc h; exact h
    | cons e r ih =>
      intro acc h
      simp only [List.foldl_cons]
      apply ih
      by_cases hs : e.dest = t.self
      · simp only [hs, if_true]; exact h
      · simp only [hs, if_false]
        exact hnames _ _ _ (keys_pset _ _ _ h)
  exact this _ [] (by simp)

/-! ### the prescription of the specification -/

/-- the routing table as the specification sees it -/
def obsOf (t : Tables) : List Spec.RibObs :=
  t.rib.reachable.map fun e => { dest := e.dest, nh1 := e.best.nh1, c1 := e.best.low1, nh2 := e.best.nh2, c2 := e.best.low2 }

def faceOfS (t : Tables) (nh : Nat) : Option Nat := (pget t.nbrs nh).map (·.face)

def announcedS (t : Tables) (d : Nat) : List Nat := (pget t.pfx d).getD []

/-- the triples the specification prescribes for the tables `t` -/
def prescription (prefixOf : Nat → Nat) (t : Tables) : List (Nat × Nat × Nat) :=
  Spec.candidates t.self prefixOf (faceOfS t) (announcedS t) (obsOf t)

/-- every next hop the installer uses has a neighbour state (invariant of the router: a neighbour is
    removed from the neighbour table and from the RIB in the same critical section) -/
def NbrOk (t : Tables) : Prop :=
  ∀ e ∈ t.rib.reachable, e.dest ≠ t.self →
    (pget t.nbrs e.best.nh1).isSome ∧ (e.best.low2 < inf → (pget t.nbrs e.best.nh2).isSome)

/-- hops the specification lists for one observed entry -/
def hopsS (t : Tables) (e : Entry) : List (Nat × Nat) :=
  (match faceOfS t e.best.nh1 with | some f => [(f, e.best.low1)] | none => []) ++
  (if e.best.low2 < Spec.infinity then (match faceOfS t e.best.nh2 with | some f => [(f, e.best.low2)] | none => []) else [])

theorem candidates_single_self (prefixOf : Nat → Nat) (t : Tables) (e : Entry) (hs : e.dest = t.self) :
    Spec.candidates t.self prefixOf (faceOfS t) (announcedS t)
      [{ dest := e.dest, nh1 := e.best.nh1, c1 := e.best.low1, nh2 := e.best.nh2, c2 := e.best.low2 }] = [] := by
  simp [Spec.candidates, hs]

theorem candidates_single_other (prefixOf : Nat → Nat) (t : Tables) (e : Entry) (hs : ¬ e.dest = t.self)
    (hl : e.best.low1 < Spec.infinity) :
    Spec.candidates t.self prefixOf (faceOfS t) (announcedS t)
      [{ dest := e.dest, nh1 := e.best.nh1, c1 := e.best.low1, nh2 := e.best.nh2, c2 := e.best.low2 }] =
    (prefixOf e.dest :: announcedS t e.dest).flatMap fun n => (hopsS t e).map fun (f, c) => (n, f, c) := by
  have : ¬ Spec.infinity ≤ e.best.low1 := by omega
  simp [Spec.candidates, hopsS, hs, this]
  rfl

theorem inf18 : C18.inf = inf := rfl

theorem contrib_eq_spec (prefixOf : Nat → Nat) (t : Tables) (name face : Nat) (e : Entry)
    (he : e ∈ t.rib.reachable) (hn : e.dest ≠ t.self →
      (pget t.nbrs e.best.nh1).isSome ∧ (e.best.low2 < inf → (pget t.nbrs e.best.nh2).isSome)) :
    minFin (contrib prefixOf t name e) face =
      ofold (pcOne name face)
        (Spec.candidates t.self prefixOf (faceOfS t) (announcedS t)
          [{ dest := e.dest, nh1 := e.best.nh1, c1 := e.best.low1, nh2 := e.best.nh2, c2 := e.best.low2 }]) := by
  have hl1 : e.best.low1 < inf := by
    have := (List.mem_filter.1 he).2
    rw [← inf18]; simpa using this
  have h16 : Spec.infinity = inf := rfl
  unfold contrib
  by_cases hs : e.dest = t.self
  · rw [candidates_single_self prefixOf t e hs]
    simp [hs, minFin, ofold]
  · obtain ⟨h1, h2⟩ := hn hs
    rw [candidates_single_other prefixOf t e hs (by rw [h16]; exact hl1)]
    simp only [hs, if_false]
    rw [minFin_flatMap, ofold_flatMap]
    unfold announcedS
    apply ofold_congr
    intro n _
    -- one name, the two hops
    obtain ⟨nb1, hnb1⟩ := Option.isSome_iff_exists.1 h1
    simp only [hopsS, fibEntriesOf, faceOf, faceOfS, hnb1, Option.map_some, h16]
    by_cases hl2 : e.best.low2 < inf
    · obtain ⟨nb2, hnb2⟩ := Option.isSome_iff_exists.1 (h2 hl2)
      simp only [hl2, if_true, hnb2, Option.map_some, List.singleton_append, List.map_cons, List.map_nil]
      by_cases hnn : n = name
      · subst hnn
        simp only [if_true, minFin_cons, minFin, ofold, List.foldr_cons, List.foldr_nil, pcOne, true_and, hl1, hl2,
          and_true, omin_none_right]
      · simp [hnn, minFin, ofold, pcOne, omin]
    · simp only [hl2, if_false, List.append_nil, List.map_cons, List.map_nil]
      by_cases hnn : n = name
      · subst hnn
        simp only [if_true, minFin_cons, minFin, ofold, List.foldr_cons, List.foldr_nil, pcOne, true_and, hl1, hl2,
          and_true, and_false, if_false, omin_none_right]
      · simp [hnn, minFin, ofold, pcOne, omin]

/-- the collection phase of fibUpdate = the specification's prescription -/
theorem desCost_eq_prescribed (prefixOf : Nat → Nat) (t : Tables) (ok : NbrOk t) (name face : Nat) :
    desCost (desired prefixOf t) name face = Spec.prescribedCost (prescription prefixOf t) name face := by
  rw [desCost_desired, prescribedCost_eq, minFin_flatMap]
  unfold prescription obsOf
  have hc : ∀ (l : List Spec.RibObs),
      Spec.candidates t.self prefixOf (faceOfS t) (announcedS t) l =
        l.flatMap (fun o => Spec.candidates t.self prefixOf (faceOfS t) (announcedS t) [o]) := by
    intro l
    unfold Spec.candidates
    simp
  rw [hc, List.flatMap_map, ofold_flatMap]
  apply ofold_congr
  intro e he
  exact contrib_eq_spec prefixOf t name face e he (ok e he)

end Ndn.C19
