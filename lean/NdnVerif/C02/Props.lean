/-
  C02 — Interests go only to FIB next hops, without loops or duplicate forwarding.
  Property theorems over the shared model `Fw` (C01/Fw.lean), for EVERY state `s` (hence every
  reachable one), every Interest, both strategies, every FIB, every oracle value (`tie` = order
  chosen by the unstable sort among equal costs, `pick` = Content Store walk order).
  Helper lemmas: C01/FwLemmas.lean, C01/FwLemmas2.lean.
-/
import NdnVerif.C02.Model
import NdnVerif.C01.FwLemmas
import NdnVerif.C01.FwLemmas2
import NdnVerif.C01.FwLemmas3
namespace Ndn.Fw.C02
open Ndn Ndn.Fw Ndn.Fw.Spec

/-- the sends of an Interest arrival that are Interests -/
def fwd (s : St) (f : FaceId) (i : Interest) (tie : List FaceId) (pick : Nat) : List Send :=
  (step s (.interest f i tie pick)).2.filter (!·.isData)

theorem mem_fwd {s f i tie pick snd} (h : snd ∈ fwd s f i tie pick) :
    ∃ hop tok, hopStep i.hop = some hop ∧ IsFwd s.faces f i hop tok (nextHopCands s i) snd := by
  unfold fwd at h
  simp only [step, List.mem_filter] at h
  rcases onInterest_out s f i tie pick with h0 | ⟨ce, h1, _⟩ | ⟨hop, tok, hh, hfw⟩
  · rw [h0] at h; simp at h
  · obtain ⟨hmem, hnd⟩ := h
    rw [h1] at hmem
    simp at hmem
    subst hmem
    simp [Send.isData] at hnd
  · exact ⟨hop, tok, hh, hfw snd h.1⟩

/-- An Interest is sent upstream only on a face that is a next hop of the longest-prefix FIB entry for
    its name — or for its first forwarding hint when no hint lies in the producer region — or on the
    consumer-chosen next hop (NextHopFaceId). -/
theorem interest_sends_in_fib (s : St) (f : FaceId) (i : Interest) (tie : List FaceId) (pick : Nat) (snd : Send)
    (h : snd ∈ fwd s f i tie pick) :
    (i.nextHop = none ∧ snd.face ∈ (lpmNextHops s.fib (lookupName s.regions i)).map (·.1)) ∨
    i.nextHop = some snd.face := by
  obtain ⟨hop, tok, _, g, rfl, _, hc⟩ := mem_fwd h
  unfold nextHopCands at hc
  cases hn : i.nextHop with
  | none => left; simp only [hn] at hc; exact ⟨rfl, hc⟩
  | some g' => right; simp only [hn, List.mem_singleton] at hc; simp [Send.face, hc]

/-- forwarding hint / producer region rule: the name looked up in the FIB is the Interest name when
    there is no hint or some hint has a producer-region name as a prefix, else the FIRST hint. -/
theorem lookup_name_rule (regions : List Name) (i : Interest) :
    lookupName regions i =
      if (i.hints.any fun h => regions.any fun r => r.isPrefixOf h) = true then i.name
      else i.hints.head?.getD i.name := by
  unfold lookupName fhName
  split <;> simp

/-- never back out of the point-to-point (or multi-access) face it arrived on -/
theorem no_uturn_p2p (s : St) (f : FaceId) (i : Interest) (tie : List FaceId) (pick : Nat) (snd : Send)
    (h : snd ∈ fwd s f i tie pick) (hface : snd.face = f) :
    ∃ fc, faceOf s.faces f = some fc ∧ fc.link = .adhoc := by
  obtain ⟨hop, tok, _, g, rfl, hu, _⟩ := mem_fwd h
  obtain ⟨fc, hfc, hut, _, _⟩ := usableOut_spec hu
  simp only [Send.face] at hface
  subst hface
  refine ⟨fc, hfc, ?_⟩
  cases hl : fc.link with
  | adhoc => rfl
  | p2p => exact absurd ⟨rfl, by simp [hl]⟩ hut
  | multi => exact absurd ⟨rfl, by simp [hl]⟩ hut

/-- every forwarded copy carries the unchanged name and the hop limit reduced by one (absent stays
    absent), and is never sent to a non-local face once the hop limit has reached zero -/
theorem forwarded_hop_minus_one (s : St) (f : FaceId) (i : Interest) (tie : List FaceId) (pick : Nat) (snd : Send)
    (h : snd ∈ fwd s f i tie pick) :
    ∃ g tok hop, snd = .interest g i.name hop (.mine tok) ∧
      (i.hop = none ∧ hop = none ∨ ∃ k, i.hop = some (k + 1) ∧ hop = some k) ∧
      (hop = some 0 → nonLocal s.faces g = false) := by
  obtain ⟨hop, tok, hh, g, rfl, hu, _⟩ := mem_fwd h
  refine ⟨g, tok, hop, rfl, ?_, ?_⟩
  · cases hi : i.hop with
    | none => simp [hi, hopStep] at hh; left; exact ⟨rfl, hh.symm⟩
    | some k =>
      cases k with
      | zero => simp [hi, hopStep] at hh
      | succ k => simp [hi, hopStep] at hh; right; exact ⟨k, rfl, hh.symm⟩
  · intro h0
    obtain ⟨fc, hfc, _, hz, _⟩ := usableOut_spec hu
    simp only [nonLocal, hfc]
    cases hl : fc.isLocal with
    | true => rfl
    | false => exact absurd ⟨h0, hl⟩ hz

/-- an Interest arriving with hop limit zero is not forwarded (and changes nothing) -/
theorem hop0_not_forwarded (s : St) (f : FaceId) (i : Interest) (tie : List FaceId) (pick : Nat)
    (h : i.hop = some 0) : step s (.interest f i tie pick) = (s, []) := by
  simp only [step, onInterest]
  cases faceOf s.faces f with
  | none => rfl
  | some inF => simp [h, hopStep]

/-- an Interest lacking a nonce is not forwarded (and changes nothing) -/
theorem no_nonce_not_forwarded (s : St) (f : FaceId) (i : Interest) (tie : List FaceId) (pick : Nat)
    (h : i.nonce = none) : step s (.interest f i tie pick) = (s, []) := by
  simp only [step, onInterest]
  cases faceOf s.faces f with
  | none => rfl
  | some inF =>
    cases hopStep i.hop with
    | none => rfl
    | some hop => simp only [h]; split <;> rfl

/-- an Interest whose (name, nonce) is recorded as dead is not forwarded (and changes nothing) -/
theorem dead_nonce_not_forwarded (s : St) (f : FaceId) (i : Interest) (tie : List FaceId) (pick : Nat) (nonce : Nat)
    (hn : i.nonce = some nonce) (hd : dnlHas s.dnl i.name nonce = true) :
    step s (.interest f i tie pick) = (s, []) := by
  simp only [step, onInterest]
  cases faceOf s.faces f with
  | none => rfl
  | some inF =>
    cases hopStep i.hop with
    | none => rfl
    | some hop => simp only [hn, hd]; split <;> rfl

/-- an Interest repeating the nonce of one still pending from ANOTHER face (same PIT entry: same name,
    CanBePrefix, MustBeFresh, forwarding hint) is not forwarded, is not answered from the cache, and
    leaves the PIT as it was -/
theorem dup_nonce_not_forwarded (s : St) (f : FaceId) (i : Interest) (tie : List FaceId) (pick : Nat) (nonce : Nat)
    (e : Entry) (r : InRec)
    (hn : i.nonce = some nonce)
    (he : s.pit.find? (·.hasKey i.name i.cbp i.mbf (fhName s.regions i.hints)) = some e)
    (hr : r ∈ e.inRecs) (hface : r.face ≠ f) (hnonce : r.nonce = nonce) :
    step s (.interest f i tie pick) = (s, []) := by
  simp only [step, onInterest]
  cases faceOf s.faces f with
  | none => rfl
  | some inF =>
    cases hopStep i.hop with
    | none => rfl
    | some hop =>
      simp only [hn]
      split
      · rfl
      · split
        · rfl
        · have hdup : (e.inRecs.any fun r => r.face != f && r.nonce == nonce) = true := by
            simp only [List.any_eq_true, Bool.and_eq_true, bne_iff_ne, beq_iff_eq]
            exact ⟨r, hr, hface, hnonce⟩
          simp [insertInterest, he, hdup]

example :
    let e : Entry := ⟨[⟨8, [97]⟩], false, false, none, 0, [⟨2, 7, 1000, []⟩], [], false, some 1000⟩
    let s : St := { faces := [⟨1, true, .p2p⟩, ⟨2, true, .p2p⟩, ⟨3, true, .p2p⟩], fib := [([], [(3, 1)])], pit := [e], nextTok := 1 }
    step s (.interest 1 { name := [⟨8, [97]⟩], nonce := some 7 } [] 0) = (s, []) := by decide

/-! ### theorems about reachable states (`WF`, see `C01.wf_reachable`) -/

theorem fwd_eq_of_forward {s f i tie pick} {s' : St} {tok nonce : Nat} {hop : Option Nat}
    (h : onInterest s f i tie pick = forwardInterest s' tok i nonce hop f tie) :
    fwd s f i tie pick = (forwardInterest s' tok i nonce hop f tie).2.filter (!·.isData) := by
  unfold fwd; simp only [step]; rw [h]

theorem filter_fwdSends {i : Interest} {hop : Option Nat} {tok : Nat} (l : List (FaceId × Nat)) :
    (l.map fun nh => fwdSend i hop tok nh.1).filter (!·.isData) = l.map fun nh => fwdSend i hop tok nh.1 := by
  rw [List.filter_eq_self]
  intro a ha
  rw [List.mem_map] at ha
  obtain ⟨x, _, rfl⟩ := ha
  rfl

/-- A different-nonce retransmission inside the suppression interval is aggregated, not forwarded:
    if the PIT entry of the Interest holds an out-record with another nonce sent less than the
    suppression interval ago, no Interest leaves (the in-record is still added / refreshed). -/
theorem retx_suppressed_within_interval (s : St) (hwf : WF s) (f : FaceId) (i : Interest) (tie : List FaceId) (pick : Nat)
    (nonce : Nat) (e : Entry) (r : OutRec)
    (hn : i.nonce = some nonce) (hnh : i.nextHop = none)
    (he : preEntry s i = some e) (hr : r ∈ e.outRecs) (hdiff : r.nonce ≠ nonce)
    (hint : s.now < r.sentAt + suppressionInterval) :
    fwd s f i tie pick = [] := by
  rcases onInterest_forms s hwf f i tie pick with h | ⟨ce, cs', _, _, h⟩ | ⟨inF, hop, nonce', s', tok, e', hacc, hst, heq⟩
  · unfold fwd; simp only [step]; rw [h]; rfl
  · unfold fwd; simp only [step]; rw [h]
    rw [List.filter_eq_nil_iff]
    intro a ha
    simp [dataSends_isData a ha]
  · have hnn : nonce' = nonce := by have := hacc.hnonce; rw [hn] at this; cases this; rfl
    subst hnn
    rw [fwd_eq_of_forward heq, forwardInterest_eq s' tok i nonce' hop f tie e' hst.entry hnh]
    have hsup : suppressed s'.now e' nonce' = true := by
      unfold suppressed
      rw [hst.outs, he, hst.now]
      simp only [Option.map_some, Option.getD_some, List.any_eq_true, Bool.and_eq_true, bne_iff_ne, decide_eq_true_eq]
      exact ⟨r, hr, hdiff, hint⟩
    simp [hsup]

example :
    let e : Entry := ⟨[⟨8, [97]⟩], false, false, none, 0, [⟨1, 7, 4000, []⟩], [⟨3, 7, 0, 4000, [⟨8, [97]⟩]⟩], false, some 4000⟩
    let s : St := { now := 100, faces := [⟨1, true, .p2p⟩, ⟨3, true, .p2p⟩], fib := [([], [(3, 1)])], pit := [e], nextTok := 1 }
    (step s (.interest 1 { name := [⟨8, [97]⟩], nonce := some 8 } [] 0)).2 = [] := by decide

/-- The first Interest for content not in the cache that has a usable next hop is forwarded, with its
    hop limit reduced by one: no PIT entry for it yet, nonce present and not dead, hop limit not zero,
    arrival scope respected, Content Store miss, and some next hop of the longest-prefix FIB entry
    passes the outgoing pipeline ⇒ at least one copy leaves, every send is such a copy carrying the new
    entry's token. Both strategies, every tie order. -/
theorem first_interest_forwarded_hop_minus_one (s : St) (hwf : WF s) (f : FaceId) (i : Interest) (tie : List FaceId)
    (pick : Nat) (inF : Face) (hop : Option Nat) (nonce : Nat) (g : FaceId) (c : Nat)
    (hF : faceOf s.faces f = some inF) (hsc : (!inF.isLocal && isLocalhost i.name) = false)
    (hhop : hopStep i.hop = some hop) (hn : i.nonce = some nonce) (hdead : dnlHas s.dnl i.name nonce = false)
    (hfirst : preEntry s i = none) (hcs : s.csServe = false ∨ csFind s.now s.cs i pick = none)
    (hnh : i.nextHop = none)
    (hg : (g, c) ∈ lpmNextHops s.fib (lookupName s.regions i)) (hu : usableOut s.faces f i.name hop g = true) :
    (step s (.interest f i tie pick)).2 ≠ [] ∧
    ∀ snd ∈ (step s (.interest f i tie pick)).2, ∃ g', snd = .interest g' i.name hop (.mine s.nextTok) := by
  have hdup : ∀ e, preEntry s i = some e → (e.inRecs.any fun r => r.face != f && r.nonce == nonce) = false := by
    intro e he; rw [hfirst] at he; cases he
  rcases onInterest_stage s hwf f i tie pick inF hop nonce hF hhop hsc hn hdead hdup with
    ⟨ce, cs', hsv, hfind, _⟩ | ⟨s', tok, e', hst, heq⟩
  · rcases hcs with h | h
    · rw [h] at hsv; cases hsv
    · rw [h] at hfind; cases hfind
  · obtain ⟨htok, hin⟩ := hst.fresh hfirst
    subst htok
    simp only [step]
    rw [heq, forwardInterest_eq s' s.nextTok i nonce hop f tie e' hst.entry hnh]
    have hsup : suppressed s'.now e' nonce = false := by
      unfold suppressed; rw [hst.outs, hfirst]; rfl
    have hall : (g, c) ∈ allowedNhs s' i e' f := by
      apply mem_allowed_of_not_held hst hg
      rintro ⟨_, e, he, _⟩
      rw [hfirst] at he; cases he
    simp only [hsup, Bool.false_eq_true, if_false, hst.faces]
    cases lpmStrat s'.strat i.name with
    | best =>
      simp only []
      cases hfnd : (sortNh tie (allowedNhs s' i e' f)).find? (fun nh => usableOut s.faces f i.name hop nh.1) with
      | none =>
        exfalso
        have := List.find?_eq_none.mp hfnd (g, c) (mem_sortNh.mpr hall)
        simp [hu] at this
      | some nh =>
        simp only []
        exact ⟨by simp, by intro snd h; simp at h; exact ⟨nh.1, h⟩⟩
    | multi =>
      simp only []
      constructor
      · intro hnil
        have : fwdSend i hop s.nextTok g ∈ ((allowedNhs s' i e' f).filter fun nh => usableOut s.faces f i.name hop nh.1).map
            fun nh => fwdSend i hop s.nextTok nh.1 := by
          rw [List.mem_map]
          exact ⟨(g, c), List.mem_filter.mpr ⟨hall, hu⟩, rfl⟩
        rw [hnil] at this
        simp at this
      · intro snd h
        rw [List.mem_map] at h
        obtain ⟨nh, _, rfl⟩ := h
        exact ⟨nh.1, rfl⟩

example :
    let s : St := { faces := [⟨1, true, .p2p⟩, ⟨2, false, .p2p⟩], fib := [([], [(2, 1)])] }
    (step s (.interest 1 { name := [⟨8, [97]⟩], nonce := some 5, hop := some 4 } [] 0)).2 =
      [.interest 2 [⟨8, [97]⟩] (some 3) (.mine 0)] := by decide

/-- best-route uses the lowest-cost usable next hop: exactly one copy is sent, and its cost is minimal
    among the next hops of the longest-prefix FIB entry that pass the outgoing pipeline and are not
    held back (a face other than the arrival face that already has an in-record in the entry) —
    for EVERY order `tie` in which the unstable sort may leave equal costs. -/
theorem bestroute_min_cost (s : St) (hwf : WF s) (f : FaceId) (i : Interest) (tie : List FaceId) (pick : Nat)
    (hstrat : lpmStrat s.strat i.name = .best) (hnh : i.nextHop = none)
    (snd : Send) (h : snd ∈ fwd s f i tie pick) :
    fwd s f i tie pick = [snd] ∧
    ∃ hop c, hopStep i.hop = some hop ∧ (snd.face, c) ∈ lpmNextHops s.fib (lookupName s.regions i) ∧
      ∀ g' c', (g', c') ∈ lpmNextHops s.fib (lookupName s.regions i) →
        usableOut s.faces f i.name hop g' = true → ¬heldBy s i f g' → c ≤ c' := by
  rcases onInterest_forms s hwf f i tie pick with h0 | ⟨ce, cs', _, _, h0⟩ | ⟨inF, hop, nonce, s', tok, e', hacc, hst, heq⟩
  · unfold fwd at h; simp only [step] at h; rw [h0] at h; simp at h
  · unfold fwd at h; simp only [step] at h; rw [h0] at h
    have := List.mem_filter.mp h
    simp [dataSends_isData snd this.1] at this
  · rw [fwd_eq_of_forward heq, forwardInterest_eq s' tok i nonce hop f tie e' hst.entry hnh] at h ⊢
    rw [hst.strat, hstrat] at h ⊢
    simp only [hst.faces] at h ⊢
    by_cases hsup : suppressed s'.now e' nonce = true
    · simp [hsup] at h
    · simp only [hsup, Bool.false_eq_true, if_false] at h ⊢
      cases hfnd : (sortNh tie (allowedNhs s' i e' f)).find? (fun nh => usableOut s.faces f i.name hop nh.1) with
      | none => simp [hfnd] at h
      | some nh =>
        simp only [hfnd] at h ⊢
        have hs : snd = fwdSend i hop tok nh.1 := by
          simpa [fwdSend, Send.isData] using h
        subst hs
        refine ⟨by simp [fwdSend, Send.isData], hop, nh.2, hacc.hhop, ?_, ?_⟩
        · exact mem_nhs_of_allowed hst (mem_sortNh.mp (List.mem_of_find?_eq_some hfnd))
        · intro g' c' hg' hu' hfree
          have hmem : (g', c') ∈ sortNh tie (allowedNhs s' i e' f) :=
            mem_sortNh.mpr (mem_allowed_of_not_held hst hg' hfree)
          exact find_first_le (sorted_sortNh tie _) hfnd hmem hu'

example :
    let s : St := { faces := [⟨1, true, .p2p⟩, ⟨2, false, .p2p⟩, ⟨3, false, .p2p⟩, ⟨4, false, .p2p⟩],
                    fib := [([], [(2, 5), (1, 0), (3, 1), (4, 1)])] }
    (step s (.interest 1 { name := [⟨8, [97]⟩], nonce := some 5 } [] 0)).2 = [.interest 3 [⟨8, [97]⟩] none (.mine 0)] ∧
    (step s (.interest 1 { name := [⟨8, [97]⟩], nonce := some 5 } [4] 0)).2 = [.interest 4 [⟨8, [97]⟩] none (.mine 0)] := by decide

/-- multicast uses all of them: when multicast forwards at all, every next hop of the longest-prefix FIB
    entry that passes the outgoing pipeline and is not held back receives a copy. -/
theorem multicast_all (s : St) (hwf : WF s) (f : FaceId) (i : Interest) (tie : List FaceId) (pick : Nat)
    (hstrat : lpmStrat s.strat i.name = .multi) (hnh : i.nextHop = none)
    (snd : Send) (h : snd ∈ fwd s f i tie pick) :
    ∃ hop tok, hopStep i.hop = some hop ∧
      ∀ g' c', (g', c') ∈ lpmNextHops s.fib (lookupName s.regions i) →
        usableOut s.faces f i.name hop g' = true → ¬heldBy s i f g' →
        Send.interest g' i.name hop (.mine tok) ∈ fwd s f i tie pick := by
  rcases onInterest_forms s hwf f i tie pick with h0 | ⟨ce, cs', _, _, h0⟩ | ⟨inF, hop, nonce, s', tok, e', hacc, hst, heq⟩
  · unfold fwd at h; simp only [step] at h; rw [h0] at h; simp at h
  · unfold fwd at h; simp only [step] at h; rw [h0] at h
    have := List.mem_filter.mp h
    simp [dataSends_isData snd this.1] at this
  · refine ⟨hop, tok, hacc.hhop, ?_⟩
    rw [fwd_eq_of_forward heq, forwardInterest_eq s' tok i nonce hop f tie e' hst.entry hnh] at h ⊢
    rw [hst.strat, hstrat] at h ⊢
    simp only [hst.faces] at h ⊢
    by_cases hsup : suppressed s'.now e' nonce = true
    · simp [hsup] at h
    · simp only [hsup, Bool.false_eq_true, if_false] at h ⊢
      intro g' c' hg' hu' hfree
      rw [filter_fwdSends, List.mem_map]
      exact ⟨(g', c'), List.mem_filter.mpr ⟨mem_allowed_of_not_held hst hg' hfree, hu'⟩, rfl⟩

example :
    let s : St := { faces := [⟨1, true, .p2p⟩, ⟨2, false, .p2p⟩, ⟨3, false, .p2p⟩, ⟨4, true, .adhoc⟩],
                    fib := [([], [(2, 5), (1, 0), (3, 1), (9, 1), (4, 7)])], strat := [([], .multi)] }
    (step s (.interest 1 { name := [⟨8, [97]⟩], nonce := some 5 } [] 0)).2 =
      [.interest 2 [⟨8, [97]⟩] none (.mine 0), .interest 3 [⟨8, [97]⟩] none (.mine 0), .interest 4 [⟨8, [97]⟩] none (.mine 0)] := by decide

end Ndn.Fw.C02
