/-
  C02 — Interests go only to FIB next hops, without loops or duplicate forwarding.
  Property theorems over the shared model `Fw` (C01/Fw.lean), for EVERY state `s` (hence every
  reachable one), every Interest, both strategies, every FIB, every oracle value (`tie` = order
  chosen by the unstable sort among equal costs, `pick` = Content Store walk order).
  Helper lemmas: C01/FwLemmas.lean, C01/FwLemmas2.lean.
-/
import NdnVerif.C02.Model
import NdnVerif.C01.FwLemmas
import NdnVerif.C01.FwLemmas2
namespace Ndn.Fw.C02
open Ndn Ndn.Fw Ndn.Fw.Spec

/-- the sends of an Interest arrival that are Interests -/
def fwd (s : St) (f : FaceId) (i : Interest) (tie : List FaceId) (pick : Nat) : List Send :=
  (step s (.interest f i tie pick)).2.filter (!·.isData)

theorem mem_fwd {s f i tie pick snd} (h : snd ∈ fwd s f i tie pick) :
    ∃ hop tok, hopStep i.hop = some hop ∧ IsFwd s.faces f i hop tok (nextHopCands s i) snd := by
  unfold fwd at h
  simp only [step, List.mem_filter] at h
  rcases onInterest_out s f i tie pick with h0 | ⟨ce, h1, _⟩ | ⟨hop, tok, hh, hfw⟩
  · rw [h0] at h; simp at h
  · obtain ⟨hmem, hnd⟩ := h
    rw [h1] at hmem
    simp at hmem
    subst hmem
    simp [Send.isData] at hnd
  · exact ⟨hop, tok, hh, hfw snd h.1⟩

/-- An Interest is sent upstream only on a face that is a next hop of the longest-prefix FIB entry for
    its name — or for its first forwarding hint when no hint lies in the producer region — or on the
    consumer-chosen next hop (NextHopFaceId). -/
theorem interest_sends_in_fib (s : St) (f : FaceId) (i : Interest) (tie : List FaceId) (pick : Nat) (snd : Send)
    (h : snd ∈ fwd s f i tie pick) :
    (i.nextHop = none ∧ snd.face ∈ (lpmNextHops s.fib (lookupName s.regions i)).map (·.1)) ∨
    i.nextHop = some snd.face := by
  obtain ⟨hop, tok, _, g, rfl, _, hc⟩ := mem_fwd h
  unfold nextHopCands at hc
  cases hn : i.nextHop with
  | none => left; simp only [hn] at hc; exact ⟨rfl, hc⟩
  | some g' => right; simp only [hn, List.mem_singleton] at hc; simp [Send.face, hc]

/-- forwarding hint / producer region rule: the name looked up in the FIB is the Interest name when
    there is no hint or some hint has a producer-region name as a prefix, else the FIRST hint. -/
theorem lookup_name_rule (regions : List Name) (i : Interest) :
    lookupName regions i =
      if (i.hints.any fun h => regions.any fun r => r.isPrefixOf h) = true then i.name
      else i.hints.head?.getD i.name := by
  unfold lookupName fhName
  split <;> simp

/-- never back out of the point-to-point (or multi-access) face it arrived on -/
theorem no_uturn_p2p (s : St) (f : FaceId) (i : Interest) (tie : List FaceId) (pick : Nat) (snd : Send)
    (h : snd ∈ fwd s f i tie pick) (hface : snd.face = f) :
    ∃ fc, faceOf s.faces f = some fc ∧ fc.link = .adhoc := by
  obtain ⟨hop, tok, _, g, rfl, hu, _⟩ := mem_fwd h
  obtain ⟨fc, hfc, hut, _, _⟩ := usableOut_spec hu
  simp only [Send.face] at hface
  subst hface
  refine ⟨fc, hfc, ?_⟩
  cases hl : fc.link with
  | adhoc => rfl
  | p2p => exact absurd ⟨rfl, by simp [hl]⟩ hut
  | multi => exact absurd ⟨rfl, by simp [hl]⟩ hut

/-- every forwarded copy carries the unchanged name and the hop limit reduced by one (absent stays
    absent), and is never sent to a non-local face once the hop limit has reached zero -/
theorem forwarded_hop_minus_one (s : St) (f : FaceId) (i : Interest) (tie : List FaceId) (pick : Nat) (snd : Send)
    (h : snd ∈ fwd s f i tie pick) :
    ∃ g tok hop, snd = .interest g i.name hop (.mine tok) ∧
      (i.hop = none ∧ hop = none ∨ ∃ k, i.hop = some (k + 1) ∧ hop = some k) ∧
      (hop = some 0 → nonLocal s.faces g = false) := by
  obtain ⟨hop, tok, hh, g, rfl, hu, _⟩ := mem_fwd h
  refine ⟨g, tok, hop, rfl, ?_, ?_⟩
  · cases hi : i.hop with
    | none => simp [hi, hopStep] at hh; left; exact ⟨rfl, hh.symm⟩
    | some k =>
      cases k with
      | zero => simp [hi, hopStep] at hh
      | succ k => simp [hi, hopStep] at hh; right; exact ⟨k, rfl, hh.symm⟩
  · intro h0
    obtain ⟨fc, hfc, _, hz, _⟩ := usableOut_spec hu
    simp only [nonLocal, hfc]
    cases hl : fc.isLocal with
    | true => rfl
    | false => exact absurd ⟨h0, hl⟩ hz

/-- an Interest arriving with hop limit zero is not forwarded (and changes nothing) -/
theorem hop0_not_forwarded (s : St) (f : FaceId) (i : Interest) (tie : List FaceId) (pick : Nat)
    (h : i.hop = some 0) : step s (.interest f i tie pick) = (s, []) := by
  simp only [step, onInterest]
  cases faceOf s.faces f with
  | none => rfl
  | some inF => simp [h, hopStep]

/-- an Interest lacking a nonce is not forwarded (and changes nothing) -/
theorem no_nonce_not_forwarded (s : St) (f : FaceId) (i : Interest) (tie : List FaceId) (pick : Nat)
    (h : i.nonce = none) : step s (.interest f i tie pick) = (s, []) := by
  simp only [step, onInterest]
  cases faceOf s.faces f with
  | none => rfl
  | some inF =>
    cases hopStep i.hop with
    | none => rfl
    | some hop => simp only [h]; split <;> rfl

/-- an Interest whose (name, nonce) is recorded as dead is not forwarded (and changes nothing) -/
theorem dead_nonce_not_forwarded (s : St) (f : FaceId) (i : Interest) (tie : List FaceId) (pick : Nat) (nonce : Nat)
    (hn : i.nonce = some nonce) (hd : dnlHas s.dnl i.name nonce = true) :
    step s (.interest f i tie pick) = (s, []) := by
  simp only [step, onInterest]
  cases faceOf s.faces f with
  | none => rfl
  | some inF =>
    cases hopStep i.hop with
    | none => rfl
    | some hop => simp only [hn, hd]; split <;> rfl

/-- an Interest repeating the nonce of one still pending from ANOTHER face (same PIT entry: same name,
    CanBePrefix, MustBeFresh, forwarding hint) is not forwarded, is not answered from the cache, and
    leaves the PIT as it was -/
theorem dup_nonce_not_forwarded (s : St) (f : FaceId) (i : Interest) (tie : List FaceId) (pick : Nat) (nonce : Nat)
    (e : Entry) (r : InRec)
    (hn : i.nonce = some nonce)
    (he : s.pit.find? (·.hasKey i.name i.cbp i.mbf (fhName s.regions i.hints)) = some e)
    (hr : r ∈ e.inRecs) (hface : r.face ≠ f) (hnonce : r.nonce = nonce) :
    step s (.interest f i tie pick) = (s, []) := by
  simp only [step, onInterest]
  cases faceOf s.faces f with
  | none => rfl
  | some inF =>
    cases hopStep i.hop with
    | none => rfl
    | some hop =>
      simp only [hn]
      split
      · rfl
      · split
        · rfl
        · have hdup : (e.inRecs.any fun r => r.face != f && r.nonce == nonce) = true := by
            simp only [List.any_eq_true, Bool.and_eq_true, bne_iff_ne, beq_iff_eq]
            exact ⟨r, hr, hface, hnonce⟩
          simp [insertInterest, he, hdup]

example :
    let e : Entry := ⟨[⟨8, [97]⟩], false, false, none, 0, [⟨2, 7, 1000, []⟩], [], false, some 1000⟩
    let s : St := { faces := [⟨1, true, .p2p⟩, ⟨2, true, .p2p⟩, ⟨3, true, .p2p⟩], fib := [([], [(3, 1)])], pit := [e], nextTok := 1 }
    step s (.interest 1 { name := [⟨8, [97]⟩], nonce := some 7 } [] 0) = (s, []) := by decide

end Ndn.Fw.C02
