/-
  Driver/Common.lean — the generic part of every per-property model driver.

  A driver reads trace lines  "<op> => <impl output>"  from stdin (written by the Go harness after
  running the REAL code), runs the Lean model and the executable specification in lock-step and
  prints verdict lines:

    DIFF <line> <hist> | <op> | model=<expected> | impl=<got>     model and implementation differ
    SPEC <line> <hist> | clause=<c> key=<k> | <message>            the property's spec is violated by
                                                                   the IMPLEMENTATION's output
    NT <hist>                                                      history <hist> is non-trivial
    COV <tag> <count>                                              model-branch coverage
    DONE lines=<n> histories=<h> diffs=<d> specs=<s> skipped=<k>

  After a DIFF the model and the implementation may have diverged: for the rest of that history
  the model's expected outputs are no longer compared (no further DIFF lines, counted as
  `skipped`), but every line is still stepped so that the SPEC predicates — which depend only on
  the operations and the implementation's own outputs — keep being evaluated and can turn a broken
  correspondence into a concrete failing history.  The next line whose op starts with "new" starts
  a fresh history.
-/
import Std.Data.HashMap
namespace Ndn.Driver

structure SpecFail where
  clause : String
  key : String
  msg : String

/-- Result of one model step. `expected = none` means "do not compare" (the model allows any
    output here); `spec` lists violations of the property's specification by the implementation's
    output; `cov` names the model branches taken; `nontrivial` marks the history as interesting. -/
structure StepResult (σ : Type) where
  st : σ
  expected : Option String := none
  spec : List SpecFail := []
  cov : List String := []
  nontrivial : Bool := false

def splitArrow (line : String) : String × String :=
  match line.splitOn " => " with
  | [a] => (a, "")
  | a :: rest => (a, " => ".intercalate rest)
  | [] => ("", "")

structure LoopSt (σ : Type) where
  st : σ
  line : Nat := 0
  hist : Nat := 0
  diffs : Nat := 0
  specs : Nat := 0
  skipped : Nat := 0
  skipping : Bool := false
  ntMarked : Bool := false
  cov : Std.HashMap String Nat := {}

partial def loop {σ : Type} (h : IO.FS.Stream) (out : IO.FS.Stream)
    (step : σ → String → String → StepResult σ) (s : LoopSt σ) : IO (LoopSt σ) := do
  let raw ← h.getLine
  if raw.isEmpty then return s
  let line := (raw.dropEndWhile (fun c => c == '\n' || c == '\r')).toString
  let s := { s with line := s.line + 1 }
  if line.isEmpty || line.startsWith "#" then loop h out step s
  else
    let (op, got) := splitArrow line
    let isNew := op.startsWith "new"
    let s := if isNew then { s with hist := s.hist + 1, skipping := false, ntMarked := false } else s
    do
      let r := step s.st op got
      let mut s := { s with st := r.st }
      for c in r.cov do
        s := { s with cov := s.cov.insert c (s.cov.getD c 0 + 1) }
      if r.nontrivial && !s.ntMarked then
        out.putStrLn s!"NT {s.hist}"
        s := { s with ntMarked := true }
      for f in r.spec do
        out.putStrLn s!"SPEC {s.line} {s.hist} | clause={f.clause} key={f.key} | {f.msg}"
        s := { s with specs := s.specs + 1 }
      if s.skipping then
        s := { s with skipped := s.skipped + 1 }
      else
        match r.expected with
        | some e =>
          if e != got then
            out.putStrLn s!"DIFF {s.line} {s.hist} | {op} | model={e} | impl={got}"
            s := { s with diffs := s.diffs + 1, skipping := true }
        | none => pure ()
      loop h out step s

def run {σ : Type} (init : σ) (step : σ → String → String → StepResult σ) : IO Unit := do
  let stdin ← IO.getStdin
  let stdout ← IO.getStdout
  let s ← loop stdin stdout step { st := init }
  for (k, v) in s.cov.toList do
    stdout.putStrLn s!"COV {k} {v}"
  stdout.putStrLn s!"DONE lines={s.line} histories={s.hist} diffs={s.diffs} specs={s.specs} skipped={s.skipped}"

/-- helper: the implementation crashed or panicked on this op -/
def isCrash (got : String) : Bool := got.startsWith "PANIC" || got.startsWith "CRASH"

end Ndn.Driver
