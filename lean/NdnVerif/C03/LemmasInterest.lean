/-
  C03/LemmasInterest.lean — decoding the bytes produced by the Interest encoder model returns what
  was encoded, over ANY healthy reader: Links (ForwardingHint), the ordered-model loop, one lemma per
  Interest element, `parseInterest` on the normal form of the Interest value, `readInterest`.
-/
import NdnVerif.C03.LemmasParse
namespace Ndn.C03

theorem Res.bind_assoc' {α β γ : Type} (x : Res α) (f : α → Res β) (g : β → Res γ) :
    ((x >>= f) >>= g) = (x >>= fun a => f a >>= g) := by
  cases x <;> rfl

theorem drop_eq_nil_pos {b : Bytes} {p : Nat} (hp : p ≤ b.length) (h : b.drop p = []) : p = b.length := by
  have := congrArg List.length h
  simp at this; omega

/-! ### Links (ForwardingHint value) -/

theorem linksLoop_at (R : ReaderSpecs) (E : EncSpecs) : ∀ (ns : List Name) (fuel : Nat) (r : Rd) (buf : Bytes)
    (p : Nat) (acc : List Name),
    At r buf p → buf.drop p = encLinks ns → (∀ n ∈ ns, NameValid n) → linksLen ns < 2 ^ 62 →
    buf.length - p < fuel → ∃ r', tlvLoop linksBody fuel acc r = .ok (acc ++ ns, r') := by
  intro ns
  induction ns with
  | nil =>
    intro fuel r buf p acc h hb _ _ hf
    have hp : p = buf.length := drop_eq_nil_pos h.2.2 (by simpa [encLinks] using hb)
    cases fuel with
    | zero => omega
    | succ f => exact ⟨r, by rw [tlvLoop_end R linksBody f acc r buf p h hp]; simp⟩
  | cons n ns ih =>
    intro fuel r buf p acc h hb hv hlen hf
    cases fuel with
    | zero => omega
    | succ f =>
      have hll : linksLen (n :: ns) = nameFieldLen 7 n + linksLen ns := by simp [linksLen]
      have hnl : nameLen n < 2 ^ 62 := by unfold nameFieldLen at hll; omega
      have hb1 : buf.drop p = encTL 7 ++ (encTL (nameLen n) ++ (encNameInner n ++ encLinks ns)) := by
        rw [hb]; simp [encLinks, encNameField, List.append_assoc]
      obtain ⟨r2, a2, _, d2, e2⟩ := tlvLoop_step R linksBody f acc r buf p 7 (nameLen n) _ h hb1 (by omega) hnl
      obtain ⟨r3, e3, a3, d3⟩ := readNameField_at R r2 buf _ n _ a2 d2 (E.nameLen_eq n) (hv n (by simp)) hnl
      have h7 := tlLen_pos 7
      have hl := tlLen_pos (nameLen n)
      have hle3 := a3.2.2
      obtain ⟨r4, e4⟩ := ih f r3 buf _ (acc ++ [n]) a3 d3 (fun m hm => hv m (by simp [hm])) (by omega) (by omega)
      refine ⟨r4, ?_⟩
      rw [e2]; simp [linksBody, e3, e4]

theorem parseLinks_at (R : ReaderSpecs) (E : EncSpecs) (r : Rd) (ns : List Name) :
    At r (encLinks ns) 0 → (∀ n ∈ ns, NameValid n) → linksLen ns < 2 ^ 62 → parseLinks r = .ok ns := by
  intro h hv hl
  obtain ⟨r', e⟩ := linksLoop_at R E ns (loopFuel r) r (encLinks ns) 0 [] h (by simp) hv hl
    (by simp [loopFuel, R.pos_eq r _ 0 h, R.length_eq r _ 0 h])
  simp [parseLinks, e]

/-! ### the ordered-model loop -/

/-- the absent-actions of slots `q, q+1, …, q+c-1` at element start `sp` -/
def absFold {σ : Type} (absent : Nat → σ → Nat → Rd → σ) (sp : Nat) (r : Rd) : Nat → Nat → σ → σ
  | 0, _, st => st
  | c + 1, q, st => absFold absent sp r c (q + 1) (absent q st sp r)

theorem absFold_add {σ : Type} (absent : Nat → σ → Nat → Rd → σ) (sp : Nat) (r : Rd) :
    ∀ (a b q : Nat) (st : σ), absFold absent sp r (a + b) q st = absFold absent sp r b (q + a) (absFold absent sp r a q st) := by
  intro a
  induction a with
  | zero => intro b q st; simp [absFold]
  | succ a ih =>
    intro b q st
    rw [show a + 1 + b = (a + b) + 1 by omega]
    simp only [absFold]
    rw [ih]; congr 1; omega

theorem ordFinish_eq {σ : Type} (absent : Nat → σ → Nat → Rd → σ) (r : Rd) :
    ∀ (c q : Nat) (st : σ), ordFinish absent r c q st = absFold absent r.pos r c q st := by
  intro c
  induction c with
  | zero => intro q st; rfl
  | succ c ih => intro q st; simp only [ordFinish, absFold]; rw [ih]

/-- a known element of slot `k ≥ q`: the absent-actions of slots `q..k-1`, then the handler of `k` -/
theorem ordLoop_hit {σ : Type} (n : Nat) (idx : Nat → Option Nat)
    (handle : Nat → σ → Nat → Nat → Rd → Res (σ × Rd)) (absent : Nat → σ → Nat → Rd → σ)
    (typ l sp k : Nat) (hk : idx typ = some k) (hkn : k ≤ n) :
    ∀ (d fuel q : Nat) (st : σ) (r : Rd), q + d = k → d < fuel →
      ordLoop n idx handle absent typ l sp fuel q st r
        = (handle k (absFold absent sp r d q st) l sp r >>= fun x => pure ((x.1, k + 1), x.2)) := by
  intro d
  induction d with
  | zero =>
    intro fuel q st r hq hf
    cases fuel with
    | zero => omega
    | succ f =>
      have hq' : q = k := by omega
      subst hq'
      have : ¬ q > n := by omega
      simp only [ordLoop, this, ↓reduceIte, hk, absFold]
  | succ d ih =>
    intro fuel q st r hq hf
    cases fuel with
    | zero => omega
    | succ f =>
      have h1 : ¬ q > n := by omega
      have h2 : ¬ q = k := by omega
      simp only [ordLoop, h1, ↓reduceIte, hk, h2, absFold]
      exact ih f (q + 1) _ r (by omega) (by omega)

end Ndn.C03
