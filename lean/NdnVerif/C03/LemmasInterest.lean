/-
  C03/LemmasInterest.lean — decoding the bytes produced by the Interest encoder model returns what
  was encoded, over ANY healthy reader: Links (ForwardingHint), the ordered-model loop, one lemma per
  Interest element, `parseInterest` on the normal form of the Interest value, `readInterest`.
-/
import NdnVerif.C03.LemmasParse
namespace Ndn.C03

theorem Res.bind_assoc_int {α β γ : Type} (x : Res α) (f : α → Res β) (g : β → Res γ) :
    ((x >>= f) >>= g) = (x >>= fun a => f a >>= g) := by
  cases x <;> rfl

theorem drop_eq_nil_pos_int {b : Bytes} {p : Nat} (hp : p ≤ b.length) (h : b.drop p = []) : p = b.length := by
  have := congrArg List.length h
  simp at this; omega

/-! ### Links (ForwardingHint value) -/

theorem linksLoop_at (R : ReaderSpecs) (E : EncSpecs) : ∀ (ns : List Name) (fuel : Nat) (r : Rd) (buf : Bytes)
    (p : Nat) (acc : List Name),
    At r buf p → buf.drop p = encLinks ns → (∀ n ∈ ns, NameValid n) → linksLen ns < 2 ^ 62 →
    buf.length - p < fuel → ∃ r', tlvLoop linksBody fuel acc r = .ok (acc ++ ns, r') := by
  intro ns
  induction ns with
  | nil =>
    intro fuel r buf p acc h hb _ _ hf
    have hp : p = buf.length := drop_eq_nil_pos_int h.2.2 (by simpa [encLinks] using hb)
    cases fuel with
    | zero => omega
    | succ f => exact ⟨r, by rw [tlvLoop_end R linksBody f acc r buf p h hp]; simp⟩
  | cons n ns ih =>
    intro fuel r buf p acc h hb hv hlen hf
    cases fuel with
    | zero => omega
    | succ f =>
      have hll : linksLen (n :: ns) = nameFieldLen 7 n + linksLen ns := by simp [linksLen]
      have hnl : nameLen n < 2 ^ 62 := by unfold nameFieldLen at hll; omega
      have hb1 : buf.drop p = encTL 7 ++ (encTL (nameLen n) ++ (encNameInner n ++ encLinks ns)) := by
        rw [hb]; simp [encLinks, encNameField, List.append_assoc]
      obtain ⟨r2, a2, _, d2, e2⟩ := tlvLoop_step R linksBody f acc r buf p 7 (nameLen n) _ h hb1 (by omega) hnl
      obtain ⟨r3, e3, a3, d3⟩ := readNameField_at R r2 buf _ n _ a2 d2 (E.nameLen_eq n) (hv n (by simp)) hnl
      have h7 := tlLen_pos 7
      have hl := tlLen_pos (nameLen n)
      have hle3 := a3.2.2
      obtain ⟨r4, e4⟩ := ih f r3 buf _ (acc ++ [n]) a3 d3 (fun m hm => hv m (by simp [hm])) (by omega) (by omega)
      refine ⟨r4, ?_⟩
      rw [e2]; simp [linksBody, e3, e4]

theorem parseLinks_at (R : ReaderSpecs) (E : EncSpecs) (r : Rd) (ns : List Name) :
    At r (encLinks ns) 0 → (∀ n ∈ ns, NameValid n) → linksLen ns < 2 ^ 62 → parseLinks r = .ok ns := by
  intro h hv hl
  obtain ⟨r', e⟩ := linksLoop_at R E ns (loopFuel r) r (encLinks ns) 0 [] h (by simp) hv hl
    (by simp [loopFuel, R.pos_eq r _ 0 h, R.length_eq r _ 0 h])
  simp [parseLinks, e]

/-! ### the ordered-model loop -/

/-- the absent-actions of slots `q, q+1, …, q+c-1` at element start `sp` -/
def absFold {σ : Type} (absent : Nat → σ → Nat → Rd → σ) (sp : Nat) (r : Rd) : Nat → Nat → σ → σ
  | 0, _, st => st
  | c + 1, q, st => absFold absent sp r c (q + 1) (absent q st sp r)

theorem absFold_add {σ : Type} (absent : Nat → σ → Nat → Rd → σ) (sp : Nat) (r : Rd) :
    ∀ (a b q : Nat) (st : σ), absFold absent sp r (a + b) q st = absFold absent sp r b (q + a) (absFold absent sp r a q st) := by
  intro a
  induction a with
  | zero => intro b q st; simp [absFold]
  | succ a ih =>
    intro b q st
    rw [show a + 1 + b = (a + b) + 1 by omega]
    simp only [absFold]
    rw [ih]; congr 1; omega

theorem ordFinish_eq {σ : Type} (absent : Nat → σ → Nat → Rd → σ) (r : Rd) :
    ∀ (c q : Nat) (st : σ), ordFinish absent r c q st = absFold absent r.pos r c q st := by
  intro c
  induction c with
  | zero => intro q st; rfl
  | succ c ih => intro q st; simp only [ordFinish, absFold]; rw [ih]

/-- a known element of slot `k ≥ q`: the absent-actions of slots `q..k-1`, then the handler of `k` -/
theorem ordLoop_hit {σ : Type} (n : Nat) (idx : Nat → Option Nat)
    (handle : Nat → σ → Nat → Nat → Rd → Res (σ × Rd)) (absent : Nat → σ → Nat → Rd → σ)
    (typ l sp k : Nat) (hk : idx typ = some k) (hkn : k ≤ n) :
    ∀ (d fuel q : Nat) (st : σ) (r : Rd), q + d = k → d < fuel →
      ordLoop n idx handle absent typ l sp fuel q st r
        = (handle k (absFold absent sp r d q st) l sp r >>= fun x => pure ((x.1, k + 1), x.2)) := by
  intro d
  induction d with
  | zero =>
    intro fuel q st r hq hf
    cases fuel with
    | zero => omega
    | succ f =>
      have hq' : q = k := by omega
      subst hq'
      have : ¬ q > n := by omega
      simp only [ordLoop, this, ↓reduceIte, hk, absFold]
  | succ d ih =>
    intro fuel q st r hq hf
    cases fuel with
    | zero => omega
    | succ f =>
      have h1 : ¬ q > n := by omega
      have h2 : ¬ q = k := by omega
      simp only [ordLoop, h1, ↓reduceIte, hk, h2, absFold]
      exact ih f (q + 1) _ r (by omega) (by omega)

/-! ### Interest: moving the generic loop from element to element -/

/-- `tlvLoop_step` with the header reader independent of the fuel -/
theorem tlvLoop_step_int (R : ReaderSpecs) {σ : Type} (body : σ → Nat → Nat → Nat → Rd → Res (σ × Rd)) (st : σ)
    (r : Rd) (buf : Bytes) (p ty l : Nat) (rest : Bytes) (h : At r buf p)
    (hb : buf.drop p = encTL ty ++ (encTL l ++ rest)) (hty : ty < 2 ^ 64) (hl : l < 2 ^ 62) :
    ∃ r2, At r2 buf (p + tlLen ty + tlLen l) ∧ r2.Live ∧ buf.drop (p + tlLen ty + tlLen l) = rest ∧
      p + tlLen ty + tlLen l ≤ buf.length ∧
      ∀ fuel, tlvLoop body (fuel + 1) st r = (body st ty l p r2 >>= fun x => tlvLoop body fuel x.1 x.2) := by
  obtain ⟨r1, e1, a1, _, d1⟩ := readTL_at R r buf p ty _ h hb hty
  obtain ⟨r2, e2, a2, l2, d2⟩ := readTL_at R r1 buf _ l _ a1 d1 (by omega)
  refine ⟨r2, a2, l2, d2, a2.2.2, ?_⟩
  intro fuel
  have hlt : ¬ (p ≥ buf.length) := by
    have h1 := (drop_append_len h.2.2 hb).1
    rw [encTL_length] at h1
    have := tlLen_pos ty
    omega
  simp only [tlvLoop, R.pos_eq r buf p h, R.length_eq r buf p h, hlt, ↓reduceIte, e1, Res.bind_ok, e2]

/-- from reader `r` at `p` with loop state `s`, the Interest loop arrives at reader `r'` at `p'`
    with loop state `s'` (for every sufficient fuel) -/
def Reach (buf : Bytes) (p : Nat) (s : InterestSt × Nat) (r : Rd) (p' : Nat) (s' : InterestSt × Nat) (r' : Rd) : Prop :=
  ∀ fuel, buf.length - p < fuel → ∃ fuel', buf.length - p' < fuel' ∧
    tlvLoop interestBody fuel s r = tlvLoop interestBody fuel' s' r'

theorem Reach.refl (buf : Bytes) (p : Nat) (s : InterestSt × Nat) (r : Rd) : Reach buf p s r p s r :=
  fun fuel hf => ⟨fuel, hf, rfl⟩

theorem Reach.trans {buf : Bytes} {p1 p2 p3 : Nat} {s1 s2 s3 : InterestSt × Nat} {r1 r2 r3 : Rd}
    (a : Reach buf p1 s1 r1 p2 s2 r2) (b : Reach buf p2 s2 r2 p3 s3 r3) : Reach buf p1 s1 r1 p3 s3 r3 := by
  intro fuel hf
  obtain ⟨f2, h2, e2⟩ := a fuel hf
  obtain ⟨f3, h3, e3⟩ := b f2 h2
  exact ⟨f3, h3, e2.trans e3⟩

theorem interestBody_hit (typ l sp k q : Nat) (st : InterestSt) (r : Rd) (hk : interestIdx typ = some k)
    (hq : q ≤ k) (hk15 : k ≤ 15) :
    interestBody (st, q) typ l sp r
      = (interestHandle k (absFold interestAbsent sp r (k - q) q st) l sp r >>= fun x => pure ((x.1, k + 1), x.2)) := by
  unfold interestBody
  exact ordLoop_hit 15 interestIdx interestHandle interestAbsent typ l sp k hk hk15 (k - q) 17 q st r
    (by omega) (by omega)

/-- one known element: TL header, absent-actions of the skipped slots, handler -/
theorem step_reach (R : ReaderSpecs) {st : InterestSt} {q : Nat} {r : Rd} {buf : Bytes} {p ty l k : Nat} {rest : Bytes}
    (h : At r buf p) (hb : buf.drop p = encTL ty ++ (encTL l ++ rest)) (hty : ty < 2 ^ 64) (hl : l < 2 ^ 62)
    (hk : interestIdx ty = some k) (hq : q ≤ k) (hk15 : k ≤ 15) :
    ∃ r2, At r2 buf (p + tlLen ty + tlLen l) ∧ r2.Live ∧ buf.drop (p + tlLen ty + tlLen l) = rest ∧
      ∀ (st' : InterestSt) (r3 : Rd) (p3 : Nat),
        interestHandle k (absFold interestAbsent p r2 (k - q) q st) l p r2 = .ok (st', r3) →
        p3 ≤ buf.length → p + tlLen ty + tlLen l ≤ p3 → Reach buf p (st, q) r p3 (st', k + 1) r3 := by
  obtain ⟨r2, a2, l2, d2, _, e2⟩ := tlvLoop_step_int R interestBody (st, q) r buf p ty l rest h hb hty hl
  refine ⟨r2, a2, l2, d2, ?_⟩
  intro st' r3 p3 hh hle hge fuel hf
  have := tlLen_pos ty
  cases fuel with
  | zero => omega
  | succ f =>
    refine ⟨f, by omega, ?_⟩
    rw [e2 f, interestBody_hit ty l p k q st r2 hk hq hk15, Res.bind_assoc_int, hh]
    rfl

/-! ### absent-actions of the Interest model -/

theorem absFold_head (sp : Nat) (r : Rd) : ∀ (c q : Nat) (st : InterestSt), q + c ≤ 9 →
    absFold interestAbsent sp r c q st = st := by
  intro c
  induction c with
  | zero => intro q st _; rfl
  | succ c ih =>
    intro q st hq
    have h1 : q ≠ 9 := by omega
    have h2 : q ≠ 10 := by omega
    have h3 : q ≠ 14 := by omega
    simp only [absFold, interestAbsent, h1, h2, h3, ↓reduceIte]
    exact ih (q + 1) st (by omega)

theorem absFold_v (sp : Nat) (r : Rd) : ∀ (c q : Nat) (st : InterestSt),
    (absFold interestAbsent sp r c q st).v = st.v := by
  intro c
  induction c with
  | zero => intro q st; rfl
  | succ c ih =>
    intro q st
    simp only [absFold]; rw [ih]; unfold interestAbsent
    repeat' split
    all_goals rfl

theorem absFold_sigCovered (sp : Nat) (r : Rd) : ∀ (c q : Nat) (st : InterestSt),
    (absFold interestAbsent sp r c q st).sigCovered = st.sigCovered := by
  intro c
  induction c with
  | zero => intro q st; rfl
  | succ c ih =>
    intro q st
    simp only [absFold]; rw [ih]; unfold interestAbsent
    repeat' split
    all_goals rfl

/-- the first element after the offset markers (slot 11, 12 or 13) coming from the head part -/
theorem absFold_markers (sp : Nat) (r : Rd) (q k : Nat) (st : InterestSt) (hq : q ≤ 9) (hk : 11 ≤ k) (hk2 : k ≤ 13) :
    absFold interestAbsent sp r (k - q) q st = { st with sigCoverStart := sp, digestCoverStart := sp } := by
  rw [show k - q = (9 - q) + (k - 9) by omega, absFold_add, absFold_head sp r (9 - q) q st (by omega),
    show q + (9 - q) = 9 by omega]
  have : k = 11 ∨ k = 12 ∨ k = 13 := by omega
  rcases this with rfl | rfl | rfl <;> simp [absFold, interestAbsent]

theorem eta_cbp (st : InterestSt) (h : st.v.cbp = false) : { st with v := { st.v with cbp := false } } = st := by
  obtain ⟨v, _, _, _, _⟩ := st; obtain ⟨⟩ := v; simp_all
theorem eta_mbf (st : InterestSt) (h : st.v.mbf = false) : { st with v := { st.v with mbf := false } } = st := by
  obtain ⟨v, _, _, _, _⟩ := st; obtain ⟨⟩ := v; simp_all
theorem eta_fh (st : InterestSt) (h : st.v.fh = none) : { st with v := { st.v with fh := none } } = st := by
  obtain ⟨v, _, _, _, _⟩ := st; obtain ⟨⟩ := v; simp_all
theorem eta_nonce (st : InterestSt) (h : st.v.nonce = none) : { st with v := { st.v with nonce := none } } = st := by
  obtain ⟨v, _, _, _, _⟩ := st; obtain ⟨⟩ := v; simp_all
theorem eta_lt (st : InterestSt) (h : st.v.lt = none) : { st with v := { st.v with lt := none } } = st := by
  obtain ⟨v, _, _, _, _⟩ := st; obtain ⟨⟩ := v; simp_all
theorem eta_hl (st : InterestSt) (h : st.v.hl = none) : { st with v := { st.v with hl := none } } = st := by
  obtain ⟨v, _, _, _, _⟩ := st; obtain ⟨⟩ := v; simp_all
theorem eta_si (st : InterestSt) (h : st.v.si = none) : { st with v := { st.v with si := none } } = st := by
  obtain ⟨v, _, _, _, _⟩ := st; obtain ⟨⟩ := v; simp_all

/-! ### small encoder facts -/

theorem encTL_small_int (x : Nat) (h : x ≤ 0xfc) : encTL x = [x] := by simp [encTL, h]
theorem tlLen_small_int (x : Nat) (h : x ≤ 0xfc) : tlLen x = 1 := by simp [tlLen, h]

theorem nameLen_append_int (a b : Name) : nameLen (a ++ b) = nameLen a + nameLen b := by
  simp [nameLen, List.map_append, List.sum_append]

theorem encNameInner_append_int (a b : Name) : encNameInner (a ++ b) = encNameInner a ++ encNameInner b := by
  simp [encNameInner, List.flatMap_append]

theorem sigEndAux_snoc_int (c : Component) : ∀ (base : Name) (p cur : Nat),
    sigEndAux p (base ++ [c]) cur = if c.typ = 2 then p + nameLen base else sigEndAux p base cur := by
  intro base
  induction base with
  | nil => intro p cur; simp [sigEndAux, nameLen]
  | cons b base ih =>
    intro p cur
    simp only [List.cons_append, sigEndAux, ih]
    split
    · simp [nameLen]; omega
    · rfl

theorem flatten_length_int (c : List Bytes) : c.flatten.length = contentLen c := by
  simp [contentLen, List.length_flatten]

theorem natLen_le_int (x : Nat) : natLen x ≤ 8 := by
  unfold natLen; repeat' split
  all_goals omega

theorem lt_pow_natLen_int (x : Nat) (hx : x < 2 ^ 64) : x < 256 ^ natLen x := by
  unfold natLen; repeat' split
  all_goals omega

theorem pow_natLen_le_int (x : Nat) : 256 ^ natLen x ≤ u64 := by
  unfold natLen u64; repeat' split
  all_goals omega

/-! ### the Interest elements, one by one -/

section
variable (R : ReaderSpecs)
include R

/-- `readNat_at` for the short (≤ 8 byte) values of the Interest fields: no bound on the buffer needed -/
theorem readNat_small_int (r : Rd) (buf : Bytes) (p k x w : Nat) (t : Bytes) (h : At r buf p)
    (hb : buf.drop p = be k x ++ t) (hx : x < 256 ^ k) (hk : 256 ^ k ≤ u64) (hk8 : k ≤ 8) :
    ∃ r', readNat r k w = .ok (x % 2 ^ w, r') ∧ At r' buf (p + k) ∧ buf.drop (p + k) = t := by
  obtain ⟨hle, htk, hrest⟩ := drop_append_len h.2.2 hb
  rw [be_length] at hle htk hrest
  obtain ⟨r1, e1, a1, _⟩ := readBytesAcc_at R k r buf p 0 h hle
  refine ⟨r1, ?_, a1, hrest⟩
  have hg : ¬ (k > r.length - r.pos) := by rw [R.pos_eq r buf p h, R.length_eq r buf p h]; omega
  have hneg : negInt k = false := by simp [negInt]; omega
  simp [readNat, hneg, hg, e1, htk, accBytes_be k x hx hk]

/-- Name (slot 2) -/
theorem el_name (E : EncSpecs) (fn : Name) (st : InterestSt) {q : Nat} {r : Rd} {buf : Bytes} {p : Nat} {rest : Bytes}
    (h : At r buf p) (hb : buf.drop p = encNameField 7 fn ++ rest) (hv : NameValid fn)
    (hlen : nameLen fn < 2 ^ 62) (hq : q ≤ 2) :
    ∃ r' X, At r' buf (p + (encNameField 7 fn).length) ∧ buf.drop (p + (encNameField 7 fn).length) = rest ∧
      (∀ base v, fn = base ++ [⟨2, v⟩] → X = encNameInner base) ∧
      Reach buf p (st, q) r (p + (encNameField 7 fn).length)
        ({ st with v := { st.v with name := some fn }, sigCovered := st.sigCovered ++ X }, 3) r' := by
  have hb1 : buf.drop p = encTL 7 ++ (encTL (nameLen fn) ++ (encNameInner fn ++ rest)) := by
    rw [hb]; simp [encNameField, List.append_assoc]
  obtain ⟨r2, a2, l2, d2, hstep⟩ := step_reach R (st := st) h hb1 (by omega) hlen (by decide : interestIdx 7 = some 2) hq (by omega)
  obtain ⟨r3, e3, a3, d3⟩ := readNameField_at R r2 buf _ fn rest a2 d2 (E.nameLen_eq fn) hv hlen
  have hL : (encNameField 7 fn).length = tlLen 7 + tlLen (nameLen fn) + nameLen fn := by
    simp [encNameField, encTL_length, E.nameLen_eq]; omega
  have hpos : p + (encNameField 7 fn).length = p + tlLen 7 + tlLen (nameLen fn) + nameLen fn := by omega
  rw [hpos]
  refine ⟨r3, r3.range (p + tlLen 7 + tlLen (nameLen fn))
    (sigEndAux (p + tlLen 7 + tlLen (nameLen fn)) fn (p + tlLen 7 + tlLen (nameLen fn) + nameLen fn)), a3, d3, ?_, ?_⟩
  · intro base v hfn
    subst hfn
    rw [sigEndAux_snoc_int]
    simp only [↓reduceIte]
    have hle : p + tlLen 7 + tlLen (nameLen (base ++ [⟨2, v⟩])) + nameLen base ≤ buf.length := by
      have := a3.2.2; rw [nameLen_append_int] at this; rw [nameLen_append_int]; omega
    rw [R.range_eq r3 buf _ _ _ a3 (by omega) hle, d2, encNameInner_append_int, List.append_assoc]
    rw [show p + tlLen 7 + tlLen (nameLen (base ++ [⟨2, v⟩])) + nameLen base
        - (p + tlLen 7 + tlLen (nameLen (base ++ [⟨2, v⟩]))) = (encNameInner base).length by rw [E.nameLen_eq]; omega]
    simp
  · apply hstep _ r3 _ _ a3.2.2 (by omega)
    rw [absFold_head _ _ _ _ _ (by omega)]
    simp [interestHandle, R.pos_eq r2 _ _ a2, e3]

/-- CanBePrefix (slot 3): the (empty) value is not skipped -/
theorem el_cbp (b : Bool) (st : InterestSt) {q : Nat} {r : Rd} {buf : Bytes} {p : Nat} {rest : Bytes}
    (h : At r buf p) (hb : buf.drop p = boolField 33 b ++ rest) (hq : q ≤ 3) (h0 : st.v.cbp = false) :
    ∃ r' q', q' ≤ 4 ∧ At r' buf (p + (boolField 33 b).length) ∧ buf.drop (p + (boolField 33 b).length) = rest ∧
      Reach buf p (st, q) r (p + (boolField 33 b).length) ({ st with v := { st.v with cbp := b } }, q') r' := by
  cases b with
  | false =>
    refine ⟨r, q, by omega, by simpa [boolField] using h, by simpa [boolField] using hb, ?_⟩
    rw [eta_cbp st h0]; simp only [boolField]; exact Reach.refl _ _ _ _
  | true =>
    have hb1 : buf.drop p = encTL 33 ++ (encTL 0 ++ rest) := by
      rw [hb]; simp [boolField, encTL_small_int]
    obtain ⟨r2, a2, l2, d2, hstep⟩ := step_reach R (st := st) h hb1 (by omega) (by omega) (by decide : interestIdx 33 = some 3) hq (by omega)
    have hL : (boolField 33 true).length = tlLen 33 + tlLen 0 := by simp [boolField, encTL_length, tlLen_small_int]
    rw [hL, ← Nat.add_assoc]
    refine ⟨r2, 4, by omega, a2, d2, ?_⟩
    apply hstep _ r2 _ _ a2.2.2 (by omega)
    rw [absFold_head _ _ _ _ _ (by omega)]
    simp [interestHandle]

/-- MustBeFresh (slot 4) -/
theorem el_mbf (b : Bool) (st : InterestSt) {q : Nat} {r : Rd} {buf : Bytes} {p : Nat} {rest : Bytes}
    (h : At r buf p) (hb : buf.drop p = boolField 18 b ++ rest) (hq : q ≤ 4) (h0 : st.v.mbf = false) :
    ∃ r' q', q' ≤ 5 ∧ At r' buf (p + (boolField 18 b).length) ∧ buf.drop (p + (boolField 18 b).length) = rest ∧
      Reach buf p (st, q) r (p + (boolField 18 b).length) ({ st with v := { st.v with mbf := b } }, q') r' := by
  cases b with
  | false =>
    refine ⟨r, q, by omega, by simpa [boolField] using h, by simpa [boolField] using hb, ?_⟩
    rw [eta_mbf st h0]; simp only [boolField]; exact Reach.refl _ _ _ _
  | true =>
    have hb1 : buf.drop p = encTL 18 ++ (encTL 0 ++ rest) := by
      rw [hb]; simp [boolField, encTL_small_int]
    obtain ⟨r2, a2, l2, d2, hstep⟩ := step_reach R (st := st) h hb1 (by omega) (by omega) (by decide : interestIdx 18 = some 4) hq (by omega)
    have hL : (boolField 18 true).length = tlLen 18 + tlLen 0 := by simp [boolField, encTL_length, tlLen_small_int]
    rw [hL, ← Nat.add_assoc]
    refine ⟨r2, 5, by omega, a2, d2, ?_⟩
    apply hstep _ r2 _ _ a2.2.2 (by omega)
    rw [absFold_head _ _ _ _ _ (by omega)]
    simp [interestHandle]

/-- ForwardingHint (slot 5) -/
theorem el_fh (E : EncSpecs) (o : Option (List Name)) (st : InterestSt) {q : Nat} {r : Rd} {buf : Bytes} {p : Nat}
    {rest X : Bytes} (hX : X = optB o (fun ns => encTL 30 ++ encTL (linksLen ns) ++ encLinks ns))
    (h : At r buf p) (hb : buf.drop p = X ++ rest)
    (hv : ∀ ns, o = some ns → ∀ n ∈ ns, NameValid n) (hlen : ∀ ns, o = some ns → linksLen ns < 2 ^ 62)
    (hq : q ≤ 5) (h0 : st.v.fh = none) :
    ∃ r' q', q' ≤ 6 ∧ At r' buf (p + X.length) ∧ buf.drop (p + X.length) = rest ∧
      Reach buf p (st, q) r (p + X.length) ({ st with v := { st.v with fh := o } }, q') r' := by
  subst hX
  cases o with
  | none =>
    refine ⟨r, q, by omega, by simpa [optB] using h, by simpa [optB] using hb, ?_⟩
    rw [eta_fh st h0]; simp only [optB]; exact Reach.refl _ _ _ _
  | some ns =>
    have hl := hlen ns rfl
    have hb1 : buf.drop p = encTL 30 ++ (encTL (linksLen ns) ++ (encLinks ns ++ rest)) := by
      rw [hb]; simp [optB, List.append_assoc]
    obtain ⟨r2, a2, l2, d2, hstep⟩ := step_reach R (st := st) h hb1 (by omega) hl (by decide : interestIdx 30 = some 5) hq (by omega)
    obtain ⟨hle, htk, d3⟩ := drop_append_len a2.2.2 d2
    rw [E.linksLen_eq] at hle htk d3
    obtain ⟨sub, r3, e3, asub, a3⟩ := R.delegate_ok r2 buf _ (linksLen ns) a2 hle
    rw [htk] at asub
    have ep := parseLinks_at R E sub ns asub (hv ns rfl) hl
    have hL : (optB (some ns) (fun ns => encTL 30 ++ encTL (linksLen ns) ++ encLinks ns)).length
        = tlLen 30 + tlLen (linksLen ns) + linksLen ns := by
      simp [optB, encTL_length, E.linksLen_eq]; omega
    rw [hL, show p + (tlLen 30 + tlLen (linksLen ns) + linksLen ns) = p + tlLen 30 + tlLen (linksLen ns) + linksLen ns by omega]
    refine ⟨r3, 6, by omega, a3, d3, ?_⟩
    apply hstep _ r3 _ _ a3.2.2 (by omega)
    rw [absFold_head _ _ _ _ _ (by omega)]
    simp [interestHandle, e3, ep]

/-- Nonce (slot 6) -/
theorem el_nonce (o : Option Nat) (st : InterestSt) {q : Nat} {r : Rd} {buf : Bytes} {p : Nat}
    {rest : Bytes} (h : At r buf p) (hb : buf.drop p = optB o encNonce ++ rest)
    (hv : ∀ x, o = some x → x < 2 ^ 32) (hq : q ≤ 6) (h0 : st.v.nonce = none) :
    ∃ r' q', q' ≤ 7 ∧ At r' buf (p + (optB o encNonce).length) ∧ buf.drop (p + (optB o encNonce).length) = rest ∧
      Reach buf p (st, q) r (p + (optB o encNonce).length) ({ st with v := { st.v with nonce := o } }, q') r' := by
  cases o with
  | none =>
    refine ⟨r, q, by omega, by simpa [optB] using h, by simpa [optB] using hb, ?_⟩
    rw [eta_nonce st h0]; simp only [optB]; exact Reach.refl _ _ _ _
  | some x =>
    have hx := hv x rfl
    have hb1 : buf.drop p = encTL 10 ++ (encTL 4 ++ (be 4 x ++ rest)) := by
      rw [hb]; simp [optB, encNonce, encTL_small_int]
    obtain ⟨r2, a2, l2, d2, hstep⟩ := step_reach R (st := st) h hb1 (by omega) (by omega) (by decide : interestIdx 10 = some 6) hq (by omega)
    obtain ⟨r3, e3, a3, d3⟩ := readNat_small_int R r2 buf _ 4 x 32 rest a2 d2 (by omega) (by simp [u64]) (by omega)
    have hL : (optB (some x) encNonce).length = tlLen 10 + tlLen 4 + 4 := by
      simp [optB, encNonce, tlLen_small_int]
    rw [hL, show p + (tlLen 10 + tlLen 4 + 4) = p + tlLen 10 + tlLen 4 + 4 by omega]
    refine ⟨r3, 7, by omega, a3, d3, ?_⟩
    apply hstep _ r3 _ _ a3.2.2 (by omega)
    rw [absFold_head _ _ _ _ _ (by omega)]
    simp [interestHandle, e3, Nat.mod_eq_of_lt hx]

/-- InterestLifetime (slot 7) -/
theorem el_lt (o : Option Nat) (st : InterestSt) {q : Nat} {r : Rd} {buf : Bytes} {p : Nat}
    {rest : Bytes} (h : At r buf p) (hb : buf.drop p = optB o (encNatField 12) ++ rest)
    (hv : ∀ x, o = some x → x < 2 ^ 64) (hq : q ≤ 7) (h0 : st.v.lt = none) :
    ∃ r' q', q' ≤ 8 ∧ At r' buf (p + (optB o (encNatField 12)).length)
      ∧ buf.drop (p + (optB o (encNatField 12)).length) = rest ∧
      Reach buf p (st, q) r (p + (optB o (encNatField 12)).length) ({ st with v := { st.v with lt := o } }, q') r' := by
  cases o with
  | none =>
    refine ⟨r, q, by omega, by simpa [optB] using h, by simpa [optB] using hb, ?_⟩
    rw [eta_lt st h0]; simp only [optB]; exact Reach.refl _ _ _ _
  | some x =>
    have hx := hv x rfl
    have hn := natLen_le_int x
    have hb1 : buf.drop p = encTL 12 ++ (encTL (natLen x) ++ (be (natLen x) x ++ rest)) := by
      rw [hb]; simp [optB, encNatField, encTL_small_int (natLen x) (by omega), List.append_assoc]
    obtain ⟨r2, a2, l2, d2, hstep⟩ := step_reach R (st := st) h hb1 (by omega) (by omega) (by decide : interestIdx 12 = some 7) hq (by omega)
    obtain ⟨r3, e3, a3, d3⟩ := readNat_small_int R r2 buf _ (natLen x) x 64 rest a2 d2 (lt_pow_natLen_int x hx) (pow_natLen_le_int x) hn
    have hL : (optB (some x) (encNatField 12)).length = tlLen 12 + tlLen (natLen x) + natLen x := by
      simp [optB, encNatField, encTL_length, tlLen_small_int (natLen x) (by omega)]; omega
    rw [hL, show p + (tlLen 12 + tlLen (natLen x) + natLen x) = p + tlLen 12 + tlLen (natLen x) + natLen x by omega]
    refine ⟨r3, 8, by omega, a3, d3, ?_⟩
    apply hstep _ r3 _ _ a3.2.2 (by omega)
    rw [absFold_head _ _ _ _ _ (by omega)]
    simp [interestHandle, e3, Nat.mod_eq_of_lt hx]

/-- HopLimit (slot 8): `Skip(1)` then `Range(Pos()-1, Pos())[0][0]` -/
theorem el_hl (o : Option Nat) (st : InterestSt) {q : Nat} {r : Rd} {buf : Bytes} {p : Nat}
    {rest : Bytes} (h : At r buf p) (hb : buf.drop p = optB o encHopLimit ++ rest)
    (hv : ∀ x, o = some x → x < 256) (hq : q ≤ 8) (h0 : st.v.hl = none) :
    ∃ r' q', q' ≤ 9 ∧ At r' buf (p + (optB o encHopLimit).length)
      ∧ buf.drop (p + (optB o encHopLimit).length) = rest ∧
      Reach buf p (st, q) r (p + (optB o encHopLimit).length) ({ st with v := { st.v with hl := o } }, q') r' := by
  cases o with
  | none =>
    refine ⟨r, q, by omega, by simpa [optB] using h, by simpa [optB] using hb, ?_⟩
    rw [eta_hl st h0]; simp only [optB]; exact Reach.refl _ _ _ _
  | some x =>
    have hx := hv x rfl
    have hb1 : buf.drop p = encTL 34 ++ (encTL 1 ++ ([x % 256] ++ rest)) := by
      rw [hb]; simp [optB, encHopLimit, encTL_small_int]
    obtain ⟨r2, a2, l2, d2, hstep⟩ := step_reach R (st := st) h hb1 (by omega) (by omega) (by decide : interestIdx 34 = some 8) hq (by omega)
    obtain ⟨hle, htk, d3⟩ := drop_append_len a2.2.2 d2
    simp only [List.length_cons, List.length_nil] at hle htk d3
    obtain ⟨r3, e3, a3⟩ := R.skip_ok r2 buf _ 1 a2 l2 hle
    have hL : (optB (some x) encHopLimit).length = tlLen 34 + tlLen 1 + 1 := by
      simp [optB, encHopLimit, tlLen_small_int]
    rw [hL, show p + (tlLen 34 + tlLen 1 + 1) = p + tlLen 34 + tlLen 1 + 1 by omega]
    refine ⟨r3, 9, by omega, a3, d3, ?_⟩
    apply hstep _ r3 _ _ a3.2.2 (by omega)
    rw [absFold_head _ _ _ _ _ (by omega)]
    have hr : r3.range (r3.pos - 1) r3.pos = [x % 256] := by
      rw [R.pos_eq r3 _ _ a3, R.range_eq r3 buf _ _ _ a3 (by omega) a3.2.2]
      rw [show p + tlLen 34 + tlLen 1 + 1 - 1 = p + tlLen 34 + tlLen 1 by omega,
        show p + tlLen 34 + tlLen 1 + 1 - (p + tlLen 34 + tlLen 1) = 1 by omega]
      simpa using htk
    simp [interestHandle, e3, hr, Nat.mod_eq_of_lt hx]

/-- ApplicationParameters (slot 11) arriving from the head part: both offset markers are set here -/
theorem el_ap (c : List Bytes) (st : InterestSt) {q : Nat} {r : Rd} {buf : Bytes} {p : Nat} {rest X : Bytes}
    (hX : X = encTL 36 ++ encTL (contentLen c) ++ c.flatten)
    (h : At r buf p) (hb : buf.drop p = X ++ rest) (hlen : contentLen c < 2 ^ 62) (hq : q ≤ 9) :
    ∃ r', At r' buf (p + X.length) ∧ buf.drop (p + X.length) = rest ∧
      Reach buf p (st, q) r (p + X.length)
        ({ st with v := { st.v with ap := some c.flatten }, sigCoverStart := p, digestCoverStart := p }, 12) r' := by
  subst hX
  have hb1 : buf.drop p = encTL 36 ++ (encTL (contentLen c) ++ (c.flatten ++ rest)) := by
    rw [hb]; simp [List.append_assoc]
  obtain ⟨r2, a2, l2, d2, hstep⟩ := step_reach R (st := st) (q := q) h hb1 (by omega) hlen (by decide : interestIdx 36 = some 11) (by omega) (by omega)
  obtain ⟨hle, htk, d3⟩ := drop_append_len a2.2.2 d2
  rw [flatten_length_int] at hle htk d3
  obtain ⟨r3, e3, a3⟩ := R.readWire_ok r2 buf _ (contentLen c) a2 hle
  rw [htk] at e3
  have hL : (encTL 36 ++ encTL (contentLen c) ++ c.flatten).length = tlLen 36 + tlLen (contentLen c) + contentLen c := by
    rw [List.length_append, List.length_append, flatten_length_int, encTL_length, encTL_length]
  rw [hL, show p + (tlLen 36 + tlLen (contentLen c) + contentLen c) = p + tlLen 36 + tlLen (contentLen c) + contentLen c by omega]
  refine ⟨r3, a3, d3, ?_⟩
  apply hstep _ r3 _ _ a3.2.2 (by omega)
  rw [absFold_markers p r2 q 11 st hq (by omega) (by omega)]
  simp [interestHandle, e3]

/-- SignatureInfo (slot 12) -/
theorem el_si (S : SigInfoParseSpec) (E : EncSpecs) (o : Option SigInfo) (st : InterestSt) {q : Nat} {r : Rd}
    {buf : Bytes} {p : Nat} {rest X : Bytes}
    (hX : X = optB o (fun s => encTL 44 ++ encTL (sigInfoLen s) ++ encSigInfo s))
    (h : At r buf p) (hb : buf.drop p = X ++ rest)
    (hv : ∀ s, o = some s → SigInfoValid s) (hlen : ∀ s, o = some s → sigInfoLen s < 2 ^ 62)
    (hq : q ≤ 12) (h0 : st.v.si = none) :
    ∃ r' q' st', q ≤ q' ∧ q' ≤ 13 ∧ At r' buf (p + X.length) ∧ buf.drop (p + X.length) = rest ∧
      st'.v = { st.v with si := o } ∧ st'.sigCovered = st.sigCovered ∧
      (q = 12 → st' = { st with v := { st.v with si := o } }) ∧
      Reach buf p (st, q) r (p + X.length) (st', q') r' := by
  subst hX
  cases o with
  | none =>
    refine ⟨r, q, { st with v := { st.v with si := none } }, by omega, by omega, by simpa [optB] using h,
      by simpa [optB] using hb, rfl, rfl, fun _ => rfl, ?_⟩
    rw [eta_si st h0]; simp only [optB]; exact Reach.refl _ _ _ _
  | some s =>
    have hl := hlen s rfl
    have hb1 : buf.drop p = encTL 44 ++ (encTL (sigInfoLen s) ++ (encSigInfo s ++ rest)) := by
      rw [hb]; simp [optB, List.append_assoc]
    obtain ⟨r2, a2, l2, d2, hstep⟩ := step_reach R (st := st) h hb1 (by omega) hl (by decide : interestIdx 44 = some 12) hq (by omega)
    obtain ⟨hle, htk, d3⟩ := drop_append_len a2.2.2 d2
    rw [E.sigInfoLen_eq] at hle htk d3
    obtain ⟨sub, r3, e3, asub, a3⟩ := R.delegate_ok r2 buf _ (sigInfoLen s) a2 hle
    rw [htk] at asub
    have ep := S sub s asub (hv s rfl) hl
    have hL : (optB (some s) (fun s => encTL 44 ++ encTL (sigInfoLen s) ++ encSigInfo s)).length
        = tlLen 44 + tlLen (sigInfoLen s) + sigInfoLen s := by
      simp [optB, encTL_length, E.sigInfoLen_eq]; omega
    rw [hL, show p + (tlLen 44 + tlLen (sigInfoLen s) + sigInfoLen s) = p + tlLen 44 + tlLen (sigInfoLen s) + sigInfoLen s by omega]
    refine ⟨r3, 13, { absFold interestAbsent p r2 (12 - q) q st with
        v := { (absFold interestAbsent p r2 (12 - q) q st).v with si := some s } },
      by omega, by omega, a3, d3, ?_, ?_, ?_, ?_⟩
    · show { (absFold interestAbsent p r2 (12 - q) q st).v with si := some s } = _
      rw [absFold_v]
    · show (absFold interestAbsent p r2 (12 - q) q st).sigCovered = _
      rw [absFold_sigCovered]
    · intro hq12; subst hq12; simp [absFold]
    · apply hstep _ r3 _ _ a3.2.2 (by omega)
      simp [interestHandle, e3, ep]

/-- SignatureValue (slot 13): the signed range ends at the start of this element -/
theorem el_sv (sv : Bytes) (st : InterestSt) {q : Nat} {r : Rd} {buf : Bytes} {p : Nat} {rest X : Bytes}
    (hX : X = encTL 46 ++ encTL sv.length ++ sv)
    (h : At r buf p) (hb : buf.drop p = X ++ rest) (hlen : sv.length < 2 ^ 62) (hq1 : 12 ≤ q) (hq2 : q ≤ 13)
    (hs : st.sigCoverStart ≤ p) :
    ∃ r', At r' buf (p + X.length) ∧ buf.drop (p + X.length) = rest ∧
      Reach buf p (st, q) r (p + X.length)
        ({ st with v := { st.v with sv := some sv },
                   sigCovered := st.sigCovered ++ (buf.drop st.sigCoverStart).take (p - st.sigCoverStart) }, 14) r' := by
  subst hX
  have hb1 : buf.drop p = encTL 46 ++ (encTL sv.length ++ (sv ++ rest)) := by
    rw [hb]; simp [List.append_assoc]
  obtain ⟨r2, a2, l2, d2, hstep⟩ := step_reach R (st := st) h hb1 (by omega) hlen (by decide : interestIdx 46 = some 13) hq2 (by omega)
  obtain ⟨hle, htk, d3⟩ := drop_append_len a2.2.2 d2
  obtain ⟨r3, e3, a3⟩ := R.readWire_ok r2 buf _ sv.length a2 hle
  rw [htk] at e3
  have hL : (encTL 46 ++ encTL sv.length ++ sv).length = tlLen 46 + tlLen sv.length + sv.length := by
    simp [encTL_length]; omega
  rw [hL, show p + (tlLen 46 + tlLen sv.length + sv.length) = p + tlLen 46 + tlLen sv.length + sv.length by omega]
  refine ⟨r3, a3, d3, ?_⟩
  apply hstep _ r3 _ _ a3.2.2 (by omega)
  have hA : absFold interestAbsent p r2 (13 - q) q st = st := by
    have : q = 12 ∨ q = 13 := by omega
    rcases this with rfl | rfl <;> simp [absFold, interestAbsent]
  rw [hA]
  simp [interestHandle, e3, R.range_eq r3 buf _ _ _ a3 hs h.2.2]

end

/-- the absent-actions at the end when ApplicationParameters were seen: the range marker (slot 14) -/
theorem finish_tail (r : Rd) (q : Nat) (st : InterestSt) (h1 : 12 ≤ q) (h2 : q ≤ 14) :
    ordFinish interestAbsent r (15 - q) q st = { st with digestCovered := r.range st.digestCoverStart r.pos } := by
  have : q = 12 ∨ q = 13 ∨ q = 14 := by omega
  rcases this with rfl | rfl | rfl <;> simp [ordFinish, interestAbsent]

/-! ### the whole Interest value -/

theorem optB_some_int {α : Type} (a : α) (f : α → Bytes) : optB (some a) f = f a := rfl
theorem optB_none_int {α : Type} (f : α → Bytes) : optB (none : Option α) f = [] := rfl

theorem take_append_two_int (a b c : Bytes) : (a ++ (b ++ c)).take (a.length + b.length) = a ++ b := by
  rw [← List.append_assoc]; exact List.take_left' (by simp)

/-- what the decoder proof needs to know about the encoded Interest (all consequences of
    `InterestIn.Valid` and of the normal form of `makeInterest`) -/
structure InterestReady (i : InterestIn) (fn : Name) (sv : Bytes) : Prop where
  nameValid : NameValid fn
  nameLen : nameLen fn < 2 ^ 62
  fhValid : ∀ ns, i.fh = some ns → ∀ n ∈ ns, NameValid n
  fhLen : ∀ ns, i.fh = some ns → linksLen ns < 2 ^ 62
  nonce : ∀ x, i.nonce = some x → x < 2 ^ 32
  lt : ∀ x, i.lt = some x → x < 2 ^ 64
  hl : ∀ x, i.hl = some x → x < 256
  apLen : ∀ c, i.ap = some c → contentLen c < 2 ^ 62
  siValid : ∀ s, i.si = some s → SigInfoValid s
  siLen : ∀ s, i.si = some s → sigInfoLen s < 2 ^ 62
  svLen : sv.length < 2 ^ 62
  est : i.est > 0 → i.ap.isSome
  digest : i.ap.isSome → ∃ v, fn = stripDigest i.name ++ [⟨2, v⟩]

theorem finish_at (R : ReaderSpecs) {buf : Bytes} {r0 : Rd} {st : InterestSt} {q : Nat} {rF : Rd} {pF : Nat}
    (h0 : At r0 buf 0) (hR : Reach buf 0 (({} : InterestSt), 0) r0 pF (st, q) rF) (aF : At rF buf pF)
    (hp : pF = buf.length) :
    parseInterest {} r0 = .ok (ordFinish interestAbsent rF (15 - q) q st) := by
  obtain ⟨f, hf, e⟩ := hR (loopFuel r0) (by simp [loopFuel, R.pos_eq r0 _ 0 h0, R.length_eq r0 _ 0 h0])
  cases f with
  | zero => omega
  | succ f =>
    rw [tlvLoop_end R interestBody f (st, q) rF buf pF aF hp] at e
    show (tlvLoop interestBody (loopFuel r0) (({} : InterestSt), 0) r0 >>= _) = _
    rw [e]; rfl

/-- the part after the offset markers: ApplicationParameters, SignatureInfo, SignatureValue, and the
    absent-actions at the end -/
theorem tail_at (R : ReaderSpecs) (E : EncSpecs) (S : SigInfoParseSpec) (i : InterestIn) (fn : Name) (sv : Bytes)
    (hr : InterestReady i fn sv) {buf : Bytes} {r0 r7 : Rd} {p7 q7 : Nat} {X : Bytes} {v7 : InterestP}
    (h0 : At r0 buf 0) (a7 : At r7 buf p7) (d7 : buf.drop p7 = interestParamsPortion i sv) (hq7 : q7 ≤ 9)
    (RH : Reach buf 0 (({} : InterestSt), 0) r0 p7 (({ v := v7, sigCovered := X } : InterestSt), q7) r7)
    (hap : v7.ap = none) (hsi : v7.si = none) (hsv : v7.sv = none) :
    ∃ fs, parseInterest {} r0 = .ok fs
      ∧ fs.v = { v7 with ap := i.ap.map List.flatten, si := i.si, sv := if i.est > 0 then some sv else none }
      ∧ (i.ap.isSome → fs.digestCovered = interestParamsPortion i sv)
      ∧ (i.est > 0 → fs.sigCovered = X ++ (optB i.ap (fun c => encTL 36 ++ encTL (contentLen c) ++ c.flatten)
            ++ optB i.si (fun s => encTL 44 ++ encTL (sigInfoLen s) ++ encSigInfo s))) := by
  cases hiap : i.ap with
  | none =>
    have hest : ¬ i.est > 0 := fun h => by have := hr.est h; simp [hiap] at this
    have d7' : buf.drop p7 = optB i.si (fun s => encTL 44 ++ encTL (sigInfoLen s) ++ encSigInfo s) ++ [] := by
      rw [d7]; simp [interestParamsPortion, hiap, hest, optB_none_int]
    obtain ⟨r8, q8, st8, _, hq8, a8, d8, hv8, hc8, _, R8⟩ := el_si R S E i.si
      ({ v := v7, sigCovered := X } : InterestSt) (q := q7) rfl a7 d7' hr.siValid hr.siLen (by omega) hsi
    have hp8 := drop_eq_nil_pos_int a8.2.2 d8
    refine ⟨_, finish_at R h0 (RH.trans R8) a8 hp8, ?_, by simp, fun h => absurd h hest⟩
    rw [ordFinish_eq, absFold_v, hv8]
    obtain ⟨⟩ := v7; simp_all
  | some c =>
    have hcl := hr.apLen c hiap
    have d7' : buf.drop p7 = (encTL 36 ++ encTL (contentLen c) ++ c.flatten)
        ++ (optB i.si (fun s => encTL 44 ++ encTL (sigInfoLen s) ++ encSigInfo s)
        ++ (if i.est > 0 then encTL 46 ++ encTL sv.length ++ sv else [])) := by
      rw [d7]; simp only [interestParamsPortion, hiap, optB_some_int, List.append_assoc]
    obtain ⟨r8, a8, d8, R8⟩ := el_ap R c ({ v := v7, sigCovered := X } : InterestSt) rfl a7 d7' hcl hq7
    obtain ⟨r9, q9, st9, hq9a, hq9b, a9, d9, _, _, hst9, R9⟩ := el_si R S E i.si
      ({ v := { v7 with ap := some c.flatten }, sigCovered := X, sigCoverStart := p7, digestCoverStart := p7 } : InterestSt)
      (q := 12) rfl a8 d8 hr.siValid hr.siLen (by omega) hsi
    have hst9 := hst9 rfl
    subst hst9
    have hdrop : (buf.drop p7).take (buf.length - p7) = interestParamsPortion i sv := by
      rw [← d7]; exact List.take_of_length_le (by simp)
    by_cases hest : i.est > 0
    · rw [if_pos hest] at d9
      have d9' : buf.drop (p7 + (encTL 36 ++ encTL (contentLen c) ++ c.flatten).length
          + (optB i.si (fun s => encTL 44 ++ encTL (sigInfoLen s) ++ encSigInfo s)).length)
          = (encTL 46 ++ encTL sv.length ++ sv) ++ [] := by rw [d9]; simp
      obtain ⟨r10, a10, d10, R10⟩ := el_sv R sv
        ({ v := { v7 with ap := some c.flatten, si := i.si }, sigCovered := X, sigCoverStart := p7,
           digestCoverStart := p7 } : InterestSt) (q := q9) rfl a9 d9' hr.svLen hq9a hq9b (by show p7 ≤ _; omega)
      have hp10 := drop_eq_nil_pos_int a10.2.2 d10
      refine ⟨_, finish_at R h0 (RH.trans (R8.trans (R9.trans R10))) a10 hp10, ?_, ?_, ?_⟩
      · rw [finish_tail _ _ _ (by omega) (by omega)]; simp [hest]
      · intro _
        rw [finish_tail _ _ _ (by omega) (by omega)]
        show r10.range p7 r10.pos = _
        rw [R.pos_eq r10 _ _ a10, R.range_eq r10 buf _ p7 _ a10 (by omega) (by omega), hp10, hdrop]
      · intro _
        rw [finish_tail _ _ _ (by omega) (by omega)]
        show X ++ (buf.drop p7).take (p7 + (encTL 36 ++ encTL (contentLen c) ++ c.flatten).length
          + (optB i.si (fun s => encTL 44 ++ encTL (sigInfoLen s) ++ encSigInfo s)).length - p7) = _
        rw [d7', show p7 + (encTL 36 ++ encTL (contentLen c) ++ c.flatten).length
          + (optB i.si (fun s => encTL 44 ++ encTL (sigInfoLen s) ++ encSigInfo s)).length - p7
          = (encTL 36 ++ encTL (contentLen c) ++ c.flatten).length
          + (optB i.si (fun s => encTL 44 ++ encTL (sigInfoLen s) ++ encSigInfo s)).length by omega,
          take_append_two_int, optB_some_int]
    · rw [if_neg hest] at d9
      have hp9 := drop_eq_nil_pos_int a9.2.2 d9
      refine ⟨_, finish_at R h0 (RH.trans (R8.trans R9)) a9 hp9, ?_, ?_, fun h => absurd h hest⟩
      · rw [finish_tail _ _ _ hq9a (by omega)]
        obtain ⟨⟩ := v7; simp_all
      · intro _
        rw [finish_tail _ _ _ hq9a (by omega)]
        show r9.range p7 r9.pos = _
        rw [R.pos_eq r9 _ _ a9, R.range_eq r9 buf _ p7 _ a9 (by omega) (by omega), hp9, hdrop]

theorem parseInterest_at (R : ReaderSpecs) (E : EncSpecs) (S : SigInfoParseSpec) (i : InterestIn) (fn : Name)
    (sv : Bytes) (r : Rd) (hr : InterestReady i fn sv) (h : At r (interestValue i fn sv) 0) :
    ∃ fs, parseInterest {} r = .ok fs ∧ fs.v = interestExpect i fn sv
      ∧ (i.ap.isSome → fs.digestCovered = interestParamsPortion i sv)
      ∧ (i.est > 0 → fs.sigCovered = interestCovered i) := by
  obtain ⟨buf, hbuf⟩ : ∃ b, b = interestValue i fn sv := ⟨_, rfl⟩
  rw [← hbuf] at h
  have hb0 : buf.drop 0 = encNameField 7 fn ++ (boolField 33 i.cbp ++ (boolField 18 i.mbf
      ++ (optB i.fh (fun ns => encTL 30 ++ encTL (linksLen ns) ++ encLinks ns)
      ++ (optB i.nonce encNonce ++ (optB i.lt (encNatField 12) ++ (optB i.hl encHopLimit
      ++ interestParamsPortion i sv)))))) := by
    rw [hbuf]; simp only [List.drop_zero, interestValue, interestHead, List.append_assoc]
  obtain ⟨r1, X, a1, d1, hX, R1⟩ := el_name R E fn {} (q := 0) h hb0 hr.nameValid hr.nameLen (by omega)
  obtain ⟨r2, q2, hq2, a2, d2, R2⟩ := el_cbp R i.cbp
    ({ v := { name := some fn }, sigCovered := X } : InterestSt) (q := 3) a1 d1 (by omega) rfl
  obtain ⟨r3, q3, hq3, a3, d3, R3⟩ := el_mbf R i.mbf
    ({ v := { name := some fn, cbp := i.cbp }, sigCovered := X } : InterestSt) a2 d2 hq2 rfl
  obtain ⟨r4, q4, hq4, a4, d4, R4⟩ := el_fh R E i.fh
    ({ v := { name := some fn, cbp := i.cbp, mbf := i.mbf }, sigCovered := X } : InterestSt) rfl a3 d3
    hr.fhValid hr.fhLen hq3 rfl
  obtain ⟨r5, q5, hq5, a5, d5, R5⟩ := el_nonce R i.nonce
    ({ v := { name := some fn, cbp := i.cbp, mbf := i.mbf, fh := i.fh }, sigCovered := X } : InterestSt) a4 d4
    hr.nonce hq4 rfl
  obtain ⟨r6, q6, hq6, a6, d6, R6⟩ := el_lt R i.lt
    ({ v := { name := some fn, cbp := i.cbp, mbf := i.mbf, fh := i.fh, nonce := i.nonce }, sigCovered := X } : InterestSt)
    a5 d5 hr.lt hq5 rfl
  obtain ⟨r7, q7, hq7, a7, d7, R7⟩ := el_hl R i.hl
    ({ v := { name := some fn, cbp := i.cbp, mbf := i.mbf, fh := i.fh, nonce := i.nonce, lt := i.lt },
       sigCovered := X } : InterestSt) a6 d6 hr.hl hq6 rfl
  have RH := R1.trans (R2.trans (R3.trans (R4.trans (R5.trans (R6.trans R7)))))
  clear R1 R2 R3 R4 R5 R6 R7
  obtain ⟨fs, e, hv, hd, hc⟩ := tail_at R E S i fn sv hr h a7 d7 hq7 RH rfl rfl rfl
  refine ⟨fs, e, ?_, hd, ?_⟩
  · rw [hv]; rfl
  · intro hest
    obtain ⟨v, hfn⟩ := hr.digest (hr.est hest)
    rw [hc hest, hX _ v hfn]
    simp [interestCovered, List.append_assoc]

/-! ### from `InterestIn.Valid` and the normal form to the decoder's preconditions -/

theorem interestName_eq_int (n : Name) (b : Bool) :
    interestName n b = if b then stripDigest n ++ [digestComp (List.replicate 32 0)] else stripDigest n := by
  unfold interestName stripDigest; rfl

theorem stripDigest_valid_int (n : Name) (h : NameValid n) : NameValid (stripDigest n) := by
  unfold stripDigest
  split
  · split
    · intro c hc; exact h c (List.dropLast_subset _ hc)
    · exact h
  · exact h

theorem optB_length_int {α : Type} (o : Option α) (f : α → Bytes) (g : α → Nat) (h : ∀ a, (f a).length = g a) :
    (optB o f).length = optN o g := by
  cases o with
  | none => rfl
  | some a => exact h a

theorem tlLen_le9_int (x : Nat) : tlLen x ≤ 9 := by
  unfold tlLen; repeat' split
  all_goals omega

theorem interestHead_length_int (E : EncSpecs) (i : InterestIn) (fn : Name) :
    (interestHead i fn).length = interestHeadLen i fn := by
  have h1 : (encNameField 7 fn).length = nameFieldLen 7 fn := by
    simp [encNameField, nameFieldLen, encTL_length, E.nameLen_eq]; omega
  have h2 : ∀ (t : Nat) (b : Bool), t ≤ 0xfc → (boolField t b).length = boolFieldLen b := by
    intro t b ht; cases b <;> simp [boolField, boolFieldLen, encTL_small_int t ht]
  have h3 := optB_length_int i.fh (fun ns => encTL 30 ++ encTL (linksLen ns) ++ encLinks ns)
    (fun ns => 1 + tlLen (linksLen ns) + linksLen ns) (by
      intro ns; simp [encTL_length, E.linksLen_eq, tlLen_small_int]; omega)
  have h4 := optB_length_int i.nonce encNonce (fun _ => 6) (by intro x; simp [encNonce])
  have h5 := optB_length_int i.lt (encNatField 12) (natFieldLen 12) (by
    intro x; simp [encNatField, natFieldLen, encTL_length]; omega)
  have h6 := optB_length_int i.hl encHopLimit (fun _ => 3) (by intro x; simp [encHopLimit])
  simp only [interestHead, List.length_append, h1, h2 33 i.cbp (by omega), h2 18 i.mbf (by omega), h3, h4, h5, h6]
  rfl

theorem interestReady_of_int (E : EncSpecs) (i : InterestIn) (sign H : Bytes → Bytes) (e : Encoded) (fn : Name)
    (hv : i.Valid) (hH : ∀ x, (H x).length = 32) (hm : makeInterest i sign H = .ok (e, fn)) :
    InterestReady i fn e.sigVal ∧ (interestValue i fn e.sigVal).length < 2 ^ 62 := by
  obtain ⟨hfn, _, hsig, hnosig⟩ := E.makeInterest_flatten i sign H e fn hv hH hm
  obtain ⟨hnv, hfh, hnonce, hlt, hhl, hsi, hest, hlen⟩ := hv
  -- the final name has the length of the name the length pass saw
  have hnl : nameLen fn = nameLen (interestName i.name i.ap.isSome) := by
    rw [hfn, interestName_eq_int]; unfold interestFinalName
    cases i.ap.isSome with
    | false => simp
    | true => simp [nameLen, compLen, digestComp, hH]
  have hhead : interestHeadLen i fn = interestHeadLen i (interestName i.name i.ap.isSome) := by
    unfold interestHeadLen nameFieldLen; rw [hnl]
  have hsv : e.sigVal.length ≤ i.est := by
    rcases Nat.eq_zero_or_pos i.est with h0 | h0
    · rw [(hnosig h0).2]; simp
    · exact (hsig h0).2.2
  have hnfl : nameLen (interestName i.name i.ap.isSome) ≤ interestHeadLen i (interestName i.name i.ap.isSome) := by
    unfold interestHeadLen nameFieldLen; omega
  have hestlen : i.est ≤ sigTLLen 46 i.est := by unfold sigTLLen; split <;> omega
  unfold interestLen at hlen
  refine ⟨⟨?_, by omega, hfh, ?_, hnonce, hlt, hhl, ?_, hsi, ?_, by omega, hest, ?_⟩, ?_⟩
  · rw [hfn]; unfold interestFinalName
    have := stripDigest_valid_int i.name hnv
    split
    · intro c hc
      rcases List.mem_append.mp hc with h1 | h1
      · exact this c h1
      · simp at h1; subst h1; simp [CompValid, digestComp]
    · exact this
  · intro ns hns
    unfold interestHeadLen at hlen; rw [hns] at hlen; simp only [optN] at hlen; omega
  · intro c hc
    rw [hc] at hlen; simp only [optN] at hlen; omega
  · intro s hs
    rw [hs] at hlen; simp only [optN] at hlen; omega
  · intro hap
    refine ⟨H (interestParamsPortion i e.sigVal), ?_⟩
    rw [hfn]; unfold interestFinalName; rw [if_pos hap]; rfl
  · have hpp : (interestParamsPortion i e.sigVal).length
        ≤ optN i.ap (fun c => 1 + tlLen (contentLen c) + contentLen c)
          + optN i.si (fun s => 1 + tlLen (sigInfoLen s) + sigInfoLen s) + sigTLLen 46 i.est + 8 := by
      have h1 := optB_length_int i.ap (fun c => encTL 36 ++ encTL (contentLen c) ++ c.flatten)
        (fun c => 1 + tlLen (contentLen c) + contentLen c) (by
          intro c; rw [List.length_append, List.length_append, flatten_length_int, encTL_length, encTL_length,
            tlLen_small_int 36 (by omega)])
      have h2 := optB_length_int i.si (fun s => encTL 44 ++ encTL (sigInfoLen s) ++ encSigInfo s)
        (fun s => 1 + tlLen (sigInfoLen s) + sigInfoLen s) (by
          intro s; rw [List.length_append, List.length_append, E.sigInfoLen_eq, encTL_length, encTL_length,
            tlLen_small_int 44 (by omega)])
      simp only [interestParamsPortion, List.length_append, h1, h2]
      have h9 := tlLen_le9_int e.sigVal.length
      unfold sigTLLen
      split
      · simp [encTL_length, tlLen_small_int]; have := tlLen_pos i.est; omega
      · simp
    simp only [interestValue, List.length_append, interestHead_length_int E, hhead]
    omega

/-! ### ReadInterest ∘ MakeInterest -/

theorem checkInterest_ok_int (i : InterestIn) (H : Bytes → Bytes) (fn : Name) (sv : Bytes) (fs : InterestSt)
    (hest : i.est > 0 → i.ap.isSome) (hnt : NoTrailingDigest i) (hfn : fn = interestFinalName i H sv)
    (hv : fs.v = interestExpect i fn sv) (hd : i.ap.isSome → fs.digestCovered = interestParamsPortion i sv) :
    checkInterest H fs = true := by
  unfold checkInterest
  rw [hv]
  simp only [interestExpect]
  rcases (show i.ap = none ∨ ∃ c, i.ap = some c by cases i.ap <;> simp) with hap | ⟨c, hap⟩
  · have he : ¬ i.est > 0 := fun h => by have := hest h; simp [hap] at this
    have hfn' : fn = stripDigest i.name := by rw [hfn]; simp [interestFinalName, hap]
    simp only [hap, he, Option.map_none, Option.isSome_none, Option.isNone_none, ↓reduceIte, Bool.false_eq_true, false_and]
    cases hgl : fn.getLast? with
    | none => rfl
    | some c =>
      have := hnt hap c (by rw [← hfn']; exact hgl)
      simp [this]
  · have hfn' : fn = stripDigest i.name ++ [digestComp (H (interestParamsPortion i sv))] := by
      rw [hfn]; simp [interestFinalName, hap]
    have hd' := hd (by simp [hap])
    rw [hfn']
    simp [hap, hd', digestComp]

/-- `parsePacket` on the encoded Interest: the Interest element parses to a state that passes
    `checkInterest`, carries the expected value and (when signed) the covered bytes -/
theorem parsePacket_interest_int (R : ReaderSpecs) (E : EncSpecs) (S : SigInfoParseSpec)
    (i : InterestIn) (sign H : Bytes → Bytes) (e : Encoded) (fn : Name) (r : Rd) :
    i.Valid → NoTrailingDigest i → (∀ x, (H x).length = 32) → makeInterest i sign H = .ok (e, fn) →
    At r e.wire.flatten 0 →
    ∃ fs : InterestSt, parsePacket r = .ok { interest := some fs, ictx := fs }
      ∧ checkInterest H { fs with digestCovered := fs.digestCovered } = true
      ∧ fs.v = interestExpect i fn e.sigVal ∧ (i.est > 0 → fs.sigCovered = interestCovered i) := by
  intro hv hnt hH hm hat
  obtain ⟨hfn, hflat, _, _⟩ := E.makeInterest_flatten i sign H e fn hv hH hm
  obtain ⟨hr, hL⟩ := interestReady_of_int E i sign H e fn hv hH hm
  rw [hflat] at hat
  obtain ⟨V, hV⟩ : ∃ V, V = interestValue i fn e.sigVal := ⟨_, rfl⟩
  rw [← hV] at hat hL
  obtain ⟨buf, hbuf⟩ : ∃ b, b = encTL 5 ++ encTL V.length ++ V := ⟨_, rfl⟩
  rw [← hbuf] at hat
  have hb : buf.drop 0 = encTL 5 ++ (encTL V.length ++ V) := by rw [hbuf]; simp
  have hlenb : buf.length = tlLen 5 + tlLen V.length + V.length := by
    rw [hbuf, List.length_append, List.length_append, encTL_length, encTL_length]
  have h5 := tlLen_pos 5
  obtain ⟨f, hf⟩ : ∃ f, buf.length = f + 1 := ⟨buf.length - 1, by omega⟩
  have hfuel : loopFuel r = f + 1 + 1 := by
    simp [loopFuel, R.pos_eq r _ 0 hat, R.length_eq r _ 0 hat, hf]
  obtain ⟨r2, a2, l2, d2, e2⟩ := tlvLoop_step R packetBody (f + 1) ({} : PacketSt) r buf 0 5 V.length V hat hb
    (by omega) hL
  obtain ⟨sub, r3, e3, asub, a3⟩ := R.delegate_ok r2 buf _ V.length a2 (by omega)
  have htk : (buf.drop (0 + tlLen 5 + tlLen V.length)).take V.length = V := by rw [d2]; simp
  rw [htk, hV] at asub
  obtain ⟨fs, e4, hv4, hd4, hc4⟩ := parseInterest_at R E S i fn e.sigVal sub hr asub
  have hend : ∀ st' : PacketSt, tlvLoop packetBody (f + 1) st' r3 = .ok (st', r3) :=
    fun st' => tlvLoop_end R packetBody f st' r3 buf _ a3 (by omega)
  have hchk := checkInterest_ok_int i H fn e.sigVal fs hr.est hnt hfn hv4 hd4
  have hpp : parsePacket r = .ok { interest := some fs, ictx := fs } := by
    simp only [parsePacket, hfuel, e2]
    simp [packetBody, e3, e4, hend]
  exact ⟨fs, hpp, hchk, hv4, hc4⟩

theorem readInterest_roundtrip (R : ReaderSpecs) (E : EncSpecs) (S : SigInfoParseSpec)
    (i : InterestIn) (sign H : Bytes → Bytes) (e : Encoded) (fn : Name) (r : Rd) :
    i.Valid → NoTrailingDigest i → (∀ x, (H x).length = 32) → makeInterest i sign H = .ok (e, fn) →
    At r e.wire.flatten 0 →
    ∃ cov, readInterest H r = .ok (interestExpect i fn e.sigVal, cov) ∧ (i.est > 0 → cov = interestCovered i) := by
  intro hv hnt hH hm hat
  obtain ⟨fs, hpp, hchk, hv4, hc4⟩ := parsePacket_interest_int R E S i sign H e fn r hv hnt hH hm hat
  refine ⟨fs.sigCovered, ?_, hc4⟩
  simp only [readInterest, hpp, Res.bind_ok]
  rw [if_pos hchk, hv4]; rfl

/-- the `ReadPacket` variant: no Data element, so the Interest branch is taken -/
theorem readPacket_interest_roundtrip (R : ReaderSpecs) (E : EncSpecs) (S : SigInfoParseSpec)
    (i : InterestIn) (sign H : Bytes → Bytes) (e : Encoded) (fn : Name) (r : Rd) :
    i.Valid → NoTrailingDigest i → (∀ x, (H x).length = 32) → makeInterest i sign H = .ok (e, fn) →
    At r e.wire.flatten 0 →
    ∃ cov, readPacket H r = .ok (.interest (interestExpect i fn e.sigVal) cov) ∧ (i.est > 0 → cov = interestCovered i) := by
  intro hv hnt hH hm hat
  obtain ⟨fs, hpp, hchk, hv4, hc4⟩ := parsePacket_interest_int R E S i sign H e fn r hv hnt hH hm hat
  refine ⟨fs.sigCovered, ?_, hc4⟩
  simp only [readPacket, hpp, Res.bind_ok]
  rw [if_pos hchk, hv4]; rfl

end Ndn.C03
