/-
  C03/LemmasFinal.lean — the property statements assembled from the proof files, still
  parameterised by the encoder facts `E : EncSpecs` (Props.lean instantiates `E := encSpecs`).
-/
import NdnVerif.C03.LemmasReader
import NdnVerif.C03.LemmasWf
import NdnVerif.C03.LemmasData
import NdnVerif.C03.LemmasInterest
import NdnVerif.C03.LemmasName
namespace Ndn.C03

/-- the segments handed to `NewWireReader` by a caller: all non-empty -/
def NonEmptySegs (segs : List Bytes) : Prop := ∀ s ∈ segs, s ≠ []

theorem at_newWireReader_ne (segs : List Bytes) (h : NonEmptySegs segs) :
    At (newWireReader segs) segs.flatten 0 := by
  apply at_newWireReader
  intro i _ hi
  have : segs.getD i [] = segs[i] := by simp [List.getD, List.getElem?_eq_getElem hi]
  rw [this]; exact h _ (List.getElem_mem hi)

section
variable (E : EncSpecs)
include E

theorem makeData_wellFormed_E (d : DataIn) (sign : Bytes → Bytes) (e : Encoded) (hv : d.Valid)
    (hm : makeData d sign = .ok e) : Spec.wfData e.wire.flatten = true := by
  obtain ⟨hfl, hs, _⟩ := E.makeData_flatten d sign e hv hm
  rw [hfl]
  apply wfData_normal E d e.sigVal hv
  rcases Nat.eq_zero_or_pos d.est with h0 | h0
  · -- unsigned: the recorded value is empty
    have : e.sigVal = [] := by
      unfold makeData at hm
      simp [h0] at hm
      rw [← hm]
    simp [this]
  · exact (hs h0).2.2

theorem makeInterest_wellFormed_E (i : InterestIn) (sign H : Bytes → Bytes) (e : Encoded) (fn : Name)
    (hv : i.Valid) (hH : ∀ x, (H x).length = 32) (hm : makeInterest i sign H = .ok (e, fn)) :
    Spec.wfInterest e.wire.flatten = true := by
  obtain ⟨hfn, hfl, hs, h0⟩ := E.makeInterest_flatten i sign H e fn hv hH hm
  rw [hfl, hfn]
  apply wfInterest_final E i H e.sigVal hv hH
  rcases Nat.eq_zero_or_pos i.est with hz | hp
  · simp [(h0 hz).2]
  · exact (hs hp).2.2

theorem readData_makeData_E (d : DataIn) (sign : Bytes → Bytes) (e : Encoded) (r : Rd) (hv : d.Valid)
    (hm : makeData d sign = .ok e) (hr : At r e.wire.flatten 0) :
    ∃ cov, readData r = .ok (dataExpect d e.sigVal, cov) ∧ (d.est > 0 → e.sigCovered = some cov) ∧ (d.est = 0 → cov = []) := by
  obtain ⟨cov, h1, h2, h3⟩ := readData_roundtrip readerSpecs E d sign e r hv hm hr
  obtain ⟨_, hs, _⟩ := E.makeData_flatten d sign e hv hm
  exact ⟨cov, h1, fun he => by rw [(hs he).2.1, h2 he], h3⟩

theorem readInterest_makeInterest_E (i : InterestIn) (sign H : Bytes → Bytes) (e : Encoded) (fn : Name) (r : Rd)
    (hv : i.Valid) (hnt : NoTrailingDigest i) (hH : ∀ x, (H x).length = 32)
    (hm : makeInterest i sign H = .ok (e, fn)) (hr : At r e.wire.flatten 0) :
    ∃ cov, readInterest H r = .ok (interestExpect i fn e.sigVal, cov) ∧ (i.est > 0 → e.sigCovered = some cov) := by
  obtain ⟨cov, h1, h2⟩ := readInterest_roundtrip readerSpecs E (parseSigInfo_at readerSpecs E) i sign H e fn r hv hnt hH hm hr
  obtain ⟨_, _, hs, _⟩ := E.makeInterest_flatten i sign H e fn hv hH hm
  exact ⟨cov, h1, fun he => by rw [(hs he).2.1, h2 he]⟩

/-- segmented decode = contiguous decode of a built Data, for every segmentation -/
theorem readData_segmented_E (d : DataIn) (sign : Bytes → Bytes) (e : Encoded) (segs : List Bytes) (hv : d.Valid)
    (hm : makeData d sign = .ok e) (hne : NonEmptySegs segs) (hj : segs.flatten = e.wire.flatten) :
    readData (newWireReader segs) = readData (newBufferReader e.wire.flatten)
    ∧ ∃ cov, readData (newWireReader segs) = .ok (dataExpect d e.sigVal, cov) := by
  have a1 := at_newWireReader_ne segs hne
  rw [hj] at a1
  obtain ⟨c1, h1, s1, z1⟩ := readData_roundtrip readerSpecs E d sign e _ hv hm a1
  obtain ⟨c2, h2, s2, z2⟩ := readData_roundtrip readerSpecs E d sign e _ hv hm (at_newBufferReader _)
  have : c1 = c2 := by
    rcases Nat.eq_zero_or_pos d.est with h0 | h0
    · rw [z1 h0, z2 h0]
    · rw [s1 h0, s2 h0]
  exact ⟨by rw [h1, h2, this], c1, h1⟩

theorem readInterest_segmented_E (i : InterestIn) (sign H : Bytes → Bytes) (e : Encoded) (fn : Name) (segs : List Bytes)
    (hv : i.Valid) (hnt : NoTrailingDigest i) (hH : ∀ x, (H x).length = 32)
    (hm : makeInterest i sign H = .ok (e, fn)) (hne : NonEmptySegs segs) (hj : segs.flatten = e.wire.flatten) :
    ∃ c1 c2, readInterest H (newWireReader segs) = .ok (interestExpect i fn e.sigVal, c1)
      ∧ readInterest H (newBufferReader e.wire.flatten) = .ok (interestExpect i fn e.sigVal, c2)
      ∧ (i.est > 0 → c1 = c2) := by
  have a1 := at_newWireReader_ne segs hne
  rw [hj] at a1
  obtain ⟨c1, h1, s1⟩ := readInterest_roundtrip readerSpecs E (parseSigInfo_at readerSpecs E) i sign H e fn _ hv hnt hH hm a1
  obtain ⟨c2, h2, s2⟩ := readInterest_roundtrip readerSpecs E (parseSigInfo_at readerSpecs E) i sign H e fn _ hv hnt hH hm
    (at_newBufferReader _)
  exact ⟨c1, c2, h1, h2, fun he => by rw [s1 he, s2 he]⟩

/-- `ReadPacket` on a built Data -/
theorem readPacket_makeData_E (d : DataIn) (sign H : Bytes → Bytes) (e : Encoded) (r : Rd) (hv : d.Valid)
    (hm : makeData d sign = .ok e) (hr : At r e.wire.flatten 0) :
    ∃ cov, readPacket H r = .ok (.data (dataExpect d e.sigVal) cov) := by
  obtain ⟨cov, h1, _, _⟩ := readData_roundtrip readerSpecs E d sign e r hv hm hr
  refine ⟨cov, ?_⟩
  unfold readData at h1
  unfold readPacket
  cases hp : parsePacket r with
  | ok p =>
    rw [hp] at h1
    simp only [Res.bind_ok] at h1 ⊢
    cases hd : p.data with
    | none => simp [hd] at h1
    | some ds =>
      simp only [hd] at h1 ⊢
      split at h1
      · simp at h1
      · rename_i hn
        simp only [Res.pure_eq, Res.ok.injEq, Prod.mk.injEq] at h1
        simp [h1.1, h1.2, dataExpect]
  | err => rw [hp] at h1; simp at h1
  | panic m => rw [hp] at h1; cases h1
  | alloc => rw [hp] at h1; cases h1
  | oom => rw [hp] at h1; cases h1

theorem readPacket_makeInterest_E (i : InterestIn) (sign H : Bytes → Bytes) (e : Encoded) (fn : Name) (r : Rd)
    (hv : i.Valid) (hnt : NoTrailingDigest i) (hH : ∀ x, (H x).length = 32)
    (hm : makeInterest i sign H = .ok (e, fn)) (hr : At r e.wire.flatten 0) :
    ∃ cov, readPacket H r = .ok (.interest (interestExpect i fn e.sigVal) cov) ∧ (i.est > 0 → e.sigCovered = some cov) := by
  obtain ⟨cov, h1, h2⟩ := readPacket_interest_roundtrip readerSpecs E (parseSigInfo_at readerSpecs E) i sign H e fn r hv hnt hH hm hr
  obtain ⟨_, _, hs, _⟩ := E.makeInterest_flatten i sign H e fn hv hH hm
  exact ⟨cov, h1, fun he => by rw [(hs he).2.1, h2 he]⟩

/-- the standalone name encoder writes the same bytes as the packet encoder's name field and as
    the NDN format prescribes; a built Data value starts with them -/
theorem nameBytes_eq_packetName_E (n : Name) :
    nameBytes n = encNameField 7 n ∧ nameBytes n = Spec.encName n
    ∧ ∀ (d : DataIn) (sv : Bytes), d.name = n → ∃ rest, dataValue d sv = nameBytes n ++ rest := by
  refine ⟨rfl, ?_, ?_⟩
  · have hinner : encNameInner n = n.flatMap Spec.encComp := by
      simp only [encNameInner]
      rfl
    simp [nameBytes, Spec.encName, ← hinner, E.nameLen_eq]
  · intro d sv hd
    refine ⟨(encTL 20 ++ encTL (metaLen d.mi) ++ encMeta d.mi)
      ++ optB d.content (fun c => encTL 21 ++ encTL (contentLen c) ++ c.flatten)
      ++ optB d.si (fun s => encTL 22 ++ encTL (sigInfoLen s) ++ encSigInfo s)
      ++ (if d.est > 0 then encTL 23 ++ encTL sv.length ++ sv else []), ?_⟩
    simp [dataValue, dataHead, nameBytes, encNameField, ← hd, List.append_assoc]

end

theorem nameFromBytes_nameBytes_E (E : EncSpecs) (n : Name) (hv : NameValid n) (hl : nameLen n < 2 ^ 62) :
    nameFromBytes (nameBytes n) = .ok n := by
  have R := readerSpecs
  have h0 := at_newBufferReader (nameBytes n)
  have hb : (nameBytes n).drop 0 = encTL 7 ++ (encTL (nameLen n) ++ encNameInner n) := by
    simp [nameBytes, List.append_assoc]
  obtain ⟨r1, e1, a1, _, d1⟩ := readTL_at R _ _ 0 7 _ h0 hb (by omega)
  obtain ⟨r2, e2, a2, _, d2⟩ := readTL_at R r1 _ _ (nameLen n) _ a1 d1 (by omega)
  have hlen : (nameBytes n).length = tlLen 7 + tlLen (nameLen n) + nameLen n := by
    simp [nameBytes, encTL_length, E.nameLen_eq]; omega
  have hcnt : n.length < (nameBytes n).length + 1 := by
    have : ∀ m : Name, 2 * m.length ≤ nameLen m := by
      intro m; induction m with
      | nil => simp [nameLen]
      | cons c cs ih => have := compLen_pos c; simp [nameLen] at ih ⊢; omega
    have := this n; omega
  have e3 := readNameLoop_at R n ((nameBytes n).length + 1) r2 _ _ [] a2 d2 hv hl hcnt
  have hp2 := R.pos_eq r2 _ _ a2
  have hl2 := R.length_eq r2 _ _ a2
  simp only [nameFromBytes, e1, Res.bind_ok, e2, e3, hp2, hl2]
  have h7 : tlLen 7 = 1 := by decide
  simp [hlen, h7]

theorem componentFromBytes_compBytes_E (c : Component) (hc : CompValid c) (hl : c.val.length < 2 ^ 62) :
    componentFromBytes (encComp c) = .ok c := by
  have h0 := at_newBufferReader (encComp c)
  obtain ⟨r1, e1, _, _⟩ := readComponent_at readerSpecs _ _ 0 c [] h0 (by simp) hc hl
  simp [componentFromBytes, e1]

end Ndn.C03
