/-
  C03/DriverLib.lean — replay of the make-ops through the model, shared by the C03 and C12 drivers.
-/
import NdnVerif.C03.Text
import NdnVerif.Driver.Common
namespace Ndn.C03.Drv
open Ndn.C03 Ndn.C03.Text Ndn.Driver

def tk (s : String) (n : Nat) : String := (s.take n).toString

/-- what is known about the last packet built in a history -/
structure Mk where
  kind : Char
  w : Bytes                       -- the implementation's wire (joined)
  signer : String
  signed : Bool                   -- a signature value was produced
  handedCov : Option Bytes        -- what the implementation's signer was handed (recorded)
  sv : Option Bytes               -- recorded signature value
  sigType : Option Nat
  expectText : Option String      -- spec: text the decoder must produce (from the op's inputs)
  refText : Option String := none -- the implementation's own contiguous decode
  nontrivial : Bool := false
  hasParams : Bool := false
  segLens : List Nat := []        -- buffer lengths of the implementation's wire as returned

structure MkResult where
  expected : String
  built : Option Mk
  spec : List SpecFail := []
  cov : List String := []

def shippedDataSigners : List String := ["sha", "hmac", "hmaccert", "ecc", "ecccert", "rsa", "rsacert", "ecc224", "ecc384", "ecc521", "ecccert521"]
def shippedIntSigners : List String := ["shaint", "hmacint", "eccint", "rsaint", "sha", "hmac", "ecc", "rsa", "eccint224", "eccint384", "eccint521", "ecc521", "ecc384", "ecc224"]

/-- signer token without "@keyname" and ":params" -/
def sigBase (tok : String) : String :=
  ((((tok.splitOn "@").headD tok).splitOn "~").headD tok |>.splitOn ":").headD tok

def stripCov (s : String) : String :=
  match s.splitOn " cov=" with
  | a :: _ => a
  | [] => s

def bigElem (n : Name) (bufs : Option (List Bytes)) : Bool :=
  n.any (fun c => c.val.length ≥ 253) || nameLen n ≥ 253 || ((bufs.getD []).flatten.length ≥ 253)

/-- spec-side SignatureInfo the decoder must report for a Data signed with config `c` -/
def specDataSigInfo (c : SigCfg) : SigInfo :=
  { typ := c.typ.toNat, keyLoc := c.keyName.map (fun n => { name := some n }),
    validity := match c.notBefore, c.notAfter with | some a, some b => some (a, b) | _, _ => none }

def specInterestSigInfo (c : SigCfg) : SigInfo :=
  { typ := c.typ.toNat, keyLoc := if c.typ = 0 then none else c.keyName.map (fun n => { name := some n }),
    nonce := c.nonce, time := c.time, seq := c.seq }

def recEcho (r : Rec) : String := s!"est={r.est} sc={r.scRaw}"

def segsOf (gt : List String) : List Nat :=
  match kv gt "segs" with
  | some s => (s.splitOn ",").filterMap String.toNat?
  | none => []
def segsEcho (gt : List String) : String := " segs=" ++ (kv gt "segs").getD ""

def runMkd (f : List String) (got : String) : MkResult :=
  let gt := got.splitOn " "
  match mkdOf f, recOf gt with
  | some op, some rec =>
    let implOk := gt.head? == some "ok"
    let implW := (kv gt "w").bind bytesOfHex
    -- model
    let mi : MetaInfo := { ct := op.ct, fresh := op.fr, fb := op.fb.map encComp }
    let (expected, covTags) :=
      match dataSigSetup rec.sc rec.est with
      | .ok (si, est) =>
        let d : DataIn := { name := op.name, mi := mi, content := op.content, si := si, est := est }
        if est > 0 ∧ rec.sv.isNone then ("ok (model builds; the signer was never called)", ["mkd-nosig"])
        else match makeData d (fun _ => rec.sv.getD []) with
          | .ok e =>
            let covS := match e.sigCovered with | some c => hexOrDash c | none => "nil"
            (s!"ok w={hexOrDash e.wire.flatten} {recEcho rec} sv={hexNil (if est > 0 then some e.sigVal else none)} cov={covS} rc={covS}{segsEcho gt}",
             [if est > 0 then "mkd-signed" else "mkd-unsigned",
              if e.wire.map List.length == segsOf gt then "segs-match" else "segs-differ",
              (match decTL (e.wire.flatten.drop 1) with
               | some (l, _) => if tlLen l < tlLen (dataLen d) then "outer-len-narrowed" else "outer-len-same"
               | none => "outer-len-same"),
              if op.content.isSome then "data-content" else "data-nocontent"] ++
             (if est > 0 ∧ e.sigVal.length < est then ["sig-shrink"] else []) ++
             (if est ≥ 253 then ["sig-est-ge253"] else []) ++
             (if est > 0 ∧ tlLen e.sigVal.length < tlLen est then ["sig-len-narrowed"] else []))
          | r => (resText (r.bind fun _ => .ok "") ++ s!" {recEcho rec}", ["mkd-err"])
      | _ => (s!"err {recEcho rec}", ["mkd-err"])
    -- spec on the implementation's output
    let shipped := shippedDataSigners.contains (sigBase op.signer)
    let spec : List SpecFail :=
      (if isCrash got then [⟨"no-panic", "mkd", s!"MakeData crashed: {(tk got 200)}"⟩] else []) ++
      (if !implOk ∧ !isCrash got ∧ shipped then
        [⟨"builds", "data-" ++ op.signer, "MakeData refused a shipped signer on valid input"⟩] else []) ++
      (match implW with
       | some w => if implOk ∧ !Spec.wfData w then
           [⟨"wellformed", "data-" ++ sigBase op.signer, "MakeData output is not a well-formed TLV with exact lengths"⟩] else []
       | none => []) ++
      -- the SigCovered the API returns must be the signed portion of the wire it returns
      (match implOk, implW, kv gt "rc" with
       | true, some w, some rcTxt =>
         if rcTxt != "nil" ∧ rec.sv.isSome ∧ bytesOfHex rcTxt != some (Spec.signedPortion w) then
           [⟨"covered-returned", "data-" ++ sigBase op.signer,
             s!"the SigCovered bytes returned with the packet ({tk rcTxt 80}…) are not the signed portion of the returned wire"⟩] else []
       | _, _, _ => [])
    let mk : Option Mk :=
      match implOk, implW with
      | true, some w =>
        let signed := rec.sv.isSome
        let exp : DataP := { name := some op.name,
                             mi := some { ct := op.ct, fresh := op.fr, fb := op.fb.map Spec.encComp },
                             content := op.content.map List.flatten,
                             si := match rec.sc with | some c => if c.typ = -1 then none else some (specDataSigInfo c) | none => none,
                             sv := rec.sv }
        let txt := dataText exp (Spec.signedPortion w)
        some { kind := 'D', w := w, signer := op.signer, signed := signed,
               handedCov := (kv gt "cov").bind fun s => if s == "nil" then none else bytesOfHex s,
               sv := rec.sv, sigType := rec.sc.map (·.typ.toNat), segLens := segsOf gt,
               expectText := some (if signed then txt else stripCov txt),
               nontrivial := bigElem op.name op.content || (op.content.getD []).length ≥ 2 ||
                 ([op.ct.isSome, op.fr.isSome, op.fb.isSome, rec.sc.isSome].filter id).length ≥ 2 }
      | _, _ => none
    { expected := expected, built := mk, spec := spec, cov := covTags }
  | _, _ =>
    if isCrash got then { expected := "no-crash", built := none, spec := [⟨"no-panic", "mkd", (tk got 200)⟩] }
    else { expected := "bad-op", built := none }

def runMki (f : List String) (got : String) : MkResult :=
  let gt := got.splitOn " "
  match mkiOf f, recOf gt with
  | some op, some rec =>
    let implOk := gt.head? == some "ok"
    let implW := (kv gt "w").bind bytesOfHex
    let need := op.ap.isSome
    let (expected, covTags) :=
      match interestSigSetup rec.sc rec.est need with
      | .ok (si, est) =>
        let i : InterestIn := { name := op.name, cbp := op.cbp, mbf := op.mbf, fh := op.fh, nonce := op.nonce,
                                lt := op.lt, hl := op.hl, ap := op.ap, si := si, est := est }
        if est > 0 ∧ rec.sv.isNone then ("ok (model builds; the signer was never called)", ["mki-nosig"])
        else match makeInterest i (fun _ => rec.sv.getD []) Sha.sha256 with
          | .ok (e, fn) =>
            let covS := match e.sigCovered with | some c => hexOrDash c | none => "nil"
            (s!"ok w={hexOrDash e.wire.flatten} {recEcho rec} sv={hexNil (if est > 0 then some e.sigVal else none)} cov={covS} rc={covS} fn={Name.toText fn}{segsEcho gt}",
             [if est > 0 then "mki-signed" else "mki-unsigned", if need then "interest-digest" else "interest-noparams",
              if e.wire.map List.length == segsOf gt then "segs-match" else "segs-differ",
              (match decTL (e.wire.flatten.drop 1) with
               | some (l, _) => if tlLen l < tlLen (interestLen i (interestName op.name need)) then "outer-len-narrowed" else "outer-len-same"
               | none => "outer-len-same")] ++
             (if est > 0 ∧ e.sigVal.length < est then ["sig-shrink"] else []) ++
             (if est ≥ 253 then ["sig-est-ge253"] else []))
          | r => (resText (r.bind fun _ => .ok "") ++ s!" {recEcho rec}", ["mki-err"])
      | _ => (s!"err {recEcho rec}", ["mki-err"])
    let shipped := shippedIntSigners.contains (sigBase op.signer)
    -- HopLimit is one byte on the wire: a configured value above 255 cannot be carried; the builder has to refuse
    -- it (F-03h) — cutting it down to its low byte silently sends ANOTHER hop limit (256 leaves as 0)
    let hlBad : Bool := match op.hl with | some h => decide (h > 255) | none => false
    let expected := if hlBad then got else expected
    let spec : List SpecFail :=
      (if hlBad ∧ implOk then
        [⟨"fields-survive", "hoplimit-out-of-range", s!"MakeInterest built a packet for HopLimit {op.hl.getD 0}: one byte on the wire, the decoded packet carries {op.hl.getD 0 % 256}"⟩] else []) ++
      (if isCrash got then [⟨"no-panic", "mki", s!"MakeInterest crashed: {(tk got 200)}"⟩] else []) ++
      (if !implOk ∧ !isCrash got ∧ shipped ∧ need ∧ !hlBad then
        [⟨"builds", "interest-" ++ op.signer, "MakeInterest refused a shipped signer on valid input"⟩] else []) ++
      (match implW with
       | some w => if implOk ∧ !Spec.wfInterest w then
           [⟨"wellformed", "interest-" ++ sigBase op.signer, "MakeInterest output is not a well-formed TLV with exact lengths"⟩] else []
       | none => []) ++
      -- the SigCovered the API returns must be the signed portion of the wire it returns
      (match implOk, implW, kv gt "rc" with
       | true, some w, some rcTxt =>
         if rcTxt != "nil" ∧ rec.sv.isSome ∧ bytesOfHex rcTxt != some (Spec.signedPortion w) then
           [⟨"covered-returned", "interest-" ++ sigBase op.signer,
             s!"the SigCovered bytes returned with the packet ({tk rcTxt 80}…) are not the signed portion of the returned wire"⟩] else []
       | _, _, _ => []) ++
      -- the FinalName the API returns must be the name the returned wire carries
      (match implOk, implW, kv gt "fn" with
       | true, some w, some fnTxt =>
         let carried := (Spec.elements w).bind fun (_, ts) => (Spec.findT ts 7).bind fun t =>
           (Spec.tlvs t.val).map fun cs => (cs.map fun c => (⟨c.typ, c.val⟩ : Component))
         match carried with
         | some n => if Name.toText n ≠ fnTxt then
             [⟨"final-name", "interest-" ++ sigBase op.signer,
               s!"EncodedInterest.FinalName {tk fnTxt 200} differs from the name in the returned wire {tk (Name.toText n) 200}"⟩] else []
         | none => []
       | _, _, _ => [])
    let mk : Option Mk :=
      match implOk, implW with
      | true, some w =>
        let signed := rec.sv.isSome
        -- the name the decoder must report: the given name without a trailing digest component,
        -- plus the digest of the parameters portion when parameters are present
        let base := match op.name.getLast? with | some c => if c.typ = 2 then op.name.dropLast else op.name | none => op.name
        let fn := match Spec.digestPortion w, need with
          | some p, true => base ++ [⟨2, Sha.sha256 p⟩]
          | _, _ => base
        let exp : InterestP := { name := some fn, cbp := op.cbp, mbf := op.mbf, fh := op.fh, nonce := op.nonce, lt := op.lt,
                                 hl := op.hl, ap := op.ap.map List.flatten,
                                 si := match rec.sc with | some c => if c.typ = -1 then none else some (specInterestSigInfo c) | none => none,
                                 sv := rec.sv }
        let txt := interestText exp (Spec.signedPortion w)
        some { kind := 'I', w := w, signer := op.signer, signed := signed,
               handedCov := (kv gt "cov").bind fun s => if s == "nil" then none else bytesOfHex s,
               sv := rec.sv, sigType := rec.sc.map (·.typ.toNat), hasParams := need, segLens := segsOf gt,
               -- guard (NoTrailingDigest): without parameters the encoder drops ONE trailing digest
               -- component; a name that still ends in one is rejected by the decoder by design
               expectText := if !need ∧ (base.getLast?.map (·.typ)) == some 2 then none
                             else some (if signed then txt else stripCov txt),
               nontrivial := bigElem op.name op.ap || (op.ap.getD []).length ≥ 2 ||
                 ([op.cbp, op.mbf, op.fh.isSome, op.nonce.isSome, op.lt.isSome, op.hl.isSome, op.ap.isSome, rec.sc.isSome].filter id).length ≥ 2 }
      | _, _ => none
    { expected := expected, built := mk, spec := spec, cov := covTags }
  | _, _ =>
    if isCrash got then { expected := "no-crash", built := none, spec := [⟨"no-panic", "mki", (tk got 200)⟩] }
    else { expected := "bad-op", built := none }

/-- model decode of the implementation's wire with the given cut spec -/
def modelRead (kind : Char) (w : Bytes) (cuts : String) (own : List Nat := []) : String :=
  match readerOf w cuts own with
  | some r => resText (readAs kind r)
  | none => "bad-op"

end Ndn.C03.Drv
