/-
  C03/LemmasEncInterest.lean — MakeInterest output in normal form (`EncSpecs.makeInterest_flatten`).
-/
import NdnVerif.C03.LemmasEncData
namespace Ndn.C03

/-! ### head of the Interest value -/

/-- everything in the head after the name -/
def ihRest_enc (i : InterestIn) : Bytes :=
  boolField 33 i.cbp ++ boolField 18 i.mbf
  ++ optB i.fh (fun ns => encTL 30 ++ encTL (linksLen ns) ++ encLinks ns)
  ++ optB i.nonce encNonce ++ optB i.lt (encNatField 12) ++ optB i.hl encHopLimit

theorem interestHead_split_enc (i : InterestIn) (fn : Name) :
    interestHead i fn = encNameField 7 fn ++ ihRest_enc i := by
  simp [interestHead, ihRest_enc]

theorem boolField_length_enc (t : Nat) (ht : t ≤ 252) (b : Bool) :
    (boolField t b).length = boolFieldLen b := by
  cases b <;> simp [boolField, boolFieldLen, encTL_length, tlLen_small_enc ht]

theorem ihRest_length_enc (i : InterestIn) :
    (ihRest_enc i).length = boolFieldLen i.cbp + boolFieldLen i.mbf
      + optN i.fh (fun ns => 1 + tlLen (linksLen ns) + linksLen ns)
      + optN i.nonce (fun _ => 6) + optN i.lt (natFieldLen 12) + optN i.hl (fun _ => 3) := by
  have h1 : ∀ ns : List Name, (encTL 30 ++ encTL (linksLen ns) ++ encLinks ns).length
      = 1 + tlLen (linksLen ns) + linksLen ns := by
    intro ns
    simp only [List.length_append, encTL_length, linksLen_eq_thm, tlLen_small_enc (by omega : 30 ≤ 252)]
  have h2 : ∀ x : Nat, (encNonce x).length = 6 := by intro x; simp [encNonce]
  have h3 : ∀ x : Nat, (encHopLimit x).length = 3 := by intro x; simp [encHopLimit]
  simp only [ihRest_enc, List.length_append, boolField_length_enc 33 (by omega),
    boolField_length_enc 18 (by omega), optB_length _ _ _ h1, optB_length _ _ (fun _ => 6) h2,
    optB_length _ _ _ (encNatField_length 12), optB_length _ _ (fun _ => 3) h3]

theorem interestHead_length_enc (i : InterestIn) (fn : Name) :
    (interestHead i fn).length = interestHeadLen i fn := by
  rw [interestHead_split_enc, List.length_append, ihRest_length_enc, encNameField_length]
  unfold interestHeadLen; omega

/-! ### the name -/

theorem interestName_eq_enc (n : Name) (b : Bool) :
    interestName n b = if b then stripDigest n ++ [digestComp (List.replicate 32 0)] else stripDigest n := rfl

theorem nameLen_append_enc (a b : Name) : nameLen (a ++ b) = nameLen a + nameLen b := by
  simp [nameLen, List.sum_append]

theorem encNameInner_append_enc (a b : Name) : encNameInner (a ++ b) = encNameInner a ++ encNameInner b := by
  simp [encNameInner]

theorem nameLen_digest_enc (base : Name) (v : Bytes) (hv : v.length = 32) :
    nameLen (base ++ [digestComp v]) = nameLen base + 34 := by
  rw [nameLen_append_enc]
  simp [nameLen, compLen, digestComp, hv, tlLen]

theorem encNameInner_digest_enc (base : Name) (v : Bytes) (hv : v.length = 32) :
    encNameInner (base ++ [digestComp v]) = encNameInner base ++ [2, 32] ++ v := by
  rw [encNameInner_append_enc]
  simp [encNameInner, encComp, digestComp, hv, encTL]

/-! ### the digest patch -/

theorem patchDigest_app_enc (A Z rest dg : Bytes) (pos : Nat) (hA : A.length = pos) (hZ : Z.length = 32) :
    patchDigest (A ++ Z ++ rest) pos dg = A ++ dg ++ rest := by
  unfold patchDigest
  have h1 : (A ++ Z ++ rest).take pos = A := by
    rw [List.append_assoc]; exact List.take_left' hA
  have h2 : (A ++ Z ++ rest).drop (pos + 32) = rest :=
    List.drop_left' (by simp [hA, hZ])
  rw [h1, h2]

/-- the first segment of an Interest with parameters: the digest patch replaces the placeholder -/
theorem patchDigest_seg0_enc (len : Nat) (base : Name) (dg rest : Bytes) (hdg : dg.length = 32) :
    patchDigest (encTL 5 ++ encTL len ++ (encNameField 7 (base ++ [digestComp (List.replicate 32 0)]) ++ rest))
        (tlLen 5 + tlLen len + (tlLen 7 + tlLen (nameLen (base ++ [digestComp (List.replicate 32 0)]))
          + nameLen base + 2)) dg
      = encTL 5 ++ encTL len ++ (encNameField 7 (base ++ [digestComp dg]) ++ rest) := by
  have hz : (List.replicate 32 0 : Bytes).length = 32 := by simp
  have hnl : nameLen (base ++ [digestComp (List.replicate 32 0)]) = nameLen (base ++ [digestComp dg]) := by
    rw [nameLen_digest_enc _ _ hz, nameLen_digest_enc _ _ hdg]
  have e1 : encTL 5 ++ encTL len ++ (encNameField 7 (base ++ [digestComp (List.replicate 32 0)]) ++ rest)
      = (encTL 5 ++ encTL len ++ encTL 7 ++ encTL (nameLen (base ++ [digestComp dg])) ++ encNameInner base ++ [2, 32])
        ++ List.replicate 32 0 ++ rest := by
    unfold encNameField
    rw [encNameInner_digest_enc _ _ hz, hnl]
    simp only [List.append_assoc]
  have e2 : encTL 5 ++ encTL len ++ (encNameField 7 (base ++ [digestComp dg]) ++ rest)
      = (encTL 5 ++ encTL len ++ encTL 7 ++ encTL (nameLen (base ++ [digestComp dg])) ++ encNameInner base ++ [2, 32])
        ++ dg ++ rest := by
    unfold encNameField
    rw [encNameInner_digest_enc _ _ hdg]
    simp only [List.append_assoc]
  rw [e1, e2, hnl]
  apply patchDigest_app_enc _ _ _ _ _ _ hz
  simp only [List.length_append, encTL_length, nameLen_eq_thm, List.length_cons, List.length_nil]
  omega

/-! ### MakeInterest step by step (ApplicationParameters present) -/

def iFn0_enc (i : InterestIn) : Name := interestName i.name true
def iSv_enc (i : InterestIn) (sign : Bytes → Bytes) : Bytes :=
  if i.est > 0 then sign (interestSigCovered i (iFn0_enc i)) else []
def iW0_enc (i : InterestIn) : List Bytes :=
  wrapPacket 5 (interestLen i (iFn0_enc i)) (interestSegs i (iFn0_enc i))
def iW1_enc (i : InterestIn) (sign : Bytes → Bytes) : List Bytes :=
  if i.est > 0 then patchSig (iW0_enc i) (interestSigIdx i) i.est (iSv_enc i sign) else iW0_enc i
def iDg_enc (i : InterestIn) (sign H : Bytes → Bytes) (c : List Bytes) : Bytes :=
  H (encTL 36 ++ encTL (contentLen c) ++ ((iW1_enc i sign).drop 1).flatten)
def iPos_enc (i : InterestIn) : Nat :=
  tlLen 5 + tlLen (interestLen i (iFn0_enc i))
    + (tlLen 7 + tlLen (nameLen (iFn0_enc i)) + nameLen (iFn0_enc i).dropLast + 2)
def iW2_enc (i : InterestIn) (sign H : Bytes → Bytes) (c : List Bytes) : List Bytes :=
  (iW1_enc i sign).set 0 (patchDigest ((iW1_enc i sign).getD 0 []) (iPos_enc i) (iDg_enc i sign H c))
def iShrink_enc (i : InterestIn) (sign : Bytes → Bytes) : Nat :=
  if i.est > 0 then fixSigShrink i.est (iSv_enc i sign).length else 0
def iCov_enc (i : InterestIn) : Option Bytes :=
  if i.est > 0 then some (interestSigCovered i (iFn0_enc i)) else none
def iFn1_enc (i : InterestIn) (sign H : Bytes → Bytes) (c : List Bytes) : Name :=
  (iFn0_enc i).dropLast ++ [digestComp (iDg_enc i sign H c)]

theorem makeInterest_some_toolong_enc (i : InterestIn) (sign H : Bytes → Bytes) (c : List Bytes)
    (hap : i.ap = some c) (hlong : (iSv_enc i sign).length > i.est) : makeInterest i sign H = .err := by
  unfold makeInterest
  rw [hap]
  dsimp only [Option.isSome, Option.isNone]
  rw [if_neg (by simp)]
  exact if_pos hlong

theorem makeInterest_some_eq_enc (i : InterestIn) (sign H : Bytes → Bytes) (c : List Bytes)
    (hap : i.ap = some c) (hle : (iSv_enc i sign).length ≤ i.est) :
    makeInterest i sign H =
      if iShrink_enc i sign > 0 then
        (shrinkLength ((iW2_enc i sign H c).getD 0 []) (iShrink_enc i sign)) >>= fun w0 =>
          pure (Encoded.mk ((iW2_enc i sign H c).set 0 w0) (iCov_enc i) (iSv_enc i sign), iFn1_enc i sign H c)
      else pure (Encoded.mk (iW2_enc i sign H c) (iCov_enc i) (iSv_enc i sign), iFn1_enc i sign H c) := by
  unfold makeInterest
  rw [hap]
  dsimp only [Option.isSome, Option.isNone]
  rw [if_neg (by simp)]
  have hle' : ¬ (iSv_enc i sign).length > i.est := by omega
  exact if_neg hle'

/-- the SignatureInfo TLV of an Interest -/
def interestSI_enc (i : InterestIn) : Bytes :=
  optB i.si (fun s => encTL 44 ++ encTL (sigInfoLen s) ++ encSigInfo s)

/-- the SignatureValue TLV (absent when unsigned) -/
def sigValTLV_enc (t est : Nat) (sv : Bytes) : Bytes :=
  if est > 0 then encTL t ++ encTL sv.length ++ sv else []

theorem interestParamsPortion_some_enc (i : InterestIn) (c : List Bytes) (hap : i.ap = some c) (sv : Bytes) :
    interestParamsPortion i sv = encTL 36 ++ encTL (contentLen c) ++ (c.flatten ++ (interestSI_enc i
      ++ sigValTLV_enc 46 i.est sv)) := by
  unfold interestParamsPortion interestSI_enc sigValTLV_enc
  rw [hap]; simp [optB]

theorem iFn0_eq_enc (i : InterestIn) : iFn0_enc i = stripDigest i.name ++ [digestComp (List.replicate 32 0)] := rfl

theorem iFn0_dropLast_enc (i : InterestIn) : (iFn0_enc i).dropLast = stripDigest i.name := by
  rw [iFn0_eq_enc]; simp

theorem interestSigCovered_some_enc (i : InterestIn) (c : List Bytes) (hap : i.ap = some c) :
    interestSigCovered i (iFn0_enc i) = interestCovered i := by
  unfold interestSigCovered interestCovered
  rw [hap]
  simp [iFn0_dropLast_enc, optB]

/-- shape of the wire after the signature patch: first segment untouched, parameter buffers, then
    segments that join to SignatureInfo ++ SignatureValue -/
theorem iW1_shape_enc (i : InterestIn) (sign : Bytes → Bytes) (c : List Bytes) (hap : i.ap = some c) :
    ∃ T : List Bytes, iW1_enc i sign
        = (encTL 5 ++ encTL (interestLen i (iFn0_enc i))
            ++ (interestHead i (iFn0_enc i) ++ (encTL 36 ++ encTL (contentLen c)))) :: (c ++ T)
      ∧ T.flatten = interestSI_enc i ++ sigValTLV_enc 46 i.est (iSv_enc i sign) := by
  cases Nat.eq_zero_or_pos i.est with
  | inl h0 =>
    refine ⟨if interestTail i = [] then [] else [interestTail i], ?_, ?_⟩
    · unfold iW1_enc iW0_enc
      rw [if_neg (by omega)]
      simp [wrapPacket, interestSegs, hap, h0]
    · rw [ifNil_flatten_enc]
      simp [interestTail, sigTL, sigValTLV_enc, h0, interestSI_enc]
  | inr hp =>
    refine ⟨[(interestSI_enc i ++ encTL 46) ++ encTL (iSv_enc i sign).length, iSv_enc i sign], ?_, ?_⟩
    · unfold iW1_enc
      rw [if_pos hp]
      have hW : iW0_enc i = ((encTL 5 ++ encTL (interestLen i (iFn0_enc i))
            ++ (interestHead i (iFn0_enc i) ++ (encTL 36 ++ encTL (contentLen c)))) :: c)
          ++ [(interestSI_enc i ++ encTL 46) ++ encTL i.est, []] := by
        simp [iW0_enc, wrapPacket, interestSegs, hap, hp, interestTail, sigTL, interestSI_enc]
      have hidx : interestSigIdx i = ((encTL 5 ++ encTL (interestLen i (iFn0_enc i))
            ++ (interestHead i (iFn0_enc i) ++ (encTL 36 ++ encTL (contentLen c)))) :: c).length + 1 := by
        simp [interestSigIdx, hap]
      rw [hW, hidx, patchSig_app_enc]
      simp
    · simp [sigValTLV_enc, hp]

theorem interestValue_length_enc (i : InterestIn) (fn : Name) (sv : Bytes) :
    (interestValue i fn sv).length = interestHeadLen i fn
      + optN i.ap (fun c => 1 + tlLen (contentLen c) + contentLen c)
      + optN i.si (fun s => 1 + tlLen (sigInfoLen s) + sigInfoLen s)
      + (if i.est > 0 then 1 + tlLen sv.length + sv.length else 0) := by
  unfold interestValue interestParamsPortion
  simp only [List.length_append, interestHead_length_enc, siTLV_length_enc 44 (by omega),
    contentTLV_length_enc 36 (by omega)]
  split <;> simp [encTL_length, tlLen_small_enc] <;> omega

theorem interestHeadLen_digest_enc (i : InterestIn) (base : Name) (v w : Bytes) (hv : v.length = 32)
    (hw : w.length = 32) :
    interestHeadLen i (base ++ [digestComp v]) = interestHeadLen i (base ++ [digestComp w]) := by
  unfold interestHeadLen nameFieldLen
  rw [nameLen_digest_enc _ _ hv, nameLen_digest_enc _ _ hw]

theorem makeInterest_some_thm (i : InterestIn) (sign H : Bytes → Bytes) (e : Encoded) (fn : Name)
    (c : List Bytes) (hv : i.Valid) (hH : ∀ x, (H x).length = 32) (hap : i.ap = some c)
    (hm : makeInterest i sign H = .ok (e, fn)) :
    fn = interestFinalName i H e.sigVal
    ∧ e.wire.flatten = encTL 5 ++ encTL (interestValue i fn e.sigVal).length ++ interestValue i fn e.sigVal
    ∧ (i.est > 0 → e.sigVal = sign (interestCovered i) ∧ e.sigCovered = some (interestCovered i) ∧ e.sigVal.length ≤ i.est)
    ∧ (i.est = 0 → e.sigCovered = none ∧ e.sigVal = []) := by
  cases Nat.lt_or_ge i.est (iSv_enc i sign).length with
  | inl hlong => rw [makeInterest_some_toolong_enc i sign H c hap hlong] at hm; cases hm
  | inr hle =>
  rw [makeInterest_some_eq_enc i sign H c hap hle] at hm
  obtain ⟨T, hW1, hT⟩ := iW1_shape_enc i sign c hap
  have hL : interestLen i (iFn0_enc i) + 16 < 2 ^ 62 := by
    have := hv.2.2.2.2.2.2.2
    rw [hap] at this; exact this
  -- the digest
  have hdg : iDg_enc i sign H c = H (interestParamsPortion i (iSv_enc i sign)) := by
    unfold iDg_enc
    rw [hW1, interestParamsPortion_some_enc i c hap]
    simp [hT]
  have hdgl : (iDg_enc i sign H c).length = 32 := by rw [hdg]; exact hH _
  have hfn1 : iFn1_enc i sign H c = stripDigest i.name ++ [digestComp (iDg_enc i sign H c)] := by
    unfold iFn1_enc; rw [iFn0_dropLast_enc]
  have hfinal : iFn1_enc i sign H c = interestFinalName i H (iSv_enc i sign) := by
    rw [hfn1, hdg]; unfold interestFinalName; rw [hap]; rfl
  -- the wire after the digest patch
  have hW2 : iW2_enc i sign H c
      = (encTL 5 ++ encTL (interestLen i (iFn0_enc i))
          ++ (interestHead i (iFn1_enc i sign H c) ++ (encTL 36 ++ encTL (contentLen c)))) :: (c ++ T) := by
    unfold iW2_enc
    rw [hW1]
    simp only [List.getD_cons_zero, List.set_cons_zero]
    congr 1
    rw [interestHead_split_enc, interestHead_split_enc, hfn1, List.append_assoc (encNameField 7 _),
      List.append_assoc (encNameField 7 _)]
    have hpos : iPos_enc i = tlLen 5 + tlLen (interestLen i (iFn0_enc i))
        + (tlLen 7 + tlLen (nameLen (stripDigest i.name ++ [digestComp (List.replicate 32 0)]))
          + nameLen (stripDigest i.name) + 2) := by
      unfold iPos_enc; rw [iFn0_dropLast_enc]; rfl
    rw [hpos, iFn0_eq_enc]
    exact patchDigest_seg0_enc _ _ _ _ hdgl
  -- lengths
  have hmono := tlLen_mono_enc hle
  have hlen : interestLen i (iFn0_enc i) - iShrink_enc i sign
      = (interestValue i (iFn1_enc i sign H c) (iSv_enc i sign)).length := by
    rw [interestValue_length_enc, hfn1,
      interestHeadLen_digest_enc i _ _ (List.replicate 32 0) hdgl (by simp), ← iFn0_eq_enc]
    unfold interestLen sigTLLen iShrink_enc fixSigShrink
    have h46 : tlLen 46 = 1 := by decide
    split <;> omega
  have hshle : iShrink_enc i sign ≤ interestLen i (iFn0_enc i) := by
    unfold interestLen sigTLLen iShrink_enc fixSigShrink
    split <;> omega
  have hval : interestValue i (iFn1_enc i sign H c) (iSv_enc i sign)
      = interestHead i (iFn1_enc i sign H c) ++ (encTL 36 ++ encTL (contentLen c)) ++ (c ++ T).flatten := by
    unfold interestValue
    rw [interestParamsPortion_some_enc i c hap]
    simp [hT]
  -- signature facts
  have hsig : (i.est > 0 → iSv_enc i sign = sign (interestCovered i) ∧ iCov_enc i = some (interestCovered i)
        ∧ (iSv_enc i sign).length ≤ i.est)
      ∧ (i.est = 0 → iCov_enc i = none ∧ iSv_enc i sign = []) := by
    refine ⟨fun hp => ⟨?_, ?_, hle⟩, fun h0 => ⟨?_, ?_⟩⟩
    · unfold iSv_enc; rw [if_pos hp, interestSigCovered_some_enc i c hap]
    · unfold iCov_enc; rw [if_pos hp, interestSigCovered_some_enc i c hap]
    · unfold iCov_enc; rw [if_neg (by omega)]
    · unfold iSv_enc; rw [if_neg (by omega)]
  split at hm
  · -- ShrinkLength runs
    have hs := shrinkLength_spec 5 (interestLen i (iFn0_enc i)) (iShrink_enc i sign)
      (interestHead i (iFn1_enc i sign H c) ++ (encTL 36 ++ encTL (contentLen c))) (by omega) (by omega) hshle
    rw [hW2] at hm
    simp only [List.getD_cons_zero, List.set_cons_zero] at hm
    rw [hs, Res.bind_ok] at hm
    injection hm with hm
    injection hm with he hf
    subst he; subst hf
    refine ⟨hfinal, ?_, hsig.1, hsig.2⟩
    show ((_ :: (c ++ T)) : List Bytes).flatten = _
    rw [List.flatten_cons, hlen, hval]
    simp only [List.append_assoc]
  · rename_i hns
    have hz : iShrink_enc i sign = 0 := by omega
    rw [hz, Nat.sub_zero] at hlen
    injection hm with hm
    injection hm with he hf
    subst he; subst hf
    refine ⟨hfinal, ?_, hsig.1, hsig.2⟩
    show (iW2_enc i sign H c).flatten = _
    rw [hW2, List.flatten_cons, hlen, hval]
    simp only [List.append_assoc]

/-! ### no ApplicationParameters (hence unsigned) -/

theorem makeInterest_none_eq_enc (i : InterestIn) (sign H : Bytes → Bytes) (hap : i.ap = none) (h0 : i.est = 0) :
    makeInterest i sign H = .ok (Encoded.mk (wrapPacket 5 (interestLen i (stripDigest i.name))
      (interestSegs i (stripDigest i.name))) none [], stripDigest i.name) := by
  unfold makeInterest
  rw [hap, h0]
  dsimp only [Option.isSome, Option.isNone]
  simp only [Nat.lt_irrefl, gt_iff_lt, false_and, if_false, List.length_nil]
  rfl

theorem makeInterest_none_thm (i : InterestIn) (sign H : Bytes → Bytes) (e : Encoded) (fn : Name)
    (hv : i.Valid) (hap : i.ap = none) (hm : makeInterest i sign H = .ok (e, fn)) :
    fn = interestFinalName i H e.sigVal
    ∧ e.wire.flatten = encTL 5 ++ encTL (interestValue i fn e.sigVal).length ++ interestValue i fn e.sigVal
    ∧ (i.est > 0 → e.sigVal = sign (interestCovered i) ∧ e.sigCovered = some (interestCovered i) ∧ e.sigVal.length ≤ i.est)
    ∧ (i.est = 0 → e.sigCovered = none ∧ e.sigVal = []) := by
  have h0 : i.est = 0 := by
    cases Nat.eq_zero_or_pos i.est with
    | inl h => exact h
    | inr h => have := hv.2.2.2.2.2.2.1 h; rw [hap] at this; cases this
  rw [makeInterest_none_eq_enc i sign H hap h0] at hm
  injection hm with hm
  injection hm with he hf
  subst he; subst hf
  refine ⟨?_, ?_, fun h => by omega, fun _ => ⟨rfl, rfl⟩⟩
  · unfold interestFinalName; rw [hap]; rfl
  · show (wrapPacket 5 _ _).flatten = encTL 5 ++ encTL (interestValue i (stripDigest i.name) []).length
        ++ interestValue i (stripDigest i.name) []
    have hval : (interestSegs i (stripDigest i.name)).flatten = interestValue i (stripDigest i.name) [] := by
      unfold interestSegs interestValue interestParamsPortion interestTail sigTL
      rw [hap, h0]; simp [optB]
    have hlen : interestLen i (stripDigest i.name) = (interestValue i (stripDigest i.name) []).length := by
      rw [interestValue_length_enc]; unfold interestLen sigTLLen
      rw [if_neg (by omega), if_neg (by omega)]
    rw [wrapPacket_flatten_enc, hval, ← hlen]

theorem makeInterest_flatten_thm (i : InterestIn) (sign H : Bytes → Bytes) (e : Encoded) (fn : Name)
    (hv : i.Valid) (hH : ∀ x, (H x).length = 32) (hm : makeInterest i sign H = .ok (e, fn)) :
    fn = interestFinalName i H e.sigVal
    ∧ e.wire.flatten = encTL 5 ++ encTL (interestValue i fn e.sigVal).length ++ interestValue i fn e.sigVal
    ∧ (i.est > 0 → e.sigVal = sign (interestCovered i) ∧ e.sigCovered = some (interestCovered i) ∧ e.sigVal.length ≤ i.est)
    ∧ (i.est = 0 → e.sigCovered = none ∧ e.sigVal = []) := by
  cases hap : i.ap with
  | none => exact makeInterest_none_thm i sign H e fn hv hap hm
  | some c => exact makeInterest_some_thm i sign H e fn c hv hH hap hm

end Ndn.C03
