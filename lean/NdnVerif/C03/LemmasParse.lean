/-
  C03/LemmasParse.lean — parser building blocks over ANY healthy reader (BufferReader or WireReader
  over any segmentation), from the operation-level refinement `ReaderSpecs`:
  ReadTLNum, natural numbers, name fields, one step of the generic TLV loop.
-/
import NdnVerif.C03.LemmasDefs
namespace Ndn.C03

theorem drop_cons_getD {b : Bytes} {p : Nat} {a : Nat} {t : Bytes} (h : b.drop p = a :: t) :
    p < b.length ∧ b.getD p 0 = a ∧ b.drop (p + 1) = t := by
  have hlt : p < b.length := by
    rcases Nat.lt_or_ge p b.length with h1 | h1
    · exact h1
    · rw [List.drop_eq_nil_of_le h1] at h; cases h
  rw [List.drop_eq_getElem_cons hlt] at h
  injection h with h1 h2
  exact ⟨hlt, by simp [List.getD, List.getElem?_eq_getElem hlt, h1], h2⟩

theorem tlLen_pos (x : Nat) : 0 < tlLen x := by
  unfold tlLen; repeat' split
  all_goals omega

theorem drop_append_len {b : Bytes} {p : Nat} {x t : Bytes} (hp : p ≤ b.length) (h : b.drop p = x ++ t) :
    p + x.length ≤ b.length ∧ (b.drop p).take x.length = x ∧ b.drop (p + x.length) = t := by
  have hl : (b.drop p).length = x.length + t.length := by rw [h]; simp
  simp at hl
  refine ⟨by omega, by rw [h]; simp, ?_⟩
  have : b.drop (p + x.length) = (b.drop p).drop x.length := by simp [List.drop_drop]
  rw [this, h]; simp

/-- the accumulator of the `ReadByte` loops -/
def accBytes (acc : Nat) (bs : Bytes) : Nat := bs.foldl (fun a x => (a * 256 + x) % u64) acc

theorem accBytes_eq (bs : Bytes) : ∀ acc, Bytes.WF bs → acc * 256 ^ bs.length + beDec bs < u64 →
    accBytes acc bs = acc * 256 ^ bs.length + beDec bs := by
  induction bs with
  | nil => intro acc _ _; simp [accBytes, beDec]
  | cons b bs ih =>
    intro acc hwf hlt
    have hb : b < 256 := hwf b (by simp)
    have hwf' : Bytes.WF bs := fun y hy => hwf y (by simp [hy])
    simp only [List.length_cons, beDec, Nat.pow_succ] at hlt
    have hpos : 0 < 256 ^ bs.length := Nat.pow_pos (by omega)
    have e1 : acc * (256 ^ bs.length * 256) + (b * 256 ^ bs.length + beDec bs)
        = (acc * 256 + b) * 256 ^ bs.length + beDec bs := by
      rw [Nat.add_mul, Nat.mul_assoc, Nat.mul_comm 256 (256 ^ bs.length)]; omega
    rw [e1] at hlt
    have hsmall : acc * 256 + b < u64 := by
      have : (acc * 256 + b) * 1 ≤ (acc * 256 + b) * 256 ^ bs.length := Nat.mul_le_mul_left _ hpos
      omega
    have : accBytes acc (b :: bs) = accBytes ((acc * 256 + b) % u64) bs := by simp [accBytes]
    rw [this, Nat.mod_eq_of_lt hsmall, ih _ hwf' hlt]
    simp only [List.length_cons, beDec, Nat.pow_succ]
    omega

theorem accBytes_be (k x : Nat) (hx : x < 256 ^ k) (hk : 256 ^ k ≤ u64) : accBytes 0 (be k x) = x := by
  rw [accBytes_eq _ _ (be_wf k x)]
  · simp [beDec_be k x hx]
  · simp [beDec_be k x hx]; omega

theorem encTL_ne_nil (x : Nat) : encTL x ≠ [] := by
  intro h; have := congrArg List.length h; rw [encTL_length] at this; unfold tlLen at this
  repeat' split at this
  all_goals simp at this

theorem compLen_pos (c : Component) : 2 ≤ compLen c := by
  unfold compLen tlLen; repeat' split
  all_goals omega

/-- position of the last ParametersSha256Digest component start (`sigCoverEnd` of the Interest name) -/
def sigEndAux : Nat → Name → Nat → Nat
  | _, [], cur => cur
  | p, c :: cs, cur => sigEndAux (p + compLen c) cs (if c.typ = 2 then p else cur)

section
variable (R : ReaderSpecs)
include R

/-- `k` successive ReadByte calls over bytes that are there -/
theorem readBytesAcc_at : ∀ (k : Nat) (r : Rd) (buf : Bytes) (p acc : Nat), At r buf p → p + k ≤ buf.length →
    ∃ r', readBytesAcc k r acc = .ok (accBytes acc ((buf.drop p).take k), r') ∧ At r' buf (p + k) ∧ (k > 0 → r'.Live) := by
  intro k
  induction k with
  | zero => intro r buf p acc h _; exact ⟨r, by simp [readBytesAcc, accBytes], h, by omega⟩
  | succ k ih =>
    intro r buf p acc h hle
    obtain ⟨r1, h1, a1, l1⟩ := R.readByte_ok r buf p h (by omega)
    obtain ⟨r2, h2, a2, l2⟩ := ih r1 buf (p + 1) ((acc * 256 + buf.getD p 0) % u64) a1 (by omega)
    refine ⟨r2, ?_, by rw [show p + (k + 1) = p + 1 + k by omega]; exact a2, ?_⟩
    · simp only [readBytesAcc, h1, Res.bind_ok, h2]
      have hd : buf.drop p = buf.getD p 0 :: buf.drop (p + 1) := by
        have hlt : p < buf.length := by omega
        rw [List.drop_eq_getElem_cons hlt]
        simp [List.getD, List.getElem?_eq_getElem hlt]
      rw [hd]; simp [accBytes]
    · intro _
      rcases Nat.eq_zero_or_pos k with hk | hk
      · subst hk; simp [readBytesAcc] at h2; rw [← h2.2]; exact l1
      · exact l2 hk

/-- `ReadTLNum` over an encoded number -/
theorem readTL_at (r : Rd) (buf : Bytes) (p x : Nat) (t : Bytes) (h : At r buf p)
    (hb : buf.drop p = encTL x ++ t) (hx : x < 2 ^ 64) :
    ∃ r', readTL r = .ok (x, r') ∧ At r' buf (p + tlLen x) ∧ r'.Live ∧ buf.drop (p + tlLen x) = t := by
  obtain ⟨hle, _, hrest⟩ := drop_append_len h.2.2 hb
  rw [encTL_length] at hle hrest
  suffices hs : ∃ r', readTL r = .ok (x, r') ∧ At r' buf (p + tlLen x) ∧ r'.Live by
    obtain ⟨r', a, b, c⟩ := hs; exact ⟨r', a, b, c, hrest⟩
  unfold encTL at hb
  split at hb
  · rename_i h1
    obtain ⟨hlt, hg, _⟩ := drop_cons_getD (by simpa using hb)
    obtain ⟨r1, e1, a1, l1⟩ := R.readByte_ok r buf p h hlt
    rw [hg] at e1
    refine ⟨r1, ?_, by simpa [tlLen, h1] using a1, l1⟩
    simp [readTL, e1, h1]
  · rename_i h1
    split at hb
    · rename_i h2
      obtain ⟨hlt, hg, hd⟩ := drop_cons_getD (by simpa using hb)
      obtain ⟨r1, e1, a1, _⟩ := R.readByte_ok r buf p h hlt
      rw [hg] at e1
      have hk : p + 1 + 2 ≤ buf.length := by simp [tlLen, h1, h2] at hle; omega
      obtain ⟨r2, e2, a2, l2⟩ := readBytesAcc_at R 2 r1 buf (p + 1) 0 a1 hk
      refine ⟨r2, ?_, by simpa [tlLen, h1, h2, Nat.add_assoc] using a2, l2 (by omega)⟩
      have : (buf.drop (p + 1)).take 2 = be 2 x := by rw [hd]; simp
      simp [readTL, e1, tlExtra, e2, this, accBytes_be 2 x (by omega) (by simp [u64])]
    · rename_i h2
      split at hb
      · rename_i h3
        obtain ⟨hlt, hg, hd⟩ := drop_cons_getD (by simpa using hb)
        obtain ⟨r1, e1, a1, _⟩ := R.readByte_ok r buf p h hlt
        rw [hg] at e1
        have hk : p + 1 + 4 ≤ buf.length := by simp [tlLen, h1, h2, h3] at hle; omega
        obtain ⟨r2, e2, a2, l2⟩ := readBytesAcc_at R 4 r1 buf (p + 1) 0 a1 hk
        refine ⟨r2, ?_, by simpa [tlLen, h1, h2, h3, Nat.add_assoc] using a2, l2 (by omega)⟩
        have : (buf.drop (p + 1)).take 4 = be 4 x := by rw [hd]; simp
        simp [readTL, e1, tlExtra, e2, this, accBytes_be 4 x (by omega) (by simp [u64])]
      · rename_i h3
        obtain ⟨hlt, hg, hd⟩ := drop_cons_getD (by simpa using hb)
        obtain ⟨r1, e1, a1, _⟩ := R.readByte_ok r buf p h hlt
        rw [hg] at e1
        have hk : p + 1 + 8 ≤ buf.length := by simp [tlLen, h1, h2, h3] at hle; omega
        obtain ⟨r2, e2, a2, l2⟩ := readBytesAcc_at R 8 r1 buf (p + 1) 0 a1 hk
        refine ⟨r2, ?_, by simpa [tlLen, h1, h2, h3, Nat.add_assoc] using a2, l2 (by omega)⟩
        have : (buf.drop (p + 1)).take 8 = be 8 x := by rw [hd]; simp
        simp [readTL, e1, tlExtra, e2, this, accBytes_be 8 x (by omega) (by simp [u64])]


/-- natural / fixedUint value of `k` bytes -/
theorem readNat_at (r : Rd) (buf : Bytes) (p k x w : Nat) (t : Bytes) (h : At r buf p)
    (hb : buf.drop p = be k x ++ t) (hx : x < 256 ^ k) (hk : 256 ^ k ≤ u64) (hlen : buf.length < 2 ^ 63) :
    ∃ r', readNat r k w = .ok (x % 2 ^ w, r') ∧ At r' buf (p + k) ∧ buf.drop (p + k) = t := by
  obtain ⟨hle, htk, hrest⟩ := drop_append_len h.2.2 hb
  rw [be_length] at hle htk hrest
  obtain ⟨r1, e1, a1, _⟩ := readBytesAcc_at R k r buf p 0 h hle
  refine ⟨r1, ?_, a1, hrest⟩
  have hg : ¬ (k > r.length - r.pos) := by rw [R.pos_eq r buf p h, R.length_eq r buf p h]; omega
  have hneg : negInt k = false := by
    have h62 : buf.length < 2 ^ 63 := hlen
    simp [negInt]; omega
  simp [readNat, hneg, hg, e1, htk, accBytes_be k x hx hk]

theorem nameLoop_at : ∀ (n : Name) (fuel : Nat) (r : Rd) (buf : Bytes) (p : Nat) (acc : Name) (sigEnd : Nat) (t : Bytes),
    At r buf p → buf.drop p = encNameInner n ++ t → NameValid n → nameLen n < 2 ^ 62 → n.length ≤ fuel →
    ∃ r', nameLoop fuel r (p + nameLen n) acc sigEnd = .ok (acc ++ n, sigEndAux p n sigEnd, r')
      ∧ At r' buf (p + nameLen n) ∧ buf.drop (p + nameLen n) = t := by
  intro n
  induction n with
  | nil =>
    intro fuel r buf p acc sigEnd t h hb _ _ _
    have hp := R.pos_eq r buf p h
    refine ⟨r, ?_, by simpa [nameLen] using h, by simpa [nameLen, encNameInner] using hb⟩
    cases fuel <;> simp [nameLoop, hp, nameLen, sigEndAux]
  | cons c cs ih =>
    intro fuel r buf p acc sigEnd t h hb hv hlen hf
    cases fuel with
    | zero => simp at hf
    | succ fuel =>
      have hp := R.pos_eq r buf p h
      have hcl := compLen_pos c
      have hnl : nameLen (c :: cs) = compLen c + nameLen cs := by simp [nameLen]
      have hcv : CompValid c := hv c (by simp)
      have hb1 : buf.drop p = encTL c.typ ++ (encTL c.val.length ++ (c.val ++ (encNameInner cs ++ t))) := by
        rw [hb]; simp [encNameInner, encComp, List.append_assoc]
      obtain ⟨r1, e1, a1, _, d1⟩ := readTL_at R r buf p c.typ _ h hb1 hcv
      have hvl : c.val.length < 2 ^ 62 := by unfold compLen at hnl; omega
      obtain ⟨r2, e2, a2, _, d2⟩ := readTL_at R r1 buf _ c.val.length _ a1 d1 (by omega)
      obtain ⟨hle3, htk3, d3⟩ := drop_append_len a2.2.2 d2
      obtain ⟨r3, e3, a3⟩ := R.readBuf_ok r2 buf _ c.val.length a2 hle3
      have hpos3 : p + tlLen c.typ + tlLen c.val.length + c.val.length = p + compLen c := by unfold compLen; omega
      rw [hpos3] at a3 d3
      obtain ⟨r4, e4, a4, d4⟩ := ih fuel r3 buf (p + compLen c) (acc ++ [c]) (if c.typ = 2 then p else sigEnd) t a3 d3
        (fun x hx => hv x (by simp [hx])) (by omega) (by simpa using hf)
      refine ⟨r4, ?_, by rw [hnl, ← Nat.add_assoc]; exact a4, by rw [hnl, ← Nat.add_assoc]; exact d4⟩
      have hlt : ¬ (p ≥ p + nameLen (c :: cs)) := by omega
      simp only [nameLoop, hp, hlt, ↓reduceIte, e1, Res.bind_ok, e2, e3, htk3]
      rw [hnl, ← Nat.add_assoc, e4]
      simp [sigEndAux]

/-- a generated name field whose announced length is the length pass of the name -/
theorem readNameField_at (r : Rd) (buf : Bytes) (p : Nat) (n : Name) (t : Bytes) (h : At r buf p)
    (hb : buf.drop p = encNameInner n ++ t) (hlenEq : (encNameInner n).length = nameLen n)
    (hv : NameValid n) (hlen : nameLen n < 2 ^ 62) :
    ∃ r', readNameField r (nameLen n) = .ok (n, sigEndAux p n (p + nameLen n), r')
      ∧ At r' buf (p + nameLen n) ∧ buf.drop (p + nameLen n) = t := by
  have hp := R.pos_eq r buf p h
  have hl := R.length_eq r buf p h
  obtain ⟨hle, _, _⟩ := drop_append_len h.2.2 hb
  rw [hlenEq] at hle
  have hfuel : n.length ≤ nameLen n / 2 + 1 := by
    have : ∀ m : Name, 2 * m.length ≤ nameLen m := by
      intro m; induction m with
      | nil => simp [nameLen]
      | cons c cs ih => have := compLen_pos c; simp [nameLen] at ih ⊢; omega
    have := this n; omega
  obtain ⟨r1, e1, a1, d1⟩ := nameLoop_at R n (nameLen n / 2 + 1) r buf p [] (p + nameLen n) t h hb hv hlen hfuel
  refine ⟨r1, ?_, a1, d1⟩
  have hg : lenGuard r (nameLen n) = .ok () := by
    simp [lenGuard, hp, hl]; omega
  simp [readNameField, hg, hp, e1]

/-- the generic TLV loop stops at the end of the buffer -/
theorem tlvLoop_end {σ : Type} (body : σ → Nat → Nat → Nat → Rd → Res (σ × Rd)) (fuel : Nat) (st : σ)
    (r : Rd) (buf : Bytes) (p : Nat) (h : At r buf p) (hp : p = buf.length) :
    tlvLoop body (fuel + 1) st r = .ok (st, r) := by
  simp [tlvLoop, R.pos_eq r buf p h, R.length_eq r buf p h, hp]

/-- one iteration of the generic TLV loop over an encoded TL header -/
theorem tlvLoop_step {σ : Type} (body : σ → Nat → Nat → Nat → Rd → Res (σ × Rd)) (fuel : Nat) (st : σ)
    (r : Rd) (buf : Bytes) (p ty l : Nat) (rest : Bytes) (h : At r buf p)
    (hb : buf.drop p = encTL ty ++ (encTL l ++ rest)) (hty : ty < 2 ^ 64) (hl : l < 2 ^ 62) :
    ∃ r2, At r2 buf (p + tlLen ty + tlLen l) ∧ r2.Live ∧ buf.drop (p + tlLen ty + tlLen l) = rest ∧
      tlvLoop body (fuel + 1) st r = (body st ty l p r2 >>= fun x => tlvLoop body fuel x.1 x.2) := by
  obtain ⟨r1, e1, a1, _, d1⟩ := readTL_at R r buf p ty _ h hb hty
  obtain ⟨r2, e2, a2, l2, d2⟩ := readTL_at R r1 buf _ l _ a1 d1 (by omega)
  refine ⟨r2, a2, l2, d2, ?_⟩
  have hlt : ¬ (p ≥ buf.length) := by
    have h1 := (drop_append_len h.2.2 hb).1
    rw [encTL_length] at h1
    have := tlLen_pos ty
    omega
  simp only [tlvLoop, R.pos_eq r buf p h, R.length_eq r buf p h, hlt, ↓reduceIte, e1, Res.bind_ok, e2]

end
end Ndn.C03
