/-
  C03/LemmasReaderD.lean — WireReader reads, Skip and Range refine the BufferReader operations.
-/
import NdnVerif.C03.LemmasReaderC
namespace Ndn.C03

theorem flatten_getElem? (w : List Bytes) (i sp : Nat) (h : i < w.length) (hsp : sp < (w[i]?.getD []).length) :
    w.flatten[accSz w i + sp]? = (w[i]?.getD [])[sp]? := by
  have h1 := flatten_drop_at w i sp h (by omega)
  have h2 := congrArg (fun l => l[0]?) h1
  simp only [List.getElem?_drop, Nat.add_zero] at h2
  rw [h2, List.getElem?_append_left (by simp only [List.length_drop]; omega)]
  simp

theorem WireR.absLength_eq (r : WireR) : r.absLength = r.wire.flatten.length := by
  simp [WireR.absLength, accSz_length]

/-! ### ReadByte -/

theorem wire_readByte_ok (w : WireR) (buf : Bytes) (p : Nat) (h : At (.wire w) buf p) (hp : p < buf.length) :
    ∃ r', (Rd.wire w).readByte = .ok (buf.getD p 0, r') ∧ At r' buf (p + 1) ∧ r'.Live := by
  obtain ⟨hinv, h2, h3, h4, h5⟩ := at_wire_dest h
  obtain ⟨_, _, hb3, _⟩ := at_wire_buf h
  obtain ⟨r1, e1, e2, e3, e4, e5, e6, e7⟩ := nextSeg_spec w hinv.pre hinv.ne
  have hlt := e6.2 (hb3.1 hp)
  have hpos := e7 hlt
  have hpre : WireR.Pre { r1 with pos := r1.pos + 1 } := by
    refine ⟨e5.1, fun _ => ?_, fun hh => ?_⟩
    · simp only [WireR.segAt_eq, e2]; omega
    · simp only [e2] at hh; omega
  refine ⟨.wire { r1 with pos := r1.pos + 1 }, ?_,
    at_wire_step h e2 e3 (by rw [← e4]; simp [WireR.absPos]; omega) hpre, by simp only [Rd.Live, e2]; exact hlt⟩
  simp only [Rd.readByte, WireR.readByte, e1, hlt, decide_true, Bool.not_true, Bool.false_eq_true, if_false,
    Res.bind_ok, Res.pure_eq, WireR.segAt_eq, e2]
  congr 2
  subst h2 h3
  simp only [List.getD_eq_getElem?_getD, List.getElem?_drop]
  rw [show w.base + (w.absPos - w.base) = w.absPos by omega, ← e4]
  unfold WireR.absPos
  rw [e2, Nat.add_comm, flatten_getElem? w.wire r1.seg r1.pos hlt hpos]

theorem wire_readByte_eof (w : WireR) (buf : Bytes) (p : Nat) (h : At (.wire w) buf p) (hp : p ≥ buf.length) :
    (Rd.wire w).readByte = .err := by
  obtain ⟨hinv, h2, h3, h4, h5⟩ := at_wire_dest h
  obtain ⟨_, _, hb3, _⟩ := at_wire_buf h
  obtain ⟨r1, e1, e2, e3, e4, e5, e6, e7⟩ := nextSeg_spec w hinv.pre hinv.ne
  have hlt : ¬ r1.seg < w.wire.length := fun hh => by have := hb3.2 (e6.1 hh); omega
  simp [Rd.readByte, WireR.readByte, e1, hlt]

/-! ### ReadBuf / ReadWire / ReadFull -/

theorem gather_ok (w r1 : WireR) (buf : Bytes) (p l : Nat) (h : At (.wire w) buf p) (hl : p + l ≤ buf.length)
    (e2 : r1.wire = w.wire) (e3 : r1.base = w.base) (e4 : r1.absPos = w.absPos) (e5 : r1.Pre) :
    ∃ r', WireR.gather (r1.wire.length + 1) r1 l [] = some ((buf.drop p).take l, r') ∧ At (.wire r') buf (p + l) := by
  obtain ⟨_, hb2, _, hb4⟩ := at_wire_buf h
  have := (gather_spec (r1.wire.length + 1) r1 l [] e5 (by omega)).1
    (by rw [e4, e2, accSz_length]; exact (hb4 l).1 hl)
  obtain ⟨r', g1, g2, g3, g4, g5⟩ := this
  refine ⟨r', ?_, at_wire_step h (g2.trans e2) (g3.trans e3) (by rw [g4, e4]) g5⟩
  rw [g1, hb2 l, e2, e4]; simp

theorem gather_err (w r1 : WireR) (buf : Bytes) (p l : Nat) (h : At (.wire w) buf p) (hl : p + l > buf.length)
    (e2 : r1.wire = w.wire) (e4 : r1.absPos = w.absPos) (e5 : r1.Pre) :
    WireR.gather (r1.wire.length + 1) r1 l [] = none := by
  obtain ⟨_, hb2, _, hb4⟩ := at_wire_buf h
  have hn : ¬ (w.absPos + l ≤ w.wire.flatten.length) := fun hh => by have := (hb4 l).2 hh; omega
  exact (gather_spec (r1.wire.length + 1) r1 l [] e5 (by omega)).2
    (by rw [e4, e2, accSz_length]; omega)

theorem wire_readWire_ok (w : WireR) (buf : Bytes) (p l : Nat) (h : At (.wire w) buf p) (hl : p + l ≤ buf.length) :
    ∃ r', (Rd.wire w).readWire l = .ok ((buf.drop p).take l, r') ∧ At r' buf (p + l) := by
  obtain ⟨hinv, h2, h3, h4, h5⟩ := at_wire_dest h
  obtain ⟨_, _, hb3, hb4⟩ := at_wire_buf h
  obtain ⟨r1, e1, e2, e3, e4, e5, e6, e7⟩ := nextSeg_spec w hinv.pre hinv.ne
  obtain ⟨r', g1, g2⟩ := gather_ok w r1 buf p l h hl e2 e3 e4 e5
  refine ⟨.wire r', ?_, g2⟩
  have hc : ¬ ((!decide (r1.seg < w.wire.length)) = true ∧ l > 0) := by
    rintro ⟨c1, c2⟩
    simp only [Bool.not_eq_true', decide_eq_false_iff_not] at c1
    have := (hb4 l).1 hl
    exact c1 (e6.2 (by omega))
  have hg : ¬ (l > r1.absLength - r1.absPos) := by
    have := (hb4 l).1 hl
    rw [WireR.absLength_eq, e2, e4]; omega
  simp only [Rd.readWire, WireR.readWire, e1, if_neg hc, if_neg hg, g1, Res.bind_ok, Res.pure_eq]

theorem wire_readWire_err (w : WireR) (buf : Bytes) (p l : Nat) (h : At (.wire w) buf p) (hl : p + l > buf.length) :
    (Rd.wire w).readWire l = .err := by
  obtain ⟨hinv, h2, h3, h4, h5⟩ := at_wire_dest h
  obtain ⟨r1, e1, e2, e3, e4, e5, e6, e7⟩ := nextSeg_spec w hinv.pre hinv.ne
  obtain ⟨_, _, _, hb4⟩ := at_wire_buf h
  have hg : l > r1.absLength - r1.absPos := by
    have hn : ¬ (w.absPos + l ≤ w.wire.flatten.length) := fun hh => by have := (hb4 l).2 hh; omega
    rw [WireR.absLength_eq, e2, e4]; omega
  simp only [Rd.readWire, WireR.readWire, e1, if_pos hg]
  split <;> rfl

theorem wire_readFull_ok (w : WireR) (buf : Bytes) (p l : Nat) (h : At (.wire w) buf p) (hl : p + l ≤ buf.length) :
    ∃ r', (Rd.wire w).readFull l = .ok ((buf.drop p).take l, r') ∧ At r' buf (p + l) := by
  by_cases hl0 : l = 0
  · subst hl0
    exact ⟨.wire w, by simp [Rd.readFull, WireR.readFull], h⟩
  obtain ⟨hinv, h2, h3, h4, h5⟩ := at_wire_dest h
  obtain ⟨_, _, hb3, hb4⟩ := at_wire_buf h
  obtain ⟨r1, e1, e2, e3, e4, e5, e6, e7⟩ := nextSeg_spec w hinv.pre hinv.ne
  obtain ⟨r', g1, g2⟩ := gather_ok w r1 buf p l h hl e2 e3 e4 e5
  refine ⟨.wire r', ?_, g2⟩
  have hlt : r1.seg < w.wire.length := e6.2 (by have := (hb4 l).1 hl; omega)
  simp only [Rd.readFull, WireR.readFull, if_neg hl0, e1, hlt, decide_true, Bool.not_true, Bool.false_eq_true,
    if_false, g1, Res.bind_ok, Res.pure_eq]

theorem wire_readFull_err (w : WireR) (buf : Bytes) (p l : Nat) (h : At (.wire w) buf p) (hl : p + l > buf.length) :
    (Rd.wire w).readFull l = .err := by
  obtain ⟨hinv, h2, h3, h4, h5⟩ := at_wire_dest h
  obtain ⟨r1, e1, e2, e3, e4, e5, e6, e7⟩ := nextSeg_spec w hinv.pre hinv.ne
  have g1 := gather_err w r1 buf p l h hl e2 e4 e5
  have hl0 : l ≠ 0 := by
    intro h0; subst h0
    have := h.2.2; omega
  simp only [Rd.readFull, WireR.readFull, if_neg hl0, e1, g1]
  split <;> rfl

theorem wire_readBuf_ok (w : WireR) (buf : Bytes) (p l : Nat) (h : At (.wire w) buf p) (hl : p + l ≤ buf.length) :
    ∃ r', (Rd.wire w).readBuf l = .ok ((buf.drop p).take l, r') ∧ At r' buf (p + l) := by
  obtain ⟨hinv, h2, h3, h4, h5⟩ := at_wire_dest h
  obtain ⟨_, hb2, hb3, hb4⟩ := at_wire_buf h
  obtain ⟨r1, e1, e2, e3, e4, e5, e6, e7⟩ := nextSeg_spec w hinv.pre hinv.ne
  have habs := (hb4 l).1 hl
  have hg : ¬ (l > w.absLength - w.absPos) := by
    rw [WireR.absLength_eq]; omega
  by_cases hlt : r1.seg < w.wire.length
  · by_cases hc : r1.pos + l ≤ (w.wire[r1.seg]?.getD []).length
    · have hpre : WireR.Pre { r1 with pos := r1.pos + l } := by
        refine ⟨e5.1, fun _ => ?_, fun hh => ?_⟩
        · simp only [WireR.segAt_eq, e2]; omega
        · simp only [e2] at hh; omega
      refine ⟨.wire { r1 with pos := r1.pos + l }, ?_,
        at_wire_step h e2 e3 (by rw [← e4]; simp [WireR.absPos]; omega) hpre⟩
      simp only [Rd.readBuf, WireR.readBuf, if_neg hg, e1, hlt, decide_true, Bool.not_true, Bool.false_eq_true, if_false,
        WireR.segAt_eq, e2, if_pos hc, Res.bind_ok, Res.pure_eq]
      congr 2
      rw [hb2 l, ← e4]
      unfold WireR.absPos
      rw [e2, Nat.add_comm, flatten_drop_at' w.wire r1.seg r1.pos hlt (by omega), List.take_append]
      rw [show l - (List.drop r1.pos (w.wire[r1.seg]?.getD [])).length = 0 by
        simp only [List.length_drop]; omega]
      simp
    · obtain ⟨r', g1, g2⟩ := gather_ok w r1 buf p l h hl e2 e3 e4 e5
      refine ⟨.wire r', ?_, g2⟩
      simp only [Rd.readBuf, WireR.readBuf, if_neg hg, e1, hlt, decide_true, Bool.not_true, Bool.false_eq_true, if_false,
        WireR.segAt_eq, e2, if_neg hc, Res.pure_eq]
      rw [e2] at g1
      simp only [g1, Res.bind_ok]
  · have hl0 : l = 0 := by
      have := mt e6.2 hlt; omega
    subst hl0
    refine ⟨.wire r1, ?_, at_wire_step h e2 e3 (by rw [e4]; rfl) e5⟩
    simp [Rd.readBuf, WireR.readBuf, e1, hlt]

theorem wire_readBuf_err (w : WireR) (buf : Bytes) (p l : Nat) (h : At (.wire w) buf p) (hl : p + l > buf.length) :
    (Rd.wire w).readBuf l = .err := by
  obtain ⟨_, _, _, hb4⟩ := at_wire_buf h
  obtain ⟨_, _, _, _, h5⟩ := at_wire_dest h
  have hg : l > w.absLength - w.absPos := by
    have hn : ¬ (w.absPos + l ≤ w.wire.flatten.length) := fun hh => by have := (hb4 l).2 hh; omega
    rw [WireR.absLength_eq]; omega
  simp only [Rd.readBuf, WireR.readBuf, if_pos hg, Res.bind_err]

end Ndn.C03
