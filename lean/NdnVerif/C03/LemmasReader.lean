/-
  C03/LemmasReader.lean — operation-level refinement WireReader ⊑ BufferReader (`ReaderSpecs`): on every
  healthy reader each ParseReader operation behaves exactly as the BufferReader operation on the logical
  buffer, for every segmentation.  Helper lemmas: LemmasReaderA (accSz/flatten, gather), B (advance, Range
  scans), C (At helpers, BufferReader half, nextSeg), D (reads), E (Skip, Range), F (Delegate).
-/
import NdnVerif.C03.LemmasDefs
import NdnVerif.C03.LemmasReaderF
namespace Ndn.C03

/-- WireReader ⊑ BufferReader, operation by operation -/
theorem readerSpecs : ReaderSpecs where
  pos_eq r buf p h := by
    cases r with
    | buf b => exact buf_pos_eq b buf p h
    | wire w => exact wire_pos_eq w buf p h
  length_eq r buf p h := by
    cases r with
    | buf b => exact buf_length_eq b buf p h
    | wire w => exact wire_length_eq w buf p h
  readByte_ok r buf p h hp := by
    cases r with
    | buf b => exact buf_readByte_ok b buf p h hp
    | wire w => exact wire_readByte_ok w buf p h hp
  readByte_eof r buf p h hp := by
    cases r with
    | buf b => exact buf_readByte_eof b buf p h hp
    | wire w => exact wire_readByte_eof w buf p h hp
  readBuf_ok r buf p l h hp := by
    cases r with
    | buf b => exact buf_readBuf_ok b buf p l h hp
    | wire w => exact wire_readBuf_ok w buf p l h hp
  readBuf_err r buf p l h hp := by
    cases r with
    | buf b => exact buf_readBuf_err b buf p l h hp
    | wire w => exact wire_readBuf_err w buf p l h hp
  readWire_ok r buf p l h hp := by
    cases r with
    | buf b => exact buf_readWire_ok b buf p l h hp
    | wire w => exact wire_readWire_ok w buf p l h hp
  readWire_err r buf p l h hp := by
    cases r with
    | buf b => exact buf_readWire_err b buf p l h hp
    | wire w => exact wire_readWire_err w buf p l h hp
  readFull_ok r buf p l h hp := by
    cases r with
    | buf b => exact buf_readFull_ok b buf p l h hp
    | wire w => exact wire_readFull_ok w buf p l h hp
  readFull_err r buf p l h hp := by
    cases r with
    | buf b => exact buf_readFull_err b buf p l h hp
    | wire w => exact wire_readFull_err w buf p l h hp
  skip_ok r buf p n h hlive hp := by
    cases r with
    | buf b => exact buf_skip_ok b buf p n h hp
    | wire w => exact wire_skip_ok w buf p n h hlive hp
  skip_err r buf p n h hlive hp := by
    cases r with
    | buf b => exact buf_skip_err b buf p n h hp
    | wire w => exact wire_skip_err w buf p n h hlive hp
  range_eq r buf p s e h hs he := by
    cases r with
    | buf b => exact buf_range_eq b buf p s e h hs he
    | wire w => exact wire_range_eq w buf p s e h hs he
  delegate_ok r buf p l h hp := by
    cases r with
    | buf b => exact buf_delegate_ok b buf p l h hp
    | wire w => exact wire_delegate_ok' w buf p l h hp

end Ndn.C03
