/-
  C03/LemmasDefs.lean — definitions shared by the proof files: reader invariant and abstraction,
  validity guards of the inputs, normal forms of the encoder output, and the INTERFACES between the
  proof files (Prop-valued bundles: a file that needs a fact proved elsewhere takes the bundle as a
  hypothesis; Props.lean instantiates everything, so no statement is ever assumed in the end).
-/
import NdnVerif.C03.Parse
import NdnVerif.C03.Spec
namespace Ndn.C03

/-! ### reader invariant and abstraction (refinement map WireReader/BufferReader → (buffer, position)) -/

def WireR.Inv (w : WireR) : Prop :=
  w.seg ≤ w.wire.length
  ∧ (w.seg < w.wire.length → w.pos ≤ (w.segAt w.seg).length)
  ∧ (w.seg = w.wire.length → w.pos = 0)
  ∧ (∀ i, 0 < i → i < w.wire.length → w.segAt i ≠ [])
  ∧ w.base ≤ w.absPos

/-- abstraction: the logical buffer of the reader and the logical position in it -/
def Rd.view : Rd → BufR
  | .buf b => b
  | .wire w => ⟨w.wire.flatten.drop w.base, w.absPos - w.base⟩

def Rd.Inv : Rd → Prop
  | .buf b => b.pos ≤ b.buf.length
  | .wire w => w.Inv

/-- the reader is not parked past its last segment (true after every successful ReadByte; Go's
    `WireReader.Skip` indexes `r.wire[r.seg]` unconditionally) -/
def Rd.Live : Rd → Prop
  | .buf _ => True
  | .wire w => w.seg < w.wire.length

/-- reader `r` is a healthy reader over logical buffer `buf` at logical position `p` -/
def At (r : Rd) (buf : Bytes) (p : Nat) : Prop := r.Inv ∧ r.view = ⟨buf, p⟩ ∧ p ≤ buf.length

/-- Operation-level refinement WireReader ⊑ BufferReader: on every healthy reader (BufferReader, or
    WireReader over any segmentation whose segments after the first are non-empty) each ParseReader
    operation behaves exactly as the BufferReader operation on the logical buffer. -/
structure ReaderSpecs : Prop where
  pos_eq : ∀ r buf p, At r buf p → r.pos = p
  length_eq : ∀ r buf p, At r buf p → r.length = buf.length
  readByte_ok : ∀ r buf p, At r buf p → p < buf.length →
    ∃ r', r.readByte = .ok (buf.getD p 0, r') ∧ At r' buf (p + 1) ∧ r'.Live
  readByte_eof : ∀ r buf p, At r buf p → p ≥ buf.length → r.readByte = .err
  readBuf_ok : ∀ r buf p l, At r buf p → p + l ≤ buf.length →
    ∃ r', r.readBuf l = .ok ((buf.drop p).take l, r') ∧ At r' buf (p + l)
  readBuf_err : ∀ r buf p l, At r buf p → p + l > buf.length → r.readBuf l = .err
  readWire_ok : ∀ r buf p l, At r buf p → p + l ≤ buf.length →
    ∃ r', r.readWire l = .ok ((buf.drop p).take l, r') ∧ At r' buf (p + l)
  readWire_err : ∀ r buf p l, At r buf p → p + l > buf.length → r.readWire l = .err
  readFull_ok : ∀ r buf p l, At r buf p → p + l ≤ buf.length →
    ∃ r', r.readFull l = .ok ((buf.drop p).take l, r') ∧ At r' buf (p + l)
  readFull_err : ∀ r buf p l, At r buf p → p + l > buf.length → r.readFull l = .err
  skip_ok : ∀ r buf p n, At r buf p → r.Live → p + n ≤ buf.length →
    ∃ r', r.skip n = .ok r' ∧ At r' buf (p + n)
  skip_err : ∀ r buf p n, At r buf p → r.Live → p + n > buf.length → r.skip n = .err
  range_eq : ∀ r buf p s e, At r buf p → s ≤ e → e ≤ buf.length → r.range s e = (buf.drop s).take (e - s)
  delegate_ok : ∀ r buf p l, At r buf p → p + l ≤ buf.length →
    ∃ sub r', r.delegate l = .ok (sub, r') ∧ At sub ((buf.drop p).take l) 0 ∧ At r' buf (p + l)

/-! ### validity guards (what the Go types can hold; all satisfiable, see the examples in Props) -/

def CompValid (c : Component) : Prop := c.typ < 2 ^ 64

def NameValid (n : Name) : Prop := ∀ c ∈ n, CompValid c

def SigInfoValid (s : SigInfo) : Prop :=
  s.typ < 2 ^ 64 ∧ s.addDesc = false
  ∧ (∀ k, s.keyLoc = some k → ∀ n, k.name = some n → NameValid n)
  ∧ (∀ t, s.time = some t → t < 2 ^ 64) ∧ (∀ q, s.seq = some q → q < 2 ^ 64)

def MetaValid (m : MetaInfo) : Prop :=
  (∀ x, m.ct = some x → x < 2 ^ 64) ∧ (∀ x, m.fresh = some x → x < 2 ^ 64)

/-! ### normal forms of the encoder output -/

def optTLV (t : Nat) (o : Option Bytes) : Bytes := optB o (fun v => encTL t ++ encTL v.length ++ v)

/-- value of the Data element for signature value `sv` -/
def dataValue (d : DataIn) (sv : Bytes) : Bytes :=
  dataHead d
  ++ optB d.content (fun c => encTL 21 ++ encTL (contentLen c) ++ c.flatten)
  ++ optB d.si (fun s => encTL 22 ++ encTL (sigInfoLen s) ++ encSigInfo s)
  ++ (if d.est > 0 then encTL 23 ++ encTL sv.length ++ sv else [])

/-- the part of the Data value a signature covers -/
def dataCovered (d : DataIn) : Bytes :=
  dataHead d
  ++ optB d.content (fun c => encTL 21 ++ encTL (contentLen c) ++ c.flatten)
  ++ optB d.si (fun s => encTL 22 ++ encTL (sigInfoLen s) ++ encSigInfo s)

def DataIn.Valid (d : DataIn) : Prop :=
  NameValid d.name ∧ MetaValid d.mi ∧ (∀ s, d.si = some s → SigInfoValid s)
  ∧ dataLen d + 16 < 2 ^ 62

/-- what a decoder must return for a Data built from `d` with signature value `sv` -/
def dataExpect (d : DataIn) (sv : Bytes) : DataP :=
  { name := some d.name, mi := some d.mi, content := d.content.map List.flatten, si := d.si,
    sv := if d.est > 0 then some sv else none }

/-- the name without a trailing ParametersSha256Digest component -/
def stripDigest (n : Name) : Name :=
  match n.getLast? with
  | some c => if c.typ = 2 then n.dropLast else n
  | none => n

/-- ApplicationParameters … end of the Interest value: what the parameters digest covers -/
def interestParamsPortion (i : InterestIn) (sv : Bytes) : Bytes :=
  optB i.ap (fun c => encTL 36 ++ encTL (contentLen c) ++ c.flatten)
  ++ optB i.si (fun s => encTL 44 ++ encTL (sigInfoLen s) ++ encSigInfo s)
  ++ (if i.est > 0 then encTL 46 ++ encTL sv.length ++ sv else [])

/-- the name finally carried by the Interest -/
def interestFinalName (i : InterestIn) (H : Bytes → Bytes) (sv : Bytes) : Name :=
  if i.ap.isSome then stripDigest i.name ++ [digestComp (H (interestParamsPortion i sv))] else stripDigest i.name

def interestValue (i : InterestIn) (fn : Name) (sv : Bytes) : Bytes :=
  interestHead i fn ++ interestParamsPortion i sv

/-- the bytes an Interest signature covers: name components before the digest, then
    ApplicationParameters and SignatureInfo -/
def interestCovered (i : InterestIn) : Bytes :=
  encNameInner (stripDigest i.name)
  ++ optB i.ap (fun c => encTL 36 ++ encTL (contentLen c) ++ c.flatten)
  ++ optB i.si (fun s => encTL 44 ++ encTL (sigInfoLen s) ++ encSigInfo s)

def InterestIn.Valid (i : InterestIn) : Prop :=
  NameValid i.name ∧ (∀ ns, i.fh = some ns → ∀ n ∈ ns, NameValid n)
  ∧ (∀ x, i.nonce = some x → x < 2 ^ 32) ∧ (∀ x, i.lt = some x → x < 2 ^ 64) ∧ (∀ x, i.hl = some x → x < 256)
  ∧ (∀ s, i.si = some s → SigInfoValid s)
  ∧ (i.est > 0 → i.ap.isSome)
  ∧ interestLen i (interestName i.name i.ap.isSome) + 16 < 2 ^ 62

def interestExpect (i : InterestIn) (fn : Name) (sv : Bytes) : InterestP :=
  { name := some fn, cbp := i.cbp, mbf := i.mbf, fh := i.fh, nonce := i.nonce, lt := i.lt, hl := i.hl,
    ap := i.ap.map List.flatten, si := i.si, sv := if i.est > 0 then some sv else none }

/-- Facts about the ENCODER proved in LemmasEnc.lean and consumed by the round-trip proofs. -/
structure EncSpecs : Prop where
  /-- the length pass announces what EncodeInto writes -/
  nameLen_eq : ∀ n : Name, (encNameInner n).length = nameLen n
  metaLen_eq : ∀ m : MetaInfo, (encMeta m).length = metaLen m
  keyLocLen_eq : ∀ k : KeyLoc, (encKeyLoc k).length = keyLocLen k
  sigInfoLen_eq : ∀ s : SigInfo, (encSigInfo s).length = sigInfoLen s
  linksLen_eq : ∀ ns : List Name, (encLinks ns).length = linksLen ns
  /-- MakeData output in normal form: one TLV of type 6 with an exact length -/
  makeData_flatten : ∀ (d : DataIn) (sign : Bytes → Bytes) (e : Encoded), d.Valid → makeData d sign = .ok e →
    e.wire.flatten = encTL 6 ++ encTL (dataValue d e.sigVal).length ++ dataValue d e.sigVal
    ∧ (d.est > 0 → e.sigVal = sign (dataCovered d) ∧ e.sigCovered = some (dataCovered d) ∧ e.sigVal.length ≤ d.est)
    ∧ (d.est = 0 → e.sigCovered = none)
  /-- MakeInterest output in normal form, with the parameters digest in place -/
  makeInterest_flatten : ∀ (i : InterestIn) (sign H : Bytes → Bytes) (e : Encoded) (fn : Name), i.Valid →
    (∀ x, (H x).length = 32) → makeInterest i sign H = .ok (e, fn) →
    fn = interestFinalName i H e.sigVal
    ∧ e.wire.flatten = encTL 5 ++ encTL (interestValue i fn e.sigVal).length ++ interestValue i fn e.sigVal
    ∧ (i.est > 0 → e.sigVal = sign (interestCovered i) ∧ e.sigCovered = some (interestCovered i) ∧ e.sigVal.length ≤ i.est)
    ∧ (i.est = 0 → e.sigCovered = none ∧ e.sigVal = [])

/-- an Interest WITHOUT parameters must not end (after the encoder dropped one trailing digest
    component) in yet another ParametersSha256Digest component: the decoder rejects a trailing
    digest without parameters -/
def NoTrailingDigest (i : InterestIn) : Prop :=
  i.ap = none → ∀ c, (stripDigest i.name).getLast? = some c → c.typ ≠ 2

/-- interface: SignatureInfo parses back (proved in LemmasData.lean, used by LemmasInterest.lean) -/
def SigInfoParseSpec : Prop :=
  ∀ (r : Rd) (s : SigInfo), At r (encSigInfo s) 0 → SigInfoValid s → sigInfoLen s < 2 ^ 62 → parseSigInfo r = .ok s

end Ndn.C03
