/-
  C03/Model.lean — what the packet encoder does (shared by C03 and C12).

  std/ndn/spec_2022/spec.go        MakeData / MakeInterest (signature slot, length patch, ShrinkLength,
                                   ParametersSha256Digest patching)
  std/ndn/spec_2022/zz_generated.go  <Model>Encoder.Init (length pass + wire plan) and EncodeInto for
                                   KeyLocator, Links, MetaInfo, ValidityPeriod, SignatureInfo,
                                   Interest, Data, Packet
  std/encoding/primitives.go       TLNum / Nat encoders, ParseTLNum, ShrinkLength
  std/encoding/name_component.go, name_pattern.go   Component/Name.EncodingLength/EncodeInto/Bytes

  The two passes are modelled separately: `…Len` functions are the arithmetic of `Init`
  (what the encoder ANNOUNCES in every length field and in the wire plan), `enc…` functions are the
  bytes `EncodeInto` WRITES.  That they agree is a theorem (Props: `*_len_eq`), not a definition.
  The output wire is a list of segments exactly as the wire plan lays them out (header buffer,
  the caller's content / parameter buffers by reference, the SignatureInfo+SignatureValue-TL
  buffer, the signature slot).
-/
import NdnVerif.Base.Name
import NdnVerif.C03.Reader
namespace Ndn.C03

/-! ### primitives -/

def u64 : Nat := 2 ^ 64

/-- the generated `buf[pos] = T…; <length>; …` for a type number -/
def encTLV (t : Nat) (v : Bytes) : Bytes := encTL t ++ encTL v.length ++ v

/-- `Component.EncodingLength` -/
def compLen (c : Component) : Nat := tlLen c.typ + tlLen c.val.length + c.val.length

/-- `Component.EncodeInto` / `Component.Bytes` -/
def encComp (c : Component) : Bytes := encTL c.typ ++ encTL c.val.length ++ c.val

/-- the `for _, c := range name { l += c.EncodingLength() }` of every name field's `Init` -/
def nameLen (n : Name) : Nat := (n.map compLen).sum

/-- `Name.EncodeInto`: components only -/
def encNameInner (n : Name) : Bytes := n.flatMap encComp

/-- `Name.Bytes` -/
def nameBytes (n : Name) : Bytes := encTL 7 ++ encTL (nameLen n) ++ encNameInner n

/-- a generated name field with type `t` (length from the Init pass, bytes from EncodeInto) -/
def encNameField (t : Nat) (n : Name) : Bytes := encTL t ++ encTL (nameLen n) ++ encNameInner n
def nameFieldLen (t : Nat) (n : Name) : Nat := tlLen t + tlLen (nameLen n) + nameLen n

/-- generated natural-number field: T, 1-byte length ∈ {1,2,4,8}, big-endian value -/
def encNatField (t : Nat) (x : Nat) : Bytes := encTL t ++ [natLen x] ++ be (natLen x) x
def natFieldLen (t : Nat) (x : Nat) : Nat := tlLen t + 1 + natLen x

/-- generated binary / string field -/
def encBinField (t : Nat) (v : Bytes) : Bytes := encTL t ++ encTL v.length ++ v
def binFieldLen (t : Nat) (v : Bytes) : Nat := tlLen t + tlLen v.length + v.length

def optB {α : Type} (o : Option α) (f : α → Bytes) : Bytes := match o with | none => [] | some a => f a
def optN {α : Type} (o : Option α) (f : α → Nat) : Nat := match o with | none => 0 | some a => f a

/-! ### values -/

structure KeyLoc where
  name : Option Name
  digest : Option Bytes := none
deriving DecidableEq, Repr

structure SigInfo where
  typ : Nat
  keyLoc : Option KeyLoc := none
  nonce : Option Bytes := none
  time : Option Nat := none         -- milliseconds
  seq : Option Nat := none
  validity : Option (Bytes × Bytes) := none
  addDesc : Bool := false            -- AdditionalDescription present (parse side only; never built)
deriving DecidableEq, Repr

structure MetaInfo where
  ct : Option Nat := none
  fresh : Option Nat := none        -- milliseconds
  fb : Option Bytes := none         -- FinalBlockID: raw bytes of an encoded component
deriving DecidableEq, Repr

/-! ### sub-struct encoders -/

def keyLocLen (k : KeyLoc) : Nat := optN k.name (nameFieldLen 7) + optN k.digest (binFieldLen 29)
def encKeyLoc (k : KeyLoc) : Bytes := optB k.name (encNameField 7) ++ optB k.digest (encBinField 29)

def validityLen (v : Bytes × Bytes) : Nat := binFieldLen 254 v.1 + binFieldLen 255 v.2
def encValidity (v : Bytes × Bytes) : Bytes := encBinField 254 v.1 ++ encBinField 255 v.2

def sigInfoLen (s : SigInfo) : Nat :=
  natFieldLen 27 s.typ
  + optN s.keyLoc (fun k => 1 + tlLen (keyLocLen k) + keyLocLen k)
  + optN s.nonce (binFieldLen 38)
  + optN s.time (natFieldLen 40)
  + optN s.seq (natFieldLen 42)
  + optN s.validity (fun v => 3 + tlLen (validityLen v) + validityLen v)

def encSigInfo (s : SigInfo) : Bytes :=
  encNatField 27 s.typ
  ++ optB s.keyLoc (fun k => encTL 28 ++ encTL (keyLocLen k) ++ encKeyLoc k)
  ++ optB s.nonce (encBinField 38)
  ++ optB s.time (encNatField 40)
  ++ optB s.seq (encNatField 42)
  ++ optB s.validity (fun v => encTL 253 ++ encTL (validityLen v) ++ encValidity v)

def metaLen (m : MetaInfo) : Nat :=
  optN m.ct (natFieldLen 24) + optN m.fresh (natFieldLen 25) + optN m.fb (binFieldLen 26)
def encMeta (m : MetaInfo) : Bytes :=
  optB m.ct (encNatField 24) ++ optB m.fresh (encNatField 25) ++ optB m.fb (encBinField 26)

/-- `Links` (ForwardingHint): a sequence of names, each `07 L components` -/
def linksLen (ns : List Name) : Nat := (ns.map (nameFieldLen 7)).sum
def encLinks (ns : List Name) : Bytes := ns.flatMap (encNameField 7)

/-! ### ShrinkLength, signature-length patch -/

/-- `ParseTLNum` (panics on a short buffer) -/
def parseTLNum (b : Bytes) : Res (Nat × Nat) :=
  match decTL b with
  | some (v, rest) => .ok (v, b.length - rest.length)
  | none => .panic "index out of range (ParseTLNum)"

/-- `ShrinkLength(buf, shrink)` -/
def shrinkLength (buf : Bytes) (shrink : Nat) : Res Bytes := do
  let (typ, s1) ← parseTLNum buf
  let (l, s2) ← parseTLNum (buf.drop s1)
  let newL := (l + u64 - shrink % u64) % u64
  let newS2 := tlLen newL
  if newS2 = s2 then pure (buf.take s1 ++ encTL newL ++ buf.drop (s1 + s2))
  else if newS2 > s2 ∨ tlLen typ ≠ s1 then .oom
  else pure (encTL typ ++ encTL newL ++ buf.drop (s1 + s2))

/-- `fixSigValueLength`: the buffer before the signature slot ends with the SignatureValue TL for
    the estimated size; re-encode the length for the actual size (buffer truncated if shorter) -/
def fixSigLenBuf (buf : Bytes) (est n : Nat) : Bytes := buf.take (buf.length - tlLen est) ++ encTL n
def fixSigShrink (est n : Nat) : Nat := (est - n) + (tlLen est - tlLen n)

def setAt {α : Type} (l : List α) (i : Nat) (a : α) : List α := l.set i a

/-! ### Data -/

structure DataIn where
  name : Name
  mi : MetaInfo
  content : Option (List Bytes)
  si : Option SigInfo
  est : Nat
deriving Repr

def contentLen (bufs : List Bytes) : Nat := (bufs.map List.length).sum

/-- the SignatureValue TL of the estimated size (no value: the value is the slot) -/
def sigTL (t : Nat) (est : Nat) : Bytes := if est > 0 then encTL t ++ encTL est else []
def sigTLLen (t : Nat) (est : Nat) : Nat := if est > 0 then tlLen t + tlLen est + est else 0

/-- `DataEncoder.Init`: `encoder.length` -/
def dataLen (d : DataIn) : Nat :=
  nameFieldLen 7 d.name
  + (1 + tlLen (metaLen d.mi) + metaLen d.mi)
  + optN d.content (fun c => 1 + tlLen (contentLen c) + contentLen c)
  + optN d.si (fun s => 1 + tlLen (sigInfoLen s) + sigInfoLen s)
  + sigTLLen 23 d.est

/-- bytes `DataEncoder.EncodeInto` writes before the Content TL -/
def dataHead (d : DataIn) : Bytes :=
  encNameField 7 d.name ++ (encTL 20 ++ encTL (metaLen d.mi) ++ encMeta d.mi)

/-- bytes written after the content buffers: SignatureInfo TLV and the SignatureValue TL -/
def dataTail (d : DataIn) : Bytes :=
  optB d.si (fun s => encTL 22 ++ encTL (sigInfoLen s) ++ encSigInfo s) ++ sigTL 23 d.est

/-- the segments of the Data VALUE as laid out by the wire plan (slot = signature slot, empty) -/
def dataSegs (d : DataIn) : List Bytes :=
  match d.content with
  | none => if d.est > 0 then [dataHead d ++ dataTail d, []] else [dataHead d ++ dataTail d]
  | some c =>
    [dataHead d ++ (encTL 21 ++ encTL (contentLen c))] ++ c ++
      (if d.est > 0 then [dataTail d, []] else if dataTail d = [] then [] else [dataTail d])

/-- `DataEncoder.wirePlan` as computed by Init (announced buffer sizes) -/
def dataPlan (d : DataIn) : List Nat :=
  let head := nameFieldLen 7 d.name + (1 + tlLen (metaLen d.mi) + metaLen d.mi)
  let tail := optN d.si (fun s => 1 + tlLen (sigInfoLen s) + sigInfoLen s) + (if d.est > 0 then 1 + tlLen d.est else 0)
  match d.content with
  | none => if d.est > 0 then [head + tail, 0] else [head + tail]
  | some c =>
    [head + (1 + tlLen (contentLen c))] ++ c.map (fun _ => 0) ++
      (if d.est > 0 then [tail, 0] else if tail = 0 then [] else [tail])

/-- index of the signature slot in the segment list (`SignatureValue_wireIdx`) -/
def dataSigIdx (d : DataIn) : Nat :=
  match d.content with
  | none => 1
  | some c => c.length + 2

/-- `encoder.sigCovered` of the Data encoder: from the offset marker (start of the Data value) to
    the start of the SignatureValue TLV, collected segment by segment -/
def dataSigCovered (d : DataIn) : Bytes :=
  let tail := optB d.si (fun s => encTL 22 ++ encTL (sigInfoLen s) ++ encSigInfo s)
  match d.content with
  | none => dataHead d ++ tail                                   -- same buffer: buf[sigCoverStart:startPos]
  | some c => (dataHead d ++ (encTL 21 ++ encTL (contentLen c))) ++ c.flatten ++ tail

structure Encoded where
  wire : List Bytes
  sigCovered : Option Bytes     -- what was handed to the signer (none: not signed)
  sigVal : Bytes := []
deriving Repr

/-- `PacketEncoder`: prepend the outer TL (type `t`, announced length `len`) to the first segment -/
def wrapPacket (t : Nat) (len : Nat) (segs : List Bytes) : List Bytes :=
  match segs with
  | [] => [encTL t ++ encTL len]
  | h :: rest => (encTL t ++ encTL len ++ h) :: rest

/-- the signature patch common to MakeData / MakeInterest: put the value into the slot and fix the
    length field in the buffer before it -/
def patchSig (wire : List Bytes) (idx est : Nat) (sv : Bytes) : List Bytes :=
  let wire := wire.set idx sv
  wire.set (idx - 1) (fixSigLenBuf (wire.getD (idx - 1) []) est sv.length)

/-- `Spec{}.MakeData` after the SigInfo() inspection: `d.si`/`d.est` come from the signer
    (`est = 0` when the signer is nil or announces no signature). `sign` is the signer. -/
def makeData (d : DataIn) (sign : Bytes → Bytes) : Res Encoded :=
  let wire := wrapPacket 6 (dataLen d) (dataSegs d)
  if d.est > 0 then
    let cov := dataSigCovered d
    let sv := sign cov
    if sv.length > d.est then .err
    else do
      let wire := patchSig wire (dataSigIdx d) d.est sv
      let w0 ← shrinkLength (wire.getD 0 []) (fixSigShrink d.est sv.length)
      pure { wire := wire.set 0 w0, sigCovered := some cov, sigVal := sv }
  else pure { wire := wire, sigCovered := none }

/-! ### Interest -/

structure InterestIn where
  name : Name
  cbp : Bool
  mbf : Bool
  fh : Option (List Name)
  nonce : Option Nat
  lt : Option Nat
  hl : Option Nat
  ap : Option (List Bytes)
  si : Option SigInfo
  est : Nat
deriving Repr

def digestComp (v : Bytes) : Component := ⟨2, v⟩

/-- `InterestEncoder.Init` on the name: drop a trailing ParametersSha256Digest component, append a
    32-byte zero placeholder when parameters are present -/
def interestName (n : Name) (needDigest : Bool) : Name :=
  let n := match n.getLast? with
    | some c => if c.typ = 2 then n.dropLast else n
    | none => n
  if needDigest then n ++ [digestComp (List.replicate 32 0)] else n

def boolField (t : Nat) (b : Bool) : Bytes := if b then encTL t ++ [0] else []
def boolFieldLen (b : Bool) : Nat := if b then 2 else 0

/-- fixedUint fields: Nonce (4 bytes), HopLimit (1 byte) -/
def encNonce (x : Nat) : Bytes := [10, 4] ++ be 4 x
def encHopLimit (x : Nat) : Bytes := [34, 1, x % 256]

/-- bytes before the offset markers (name … HopLimit) for the final name `fn` -/
def interestHead (i : InterestIn) (fn : Name) : Bytes :=
  encNameField 7 fn ++ boolField 33 i.cbp ++ boolField 18 i.mbf
  ++ optB i.fh (fun ns => encTL 30 ++ encTL (linksLen ns) ++ encLinks ns)
  ++ optB i.nonce encNonce ++ optB i.lt (encNatField 12) ++ optB i.hl encHopLimit

def interestHeadLen (i : InterestIn) (fn : Name) : Nat :=
  nameFieldLen 7 fn + boolFieldLen i.cbp + boolFieldLen i.mbf
  + optN i.fh (fun ns => 1 + tlLen (linksLen ns) + linksLen ns)
  + optN i.nonce (fun _ => 6) + optN i.lt (natFieldLen 12) + optN i.hl (fun _ => 3)

def interestTail (i : InterestIn) : Bytes :=
  optB i.si (fun s => encTL 44 ++ encTL (sigInfoLen s) ++ encSigInfo s) ++ sigTL 46 i.est

def interestLen (i : InterestIn) (fn : Name) : Nat :=
  interestHeadLen i fn
  + optN i.ap (fun c => 1 + tlLen (contentLen c) + contentLen c)
  + optN i.si (fun s => 1 + tlLen (sigInfoLen s) + sigInfoLen s)
  + sigTLLen 46 i.est

def interestSegs (i : InterestIn) (fn : Name) : List Bytes :=
  match i.ap with
  | none => if i.est > 0 then [interestHead i fn ++ interestTail i, []] else [interestHead i fn ++ interestTail i]
  | some c =>
    [interestHead i fn ++ (encTL 36 ++ encTL (contentLen c))] ++ c ++
      (if i.est > 0 then [interestTail i, []] else if interestTail i = [] then [] else [interestTail i])

def interestSigIdx (i : InterestIn) : Nat :=
  match i.ap with
  | none => 1
  | some c => c.length + 2

/-- `encoder.sigCovered` of the Interest encoder: the name components except the last one when it
    is the digest placeholder (all of them otherwise), then from the offset marker (start of
    ApplicationParameters) to the start of the SignatureValue TLV -/
def interestSigCovered (i : InterestIn) (fn : Name) : Bytes :=
  let namePart := encNameInner (if i.ap.isSome then fn.dropLast else fn)
  let tail := optB i.si (fun s => encTL 44 ++ encTL (sigInfoLen s) ++ encSigInfo s)
  match i.ap with
  | none => namePart ++ tail
  | some c => namePart ++ ((encTL 36 ++ encTL (contentLen c)) ++ c.flatten ++ tail)

/-- replace the 32 placeholder bytes of the digest component inside the first segment -/
def patchDigest (seg0 : Bytes) (pos : Nat) (dg : Bytes) : Bytes :=
  seg0.take pos ++ dg ++ seg0.drop (pos + 32)

/-- `Spec{}.MakeInterest` after the SigInfo() inspection. `H` is SHA-256. -/
def makeInterest (i : InterestIn) (sign : Bytes → Bytes) (H : Bytes → Bytes) : Res (Encoded × Name) :=
  let need := i.ap.isSome
  let fn := interestName i.name need
  let len := interestLen i fn
  let wire := wrapPacket 5 len (interestSegs i fn)
  let cov := interestSigCovered i fn
  if i.est > 0 ∧ i.ap.isNone then .err else
  let sv := if i.est > 0 then sign cov else []
  if sv.length > i.est then .err else
  let wire := if i.est > 0 then patchSig wire (interestSigIdx i) i.est sv else wire
  -- digest
  let (wire, fn) :=
    match i.ap with
    | none => (wire, fn)
    | some c =>
      let seg0 := wire.getD 0 []
      let apTL := encTL 36 ++ encTL (contentLen c)
      let dg := H (apTL ++ (wire.drop 1).flatten)
      -- NameV_pos + s1 + s2: start of the digest value inside the first segment
      let pos := tlLen 5 + tlLen len + (tlLen 7 + tlLen (nameLen fn) + nameLen fn.dropLast + 2)
      (wire.set 0 (patchDigest seg0 pos dg), fn.dropLast ++ [digestComp dg])
  let shrink := if i.est > 0 then fixSigShrink i.est sv.length else 0
  if shrink > 0 then do
    let w0 ← shrinkLength (wire.getD 0 []) shrink
    pure ({ wire := wire.set 0 w0, sigCovered := if i.est > 0 then some cov else none, sigVal := sv }, fn)
  else pure ({ wire := wire, sigCovered := if i.est > 0 then some cov else none, sigVal := sv }, fn)

end Ndn.C03

namespace Ndn.C03

/-! ### what MakeData / MakeInterest take from `signer.SigInfo()` -/

/-- `ndn.SigConfig` (Type = -1 is SignatureNone) -/
structure SigCfg where
  typ : Int
  keyName : Option Name := none
  nonce : Option Bytes := none
  time : Option Nat := none          -- SigTime.UnixMilli()
  seq : Option Nat := none
  notBefore : Option Bytes := none   -- already formatted with TimeFmt
  notAfter : Option Bytes := none
deriving Repr

/-- spec.go MakeData, "Fill-in SignatureInfo": the SignatureInfo to encode and the estimate -/
def dataSigSetup (sc : Option SigCfg) (est : Nat) : Res (Option SigInfo × Nat) :=
  match sc with
  | none => .ok (none, 0)
  | some c =>
    if c.typ = -1 then .ok (none, 0)
    else if c.nonce.isSome ∨ c.seq.isSome ∨ c.time.isSome then .err
    else
      let si : SigInfo := { typ := c.typ.toNat, keyLoc := c.keyName.map (fun n => { name := some n }) }
      match c.notBefore, c.notAfter with
      | none, none => .ok (some si, est)
      | some nb, some na => .ok (some { si with validity := some (nb, na) }, est)
      | _, _ => .err

/-- spec.go MakeInterest, "Fill-in SignatureInfo" -/
def interestSigSetup (sc : Option SigCfg) (est : Nat) (needDigest : Bool) : Res (Option SigInfo × Nat) :=
  match sc with
  | none => .ok (none, 0)
  | some c =>
    if c.typ = -1 then .ok (none, 0)
    else if !needDigest then .err
    else if c.notBefore.isSome ∨ c.notAfter.isSome then .err
    else if c.typ ≠ 0 ∧ c.keyName.isNone then .err
    else
      let si : SigInfo := { typ := c.typ.toNat, nonce := c.nonce, seq := c.seq, time := c.time,
                            keyLoc := if c.typ ≠ 0 then c.keyName.map (fun n => { name := some n }) else none }
      .ok (some si, est)

end Ndn.C03

namespace Ndn.C03

/-- `InterestEncoder.wirePlan` as computed by Init (announced buffer sizes; 0 = a buffer that is not
    allocated: the caller's parameter buffers and the signature slot) for the final name `fn` -/
def interestPlan (i : InterestIn) (fn : Name) : List Nat :=
  let head := interestHeadLen i fn
  let tail := optN i.si (fun s => 1 + tlLen (sigInfoLen s) + sigInfoLen s) + (if i.est > 0 then 1 + tlLen i.est else 0)
  match i.ap with
  | none => if i.est > 0 then [head + tail, 0] else [head + tail]
  | some c =>
    [head + (1 + tlLen (contentLen c))] ++ c.map (fun _ => 0) ++
      (if i.est > 0 then [tail, 0] else if tail = 0 then [] else [tail])

/-- "the wire plan equals what EncodeInto writes": same number of buffers, and every ALLOCATED
    buffer (plan entry > 0) has exactly the announced size -/
def PlanMatches (plan : List Nat) (segs : List Bytes) : Prop :=
  plan.length = segs.length ∧ ∀ k, k < plan.length → plan.getD k 0 ≠ 0 → plan.getD k 0 = (segs.getD k []).length

end Ndn.C03
