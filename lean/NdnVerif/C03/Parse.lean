/-
  C03/Parse.lean — what the generated parsers do (zz_generated.go `<Model>ParsingContext.Parse`,
  spec.go ReadData / ReadInterest / ReadPacket / checkInterest, name_pattern.go ReadName /
  NameFromBytes, name_component.go ReadComponent / ComponentFromBytes), written once over the
  reader model `Rd` (BufferReader or WireReader), branch by branch:

  * the outer `for { startPos = reader.Pos(); if startPos >= reader.Length() break; typ; l; … }`
  * unordered models (Packet, MetaInfo, SignatureInfo, KeyLocator, ValidityPeriod, Links):
    `switch typ` with the critical-bit rule in `default`
  * ordered models (Data, Interest): the `for handled := false; !handled && progress < N; progress++`
    loop with its absent-actions (offset markers!), including its behaviour on repeated /
    out-of-order / trailing elements (value not skipped when `progress` is exhausted)
  * name fields (`make(enc.Name, l/2+1)` loop), the Interest name variant that tracks the
    ParametersSha256Digest component for the signed range
  * natural / time fields (`l` × ReadByte, any `l`), fixedUint, binary (`io.ReadFull`), string
    (`io.CopyN`), wire (`ReadWire`), struct (`Delegate`), HopLimit (`Skip(1)` + `Range`).
-/
import NdnVerif.C03.Model
namespace Ndn.C03

/-- `int(l)` of a TLNum `l ≥ 2^63` is negative. The reader operations take `Nat` lengths and fail for
    every length beyond the remaining input, which is also what the Go readers do for a negative
    `int` (ReadWire/ReadBuf/Skip return an error, Delegate returns an empty reader without advancing);
    only the `for i := 0; i < int(l); i++` loops and `io.CopyN(…, int64(l))` behave differently for a
    negative count: they do nothing and report no error. -/
def negInt (l : Nat) : Bool := l ≥ 2 ^ 63

/-- `ReadTLNum`: 1, 3, 5 or 9 × ReadByte -/
def readBytesAcc : Nat → Rd → Nat → Res (Nat × Rd)
  | 0, r, acc => .ok (acc, r)
  | k + 1, r, acc => do
    let (x, r) ← r.readByte
    readBytesAcc k r ((acc * 256 + x) % u64)

def readTL (r : Rd) : Res (Nat × Rd) := do
  let (x, r) ← r.readByte
  if x ≤ 0xfc then pure (x, r)
  else readBytesAcc (tlExtra x) r 0

/-- natural / time / fixedUint value: `for i := 0; i < int(l); i++ { ReadByte }` accumulating in a
    `width`-bit unsigned. A negative `int(l)` runs zero iterations (value 0, no error). If fewer than
    `l` bytes remain the loop ends in io.ErrUnexpectedEOF; the guard avoids iterating a huge `l`. -/
def readNat (r : Rd) (l : Nat) (width : Nat) : Res (Nat × Rd) :=
  if negInt l then .ok (0, r)
  else if l > r.length - r.pos then .err
  else do
    let (v, r) ← readBytesAcc l r 0
    pure (v % 2 ^ width, r)

/-- a non-negative integer of the NDN packet format is 1, 2, 4 or 8 bytes long -/
def natWidthOk (l : Nat) : Bool := l == 1 || l == 2 || l == 4 || l == 8

/-- natural and time fields (`GenNaturalNumberDecode`; repair F-13e: before it every length was
    accepted): `if l != 1 && l != 2 && l != 4 && l != 8 { err = ErrFormat } else { the byte loop }` -/
def readNatural (r : Rd) (l : Nat) : Res (Nat × Rd) :=
  if natWidthOk l then readNat r l 64 else .err

/-- the encoder only ever writes the four widths the decoder accepts -/
theorem natWidthOk_natLen (x : Nat) : natWidthOk (natLen x) = true := by
  unfold natLen natWidthOk; repeat' split
  all_goals decide

@[simp] theorem readNatural_natLen (r : Rd) (x : Nat) :
    readNatural r (natLen x) = readNat r (natLen x) 64 := by
  unfold readNatural; rw [if_pos (natWidthOk_natLen x)]

theorem readNatural_ok {r r1 : Rd} {l x : Nat} (h : readNatural r l = .ok (x, r1)) :
    readNat r l 64 = .ok (x, r1) := by
  unfold readNatural at h
  split at h
  · exact h
  · cases h

def critical (typ : Nat) : Bool := typ ≤ 31 || typ % 2 == 1

/-- the generated guard of name and binary fields (`if l > enc.TLNum(reader.Length()-reader.Pos())`,
    an unsigned comparison): the announced length must not exceed what is left to read -/
def lenGuard (r : Rd) (l : Nat) : Res Unit :=
  if l > r.length - r.pos then .err else .ok ()

/-- string field: `io.CopyN(&builder, reader, int64(l))`; a negative count copies nothing and reports
    no error -/
def readString (r : Rd) (l : Nat) : Res (Bytes × Rd) :=
  if negInt l then .ok ([], r) else r.readFull l

/-! ### names -/

/-- the component loop of a generated name field: at most `l/2+1` components, stop when
    `reader.Pos() >= endName`; `sigEnd` tracks the start of the last ParametersSha256Digest
    component (Interest name only; ignored elsewhere) -/
def nameLoop : Nat → Rd → Nat → Name → Nat → Res (Name × Nat × Rd)
  | 0, r, endName, acc, sigEnd => if r.pos ≠ endName then .err else .ok (acc, sigEnd, r)
  | fuel + 1, r, endName, acc, sigEnd =>
    let startComponent := r.pos
    if startComponent ≥ endName then
      (if r.pos ≠ endName then .err else .ok (acc, sigEnd, r))
    else do
      let (t, r) ← readTL r
      let (l, r) ← readTL r
      let (v, r) ← r.readBuf l
      nameLoop fuel r endName (acc ++ [⟨t, v⟩]) (if t = 2 then startComponent else sigEnd)

/-- a name field of announced length `l`: (name, sigCoverEnd, reader) -/
def readNameField (r : Rd) (l : Nat) : Res (Name × Nat × Rd) := do
  lenGuard r l
  let startName := r.pos
  nameLoop (l / 2 + 1) r (startName + l) [] (startName + l)

/-- `ReadComponent` -/
def readComponent (r : Rd) : Res (Component × Rd) := do
  let (t, r) ← readTL r
  let (l, r) ← readTL r
  let (v, r) ← r.readBuf l
  pure (⟨t, v⟩, r)

/-- `ReadName`: components until a clean io.EOF at a component boundary -/
def readNameLoop : Nat → Rd → Name → Res Name
  | 0, _, _ => .oom
  | fuel + 1, r, acc =>
    if r.pos ≥ r.length then .ok acc          -- first ReadByte of ReadTLNum returns io.EOF
    else do
      let (c, r) ← readComponent r
      readNameLoop fuel r (acc ++ [c])

/-- `NameFromBytes` -/
def nameFromBytes (b : Bytes) : Res Name := do
  let r := newBufferReader b
  let (t, r) ← readTL r
  if t ≠ 7 then .err else
  let (l, r) ← readTL r
  let start := r.pos
  let n ← readNameLoop (b.length + 1) r []
  if l ≠ r.length - start then .err else pure n

/-- `ComponentFromBytes` (trailing bytes are ignored by the code) -/
def componentFromBytes (b : Bytes) : Res Component := do
  let (c, _) ← readComponent (newBufferReader b)
  pure c

/-! ### the generic TLV loop -/

/-- `for { startPos = Pos(); if startPos >= Length() break; typ, l = ReadTLNum ×2; body }` -/
def tlvLoop {σ : Type} (body : σ → Nat → Nat → Nat → Rd → Res (σ × Rd)) : Nat → σ → Rd → Res (σ × Rd)
  | 0, _, _ => .oom
  | fuel + 1, st, r =>
    let startPos := r.pos
    if startPos ≥ r.length then .ok (st, r)
    else do
      let (typ, r) ← readTL r
      let (l, r) ← readTL r
      let (st, r) ← body st typ l startPos r
      tlvLoop body fuel st r

def loopFuel (r : Rd) : Nat := r.length - r.pos + 1

/-- `default:` of every generated switch -/
def unknownField {σ : Type} (st : σ) (typ l : Nat) (r : Rd) : Res (σ × Rd) :=
  if critical typ then .err else do
    let r ← r.skip l
    pure (st, r)

/-! ### unordered sub-structures -/

def keyLocBody (k : KeyLoc) (typ l _sp : Nat) (r : Rd) : Res (KeyLoc × Rd) :=
  if typ = 7 then do
    let (n, _, r) ← readNameField r l
    pure ({ k with name := some n }, r)
  else if typ = 29 then do
    lenGuard r l
    let (v, r) ← r.readFull l
    pure ({ k with digest := some v }, r)
  else unknownField k typ l r

def parseKeyLoc (r : Rd) : Res KeyLoc := do
  let (k, _) ← tlvLoop keyLocBody (loopFuel r) ⟨none, none⟩ r
  pure k

/-- ValidityPeriod: both strings are required fields -/
def validityBody (v : Option Bytes × Option Bytes) (typ l _sp : Nat) (r : Rd) : Res ((Option Bytes × Option Bytes) × Rd) :=
  if typ = 254 then do
    let (s, r) ← readString r l
    pure ((some s, v.2), r)
  else if typ = 255 then do
    let (s, r) ← readString r l
    pure ((v.1, some s), r)
  else unknownField v typ l r

def parseValidity (r : Rd) : Res (Bytes × Bytes) := do
  let (v, _) ← tlvLoop validityBody (loopFuel r) (none, none) r
  match v with
  | (some a, some b) => pure (a, b)
  | _ => .err                                   -- ErrSkipRequired

structure SigInfoSt where
  typ : Option Nat := none
  si : SigInfo := { typ := 0 }

def sigInfoBody (s : SigInfoSt) (typ l _sp : Nat) (r : Rd) : Res (SigInfoSt × Rd) :=
  if typ = 27 then do
    let (v, r) ← readNatural r l
    pure ({ s with typ := some v }, r)
  else if typ = 28 then do
    let (sub, r) ← r.delegate l
    let k ← parseKeyLoc sub
    pure ({ s with si := { s.si with keyLoc := some k } }, r)
  else if typ = 38 then do
    lenGuard r l
    let (v, r) ← r.readFull l
    pure ({ s with si := { s.si with nonce := some v } }, r)
  else if typ = 40 then do
    let (v, r) ← readNatural r l
    pure ({ s with si := { s.si with time := some v } }, r)
  else if typ = 42 then do
    let (v, r) ← readNatural r l
    pure ({ s with si := { s.si with seq := some v } }, r)
  else if typ = 253 then do
    let (sub, r) ← r.delegate l
    let v ← parseValidity sub
    pure ({ s with si := { s.si with validity := some v } }, r)
  else if typ = 258 then .oom                   -- AdditionalDescription: never built here
  else unknownField s typ l r

def parseSigInfo (r : Rd) : Res SigInfo := do
  let (s, _) ← tlvLoop sigInfoBody (loopFuel r) {} r
  match s.typ with
  | some t => pure { s.si with typ := t }
  | none => .err                                -- SignatureType is required

def metaBody (m : MetaInfo) (typ l _sp : Nat) (r : Rd) : Res (MetaInfo × Rd) :=
  if typ = 24 then do
    let (v, r) ← readNatural r l
    pure ({ m with ct := some v }, r)
  else if typ = 25 then do
    let (v, r) ← readNatural r l
    pure ({ m with fresh := some v }, r)
  else if typ = 26 then do
    lenGuard r l
    let (v, r) ← r.readFull l
    pure ({ m with fb := some v }, r)
  else unknownField m typ l r

def parseMeta (r : Rd) : Res MetaInfo := do
  let (m, _) ← tlvLoop metaBody (loopFuel r) {} r
  pure m

def linksBody (ns : List Name) (typ l _sp : Nat) (r : Rd) : Res (List Name × Rd) :=
  if typ = 7 then do
    let (n, _, r) ← readNameField r l
    pure (ns ++ [n], r)
  else unknownField ns typ l r

def parseLinks (r : Rd) : Res (List Name) := do
  let (ns, _) ← tlvLoop linksBody (loopFuel r) [] r
  pure ns

/-! ### ordered models: the `progress` loop -/

/-- one outer iteration of an ordered model. `q = progress + 1`. `idx typ` is the slot of a known
    field type, `handle k` consumes the value of slot `k`, `absent k` is the action of the
    `switch progress` arm for slot `k` (offset / range markers), `n` the number of slots. -/
def ordLoop {σ : Type} (n : Nat) (idx : Nat → Option Nat)
    (handle : Nat → σ → Nat → Nat → Rd → Res (σ × Rd)) (absent : Nat → σ → Nat → Rd → σ)
    (typ l sp : Nat) : Nat → Nat → σ → Rd → Res ((σ × Nat) × Rd)
  | 0, q, st, r => .ok ((st, q), r)
  | fuel + 1, q, st, r =>
    if q > n then .ok ((st, q), r)
    else match idx typ with
      | some k =>
        if q = k then do
          let (st, r) ← handle k st l sp r
          pure ((st, q + 1), r)
        else ordLoop n idx handle absent typ l sp fuel (q + 1) (absent q st sp r) r
      | none =>
        -- `default:` skips the element and does `progress--`: an unknown non-critical element does
        -- not consume a field slot (fix F-13a)
        if critical typ then .err else do
          let r ← r.skip l
          pure ((st, q), r)

/-- the tail of an ordered `Parse`: slots never reached get their absent-action at the end position -/
def ordFinish {σ : Type} (absent : Nat → σ → Nat → Rd → σ) (r : Rd) : Nat → Nat → σ → σ
  | 0, _, st => st
  | fuel + 1, q, st => ordFinish absent r fuel (q + 1) (absent q st r.pos r)

/-! ### Data -/

structure DataP where
  name : Option Name := none
  mi : Option MetaInfo := none
  content : Option Bytes := none
  si : Option SigInfo := none
  sv : Option Bytes := none
deriving DecidableEq, Repr

/-- `DataParsingContext` + the value under construction -/
structure DataSt where
  v : DataP := {}
  sigCovered : Bytes := []
  sigCoverStart : Nat := 0
deriving Repr

def dataIdx (typ : Nat) : Option Nat :=
  if typ = 7 then some 2 else if typ = 20 then some 3 else if typ = 21 then some 4
  else if typ = 22 then some 5 else if typ = 23 then some 6 else none

def dataHandle (k : Nat) (s : DataSt) (l sp : Nat) (r : Rd) : Res (DataSt × Rd) :=
  if k = 2 then do
    let (n, _, r) ← readNameField r l
    pure ({ s with v := { s.v with name := some n } }, r)
  else if k = 3 then do
    let (sub, r) ← r.delegate l
    let m ← parseMeta sub
    pure ({ s with v := { s.v with mi := some m } }, r)
  else if k = 4 then do
    let (c, r) ← r.readWire l
    pure ({ s with v := { s.v with content := some c } }, r)
  else if k = 5 then do
    let (sub, r) ← r.delegate l
    let si ← parseSigInfo sub
    pure ({ s with v := { s.v with si := some si } }, r)
  else do
    let (c, r) ← r.readWire l
    pure ({ s with v := { s.v with sv := some c }, sigCovered := s.sigCovered ++ r.range s.sigCoverStart sp }, r)

def dataAbsent (k : Nat) (s : DataSt) (sp : Nat) (_r : Rd) : DataSt :=
  if k = 1 then { s with sigCoverStart := sp } else s

def dataBody (s : DataSt × Nat) (typ l sp : Nat) (r : Rd) : Res ((DataSt × Nat) × Rd) :=
  ordLoop 7 dataIdx dataHandle dataAbsent typ l sp 9 s.2 s.1 r

/-- `DataParsingContext.Parse` starting from context state `s0` (contexts persist across repeated
    Data elements of one Packet) -/
def parseData (s0 : DataSt) (r : Rd) : Res DataSt := do
  let ((s, q), r) ← tlvLoop dataBody (loopFuel r) ({ s0 with v := {} }, 0) r
  pure (ordFinish dataAbsent r (7 - q) q s)

/-! ### Interest -/

structure InterestP where
  name : Option Name := none
  cbp : Bool := false
  mbf : Bool := false
  fh : Option (List Name) := none
  nonce : Option Nat := none
  lt : Option Nat := none
  hl : Option Nat := none
  ap : Option Bytes := none
  si : Option SigInfo := none
  sv : Option Bytes := none
deriving DecidableEq, Repr

structure InterestSt where
  v : InterestP := {}
  sigCovered : Bytes := []
  digestCovered : Bytes := []
  sigCoverStart : Nat := 0
  digestCoverStart : Nat := 0
deriving Repr

def interestIdx (typ : Nat) : Option Nat :=
  if typ = 7 then some 2 else if typ = 33 then some 3 else if typ = 18 then some 4
  else if typ = 30 then some 5 else if typ = 10 then some 6 else if typ = 12 then some 7
  else if typ = 34 then some 8 else if typ = 36 then some 11 else if typ = 44 then some 12
  else if typ = 46 then some 13 else none

def interestHandle (k : Nat) (s : InterestSt) (l sp : Nat) (r : Rd) : Res (InterestSt × Rd) :=
  if k = 2 then do
    let startName := r.pos
    let (n, sigEnd, r) ← readNameField r l
    pure ({ s with v := { s.v with name := some n }, sigCovered := s.sigCovered ++ r.range startName sigEnd }, r)
  else if k = 3 then pure ({ s with v := { s.v with cbp := true } }, r)      -- value NOT skipped
  else if k = 4 then pure ({ s with v := { s.v with mbf := true } }, r)
  else if k = 5 then do
    let (sub, r) ← r.delegate l
    let ns ← parseLinks sub
    pure ({ s with v := { s.v with fh := some ns } }, r)
  else if k = 6 then do
    let (x, r) ← readNat r l 32
    pure ({ s with v := { s.v with nonce := some x } }, r)
  else if k = 7 then do
    let (x, r) ← readNatural r l
    pure ({ s with v := { s.v with lt := some x } }, r)
  else if k = 8 then
    -- err = reader.Skip(1); value.HopLimitV = &reader.Range(Pos()-1, Pos())[0][0]   (l is ignored)
    match r.skip 1 with
    | .ok r =>
      match r.range (r.pos - 1) r.pos with
      | x :: _ => pure ({ s with v := { s.v with hl := some x } }, r)
      | [] => .panic "index out of range (HopLimit Range)"
    | .err => .err       -- a failed Skip leaves the reader unchanged; Range(Pos()-1, Pos()) is valid (Pos() ≥ 2)
    | .panic m => .panic m
    | .alloc => .alloc
    | .oom => .oom
  else if k = 11 then do
    let (c, r) ← r.readWire l
    pure ({ s with v := { s.v with ap := some c } }, r)
  else if k = 12 then do
    let (sub, r) ← r.delegate l
    let si ← parseSigInfo sub
    pure ({ s with v := { s.v with si := some si } }, r)
  else do
    let (c, r) ← r.readWire l
    pure ({ s with v := { s.v with sv := some c }, sigCovered := s.sigCovered ++ r.range s.sigCoverStart sp }, r)

def interestAbsent (k : Nat) (s : InterestSt) (sp : Nat) (r : Rd) : InterestSt :=
  if k = 9 then { s with sigCoverStart := sp }
  else if k = 10 then { s with digestCoverStart := sp }
  else if k = 14 then { s with digestCovered := r.range s.digestCoverStart sp }
  else s

def interestBody (s : InterestSt × Nat) (typ l sp : Nat) (r : Rd) : Res ((InterestSt × Nat) × Rd) :=
  ordLoop 15 interestIdx interestHandle interestAbsent typ l sp 17 s.2 s.1 r

def parseInterest (s0 : InterestSt) (r : Rd) : Res InterestSt := do
  let ((s, q), r) ← tlvLoop interestBody (loopFuel r) ({ s0 with v := {} }, 0) r
  pure (ordFinish interestAbsent r (15 - q) q s)

/-- `checkInterest` with SHA-256 `H` -/
def checkInterest (H : Bytes → Bytes) (s : InterestSt) : Bool :=
  match s.v.name with
  | none => false
  | some name =>
    if s.v.sv.isSome ∧ s.v.ap.isNone then false
    else if s.v.ap.isSome then
      match name.getLast? with
      | none => false
      | some c => c.typ = 2 ∧ c.val = H s.digestCovered
    else
      -- no parameters: a trailing ParametersSha256Digest component is rejected
      match name.getLast? with
      | some c => c.typ ≠ 2
      | none => true

/-! ### Packet -/

structure PacketSt where
  interest : Option InterestSt := none    -- value.Interest (with the context as of its parse)
  data : Option DataSt := none
  ictx : InterestSt := {}
  dctx : DataSt := {}
deriving Repr

def packetBody (p : PacketSt) (typ l _sp : Nat) (r : Rd) : Res (PacketSt × Rd) :=
  if typ = 5 then do
    let (sub, r) ← r.delegate l
    let s ← parseInterest p.ictx sub
    pure ({ p with interest := some s, ictx := s }, r)
  else if typ = 6 then do
    let (sub, r) ← r.delegate l
    let s ← parseData p.dctx sub
    pure ({ p with data := some s, dctx := s }, r)
  else if typ = 100 then .oom                   -- LpPacket: not part of this model
  else unknownField p typ l r

def parsePacket (r : Rd) : Res PacketSt := do
  let (p, _) ← tlvLoop packetBody (loopFuel r) {} r
  pure p

/-- `Spec{}.ReadData`: (Data, sigCovered) -/
def readData (r : Rd) : Res (DataP × Bytes) := do
  let p ← parsePacket r
  match p.data with
  | none => .err
  | some d => if d.v.name.isNone then .err else pure (d.v, p.dctx.sigCovered)

/-- `Spec{}.ReadInterest` -/
def readInterest (H : Bytes → Bytes) (r : Rd) : Res (InterestP × Bytes) := do
  let p ← parsePacket r
  match p.interest with
  | none => .err
  | some i => if checkInterest H { i with digestCovered := p.ictx.digestCovered } then pure (i.v, p.ictx.sigCovered) else .err

inductive Pkt where
  | data (d : DataP) (cov : Bytes)
  | interest (i : InterestP) (cov : Bytes)
deriving Repr

/-- `ReadPacket` (Data checked first, then Interest) -/
def readPacket (H : Bytes → Bytes) (r : Rd) : Res Pkt := do
  let p ← parsePacket r
  match p.data with
  | some d => if d.v.name.isNone then .err else pure (.data d.v p.dctx.sigCovered)
  | none =>
    match p.interest with
    | some i => if checkInterest H { i with digestCovered := p.ictx.digestCovered } then pure (.interest i.v p.ictx.sigCovered) else .err
    | none => .err

end Ndn.C03
