/-
  C03/LemmasData.lean — decoding what the Data encoder wrote returns what was encoded, over ANY
  healthy reader: MetaInfo, KeyLocator, ValidityPeriod, SignatureInfo, then the Data packet
  (ordered loop, signature-covered range).
-/
import NdnVerif.C03.LemmasParse
namespace Ndn.C03

/-! ### small arithmetic / list facts -/

theorem natLen_le_dt (x : Nat) : natLen x ≤ 8 ∧ 0 < natLen x := by
  unfold natLen; repeat' split
  all_goals omega

theorem natLen_bound (x : Nat) (hx : x < 2 ^ 64) : x < 256 ^ natLen x ∧ 256 ^ natLen x ≤ u64 := by
  unfold natLen u64; repeat' split
  all_goals omega

theorem encTL_small_dt (x : Nat) (h : x ≤ 0xfc) : encTL x = [x] := by simp [encTL, h]

theorem tlLen_mono_dt {a b : Nat} (h : a ≤ b) : tlLen a ≤ tlLen b := by
  unfold tlLen; repeat' split
  all_goals omega

theorem tlLen_le_dt (x : Nat) : tlLen x ≤ 9 := by
  unfold tlLen; repeat' split
  all_goals omega

@[simp] theorem optB_none {α : Type} (f : α → Bytes) : optB none f = [] := rfl
@[simp] theorem optB_some {α : Type} (a : α) (f : α → Bytes) : optB (some a) f = f a := rfl

theorem contentLen_eq_dt (c : List Bytes) : contentLen c = c.flatten.length := by
  simp [contentLen, List.length_flatten]

/-- a generated natural field as a plain TLV -/
theorem encNatField_eq_dt (t x : Nat) :
    encNatField t x = encTL t ++ (encTL (be (natLen x) x).length ++ (be (natLen x) x ++ [])) := by
  have := natLen_le_dt x
  simp [encNatField, encTL_small_dt (natLen x) (by omega)]

theorem encBinField_eq_dt (t : Nat) (v : Bytes) :
    encBinField t v = encTL t ++ (encTL v.length ++ (v ++ [])) := by
  simp [encBinField]

section
variable (R : ReaderSpecs)
include R

/-! ### the generic loop, any sufficient fuel -/

theorem tlvLoop_end' {σ : Type} (body : σ → Nat → Nat → Nat → Rd → Res (σ × Rd)) (fuel : Nat) (st : σ)
    (r : Rd) (buf : Bytes) (p : Nat) (h : At r buf p) (hp : buf.drop p = []) (hf : 0 < fuel) :
    tlvLoop body fuel st r = .ok (st, r) := by
  have hpe : p = buf.length := by
    have := h.2.2
    have h2 := congrArg List.length hp
    simp at h2; omega
  obtain ⟨f, rfl⟩ : ∃ f, fuel = f + 1 := ⟨fuel - 1, by omega⟩
  exact tlvLoop_end R body f st r buf p h hpe

/-- one iteration over a complete TLV whose value the body consumes exactly -/
theorem tlvLoop_field {σ : Type} (body : σ → Nat → Nat → Nat → Rd → Res (σ × Rd)) (fuel : Nat) (st st' : σ)
    (r : Rd) (buf : Bytes) (p ty : Nat) (v rest : Bytes) (h : At r buf p)
    (hb : buf.drop p = encTL ty ++ (encTL v.length ++ (v ++ rest))) (hty : ty < 2 ^ 64)
    (hlen : buf.length < 2 ^ 62) (hf : buf.length - p < fuel)
    (hbody : ∀ r2 p2, At r2 buf p2 → r2.Live → buf.drop p2 = v ++ rest → p2 + v.length ≤ buf.length →
      ∃ r3, body st ty v.length p r2 = .ok (st', r3) ∧ At r3 buf (p2 + v.length)) :
    ∃ r3 p3, At r3 buf p3 ∧ buf.drop p3 = rest ∧ buf.length - p3 < fuel - 1 ∧
      tlvLoop body fuel st r = tlvLoop body (fuel - 1) st' r3 := by
  have hvl : v.length < 2 ^ 62 := by
    have h1 := congrArg List.length hb
    simp at h1; omega
  obtain ⟨f, rfl⟩ : ∃ f, fuel = f + 1 := ⟨fuel - 1, by omega⟩
  obtain ⟨r2, a2, l2, d2, e2⟩ := tlvLoop_step R body f st r buf p ty v.length (v ++ rest) h hb hty hvl
  obtain ⟨hle, _, d3⟩ := drop_append_len a2.2.2 d2
  obtain ⟨r3, e3, a3⟩ := hbody r2 _ a2 l2 d2 hle
  have := tlLen_pos ty
  refine ⟨r3, _, a3, d3, by simp; omega, ?_⟩
  rw [e2, e3]; rfl

/-! ### field values -/

theorem natValue_at (r : Rd) (buf : Bytes) (p x : Nat) (t : Bytes) (h : At r buf p)
    (hb : buf.drop p = be (natLen x) x ++ t) (hx : x < 2 ^ 64) :
    ∃ r', readNat r (natLen x) 64 = .ok (x, r') ∧ At r' buf (p + natLen x) := by
  obtain ⟨hx1, hx2⟩ := natLen_bound x hx
  obtain ⟨hle, htk, _⟩ := drop_append_len h.2.2 hb
  rw [be_length] at hle htk
  obtain ⟨r1, e1, a1, _⟩ := readBytesAcc_at R (natLen x) r buf p 0 h hle
  refine ⟨r1, ?_, a1⟩
  have hg : ¬ (natLen x > r.length - r.pos) := by rw [R.pos_eq r buf p h, R.length_eq r buf p h]; omega
  have hneg : negInt (natLen x) = false := by
    have := natLen_le_dt x
    simp [negInt]; omega
  simp [readNat, hneg, hg, e1, htk, accBytes_be _ x hx1 hx2, Nat.mod_eq_of_lt hx]

theorem lenGuard_at (r : Rd) (buf : Bytes) (p l : Nat) (h : At r buf p) (hle : p + l ≤ buf.length) :
    lenGuard r l = .ok () := by
  simp [lenGuard, R.pos_eq r buf p h, R.length_eq r buf p h]; omega

/-- a string field (`io.CopyN`) of a length that is a non-negative `int` -/
theorem strValue_at (r : Rd) (buf : Bytes) (p : Nat) (v t : Bytes) (h : At r buf p)
    (hb : buf.drop p = v ++ t) (hlen : buf.length < 2 ^ 63) :
    ∃ r', readString r v.length = .ok (v, r') ∧ At r' buf (p + v.length) := by
  obtain ⟨hle, htk, _⟩ := drop_append_len h.2.2 hb
  obtain ⟨r1, e1, a1⟩ := R.readFull_ok r buf p v.length h hle
  rw [htk] at e1
  have hneg : negInt v.length = false := by simp [negInt]; omega
  exact ⟨r1, by simp [readString, hneg, e1], a1⟩

theorem binValue_at (r : Rd) (buf : Bytes) (p : Nat) (v t : Bytes) (h : At r buf p)
    (hb : buf.drop p = v ++ t) :
    ∃ r', r.readFull v.length = .ok (v, r') ∧ At r' buf (p + v.length) := by
  obtain ⟨hle, htk, _⟩ := drop_append_len h.2.2 hb
  obtain ⟨r1, e1, a1⟩ := R.readFull_ok r buf p v.length h hle
  rw [htk] at e1
  exact ⟨r1, e1, a1⟩

theorem wireValue_at (r : Rd) (buf : Bytes) (p : Nat) (v t : Bytes) (h : At r buf p)
    (hb : buf.drop p = v ++ t) :
    ∃ r', r.readWire v.length = .ok (v, r') ∧ At r' buf (p + v.length) := by
  obtain ⟨hle, htk, _⟩ := drop_append_len h.2.2 hb
  obtain ⟨r1, e1, a1⟩ := R.readWire_ok r buf p v.length h hle
  rw [htk] at e1
  exact ⟨r1, e1, a1⟩

theorem delegate_at (r : Rd) (buf : Bytes) (p : Nat) (v t : Bytes) (h : At r buf p)
    (hb : buf.drop p = v ++ t) :
    ∃ sub r', r.delegate v.length = .ok (sub, r') ∧ At sub v 0 ∧ At r' buf (p + v.length) := by
  obtain ⟨hle, htk, _⟩ := drop_append_len h.2.2 hb
  obtain ⟨sub, r1, e1, as, a1⟩ := R.delegate_ok r buf p v.length h hle
  rw [htk] at as
  exact ⟨sub, r1, e1, as, a1⟩

theorem loopFuel_at (r : Rd) (buf : Bytes) (h : At r buf 0) : buf.length - 0 < loopFuel r := by
  simp [loopFuel, R.pos_eq r buf 0 h, R.length_eq r buf 0 h]

/-! ### MetaInfo -/

theorem meta_l3 (fuel : Nat) (r : Rd) (buf : Bytes) (p : Nat) (ct fresh : Option Nat) (fb : Option Bytes)
    (h : At r buf p) (hb : buf.drop p = optB fb (encBinField 26)) (hlen : buf.length < 2 ^ 62)
    (hf : buf.length - p < fuel) :
    ∃ r', tlvLoop metaBody fuel ⟨ct, fresh, none⟩ r = .ok (⟨ct, fresh, fb⟩, r') := by
  cases fb with
  | none => exact ⟨r, tlvLoop_end' R _ _ _ r buf p h (by simpa using hb) (by omega)⟩
  | some v =>
    simp only [optB_some, encBinField_eq_dt] at hb
    obtain ⟨r3, p3, a3, d3, f3, e3⟩ := tlvLoop_field R metaBody fuel ⟨ct, fresh, none⟩ ⟨ct, fresh, some v⟩
      r buf p 26 v [] h hb (by omega) hlen hf (by
        intro r2 p2 a2 _ d2 hle
        obtain ⟨r3, e3, a3⟩ := binValue_at R r2 buf p2 v [] a2 d2
        exact ⟨r3, by simp [metaBody, lenGuard_at R r2 buf p2 v.length a2 hle, e3], a3⟩)
    exact ⟨r3, by rw [e3]; exact tlvLoop_end' R _ _ _ r3 buf p3 a3 d3 (by omega)⟩

theorem meta_l2 (fuel : Nat) (r : Rd) (buf : Bytes) (p : Nat) (ct fresh : Option Nat) (fb : Option Bytes)
    (h : At r buf p) (hb : buf.drop p = optB fresh (encNatField 25) ++ optB fb (encBinField 26))
    (hv : ∀ x, fresh = some x → x < 2 ^ 64) (hlen : buf.length < 2 ^ 62)
    (hf : buf.length - p < fuel) :
    ∃ r', tlvLoop metaBody fuel ⟨ct, none, none⟩ r = .ok (⟨ct, fresh, fb⟩, r') := by
  cases fresh with
  | none => exact meta_l3 R fuel r buf p ct none fb h (by simpa using hb) hlen hf
  | some x =>
    simp only [optB_some, encNatField_eq_dt, List.append_assoc, List.nil_append] at hb
    obtain ⟨r3, p3, a3, d3, f3, e3⟩ := tlvLoop_field R metaBody fuel ⟨ct, none, none⟩ ⟨ct, some x, none⟩
      r buf p 25 (be (natLen x) x) _ h hb (by omega) hlen hf (by
        intro r2 p2 a2 _ d2 _
        obtain ⟨r3, e3, a3⟩ := natValue_at R r2 buf p2 x _ a2 d2 (hv x rfl)
        exact ⟨r3, by simp [metaBody, e3], by simpa using a3⟩)
    rw [e3]
    exact meta_l3 R _ r3 buf p3 _ _ fb a3 d3 hlen f3

theorem meta_l1 (fuel : Nat) (r : Rd) (buf : Bytes) (p : Nat) (m : MetaInfo)
    (h : At r buf p) (hb : buf.drop p = encMeta m)
    (hv : MetaValid m) (hlen : buf.length < 2 ^ 62) (hf : buf.length - p < fuel) :
    ∃ r', tlvLoop metaBody fuel {} r = .ok (m, r') := by
  obtain ⟨ct, fresh, fb⟩ := m
  simp only [encMeta] at hb
  cases ct with
  | none => exact meta_l2 R fuel r buf p none fresh fb h (by simpa using hb) hv.2 hlen hf
  | some x =>
    simp only [optB_some, encNatField_eq_dt, List.append_assoc, List.nil_append] at hb
    obtain ⟨r3, p3, a3, d3, f3, e3⟩ := tlvLoop_field R metaBody fuel {} ⟨some x, none, none⟩
      r buf p 24 (be (natLen x) x) _ h hb (by omega) hlen hf (by
        intro r2 p2 a2 _ d2 _
        obtain ⟨r3, e3, a3⟩ := natValue_at R r2 buf p2 x _ a2 d2 (hv.1 x rfl)
        exact ⟨r3, by simp [metaBody, e3], by simpa using a3⟩)
    rw [e3]
    exact meta_l2 R _ r3 buf p3 _ fresh fb a3 (by simpa using d3) hv.2 hlen f3

end

theorem parseMeta_at (R : ReaderSpecs) (E : EncSpecs) (r : Rd) (m : MetaInfo) :
    At r (encMeta m) 0 → MetaValid m → metaLen m < 2 ^ 62 → parseMeta r = .ok m := by
  intro h hv hl
  obtain ⟨r', e⟩ := meta_l1 R (loopFuel r) r (encMeta m) 0 m h (by simp) hv
    (by rw [E.metaLen_eq]; exact hl) (loopFuel_at R r _ h)
  simp [parseMeta, e]

theorem validityLen_eq (v : Bytes × Bytes) : (encValidity v).length = validityLen v := by
  simp [encValidity, validityLen, encBinField, binFieldLen, encTL_length]; omega

section
variable (R : ReaderSpecs)
include R

/-! ### ValidityPeriod -/

theorem val_l2 (fuel : Nat) (r : Rd) (buf : Bytes) (p : Nat) (a : Option Bytes) (b : Bytes)
    (h : At r buf p) (hb : buf.drop p = encBinField 255 b) (hlen : buf.length < 2 ^ 62)
    (hf : buf.length - p < fuel) :
    ∃ r', tlvLoop validityBody fuel (a, none) r = .ok ((a, some b), r') := by
  simp only [encBinField_eq_dt] at hb
  obtain ⟨r3, p3, a3, d3, f3, e3⟩ := tlvLoop_field R validityBody fuel (a, none) (a, some b)
    r buf p 255 b [] h hb (by omega) hlen hf (by
      intro r2 p2 a2 _ d2 hle
      obtain ⟨r3, e3, a3⟩ := strValue_at R r2 buf p2 b [] a2 d2 (by omega)
      exact ⟨r3, by simp [validityBody, e3], a3⟩)
  exact ⟨r3, by rw [e3]; exact tlvLoop_end' R _ _ _ r3 buf p3 a3 d3 (by omega)⟩

theorem val_l1 (fuel : Nat) (r : Rd) (buf : Bytes) (p : Nat) (v : Bytes × Bytes)
    (h : At r buf p) (hb : buf.drop p = encValidity v) (hlen : buf.length < 2 ^ 62)
    (hf : buf.length - p < fuel) :
    ∃ r', tlvLoop validityBody fuel (none, none) r = .ok ((some v.1, some v.2), r') := by
  simp only [encValidity] at hb
  rw [encBinField_eq_dt 254] at hb
  simp only [List.append_assoc, List.nil_append] at hb
  obtain ⟨r3, p3, a3, d3, f3, e3⟩ := tlvLoop_field R validityBody fuel (none, none) (some v.1, none)
    r buf p 254 v.1 _ h hb (by omega) hlen hf (by
      intro r2 p2 a2 _ d2 hle
      obtain ⟨r3, e3, a3⟩ := strValue_at R r2 buf p2 v.1 _ a2 d2 (by omega)
      exact ⟨r3, by simp [validityBody, e3], a3⟩)
  rw [e3]
  exact val_l2 R _ r3 buf p3 _ v.2 a3 d3 hlen f3

end

theorem parseValidity_at (R : ReaderSpecs) (r : Rd) (v : Bytes × Bytes) :
    At r (encValidity v) 0 → validityLen v < 2 ^ 62 → parseValidity r = .ok v := by
  intro h hl
  obtain ⟨r', e⟩ := val_l1 R (loopFuel r) r (encValidity v) 0 v h (by simp)
    (by rw [validityLen_eq]; exact hl) (loopFuel_at R r _ h)
  simp [parseValidity, e]

theorem encNameField_eq_dt (E : EncSpecs) (t : Nat) (n : Name) :
    encNameField t n = encTL t ++ (encTL (encNameInner n).length ++ (encNameInner n ++ [])) := by
  simp [encNameField, E.nameLen_eq]

section
variable (R : ReaderSpecs) (E : EncSpecs)
include R

/-! ### KeyLocator -/

theorem kl_l2 (fuel : Nat) (r : Rd) (buf : Bytes) (p : Nat) (nm : Option Name) (dg : Option Bytes)
    (h : At r buf p) (hb : buf.drop p = optB dg (encBinField 29)) (hlen : buf.length < 2 ^ 62)
    (hf : buf.length - p < fuel) :
    ∃ r', tlvLoop keyLocBody fuel ⟨nm, none⟩ r = .ok (⟨nm, dg⟩, r') := by
  cases dg with
  | none => exact ⟨r, tlvLoop_end' R _ _ _ r buf p h (by simpa using hb) (by omega)⟩
  | some v =>
    simp only [optB_some, encBinField_eq_dt] at hb
    obtain ⟨r3, p3, a3, d3, f3, e3⟩ := tlvLoop_field R keyLocBody fuel ⟨nm, none⟩ ⟨nm, some v⟩
      r buf p 29 v [] h hb (by omega) hlen hf (by
        intro r2 p2 a2 _ d2 hle
        obtain ⟨r3, e3, a3⟩ := binValue_at R r2 buf p2 v [] a2 d2
        exact ⟨r3, by simp [keyLocBody, lenGuard_at R r2 buf p2 v.length a2 hle, e3], a3⟩)
    exact ⟨r3, by rw [e3]; exact tlvLoop_end' R _ _ _ r3 buf p3 a3 d3 (by omega)⟩

include E

theorem kl_l1 (fuel : Nat) (r : Rd) (buf : Bytes) (p : Nat) (k : KeyLoc)
    (h : At r buf p) (hb : buf.drop p = encKeyLoc k) (hv : ∀ n, k.name = some n → NameValid n)
    (hlen : buf.length < 2 ^ 62) (hf : buf.length - p < fuel) :
    ∃ r', tlvLoop keyLocBody fuel ⟨none, none⟩ r = .ok (k, r') := by
  obtain ⟨nm, dg⟩ := k
  simp only [encKeyLoc] at hb
  cases nm with
  | none => exact kl_l2 R fuel r buf p none dg h (by simpa using hb) hlen hf
  | some n =>
    simp only [optB_some, encNameField_eq_dt E, List.append_assoc, List.nil_append] at hb
    obtain ⟨r3, p3, a3, d3, f3, e3⟩ := tlvLoop_field R keyLocBody fuel ⟨none, none⟩ ⟨some n, none⟩
      r buf p 7 (encNameInner n) _ h hb (by omega) hlen hf (by
        intro r2 p2 a2 _ d2 hle
        rw [E.nameLen_eq] at hle ⊢
        obtain ⟨r3, e3, a3, _⟩ := readNameField_at R r2 buf p2 n _ a2 d2 (E.nameLen_eq n) (hv n rfl) (by omega)
        exact ⟨r3, by simp [keyLocBody, e3], a3⟩)
    rw [e3]
    exact kl_l2 R _ r3 buf p3 _ dg a3 d3 hlen f3

end

theorem parseKeyLoc_at (R : ReaderSpecs) (E : EncSpecs) (r : Rd) (k : KeyLoc) :
    At r (encKeyLoc k) 0 → (∀ n, k.name = some n → NameValid n) → keyLocLen k < 2 ^ 62 → parseKeyLoc r = .ok k := by
  intro h hv hl
  obtain ⟨r', e⟩ := kl_l1 R E (loopFuel r) r (encKeyLoc k) 0 k h (by simp) hv
    (by rw [E.keyLocLen_eq]; exact hl) (loopFuel_at R r _ h)
  have e' : tlvLoop keyLocBody (loopFuel r) { name := none, digest := none } r = .ok (k, r') := e
  simp [parseKeyLoc, e']


section
variable (R : ReaderSpecs) (E : EncSpecs)
include R

/-! ### SignatureInfo -/

theorem si_l6 (fuel : Nat) (r : Rd) (buf : Bytes) (p : Nat) (ty : Option Nat) (kl : Option KeyLoc)
    (no : Option Bytes) (ti sq : Option Nat) (val : Option (Bytes × Bytes))
    (h : At r buf p)
    (hb : buf.drop p = optB val (fun v => encTL 253 ++ encTL (validityLen v) ++ encValidity v))
    (hlen : buf.length < 2 ^ 62) (hf : buf.length - p < fuel) :
    ∃ r', tlvLoop sigInfoBody fuel ⟨ty, ⟨0, kl, no, ti, sq, none, false⟩⟩ r
      = .ok (⟨ty, ⟨0, kl, no, ti, sq, val, false⟩⟩, r') := by
  cases val with
  | none => exact ⟨r, tlvLoop_end' R _ _ _ r buf p h (by simpa using hb) (by omega)⟩
  | some v =>
    have hb' : buf.drop p = encTL 253 ++ (encTL (encValidity v).length ++ (encValidity v ++ [])) := by
      rw [hb]; simp [validityLen_eq]
    obtain ⟨r3, p3, a3, d3, f3, e3⟩ := tlvLoop_field R sigInfoBody fuel ⟨ty, ⟨0, kl, no, ti, sq, none, false⟩⟩ ⟨ty, ⟨0, kl, no, ti, sq, some v, false⟩⟩
      r buf p 253 (encValidity v) [] h hb' (by omega) hlen hf (by
        intro r2 p2 a2 _ d2 hle
        obtain ⟨sub, r3, e3, as, a3⟩ := delegate_at R r2 buf p2 _ [] a2 d2
        have ev := parseValidity_at R sub v as (by rw [← validityLen_eq]; omega)
        exact ⟨r3, by simp [sigInfoBody, e3, ev], a3⟩)
    exact ⟨r3, by rw [e3]; exact tlvLoop_end' R _ _ _ r3 buf p3 a3 d3 (by omega)⟩

theorem si_l5 (fuel : Nat) (r : Rd) (buf : Bytes) (p : Nat) (ty : Option Nat) (kl : Option KeyLoc)
    (no : Option Bytes) (ti sq : Option Nat) (val : Option (Bytes × Bytes))
    (h : At r buf p)
    (hb : buf.drop p = optB sq (encNatField 42)
      ++ optB val (fun v => encTL 253 ++ encTL (validityLen v) ++ encValidity v))
    (hv : ∀ x, sq = some x → x < 2 ^ 64)
    (hlen : buf.length < 2 ^ 62) (hf : buf.length - p < fuel) :
    ∃ r', tlvLoop sigInfoBody fuel ⟨ty, ⟨0, kl, no, ti, none, none, false⟩⟩ r
      = .ok (⟨ty, ⟨0, kl, no, ti, sq, val, false⟩⟩, r') := by
  cases sq with
  | none => exact si_l6 R fuel r buf p ty kl no ti none val h (by simpa using hb) hlen hf
  | some x =>
    simp only [optB_some, encNatField_eq_dt, List.append_assoc, List.nil_append] at hb
    obtain ⟨r3, p3, a3, d3, f3, e3⟩ := tlvLoop_field R sigInfoBody fuel ⟨ty, ⟨0, kl, no, ti, none, none, false⟩⟩ ⟨ty, ⟨0, kl, no, ti, some x, none, false⟩⟩
      r buf p 42 (be (natLen x) x) _ h hb (by omega) hlen hf (by
        intro r2 p2 a2 _ d2 _
        obtain ⟨r3, e3, a3⟩ := natValue_at R r2 buf p2 x _ a2 d2 (hv x rfl)
        exact ⟨r3, by simp [sigInfoBody, e3], by simpa using a3⟩)
    rw [e3]
    exact si_l6 R _ r3 buf p3 ty kl no ti _ val a3 d3 hlen f3

theorem si_l4 (fuel : Nat) (r : Rd) (buf : Bytes) (p : Nat) (ty : Option Nat) (kl : Option KeyLoc)
    (no : Option Bytes) (ti sq : Option Nat) (val : Option (Bytes × Bytes))
    (h : At r buf p)
    (hb : buf.drop p = optB ti (encNatField 40) ++ (optB sq (encNatField 42)
      ++ optB val (fun v => encTL 253 ++ encTL (validityLen v) ++ encValidity v)))
    (hvt : ∀ x, ti = some x → x < 2 ^ 64) (hv : ∀ x, sq = some x → x < 2 ^ 64)
    (hlen : buf.length < 2 ^ 62) (hf : buf.length - p < fuel) :
    ∃ r', tlvLoop sigInfoBody fuel ⟨ty, ⟨0, kl, no, none, none, none, false⟩⟩ r
      = .ok (⟨ty, ⟨0, kl, no, ti, sq, val, false⟩⟩, r') := by
  cases ti with
  | none => exact si_l5 R fuel r buf p ty kl no none sq val h (by simpa using hb) hv hlen hf
  | some x =>
    simp only [optB_some, encNatField_eq_dt, List.append_assoc, List.nil_append] at hb
    obtain ⟨r3, p3, a3, d3, f3, e3⟩ := tlvLoop_field R sigInfoBody fuel ⟨ty, ⟨0, kl, no, none, none, none, false⟩⟩ ⟨ty, ⟨0, kl, no, some x, none, none, false⟩⟩
      r buf p 40 (be (natLen x) x) _ h hb (by omega) hlen hf (by
        intro r2 p2 a2 _ d2 _
        obtain ⟨r3, e3, a3⟩ := natValue_at R r2 buf p2 x _ a2 d2 (hvt x rfl)
        exact ⟨r3, by simp [sigInfoBody, e3], by simpa using a3⟩)
    rw [e3]
    exact si_l5 R _ r3 buf p3 ty kl no _ sq val a3 d3 hv hlen f3

theorem si_l3 (fuel : Nat) (r : Rd) (buf : Bytes) (p : Nat) (ty : Option Nat) (kl : Option KeyLoc)
    (no : Option Bytes) (ti sq : Option Nat) (val : Option (Bytes × Bytes))
    (h : At r buf p)
    (hb : buf.drop p = optB no (encBinField 38) ++ (optB ti (encNatField 40) ++ (optB sq (encNatField 42)
      ++ optB val (fun v => encTL 253 ++ encTL (validityLen v) ++ encValidity v))))
    (hvt : ∀ x, ti = some x → x < 2 ^ 64) (hv : ∀ x, sq = some x → x < 2 ^ 64)
    (hlen : buf.length < 2 ^ 62) (hf : buf.length - p < fuel) :
    ∃ r', tlvLoop sigInfoBody fuel ⟨ty, ⟨0, kl, none, none, none, none, false⟩⟩ r
      = .ok (⟨ty, ⟨0, kl, no, ti, sq, val, false⟩⟩, r') := by
  cases no with
  | none => exact si_l4 R fuel r buf p ty kl none ti sq val h (by simpa using hb) hvt hv hlen hf
  | some v =>
    simp only [optB_some, encBinField_eq_dt, List.append_assoc, List.nil_append] at hb
    obtain ⟨r3, p3, a3, d3, f3, e3⟩ := tlvLoop_field R sigInfoBody fuel ⟨ty, ⟨0, kl, none, none, none, none, false⟩⟩ ⟨ty, ⟨0, kl, some v, none, none, none, false⟩⟩
      r buf p 38 v _ h hb (by omega) hlen hf (by
        intro r2 p2 a2 _ d2 hle
        obtain ⟨r3, e3, a3⟩ := binValue_at R r2 buf p2 v _ a2 d2
        exact ⟨r3, by simp [sigInfoBody, lenGuard_at R r2 buf p2 v.length a2 hle, e3], a3⟩)
    rw [e3]
    exact si_l4 R _ r3 buf p3 ty kl _ ti sq val a3 d3 hvt hv hlen f3

include E

theorem si_l2 (fuel : Nat) (r : Rd) (buf : Bytes) (p : Nat) (ty : Option Nat) (kl : Option KeyLoc)
    (no : Option Bytes) (ti sq : Option Nat) (val : Option (Bytes × Bytes))
    (h : At r buf p)
    (hb : buf.drop p = optB kl (fun k => encTL 28 ++ encTL (keyLocLen k) ++ encKeyLoc k)
      ++ (optB no (encBinField 38) ++ (optB ti (encNatField 40) ++ (optB sq (encNatField 42)
      ++ optB val (fun v => encTL 253 ++ encTL (validityLen v) ++ encValidity v)))))
    (hvk : ∀ k, kl = some k → ∀ n, k.name = some n → NameValid n)
    (hvt : ∀ x, ti = some x → x < 2 ^ 64) (hv : ∀ x, sq = some x → x < 2 ^ 64)
    (hlen : buf.length < 2 ^ 62) (hf : buf.length - p < fuel) :
    ∃ r', tlvLoop sigInfoBody fuel ⟨ty, ⟨0, none, none, none, none, none, false⟩⟩ r
      = .ok (⟨ty, ⟨0, kl, no, ti, sq, val, false⟩⟩, r') := by
  cases kl with
  | none => exact si_l3 R fuel r buf p ty none no ti sq val h (by simpa using hb) hvt hv hlen hf
  | some k =>
    simp only [optB_some, ← E.keyLocLen_eq, List.append_assoc] at hb
    obtain ⟨r3, p3, a3, d3, f3, e3⟩ := tlvLoop_field R sigInfoBody fuel ⟨ty, ⟨0, none, none, none, none, none, false⟩⟩ ⟨ty, ⟨0, some k, none, none, none, none, false⟩⟩
      r buf p 28 (encKeyLoc k) _ h hb (by omega) hlen hf (by
        intro r2 p2 a2 _ d2 hle
        obtain ⟨sub, r3, e3, as, a3⟩ := delegate_at R r2 buf p2 _ _ a2 d2
        have ev := parseKeyLoc_at R E sub k as (hvk k rfl) (by rw [← E.keyLocLen_eq]; omega)
        exact ⟨r3, by simp [sigInfoBody, e3, ev], a3⟩)
    rw [e3]
    exact si_l3 R _ r3 buf p3 ty _ no ti sq val a3 d3 hvt hv hlen f3

theorem si_l1 (fuel : Nat) (r : Rd) (buf : Bytes) (p : Nat) (t : Nat) (kl : Option KeyLoc)
    (no : Option Bytes) (ti sq : Option Nat) (val : Option (Bytes × Bytes))
    (h : At r buf p)
    (hb : buf.drop p = encSigInfo ⟨t, kl, no, ti, sq, val, false⟩)
    (ht : t < 2 ^ 64)
    (hvk : ∀ k, kl = some k → ∀ n, k.name = some n → NameValid n)
    (hvt : ∀ x, ti = some x → x < 2 ^ 64) (hv : ∀ x, sq = some x → x < 2 ^ 64)
    (hlen : buf.length < 2 ^ 62) (hf : buf.length - p < fuel) :
    ∃ r', tlvLoop sigInfoBody fuel {} r
      = .ok (⟨some t, ⟨0, kl, no, ti, sq, val, false⟩⟩, r') := by
  simp only [encSigInfo, encNatField_eq_dt, List.append_assoc, List.nil_append] at hb
  obtain ⟨r3, p3, a3, d3, f3, e3⟩ := tlvLoop_field R sigInfoBody fuel {} ⟨some t, ⟨0, none, none, none, none, none, false⟩⟩
    r buf p 27 (be (natLen t) t) _ h hb (by omega) hlen hf (by
      intro r2 p2 a2 _ d2 _
      obtain ⟨r3, e3, a3⟩ := natValue_at R r2 buf p2 t _ a2 d2 ht
      exact ⟨r3, by simp [sigInfoBody, e3], by simpa using a3⟩)
  rw [e3]
  exact si_l2 R E _ r3 buf p3 _ kl no ti sq val a3 d3 hvk hvt hv hlen f3

end

theorem parseSigInfo_at (R : ReaderSpecs) (E : EncSpecs) : SigInfoParseSpec := by
  intro r s h hv hl
  obtain ⟨t, kl, no, ti, sq, val, ad⟩ := s
  obtain ⟨ht, had, hvk, hvt, hvq⟩ := hv
  simp only at ht had hvk hvt hvq
  subst had
  obtain ⟨r', e⟩ := si_l1 R E (loopFuel r) r _ 0 t kl no ti sq val h (by simp) ht hvk hvt hvq
    (by rw [E.sigInfoLen_eq]; exact hl) (loopFuel_at R r _ h)
  simp [parseSigInfo, e]

/-! ### Data: the ordered loop -/

theorem dataIdx_le {typ k : Nat} (hk : dataIdx typ = some k) : 2 ≤ k ∧ k ≤ 6 := by
  unfold dataIdx at hk
  repeat' split at hk
  all_goals (simp at hk <;> omega)

/-- past the offset marker the absent-actions do nothing: the element's handler runs -/
theorem ordLoop_data (typ l sp k : Nat) (st st' : DataSt) (r r' : Rd) (hk : dataIdx typ = some k)
    (hh : dataHandle k st l sp r = .ok (st', r')) :
    ∀ fuel q, 2 ≤ q → q ≤ k → k - q < fuel →
      ordLoop 7 dataIdx dataHandle dataAbsent typ l sp fuel q st r = .ok ((st', k + 1), r') := by
  have hk7 := dataIdx_le hk
  intro fuel
  induction fuel with
  | zero => intro q _ _ h; omega
  | succ f ih =>
    intro q h2 hq hf
    have hq7 : ¬ (q > 7) := by omega
    by_cases hqk : q = k
    · subst hqk; simp [ordLoop, hk, hh, hq7]
    · have hq1 : q ≠ 1 := by omega
      simp only [ordLoop, hq7, hk, hqk, ↓reduceIte, dataAbsent, hq1]
      exact ih (q + 1) (by omega) (by omega) (by omega)

/-- the first element: the offset marker (slot 1) records the start position -/
theorem ordLoop_data0 (typ l sp k : Nat) (st st' : DataSt) (r r' : Rd) (hk : dataIdx typ = some k)
    (hh : dataHandle k { st with sigCoverStart := sp } l sp r = .ok (st', r')) (fuel : Nat) (hf : k - 2 < fuel) :
    ordLoop 7 dataIdx dataHandle dataAbsent typ l sp (fuel + 2) 0 st r = .ok ((st', k + 1), r') := by
  have hk7 := dataIdx_le hk
  have h0 : ¬ (0 = k) := by omega
  have h1 : ¬ (1 = k) := by omega
  simp only [ordLoop, hk, h0, h1, ↓reduceIte, dataAbsent, Nat.zero_add, show ¬ (0 > 7) by omega,
    show ¬ (1 > 7) by omega, show (0 : Nat) ≠ 1 by omega]
  exact ordLoop_data typ l sp k _ st' r r' hk hh fuel 2 (by omega) (by omega) (by omega)

theorem ordFinish_data (r : Rd) : ∀ (f q : Nat) (st : DataSt), 2 ≤ q → ordFinish dataAbsent r f q st = st := by
  intro f
  induction f with
  | zero => intro q st _; rfl
  | succ f ih =>
    intro q st hq
    have hq1 : q ≠ 1 := by omega
    simp only [ordFinish, dataAbsent, hq1, ↓reduceIte]
    exact ih (q + 1) st (by omega)

/-- the SignatureValue TLV as decoded (absent when the signer announced no signature) -/
def sigPart (est : Nat) (sv : Bytes) : Bytes := if est > 0 then encTL 23 ++ encTL sv.length ++ sv else []

theorem dataValue_split (d : DataIn) (sv : Bytes) : dataValue d sv = dataCovered d ++ sigPart d.est sv := by
  simp [dataValue, dataCovered, sigPart]

section
variable (R : ReaderSpecs) (E : EncSpecs)
include R

theorem d_l5 (fuel : Nat) (r : Rd) (buf : Bytes) (p q : Nat) (nm : Option Name) (mi : Option MetaInfo)
    (ct : Option Bytes) (si : Option SigInfo) (cov0 : Bytes) (est : Nat) (sv : Bytes)
    (h : At r buf p) (hb : buf.drop p = sigPart est sv) (hq : 2 ≤ q ∧ q ≤ 6)
    (hlen : buf.length < 2 ^ 62) (hf : buf.length - p < fuel) :
    ∃ r' q', 2 ≤ q' ∧ tlvLoop dataBody fuel (⟨⟨nm, mi, ct, si, none⟩, cov0, 0⟩, q) r
      = .ok ((⟨⟨nm, mi, ct, si, if est > 0 then some sv else none⟩,
              cov0 ++ (if est > 0 then buf.take (buf.length - (sigPart est sv).length) else []), 0⟩, q'), r') := by
  by_cases he : est > 0
  · have hpe : buf.length - (sigPart est sv).length = p := by
      have h1 := congrArg List.length hb
      have := h.2.2
      simp at h1; omega
    rw [hpe]
    simp only [sigPart, he, ↓reduceIte] at hb ⊢
    have hb' : buf.drop p = encTL 23 ++ (encTL sv.length ++ (sv ++ [])) := by rw [hb]; simp
    obtain ⟨r3, p3, a3, d3, f3, e3⟩ := tlvLoop_field R dataBody fuel (⟨⟨nm, mi, ct, si, none⟩, cov0, 0⟩, q)
      (⟨⟨nm, mi, ct, si, some sv⟩, cov0 ++ buf.take p, 0⟩, 7)
      r buf p 23 sv [] h hb' (by omega) hlen hf (by
        intro r2 p2 a2 _ d2 hle
        obtain ⟨r3, e3, a3⟩ := wireValue_at R r2 buf p2 sv [] a2 d2
        have hr := R.range_eq r3 buf _ 0 p a3 (by omega) h.2.2
        refine ⟨r3, ?_, a3⟩
        simp only [dataBody]
        exact ordLoop_data 23 sv.length p 6 _ _ r2 r3 (by simp [dataIdx])
          (by simp [dataHandle, e3, hr]) 9 q (by omega) (by omega) (by omega))
    exact ⟨r3, 7, by omega, by rw [e3]; exact tlvLoop_end' R _ _ _ r3 buf p3 a3 d3 (by omega)⟩
  · simp only [sigPart, he, ↓reduceIte, List.append_nil] at hb ⊢
    exact ⟨r, q, hq.1, tlvLoop_end' R _ _ _ r buf p h hb (by omega)⟩

include E

theorem d_l4 (fuel : Nat) (r : Rd) (buf : Bytes) (p q : Nat) (nm : Option Name) (mi : Option MetaInfo)
    (ct : Option Bytes) (si : Option SigInfo) (cov0 : Bytes) (est : Nat) (sv : Bytes)
    (h : At r buf p)
    (hb : buf.drop p = optB si (fun s => encTL 22 ++ encTL (sigInfoLen s) ++ encSigInfo s) ++ sigPart est sv)
    (hv : ∀ s, si = some s → SigInfoValid s) (hq : 2 ≤ q ∧ q ≤ 5)
    (hlen : buf.length < 2 ^ 62) (hf : buf.length - p < fuel) :
    ∃ r' q', 2 ≤ q' ∧ tlvLoop dataBody fuel (⟨⟨nm, mi, ct, none, none⟩, cov0, 0⟩, q) r
      = .ok ((⟨⟨nm, mi, ct, si, if est > 0 then some sv else none⟩,
              cov0 ++ (if est > 0 then buf.take (buf.length - (sigPart est sv).length) else []), 0⟩, q'), r') := by
  cases si with
  | none => exact d_l5 R fuel r buf p q nm mi ct none cov0 est sv h (by simpa using hb) (by omega) hlen hf
  | some s =>
    simp only [optB_some, ← E.sigInfoLen_eq, List.append_assoc] at hb
    obtain ⟨r3, p3, a3, d3, f3, e3⟩ := tlvLoop_field R dataBody fuel (⟨⟨nm, mi, ct, none, none⟩, cov0, 0⟩, q)
      (⟨⟨nm, mi, ct, some s, none⟩, cov0, 0⟩, 6)
      r buf p 22 (encSigInfo s) _ h hb (by omega) hlen hf (by
        intro r2 p2 a2 _ d2 hle
        obtain ⟨sub, r3, e3, as, a3⟩ := delegate_at R r2 buf p2 _ _ a2 d2
        have ev := parseSigInfo_at R E sub s as (hv s rfl) (by rw [← E.sigInfoLen_eq]; omega)
        refine ⟨r3, ?_, a3⟩
        simp only [dataBody]
        exact ordLoop_data 22 _ p 5 _ _ r2 r3 (by simp [dataIdx])
          (by simp [dataHandle, e3, ev]) 9 q (by omega) (by omega) (by omega))
    rw [e3]
    exact d_l5 R _ r3 buf p3 6 nm mi ct _ cov0 est sv a3 d3 (by omega) hlen f3

theorem d_l3 (fuel : Nat) (r : Rd) (buf : Bytes) (p q : Nat) (nm : Option Name) (mi : Option MetaInfo)
    (content : Option (List Bytes)) (si : Option SigInfo) (cov0 : Bytes) (est : Nat) (sv : Bytes)
    (h : At r buf p)
    (hb : buf.drop p = optB content (fun c => encTL 21 ++ encTL (contentLen c) ++ c.flatten)
      ++ (optB si (fun s => encTL 22 ++ encTL (sigInfoLen s) ++ encSigInfo s) ++ sigPart est sv))
    (hv : ∀ s, si = some s → SigInfoValid s) (hq : 2 ≤ q ∧ q ≤ 4)
    (hlen : buf.length < 2 ^ 62) (hf : buf.length - p < fuel) :
    ∃ r' q', 2 ≤ q' ∧ tlvLoop dataBody fuel (⟨⟨nm, mi, none, none, none⟩, cov0, 0⟩, q) r
      = .ok ((⟨⟨nm, mi, content.map List.flatten, si, if est > 0 then some sv else none⟩,
              cov0 ++ (if est > 0 then buf.take (buf.length - (sigPart est sv).length) else []), 0⟩, q'), r') := by
  cases content with
  | none => exact d_l4 R E fuel r buf p q nm mi none si cov0 est sv h (by simpa using hb) hv (by omega) hlen hf
  | some c =>
    simp only [optB_some, contentLen_eq_dt, List.append_assoc] at hb
    obtain ⟨r3, p3, a3, d3, f3, e3⟩ := tlvLoop_field R dataBody fuel (⟨⟨nm, mi, none, none, none⟩, cov0, 0⟩, q)
      (⟨⟨nm, mi, some c.flatten, none, none⟩, cov0, 0⟩, 5)
      r buf p 21 c.flatten _ h hb (by omega) hlen hf (by
        intro r2 p2 a2 _ d2 hle
        obtain ⟨r3, e3, a3⟩ := wireValue_at R r2 buf p2 _ _ a2 d2
        refine ⟨r3, ?_, a3⟩
        simp only [dataBody]
        exact ordLoop_data 21 _ p 4 _ _ r2 r3 (by simp [dataIdx])
          (by simp [dataHandle, -List.length_flatten, e3]) 9 q (by omega) (by omega) (by omega))
    rw [e3]
    exact d_l4 R E _ r3 buf p3 5 nm mi _ si cov0 est sv a3 d3 hv (by omega) hlen f3

theorem d_l2 (fuel : Nat) (r : Rd) (buf : Bytes) (p : Nat) (nm : Option Name) (m : MetaInfo)
    (content : Option (List Bytes)) (si : Option SigInfo) (cov0 : Bytes) (est : Nat) (sv : Bytes)
    (h : At r buf p)
    (hb : buf.drop p = encTL 20 ++ (encTL (metaLen m) ++ (encMeta m
      ++ (optB content (fun c => encTL 21 ++ encTL (contentLen c) ++ c.flatten)
      ++ (optB si (fun s => encTL 22 ++ encTL (sigInfoLen s) ++ encSigInfo s) ++ sigPart est sv)))))
    (hm : MetaValid m) (hv : ∀ s, si = some s → SigInfoValid s)
    (hlen : buf.length < 2 ^ 62) (hf : buf.length - p < fuel) :
    ∃ r' q', 2 ≤ q' ∧ tlvLoop dataBody fuel (⟨⟨nm, none, none, none, none⟩, cov0, 0⟩, 3) r
      = .ok ((⟨⟨nm, some m, content.map List.flatten, si, if est > 0 then some sv else none⟩,
              cov0 ++ (if est > 0 then buf.take (buf.length - (sigPart est sv).length) else []), 0⟩, q'), r') := by
  rw [← E.metaLen_eq] at hb
  obtain ⟨r3, p3, a3, d3, f3, e3⟩ := tlvLoop_field R dataBody fuel (⟨⟨nm, none, none, none, none⟩, cov0, 0⟩, 3)
    (⟨⟨nm, some m, none, none, none⟩, cov0, 0⟩, 4)
    r buf p 20 (encMeta m) _ h hb (by omega) hlen hf (by
      intro r2 p2 a2 _ d2 hle
      obtain ⟨sub, r3, e3, as, a3⟩ := delegate_at R r2 buf p2 _ _ a2 d2
      have ev := parseMeta_at R E sub m as hm (by rw [← E.metaLen_eq]; omega)
      refine ⟨r3, ?_, a3⟩
      simp only [dataBody]
      exact ordLoop_data 20 _ p 3 _ _ r2 r3 (by simp [dataIdx])
        (by simp [dataHandle, e3, ev]) 9 3 (by omega) (by omega) (by omega))
  rw [e3]
  exact d_l3 R E _ r3 buf p3 4 nm _ content si cov0 est sv a3 d3 hv (by omega) hlen f3

theorem d_l1 (fuel : Nat) (r : Rd) (d : DataIn) (sv : Bytes) (s0 : DataSt)
    (h : At r (dataValue d sv) 0) (hn : NameValid d.name) (hm : MetaValid d.mi)
    (hv : ∀ s, d.si = some s → SigInfoValid s)
    (hlen : (dataValue d sv).length < 2 ^ 62) (hf : (dataValue d sv).length - 0 < fuel) :
    ∃ r' q', 2 ≤ q' ∧ tlvLoop dataBody fuel ({ s0 with v := {} }, 0) r
      = .ok ((⟨dataExpect d sv, s0.sigCovered ++ (if d.est > 0 then dataCovered d else []), 0⟩, q'), r') := by
  have hcov : (dataValue d sv).take ((dataValue d sv).length - (sigPart d.est sv).length) = dataCovered d := by
    rw [dataValue_split]; simp
  have hb : (dataValue d sv).drop 0 = encTL 7 ++ (encTL (encNameInner d.name).length ++ (encNameInner d.name
      ++ (encTL 20 ++ (encTL (metaLen d.mi) ++ (encMeta d.mi
      ++ (optB d.content (fun c => encTL 21 ++ encTL (contentLen c) ++ c.flatten)
      ++ (optB d.si (fun s => encTL 22 ++ encTL (sigInfoLen s) ++ encSigInfo s) ++ sigPart d.est sv))))))) := by
    simp [dataValue, dataHead, encNameField, E.nameLen_eq, sigPart]
  obtain ⟨r3, p3, a3, d3, f3, e3⟩ := tlvLoop_field R dataBody fuel ({ s0 with v := {} }, 0)
    (⟨⟨some d.name, none, none, none, none⟩, s0.sigCovered, 0⟩, 3)
    r _ 0 7 (encNameInner d.name) _ h hb (by omega) hlen hf (by
      intro r2 p2 a2 _ d2 hle
      rw [E.nameLen_eq] at hle ⊢
      obtain ⟨r3, e3, a3, _⟩ := readNameField_at R r2 _ p2 d.name _ a2 d2 (E.nameLen_eq _) hn (by omega)
      refine ⟨r3, ?_, a3⟩
      simp only [dataBody]
      exact ordLoop_data0 7 _ 0 2 _ _ r2 r3 (by simp [dataIdx]) (by simp [dataHandle, e3]) 7 (by omega))
  rw [e3]
  obtain ⟨r', q', hq', e'⟩ := d_l2 R E _ r3 _ p3 (some d.name) d.mi d.content d.si s0.sigCovered d.est sv a3 d3 hm hv hlen f3
  refine ⟨r', q', hq', ?_⟩
  rw [e', hcov]
  rfl

theorem parseData_at (r : Rd) (d : DataIn) (sv : Bytes) (s0 : DataSt)
    (h : At r (dataValue d sv) 0) (hn : NameValid d.name) (hm : MetaValid d.mi)
    (hv : ∀ s, d.si = some s → SigInfoValid s) (hlen : (dataValue d sv).length < 2 ^ 62) :
    parseData s0 r = .ok ⟨dataExpect d sv, s0.sigCovered ++ (if d.est > 0 then dataCovered d else []), 0⟩ := by
  obtain ⟨r', q', hq', e'⟩ := d_l1 R E (loopFuel r) r d sv s0 h hn hm hv hlen (loopFuel_at R r _ h)
  simp only [parseData, e', Res.bind_ok, Res.pure_eq]
  rw [ordFinish_data r' _ q' _ hq']

end

/-! ### the Data packet -/

theorem dataValue_length_le (E : EncSpecs) (d : DataIn) (sv : Bytes) (hs : d.est > 0 → sv.length ≤ d.est) :
    (dataValue d sv).length ≤ dataLen d := by
  have h7 : tlLen 7 = 1 := by decide
  have h20 : tlLen 20 = 1 := by decide
  have h21 : tlLen 21 = 1 := by decide
  have h22 : tlLen 22 = 1 := by decide
  have h23 : tlLen 23 = 1 := by decide
  have hc : (optB d.content (fun c => encTL 21 ++ encTL (contentLen c) ++ c.flatten)).length
      = optN d.content (fun c => 1 + tlLen (contentLen c) + contentLen c) := by
    cases d.content with
    | none => rfl
    | some c => simp [optN, encTL_length, h21, ← contentLen_eq_dt, -List.length_flatten]; omega
  have hsi : (optB d.si (fun s => encTL 22 ++ encTL (sigInfoLen s) ++ encSigInfo s)).length
      = optN d.si (fun s => 1 + tlLen (sigInfoLen s) + sigInfoLen s) := by
    cases d.si with
    | none => rfl
    | some s => simp [optN, encTL_length, h22, E.sigInfoLen_eq]; omega
  have hsg : (if d.est > 0 then encTL 23 ++ encTL sv.length ++ sv else []).length ≤ sigTLLen 23 d.est := by
    unfold sigTLLen
    by_cases he : d.est > 0
    · have := tlLen_mono_dt (hs he)
      have := hs he
      simp [he, encTL_length, h23]; omega
    · simp [he]
  simp only [dataValue, dataHead, encNameField, List.length_append, encTL_length, E.nameLen_eq, E.metaLen_eq,
    hc, hsi, dataLen, nameFieldLen, h7, h20]
  omega

theorem readData_roundtrip (R : ReaderSpecs) (E : EncSpecs) (d : DataIn) (sign : Bytes → Bytes) (e : Encoded) (r : Rd) :
    d.Valid → makeData d sign = .ok e → At r e.wire.flatten 0 →
    ∃ cov, readData r = .ok (dataExpect d e.sigVal, cov) ∧ (d.est > 0 → cov = dataCovered d) ∧ (d.est = 0 → cov = []) := by
  intro hv hm h
  obtain ⟨hfl, hs1, _⟩ := E.makeData_flatten d sign e hv hm
  obtain ⟨hn, hmi, hsi, hdl⟩ := hv
  have hvl := dataValue_length_le E d e.sigVal (fun he => (hs1 he).2.2)
  rw [hfl] at h
  refine ⟨if d.est > 0 then dataCovered d else [], ?_, by intro he; simp [he], by intro he; simp [he]⟩
  have hb : (encTL 6 ++ encTL (dataValue d e.sigVal).length ++ dataValue d e.sigVal).drop 0
      = encTL 6 ++ (encTL (dataValue d e.sigVal).length ++ (dataValue d e.sigVal ++ [])) := by simp
  have hlen : (encTL 6 ++ encTL (dataValue d e.sigVal).length ++ dataValue d e.sigVal).length < 2 ^ 62 := by
    have : tlLen 6 = 1 := by decide
    have := tlLen_le_dt (dataValue d e.sigVal).length
    simp only [List.length_append, encTL_length]; omega
  obtain ⟨r3, p3, a3, d3, f3, e3⟩ := tlvLoop_field R packetBody (loopFuel r) {}
    { data := some ⟨dataExpect d e.sigVal, if d.est > 0 then dataCovered d else [], 0⟩,
      dctx := ⟨dataExpect d e.sigVal, if d.est > 0 then dataCovered d else [], 0⟩ }
    r _ 0 6 (dataValue d e.sigVal) [] h hb (by omega) hlen (loopFuel_at R r _ h) (by
      intro r2 p2 a2 _ d2 hle
      obtain ⟨sub, r3, e3, as, a3⟩ := delegate_at R r2 _ p2 _ _ a2 d2
      have ev := parseData_at R E sub d e.sigVal {} as hn hmi hsi (by omega)
      refine ⟨r3, ?_, a3⟩
      simp [packetBody, e3, ev])
  have e4 := tlvLoop_end' R packetBody (loopFuel r - 1)
    { data := some ⟨dataExpect d e.sigVal, if d.est > 0 then dataCovered d else [], 0⟩,
      dctx := ⟨dataExpect d e.sigVal, if d.est > 0 then dataCovered d else [], 0⟩ } r3 _ p3 a3 d3 (by omega)
  simp only [readData, parsePacket, e3, e4, Res.bind_ok, Res.pure_eq]
  simp [dataExpect]

end Ndn.C03
