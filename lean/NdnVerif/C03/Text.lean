/-
  C03/Text.lean — the line protocol of harness/c03 (shared by the C03 and C12 drivers): parsing of
  the op lines and of the recorded signer data, canonical text of decoded packets (must agree
  character by character with harness/c03/pkt.go DataText / InterestText).
-/
import NdnVerif.C03.Parse
import NdnVerif.C03.Spec
import NdnVerif.C03.Sha256
namespace Ndn.C03.Text

def kv (toks : List String) (key : String) : Option String :=
  toks.findSome? fun t => if t.startsWith (key ++ "=") then some ((t.drop (key.length + 1)).toString) else none

def hexNil (o : Option Bytes) : String := match o with | none => "nil" | some b => hexOrDash b
def natDash (o : Option Nat) : String := match o with | none => "-" | some n => toString n
def nsDash (o : Option Nat) : String := match o with | none => "-" | some ms => toString ((min ms 9223372036854) * 1000000)
def nameNil (o : Option Name) : String := match o with | none => "nil" | some n => Name.toText n

def optNatOf (s : String) : Option (Option Nat) := if s == "-" then some none else s.toNat?.map some
def hexNilOf (s : String) : Option (Option Bytes) := if s == "nil" then some none else (bytesOfHex s).map some

/-- "nil" | "[]" | hex,hex,… -/
def bufsOf (s : String) : Option (Option (List Bytes)) :=
  if s == "nil" then some none
  else if s == "[]" then some (some [])
  else ((s.splitOn ",").mapM bytesOfHex).map some

def namesOf (s : String) : Option (Option (List Name)) :=
  if s == "-" then some none
  else if s == "[]" then some (some [])
  else ((s.splitOn ",").mapM Name.ofText).map some

def namesText (ns : List Name) : String :=
  if ns.isEmpty then "-" else ",".intercalate (ns.map Name.toText)

def sigInfoText (o : Option SigInfo) : String :=
  match o with
  | none => "si=-"
  | some si =>
    let kn := match si.keyLoc with
      | none => "-"
      | some k => nameNil k.name ++ (match k.digest with | some d => "+kd" ++ hexOrDash d | none => "")
    let vp := match si.validity with
      | none => "-"
      | some (a, b) => hexOrDash a ++ "," ++ hexOrDash b
    s!"si={si.typ}|{kn}|{hexNil si.nonce}|{nsDash si.time}|{natDash si.seq}|{vp}" ++ (if si.addDesc then "+ad" else "")

def dataText (d : DataP) (cov : Bytes) : String :=
  let mi := match d.mi with
    | none => "mi=-"
    | some m => s!"mi={natDash m.ct}|{nsDash m.fresh}|{hexNil m.fb}"
  s!"D n={nameNil d.name} {mi} c={hexNil d.content} {sigInfoText d.si} sv={hexNil d.sv} cov={hexOrDash cov}"

def interestText (i : InterestP) (cov : Bytes) : String :=
  let fh := match i.fh with | none => "nil" | some ns => namesText ns
  let b (x : Bool) : String := if x then "1" else "0"
  s!"I n={nameNil i.name} cbp={b i.cbp} mbf={b i.mbf} fh={fh} nonce={natDash i.nonce} lt={nsDash i.lt} hl={natDash i.hl} ap={hexNil i.ap} {sigInfoText i.si} sv={hexNil i.sv} cov={hexOrDash cov}"

/-- recorded `sc=` : typ|keyname|nonce|timeMs|seq|notBefore|notAfter   ("-" = no signer) -/
def sigCfgOf (s : String) : Option (Option SigCfg) :=
  if s == "-" then some none else
  match s.splitOn "|" with
  | [t, kn, nonce, tm, seq, nb, na] => do
    let typ ← t.toInt?
    let keyName ← if kn == "-" then some none else (Name.ofText kn).map some
    let nonce ← hexNilOf nonce
    let tm ← optNatOf tm
    let seq ← optNatOf seq
    let nb ← hexNilOf nb
    let na ← hexNilOf na
    pure (some { typ := typ, keyName := keyName, nonce := nonce, time := tm, seq := seq, notBefore := nb, notAfter := na })
  | _ => none

/-- cut a byte string at the given offsets exactly as harness Reader() does -/
def segment (b : Bytes) (cuts : List Nat) : List Bytes :=
  let rec go (rest : Bytes) (last : Nat) (cuts : List Nat) (acc : List Bytes) : List Bytes :=
    match cuts with
    | [] => acc ++ [rest]
    | o :: cs =>
      if o ≤ last ∨ o ≥ b.length then go rest last cs acc
      else go (rest.drop (o - last)) o cs (acc ++ [rest.take (o - last)])
  go b 0 cuts []

/-- split into buffers of the given lengths (may contain empty ones), as harness Reader("own") does -/
def segmentLens (b : Bytes) (lens : List Nat) : List Bytes :=
  let rec go (rest : Bytes) (lens : List Nat) (acc : List Bytes) : List Bytes :=
    match lens with
    | [] => if rest.isEmpty then acc else acc ++ [rest]
    | n :: ls => if n > rest.length then (if rest.isEmpty then acc else acc ++ [rest]) else go (rest.drop n) ls (acc ++ [rest.take n])
  go b lens []

/-- reader for a cut spec: "c" contiguous, "w" one segment, "own" the encoder's own buffers,
    "3,17" cut offsets -/
def readerOf (b : Bytes) (cuts : String) (own : List Nat := []) : Option Rd :=
  if cuts == "c" then some (newBufferReader b)
  else if cuts == "w" then some (newWireReader [b])
  else if cuts == "own" then some (newWireReader (segmentLens b own))
  else ((cuts.splitOn ",").mapM String.toNat?).map fun cs => newWireReader (segment b cs)

def resText (r : Res String) : String :=
  match r with
  | .ok s => s
  | .err => "err"
  | .panic m => "PANIC " ++ m
  | .alloc => "ALLOC"
  | .oom => "OOM"

/-- model of harness ReadAs -/
def readAs (kind : Char) (r : Rd) : Res String :=
  let H := Sha.sha256
  if kind == 'D' then do
    let (d, cov) ← readData r
    pure (dataText d cov)
  else if kind == 'I' then do
    let (i, cov) ← readInterest H r
    pure (interestText i cov)
  else do
    let p ← readPacket H r
    match p with
    | .data d cov => pure (dataText d cov)
    | .interest i cov => pure (interestText i cov)

/-- "mkd <name> <ct> <fr> <fb> <content> <signer>" -/
structure MkdOp where
  name : Name
  ct : Option Nat
  fr : Option Nat
  fb : Option Component
  content : Option (List Bytes)
  signer : String

def mkdOf (f : List String) : Option MkdOp :=
  match f with
  | [_, n, ct, fr, fb, c, s] => do
    let name ← Name.ofText n
    let ct ← optNatOf ct
    let fr ← optNatOf fr
    let fb ← if fb == "-" then some none else (Component.ofText fb).map some
    let c ← bufsOf c
    pure ⟨name, ct, fr, fb, c, s⟩
  | _ => none

/-- "mki <name> <cbp> <mbf> <fh> <nonce> <lt> <hl> <ap> <signer>" -/
structure MkiOp where
  name : Name
  cbp : Bool
  mbf : Bool
  fh : Option (List Name)
  nonce : Option Nat
  lt : Option Nat
  hl : Option Nat
  ap : Option (List Bytes)
  signer : String

def mkiOf (f : List String) : Option MkiOp :=
  match f with
  | [_, n, cbp, mbf, fh, nonce, lt, hl, ap, s] => do
    let name ← Name.ofText n
    let fh ← namesOf fh
    let nonce ← optNatOf nonce
    let lt ← optNatOf lt
    let hl ← optNatOf hl
    let ap ← bufsOf ap
    pure ⟨name, cbp == "1", mbf == "1", fh, nonce, lt, hl, ap, s⟩
  | _ => none

/-- the recorded signer part of an mk output: est, sc, sv -/
structure Rec where
  est : Nat
  sc : Option SigCfg
  scRaw : String
  sv : Option Bytes

def recOf (toks : List String) : Option Rec := do
  let est ← (← kv toks "est").toNat?
  let scRaw ← kv toks "sc"
  let sc ← sigCfgOf scRaw
  let sv ← hexNilOf ((kv toks "sv").getD "nil")
  pure ⟨est, sc, scRaw, sv⟩

end Ndn.C03.Text
