/-
  C03/LemmasReaderE.lean — WireReader Skip and Range refine the BufferReader operations.
-/
import NdnVerif.C03.LemmasReaderD
namespace Ndn.C03

/-! ### Skip -/

theorem wire_skip_ok (w : WireR) (buf : Bytes) (p n : Nat) (h : At (.wire w) buf p) (hlive : (Rd.wire w).Live)
    (hl : p + n ≤ buf.length) : ∃ r', (Rd.wire w).skip n = .ok r' ∧ At r' buf (p + n) := by
  obtain ⟨_, _, _, hb4⟩ := at_wire_buf h
  have habs := (hb4 n).1 hl
  have hlive' : w.seg < w.wire.length := hlive
  have := (advance_spec (w.wire.length + 1) { w with pos := w.pos + n } hlive' (by simp only []; omega)).1
    (by simp only [accSz_length]; unfold WireR.absPos at habs; omega)
  obtain ⟨r', a1, a2, a3, a4, a5, a6, _⟩ := this
  simp only [] at a2 a3 a5 a6
  have hpre : r'.Pre := by
    refine ⟨by rw [a2]; omega, fun _ => by rw [WireR.segAt_eq, a2]; exact a6, fun hh => by rw [a2] at hh; omega⟩
  refine ⟨.wire r', ?_, at_wire_step h a2 a3 (by rw [a4]; simp [WireR.absPos]; omega) hpre⟩
  have hg : ¬ (n > w.absLength - w.absPos) := by
    rw [WireR.absLength_eq]; omega
  have hsk := skipLoop_eq_advance (w.wire.length + 1) { w with pos := w.pos + n } hlive'
  simp only [Rd.skip, WireR.skip, if_neg hg, hsk, a1, Res.bind_ok, Res.pure_eq]

theorem wire_skip_err (w : WireR) (buf : Bytes) (p n : Nat) (h : At (.wire w) buf p) (_hlive : (Rd.wire w).Live)
    (hl : p + n > buf.length) : (Rd.wire w).skip n = .err := by
  obtain ⟨_, _, _, hb4⟩ := at_wire_buf h
  obtain ⟨_, _, _, _, h5⟩ := at_wire_dest h
  have hn : ¬ (w.absPos + n ≤ w.wire.flatten.length) := fun hh => by have := (hb4 n).2 hh; omega
  have hg : n > w.absLength - w.absPos := by
    rw [WireR.absLength_eq]; omega
  simp only [Rd.skip, WireR.skip, if_pos hg, Res.bind_err]

/-! ### Range -/

theorem rangeAbs_spec (w : WireR) (s e : Nat) (hs : s ≤ e) (he : e ≤ w.wire.flatten.length) :
    w.rangeAbs s e = (w.wire.flatten.drop s).take (e - s) := by
  unfold WireR.rangeAbs
  have h1 : ¬ (e > w.absLength ∨ s > e) := by
    simp only [WireR.absLength, accSz_length]; omega
  rw [if_neg h1]
  by_cases hse : s = e
  · subst hse; simp
  rw [if_neg hse]
  obtain ⟨i, i1, i2, i3, i4⟩ := findStart_spec w.wire s (by rw [accSz_length]; omega)
  obtain ⟨j, j1, j2, j3, j4⟩ := findEnd_spec w.wire e (by omega) (by rw [accSz_length]; omega)
  rw [i4, j4]
  simp only [WireR.segAt_eq]
  have hsi := accSz_succ w.wire i i1
  have hsj := accSz_succ w.wire j j1
  have hij : i ≤ j := by
    by_cases hji : j < i
    · have := accSz_mono w.wire (show j + 1 ≤ i by omega); omega
    · omega
  by_cases heq : i = j
  · subst heq
    rw [if_pos rfl]
    have := flatten_drop_at' w.wire i (s - accSz w.wire i) i1 (by omega)
    rw [show accSz w.wire i + (s - accSz w.wire i) = s by omega] at this
    rw [this, List.take_append]
    rw [show e - s - (List.drop (s - accSz w.wire i) (w.wire[i]?.getD [])).length = 0 by
      simp only [List.length_drop]; omega]
    rw [show e - accSz w.wire i - (s - accSz w.wire i) = e - s by omega]
    simp
  · rw [if_neg heq]
    have := flatten_slice w.wire i j (s - accSz w.wire i) (e - accSz w.wire j) (by omega) j1 (by omega) (by omega)
    rw [show accSz w.wire i + (s - accSz w.wire i) = s by omega,
      show accSz w.wire j + (e - accSz w.wire j) = e by omega] at this
    rw [this]

theorem wire_range_eq (w : WireR) (buf : Bytes) (p s e : Nat) (h : At (.wire w) buf p) (hs : s ≤ e)
    (he : e ≤ buf.length) : (Rd.wire w).range s e = (buf.drop s).take (e - s) := by
  obtain ⟨_, h2, _, h4, h5⟩ := at_wire_dest h
  obtain ⟨hb1, _⟩ := at_wire_buf h
  simp only [Rd.range]
  rw [rangeAbs_spec w (s + w.base) (e + w.base) (by omega) (by omega), h2, List.drop_drop]
  rw [show e + w.base - (s + w.base) = e - s by omega, Nat.add_comm]

end Ndn.C03
