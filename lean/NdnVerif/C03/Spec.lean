/-
  C03/Spec.lean — the specification side: an independent, minimal TLV walker and what "well-formed
  with exact lengths" means for an Interest / Data, stated over BYTES only (no reference to the
  encoder model).  Used (a) by the theorems in Props.lean, (b) by the drivers, evaluated on the
  implementation's own output.
-/
import NdnVerif.Base.Name
namespace Ndn.C03.Spec

structure Tlv where
  typ : Nat
  val : Bytes
  off : Nat        -- offset of the first byte of T inside the walked buffer
  hdr : Nat        -- length of T and L together
deriving Repr, DecidableEq

/-- shortest-form check for a TL number just decoded from `b` -/
def minimalTL (b : Bytes) (v : Nat) : Bool := (b.take (tlLen v)) == encTL v

/-- split a buffer into consecutive TLVs, consuming it EXACTLY (every length field exact, every
    T and L in shortest form); `none` otherwise -/
def walk : Nat → Nat → Bytes → Option (List Tlv)
  | _, _, [] => some []
  | 0, _, _ :: _ => none
  | fuel + 1, off, b =>
    match decTL b with
    | none => none
    | some (t, b1) =>
      if !minimalTL b t then none else
      match decTL b1 with
      | none => none
      | some (l, b2) =>
        if !minimalTL b1 l then none
        else if b2.length < l then none
        else
          let h := b.length - b2.length
          match walk fuel (off + h + l) (b2.drop l) with
          | none => none
          | some rest => some (⟨t, b2.take l, off, h⟩ :: rest)

def tlvs (b : Bytes) : Option (List Tlv) := walk (b.length + 1) 0 b

/-- `ts` is an ordered sub-sequence of `order` (each type at most once, in that order) -/
def inOrder : List Nat → List Nat → Bool
  | [], _ => true
  | _ :: _, [] => false
  | t :: ts, o :: os => if t = o then inOrder ts os else inOrder (t :: ts) os

def natLenOk (v : Bytes) : Bool := v.length == 1 || v.length == 2 || v.length == 4 || v.length == 8

def wfName (v : Bytes) : Bool := (tlvs v).isSome

def wfKeyLocator (v : Bytes) : Bool :=
  match tlvs v with
  | some ts => ts.all fun t => if t.typ = 7 then wfName t.val else true
  | none => false

def wfSigInfo (v : Bytes) : Bool :=
  match tlvs v with
  | some ts =>
    (ts.head?.map (·.typ)) == some 27 &&
    ts.all fun t =>
      if t.typ = 27 || t.typ = 40 || t.typ = 42 then natLenOk t.val
      else if t.typ = 28 then wfKeyLocator t.val
      else if t.typ = 253 then (tlvs t.val).isSome
      else true
  | none => false

def wfMetaInfo (v : Bytes) : Bool :=
  match tlvs v with
  | some ts => ts.all fun t => if t.typ = 24 || t.typ = 25 then natLenOk t.val else true
  | none => false

def wfLinks (v : Bytes) : Bool :=
  match tlvs v with
  | some ts => ts.all fun t => t.typ = 7 && wfName t.val
  | none => false

/-- a well-formed Data packet: one outer TLV of type 6 consuming everything, inside it
    Name, MetaInfo?, Content?, SignatureInfo?, SignatureValue? in this order, every nested length exact -/
def wfData (b : Bytes) : Bool :=
  match tlvs b with
  | some [o] =>
    o.typ = 6 &&
    match tlvs o.val with
    | some ts =>
      inOrder (ts.map (·.typ)) [7, 20, 21, 22, 23] && (ts.head?.map (·.typ)) == some 7 &&
      ts.all fun t =>
        if t.typ = 7 then wfName t.val
        else if t.typ = 20 then wfMetaInfo t.val
        else if t.typ = 22 then wfSigInfo t.val
        else true
    | none => false
  | _ => false

def wfInterest (b : Bytes) : Bool :=
  match tlvs b with
  | some [o] =>
    o.typ = 5 &&
    match tlvs o.val with
    | some ts =>
      inOrder (ts.map (·.typ)) [7, 33, 18, 30, 10, 12, 34, 36, 44, 46] && (ts.head?.map (·.typ)) == some 7 &&
      ts.all fun t =>
        if t.typ = 7 then wfName t.val
        else if t.typ = 33 || t.typ = 18 then t.val.isEmpty
        else if t.typ = 30 then wfLinks t.val
        else if t.typ = 10 then t.val.length == 4
        else if t.typ = 12 then natLenOk t.val
        else if t.typ = 34 then t.val.length == 1
        else if t.typ = 44 then wfSigInfo t.val
        else true
    | none => false
  | _ => false

/-- NDN packet format: Name = TLV(7, components), component = TLV(type, value) -/
def encComp (c : Component) : Bytes := encTL c.typ ++ encTL c.val.length ++ c.val
def encName (n : Name) : Bytes :=
  let inner := n.flatMap encComp
  encTL 7 ++ encTL inner.length ++ inner

/-- the inner elements of the single outer TLV, with offsets relative to the whole packet -/
def elements (b : Bytes) : Option (Tlv × List Tlv) :=
  match tlvs b with
  | some [o] =>
    match tlvs o.val with
    | some ts => some (o, ts.map fun t => { t with off := t.off + o.hdr })
    | none => none
  | _ => none

def findT (ts : List Tlv) (t : Nat) : Option Tlv := ts.find? (·.typ = t)

/-- byte ranges [lo,hi) of a packet that a signature covers, per the NDN packet format:
    Data: from the Name up to, not including, SignatureValue.
    Interest: the name components except a final ParametersSha256DigestComponent, and from
    ApplicationParameters up to, not including, InterestSignatureValue. -/
def signedRanges (b : Bytes) : List (Nat × Nat) :=
  match elements b with
  | none => []
  | some (o, ts) =>
    if o.typ = 6 then
      match findT ts 23, ts.head? with
      | some sv, some first => [(first.off, sv.off)]
      | _, _ => []
    else if o.typ = 5 then
      match findT ts 46, findT ts 36, findT ts 7 with
      | some sv, some ap, some nm =>
        let comps := (tlvs nm.val).getD []
        let nameEnd := match comps.getLast? with
          | some c => if c.typ = 2 then nm.off + nm.hdr + c.off else nm.off + nm.hdr + nm.val.length
          | none => nm.off + nm.hdr
        [(nm.off + nm.hdr, nameEnd), (ap.off, sv.off)]
      | _, _, _ => []
    else []

def sliceRanges (b : Bytes) (rs : List (Nat × Nat)) : Bytes :=
  rs.flatMap fun (lo, hi) => (b.drop lo).take (hi - lo)

/-- the signed portion of a packet -/
def signedPortion (b : Bytes) : Bytes := sliceRanges b (signedRanges b)

/-- value range of the signature value element (23 in Data, 46 in Interest) -/
def sigValueRange (b : Bytes) : Option (Nat × Nat) :=
  match elements b with
  | none => none
  | some (o, ts) =>
    match findT ts (if o.typ = 6 then 23 else 46) with
    | some sv => some (sv.off + sv.hdr, sv.off + sv.hdr + sv.val.length)
    | none => none

/-- the ApplicationParameters element of an Interest (whole TLV) -/
def paramsRange (b : Bytes) : Option (Nat × Nat) :=
  match elements b with
  | none => none
  | some (o, ts) =>
    if o.typ ≠ 5 then none else
    match findT ts 36 with
    | some ap => some (ap.off, ap.off + ap.hdr + ap.val.length)
    | none => none

/-- bytes the ParametersSha256Digest must cover: from ApplicationParameters to the end of the Interest -/
def digestPortion (b : Bytes) : Option Bytes :=
  match paramsRange b with
  | some (lo, _) => some (b.drop lo)
  | none => none

def inRanges (rs : List (Nat × Nat)) (p : Nat) : Bool := rs.any fun (lo, hi) => lo ≤ p && p < hi

end Ndn.C03.Spec
