/-
  C03/LemmasEncPlan.lean — the wire plan computed by Init announces, for every allocated buffer,
  exactly the number of bytes EncodeInto writes into it (Data and Interest).
-/
import NdnVerif.C03.LemmasEnc
namespace Ndn.C03

theorem planMatches_nil_enc : PlanMatches [] [] := ⟨rfl, fun k hk => by simp at hk⟩

theorem planMatches_cons_enc (a : Nat) (A : Bytes) (p : List Nat) (s : List Bytes)
    (ha : a = 0 ∨ a = A.length) (h : PlanMatches p s) : PlanMatches (a :: p) (A :: s) := by
  refine ⟨by simp [h.1], fun k hk hne => ?_⟩
  cases k with
  | zero =>
    simp only [List.getD_cons_zero] at hne ⊢
    cases ha with
    | inl h0 => exact absurd h0 hne
    | inr h1 => exact h1
  | succ k =>
    simp only [List.getD_cons_succ] at hne ⊢
    exact h.2 k (by simpa using hk) hne

theorem planMatches_nocopy_enc (c : List Bytes) (p : List Nat) (s : List Bytes) (h : PlanMatches p s) :
    PlanMatches (c.map (fun _ => 0) ++ p) (c ++ s) := by
  induction c with
  | nil => simpa using h
  | cons x t ih => exact planMatches_cons_enc 0 x _ _ (Or.inl rfl) ih

/-- the common layout of the Data and Interest wire plans -/
theorem planShape_enc (content : Option (List Bytes)) (est hl tl : Nat) (H T : Bytes)
    (CTL : List Bytes → Bytes) (ctl : List Bytes → Nat)
    (hH : H.length = hl) (hT : T.length = tl) (hC : ∀ c, (CTL c).length = ctl c) :
    PlanMatches
      (match content with
        | none => if est > 0 then [hl + tl, 0] else [hl + tl]
        | some c => [hl + ctl c] ++ c.map (fun _ => 0) ++
            (if est > 0 then [tl, 0] else if tl = 0 then [] else [tl]))
      (match content with
        | none => if est > 0 then [H ++ T, []] else [H ++ T]
        | some c => [H ++ CTL c] ++ c ++ (if est > 0 then [T, []] else if T = [] then [] else [T])) := by
  have hHT : hl + tl = (H ++ T).length := by simp [hH, hT]
  cases content with
  | none =>
    dsimp only
    split
    · exact planMatches_cons_enc _ _ _ _ (Or.inr hHT)
        (planMatches_cons_enc _ _ _ _ (Or.inl rfl) planMatches_nil_enc)
    · exact planMatches_cons_enc _ _ _ _ (Or.inr hHT) planMatches_nil_enc
  | some c =>
    dsimp only
    rw [List.append_assoc, List.append_assoc]
    refine planMatches_cons_enc _ _ _ _ (Or.inr (by simp [hH, hC])) (planMatches_nocopy_enc c _ _ ?_)
    split
    · exact planMatches_cons_enc _ _ _ _ (Or.inr hT.symm)
        (planMatches_cons_enc _ _ _ _ (Or.inl rfl) planMatches_nil_enc)
    · have hiff : tl = 0 ↔ T = [] := by rw [← hT]; exact List.length_eq_zero_iff
      by_cases h0 : tl = 0
      · rw [if_pos h0, if_pos (hiff.1 h0)]; exact planMatches_nil_enc
      · rw [if_neg h0, if_neg (fun h => h0 (hiff.2 h))]
        exact planMatches_cons_enc _ _ _ _ (Or.inr hT.symm) planMatches_nil_enc

theorem sigTail_length_enc (t tv : Nat) (ht : t ≤ 252) (htv : tv ≤ 252) (si : Option SigInfo) (est : Nat) :
    (optB si (fun s => encTL t ++ encTL (sigInfoLen s) ++ encSigInfo s) ++ sigTL tv est).length
      = optN si (fun s => 1 + tlLen (sigInfoLen s) + sigInfoLen s) + (if est > 0 then 1 + tlLen est else 0) := by
  rw [List.length_append, siTLV_length_enc t ht]
  unfold sigTL
  split <;> simp [encTL_length, tlLen_small_enc htv]

theorem dataPlan_matches (d : DataIn) : PlanMatches (dataPlan d) (dataSegs d) := by
  unfold dataPlan dataSegs
  exact planShape_enc d.content d.est _ _ (dataHead d) (dataTail d)
    (fun c => encTL 21 ++ encTL (contentLen c)) (fun c => 1 + tlLen (contentLen c))
    (dataHead_length_enc d) (sigTail_length_enc 22 23 (by omega) (by omega) d.si d.est)
    (fun c => by simp [encTL_length, tlLen_small_enc])

theorem interestPlan_matches (i : InterestIn) (fn : Name) :
    PlanMatches (interestPlan i fn) (interestSegs i fn) := by
  unfold interestPlan interestSegs
  exact planShape_enc i.ap i.est _ _ (interestHead i fn) (interestTail i)
    (fun c => encTL 36 ++ encTL (contentLen c)) (fun c => 1 + tlLen (contentLen c))
    (interestHead_length_enc i fn) (sigTail_length_enc 44 46 (by omega) (by omega) i.si i.est)
    (fun c => by simp [encTL_length, tlLen_small_enc])

end Ndn.C03
