/-
  C03/Examples.lean — concrete inputs used by the non-vacuity examples of C03 and C12 Props.
-/
import NdnVerif.C03.LemmasDefs
namespace Ndn.C03

def exSign : Bytes → Bytes := fun b => List.replicate 200 (b.length % 256)
def exBig : Component := ⟨8, List.replicate 300 7⟩
def exKey : Name := [⟨8, [0x6b]⟩]
def exSi : SigInfo := { typ := 3, keyLoc := some { name := some exKey } }
def exData : DataIn :=
  { name := [⟨8, [0x61]⟩, exBig], mi := { ct := some 0, fresh := some 4000, fb := some [8, 1, 1] },
    content := some [[1, 2], [], [3]], si := some exSi, est := 300 }
theorem exKey_valid : NameValid exKey := by
  intro c hc
  have : c = ⟨8, [0x6b]⟩ := by simpa [exKey] using hc
  subst this; show (8 : Nat) < 2 ^ 64; decide
theorem exSi_valid : SigInfoValid exSi := by
  refine ⟨by show (3 : Nat) < 2 ^ 64; decide, rfl, ?_, ?_, ?_⟩
  rotate_left
  · intro t h; cases h
  · intro t h; cases h
  intro k hk n hn
  have hk' : k = { name := some exKey } := by simpa [exSi] using hk.symm
  subst hk'
  have : n = exKey := by simpa using hn.symm
  subst this; exact exKey_valid
set_option maxRecDepth 100000 in
theorem exData_valid : exData.Valid := by
  refine ⟨?_, ?_, ?_, by decide⟩
  · intro c hc
    have : c = ⟨8, [0x61]⟩ ∨ c = exBig := by simpa [exData] using hc
    rcases this with h | h <;> subst h <;> (show (8 : Nat) < 2 ^ 64) <;> decide
  · constructor
    · intro x h
      have : x = 0 := by simpa [exData] using h.symm
      subst this; decide
    · intro x h
      have : x = 4000 := by simpa [exData] using h.symm
      subst this; decide
  · intro s hs
    have : s = exSi := by simpa [exData] using hs.symm
    subst this; exact exSi_valid
def exHash : Bytes → Bytes := fun b => List.replicate 32 (b.length % 256)
def exSign32 : Bytes → Bytes := fun b => List.replicate 30 (b.length % 256)
def exFh : Name := [⟨8, [1]⟩]
def exSiI : SigInfo := { typ := 4, keyLoc := some { name := some exKey } }
def exInterest : InterestIn :=
  { name := [⟨8, [0x61]⟩], cbp := true, mbf := false, fh := some [exFh], nonce := some 7, lt := some 4000,
    hl := some 3, ap := some [[1], [2, 3]], si := some exSiI, est := 32 }
theorem exSiI_valid : SigInfoValid exSiI := by
  refine ⟨by show (4 : Nat) < 2 ^ 64; decide, rfl, ?_, ?_, ?_⟩
  rotate_left
  · intro t h; cases h
  · intro t h; cases h
  intro k hk n hn
  have hk' : k = { name := some exKey } := by simpa [exSiI] using hk.symm
  subst hk'
  have : n = exKey := by simpa using hn.symm
  subst this; exact exKey_valid
theorem exInterest_valid : exInterest.Valid := by
  refine ⟨?_, ?_, ?_, ?_, ?_, ?_, by intro _; rfl, by decide⟩
  · intro c hc
    have : c = ⟨8, [0x61]⟩ := by simpa [exInterest] using hc
    subst this; show (8 : Nat) < 2 ^ 64; decide
  · intro ns h n hn
    have : ns = [exFh] := by simpa [exInterest] using h.symm
    subst this
    have : n = exFh := by simpa using hn
    subst this
    intro c hc
    have : c = ⟨8, [1]⟩ := by simpa [exFh] using hc
    subst this; show (8 : Nat) < 2 ^ 64; decide
  · intro x h
    have : x = 7 := by simpa [exInterest] using h.symm
    subst this; decide
  · intro x h
    have : x = 4000 := by simpa [exInterest] using h.symm
    subst this; decide
  · intro x h
    have : x = 3 := by simpa [exInterest] using h.symm
    subst this; decide
  · intro s hs
    have : s = exSiI := by simpa [exInterest] using hs.symm
    subst this; exact exSiI_valid

end Ndn.C03
