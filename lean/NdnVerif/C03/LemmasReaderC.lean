/-
  C03/LemmasReaderC.lean — `At` helpers, the BufferReader half of every field of `ReaderSpecs`, and the
  WireReader reads (pos/length/readByte/readBuf/readWire/readFull/skip/range).
-/
import NdnVerif.C03.LemmasReaderB
namespace Ndn.C03

/-! ### `At` for the two kinds of readers -/

theorem at_buf_iff (b : BufR) (buf : Bytes) (p : Nat) : At (.buf b) buf p ↔ b = ⟨buf, p⟩ ∧ p ≤ buf.length := by
  unfold At Rd.Inv Rd.view
  constructor
  · rintro ⟨_, h2, h3⟩; exact ⟨h2, h3⟩
  · rintro ⟨h2, h3⟩; subst h2; exact ⟨h3, rfl, h3⟩

theorem WireR.Inv.pre {w : WireR} (h : w.Inv) : w.Pre := ⟨h.1, h.2.1, h.2.2.1⟩

/-- every segment except possibly the first is non-empty -/
def NE (w : List Bytes) : Prop := ∀ i, 0 < i → i < w.length → w[i]?.getD [] ≠ []

theorem WireR.Inv.ne {w : WireR} (h : w.Inv) : NE w.wire := by
  intro i h0 h1
  have := h.2.2.2.1 i h0 h1
  rwa [WireR.segAt_eq] at this

theorem WireR.inv_mk {w : WireR} (hp : w.Pre) (hne : NE w.wire) (hb : w.base ≤ w.absPos) : w.Inv := by
  refine ⟨hp.1, hp.2.1, hp.2.2, ?_, hb⟩
  intro i h0 h1
  rw [WireR.segAt_eq]; exact hne i h0 h1

theorem at_wire_mk (w : WireR) (hp : w.Pre) (hne : NE w.wire) (hb : w.base ≤ w.absPos) :
    At (.wire w) (w.wire.flatten.drop w.base) (w.absPos - w.base) := by
  refine ⟨WireR.inv_mk hp hne hb, rfl, ?_⟩
  have := hp.absPos_le
  rw [accSz_length] at this
  simp only [List.length_drop]; omega

theorem at_wire_dest {w : WireR} {buf : Bytes} {p : Nat} (h : At (.wire w) buf p) :
    w.Inv ∧ buf = w.wire.flatten.drop w.base ∧ p = w.absPos - w.base ∧ w.base ≤ w.absPos
      ∧ w.absPos ≤ w.wire.flatten.length := by
  obtain ⟨h1, h2, _⟩ := h
  unfold Rd.view at h2
  have := h1.pre.absPos_le
  rw [accSz_length] at this
  injection h2 with h2 h3
  exact ⟨h1, h2.symm, h3.symm, h1.2.2.2.2, this⟩

theorem at_wire_step {w w' : WireR} {buf : Bytes} {p l : Nat} (h : At (.wire w) buf p)
    (hw : w'.wire = w.wire) (hb : w'.base = w.base) (ha : w'.absPos = w.absPos + l) (hp : w'.Pre) :
    At (.wire w') buf (p + l) := by
  obtain ⟨h1, h2, h3, h4, h5⟩ := at_wire_dest h
  have := at_wire_mk w' hp (by rw [hw]; exact h1.ne) (by omega)
  rw [hw, hb, ha] at this
  rw [h2, h3, show w.absPos - w.base + l = w.absPos + l - w.base by omega]
  exact this

/-! ### BufferReader half -/

theorem buf_pos_eq (b : BufR) (buf : Bytes) (p : Nat) (h : At (.buf b) buf p) : (Rd.buf b).pos = p := by
  obtain ⟨rfl, _⟩ := (at_buf_iff _ _ _).1 h; rfl

theorem buf_length_eq (b : BufR) (buf : Bytes) (p : Nat) (h : At (.buf b) buf p) : (Rd.buf b).length = buf.length := by
  obtain ⟨rfl, _⟩ := (at_buf_iff _ _ _).1 h; rfl

theorem buf_readByte_ok (b : BufR) (buf : Bytes) (p : Nat) (h : At (.buf b) buf p) (hp : p < buf.length) :
    ∃ r', (Rd.buf b).readByte = .ok (buf.getD p 0, r') ∧ At r' buf (p + 1) ∧ r'.Live := by
  obtain ⟨rfl, _⟩ := (at_buf_iff _ _ _).1 h
  refine ⟨.buf ⟨buf, p + 1⟩, ?_, (at_buf_iff _ _ _).2 ⟨rfl, by omega⟩, trivial⟩
  simp [Rd.readByte, BufR.readByte, show ¬ buf.length ≤ p by omega]

theorem buf_readByte_eof (b : BufR) (buf : Bytes) (p : Nat) (h : At (.buf b) buf p) (hp : p ≥ buf.length) :
    (Rd.buf b).readByte = .err := by
  obtain ⟨rfl, _⟩ := (at_buf_iff _ _ _).1 h
  simp [Rd.readByte, BufR.readByte, hp]

theorem buf_readBuf_ok (b : BufR) (buf : Bytes) (p l : Nat) (h : At (.buf b) buf p) (hp : p + l ≤ buf.length) :
    ∃ r', (Rd.buf b).readBuf l = .ok ((buf.drop p).take l, r') ∧ At r' buf (p + l) := by
  obtain ⟨rfl, _⟩ := (at_buf_iff _ _ _).1 h
  refine ⟨.buf ⟨buf, p + l⟩, ?_, (at_buf_iff _ _ _).2 ⟨rfl, by omega⟩⟩
  simp [Rd.readBuf, BufR.readBuf, show ¬ buf.length < p + l by omega]

theorem buf_readBuf_err (b : BufR) (buf : Bytes) (p l : Nat) (h : At (.buf b) buf p) (hp : p + l > buf.length) :
    (Rd.buf b).readBuf l = .err := by
  obtain ⟨rfl, _⟩ := (at_buf_iff _ _ _).1 h
  simp [Rd.readBuf, BufR.readBuf, hp]

theorem buf_readWire_ok (b : BufR) (buf : Bytes) (p l : Nat) (h : At (.buf b) buf p) (hp : p + l ≤ buf.length) :
    ∃ r', (Rd.buf b).readWire l = .ok ((buf.drop p).take l, r') ∧ At r' buf (p + l) := by
  obtain ⟨rfl, _⟩ := (at_buf_iff _ _ _).1 h
  refine ⟨.buf ⟨buf, p + l⟩, ?_, (at_buf_iff _ _ _).2 ⟨rfl, by omega⟩⟩
  have h1 : ¬ (buf.length ≤ p ∧ 0 < l) := by omega
  simp [Rd.readWire, BufR.readWire, show ¬ buf.length < p + l by omega, h1]

theorem buf_readWire_err (b : BufR) (buf : Bytes) (p l : Nat) (h : At (.buf b) buf p) (hp : p + l > buf.length) :
    (Rd.buf b).readWire l = .err := by
  obtain ⟨rfl, _⟩ := (at_buf_iff _ _ _).1 h
  simp only [Rd.readWire, BufR.readWire]
  split
  · rfl
  · simp

theorem buf_readFull_ok (b : BufR) (buf : Bytes) (p l : Nat) (h : At (.buf b) buf p) (hp : p + l ≤ buf.length) :
    ∃ r', (Rd.buf b).readFull l = .ok ((buf.drop p).take l, r') ∧ At r' buf (p + l) := by
  obtain ⟨rfl, _⟩ := (at_buf_iff _ _ _).1 h
  refine ⟨.buf ⟨buf, p + l⟩, ?_, (at_buf_iff _ _ _).2 ⟨rfl, by omega⟩⟩
  simp [Rd.readFull, BufR.readFull, show ¬ buf.length < p + l by omega]

theorem buf_readFull_err (b : BufR) (buf : Bytes) (p l : Nat) (h : At (.buf b) buf p) (hp : p + l > buf.length) :
    (Rd.buf b).readFull l = .err := by
  obtain ⟨rfl, _⟩ := (at_buf_iff _ _ _).1 h
  simp [Rd.readFull, BufR.readFull, hp]

theorem buf_skip_ok (b : BufR) (buf : Bytes) (p n : Nat) (h : At (.buf b) buf p) (hp : p + n ≤ buf.length) :
    ∃ r', (Rd.buf b).skip n = .ok r' ∧ At r' buf (p + n) := by
  obtain ⟨rfl, _⟩ := (at_buf_iff _ _ _).1 h
  refine ⟨.buf ⟨buf, p + n⟩, ?_, (at_buf_iff _ _ _).2 ⟨rfl, by omega⟩⟩
  simp [Rd.skip, BufR.skip, show ¬ buf.length < p + n by omega]

theorem buf_skip_err (b : BufR) (buf : Bytes) (p n : Nat) (h : At (.buf b) buf p) (hp : p + n > buf.length) :
    (Rd.buf b).skip n = .err := by
  obtain ⟨rfl, _⟩ := (at_buf_iff _ _ _).1 h
  simp [Rd.skip, BufR.skip, hp]

theorem buf_range_eq (b : BufR) (buf : Bytes) (p s e : Nat) (h : At (.buf b) buf p) (hs : s ≤ e)
    (he : e ≤ buf.length) : (Rd.buf b).range s e = (buf.drop s).take (e - s) := by
  obtain ⟨rfl, _⟩ := (at_buf_iff _ _ _).1 h
  simp [Rd.range, BufR.range, show ¬ (buf.length < e ∨ e < s) by omega]

theorem buf_delegate_ok (b : BufR) (buf : Bytes) (p l : Nat) (h : At (.buf b) buf p) (hp : p + l ≤ buf.length) :
    ∃ sub r', (Rd.buf b).delegate l = .ok (sub, r') ∧ At sub ((buf.drop p).take l) 0 ∧ At r' buf (p + l) := by
  obtain ⟨rfl, _⟩ := (at_buf_iff _ _ _).1 h
  refine ⟨.buf ⟨(buf.drop p).take l, 0⟩, .buf ⟨buf, p + l⟩, ?_, (at_buf_iff _ _ _).2 ⟨rfl, by omega⟩,
    (at_buf_iff _ _ _).2 ⟨rfl, by omega⟩⟩
  simp [Rd.delegate, BufR.delegate, show ¬ buf.length < p + l by omega]


/-! ### WireReader: position and length -/

theorem wire_pos_eq (w : WireR) (buf : Bytes) (p : Nat) (h : At (.wire w) buf p) : (Rd.wire w).pos = p := by
  obtain ⟨_, _, h3, _⟩ := at_wire_dest h
  rw [h3]; rfl

theorem wire_length_eq (w : WireR) (buf : Bytes) (p : Nat) (h : At (.wire w) buf p) :
    (Rd.wire w).length = buf.length := by
  obtain ⟨_, h2, _⟩ := at_wire_dest h
  rw [h2]; simp [Rd.length, WireR.absLength, accSz_length]

/-- facts about the logical buffer of a WireReader -/
theorem at_wire_buf {w : WireR} {buf : Bytes} {p : Nat} (h : At (.wire w) buf p) :
    buf.length = w.wire.flatten.length - w.base
    ∧ (∀ l, (buf.drop p).take l = (w.wire.flatten.drop w.absPos).take l)
    ∧ (p < buf.length ↔ w.absPos < w.wire.flatten.length)
    ∧ (∀ l, p + l ≤ buf.length ↔ w.absPos + l ≤ w.wire.flatten.length) := by
  obtain ⟨_, h2, h3, h4, h5⟩ := at_wire_dest h
  subst h2 h3
  refine ⟨by simp, fun l => ?_, by simp only [List.length_drop]; omega, fun l => by simp only [List.length_drop]; omega⟩
  rw [List.drop_drop, show w.base + (w.absPos - w.base) = w.absPos by omega]

/-! ### nextSeg -/

theorem nextSegLoop_stop (fuel : Nat) (r : WireR)
    (h : ¬ (r.seg < r.wire.length ∧ r.pos ≥ (r.wire[r.seg]?.getD []).length)) : WireR.nextSegLoop fuel r = r := by
  cases fuel with
  | zero => rfl
  | succ fuel => simp only [WireR.nextSegLoop, WireR.segAt_eq, if_neg h]

theorem nextSeg_spec (w : WireR) (hp : w.Pre) (hne : NE w.wire) :
    ∃ r1, w.nextSeg = (r1, decide (r1.seg < w.wire.length)) ∧ r1.wire = w.wire ∧ r1.base = w.base
      ∧ r1.absPos = w.absPos ∧ r1.Pre ∧ (r1.seg < w.wire.length ↔ w.absPos < w.wire.flatten.length)
      ∧ (r1.seg < w.wire.length → r1.pos < (w.wire[r1.seg]?.getD []).length) := by
  obtain ⟨h1, h2, h3⟩ := hp
  have key : ∀ r1 : WireR, r1.wire = w.wire → r1.absPos = w.absPos → r1.Pre →
      (r1.seg < w.wire.length → r1.pos < (w.wire[r1.seg]?.getD []).length) →
      (r1.seg < w.wire.length ↔ w.absPos < w.wire.flatten.length) := by
    intro r1 e1 e2 e3 e4
    rw [← e2, ← accSz_length]
    constructor
    · intro hlt
      have := e4 hlt
      have h5 := accSz_succ w.wire r1.seg hlt
      have h6 := accSz_le_total w.wire (r1.seg + 1)
      unfold WireR.absPos; rw [e1]; omega
    · intro hlt
      have hle := e3.1
      rw [e1] at hle
      by_cases hs : r1.seg = w.wire.length
      · have := e3.2.2 (by rw [e1]; exact hs)
        unfold WireR.absPos at hlt
        rw [this, e1, hs] at hlt
        omega
      · omega
  by_cases hc : w.seg < w.wire.length ∧ w.pos ≥ (w.wire[w.seg]?.getD []).length
  · have hpos := h2 hc.1
    rw [WireR.segAt_eq] at hpos
    have hsucc := accSz_succ w.wire w.seg hc.1
    have hpre : WireR.Pre { w with seg := w.seg + 1, pos := 0 } := ⟨by simp; omega, by simp, by simp⟩
    have habs : WireR.absPos { w with seg := w.seg + 1, pos := 0 } = w.absPos := by
      simp [WireR.absPos]; omega
    have hlt : (w.seg + 1 < w.wire.length → 0 < (w.wire[w.seg + 1]?.getD []).length) := by
      intro hlt
      have := hne (w.seg + 1) (by omega) hlt
      exact List.length_pos_iff.2 this
    refine ⟨{ w with seg := w.seg + 1, pos := 0 }, ?_, rfl, rfl, habs, hpre, key _ rfl habs hpre hlt, hlt⟩
    have hstop : WireR.nextSegLoop w.wire.length { w with seg := w.seg + 1, pos := 0 }
        = { w with seg := w.seg + 1, pos := 0 } := by
      apply nextSegLoop_stop
      rintro ⟨c1, c2⟩
      have := hlt c1
      simp only [] at c2
      omega
    simp only [WireR.nextSeg, WireR.nextSegLoop, WireR.segAt_eq, if_pos hc, hstop]
  · have hlt : (w.seg < w.wire.length → w.pos < (w.wire[w.seg]?.getD []).length) := by
      intro hlt; omega
    refine ⟨w, ?_, rfl, rfl, rfl, ⟨h1, h2, h3⟩, key _ rfl rfl ⟨h1, h2, h3⟩ hlt, hlt⟩
    simp only [WireR.nextSeg, nextSegLoop_stop _ w hc]

end Ndn.C03
