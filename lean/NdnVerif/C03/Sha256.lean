/-
  C03/Sha256.lean — executable SHA-256 (FIPS 180-4) over `Bytes`, used ONLY by the model drivers to
  recompute the ParametersSha256Digest component.  In the theorems the hash is an abstract
  parameter `H : Bytes → Bytes`; this implementation is part of the trusted correspondence
  machinery and is itself tied to crypto/sha256 by every Interest-with-parameters line of the
  C03/C12 traces (the digest is part of the compared wire).
-/
import NdnVerif.Base.Num
namespace Ndn.C03.Sha

def K : Array UInt32 := #[
  0x428a2f98, 0x71374491, 0xb5c0fbcf, 0xe9b5dba5, 0x3956c25b, 0x59f111f1, 0x923f82a4, 0xab1c5ed5,
  0xd807aa98, 0x12835b01, 0x243185be, 0x550c7dc3, 0x72be5d74, 0x80deb1fe, 0x9bdc06a7, 0xc19bf174,
  0xe49b69c1, 0xefbe4786, 0x0fc19dc6, 0x240ca1cc, 0x2de92c6f, 0x4a7484aa, 0x5cb0a9dc, 0x76f988da,
  0x983e5152, 0xa831c66d, 0xb00327c8, 0xbf597fc7, 0xc6e00bf3, 0xd5a79147, 0x06ca6351, 0x14292967,
  0x27b70a85, 0x2e1b2138, 0x4d2c6dfc, 0x53380d13, 0x650a7354, 0x766a0abb, 0x81c2c92e, 0x92722c85,
  0xa2bfe8a1, 0xa81a664b, 0xc24b8b70, 0xc76c51a3, 0xd192e819, 0xd6990624, 0xf40e3585, 0x106aa070,
  0x19a4c116, 0x1e376c08, 0x2748774c, 0x34b0bcb5, 0x391c0cb3, 0x4ed8aa4a, 0x5b9cca4f, 0x682e6ff3,
  0x748f82ee, 0x78a5636f, 0x84c87814, 0x8cc70208, 0x90befffa, 0xa4506ceb, 0xbef9a3f7, 0xc67178f2]

def H0 : Array UInt32 := #[0x6a09e667, 0xbb67ae85, 0x3c6ef372, 0xa54ff53a, 0x510e527f, 0x9b05688c, 0x1f83d9ab, 0x5be0cd19]

@[inline] def rotr (x : UInt32) (n : UInt32) : UInt32 := (x >>> n) ||| (x <<< (32 - n))

def pad (msg : Bytes) : Array UInt8 := Id.run do
  let n := msg.length
  let mut a : Array UInt8 := msg.foldl (fun acc x => acc.push (UInt8.ofNat x)) (Array.mkEmpty (n + 72))
  a := a.push 0x80
  while a.size % 64 != 56 do
    a := a.push 0
  let bits := n * 8
  for i in [0:8] do
    a := a.push (UInt8.ofNat (bits / 256 ^ (7 - i) % 256))
  return a

def block (h : Array UInt32) (m : Array UInt8) (off : Nat) : Array UInt32 := Id.run do
  let mut w : Array UInt32 := Array.mkEmpty 64
  for i in [0:16] do
    let b (k : Nat) : UInt32 := (m[off + 4 * i + k]!).toUInt32
    w := w.push ((b 0 <<< 24) ||| (b 1 <<< 16) ||| (b 2 <<< 8) ||| b 3)
  for i in [16:64] do
    let x := w[i - 15]!
    let y := w[i - 2]!
    let s0 := rotr x 7 ^^^ rotr x 18 ^^^ (x >>> 3)
    let s1 := rotr y 17 ^^^ rotr y 19 ^^^ (y >>> 10)
    w := w.push (w[i - 16]! + s0 + w[i - 7]! + s1)
  let mut a := h[0]!
  let mut b := h[1]!
  let mut c := h[2]!
  let mut d := h[3]!
  let mut e := h[4]!
  let mut f := h[5]!
  let mut g := h[6]!
  let mut hh := h[7]!
  for i in [0:64] do
    let s1 := rotr e 6 ^^^ rotr e 11 ^^^ rotr e 25
    let ch := (e &&& f) ^^^ ((~~~ e) &&& g)
    let t1 := hh + s1 + ch + K[i]! + w[i]!
    let s0 := rotr a 2 ^^^ rotr a 13 ^^^ rotr a 22
    let maj := (a &&& b) ^^^ (a &&& c) ^^^ (b &&& c)
    let t2 := s0 + maj
    hh := g; g := f; f := e; e := d + t1; d := c; c := b; b := a; a := t1 + t2
  return #[h[0]! + a, h[1]! + b, h[2]! + c, h[3]! + d, h[4]! + e, h[5]! + f, h[6]! + g, h[7]! + hh]

def sha256 (msg : Bytes) : Bytes := Id.run do
  let m := pad msg
  let mut h := H0
  for i in [0:m.size / 64] do
    h := block h m (64 * i)
  let mut out : Bytes := []
  for x in h.toList.reverse do
    let v := x.toNat
    out := [v / 16777216 % 256, v / 65536 % 256, v / 256 % 256, v % 256] ++ out
  return out

end Ndn.C03.Sha
