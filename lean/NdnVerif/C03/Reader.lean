/-
  C03/Reader.lean — models of std/encoding/readers.go: BufferReader and WireReader (seg/pos over a
  list of segments), as the sum type `Rd` (WireReader.Delegate returns either kind).

  Every ParseReader operation used by the generated parsers is modelled, branch by branch, with Go
  index panics as explicit `.panic` outcomes.  The model describes readers.go AFTER the two repairs
  of this property (Range: middle segments stored at `ret[i-startSeg]`, empty range returns an empty
  wire; ReadBuf: a zero-length read at the end of the wire returns an empty buffer) — the pinned
  behaviour is kept in corpus/C03 as replays.

  Convention (documented in design/C03.md): the position API presented to the parsers (`Rd.pos`,
  `Rd.length`, `Rd.range`) is relative to the logical start of the reader.  Go's shared-wire
  delegate (`&WireReader{wire: r.wire[0:seg+1], seg: startSeg, pos: startPos, …}`) works in the
  absolute coordinates of its parent; the ghost field `base` records that constant shift, the
  underlying operations (`WireR.absPos`, `WireR.rangeAbs`, …) stay in absolute coordinates exactly
  as coded.
-/
import NdnVerif.Base.Num
namespace Ndn.C03

/-- outcome of a model operation. `err` = the Go function returned a non-nil error (kinds are not
    observable in the property), `panic` = Go run-time panic, `alloc` = allocation sized by an
    untrusted length far beyond the input (F-04a class, property C04), `oom` = out of model
    (lengths ≥ 2^62 whose `int` conversions wrap; LpPacket; AdditionalDescription). -/
inductive Res (α : Type) where
  | ok (a : α)
  | err
  | panic (msg : String)
  | alloc
  | oom
deriving Repr

@[inline] def Res.bind {α β : Type} (x : Res α) (f : α → Res β) : Res β :=
  match x with
  | .ok a => f a
  | .err => .err
  | .panic m => .panic m
  | .alloc => .alloc
  | .oom => .oom

instance : Monad Res where
  pure := Res.ok
  bind := Res.bind

@[simp] theorem Res.bind_ok {α β : Type} (a : α) (f : α → Res β) : (Res.ok a >>= f) = f a := rfl
@[simp] theorem Res.bind_err {α β : Type} (f : α → Res β) : ((Res.err : Res α) >>= f) = .err := rfl
@[simp] theorem Res.pure_eq {α : Type} (a : α) : (pure a : Res α) = .ok a := rfl

def Res.isOk {α : Type} : Res α → Bool
  | .ok _ => true
  | _ => false

/-! ### BufferReader -/

structure BufR where
  buf : Bytes
  pos : Nat
deriving Repr

namespace BufR

def rest (r : BufR) : Bytes := r.buf.drop r.pos

/-- `ReadByte` -/
def readByte (r : BufR) : Res (Nat × BufR) :=
  if r.pos ≥ r.buf.length then .err else .ok (r.buf.getD r.pos 0, { r with pos := r.pos + 1 })

/-- `ReadBuf(l)` -/
def readBuf (r : BufR) (l : Nat) : Res (Bytes × BufR) :=
  if r.pos + l > r.buf.length then .err
  else .ok ((r.buf.drop r.pos).take l, { r with pos := r.pos + l })

/-- `ReadWire(l)` (the result is compared after `Join`) -/
def readWire (r : BufR) (l : Nat) : Res (Bytes × BufR) :=
  if r.pos ≥ r.buf.length ∧ l > 0 then .err
  else if r.pos + l > r.buf.length then .err
  else .ok ((r.buf.drop r.pos).take l, { r with pos := r.pos + l })

/-- `io.ReadFull(reader, make([]byte, l))` / `io.CopyN(&builder, reader, l)` through `Read` -/
def readFull (r : BufR) (l : Nat) : Res (Bytes × BufR) :=
  if r.pos + l > r.buf.length then .err
  else .ok ((r.buf.drop r.pos).take l, { r with pos := r.pos + l })

/-- `Skip(n)` -/
def skip (r : BufR) (n : Nat) : Res BufR :=
  if r.pos + n > r.buf.length then .err else .ok { r with pos := r.pos + n }

/-- `Range(start, end)`; `nil` is the empty byte string after `Join` -/
def range (r : BufR) (s e : Nat) : Bytes :=
  if e > r.buf.length ∨ s > e then [] else (r.buf.drop s).take (e - s)

/-- `Delegate(l)`: the sub-reader and the advanced parent (not advanced when out of range) -/
def delegate (r : BufR) (l : Nat) : BufR × BufR :=
  if r.pos + l > r.buf.length then (⟨[], 0⟩, r)
  else (⟨(r.buf.drop r.pos).take l, 0⟩, { r with pos := r.pos + l })

end BufR

/-! ### WireReader -/

structure WireR where
  wire : List Bytes
  seg : Nat
  pos : Nat
  base : Nat     -- ghost: absolute offset of the logical start (never read by the operations)
deriving Repr

/-- `accSz[i]` -/
def accSz (w : List Bytes) (i : Nat) : Nat := ((w.take i).map List.length).sum

namespace WireR

def segAt (r : WireR) (i : Nat) : Bytes := r.wire.getD i []

/-- the `for r.seg < len(r.wire) && r.pos >= len(r.wire[r.seg]) { r.seg++; r.pos = 0 }` of `nextSeg` -/
def nextSegLoop : Nat → WireR → WireR
  | 0, r => r
  | fuel + 1, r =>
    if r.seg < r.wire.length ∧ r.pos ≥ (r.segAt r.seg).length then nextSegLoop fuel { r with seg := r.seg + 1, pos := 0 }
    else r

/-- `nextSeg()` -/
def nextSeg (r : WireR) : WireR × Bool :=
  let r' := nextSegLoop (r.wire.length + 1) r
  (r', r'.seg < r'.wire.length)

/-- `Pos()` (absolute) -/
def absPos (r : WireR) : Nat := r.pos + accSz r.wire r.seg

/-- `Length()` (absolute) -/
def absLength (r : WireR) : Nat := accSz r.wire r.wire.length

/-- `ReadByte` -/
def readByte (r : WireR) : Res (Nat × WireR) :=
  let (r, ok) := r.nextSeg
  if !ok then .err else .ok ((r.segAt r.seg).getD r.pos 0, { r with pos := r.pos + 1 })

/-- the copy loop shared by `ReadWire`, `ReadBuf` (multi-segment branch) and `Read`-based reads:
    gathers `l` bytes starting at (seg,pos); `none` = ran off the wire (io.ErrUnexpectedEOF) -/
def gather : Nat → WireR → Nat → Bytes → Option (Bytes × WireR)
  | _, r, 0, acc => some (acc, r)
  | 0, _, _ + 1, _ => none
  | fuel + 1, r, l + 1, acc =>
    if r.seg ≥ r.wire.length then none
    else
      let s := r.segAt r.seg
      if r.pos + (l + 1) > s.length then
        gather fuel { r with seg := r.seg + 1, pos := 0 } (l + 1 - (s.length - r.pos)) (acc ++ s.drop r.pos)
      else some (acc ++ (s.drop r.pos).take (l + 1), { r with pos := r.pos + (l + 1) })

/-- `ReadWire(l)` -/
def readWire (r : WireR) (l : Nat) : Res (Bytes × WireR) :=
  let (r, ok) := r.nextSeg
  if !ok ∧ l > 0 then .err
  else if l > r.absLength - r.absPos then .err
  else match gather (r.wire.length + 1) r l [] with
    | some x => .ok x
    | none => .err

/-- `ReadBuf(l)` (after the repairs: length guard first; `l == 0` at the end of the wire gives an
    empty buffer) -/
def readBuf (r : WireR) (l : Nat) : Res (Bytes × WireR) :=
  if l > r.absLength - r.absPos then .err else
  let (r, ok) := r.nextSeg
  if !ok then (if l > 0 then .err else .ok ([], r))
  else
    let s := r.segAt r.seg
    if r.pos + l ≤ s.length then .ok ((s.drop r.pos).take l, { r with pos := r.pos + l })
    else match gather (r.wire.length + 1) r l [] with
      | some x => .ok x
      | none => .err

/-- `io.ReadFull` / `io.CopyN` over `Read`: each `Read` copies from the current segment only -/
def readFull (r : WireR) (l : Nat) : Res (Bytes × WireR) :=
  if l = 0 then .ok ([], r)
  else
    let (r, ok) := r.nextSeg
    if !ok then .err
    else match gather (r.wire.length + 1) r l [] with
      | some x => .ok x
      | none => .err

/-- the `for r.pos > len(r.wire[r.seg])` loop of `Delegate` (unguarded index) -/
def advance : Nat → WireR → Res WireR
  | 0, _ => .err
  | fuel + 1, r =>
    if r.seg ≥ r.wire.length then .panic "index out of range (WireReader.Delegate)"
    else if r.pos > (r.segAt r.seg).length then
      let r' := { r with pos := r.pos - (r.segAt r.seg).length, seg := r.seg + 1 }
      if r'.seg ≥ r'.wire.length then .err else advance fuel r'
    else .ok r

/-- the `for r.seg < len(r.wire) && r.pos > len(r.wire[r.seg])` loop of `Skip` -/
def skipLoop : Nat → WireR → Res WireR
  | 0, _ => .err
  | fuel + 1, r =>
    if r.seg < r.wire.length ∧ r.pos > (r.segAt r.seg).length then
      let r' := { r with pos := r.pos - (r.segAt r.seg).length, seg := r.seg + 1 }
      if r'.seg ≥ r'.wire.length then .err else skipLoop fuel r'
    else .ok r

/-- `Skip(n)` -/
def skip (r : WireR) (n : Nat) : Res WireR :=
  if n > r.absLength - r.absPos then .err
  else skipLoop (r.wire.length + 1) { r with pos := r.pos + n }

/-- the scan of `Range` for the start: the last `i` with `accSz[i] ≤ start < accSz[i+1]` -/
def findStart (w : List Bytes) (start : Nat) : Nat × Nat :=
  (List.range w.length).foldl (fun acc i =>
    if accSz w i ≤ start ∧ accSz w (i + 1) > start then (i, start - accSz w i) else acc) (0, 0)

/-- the scan of `Range` for the end: the last `i` with `accSz[i] < end ≤ accSz[i+1]` -/
def findEnd (w : List Bytes) (e : Nat) : Nat × Nat :=
  (List.range w.length).foldl (fun acc i =>
    if accSz w i < e ∧ accSz w (i + 1) ≥ e then (i, e - accSz w i) else acc) (0, 0)

/-- `Range(start, end)` in absolute coordinates (after the repair), joined -/
def rangeAbs (r : WireR) (s e : Nat) : Bytes :=
  if e > r.absLength ∨ s > e then []
  else if s = e then []
  else
    let (ss, sp) := findStart r.wire s
    let (es, ep) := findEnd r.wire e
    if ss = es then ((r.segAt ss).drop sp).take (ep - sp)
    else (r.segAt ss).drop sp ++ (((r.wire.drop (ss + 1)).take (es - ss - 1)).flatten) ++ (r.segAt es).take ep

end WireR

/-! ### the reader handed to a parser -/

inductive Rd where
  | buf (b : BufR)
  | wire (w : WireR)
deriving Repr

namespace WireR

/-- `Delegate(l)` -/
def delegate (r : WireR) (l : Nat) : Res (Rd × WireR) :=
  if r.seg ≥ r.wire.length ∨ l > r.absLength - r.absPos then .ok (.buf ⟨[], 0⟩, r)
  else
    let s := r.segAt r.seg
    if r.pos + l ≤ s.length then
      .ok (.buf ⟨(s.drop r.pos).take l, 0⟩, { r with pos := r.pos + l })
    else
      let startSeg := r.seg
      let startPos := r.pos
      -- the advance loop, returning an empty BufferReader when it runs off the wire
      match advance (r.wire.length + 1) { r with pos := r.pos + l } with
      | .err =>
        -- Go leaves the parent at seg = len(wire); only Pos() ≥ Length() is observable afterwards
        .ok (.buf ⟨[], 0⟩, { r with seg := r.wire.length, pos := 0 })
      | .ok r' =>
        if r'.pos = (r'.segAt r'.seg).length then
          .ok (.wire { wire := r'.wire.take (r'.seg + 1), seg := startSeg, pos := startPos,
                       base := startPos + accSz r.wire startSeg }, r')
        else
          let nw := (r'.wire.drop startSeg).take (r'.seg + 1 - startSeg)
          let nw := match nw with
            | [] => []
            | h :: t => h.drop startPos :: t
          let nw := nw.take (nw.length - 1) ++ [(nw.getD (nw.length - 1) []).take r'.pos]
          .ok (.wire { wire := nw, seg := 0, pos := 0, base := 0 }, r')
      | .panic m => .panic m
      | .alloc => .alloc
      | .oom => .oom

end WireR

def newWireReader (w : List Bytes) : Rd := .wire { wire := w, seg := 0, pos := 0, base := 0 }
def newBufferReader (b : Bytes) : Rd := .buf ⟨b, 0⟩

namespace Rd

def pos : Rd → Nat
  | .buf b => b.pos
  | .wire w => w.absPos - w.base

def length : Rd → Nat
  | .buf b => b.buf.length
  | .wire w => w.absLength - w.base

def readByte : Rd → Res (Nat × Rd)
  | .buf b => do let (x, b) ← b.readByte; pure (x, .buf b)
  | .wire w => do let (x, w) ← w.readByte; pure (x, .wire w)

def readBuf : Rd → Nat → Res (Bytes × Rd)
  | .buf b, l => do let (x, b) ← b.readBuf l; pure (x, .buf b)
  | .wire w, l => do let (x, w) ← w.readBuf l; pure (x, .wire w)

def readWire : Rd → Nat → Res (Bytes × Rd)
  | .buf b, l => do let (x, b) ← b.readWire l; pure (x, .buf b)
  | .wire w, l => do let (x, w) ← w.readWire l; pure (x, .wire w)

def readFull : Rd → Nat → Res (Bytes × Rd)
  | .buf b, l => do let (x, b) ← b.readFull l; pure (x, .buf b)
  | .wire w, l => do let (x, w) ← w.readFull l; pure (x, .wire w)

def skip : Rd → Nat → Res Rd
  | .buf b, n => do let b ← b.skip n; pure (.buf b)
  | .wire w, n => do let w ← w.skip n; pure (.wire w)

def range : Rd → Nat → Nat → Bytes
  | .buf b, s, e => b.range s e
  | .wire w, s, e => w.rangeAbs (s + w.base) (e + w.base)

/-- `Delegate(l)`: (sub-reader, advanced parent) -/
def delegate : Rd → Nat → Res (Rd × Rd)
  | .buf b, l => let (s, b) := b.delegate l; .ok (.buf s, .buf b)
  | .wire w, l => do let (s, w) ← w.delegate l; pure (s, .wire w)

/-- the bytes still to be read (abstraction function of the refinement) -/
def rest : Rd → Bytes
  | .buf b => b.rest
  | .wire w => (w.wire.flatten).drop w.absPos

end Rd

end Ndn.C03
