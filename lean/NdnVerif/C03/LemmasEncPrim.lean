/-
  C03/LemmasEncPrim.lean — ShrinkLength, the signature-length patch and the digest patch on buffers
  of the shape the encoder produces.
-/
import NdnVerif.C03.LemmasEncLen
namespace Ndn.C03

theorem parseTLNum_encTL_enc (x : Nat) (hx : x < 2 ^ 64) (rest : Bytes) :
    parseTLNum (encTL x ++ rest) = .ok (x, tlLen x) := by
  unfold parseTLNum
  rw [decTL_encTL x hx rest]
  simp [encTL_length]

theorem shrinkLength_of_parse_enc (buf : Bytes) (s typ s1 l s2 : Nat)
    (h1 : parseTLNum buf = .ok (typ, s1)) (h2 : parseTLNum (buf.drop s1) = .ok (l, s2)) :
    shrinkLength buf s =
      if tlLen ((l + u64 - s % u64) % u64) = s2 then
        .ok (buf.take s1 ++ encTL ((l + u64 - s % u64) % u64) ++ buf.drop (s1 + s2))
      else if tlLen ((l + u64 - s % u64) % u64) > s2 ∨ tlLen typ ≠ s1 then .oom
      else .ok (encTL typ ++ encTL ((l + u64 - s % u64) % u64) ++ buf.drop (s1 + s2)) := by
  unfold shrinkLength
  rw [h1, Res.bind_ok]
  dsimp only
  rw [h2, Res.bind_ok]
  dsimp only
  rfl

/-- `ShrinkLength` on a buffer that starts with a one-byte type and a length `L < 2^62` -/
theorem shrinkLength_spec (t L s : Nat) (rest : Bytes) (ht : t ≤ 252) (hL : L < 2 ^ 62) (hs : s ≤ L) :
    shrinkLength (encTL t ++ encTL L ++ rest) s = .ok (encTL t ++ encTL (L - s) ++ rest) := by
  have h1 : parseTLNum (encTL t ++ encTL L ++ rest) = .ok (t, 1) := by
    rw [List.append_assoc, parseTLNum_encTL_enc t (by omega), tlLen_small_enc ht]
  have hd : (encTL t ++ encTL L ++ rest).drop 1 = encTL L ++ rest := by
    rw [encTL_small_enc ht]; simp
  have h2 : parseTLNum (encTL L ++ rest) = .ok (L, tlLen L) := parseTLNum_encTL_enc L (by omega) rest
  have hnew : (L + u64 - s % u64) % u64 = L - s := by
    have hM : L < u64 := by
      have : (2:Nat) ^ 62 ≤ 2 ^ 64 := Nat.pow_le_pow_right (by omega) (by omega)
      unfold u64; omega
    generalize u64 = M at hM
    rw [Nat.mod_eq_of_lt (by omega : s < M)]
    have : L + M - s = (L - s) + M := by omega
    rw [this, Nat.add_mod_right, Nat.mod_eq_of_lt (by omega)]
  have hmono : tlLen (L - s) ≤ tlLen L := tlLen_mono_enc (by omega)
  have htk : (encTL t ++ encTL L ++ rest).take 1 = encTL t := by
    rw [encTL_small_enc ht]; simp
  have hdr : (encTL t ++ encTL L ++ rest).drop (1 + tlLen L) = rest := by
    rw [List.append_assoc, ← List.drop_drop]
    rw [encTL_small_enc ht]
    simp only [List.cons_append, List.nil_append, List.drop_succ_cons, List.drop_zero]
    rw [List.drop_left' (encTL_length L)]
  rw [← hd] at h2
  rw [shrinkLength_of_parse_enc _ s t 1 L (tlLen L) h1 h2, hnew, htk, hdr, tlLen_small_enc ht]
  split
  · rfl
  · rw [if_neg (by omega)]

theorem fixSigLenBuf_app_enc (b : Bytes) (est n : Nat) :
    fixSigLenBuf (b ++ encTL est) est n = b ++ encTL n := by
  unfold fixSigLenBuf
  simp [encTL_length]

/-- the signature patch on a wire whose last two segments are `b ++ encTL est` and the slot -/
theorem patchSig_app_enc (pre : List Bytes) (b slot : Bytes) (est : Nat) (sv : Bytes) :
    patchSig (pre ++ [b ++ encTL est, slot]) (pre.length + 1) est sv
      = pre ++ [b ++ encTL sv.length, sv] := by
  unfold patchSig
  simp [fixSigLenBuf_app_enc]

end Ndn.C03
