/-
  C03/LemmasWf.lean — the encoder's normal-form output is a well-formed TLV structure according to
  the independent walker of Spec.lean (`Spec.walk`, `Spec.wfData`, `Spec.wfInterest`).

  Structure: (1) the walker peels one shortest-form TLV (`walk_peel`), hence on a concatenation of
  encoded (type, value) pairs it returns exactly that list (`tlvs_encTVs`); (2) every sub-encoder
  of Model.lean is such a concatenation (`encMeta_eq`, `encSigInfo_eq`, …); (3) the `wf…`
  predicates become finite checks on the list of pairs.
-/
import NdnVerif.C03.LemmasDefs
namespace Ndn.C03
open Spec

/-! ### (type, value) pairs and their encoding -/

abbrev TV := Nat × Bytes

def encTV (p : TV) : Bytes := encTL p.1 ++ encTL p.2.length ++ p.2
def encTVs (l : List TV) : Bytes := l.flatMap encTV
def TVok (p : TV) : Prop := p.1 < 2 ^ 64 ∧ p.2.length < 2 ^ 64

/-- what the walker returns on `encTVs l` started at offset `off` -/
def mkTlvs : Nat → List TV → List Tlv
  | _, [] => []
  | off, p :: l =>
    ⟨p.1, p.2, off, tlLen p.1 + tlLen p.2.length⟩ ::
      mkTlvs (off + (tlLen p.1 + tlLen p.2.length) + p.2.length) l

def optL {α : Type} (o : Option α) (f : α → TV) : List TV :=
  match o with | none => [] | some a => [f a]

@[simp] theorem encTVs_nil : encTVs [] = [] := rfl
@[simp] theorem encTVs_cons (p : TV) (l : List TV) : encTVs (p :: l) = encTV p ++ encTVs l := rfl
theorem encTVs_append (a b : List TV) : encTVs (a ++ b) = encTVs a ++ encTVs b := by
  simp [encTVs]
theorem encTVs_single (p : TV) : encTVs [p] = encTV p := by simp [encTVs]

theorem tlLen_pos_wf (x : Nat) : 0 < tlLen x := by
  unfold tlLen; repeat' split
  all_goals omega

theorem tlLen_le_wf (x : Nat) : tlLen x ≤ 9 := by
  unfold tlLen; repeat' split
  all_goals omega

theorem encTV_length (p : TV) : (encTV p).length = tlLen p.1 + tlLen p.2.length + p.2.length := by
  simp [encTV, encTL_length]; omega

theorem length_le_encTVs (l : List TV) : l.length ≤ (encTVs l).length := by
  induction l with
  | nil => simp
  | cons p l ih =>
    have := tlLen_pos_wf p.1
    simp [encTV_length]; omega

theorem minimalTL_encTL (x : Nat) (rest : Bytes) : minimalTL (encTL x ++ rest) x = true := by
  unfold minimalTL
  have : (encTL x ++ rest).take (tlLen x) = encTL x := by
    rw [← encTL_length x]; simp
  rw [this]; simp

theorem encTL_ne_nil_wf (x : Nat) : encTL x ≠ [] := by
  intro h
  have := encTL_length x
  have := tlLen_pos_wf x
  rw [h] at *; simp at *; omega

/-- the walker peels one shortest-form TLV -/
theorem walk_peel (fuel off t : Nat) (v rest : Bytes) (ht : t < 2 ^ 64) (hv : v.length < 2 ^ 64) :
    walk (fuel + 1) off (encTL t ++ encTL v.length ++ v ++ rest)
      = (walk fuel (off + (tlLen t + tlLen v.length) + v.length) rest).map
          (⟨t, v, off, tlLen t + tlLen v.length⟩ :: ·) := by
  have hne : ∃ x b', encTL t ++ encTL v.length ++ v ++ rest = x :: b' := by
    cases h : encTL t with
    | nil => exact absurd h (encTL_ne_nil_wf t)
    | cons x b' => exact ⟨x, b' ++ (encTL v.length ++ (v ++ rest)), by simp⟩
  obtain ⟨x, b', hb⟩ := hne
  have h1 : decTL (x :: b') = some (t, encTL v.length ++ v ++ rest) := by
    rw [← hb]
    have := decTL_encTL t ht (encTL v.length ++ v ++ rest)
    simpa [List.append_assoc] using this
  have h2 : decTL (encTL v.length ++ v ++ rest) = some (v.length, v ++ rest) := by
    have := decTL_encTL v.length hv (v ++ rest)
    simpa [List.append_assoc] using this
  have m1 : minimalTL (x :: b') t = true := by
    rw [← hb]
    have := minimalTL_encTL t (encTL v.length ++ v ++ rest)
    simpa [List.append_assoc] using this
  have m2 : minimalTL (encTL v.length ++ v ++ rest) v.length = true := by
    have := minimalTL_encTL v.length (v ++ rest)
    simpa [List.append_assoc] using this
  have hl : (x :: b').length - (v ++ rest).length = tlLen t + tlLen v.length := by
    rw [← hb]; simp [encTL_length]; omega
  rw [hb]
  simp only [walk, h1, h2, m1, m2]
  simp only [hl]
  simp
  cases walk fuel (off + (tlLen t + tlLen v.length) + v.length) rest <;> simp

theorem walk_encTVs (l : List TV) : ∀ (fuel off : Nat), l.length ≤ fuel → (∀ p ∈ l, TVok p) →
    walk fuel off (encTVs l) = some (mkTlvs off l) := by
  induction l with
  | nil => intro fuel off _ _; cases fuel <;> simp [walk, mkTlvs]
  | cons p l ih =>
    intro fuel off hf hok
    cases fuel with
    | zero => simp at hf
    | succ fuel =>
      have hp := hok p (by simp)
      have := walk_peel fuel off p.1 p.2 (encTVs l) hp.1 hp.2
      simp only [encTVs_cons, encTV]
      rw [this, ih fuel _ (by simpa using hf) (fun q hq => hok q (by simp [hq]))]
      simp [mkTlvs]

theorem tlvs_encTVs (l : List TV) (hok : ∀ p ∈ l, TVok p) : tlvs (encTVs l) = some (mkTlvs 0 l) := by
  unfold tlvs
  exact walk_encTVs l _ 0 (by have := length_le_encTVs l; omega) hok

/-! ### facts about `mkTlvs` (the walker's output only matters through types and values) -/

theorem all_mkTlvs (f : Tlv → Bool) (l : List TV) :
    ∀ off, (∀ p ∈ l, ∀ o h, f ⟨p.1, p.2, o, h⟩ = true) → (mkTlvs off l).all f = true := by
  induction l with
  | nil => intro off _; simp [mkTlvs]
  | cons p l ih =>
    intro off h
    simp only [mkTlvs, List.all_cons, Bool.and_eq_true]
    exact ⟨h p (by simp) _ _, ih _ (fun q hq => h q (by simp [hq]))⟩

theorem map_typ_mkTlvs (l : List TV) : ∀ off, (mkTlvs off l).map (·.typ) = l.map (·.1) := by
  induction l with
  | nil => intro off; simp [mkTlvs]
  | cons p l ih => intro off; simp [mkTlvs, ih]

theorem head_typ_mkTlvs (l : List TV) (off : Nat) :
    (mkTlvs off l).head?.map (·.typ) = l.head?.map (·.1) := by
  cases l <;> simp [mkTlvs]

theorem inOrder_of_sublist (o : List Nat) : ∀ l : List Nat, l.Sublist o → inOrder l o = true := by
  induction o with
  | nil => intro l h; simp at h; subst h; simp [inOrder]
  | cons a o ih =>
    intro l h
    cases l with
    | nil => simp [inOrder]
    | cons t ts =>
      simp only [inOrder]
      split
      · rename_i hta
        subst hta
        apply ih
        cases h with
        | cons _ h => exact (List.sublist_cons_self t ts).trans h
        | cons_cons _ h => exact h
      · rename_i hta
        apply ih
        cases h with
        | cons _ h => exact h
        | cons_cons _ h => exact absurd rfl hta

/-! ### the generated field encoders are (type, value) pairs -/

@[simp] theorem mem_optL {α : Type} (o : Option α) (f : α → TV) (p : TV) :
    p ∈ optL o f ↔ ∃ a, o = some a ∧ p = f a := by
  cases o <;> simp [optL]

theorem optB_eq_encTVs {α : Type} (o : Option α) (f : α → Bytes) (g : α → TV)
    (h : ∀ a, f a = encTV (g a)) : optB o f = encTVs (optL o g) := by
  cases o <;> simp [optB, optL, h]

theorem natLen_cases (x : Nat) : natLen x = 1 ∨ natLen x = 2 ∨ natLen x = 4 ∨ natLen x = 8 := by
  unfold natLen; repeat' split
  all_goals simp

theorem natLenOk_be (x : Nat) : natLenOk (be (natLen x) x) = true := by
  have := natLen_cases x
  simp [natLenOk]; omega

theorem encTL_small_wf (x : Nat) (h : x ≤ 0xfc) : encTL x = [x] := by simp [encTL, h]

theorem encNatField_eq_wf (t x : Nat) : encNatField t x = encTV (t, be (natLen x) x) := by
  have := natLen_cases x
  have h : encTL (natLen x) = [natLen x] := encTL_small_wf _ (by omega)
  simp [encNatField, encTV, h]

theorem encBinField_eq_wf (t : Nat) (v : Bytes) : encBinField t v = encTV (t, v) := rfl

theorem encNameField_eq_wf (E : EncSpecs) (t : Nat) (n : Name) :
    encNameField t n = encTV (t, encNameInner n) := by
  simp [encNameField, encTV, E.nameLen_eq]

/-! ### names -/

def nameTVs (n : Name) : List TV := n.map (fun c => (c.typ, c.val))

theorem encNameInner_eq (n : Name) : encNameInner n = encTVs (nameTVs n) := by
  induction n with
  | nil => rfl
  | cons c n ih =>
    have : encNameInner (c :: n) = encComp c ++ encNameInner n := by simp [encNameInner]
    rw [this, ih]; simp [nameTVs, encTV, encComp]

theorem sum_map_ge {α : Type} (f : α → Nat) (l : List α) (a : α) (h : a ∈ l) : f a ≤ (l.map f).sum := by
  induction l with
  | nil => simp at h
  | cons b l ih =>
    simp only [List.map_cons, List.sum_cons]
    rcases List.mem_cons.mp h with rfl | h
    · omega
    · have := ih h; omega

theorem compLen_le_nameLen (n : Name) (c : Component) (h : c ∈ n) : compLen c ≤ nameLen n :=
  sum_map_ge compLen n c h

theorem nameTVs_ok (n : Name) (hv : NameValid n) (hl : nameLen n < 2 ^ 64) : ∀ p ∈ nameTVs n, TVok p := by
  intro p hp
  simp only [nameTVs, List.mem_map] at hp
  obtain ⟨c, hc, rfl⟩ := hp
  have := compLen_le_nameLen n c hc
  unfold compLen at this
  exact ⟨hv c hc, by simp only; omega⟩

/-- the components of a valid name form a well-formed TLV sequence -/
theorem wfName_encNameInner (n : Name) (hv : NameValid n) (hl : nameLen n < 2 ^ 64) :
    wfName (encNameInner n) = true := by
  simp [wfName, encNameInner_eq, tlvs_encTVs _ (nameTVs_ok n hv hl)]

/-! ### MetaInfo -/

def metaTVs (m : MetaInfo) : List TV :=
  optL m.ct (fun x => (24, be (natLen x) x)) ++ optL m.fresh (fun x => (25, be (natLen x) x))
    ++ optL m.fb (fun v => (26, v))

theorem encMeta_eq (m : MetaInfo) : encMeta m = encTVs (metaTVs m) := by
  simp only [encMeta, metaTVs, encTVs_append]
  rw [optB_eq_encTVs m.ct _ _ (encNatField_eq_wf 24), optB_eq_encTVs m.fresh _ _ (encNatField_eq_wf 25),
    optB_eq_encTVs m.fb _ _ (encBinField_eq_wf 26)]

theorem TVok_mk (t : Nat) (v : Bytes) (ht : t < 2 ^ 64) (hv : v.length < 2 ^ 64) : TVok (t, v) := ⟨ht, hv⟩

theorem metaTVs_ok (m : MetaInfo) (hl : metaLen m < 2 ^ 64) : ∀ p ∈ metaTVs m, TVok p := by
  intro p hp
  simp only [metaTVs, List.mem_append, mem_optL] at hp
  rcases hp with (⟨x, hx, rfl⟩ | ⟨x, hx, rfl⟩) | ⟨v, hv, rfl⟩
  · have := natLen_cases x
    exact TVok_mk _ _ (by decide) (by simp only [be_length]; omega)
  · have := natLen_cases x
    exact TVok_mk _ _ (by decide) (by simp only [be_length]; omega)
  · simp only [metaLen, hv, optN, binFieldLen] at hl
    exact TVok_mk _ _ (by decide) (by omega)

theorem wfMetaInfo_encMeta (m : MetaInfo) (hl : metaLen m < 2 ^ 64) : wfMetaInfo (encMeta m) = true := by
  simp only [wfMetaInfo, encMeta_eq, tlvs_encTVs _ (metaTVs_ok m hl)]
  apply all_mkTlvs
  intro p hp o h
  simp only [metaTVs, List.mem_append, mem_optL] at hp
  rcases hp with (⟨x, hx, rfl⟩ | ⟨x, hx, rfl⟩) | ⟨v, hv, rfl⟩
  · simp [natLenOk_be]
  · simp [natLenOk_be]
  · simp

/-! ### KeyLocator -/

def keyLocTVs (k : KeyLoc) : List TV :=
  optL k.name (fun n => (7, encNameInner n)) ++ optL k.digest (fun v => (29, v))

theorem encKeyLoc_eq (E : EncSpecs) (k : KeyLoc) : encKeyLoc k = encTVs (keyLocTVs k) := by
  simp only [encKeyLoc, keyLocTVs, encTVs_append]
  rw [optB_eq_encTVs k.name _ _ (encNameField_eq_wf E 7), optB_eq_encTVs k.digest _ _ (encBinField_eq_wf 29)]

theorem keyLocTVs_ok (E : EncSpecs) (k : KeyLoc) (hl : keyLocLen k < 2 ^ 64) : ∀ p ∈ keyLocTVs k, TVok p := by
  intro p hp
  simp only [keyLocTVs, List.mem_append, mem_optL] at hp
  rcases hp with ⟨n, hn, rfl⟩ | ⟨v, hv, rfl⟩
  · simp only [keyLocLen, hn, optN, nameFieldLen] at hl
    exact TVok_mk _ _ (by decide) (by rw [E.nameLen_eq]; omega)
  · simp only [keyLocLen, hv, optN, binFieldLen] at hl
    exact TVok_mk _ _ (by decide) (by omega)

theorem wfKeyLocator_encKeyLoc (E : EncSpecs) (k : KeyLoc) (hn : ∀ n, k.name = some n → NameValid n)
    (hl : keyLocLen k < 2 ^ 64) : wfKeyLocator (encKeyLoc k) = true := by
  simp only [wfKeyLocator, encKeyLoc_eq E, tlvs_encTVs _ (keyLocTVs_ok E k hl)]
  apply all_mkTlvs
  intro p hp o h
  simp only [keyLocTVs, List.mem_append, mem_optL] at hp
  rcases hp with ⟨n, hn', rfl⟩ | ⟨v, hv, rfl⟩
  · simp only [keyLocLen, hn', optN, nameFieldLen] at hl
    simp [wfName_encNameInner n (hn n hn') (by omega)]
  · simp

/-! ### ValidityPeriod -/

def validityTVs (v : Bytes × Bytes) : List TV := [(254, v.1), (255, v.2)]

theorem encValidity_eq (v : Bytes × Bytes) : encValidity v = encTVs (validityTVs v) := by
  simp [encValidity, validityTVs, encBinField_eq_wf]

theorem encValidity_length_wf (v : Bytes × Bytes) : (encValidity v).length = validityLen v := by
  simp [encValidity, validityLen, encBinField, binFieldLen, encTL_length]; omega

theorem validityTVs_ok (v : Bytes × Bytes) (hl : validityLen v < 2 ^ 64) : ∀ p ∈ validityTVs v, TVok p := by
  intro p hp
  simp only [validityLen, binFieldLen] at hl
  simp only [validityTVs, List.mem_cons, List.not_mem_nil, or_false] at hp
  rcases hp with rfl | rfl
  · exact TVok_mk _ _ (by decide) (by omega)
  · exact TVok_mk _ _ (by decide) (by omega)

/-! ### SignatureInfo -/

def sigTVs (s : SigInfo) : List TV :=
  [(27, be (natLen s.typ) s.typ)] ++ optL s.keyLoc (fun k => (28, encKeyLoc k))
    ++ optL s.nonce (fun v => (38, v)) ++ optL s.time (fun x => (40, be (natLen x) x))
    ++ optL s.seq (fun x => (42, be (natLen x) x)) ++ optL s.validity (fun v => (253, encValidity v))

theorem encSigInfo_eq (E : EncSpecs) (s : SigInfo) : encSigInfo s = encTVs (sigTVs s) := by
  simp only [encSigInfo, sigTVs, encTVs_append, encTVs_single]
  rw [optB_eq_encTVs s.keyLoc _ (fun k => (28, encKeyLoc k)) (by intro k; simp [encTV, E.keyLocLen_eq]),
    optB_eq_encTVs s.nonce _ _ (encBinField_eq_wf 38),
    optB_eq_encTVs s.time _ _ (encNatField_eq_wf 40), optB_eq_encTVs s.seq _ _ (encNatField_eq_wf 42),
    optB_eq_encTVs s.validity _ (fun v => (253, encValidity v)) (by intro v; simp [encTV, encValidity_length_wf]),
    encNatField_eq_wf]

theorem sigTVs_ok (E : EncSpecs) (s : SigInfo) (hl : sigInfoLen s < 2 ^ 64) : ∀ p ∈ sigTVs s, TVok p := by
  intro p hp
  simp only [sigTVs, List.mem_append, mem_optL, List.mem_cons, List.not_mem_nil, or_false] at hp
  rcases hp with ((((rfl | ⟨k, hk, rfl⟩) | ⟨v, hv, rfl⟩) | ⟨x, hx, rfl⟩) | ⟨x, hx, rfl⟩) | ⟨v, hv, rfl⟩
  · have := natLen_cases s.typ
    exact TVok_mk _ _ (by decide) (by simp only [be_length]; omega)
  · simp only [sigInfoLen, hk, optN] at hl
    exact TVok_mk _ _ (by decide) (by rw [E.keyLocLen_eq]; omega)
  · simp only [sigInfoLen, hv, optN, binFieldLen] at hl
    exact TVok_mk _ _ (by decide) (by omega)
  · have := natLen_cases x
    exact TVok_mk _ _ (by decide) (by simp only [be_length]; omega)
  · have := natLen_cases x
    exact TVok_mk _ _ (by decide) (by simp only [be_length]; omega)
  · simp only [sigInfoLen, hv, optN] at hl
    exact TVok_mk _ _ (by decide) (by rw [encValidity_length_wf]; omega)

theorem wfSigInfo_encSigInfo (E : EncSpecs) (s : SigInfo) (hv : SigInfoValid s) (hl : sigInfoLen s < 2 ^ 64) :
    wfSigInfo (encSigInfo s) = true := by
  simp only [wfSigInfo, encSigInfo_eq E, tlvs_encTVs _ (sigTVs_ok E s hl), Bool.and_eq_true]
  refine ⟨by simp [sigTVs, mkTlvs], ?_⟩
  apply all_mkTlvs
  intro p hp o h
  simp only [sigTVs, List.mem_append, mem_optL, List.mem_cons, List.not_mem_nil, or_false] at hp
  rcases hp with ((((rfl | ⟨k, hk, rfl⟩) | ⟨v, hv', rfl⟩) | ⟨x, hx, rfl⟩) | ⟨x, hx, rfl⟩) | ⟨v, hv', rfl⟩
  · simp [natLenOk_be]
  · simp only [sigInfoLen, hk, optN] at hl
    simp [wfKeyLocator_encKeyLoc E k (hv.2.2.1 k hk) (by omega)]
  · simp
  · simp [natLenOk_be]
  · simp [natLenOk_be]
  · simp only [sigInfoLen, hv', optN] at hl
    simp [encValidity_eq, tlvs_encTVs _ (validityTVs_ok v (by omega))]

/-! ### Links (ForwardingHint) -/

def linksTVs (ns : List Name) : List TV := ns.map (fun n => (7, encNameInner n))

theorem encLinks_eq (E : EncSpecs) (ns : List Name) : encLinks ns = encTVs (linksTVs ns) := by
  induction ns with
  | nil => rfl
  | cons n ns ih =>
    have : encLinks (n :: ns) = encNameField 7 n ++ encLinks ns := by simp [encLinks]
    rw [this, ih, encNameField_eq_wf E]; simp [linksTVs]

theorem nameLen_le_linksLen (ns : List Name) (n : Name) (h : n ∈ ns) : nameLen n ≤ linksLen ns := by
  have := sum_map_ge (nameFieldLen 7) ns n h
  unfold nameFieldLen at this
  unfold linksLen nameFieldLen; omega

theorem linksTVs_ok (E : EncSpecs) (ns : List Name) (hl : linksLen ns < 2 ^ 64) : ∀ p ∈ linksTVs ns, TVok p := by
  intro p hp
  simp only [linksTVs, List.mem_map] at hp
  obtain ⟨n, hn, rfl⟩ := hp
  have := nameLen_le_linksLen ns n hn
  exact TVok_mk _ _ (by decide) (by rw [E.nameLen_eq]; omega)

theorem wfLinks_encLinks (E : EncSpecs) (ns : List Name) (hv : ∀ n ∈ ns, NameValid n)
    (hl : linksLen ns < 2 ^ 64) : wfLinks (encLinks ns) = true := by
  simp only [wfLinks, encLinks_eq E, tlvs_encTVs _ (linksTVs_ok E ns hl)]
  apply all_mkTlvs
  intro p hp o h
  simp only [linksTVs, List.mem_map] at hp
  obtain ⟨n, hn, rfl⟩ := hp
  have := nameLen_le_linksLen ns n hn
  simp [wfName_encNameInner n (hv n hn) (by omega)]

/-! ### Data -/

/-- reduction of `wfData` on a normal-form packet to finite checks on the list of pairs -/
theorem wfData_of (V : Bytes) (l : List TV) (hV : V = encTVs l) (hlen : V.length < 2 ^ 64)
    (hok : ∀ p ∈ l, TVok p)
    (hord : inOrder (l.map (·.1)) [7, 20, 21, 22, 23] = true) (hhead : l.head?.map (·.1) = some 7)
    (hall : ∀ p ∈ l, (if p.1 = 7 then wfName p.2 else if p.1 = 20 then wfMetaInfo p.2
        else if p.1 = 22 then wfSigInfo p.2 else true) = true) :
    wfData (encTL 6 ++ encTL V.length ++ V) = true := by
  have h1 : encTL 6 ++ encTL V.length ++ V = encTVs [(6, V)] := by simp [encTV]
  have hok1 : ∀ p ∈ [((6 : Nat), V)], TVok p := by
    intro p hp; simp only [List.mem_cons, List.not_mem_nil, or_false] at hp; subst hp
    exact TVok_mk _ _ (by decide) hlen
  rw [h1]
  unfold wfData
  rw [tlvs_encTVs _ hok1]
  simp only [mkTlvs]
  rw [hV, tlvs_encTVs _ hok]
  simp only [map_typ_mkTlvs, head_typ_mkTlvs, hord, hhead, Bool.and_eq_true, decide_eq_true_eq, true_and]
  refine ⟨by simp, ?_⟩
  apply all_mkTlvs
  intro p hp o h
  exact hall p hp

def dataTVs (d : DataIn) (sv : Bytes) : List TV :=
  [(7, encNameInner d.name), (20, encMeta d.mi)] ++ optL d.content (fun c => (21, c.flatten))
    ++ optL d.si (fun s => (22, encSigInfo s)) ++ (if d.est > 0 then [(23, sv)] else [])

theorem contentLen_eq_wf (c : List Bytes) : contentLen c = c.flatten.length := by
  simp [contentLen, List.length_flatten]

theorem dataValue_eq (E : EncSpecs) (d : DataIn) (sv : Bytes) : dataValue d sv = encTVs (dataTVs d sv) := by
  simp only [dataValue, dataTVs, encTVs_append, dataHead]
  rw [optB_eq_encTVs d.content _ (fun c => (21, c.flatten)) (by intro c; simp [encTV, contentLen_eq_wf]),
    optB_eq_encTVs d.si _ (fun s => (22, encSigInfo s)) (by intro s; simp [encTV, E.sigInfoLen_eq]),
    encNameField_eq_wf E]
  have : encTL 20 ++ encTL (metaLen d.mi) ++ encMeta d.mi = encTV (20, encMeta d.mi) := by
    simp [encTV, E.metaLen_eq]
  rw [this]
  split <;> simp [encTV]

/-- the length facts contained in `DataIn.Valid` -/
theorem data_bounds (d : DataIn) (sv : Bytes) (hv : d.Valid) (hsv : sv.length ≤ d.est) :
    nameLen d.name < 2 ^ 62 ∧ metaLen d.mi < 2 ^ 62
    ∧ (∀ c, d.content = some c → contentLen c < 2 ^ 62)
    ∧ (∀ s, d.si = some s → sigInfoLen s < 2 ^ 62)
    ∧ (d.est > 0 → sv.length < 2 ^ 62) := by
  have h := hv.2.2.2
  simp only [dataLen, nameFieldLen] at h
  refine ⟨by omega, by omega, ?_, ?_, ?_⟩
  · intro c hc; simp only [hc, optN] at h; omega
  · intro s hs; simp only [hs, optN] at h; omega
  · intro he; simp only [sigTLLen, he, if_true] at h; omega

theorem dataTVs_ok (E : EncSpecs) (d : DataIn) (sv : Bytes) (hv : d.Valid) (hsv : sv.length ≤ d.est) :
    ∀ p ∈ dataTVs d sv, TVok p := by
  obtain ⟨b1, b2, b3, b4, b5⟩ := data_bounds d sv hv hsv
  intro p hp
  simp only [dataTVs, List.mem_append, mem_optL, List.mem_cons, List.not_mem_nil, or_false] at hp
  rcases hp with (((rfl | rfl) | ⟨c, hc, rfl⟩) | ⟨s, hs, rfl⟩) | hp
  · exact TVok_mk _ _ (by decide) (by rw [E.nameLen_eq]; omega)
  · exact TVok_mk _ _ (by decide) (by rw [E.metaLen_eq]; omega)
  · have := b3 c hc
    exact TVok_mk _ _ (by decide) (by rw [← contentLen_eq_wf]; omega)
  · have := b4 s hs
    exact TVok_mk _ _ (by decide) (by rw [E.sigInfoLen_eq]; omega)
  · split at hp
    · rename_i he
      simp only [List.mem_cons, List.not_mem_nil, or_false] at hp; subst hp
      have := b5 he
      exact TVok_mk _ _ (by decide) (by omega)
    · simp at hp

theorem encTVs_length_le (l : List TV) : (encTVs l).length ≤ (l.map (fun p => 18 + p.2.length)).sum := by
  induction l with
  | nil => simp
  | cons p l ih =>
    have := tlLen_le_wf p.1
    have := tlLen_le_wf p.2.length
    simp only [encTVs_cons, List.length_append, encTV_length, List.map_cons, List.sum_cons]
    omega

theorem sum_optL_le {α : Type} (o : Option α) (f : α → TV) (g : α → Nat)
    (h : ∀ a, (f a).2.length = g a) :
    ((optL o f).map (fun p => 18 + p.2.length)).sum ≤ 18 + optN o g := by
  cases o with
  | none => simp [optL]
  | some a => have := h a; simp [optL, optN]; omega

theorem optN_mono {α : Type} (o : Option α) (f g : α → Nat) (h : ∀ a, f a ≤ g a) : optN o f ≤ optN o g := by
  cases o with
  | none => simp [optN]
  | some a => exact h a

theorem data_total (d : DataIn) (sv : Bytes) (hv : d.Valid) (hsv : sv.length ≤ d.est) :
    nameLen d.name + metaLen d.mi + optN d.content contentLen + optN d.si sigInfoLen
      + (if d.est > 0 then sv.length else 0) + 16 < 2 ^ 62 := by
  have h := hv.2.2.2
  simp only [dataLen, nameFieldLen] at h
  have h3 := optN_mono d.content contentLen (fun c => 1 + tlLen (contentLen c) + contentLen c) (by intro c; omega)
  have h4 := optN_mono d.si sigInfoLen (fun s => 1 + tlLen (sigInfoLen s) + sigInfoLen s) (by intro c; omega)
  have h5 : (if d.est > 0 then sv.length else 0) ≤ sigTLLen 23 d.est := by
    unfold sigTLLen; split <;> omega
  omega

theorem dataValue_length_lt (E : EncSpecs) (d : DataIn) (sv : Bytes) (hv : d.Valid) (hsv : sv.length ≤ d.est) :
    (dataValue d sv).length < 2 ^ 64 := by
  have ht := data_total d sv hv hsv
  have h := encTVs_length_le (dataTVs d sv)
  rw [← dataValue_eq E] at h
  have h3 := sum_optL_le d.content (fun c => (21, c.flatten)) contentLen (by intro c; simp [contentLen_eq_wf])
  have h4 := sum_optL_le d.si (fun s => (22, encSigInfo s)) sigInfoLen (by intro s; simp [E.sigInfoLen_eq])
  by_cases he : d.est > 0
  · simp only [dataTVs, he, if_true, List.map_append, List.sum_append, List.map_cons, List.map_nil, List.sum_cons,
      List.sum_nil, E.nameLen_eq, E.metaLen_eq] at h ht
    omega
  · simp only [dataTVs, he, if_false, List.map_append, List.sum_append, List.map_cons, List.map_nil, List.sum_cons,
      List.sum_nil, E.nameLen_eq, E.metaLen_eq] at h ht
    omega

/-- every Data value in normal form is well-formed -/
theorem wfData_normal (E : EncSpecs) (d : DataIn) (sv : Bytes) (hv : d.Valid) (hsv : sv.length ≤ d.est) :
    Spec.wfData (encTL 6 ++ encTL (dataValue d sv).length ++ dataValue d sv) = true := by
  obtain ⟨b1, b2, b3, b4, b5⟩ := data_bounds d sv hv hsv
  apply wfData_of _ (dataTVs d sv) (dataValue_eq E d sv) (dataValue_length_lt E d sv hv hsv)
    (dataTVs_ok E d sv hv hsv)
  · apply inOrder_of_sublist
    simp only [dataTVs, List.map_append, List.map_cons, List.map_nil]
    have e : [7, 20, 21, 22, 23] = [7, 20] ++ [21] ++ [22] ++ [23] := rfl
    rw [e]
    refine List.Sublist.append (List.Sublist.append (List.Sublist.append (List.Sublist.refl _) ?_) ?_) ?_
    · cases d.content <;> simp [optL]
    · cases d.si <;> simp [optL]
    · split <;> simp
  · simp [dataTVs]
  · intro p hp
    simp only [dataTVs, List.mem_append, mem_optL, List.mem_cons, List.not_mem_nil, or_false] at hp
    rcases hp with (((rfl | rfl) | ⟨c, hc, rfl⟩) | ⟨s, hs, rfl⟩) | hp
    · simp [wfName_encNameInner d.name hv.1 (by omega)]
    · simp [wfMetaInfo_encMeta d.mi (by omega)]
    · simp
    · have := b4 s hs
      simp [wfSigInfo_encSigInfo E s (hv.2.2.1 s hs) (by omega)]
    · split at hp
      · simp only [List.mem_cons, List.not_mem_nil, or_false] at hp; subst hp; simp
      · simp at hp

/-! ### Interest -/

/-- reduction of `wfInterest` on a normal-form packet to finite checks on the list of pairs -/
theorem wfInterest_of (V : Bytes) (l : List TV) (hV : V = encTVs l) (hlen : V.length < 2 ^ 64)
    (hok : ∀ p ∈ l, TVok p)
    (hord : inOrder (l.map (·.1)) [7, 33, 18, 30, 10, 12, 34, 36, 44, 46] = true)
    (hhead : l.head?.map (·.1) = some 7)
    (hall : ∀ p ∈ l, (if p.1 = 7 then wfName p.2
        else if p.1 = 33 || p.1 = 18 then p.2.isEmpty
        else if p.1 = 30 then wfLinks p.2
        else if p.1 = 10 then p.2.length == 4
        else if p.1 = 12 then natLenOk p.2
        else if p.1 = 34 then p.2.length == 1
        else if p.1 = 44 then wfSigInfo p.2
        else true) = true) :
    wfInterest (encTL 5 ++ encTL V.length ++ V) = true := by
  have h1 : encTL 5 ++ encTL V.length ++ V = encTVs [(5, V)] := by simp [encTV]
  have hok1 : ∀ p ∈ [((5 : Nat), V)], TVok p := by
    intro p hp; simp only [List.mem_cons, List.not_mem_nil, or_false] at hp; subst hp
    exact TVok_mk _ _ (by decide) hlen
  rw [h1]
  unfold wfInterest
  rw [tlvs_encTVs _ hok1]
  simp only [mkTlvs]
  rw [hV, tlvs_encTVs _ hok]
  simp only [map_typ_mkTlvs, head_typ_mkTlvs, hord, hhead, Bool.and_eq_true, decide_eq_true_eq, true_and]
  refine ⟨by simp, ?_⟩
  apply all_mkTlvs
  intro p hp o h
  exact hall p hp

def boolL (b : Bool) (p : TV) : List TV := if b then [p] else []

@[simp] theorem mem_boolL (b : Bool) (p q : TV) : q ∈ boolL b p ↔ b = true ∧ q = p := by
  cases b <;> simp [boolL]

theorem boolField_eq (t : Nat) (b : Bool) : boolField t b = encTVs (boolL b (t, [])) := by
  cases b <;> simp [boolField, boolL, encTV, encTL_small_wf 0]

theorem sum_boolL_le (b : Bool) (p : TV) :
    ((boolL b p).map (fun p => 18 + p.2.length)).sum ≤ 18 + (if b then p.2.length else 0) := by
  cases b <;> simp [boolL]

theorem sum_boolL_le' (b : Bool) (p : TV) :
    ((boolL b p).map (fun p => 18 + p.2.length)).sum ≤ 18 + p.2.length := by
  cases b <;> simp [boolL]

theorem sublist_boolL (b : Bool) (p : TV) : ((boolL b p).map (·.1)).Sublist [p.1] := by
  cases b <;> simp [boolL]

theorem sublist_optL {α : Type} (o : Option α) (f : α → TV) (t : Nat) (h : ∀ a, (f a).1 = t) :
    ((optL o f).map (·.1)).Sublist [t] := by
  cases o <;> simp [optL, h]

def interestTVs (i : InterestIn) (fn : Name) (sv : Bytes) : List TV :=
  [(7, encNameInner fn)] ++ boolL i.cbp (33, []) ++ boolL i.mbf (18, [])
    ++ optL i.fh (fun ns => (30, encLinks ns)) ++ optL i.nonce (fun x => (10, be 4 x))
    ++ optL i.lt (fun x => (12, be (natLen x) x)) ++ optL i.hl (fun x => (34, [x % 256]))
    ++ optL i.ap (fun c => (36, c.flatten)) ++ optL i.si (fun s => (44, encSigInfo s))
    ++ boolL (decide (i.est > 0)) (46, sv)

theorem interestValue_eq (E : EncSpecs) (i : InterestIn) (fn : Name) (sv : Bytes) :
    interestValue i fn sv = encTVs (interestTVs i fn sv) := by
  simp only [interestValue, interestHead, interestParamsPortion, interestTVs, encTVs_append, encTVs_single]
  rw [optB_eq_encTVs i.fh _ (fun ns => (30, encLinks ns)) (by intro c; simp [encTV, E.linksLen_eq]),
    optB_eq_encTVs i.nonce _ (fun x => (10, be 4 x)) (by intro x; simp [encNonce, encTV, encTL_small_wf]),
    optB_eq_encTVs i.lt _ _ (encNatField_eq_wf 12),
    optB_eq_encTVs i.hl _ (fun x => (34, [x % 256])) (by intro x; simp [encHopLimit, encTV, encTL_small_wf]),
    optB_eq_encTVs i.ap _ (fun c => (36, c.flatten)) (by intro c; simp [encTV, contentLen_eq_wf]),
    optB_eq_encTVs i.si _ (fun s => (44, encSigInfo s)) (by intro s; simp [encTV, E.sigInfoLen_eq]),
    encNameField_eq_wf E, boolField_eq 33, boolField_eq 18]
  have : (if i.est > 0 then encTL 46 ++ encTL sv.length ++ sv else []) = encTVs (boolL (decide (i.est > 0)) (46, sv)) := by
    by_cases he : i.est > 0 <;> simp [he, boolL, encTV]
  rw [this]
  simp only [List.append_assoc]

theorem interest_total (i : InterestIn) (fn : Name) (sv : Bytes) (hv : i.Valid)
    (hlen : nameLen fn ≤ nameLen (interestName i.name i.ap.isSome)) (hsv : sv.length ≤ i.est) :
    nameLen fn + optN i.fh linksLen + optN i.ap contentLen + optN i.si sigInfoLen
      + (if decide (i.est > 0) = true then sv.length else 0) + 16 < 2 ^ 62 := by
  have h := hv.2.2.2.2.2.2.2
  simp only [interestLen, interestHeadLen, nameFieldLen] at h
  have h2 := optN_mono i.fh linksLen (fun ns => 1 + tlLen (linksLen ns) + linksLen ns) (by intro c; omega)
  have h3 := optN_mono i.ap contentLen (fun c => 1 + tlLen (contentLen c) + contentLen c) (by intro c; omega)
  have h4 := optN_mono i.si sigInfoLen (fun s => 1 + tlLen (sigInfoLen s) + sigInfoLen s) (by intro c; omega)
  have h5 : (if decide (i.est > 0) = true then sv.length else 0) ≤ sigTLLen 46 i.est := by
    unfold sigTLLen; by_cases he : i.est > 0 <;> simp [he]; omega
  omega

theorem optN_some_le {α : Type} (o : Option α) (f : α → Nat) (a : α) (h : o = some a) : f a ≤ optN o f := by
  subst h; simp [optN]

theorem interestTVs_ok (E : EncSpecs) (i : InterestIn) (fn : Name) (sv : Bytes) (hv : i.Valid)
    (hlen : nameLen fn ≤ nameLen (interestName i.name i.ap.isSome)) (hsv : sv.length ≤ i.est) :
    ∀ p ∈ interestTVs i fn sv, TVok p := by
  have ht := interest_total i fn sv hv hlen hsv
  intro p hp
  simp only [interestTVs, List.mem_append, mem_optL, mem_boolL, List.mem_cons, List.not_mem_nil, or_false] at hp
  rcases hp with ((((((((rfl | ⟨_, rfl⟩) | ⟨_, rfl⟩) | ⟨ns, hns, rfl⟩) | ⟨x, hx, rfl⟩) | ⟨x, hx, rfl⟩)
    | ⟨x, hx, rfl⟩) | ⟨c, hc, rfl⟩) | ⟨s, hs, rfl⟩) | ⟨he, rfl⟩
  · exact TVok_mk _ _ (by decide) (by rw [E.nameLen_eq]; omega)
  · exact TVok_mk _ _ (by decide) (by simp)
  · exact TVok_mk _ _ (by decide) (by simp)
  · have := optN_some_le i.fh linksLen ns hns
    exact TVok_mk _ _ (by decide) (by rw [E.linksLen_eq]; omega)
  · exact TVok_mk _ _ (by decide) (by simp)
  · have := natLen_cases x
    exact TVok_mk _ _ (by decide) (by simp only [be_length]; omega)
  · exact TVok_mk _ _ (by decide) (by simp)
  · have := optN_some_le i.ap contentLen c hc
    exact TVok_mk _ _ (by decide) (by rw [← contentLen_eq_wf]; omega)
  · have := optN_some_le i.si sigInfoLen s hs
    exact TVok_mk _ _ (by decide) (by rw [E.sigInfoLen_eq]; omega)
  · simp only [he, if_true] at ht
    exact TVok_mk _ _ (by decide) (by omega)

theorem interestValue_length_lt (E : EncSpecs) (i : InterestIn) (fn : Name) (sv : Bytes) (hv : i.Valid)
    (hlen : nameLen fn ≤ nameLen (interestName i.name i.ap.isSome)) (hsv : sv.length ≤ i.est) :
    (interestValue i fn sv).length < 2 ^ 64 := by
  have ht := interest_total i fn sv hv hlen hsv
  have h := encTVs_length_le (interestTVs i fn sv)
  rw [← interestValue_eq E] at h
  have a1 := sum_boolL_le' i.cbp (33, [])
  have a2 := sum_boolL_le' i.mbf (18, [])
  have a3 := sum_optL_le i.fh (fun ns => (30, encLinks ns)) linksLen (by intro c; simp [E.linksLen_eq])
  have a4 := sum_optL_le i.nonce (fun x => (10, be 4 x)) (fun _ => 4) (by intro c; simp)
  have a5 := sum_optL_le i.lt (fun x => (12, be (natLen x) x)) natLen (by intro c; simp)
  have a6 := sum_optL_le i.hl (fun x => (34, [x % 256])) (fun _ => 1) (by intro c; simp)
  have a7 := sum_optL_le i.ap (fun c => (36, c.flatten)) contentLen (by intro c; simp [contentLen_eq_wf])
  have a8 := sum_optL_le i.si (fun s => (44, encSigInfo s)) sigInfoLen (by intro s; simp [E.sigInfoLen_eq])
  have a9 := sum_boolL_le (decide (i.est > 0)) (46, sv)
  have c4 : optN i.nonce (fun _ => 4) ≤ 4 := by cases i.nonce <;> simp [optN]
  have c5 : optN i.lt natLen ≤ 8 := by
    cases hlt : i.lt with
    | none => simp [optN]
    | some x => have := natLen_cases x; simp only [optN]; omega
  have c6 : optN i.hl (fun _ => 1) ≤ 1 := by cases i.hl <;> simp [optN]
  simp only [interestTVs, List.map_append, List.sum_append, List.map_cons, List.map_nil, List.sum_cons,
    List.sum_nil, E.nameLen_eq, List.length_nil] at h a1 a2 a9
  omega

/-- every Interest value in normal form is well-formed (for any final name not longer than announced) -/
theorem wfInterest_normal (E : EncSpecs) (i : InterestIn) (fn : Name) (sv : Bytes) (hv : i.Valid)
    (hfn : NameValid fn) (hlen : nameLen fn ≤ nameLen (interestName i.name i.ap.isSome)) (hsv : sv.length ≤ i.est) :
    Spec.wfInterest (encTL 5 ++ encTL (interestValue i fn sv).length ++ interestValue i fn sv) = true := by
  have _ht := interest_total i fn sv hv hlen hsv
  apply wfInterest_of _ (interestTVs i fn sv) (interestValue_eq E i fn sv)
    (interestValue_length_lt E i fn sv hv hlen hsv) (interestTVs_ok E i fn sv hv hlen hsv)
  · apply inOrder_of_sublist
    simp only [interestTVs, List.map_append]
    have e : [7, 33, 18, 30, 10, 12, 34, 36, 44, 46]
        = [7] ++ [33] ++ [18] ++ [30] ++ [10] ++ [12] ++ [34] ++ [36] ++ [44] ++ [46] := rfl
    rw [e]
    refine List.Sublist.append (List.Sublist.append (List.Sublist.append (List.Sublist.append
      (List.Sublist.append (List.Sublist.append (List.Sublist.append (List.Sublist.append
      (List.Sublist.append (List.Sublist.refl _) ?_) ?_) ?_) ?_) ?_) ?_) ?_) ?_) ?_
    · exact sublist_boolL _ _
    · exact sublist_boolL _ _
    · exact sublist_optL _ _ _ (fun _ => rfl)
    · exact sublist_optL _ _ _ (fun _ => rfl)
    · exact sublist_optL _ _ _ (fun _ => rfl)
    · exact sublist_optL _ _ _ (fun _ => rfl)
    · exact sublist_optL _ _ _ (fun _ => rfl)
    · exact sublist_optL _ _ _ (fun _ => rfl)
    · exact sublist_boolL _ _
  · simp [interestTVs]
  · intro p hp
    simp only [interestTVs, List.mem_append, mem_optL, mem_boolL, List.mem_cons, List.not_mem_nil, or_false] at hp
    rcases hp with ((((((((rfl | ⟨_, rfl⟩) | ⟨_, rfl⟩) | ⟨ns, hns, rfl⟩) | ⟨x, hx, rfl⟩) | ⟨x, hx, rfl⟩)
      | ⟨x, hx, rfl⟩) | ⟨c, hc, rfl⟩) | ⟨s, hs, rfl⟩) | ⟨he, rfl⟩
    · simp [wfName_encNameInner fn hfn (by omega)]
    · simp
    · simp
    · have := optN_some_le i.fh linksLen ns hns
      simp [wfLinks_encLinks E ns (hv.2.1 ns hns) (by omega)]
    · simp
    · simp [natLenOk_be]
    · simp
    · simp
    · have := optN_some_le i.si sigInfoLen s hs
      simp [wfSigInfo_encSigInfo E s (hv.2.2.2.2.2.1 s hs) (by omega)]
    · simp

/-! ### the name finally carried by the Interest -/

theorem stripDigest_subset (n : Name) (c : Component) (h : c ∈ stripDigest n) : c ∈ n := by
  unfold stripDigest at h
  split at h
  · split at h
    · exact List.dropLast_subset _ h
    · exact h
  · exact h

theorem nameLen_append_wf (a b : Name) : nameLen (a ++ b) = nameLen a + nameLen b := by
  simp [nameLen, List.sum_append]

theorem interestName_eq (n : Name) (b : Bool) :
    interestName n b = if b then stripDigest n ++ [digestComp (List.replicate 32 0)] else stripDigest n := rfl

theorem nameValid_final (i : InterestIn) (H : Bytes → Bytes) (sv : Bytes) (hv : NameValid i.name) :
    NameValid (interestFinalName i H sv) := by
  intro c hc
  unfold interestFinalName at hc
  split at hc
  · rcases List.mem_append.mp hc with hc | hc
    · exact hv c (stripDigest_subset _ _ hc)
    · simp only [List.mem_cons, List.not_mem_nil, or_false] at hc
      subst hc; simp [CompValid, digestComp]
  · exact hv c (stripDigest_subset _ _ hc)

theorem nameLen_final (i : InterestIn) (H : Bytes → Bytes) (sv : Bytes) (hH : ∀ x, (H x).length = 32) :
    nameLen (interestFinalName i H sv) = nameLen (interestName i.name i.ap.isSome) := by
  rw [interestName_eq]
  unfold interestFinalName
  split
  · simp [nameLen, compLen, digestComp, hH]
  · rfl

/-- the Interest as finally emitted (digest patched into the name) is well-formed -/
theorem wfInterest_final (E : EncSpecs) (i : InterestIn) (H : Bytes → Bytes) (sv : Bytes) (hv : i.Valid)
    (hH : ∀ x, (H x).length = 32) (hsv : sv.length ≤ i.est) :
    Spec.wfInterest (encTL 5 ++ encTL (interestValue i (interestFinalName i H sv) sv).length
      ++ interestValue i (interestFinalName i H sv) sv) = true :=
  wfInterest_normal E i _ sv hv (nameValid_final i H sv hv.1) (Nat.le_of_eq (nameLen_final i H sv hH)) hsv

end Ndn.C03
