/-
  C03/LemmasEnc.lean — the encoder facts consumed by the round-trip proofs (`EncSpecs`).
  Pieces: LemmasEncLen (length pass = bytes written), LemmasEncPrim (ShrinkLength, signature patch),
  LemmasEncData (MakeData normal form), LemmasEncInterest (MakeInterest normal form).
-/
import NdnVerif.C03.LemmasEncData
import NdnVerif.C03.LemmasEncInterest
namespace Ndn.C03

theorem encSpecs : EncSpecs where
  nameLen_eq := nameLen_eq_thm
  metaLen_eq := metaLen_eq_thm
  keyLocLen_eq := keyLocLen_eq_thm
  sigInfoLen_eq := sigInfoLen_eq_thm
  linksLen_eq := linksLen_eq_thm
  makeData_flatten := makeData_flatten_thm
  makeInterest_flatten := makeInterest_flatten_thm

end Ndn.C03
