/-
  C03/LemmasEnc.lean — the encoder facts consumed by the round-trip proofs (`EncSpecs`).
  Pieces: LemmasEncLen (length pass = bytes written), LemmasEncPrim (ShrinkLength, signature patch),
  LemmasEncData (MakeData normal form), LemmasEncInterest (MakeInterest normal form).
-/
import NdnVerif.C03.LemmasEncData
namespace Ndn.C03

end Ndn.C03
