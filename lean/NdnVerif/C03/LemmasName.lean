/-
  C03/LemmasName.lean — standalone name / component codecs (NameFromBytes, ComponentFromBytes) and
  fresh readers.
-/
import NdnVerif.C03.LemmasParse
namespace Ndn.C03

theorem at_newBufferReader (b : Bytes) : At (newBufferReader b) b 0 := by
  simp [At, newBufferReader, Rd.Inv, Rd.view]

theorem accSz_zero_nm (w : List Bytes) : accSz w 0 = 0 := by simp [accSz]

/-- a fresh WireReader over segments that are non-empty (the first one may be empty) -/
theorem at_newWireReader (segs : List Bytes) (h : ∀ i, 0 < i → i < segs.length → segs.getD i [] ≠ []) :
    At (newWireReader segs) segs.flatten 0 := by
  refine ⟨?_, ?_, by omega⟩
  · simp only [newWireReader, Rd.Inv, WireR.Inv, WireR.absPos, accSz_zero_nm, WireR.segAt]
    refine ⟨by omega, fun _ => by omega, by simp, h, by omega⟩
  · simp [newWireReader, Rd.view, WireR.absPos, accSz_zero_nm]

section
variable (R : ReaderSpecs)
include R

theorem readComponent_at (r : Rd) (buf : Bytes) (p : Nat) (c : Component) (t : Bytes) (h : At r buf p)
    (hb : buf.drop p = encComp c ++ t) (hc : CompValid c) (hl : c.val.length < 2 ^ 62) :
    ∃ r', readComponent r = .ok (c, r') ∧ At r' buf (p + compLen c) ∧ buf.drop (p + compLen c) = t := by
  have hb1 : buf.drop p = encTL c.typ ++ (encTL c.val.length ++ (c.val ++ t)) := by
    rw [hb]; simp [encComp, List.append_assoc]
  obtain ⟨r1, e1, a1, _, d1⟩ := readTL_at R r buf p c.typ _ h hb1 hc
  obtain ⟨r2, e2, a2, _, d2⟩ := readTL_at R r1 buf _ c.val.length _ a1 d1 (by omega)
  obtain ⟨hle3, htk3, d3⟩ := drop_append_len a2.2.2 d2
  obtain ⟨r3, e3, a3⟩ := R.readBuf_ok r2 buf _ c.val.length a2 hle3
  have hpos3 : p + tlLen c.typ + tlLen c.val.length + c.val.length = p + compLen c := by unfold compLen; omega
  rw [hpos3] at a3 d3
  refine ⟨r3, ?_, a3, d3⟩
  simp [readComponent, e1, e2, e3, htk3]

theorem readNameLoop_at : ∀ (n : Name) (fuel : Nat) (r : Rd) (buf : Bytes) (p : Nat) (acc : Name),
    At r buf p → buf.drop p = encNameInner n → NameValid n → nameLen n < 2 ^ 62 → n.length < fuel →
    readNameLoop fuel r acc = .ok (acc ++ n) := by
  intro n
  induction n with
  | nil =>
    intro fuel r buf p acc h hb _ _ hf
    cases fuel with
    | zero => omega
    | succ fuel =>
      have hp : p ≥ buf.length := by
        rcases Nat.lt_or_ge p buf.length with h1 | h1
        · have : (buf.drop p).length = 0 := by rw [hb]; simp [encNameInner]
          simp at this; omega
        · exact h1
      simp [readNameLoop, R.pos_eq r buf p h, R.length_eq r buf p h, hp]
  | cons c cs ih =>
    intro fuel r buf p acc h hb hv hlen hf
    cases fuel with
    | zero => omega
    | succ fuel =>
      have hnl : nameLen (c :: cs) = compLen c + nameLen cs := by simp [nameLen]
      have hcl := compLen_pos c
      have hb1 : buf.drop p = encComp c ++ encNameInner cs := by rw [hb]; simp [encNameInner]
      have hvl : c.val.length < 2 ^ 62 := by unfold compLen at hnl; omega
      obtain ⟨r1, e1, a1, d1⟩ := readComponent_at R r buf p c _ h hb1 (hv c (by simp)) hvl
      have hlt : ¬ (p ≥ buf.length) := by
        have h2 := (drop_append_len h.2.2 hb1).1
        have : (encComp c).length = compLen c := by simp [encComp, compLen, encTL_length]; omega
        omega
      have := ih fuel r1 buf (p + compLen c) (acc ++ [c]) a1 d1 (fun x hx => hv x (by simp [hx])) (by omega)
        (by simp at hf; omega)
      simp [readNameLoop, R.pos_eq r buf p h, R.length_eq r buf p h, hlt, e1, this]

end
end Ndn.C03
