/-
  C03/LemmasReaderA.lean — list/accSz lemmas and the loop lemmas (gather, advance, findStart,
  findEnd) used by the operation-level refinement WireReader ⊑ BufferReader (LemmasReader.lean).
-/
import NdnVerif.C03.LemmasDefs
namespace Ndn.C03

/-! ### accSz and flatten -/

theorem accSz_zero (w : List Bytes) : accSz w 0 = 0 := by simp [accSz]

theorem accSz_nil (i : Nat) : accSz [] i = 0 := by simp [accSz]

theorem accSz_cons_succ (x : Bytes) (w : List Bytes) (i : Nat) :
    accSz (x :: w) (i + 1) = x.length + accSz w i := by simp [accSz]

theorem accSz_eq_take_flatten (w : List Bytes) (i : Nat) : accSz w i = ((w.take i).flatten).length := by
  simp [accSz, List.length_flatten]

theorem accSz_length (w : List Bytes) : accSz w w.length = w.flatten.length := by
  simp [accSz_eq_take_flatten]

theorem accSz_succ (w : List Bytes) (i : Nat) (h : i < w.length) :
    accSz w (i + 1) = accSz w i + (w[i]?.getD []).length := by
  induction w generalizing i with
  | nil => simp at h
  | cons x w ih =>
    cases i with
    | zero => simp [accSz]
    | succ i =>
      have := ih i (by simpa using h)
      simp [accSz_cons_succ, this]; omega

theorem accSz_ge (w : List Bytes) (i : Nat) (h : w.length ≤ i) : accSz w i = accSz w w.length := by
  simp [accSz, List.take_of_length_le h]

theorem accSz_mono_succ (w : List Bytes) (i : Nat) : accSz w i ≤ accSz w (i + 1) := by
  by_cases h : i < w.length
  · rw [accSz_succ w i h]; omega
  · rw [accSz_ge w i (by omega), accSz_ge w (i + 1) (by omega)]; omega

theorem accSz_mono (w : List Bytes) {i j : Nat} (h : i ≤ j) : accSz w i ≤ accSz w j := by
  induction j with
  | zero => have : i = 0 := by omega
            subst this; omega
  | succ j ih =>
    by_cases hij : i = j + 1
    · subst hij; omega
    · have := ih (by omega)
      have := accSz_mono_succ w j
      omega

theorem accSz_le_total (w : List Bytes) (i : Nat) : accSz w i ≤ accSz w w.length := by
  by_cases h : i ≤ w.length
  · exact accSz_mono w h
  · rw [accSz_ge w i (by omega)]; omega

theorem flatten_take_accSz (w : List Bytes) (i : Nat) : w.flatten.take (accSz w i) = (w.take i).flatten := by
  induction w generalizing i with
  | nil => simp
  | cons x w ih =>
    cases i with
    | zero => simp [accSz_zero]
    | succ i =>
      simp [accSz_cons_succ, List.take_append, ih]
      exact List.take_of_length_le (by omega)

theorem flatten_drop_accSz (w : List Bytes) (i : Nat) : w.flatten.drop (accSz w i) = (w.drop i).flatten := by
  induction w generalizing i with
  | nil => simp
  | cons x w ih =>
    cases i with
    | zero => simp [accSz_zero]
    | succ i => simp [accSz_cons_succ, List.drop_append, ih]

theorem drop_eq_getD_cons (w : List Bytes) (i : Nat) (h : i < w.length) :
    w.drop i = w[i]?.getD [] :: w.drop (i + 1) := by
  rw [List.drop_eq_getElem_cons h]; simp [h]

theorem take_succ_eq_getD (w : List Bytes) (i : Nat) (h : i < w.length) :
    w.take (i + 1) = w.take i ++ [w[i]?.getD []] := by
  rw [List.take_add_one]; simp [h]

/-- the bytes from absolute offset `accSz i + sp` -/
theorem flatten_drop_at (w : List Bytes) (i sp : Nat) (h : i < w.length) (hsp : sp ≤ (w[i]?.getD []).length) :
    w.flatten.drop (accSz w i + sp) = (w[i]?.getD []).drop sp ++ (w.drop (i + 1)).flatten := by
  rw [← List.drop_drop, flatten_drop_accSz, drop_eq_getD_cons w i h]
  simp [List.drop_append]
  rw [show sp - List.length (w[i]?.getD []) = 0 by omega, List.drop_zero]

theorem flatten_drop_at' (w : List Bytes) (i sp : Nat) (h : i < w.length) (hsp : sp ≤ (w[i]?.getD []).length) :
    w.flatten.drop (accSz w i + sp) = (w[i]?.getD []).drop sp ++ w.flatten.drop (accSz w (i + 1)) := by
  rw [flatten_drop_at w i sp h hsp, flatten_drop_accSz]

/-- the bytes up to absolute offset `accSz i + q` -/
theorem flatten_take_at (w : List Bytes) (i q : Nat) (h : i < w.length) (hq : q ≤ (w[i]?.getD []).length) :
    w.flatten.take (accSz w i + q) = (w.take i).flatten ++ (w[i]?.getD []).take q := by
  have h1 : w.flatten = (w.take i).flatten ++ (w.drop i).flatten := by
    rw [← List.flatten_append, List.take_append_drop]
  rw [h1, List.take_append, accSz_eq_take_flatten]
  rw [List.take_of_length_le (by omega)]
  congr 1
  rw [drop_eq_getD_cons w i h]
  simp [List.take_append]
  omega


/-! ### the structural part of the invariant -/

theorem WireR.segAt_eq (r : WireR) (i : Nat) : r.segAt i = r.wire[i]?.getD [] := by
  simp [WireR.segAt]

/-- `seg`/`pos` are within the wire (the part of `WireR.Inv` the loops maintain) -/
def WireR.Pre (w : WireR) : Prop :=
  w.seg ≤ w.wire.length
  ∧ (w.seg < w.wire.length → w.pos ≤ (w.segAt w.seg).length)
  ∧ (w.seg = w.wire.length → w.pos = 0)

theorem WireR.Pre.absPos_le {w : WireR} (h : w.Pre) : w.absPos ≤ accSz w.wire w.wire.length := by
  obtain ⟨h1, h2, h3⟩ := h
  unfold WireR.absPos
  by_cases hs : w.seg < w.wire.length
  · have := h2 hs
    have h4 := accSz_succ w.wire w.seg hs
    have h5 := accSz_le_total w.wire (w.seg + 1)
    rw [WireR.segAt_eq] at this
    omega
  · have : w.seg = w.wire.length := by omega
    have := h3 this
    have := accSz_le_total w.wire w.seg
    omega

/-! ### gather -/

theorem gather_spec (fuel : Nat) : ∀ (r : WireR) (l : Nat) (acc : Bytes), r.Pre → r.wire.length ≤ r.seg + fuel →
    (r.absPos + l ≤ accSz r.wire r.wire.length →
      ∃ r', WireR.gather fuel r l acc = some (acc ++ (r.wire.flatten.drop r.absPos).take l, r')
        ∧ r'.wire = r.wire ∧ r'.base = r.base ∧ r'.absPos = r.absPos + l ∧ r'.Pre)
    ∧ (r.absPos + l > accSz r.wire r.wire.length → WireR.gather fuel r l acc = none) := by
  induction fuel with
  | zero =>
    intro r l acc hp hf
    cases l with
    | zero =>
      refine ⟨fun _ => ⟨r, by simp [WireR.gather], rfl, rfl, rfl, hp⟩, fun h => ?_⟩
      have := hp.absPos_le; omega
    | succ l =>
      refine ⟨fun h => ?_, fun _ => by simp [WireR.gather]⟩
      obtain ⟨h1, h2, h3⟩ := hp
      have hs : r.seg = r.wire.length := by omega
      have := h3 hs
      unfold WireR.absPos at h
      rw [hs] at h
      omega
  | succ fuel ih =>
    intro r l acc hp hf
    cases l with
    | zero =>
      refine ⟨fun _ => ⟨r, by simp [WireR.gather], rfl, rfl, rfl, hp⟩, fun h => ?_⟩
      have := hp.absPos_le; omega
    | succ l =>
      obtain ⟨h1, h2, h3⟩ := hp
      by_cases hs : r.seg ≥ r.wire.length
      · have hs' : r.seg = r.wire.length := by omega
        have hp0 := h3 hs'
        refine ⟨fun h => ?_, fun _ => by simp [WireR.gather, hs]⟩
        unfold WireR.absPos at h
        rw [hs'] at h
        omega
      · have hs' : r.seg < r.wire.length := by omega
        have hpos := h2 hs'
        rw [WireR.segAt_eq] at hpos
        have hsucc := accSz_succ r.wire r.seg hs'
        have hdrop := flatten_drop_at' r.wire r.seg r.pos hs' hpos
        by_cases hc : r.pos + (l + 1) > (r.wire[r.seg]?.getD []).length
        · -- move to the next segment
          have hpre2 : WireR.Pre { r with seg := r.seg + 1, pos := 0 } := by
            refine ⟨by simp; omega, by simp, by simp⟩
          have hih := ih { r with seg := r.seg + 1, pos := 0 }
            (l + 1 - ((r.wire[r.seg]?.getD []).length - r.pos)) (acc ++ (r.wire[r.seg]?.getD []).drop r.pos) hpre2
            (by simp; omega)
          have habs2 : WireR.absPos { r with seg := r.seg + 1, pos := 0 } = accSz r.wire (r.seg + 1) := by
            simp [WireR.absPos]
          rw [habs2] at hih
          simp only [] at hih
          have hg : WireR.gather (fuel + 1) r (l + 1) acc =
              WireR.gather fuel { r with seg := r.seg + 1, pos := 0 }
                (l + 1 - ((r.wire[r.seg]?.getD []).length - r.pos)) (acc ++ (r.wire[r.seg]?.getD []).drop r.pos) := by
            simp [WireR.gather, hs, WireR.segAt, hc]
          rw [hg]
          constructor
          · intro h
            unfold WireR.absPos at h
            have hx : accSz r.wire (r.seg + 1) + (l + 1 - ((r.wire[r.seg]?.getD []).length - r.pos))
                ≤ accSz r.wire r.wire.length := by omega
            obtain ⟨r', e1, e2, e3, e4, e5⟩ := hih.1 hx
            refine ⟨r', ?_, e2, e3, ?_, e5⟩
            · rw [e1]
              unfold WireR.absPos
              have hX : ((r.wire[r.seg]?.getD []).drop r.pos).take (l + 1) = (r.wire[r.seg]?.getD []).drop r.pos :=
                List.take_of_length_le (by simp only [List.length_drop]; omega)
              rw [Nat.add_comm r.pos (accSz r.wire r.seg), hdrop, List.take_append, List.append_assoc, hX, List.length_drop]
            · rw [e4]; unfold WireR.absPos; omega
          · intro h
            unfold WireR.absPos at h
            exact hih.2 (by omega)
        · have hg : WireR.gather (fuel + 1) r (l + 1) acc =
              some (acc ++ ((r.wire[r.seg]?.getD []).drop r.pos).take (l + 1), { r with pos := r.pos + (l + 1) }) := by
            simp [WireR.gather, hs, WireR.segAt, hc]
          rw [hg]
          constructor
          · intro _
            refine ⟨{ r with pos := r.pos + (l + 1) }, ?_, rfl, rfl, ?_, ?_⟩
            · unfold WireR.absPos
              rw [Nat.add_comm r.pos (accSz r.wire r.seg), hdrop, List.take_append]
              rw [show l + 1 - (List.drop r.pos (r.wire[r.seg]?.getD [])).length = 0 by
                simp only [List.length_drop]; omega]
              simp
            · simp [WireR.absPos]; omega
            · refine ⟨h1, fun _ => ?_, fun h => ?_⟩
              · simp [WireR.segAt]; omega
              · simp at h; omega
          · intro h
            unfold WireR.absPos at h
            have := accSz_le_total r.wire (r.seg + 1)
            omega

end Ndn.C03
