/-
  C03 — property theorems only (helper lemmas live in Lemmas*.lean).
-/
import NdnVerif.C03.Parse
import NdnVerif.C03.Spec
namespace Ndn.C03

/-- placeholder while the proofs are being built: the length pass of a component equals what is written -/
theorem compLen_eq (c : Component) : (encComp c).length = compLen c := by
  simp [encComp, compLen, encTL_length]; omega

end Ndn.C03
