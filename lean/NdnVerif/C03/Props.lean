/-
  C03 — property theorems only (proofs live in Lemmas*.lean; nothing is assumed: the hypothesis
  bundles `ReaderSpecs` / `EncSpecs` used between the proof files are instantiated here by
  `readerSpecs` / `encSpecs`).  All statements are unbounded: every name, field subset, buffer
  split, abstract signer, reader kind and segmentation.

  Guards: `DataIn.Valid` / `InterestIn.Valid` = what the Go types can hold (component types and
  natural values < 2^64, nonce < 2^32, hop limit < 256) and a total size < 2^62;
  `NoTrailingDigest` = an Interest WITHOUT parameters does not end, after the encoder dropped one
  trailing digest component, in yet another ParametersSha256Digest component (the decoder rejects a
  trailing digest without parameters by design).  `(H x).length = 32` is SHA-256's output size.
-/
import NdnVerif.C03.LemmasEnc
import NdnVerif.C03.LemmasEncPlan
import NdnVerif.C03.LemmasFinal
import NdnVerif.C03.Examples
import NdnVerif.C03.LemmasLiftRd
namespace Ndn.C03

/-! ### two-pass encoder: the length pass announces exactly what is written -/

theorem lengthPass_exact :
    (∀ n : Name, (encNameInner n).length = nameLen n) ∧ (∀ m : MetaInfo, (encMeta m).length = metaLen m)
    ∧ (∀ k : KeyLoc, (encKeyLoc k).length = keyLocLen k) ∧ (∀ s : SigInfo, (encSigInfo s).length = sigInfoLen s)
    ∧ (∀ ns : List Name, (encLinks ns).length = linksLen ns) :=
  ⟨encSpecs.nameLen_eq, encSpecs.metaLen_eq, encSpecs.keyLocLen_eq, encSpecs.sigInfoLen_eq, encSpecs.linksLen_eq⟩

/-- the wire plan computed by `Init` matches what `EncodeInto` writes: same number of buffers, every
    allocated buffer exactly the announced size (0-entries: the caller's nocopy buffers and the
    signature slot) — for every Data / Interest, no side condition -/
theorem wirePlan_exact :
    (∀ d : DataIn, PlanMatches (dataPlan d) (dataSegs d))
    ∧ (∀ (i : InterestIn) (fn : Name), PlanMatches (interestPlan i fn) (interestSegs i fn)) :=
  ⟨dataPlan_matches, interestPlan_matches⟩

/-- MakeData: the joined output wire is ONE TLV of type 6 whose length field is exact, with the
    actual signature length re-encoded and the bytes handed to the signer = the signed portion -/
theorem makeData_normalForm (d : DataIn) (sign : Bytes → Bytes) (e : Encoded) (hv : d.Valid)
    (hm : makeData d sign = .ok e) :
    e.wire.flatten = encTL 6 ++ encTL (dataValue d e.sigVal).length ++ dataValue d e.sigVal
    ∧ (d.est > 0 → e.sigVal = sign (dataCovered d) ∧ e.sigCovered = some (dataCovered d) ∧ e.sigVal.length ≤ d.est)
    ∧ (d.est = 0 → e.sigCovered = none) :=
  encSpecs.makeData_flatten d sign e hv hm

theorem makeInterest_normalForm (i : InterestIn) (sign H : Bytes → Bytes) (e : Encoded) (fn : Name) (hv : i.Valid)
    (hH : ∀ x, (H x).length = 32) (hm : makeInterest i sign H = .ok (e, fn)) :
    fn = interestFinalName i H e.sigVal
    ∧ e.wire.flatten = encTL 5 ++ encTL (interestValue i fn e.sigVal).length ++ interestValue i fn e.sigVal
    ∧ (i.est > 0 → e.sigVal = sign (interestCovered i) ∧ e.sigCovered = some (interestCovered i) ∧ e.sigVal.length ≤ i.est)
    ∧ (i.est = 0 → e.sigCovered = none ∧ e.sigVal = []) :=
  encSpecs.makeInterest_flatten i sign H e fn hv hH hm

/-! ### well-formed TLV with exact lengths (independent walker) -/

theorem makeData_wellFormed (d : DataIn) (sign : Bytes → Bytes) (e : Encoded) (hv : d.Valid)
    (hm : makeData d sign = .ok e) : Spec.wfData e.wire.flatten = true :=
  makeData_wellFormed_E encSpecs d sign e hv hm

theorem makeInterest_wellFormed (i : InterestIn) (sign H : Bytes → Bytes) (e : Encoded) (fn : Name)
    (hv : i.Valid) (hH : ∀ x, (H x).length = 32) (hm : makeInterest i sign H = .ok (e, fn)) :
    Spec.wfInterest e.wire.flatten = true :=
  makeInterest_wellFormed_E encSpecs i sign H e fn hv hH hm

/-! ### segmentation: WireReader ⊑ BufferReader -/

/-- Operation-level refinement: on every healthy reader — a BufferReader, or a WireReader over ANY
    segmentation whose segments after the first are non-empty, at any position, including the
    sub-readers produced by `Delegate` — each ParseReader operation (Pos, Length, ReadByte, ReadBuf,
    ReadWire, Read/ReadFull, Skip, Range, Delegate) returns what the BufferReader operation returns
    on the joined buffer, in the success AND the failure direction. -/
theorem wireReader_refines_bufferReader : ReaderSpecs := readerSpecs

/-- Parser-level refinement, for ALL input bytes (well-formed or not): decoding over a WireReader on
    any segmentation (segments after the first non-empty) gives exactly the result of decoding the
    joined bytes with a BufferReader — same value, same signed portion, same error/panic outcome. -/
theorem segmented_decode_eq_contiguous (H : Bytes → Bytes) (segs : List Bytes)
    (h : ∀ i, 0 < i → i < segs.length → segs.getD i [] ≠ []) :
    readData (newWireReader segs) = readData (newBufferReader segs.flatten)
    ∧ readInterest H (newWireReader segs) = readInterest H (newBufferReader segs.flatten)
    ∧ readPacket H (newWireReader segs) = readPacket H (newBufferReader segs.flatten) :=
  ⟨readData_anySegmentation segs h, readInterest_anySegmentation H segs h, readPacket_anySegmentation H segs h⟩

/-- … and more generally for any two healthy readers over the same logical buffer and position
    (including the sub-readers `Delegate` produces) -/
theorem decode_depends_on_view_only (H : Bytes → Bytes) (r1 r2 : Rd) (h : Sim r1 r2) :
    readData r1 = readData r2 ∧ readInterest H r1 = readInterest H r2 ∧ readPacket H r1 = readPacket H r2 :=
  ⟨readData_sim readerSpecs readerSpecsX r1 r2 h, readInterest_sim readerSpecs readerSpecsX H r1 r2 h,
   readPacket_sim readerSpecs readerSpecsX H r1 r2 h⟩

/-- a WireReader freshly built over non-empty segments is healthy over the joined bytes -/
theorem newWireReader_healthy (segs : List Bytes) (h : NonEmptySegs segs) :
    At (newWireReader segs) segs.flatten 0 := at_newWireReader_ne segs h

/-! ### decode ∘ encode = id -/

/-- ReadData on the bytes of MakeData — over ANY healthy reader (contiguous or segmented) — returns
    the name, MetaInfo fields, content (concatenation of the buffers), SignatureInfo and signature
    value that were encoded, and the signed portion that was handed to the signer. -/
theorem readData_makeData (d : DataIn) (sign : Bytes → Bytes) (e : Encoded) (r : Rd) (hv : d.Valid)
    (hm : makeData d sign = .ok e) (hr : At r e.wire.flatten 0) :
    ∃ cov, readData r = .ok (dataExpect d e.sigVal, cov) ∧ (d.est > 0 → e.sigCovered = some cov) ∧ (d.est = 0 → cov = []) :=
  readData_makeData_E encSpecs d sign e r hv hm hr

theorem readInterest_makeInterest (i : InterestIn) (sign H : Bytes → Bytes) (e : Encoded) (fn : Name) (r : Rd)
    (hv : i.Valid) (hnt : NoTrailingDigest i) (hH : ∀ x, (H x).length = 32)
    (hm : makeInterest i sign H = .ok (e, fn)) (hr : At r e.wire.flatten 0) :
    ∃ cov, readInterest H r = .ok (interestExpect i fn e.sigVal, cov) ∧ (i.est > 0 → e.sigCovered = some cov) :=
  readInterest_makeInterest_E encSpecs i sign H e fn r hv hnt hH hm hr

/-- for EVERY segmentation into non-empty segments the segmented decode equals the contiguous one -/
theorem readData_segmented (d : DataIn) (sign : Bytes → Bytes) (e : Encoded) (segs : List Bytes) (hv : d.Valid)
    (hm : makeData d sign = .ok e) (hne : NonEmptySegs segs) (hj : segs.flatten = e.wire.flatten) :
    readData (newWireReader segs) = readData (newBufferReader e.wire.flatten)
    ∧ ∃ cov, readData (newWireReader segs) = .ok (dataExpect d e.sigVal, cov) :=
  readData_segmented_E encSpecs d sign e segs hv hm hne hj

theorem readInterest_segmented (i : InterestIn) (sign H : Bytes → Bytes) (e : Encoded) (fn : Name) (segs : List Bytes)
    (hv : i.Valid) (hnt : NoTrailingDigest i) (hH : ∀ x, (H x).length = 32)
    (hm : makeInterest i sign H = .ok (e, fn)) (hne : NonEmptySegs segs) (hj : segs.flatten = e.wire.flatten) :
    ∃ c1 c2, readInterest H (newWireReader segs) = .ok (interestExpect i fn e.sigVal, c1)
      ∧ readInterest H (newBufferReader e.wire.flatten) = .ok (interestExpect i fn e.sigVal, c2)
      ∧ (i.est > 0 → c1 = c2) :=
  readInterest_segmented_E encSpecs i sign H e fn segs hv hnt hH hm hne hj

theorem readPacket_makeData (d : DataIn) (sign H : Bytes → Bytes) (e : Encoded) (r : Rd) (hv : d.Valid)
    (hm : makeData d sign = .ok e) (hr : At r e.wire.flatten 0) :
    ∃ cov, readPacket H r = .ok (.data (dataExpect d e.sigVal) cov) :=
  readPacket_makeData_E encSpecs d sign H e r hv hm hr

theorem readPacket_makeInterest (i : InterestIn) (sign H : Bytes → Bytes) (e : Encoded) (fn : Name) (r : Rd)
    (hv : i.Valid) (hnt : NoTrailingDigest i) (hH : ∀ x, (H x).length = 32)
    (hm : makeInterest i sign H = .ok (e, fn)) (hr : At r e.wire.flatten 0) :
    ∃ cov, readPacket H r = .ok (.interest (interestExpect i fn e.sigVal) cov) ∧ (i.est > 0 → e.sigCovered = some cov) :=
  readPacket_makeInterest_E encSpecs i sign H e fn r hv hnt hH hm hr

/-! ### standalone name / component codecs -/

theorem nameBytes_eq_packetName (n : Name) :
    nameBytes n = encNameField 7 n ∧ nameBytes n = Spec.encName n
    ∧ ∀ (d : DataIn) (sv : Bytes), d.name = n → ∃ rest, dataValue d sv = nameBytes n ++ rest :=
  nameBytes_eq_packetName_E encSpecs n

theorem nameFromBytes_nameBytes (n : Name) (hv : NameValid n) (hl : nameLen n < 2 ^ 62) :
    nameFromBytes (nameBytes n) = .ok n :=
  nameFromBytes_nameBytes_E encSpecs n hv hl

theorem componentFromBytes_compBytes (c : Component) (hc : CompValid c) (hl : c.val.length < 2 ^ 62) :
    componentFromBytes (encComp c) = .ok c :=
  componentFromBytes_compBytes_E c hc hl

/-! ### non-vacuity: a concrete signed Data (a 300-byte component, three content buffers, estimate 300
    with a 200-byte signature, so the 3-byte length field is narrowed to 1 byte and the packet
    shrunk) and a concrete signed Interest with parameters and forwarding hint meet every hypothesis
    of the theorems above (`Valid`, successful build, `NoTrailingDigest`, hash size, non-empty
    segments, healthy readers via `at_newBufferReader` / `newWireReader_healthy`) -/

-- hypotheses of makeData_normalForm / makeData_wellFormed / readData_makeData are met
set_option maxRecDepth 100000 in
example : ∃ e, makeData exData exSign = .ok e ∧ e.sigVal.length = 200 := ⟨_, rfl, rfl⟩
set_option maxRecDepth 100000 in
example : ∃ e fn, makeInterest exInterest exSign32 exHash = .ok (e, fn) ∧ e.sigVal.length = 30 ∧ fn.length = 2 :=
  ⟨_, _, rfl, rfl, rfl⟩
example : NoTrailingDigest exInterest := by intro h; cases h
example : ∀ x, (exHash x).length = 32 := by intro x; simp [exHash]

example : ∀ i, 0 < i → i < ([[1, 2], [3]] : List Bytes).length → ([[1, 2], [3]] : List Bytes).getD i [] ≠ [] := by
  intro i h1 h2; have : i = 1 := by simp at h2; omega
  subst this; simp
example : Sim (newWireReader [[6], [0]]) (newBufferReader [6, 0]) :=
  ⟨[6, 0], 0, at_newWireReader_ne [[6], [0]] (by intro s hs; simp at hs; rcases hs with h | h <;> simp [h]), at_newBufferReader _⟩
example : NonEmptySegs [[1, 2], [3]] := by intro s hs; simp at hs; rcases hs with h | h <;> simp [h]
example : At (newBufferReader [6, 0]) [6, 0] 0 := at_newBufferReader _
example : NameValid exKey ∧ nameLen exKey < 2 ^ 62 := ⟨exKey_valid, by decide⟩

end Ndn.C03
