/-
  C03/LemmasReaderF.lean — WireReader.Delegate: the three shapes of sub-reader all present the logical
  sub-buffer `(buf.drop p).take l` at position 0.
-/
import NdnVerif.C03.LemmasReaderE
namespace Ndn.C03

theorem NE_iff (w : List Bytes) : NE w ↔ ∀ x ∈ w.drop 1, x ≠ [] := by
  constructor
  · intro h x hx
    obtain ⟨k, hk⟩ := List.mem_iff_getElem?.1 hx
    rw [List.getElem?_drop] at hk
    have hlt : 1 + k < w.length := by
      have := List.getElem?_eq_some_iff.1 hk
      exact this.1
    have := h (1 + k) (by omega) hlt
    rw [hk] at this
    exact this
  · intro h i h0 h1
    have : w[i]?.getD [] ∈ w.drop 1 := by
      rw [List.mem_iff_getElem?]
      refine ⟨i - 1, ?_⟩
      rw [List.getElem?_drop, show 1 + (i - 1) = i by omega]
      simp [h1]
    exact h _ this

theorem NE_take (w : List Bytes) (k : Nat) (h : NE w) : NE (w.take k) := by
  rw [NE_iff] at *
  intro x hx
  rw [List.drop_take] at hx
  exact h x (List.mem_of_mem_take hx)

theorem accSz_take (w : List Bytes) (i k : Nat) (h : i ≤ k) : accSz (w.take k) i = accSz w i := by
  simp [accSz, List.take_take, Nat.min_eq_left h]

/-- the segments of the copying branch of Delegate -/
theorem fresh_wire (w : List Bytes) (i j : Nat) (hij : i < j) (hj : j < w.length) :
    (w.drop i).take (j + 1 - i) = w[i]?.getD [] :: (w.drop (i + 1)).take (j - i) := by
  rw [drop_eq_getD_cons w i (by omega), show j + 1 - i = (j - i) + 1 by omega, List.take_succ_cons]

theorem fresh_wire_last (w : List Bytes) (i j : Nat) (x : Bytes) (q : Nat) (hij : i < j) (hj : j < w.length) :
    let nw := x :: (w.drop (i + 1)).take (j - i)
    nw.take (nw.length - 1) ++ [(nw.getD (nw.length - 1) []).take q]
      = x :: ((w.drop (i + 1)).take (j - i - 1) ++ [(w[j]?.getD []).take q]) := by
  intro nw
  have hlen : nw.length - 1 = (j - i - 1) + 1 := by
    simp only [nw, List.length_cons, List.length_take, List.length_drop]; omega
  rw [hlen]
  simp only [nw, List.take_succ_cons, List.take_take, List.getD_eq_getElem?_getD, List.getElem?_cons_succ,
    List.cons_append]
  congr 2
  · rw [Nat.min_eq_left (by omega)]
  · rw [List.getElem?_take, if_pos (by omega), List.getElem?_drop, show i + 1 + (j - i - 1) = j by omega]

theorem wire_delegate_ok (w : WireR) (buf : Bytes) (p l : Nat) (h : At (.wire w) buf p) (hl : p + l ≤ buf.length) :
    ∃ sub w', w.delegate l = .ok (sub, w') ∧ At sub ((buf.drop p).take l) 0 ∧ At (.wire w') buf (p + l) := by
  obtain ⟨hinv, h2, h3, h4, h5⟩ := at_wire_dest h
  obtain ⟨_, hb2, hb3, hb4⟩ := at_wire_buf h
  have habs := (hb4 l).1 hl
  have hpre := hinv.pre
  by_cases hseg : w.seg ≥ w.wire.length
  · -- parked at the end of the wire: l = 0
    have hs : w.seg = w.wire.length := by have := hpre.1; omega
    have hp0 := hpre.2.2 hs
    have hl0 : l = 0 := by
      unfold WireR.absPos at habs
      rw [hs, hp0, accSz_length] at habs
      omega
    subst hl0
    refine ⟨.buf ⟨[], 0⟩, w, by simp [WireR.delegate, hseg], (at_buf_iff _ _ _).2 ⟨by simp, by simp⟩, h⟩
  have hlt : w.seg < w.wire.length := by omega
  have hseg' : ¬ (w.seg ≥ w.wire.length ∨ l > w.absLength - w.absPos) := by
    rw [WireR.absLength_eq]; omega
  have hpos := hpre.2.1 hlt
  rw [WireR.segAt_eq] at hpos
  have hsucc := accSz_succ w.wire w.seg hlt
  by_cases hc : w.pos + l ≤ (w.wire[w.seg]?.getD []).length
  · -- inside the current segment
    have hpre' : WireR.Pre { w with pos := w.pos + l } := by
      refine ⟨hpre.1, fun _ => ?_, fun hh => ?_⟩
      · simp only [WireR.segAt_eq]; omega
      · simp only [] at hh; omega
    refine ⟨.buf ⟨((w.wire[w.seg]?.getD []).drop w.pos).take l, 0⟩, { w with pos := w.pos + l }, ?_,
      (at_buf_iff _ _ _).2 ⟨?_, by omega⟩, at_wire_step h rfl rfl (by simp [WireR.absPos]; omega) hpre'⟩
    · simp only [WireR.delegate, if_neg hseg', WireR.segAt_eq, if_pos hc]
    · congr 1
      rw [hb2 l]
      unfold WireR.absPos
      rw [Nat.add_comm, flatten_drop_at' w.wire w.seg w.pos hlt hpos, List.take_append]
      rw [show l - (List.drop w.pos (w.wire[w.seg]?.getD [])).length = 0 by
        simp only [List.length_drop]; omega]
      simp
  -- the advance loop
  have := (advance_spec (w.wire.length + 1) { w with pos := w.pos + l } hlt (by simp only []; omega)).1
    (by simp only [accSz_length]; unfold WireR.absPos at habs; omega)
  obtain ⟨r', a1, a2, a3, a4, a5, a6, _, a8⟩ := this
  simp only [] at a2 a3 a5 a6 a8
  obtain ⟨a8, a9⟩ := a8 (by omega)
  have a4' : r'.pos + accSz w.wire r'.seg = w.absPos + l := by
    have : r'.absPos = r'.pos + accSz w.wire r'.seg := by unfold WireR.absPos; rw [a2]
    rw [← this, a4]; simp [WireR.absPos]; omega
  have hpre' : r'.Pre := by
    refine ⟨by rw [a2]; omega, fun _ => by rw [WireR.segAt_eq, a2]; exact a6, fun hh => by rw [a2] at hh; omega⟩
  have hat' : At (.wire r') buf (p + l) :=
    at_wire_step h a2 a3 (by rw [a4]; simp [WireR.absPos]; omega) hpre'
  have hsuccj := accSz_succ w.wire r'.seg a5
  by_cases hend : r'.pos = (w.wire[r'.seg]?.getD []).length
  · -- the sub-range ends at a segment end: shared wire
    refine ⟨.wire { wire := w.wire.take (r'.seg + 1), seg := w.seg, pos := w.pos,
                    base := w.pos + accSz w.wire w.seg }, r', ?_, ?_, hat'⟩
    · simp only [WireR.delegate, if_neg hseg', WireR.segAt_eq, if_neg hc, a1, a2, if_pos hend]
    · have hlen : (w.wire.take (r'.seg + 1)).length = r'.seg + 1 := by
        rw [List.length_take]; omega
      have hget : (w.wire.take (r'.seg + 1))[w.seg]?.getD [] = w.wire[w.seg]?.getD [] := by
        rw [List.getElem?_take, if_pos (by omega)]
      have hacc : accSz (w.wire.take (r'.seg + 1)) w.seg = accSz w.wire w.seg := accSz_take _ _ _ (by omega)
      have := at_wire_mk (WireR.mk (w.wire.take (r'.seg + 1)) w.seg w.pos (w.pos + accSz w.wire w.seg))
        ⟨by simp only [hlen]; omega, fun _ => by simp only [WireR.segAt_eq, hget]; exact hpos,
          fun hh => by simp only [hlen] at hh; omega⟩
        (NE_take _ _ hinv.ne) (by simp only [WireR.absPos, hacc]; omega)
      simp only [WireR.absPos, hacc, Nat.sub_self] at this
      rw [← flatten_take_accSz, List.drop_take] at this
      rw [hb2 l]
      unfold WireR.absPos
      rw [show accSz w.wire (r'.seg + 1) - (w.pos + accSz w.wire w.seg) = l by
        unfold WireR.absPos at a4'; omega] at this
      exact this
  · -- copied segments
    have hnw := fresh_wire w.wire w.seg r'.seg a8 a5
    have hlast := fresh_wire_last w.wire w.seg r'.seg ((w.wire[w.seg]?.getD []).drop w.pos) r'.pos a8 a5
    simp only [] at hlast
    refine ⟨.wire { wire := (w.wire[w.seg]?.getD []).drop w.pos ::
                      ((w.wire.drop (w.seg + 1)).take (r'.seg - w.seg - 1) ++ [(w.wire[r'.seg]?.getD []).take r'.pos]),
                    seg := 0, pos := 0, base := 0 }, r', ?_, ?_, hat'⟩
    · simp only [WireR.delegate, if_neg hseg', WireR.segAt_eq, if_neg hc, a1, a2, if_neg hend, hnw, hlast]
    · have hne : NE ((w.wire[w.seg]?.getD []).drop w.pos ::
          ((w.wire.drop (w.seg + 1)).take (r'.seg - w.seg - 1) ++ [(w.wire[r'.seg]?.getD []).take r'.pos])) := by
        rw [NE_iff]
        intro x hx
        simp only [List.drop_succ_cons, List.drop_zero, List.mem_append, List.mem_singleton] at hx
        rcases hx with hx | hx
        · have h1 := List.mem_of_mem_take hx
          rw [Nat.add_comm, ← List.drop_drop] at h1
          exact (NE_iff _).1 hinv.ne x (List.mem_of_mem_drop h1)
        · subst hx
          intro hh
          have := congrArg List.length hh
          simp only [List.length_take, List.length_nil] at this
          omega
      have := at_wire_mk (WireR.mk ((w.wire[w.seg]?.getD []).drop w.pos ::
                      ((w.wire.drop (w.seg + 1)).take (r'.seg - w.seg - 1) ++ [(w.wire[r'.seg]?.getD []).take r'.pos]))
                    0 0 0)
        ⟨by simp, fun _ => by simp, fun _ => rfl⟩ hne (by simp)
      simp only [WireR.absPos, accSz_zero, List.drop_zero, Nat.sub_self, Nat.add_zero] at this
      have hs := flatten_slice w.wire w.seg r'.seg w.pos r'.pos a8 a5 hpos a6
      rw [hb2 l]
      unfold WireR.absPos
      rw [show accSz w.wire r'.seg + r'.pos - (accSz w.wire w.seg + w.pos) = l by
        unfold WireR.absPos at a4'; omega, Nat.add_comm (accSz w.wire w.seg)] at hs
      rw [hs]
      simpa using this

theorem wire_delegate_ok' (w : WireR) (buf : Bytes) (p l : Nat) (h : At (.wire w) buf p) (hl : p + l ≤ buf.length) :
    ∃ sub r', (Rd.wire w).delegate l = .ok (sub, r') ∧ At sub ((buf.drop p).take l) 0 ∧ At r' buf (p + l) := by
  obtain ⟨sub, w', d1, d2, d3⟩ := wire_delegate_ok w buf p l h hl
  exact ⟨sub, .wire w', by simp only [Rd.delegate, d1, Res.bind_ok, Res.pure_eq], d2, d3⟩

end Ndn.C03
