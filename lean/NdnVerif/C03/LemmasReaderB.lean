/-
  C03/LemmasReaderB.lean — the `advance` loop (Skip/Delegate) and the scans of `Range`.
-/
import NdnVerif.C03.LemmasReaderA
namespace Ndn.C03

/-! ### advance -/

theorem advance_spec (fuel : Nat) : ∀ (r : WireR), r.seg < r.wire.length → r.wire.length ≤ r.seg + fuel →
    (r.pos + accSz r.wire r.seg ≤ accSz r.wire r.wire.length →
      ∃ r', WireR.advance fuel r = .ok r' ∧ r'.wire = r.wire ∧ r'.base = r.base ∧ r'.absPos = r.absPos
        ∧ r'.seg < r.wire.length ∧ r'.pos ≤ (r.wire[r'.seg]?.getD []).length
        ∧ (r' = r ∨ (r.seg < r'.seg ∧ 0 < r'.pos))
        ∧ (r.pos > (r.wire[r.seg]?.getD []).length → r.seg < r'.seg ∧ 0 < r'.pos))
    ∧ (r.pos + accSz r.wire r.seg > accSz r.wire r.wire.length → WireR.advance fuel r = .err) := by
  induction fuel with
  | zero => intro r h1 h2; omega
  | succ fuel ih =>
    intro r h1 h2
    have hsucc := accSz_succ r.wire r.seg h1
    by_cases hc : r.pos > (r.wire[r.seg]?.getD []).length
    · by_cases hn : r.seg + 1 ≥ r.wire.length
      · have hg : WireR.advance (fuel + 1) r = .err := by
          simp [WireR.advance, WireR.segAt_eq, hc, hn]; omega
        rw [hg]
        refine ⟨fun h => ?_, fun _ => rfl⟩
        have : r.seg + 1 = r.wire.length := by omega
        rw [this] at hsucc
        omega
      · have hg : WireR.advance (fuel + 1) r =
            WireR.advance fuel { r with pos := r.pos - (r.wire[r.seg]?.getD []).length, seg := r.seg + 1 } := by
          simp [WireR.advance, WireR.segAt_eq, hc, hn]; omega
        rw [hg]
        have hih := ih { r with pos := r.pos - (r.wire[r.seg]?.getD []).length, seg := r.seg + 1 }
          (by simp; omega) (by simp; omega)
        simp only [] at hih
        constructor
        · intro h
          have hx : r.pos - (r.wire[r.seg]?.getD []).length + accSz r.wire (r.seg + 1)
              ≤ accSz r.wire r.wire.length := by omega
          obtain ⟨r', e1, e2, e3, e4, e5, e6, e7, _⟩ := hih.1 hx
          have hlt : r.seg < r'.seg ∧ 0 < r'.pos := by
            rcases e7 with e7 | e7
            · subst e7; simp; omega
            · omega
          refine ⟨r', e1, e2, e3, ?_, e5, e6, Or.inr hlt, fun _ => hlt⟩
          rw [e4]; simp [WireR.absPos]; omega
        · intro h
          exact hih.2 (by omega)
    · have hg : WireR.advance (fuel + 1) r = .ok r := by
        simp [WireR.advance, WireR.segAt_eq, hc]; omega
      rw [hg]
      refine ⟨fun _ => ⟨r, rfl, rfl, rfl, rfl, h1, by omega, Or.inl rfl, fun h => by omega⟩, fun h => ?_⟩
      have := accSz_le_total r.wire (r.seg + 1)
      omega

/-- on a live reader the guarded loop of `Skip` is the loop of `Delegate` -/
theorem skipLoop_eq_advance (fuel : Nat) : ∀ (r : WireR), r.seg < r.wire.length →
    WireR.skipLoop fuel r = WireR.advance fuel r := by
  induction fuel with
  | zero => intro r _; rfl
  | succ fuel ih =>
    intro r h
    have hn : ¬ r.seg ≥ r.wire.length := by omega
    by_cases hc : r.pos > (r.segAt r.seg).length
    · by_cases hn2 : r.seg + 1 ≥ r.wire.length
      · simp only [WireR.skipLoop, WireR.advance, h, hc, and_self, if_true, if_pos hn2, if_neg hn]
      · simp only [WireR.skipLoop, WireR.advance, h, hc, and_self, if_true, if_neg hn2, if_neg hn]
        exact ih _ (by simp only []; omega)
    · simp only [WireR.skipLoop, WireR.advance, h, hc, and_false, if_false, if_neg hn]

/-! ### the scans of Range -/

theorem foldl_range_unique {α : Type} (P : Nat → Prop) [DecidablePred P] (f : Nat → α) (init : α) (i0 : Nat)
    (n : Nat) (h0 : i0 < n) (hP : P i0) (huniq : ∀ i, i < n → P i → i = i0) :
    (List.range n).foldl (fun acc i => if P i then f i else acc) init = f i0 := by
  induction n with
  | zero => omega
  | succ n ih =>
    rw [List.range_succ, List.foldl_append]
    simp only [List.foldl_cons, List.foldl_nil]
    by_cases hn : i0 = n
    · subst hn; simp [hP]
    · have hPn : ¬ P n := fun h => hn (huniq n (by omega) h).symm
      simp only [hPn, if_false]
      exact ih (by omega) (fun i hi => huniq i (by omega))

theorem exists_start_seg (w : List Bytes) (s : Nat) (n : Nat) (h : s < accSz w n) :
    ∃ i, i < n ∧ accSz w i ≤ s ∧ s < accSz w (i + 1) := by
  induction n with
  | zero => simp [accSz_zero] at h
  | succ n ih =>
    by_cases hn : s < accSz w n
    · obtain ⟨i, h1, h2⟩ := ih hn
      exact ⟨i, by omega, h2⟩
    · exact ⟨n, by omega, by omega, h⟩

theorem exists_end_seg (w : List Bytes) (e : Nat) (n : Nat) (h0 : 0 < e) (h : e ≤ accSz w n) :
    ∃ i, i < n ∧ accSz w i < e ∧ e ≤ accSz w (i + 1) := by
  induction n with
  | zero => simp [accSz_zero] at h; omega
  | succ n ih =>
    by_cases hn : e ≤ accSz w n
    · obtain ⟨i, h1, h2⟩ := ih hn
      exact ⟨i, by omega, h2⟩
    · exact ⟨n, by omega, by omega, h⟩

theorem findStart_spec (w : List Bytes) (s : Nat) (h : s < accSz w w.length) :
    ∃ i, i < w.length ∧ accSz w i ≤ s ∧ s < accSz w (i + 1) ∧ WireR.findStart w s = (i, s - accSz w i) := by
  obtain ⟨i, h1, h2, h3⟩ := exists_start_seg w s w.length h
  refine ⟨i, h1, h2, h3, ?_⟩
  unfold WireR.findStart
  apply foldl_range_unique (fun i => accSz w i ≤ s ∧ accSz w (i + 1) > s) (fun i => (i, s - accSz w i)) (0, 0) i
    w.length h1 ⟨h2, h3⟩
  intro j _ ⟨hj1, hj2⟩
  by_cases hlt : j < i
  · have := accSz_mono w (show j + 1 ≤ i by omega); omega
  · by_cases hgt : i < j
    · have := accSz_mono w (show i + 1 ≤ j by omega); omega
    · omega

theorem findEnd_spec (w : List Bytes) (e : Nat) (h0 : 0 < e) (h : e ≤ accSz w w.length) :
    ∃ i, i < w.length ∧ accSz w i < e ∧ e ≤ accSz w (i + 1) ∧ WireR.findEnd w e = (i, e - accSz w i) := by
  obtain ⟨i, h1, h2, h3⟩ := exists_end_seg w e w.length h0 h
  refine ⟨i, h1, h2, h3, ?_⟩
  unfold WireR.findEnd
  apply foldl_range_unique (fun i => accSz w i < e ∧ accSz w (i + 1) ≥ e) (fun i => (i, e - accSz w i)) (0, 0) i
    w.length h1 ⟨h2, h3⟩
  intro j _ ⟨hj1, hj2⟩
  by_cases hlt : j < i
  · have := accSz_mono w (show j + 1 ≤ i by omega); omega
  · by_cases hgt : i < j
    · have := accSz_mono w (show i + 1 ≤ j by omega); omega
    · omega

/-- a slice that starts in segment `i` and ends in a later segment `j` -/
theorem flatten_slice (w : List Bytes) (i j sp q : Nat) (hij : i < j) (hj : j < w.length)
    (hsp : sp ≤ (w[i]?.getD []).length) (hq : q ≤ (w[j]?.getD []).length) :
    (w.flatten.drop (accSz w i + sp)).take (accSz w j + q - (accSz w i + sp))
      = (w[i]?.getD []).drop sp ++ ((w.drop (i + 1)).take (j - i - 1)).flatten ++ (w[j]?.getD []).take q := by
  have hi : i < w.length := by omega
  have hmono := accSz_mono w (show i + 1 ≤ j by omega)
  have hsucc := accSz_succ w i hi
  rw [← List.drop_take]
  rw [flatten_take_at w j q hj hq, List.drop_append]
  have hlen : ((w.take j).flatten).length = accSz w j := (accSz_eq_take_flatten w j).symm
  rw [hlen, show accSz w i + sp - accSz w j = 0 by omega, List.drop_zero]
  congr 1
  have hti : i < (w.take j).length := by simp; omega
  have hacc : accSz (w.take j) i = accSz w i := by
    simp [accSz, List.take_take, Nat.min_eq_left (Nat.le_of_lt hij)]
  have hgi : (w.take j)[i]?.getD [] = w[i]?.getD [] := by
    simp [hij]
  have := flatten_drop_at (w.take j) i sp hti (by rw [hgi]; exact hsp)
  rw [hacc, hgi] at this
  rw [this, List.drop_take]
  simp [Nat.sub_sub]

end Ndn.C03
