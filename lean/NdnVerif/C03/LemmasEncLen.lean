/-
  C03/LemmasEncLen.lean — the length pass of the encoder announces what EncodeInto writes
  (first five fields of `EncSpecs`) and small arithmetic facts about TL numbers.
-/
import NdnVerif.C03.LemmasDefs
namespace Ndn.C03

theorem tlLen_small_enc {x : Nat} (h : x ≤ 252) : tlLen x = 1 := by
  unfold tlLen; rw [if_pos h]

theorem encTL_small_enc {x : Nat} (h : x ≤ 252) : encTL x = [x] := by
  unfold encTL; rw [if_pos h]

theorem tlLen_mono_enc {a b : Nat} (h : a ≤ b) : tlLen a ≤ tlLen b := by
  unfold tlLen; repeat' split
  all_goals omega

theorem tlLen_pos_enc (x : Nat) : 0 < tlLen x := by
  unfold tlLen; repeat' split
  all_goals omega

theorem encComp_length (c : Component) : (encComp c).length = compLen c := by
  simp [encComp, compLen, encTL_length]; omega

theorem nameLen_eq_thm (n : Name) : (encNameInner n).length = nameLen n := by
  induction n with
  | nil => simp [encNameInner, nameLen]
  | cons c t ih =>
    simp only [encNameInner, nameLen, List.flatMap_cons, List.length_append, List.map_cons,
      List.sum_cons, encComp_length] at ih ⊢
    rw [ih]

theorem encNameField_length (t : Nat) (n : Name) : (encNameField t n).length = nameFieldLen t n := by
  simp [encNameField, nameFieldLen, encTL_length, nameLen_eq_thm]; omega

theorem encNatField_length (t x : Nat) : (encNatField t x).length = natFieldLen t x := by
  simp [encNatField, natFieldLen, encTL_length]; omega

theorem encBinField_length (t : Nat) (v : Bytes) : (encBinField t v).length = binFieldLen t v := by
  simp [encBinField, binFieldLen, encTL_length]; omega

theorem optB_length {α : Type} (o : Option α) (f : α → Bytes) (g : α → Nat)
    (h : ∀ a, (f a).length = g a) : (optB o f).length = optN o g := by
  cases o <;> simp [optB, optN, h]

theorem metaLen_eq_thm (m : MetaInfo) : (encMeta m).length = metaLen m := by
  simp only [encMeta, metaLen, List.length_append,
    optB_length _ _ _ (encNatField_length 24), optB_length _ _ _ (encNatField_length 25),
    optB_length _ _ _ (encBinField_length 26)]

theorem keyLocLen_eq_thm (k : KeyLoc) : (encKeyLoc k).length = keyLocLen k := by
  simp only [encKeyLoc, keyLocLen, List.length_append,
    optB_length _ _ _ (encNameField_length 7), optB_length _ _ _ (encBinField_length 29)]

theorem encValidity_length_enc (v : Bytes × Bytes) : (encValidity v).length = validityLen v := by
  simp only [encValidity, validityLen, List.length_append, encBinField_length]

theorem sigInfoLen_eq_thm (s : SigInfo) : (encSigInfo s).length = sigInfoLen s := by
  have h1 : ∀ k : KeyLoc, (encTL 28 ++ encTL (keyLocLen k) ++ encKeyLoc k).length
      = 1 + tlLen (keyLocLen k) + keyLocLen k := by
    intro k; simp [encTL_length, keyLocLen_eq_thm, tlLen_small_enc]; omega
  have h2 : ∀ v : Bytes × Bytes, (encTL 253 ++ encTL (validityLen v) ++ encValidity v).length
      = 3 + tlLen (validityLen v) + validityLen v := by
    intro v
    have h253 : tlLen 253 = 3 := by decide
    simp [encTL_length, encValidity_length_enc, h253]; omega
  simp only [encSigInfo, sigInfoLen, List.length_append, encNatField_length,
    optB_length _ _ _ h1, optB_length _ _ _ h2,
    optB_length _ _ _ (encBinField_length 38), optB_length _ _ _ (encNatField_length 40),
    optB_length _ _ _ (encNatField_length 42)]

theorem linksLen_eq_thm (ns : List Name) : (encLinks ns).length = linksLen ns := by
  induction ns with
  | nil => simp [encLinks, linksLen]
  | cons c t ih =>
    simp only [encLinks, linksLen, List.flatMap_cons, List.length_append, List.map_cons,
      List.sum_cons, encNameField_length] at ih ⊢
    rw [ih]

theorem contentLen_eq_enc (c : List Bytes) : c.flatten.length = contentLen c := by
  simp [contentLen, List.length_flatten]

end Ndn.C03
