/-
  C03/LemmasLift.lean — PARSER-LEVEL refinement: decoding over a segmented reader = decoding over the
  contiguous buffer, for ALL input bytes (also malformed ones).

  Two healthy readers over the same logical buffer at the same logical position (`Sim`) are
  indistinguishable for every reader operation (from `ReaderSpecs` + the out-of-range facts
  `ReaderSpecsX`), hence for every parser built from them: `Res.Rel` lifts a relation on results to
  outcomes (`.ok` related, every failure kind equal), each parser returning a reader is shown to map
  `Sim` readers to `Rel`-related outcomes, each parser returning only a value to EQUAL outcomes.
-/
import NdnVerif.C03.LemmasParse
namespace Ndn.C03

/-- two readers over the same logical buffer at the same logical position -/
def Sim (r1 r2 : Rd) : Prop := ∃ buf p, At r1 buf p ∧ At r2 buf p

/-- What `ReaderSpecs` leaves open: `Skip` on a reader parked past its last segment, `Range` and
    `Delegate` with out-of-range arguments.  Discharged in LemmasLiftRd.lean. -/
structure ReaderSpecsX : Prop where
  skip_ok : ∀ r buf p n, At r buf p → p + n ≤ buf.length → ∃ r', r.skip n = .ok r' ∧ At r' buf (p + n)
  skip_err : ∀ r buf p n, At r buf p → p + n > buf.length → r.skip n = .err
  range_oob : ∀ r buf p s e, At r buf p → (e > buf.length ∨ s > e) → r.range s e = []
  delegate_oob : ∀ r buf p l, At r buf p → p + l > buf.length →
    ∃ r', r.delegate l = .ok (.buf ⟨[], 0⟩, r') ∧ At r' buf p

/-! ### lifting a relation to outcomes -/

/-- both outcomes are `.ok` with related results, or the same kind of failure -/
def Res.Rel {α β : Type} (P : α → β → Prop) : Res α → Res β → Prop
  | .ok a, .ok b => P a b
  | .err, .err => True
  | .panic m, .panic m' => m = m'
  | .alloc, .alloc => True
  | .oom, .oom => True
  | _, _ => False

theorem rel_ok_lf {α β : Type} {P : α → β → Prop} {a : α} {b : β} (h : P a b) :
    Res.Rel P (.ok a) (.ok b) := h

theorem rel_pure_lf {α β : Type} {P : α → β → Prop} {a : α} {b : β} (h : P a b) :
    Res.Rel P (pure a) (pure b) := h

theorem rel_err_lf {α β : Type} {P : α → β → Prop} : Res.Rel P (.err : Res α) (.err : Res β) := trivial

theorem rel_oom_lf {α β : Type} {P : α → β → Prop} : Res.Rel P (.oom : Res α) (.oom : Res β) := trivial

theorem rel_bind_lf {α β γ δ : Type} {P : α → β → Prop} {Q : γ → δ → Prop} {x : Res α} {y : Res β}
    {f : α → Res γ} {g : β → Res δ} (h : Res.Rel P x y) (hf : ∀ a b, P a b → Res.Rel Q (f a) (g b)) :
    Res.Rel Q (x >>= f) (y >>= g) := by
  cases x <;> cases y <;> simp only [Res.Rel] at h <;>
    first
      | exact hf _ _ h
      | trivial
      | (subst h; show Res.Rel Q (Res.panic _) (Res.panic _); simp [Res.Rel])

theorem rel_bind_same_lf {α γ δ : Type} {Q : γ → δ → Prop} (x : Res α)
    {f : α → Res γ} {g : α → Res δ} (hf : ∀ a, Res.Rel Q (f a) (g a)) :
    Res.Rel Q (x >>= f) (x >>= g) := by
  cases x with
  | ok a => exact hf a
  | err => trivial
  | panic m => show Res.Rel Q (Res.panic _) (Res.panic _); simp [Res.Rel]
  | alloc => trivial
  | oom => trivial

theorem rel_ite_lf {α β : Type} {P : α → β → Prop} {c : Prop} [Decidable c] {a a' : Res α} {b b' : Res β}
    (h1 : c → Res.Rel P a b) (h2 : ¬ c → Res.Rel P a' b') :
    Res.Rel P (if c then a else a') (if c then b else b') := by
  by_cases hc : c
  · simp only [hc, ↓reduceIte]; exact h1 hc
  · simp only [hc, ↓reduceIte]; exact h2 hc

theorem rel_eq_lf {α : Type} {x y : Res α} (h : Res.Rel Eq x y) : x = y := by
  cases x <;> cases y <;> simp only [Res.Rel] at h <;> first | rfl | (subst h; rfl) | exact h.elim

theorem rel_refl_lf {α : Type} (x : Res α) : Res.Rel Eq x x := by
  cases x <;> simp [Res.Rel]

/-- equal values, `Sim` readers -/
def PV {α : Type} (a b : α × Rd) : Prop := a.1 = b.1 ∧ Sim a.2 b.2
/-- name field results: (name, sigCoverEnd, reader) -/
def PV3 {α β : Type} (a b : α × β × Rd) : Prop := a.1 = b.1 ∧ a.2.1 = b.2.1 ∧ Sim a.2.2 b.2.2
/-- `Delegate` results: (sub-reader, parent) -/
def PD (a b : Rd × Rd) : Prop := Sim a.1 b.1 ∧ Sim a.2 b.2

/-! ### reader operations -/

theorem at_empty_lf : At (.buf ⟨[], 0⟩) [] 0 := by simp [At, Rd.Inv, Rd.view]

set_option linter.unusedSectionVars false

section
variable (R : ReaderSpecs) (X : ReaderSpecsX)
include R X

theorem pos_sim_lf {r1 r2 : Rd} (h : Sim r1 r2) : r1.pos = r2.pos := by
  obtain ⟨buf, p, h1, h2⟩ := h
  rw [R.pos_eq r1 buf p h1, R.pos_eq r2 buf p h2]

theorem length_sim_lf {r1 r2 : Rd} (h : Sim r1 r2) : r1.length = r2.length := by
  obtain ⟨buf, p, h1, h2⟩ := h
  rw [R.length_eq r1 buf p h1, R.length_eq r2 buf p h2]

theorem readByte_sim_lf {r1 r2 : Rd} (h : Sim r1 r2) : Res.Rel PV r1.readByte r2.readByte := by
  obtain ⟨buf, p, h1, h2⟩ := h
  by_cases hp : p < buf.length
  · obtain ⟨r1', e1, a1, _⟩ := R.readByte_ok r1 buf p h1 hp
    obtain ⟨r2', e2, a2, _⟩ := R.readByte_ok r2 buf p h2 hp
    rw [e1, e2]; exact ⟨rfl, buf, p + 1, a1, a2⟩
  · rw [R.readByte_eof r1 buf p h1 (by omega), R.readByte_eof r2 buf p h2 (by omega)]; trivial

theorem readBuf_sim_lf {r1 r2 : Rd} (l : Nat) (h : Sim r1 r2) : Res.Rel PV (r1.readBuf l) (r2.readBuf l) := by
  obtain ⟨buf, p, h1, h2⟩ := h
  by_cases hp : p + l ≤ buf.length
  · obtain ⟨r1', e1, a1⟩ := R.readBuf_ok r1 buf p l h1 hp
    obtain ⟨r2', e2, a2⟩ := R.readBuf_ok r2 buf p l h2 hp
    rw [e1, e2]; exact ⟨rfl, buf, p + l, a1, a2⟩
  · rw [R.readBuf_err r1 buf p l h1 (by omega), R.readBuf_err r2 buf p l h2 (by omega)]; trivial

theorem readWire_sim_lf {r1 r2 : Rd} (l : Nat) (h : Sim r1 r2) : Res.Rel PV (r1.readWire l) (r2.readWire l) := by
  obtain ⟨buf, p, h1, h2⟩ := h
  by_cases hp : p + l ≤ buf.length
  · obtain ⟨r1', e1, a1⟩ := R.readWire_ok r1 buf p l h1 hp
    obtain ⟨r2', e2, a2⟩ := R.readWire_ok r2 buf p l h2 hp
    rw [e1, e2]; exact ⟨rfl, buf, p + l, a1, a2⟩
  · rw [R.readWire_err r1 buf p l h1 (by omega), R.readWire_err r2 buf p l h2 (by omega)]; trivial

theorem readFull_sim_lf {r1 r2 : Rd} (l : Nat) (h : Sim r1 r2) : Res.Rel PV (r1.readFull l) (r2.readFull l) := by
  obtain ⟨buf, p, h1, h2⟩ := h
  by_cases hp : p + l ≤ buf.length
  · obtain ⟨r1', e1, a1⟩ := R.readFull_ok r1 buf p l h1 hp
    obtain ⟨r2', e2, a2⟩ := R.readFull_ok r2 buf p l h2 hp
    rw [e1, e2]; exact ⟨rfl, buf, p + l, a1, a2⟩
  · rw [R.readFull_err r1 buf p l h1 (by omega), R.readFull_err r2 buf p l h2 (by omega)]; trivial

theorem skip_sim_lf {r1 r2 : Rd} (n : Nat) (h : Sim r1 r2) : Res.Rel Sim (r1.skip n) (r2.skip n) := by
  obtain ⟨buf, p, h1, h2⟩ := h
  by_cases hp : p + n ≤ buf.length
  · obtain ⟨r1', e1, a1⟩ := X.skip_ok r1 buf p n h1 hp
    obtain ⟨r2', e2, a2⟩ := X.skip_ok r2 buf p n h2 hp
    rw [e1, e2]; exact ⟨buf, p + n, a1, a2⟩
  · rw [X.skip_err r1 buf p n h1 (by omega), X.skip_err r2 buf p n h2 (by omega)]; trivial

theorem range_sim_lf {r1 r2 : Rd} (s e : Nat) (h : Sim r1 r2) : r1.range s e = r2.range s e := by
  obtain ⟨buf, p, h1, h2⟩ := h
  by_cases hp : s ≤ e ∧ e ≤ buf.length
  · rw [R.range_eq r1 buf p s e h1 hp.1 hp.2, R.range_eq r2 buf p s e h2 hp.1 hp.2]
  · have hc : e > buf.length ∨ s > e := by omega
    rw [X.range_oob r1 buf p s e h1 hc, X.range_oob r2 buf p s e h2 hc]

theorem delegate_sim_lf {r1 r2 : Rd} (l : Nat) (h : Sim r1 r2) : Res.Rel PD (r1.delegate l) (r2.delegate l) := by
  obtain ⟨buf, p, h1, h2⟩ := h
  by_cases hp : p + l ≤ buf.length
  · obtain ⟨s1, r1', e1, b1, a1⟩ := R.delegate_ok r1 buf p l h1 hp
    obtain ⟨s2, r2', e2, b2, a2⟩ := R.delegate_ok r2 buf p l h2 hp
    rw [e1, e2]; exact ⟨⟨_, 0, b1, b2⟩, buf, p + l, a1, a2⟩
  · obtain ⟨r1', e1, a1⟩ := X.delegate_oob r1 buf p l h1 (by omega)
    obtain ⟨r2', e2, a2⟩ := X.delegate_oob r2 buf p l h2 (by omega)
    rw [e1, e2]; exact ⟨⟨[], 0, at_empty_lf, at_empty_lf⟩, buf, p, a1, a2⟩

/-! ### primitive parsers -/

theorem readBytesAcc_sim_lf : ∀ (k : Nat) (r1 r2 : Rd) (acc : Nat), Sim r1 r2 →
    Res.Rel PV (readBytesAcc k r1 acc) (readBytesAcc k r2 acc) := by
  intro k
  induction k with
  | zero => intro r1 r2 acc h; exact ⟨rfl, h⟩
  | succ k ih =>
    intro r1 r2 acc h
    simp only [readBytesAcc]
    refine rel_bind_lf (readByte_sim_lf R X h) ?_
    rintro ⟨x, a⟩ ⟨y, b⟩ ⟨hxy, hs⟩
    simp only at hxy hs; subst hxy
    exact ih a b _ hs

theorem readTL_sim_lf {r1 r2 : Rd} (h : Sim r1 r2) : Res.Rel PV (readTL r1) (readTL r2) := by
  unfold readTL
  refine rel_bind_lf (readByte_sim_lf R X h) ?_
  rintro ⟨x, a⟩ ⟨y, b⟩ ⟨hxy, hs⟩
  simp only at hxy hs; subst hxy
  exact rel_ite_lf (fun _ => ⟨rfl, hs⟩) (fun _ => readBytesAcc_sim_lf R X _ _ _ _ hs)

theorem readNat_sim_lf {r1 r2 : Rd} (l w : Nat) (h : Sim r1 r2) :
    Res.Rel PV (readNat r1 l w) (readNat r2 l w) := by
  unfold readNat
  rw [pos_sim_lf R X h, length_sim_lf R X h]
  refine rel_ite_lf (fun _ => ⟨rfl, h⟩) (fun _ => rel_ite_lf (fun _ => trivial) (fun _ => ?_))
  refine rel_bind_lf (readBytesAcc_sim_lf R X _ _ _ _ h) ?_
  rintro ⟨x, a⟩ ⟨y, b⟩ ⟨hxy, hs⟩
  simp only at hxy hs; subst hxy
  exact ⟨rfl, hs⟩

theorem readNatural_sim_lf {r1 r2 : Rd} (l : Nat) (h : Sim r1 r2) :
    Res.Rel PV (readNatural r1 l) (readNatural r2 l) := by
  unfold readNatural
  exact rel_ite_lf (fun _ => readNat_sim_lf R X l 64 h) (fun _ => trivial)

theorem lenGuard_sim_lf {r1 r2 : Rd} (l : Nat) (h : Sim r1 r2) : lenGuard r1 l = lenGuard r2 l := by
  unfold lenGuard
  rw [pos_sim_lf R X h, length_sim_lf R X h]

theorem readString_sim_lf {r1 r2 : Rd} (l : Nat) (h : Sim r1 r2) :
    Res.Rel PV (readString r1 l) (readString r2 l) := by
  unfold readString
  exact rel_ite_lf (fun _ => ⟨rfl, h⟩) (fun _ => readFull_sim_lf R X l h)

/-! ### names -/

theorem nameLoop_sim_lf : ∀ (fuel : Nat) (r1 r2 : Rd) (endName : Nat) (acc : Name) (sigEnd : Nat), Sim r1 r2 →
    Res.Rel PV3 (nameLoop fuel r1 endName acc sigEnd) (nameLoop fuel r2 endName acc sigEnd) := by
  intro fuel
  induction fuel with
  | zero =>
    intro r1 r2 endName acc sigEnd h
    simp only [nameLoop]
    rw [pos_sim_lf R X h]
    exact rel_ite_lf (fun _ => trivial) (fun _ => ⟨rfl, rfl, h⟩)
  | succ fuel ih =>
    intro r1 r2 endName acc sigEnd h
    simp only [nameLoop]
    rw [pos_sim_lf R X h]
    refine rel_ite_lf (fun _ => rel_ite_lf (fun _ => trivial) (fun _ => ⟨rfl, rfl, h⟩)) (fun _ => ?_)
    refine rel_bind_lf (readTL_sim_lf R X h) ?_
    rintro ⟨t, a⟩ ⟨t', b⟩ ⟨ht, hs⟩
    simp only at ht hs; subst ht
    refine rel_bind_lf (readTL_sim_lf R X hs) ?_
    rintro ⟨l, a2⟩ ⟨l', b2⟩ ⟨hl, hs2⟩
    simp only at hl hs2; subst hl
    refine rel_bind_lf (readBuf_sim_lf R X l hs2) ?_
    rintro ⟨v, a3⟩ ⟨v', b3⟩ ⟨hv, hs3⟩
    simp only at hv hs3; subst hv
    exact ih a3 b3 _ _ _ hs3

theorem readNameField_sim_lf {r1 r2 : Rd} (l : Nat) (h : Sim r1 r2) :
    Res.Rel PV3 (readNameField r1 l) (readNameField r2 l) := by
  simp only [readNameField]
  rw [lenGuard_sim_lf R X l h, pos_sim_lf R X h]
  exact rel_bind_same_lf _ (fun _ => nameLoop_sim_lf R X _ _ _ _ _ _ h)

/-! ### the generic TLV loop -/

theorem tlvLoop_sim_lf {σ : Type} (body : σ → Nat → Nat → Nat → Rd → Res (σ × Rd))
    (hb : ∀ st typ l sp r1 r2, Sim r1 r2 → Res.Rel PV (body st typ l sp r1) (body st typ l sp r2)) :
    ∀ (fuel : Nat) (st : σ) (r1 r2 : Rd), Sim r1 r2 →
      Res.Rel PV (tlvLoop body fuel st r1) (tlvLoop body fuel st r2) := by
  intro fuel
  induction fuel with
  | zero => intro st r1 r2 _; exact rel_oom_lf
  | succ fuel ih =>
    intro st r1 r2 h
    simp only [tlvLoop]
    rw [pos_sim_lf R X h, length_sim_lf R X h]
    refine rel_ite_lf (fun _ => ⟨rfl, h⟩) (fun _ => ?_)
    refine rel_bind_lf (readTL_sim_lf R X h) ?_
    rintro ⟨t, a⟩ ⟨t', b⟩ ⟨ht, hs⟩
    simp only at ht hs; subst ht
    refine rel_bind_lf (readTL_sim_lf R X hs) ?_
    rintro ⟨l, a2⟩ ⟨l', b2⟩ ⟨hl, hs2⟩
    simp only at hl hs2; subst hl
    refine rel_bind_lf (hb _ _ _ _ _ _ hs2) ?_
    rintro ⟨st', a3⟩ ⟨st'', b3⟩ ⟨hv, hs3⟩
    simp only at hv hs3; subst hv
    exact ih _ a3 b3 hs3

theorem loopFuel_sim_lf {r1 r2 : Rd} (h : Sim r1 r2) : loopFuel r1 = loopFuel r2 := by
  unfold loopFuel
  rw [pos_sim_lf R X h, length_sim_lf R X h]

theorem unknownField_sim_lf {σ : Type} (st : σ) (typ l : Nat) {r1 r2 : Rd} (h : Sim r1 r2) :
    Res.Rel PV (unknownField st typ l r1) (unknownField st typ l r2) := by
  unfold unknownField
  refine rel_ite_lf (fun _ => trivial) (fun _ => ?_)
  refine rel_bind_lf (skip_sim_lf R X l h) ?_
  intro a b hs
  exact ⟨rfl, hs⟩

/-! ### unordered sub-structures -/

theorem keyLocBody_sim_lf (k : KeyLoc) (typ l sp : Nat) {r1 r2 : Rd} (h : Sim r1 r2) :
    Res.Rel PV (keyLocBody k typ l sp r1) (keyLocBody k typ l sp r2) := by
  unfold keyLocBody
  refine rel_ite_lf (fun _ => ?_) (fun _ => rel_ite_lf (fun _ => ?_) (fun _ => unknownField_sim_lf R X _ _ _ h))
  · refine rel_bind_lf (readNameField_sim_lf R X l h) ?_
    rintro ⟨n, e, a⟩ ⟨n', e', b⟩ ⟨h1, _, hs⟩
    simp only at h1 hs; subst h1
    exact ⟨rfl, hs⟩
  · rw [lenGuard_sim_lf R X l h]
    refine rel_bind_same_lf _ (fun _ => ?_)
    refine rel_bind_lf (readFull_sim_lf R X l h) ?_
    rintro ⟨v, a⟩ ⟨v', b⟩ ⟨h1, hs⟩
    simp only at h1 hs; subst h1
    exact ⟨rfl, hs⟩

theorem parseKeyLoc_sim_lf {r1 r2 : Rd} (h : Sim r1 r2) : parseKeyLoc r1 = parseKeyLoc r2 := by
  apply rel_eq_lf
  unfold parseKeyLoc
  rw [loopFuel_sim_lf R X h]
  refine rel_bind_lf (tlvLoop_sim_lf R X keyLocBody (fun _ _ _ _ _ _ hs => keyLocBody_sim_lf R X _ _ _ _ hs) _ _ _ _ h) ?_
  rintro ⟨k, a⟩ ⟨k', b⟩ ⟨h1, _⟩
  simp only at h1; subst h1
  exact rel_refl_lf _

theorem validityBody_sim_lf (v : Option Bytes × Option Bytes) (typ l sp : Nat) {r1 r2 : Rd} (h : Sim r1 r2) :
    Res.Rel PV (validityBody v typ l sp r1) (validityBody v typ l sp r2) := by
  unfold validityBody
  refine rel_ite_lf (fun _ => ?_) (fun _ => rel_ite_lf (fun _ => ?_) (fun _ => unknownField_sim_lf R X _ _ _ h))
  · refine rel_bind_lf (readString_sim_lf R X l h) ?_
    rintro ⟨s, a⟩ ⟨s', b⟩ ⟨h1, hs⟩
    simp only at h1 hs; subst h1
    exact ⟨rfl, hs⟩
  · refine rel_bind_lf (readString_sim_lf R X l h) ?_
    rintro ⟨s, a⟩ ⟨s', b⟩ ⟨h1, hs⟩
    simp only at h1 hs; subst h1
    exact ⟨rfl, hs⟩

theorem parseValidity_sim_lf {r1 r2 : Rd} (h : Sim r1 r2) : parseValidity r1 = parseValidity r2 := by
  apply rel_eq_lf
  unfold parseValidity
  rw [loopFuel_sim_lf R X h]
  refine rel_bind_lf (tlvLoop_sim_lf R X validityBody (fun _ _ _ _ _ _ hs => validityBody_sim_lf R X _ _ _ _ hs) _ _ _ _ h) ?_
  rintro ⟨k, a⟩ ⟨k', b⟩ ⟨h1, _⟩
  simp only at h1; subst h1
  exact rel_refl_lf _

theorem sigInfoBody_sim_lf (s : SigInfoSt) (typ l sp : Nat) {r1 r2 : Rd} (h : Sim r1 r2) :
    Res.Rel PV (sigInfoBody s typ l sp r1) (sigInfoBody s typ l sp r2) := by
  unfold sigInfoBody
  refine rel_ite_lf (fun _ => ?_) (fun _ => rel_ite_lf (fun _ => ?_) (fun _ => rel_ite_lf (fun _ => ?_) (fun _ =>
    rel_ite_lf (fun _ => ?_) (fun _ => rel_ite_lf (fun _ => ?_) (fun _ => rel_ite_lf (fun _ => ?_) (fun _ =>
    rel_ite_lf (fun _ => rel_oom_lf) (fun _ => unknownField_sim_lf R X _ _ _ h)))))))
  · refine rel_bind_lf (readNatural_sim_lf R X l h) ?_
    rintro ⟨v, a⟩ ⟨v', b⟩ ⟨h1, hs⟩
    simp only at h1 hs; subst h1
    exact ⟨rfl, hs⟩
  · refine rel_bind_lf (delegate_sim_lf R X l h) ?_
    rintro ⟨s1, a⟩ ⟨s2, b⟩ ⟨h1, hs⟩
    simp only at h1 hs
    simp only [parseKeyLoc_sim_lf R X h1]
    refine rel_bind_same_lf _ (fun _ => ⟨rfl, hs⟩)
  · rw [lenGuard_sim_lf R X l h]
    refine rel_bind_same_lf _ (fun _ => ?_)
    refine rel_bind_lf (readFull_sim_lf R X l h) ?_
    rintro ⟨v, a⟩ ⟨v', b⟩ ⟨h1, hs⟩
    simp only at h1 hs; subst h1
    exact ⟨rfl, hs⟩
  · refine rel_bind_lf (readNatural_sim_lf R X l h) ?_
    rintro ⟨v, a⟩ ⟨v', b⟩ ⟨h1, hs⟩
    simp only at h1 hs; subst h1
    exact ⟨rfl, hs⟩
  · refine rel_bind_lf (readNatural_sim_lf R X l h) ?_
    rintro ⟨v, a⟩ ⟨v', b⟩ ⟨h1, hs⟩
    simp only at h1 hs; subst h1
    exact ⟨rfl, hs⟩
  · refine rel_bind_lf (delegate_sim_lf R X l h) ?_
    rintro ⟨s1, a⟩ ⟨s2, b⟩ ⟨h1, hs⟩
    simp only at h1 hs
    simp only [parseValidity_sim_lf R X h1]
    refine rel_bind_same_lf _ (fun _ => ⟨rfl, hs⟩)

theorem parseSigInfo_sim_lf {r1 r2 : Rd} (h : Sim r1 r2) : parseSigInfo r1 = parseSigInfo r2 := by
  apply rel_eq_lf
  unfold parseSigInfo
  rw [loopFuel_sim_lf R X h]
  refine rel_bind_lf (tlvLoop_sim_lf R X sigInfoBody (fun _ _ _ _ _ _ hs => sigInfoBody_sim_lf R X _ _ _ _ hs) _ _ _ _ h) ?_
  rintro ⟨k, a⟩ ⟨k', b⟩ ⟨h1, _⟩
  simp only at h1; subst h1
  exact rel_refl_lf _

theorem metaBody_sim_lf (m : MetaInfo) (typ l sp : Nat) {r1 r2 : Rd} (h : Sim r1 r2) :
    Res.Rel PV (metaBody m typ l sp r1) (metaBody m typ l sp r2) := by
  unfold metaBody
  refine rel_ite_lf (fun _ => ?_) (fun _ => rel_ite_lf (fun _ => ?_) (fun _ => rel_ite_lf (fun _ => ?_)
    (fun _ => unknownField_sim_lf R X _ _ _ h)))
  · refine rel_bind_lf (readNatural_sim_lf R X l h) ?_
    rintro ⟨v, a⟩ ⟨v', b⟩ ⟨h1, hs⟩
    simp only at h1 hs; subst h1
    exact ⟨rfl, hs⟩
  · refine rel_bind_lf (readNatural_sim_lf R X l h) ?_
    rintro ⟨v, a⟩ ⟨v', b⟩ ⟨h1, hs⟩
    simp only at h1 hs; subst h1
    exact ⟨rfl, hs⟩
  · rw [lenGuard_sim_lf R X l h]
    refine rel_bind_same_lf _ (fun _ => ?_)
    refine rel_bind_lf (readFull_sim_lf R X l h) ?_
    rintro ⟨v, a⟩ ⟨v', b⟩ ⟨h1, hs⟩
    simp only at h1 hs; subst h1
    exact ⟨rfl, hs⟩

theorem parseMeta_sim_lf {r1 r2 : Rd} (h : Sim r1 r2) : parseMeta r1 = parseMeta r2 := by
  apply rel_eq_lf
  unfold parseMeta
  rw [loopFuel_sim_lf R X h]
  refine rel_bind_lf (tlvLoop_sim_lf R X metaBody (fun _ _ _ _ _ _ hs => metaBody_sim_lf R X _ _ _ _ hs) _ _ _ _ h) ?_
  rintro ⟨k, a⟩ ⟨k', b⟩ ⟨h1, _⟩
  simp only at h1; subst h1
  exact rel_refl_lf _

theorem linksBody_sim_lf (ns : List Name) (typ l sp : Nat) {r1 r2 : Rd} (h : Sim r1 r2) :
    Res.Rel PV (linksBody ns typ l sp r1) (linksBody ns typ l sp r2) := by
  unfold linksBody
  refine rel_ite_lf (fun _ => ?_) (fun _ => unknownField_sim_lf R X _ _ _ h)
  refine rel_bind_lf (readNameField_sim_lf R X l h) ?_
  rintro ⟨n, e, a⟩ ⟨n', e', b⟩ ⟨h1, _, hs⟩
  simp only at h1 hs; subst h1
  exact ⟨rfl, hs⟩

theorem parseLinks_sim_lf {r1 r2 : Rd} (h : Sim r1 r2) : parseLinks r1 = parseLinks r2 := by
  apply rel_eq_lf
  unfold parseLinks
  rw [loopFuel_sim_lf R X h]
  refine rel_bind_lf (tlvLoop_sim_lf R X linksBody (fun _ _ _ _ _ _ hs => linksBody_sim_lf R X _ _ _ _ hs) _ _ _ _ h) ?_
  rintro ⟨k, a⟩ ⟨k', b⟩ ⟨h1, _⟩
  simp only at h1; subst h1
  exact rel_refl_lf _

/-! ### ordered models -/

theorem ordLoop_sim_lf {σ : Type} (n : Nat) (idx : Nat → Option Nat)
    (handle : Nat → σ → Nat → Nat → Rd → Res (σ × Rd)) (absent : Nat → σ → Nat → Rd → σ)
    (hh : ∀ k st l sp r1 r2, Sim r1 r2 → Res.Rel PV (handle k st l sp r1) (handle k st l sp r2))
    (ha : ∀ k st sp r1 r2, Sim r1 r2 → absent k st sp r1 = absent k st sp r2)
    (typ l sp : Nat) : ∀ (fuel q : Nat) (st : σ) (r1 r2 : Rd), Sim r1 r2 →
      Res.Rel PV (ordLoop n idx handle absent typ l sp fuel q st r1)
        (ordLoop n idx handle absent typ l sp fuel q st r2) := by
  intro fuel
  induction fuel with
  | zero => intro q st r1 r2 h; exact ⟨rfl, h⟩
  | succ fuel ih =>
    intro q st r1 r2 h
    simp only [ordLoop]
    refine rel_ite_lf (fun _ => ⟨rfl, h⟩) (fun _ => ?_)
    cases hi : idx typ with
    | none =>
      simp only []
      refine rel_ite_lf (fun _ => trivial) (fun _ => ?_)
      refine rel_bind_lf (skip_sim_lf R X l h) ?_
      intro a b hs
      exact ⟨rfl, hs⟩
    | some k =>
      simp only []
      refine rel_ite_lf (fun _ => ?_) (fun _ => ?_)
      · refine rel_bind_lf (hh _ _ _ _ _ _ h) ?_
        rintro ⟨v, a⟩ ⟨v', b⟩ ⟨h1, hs⟩
        simp only at h1 hs; subst h1
        exact ⟨rfl, hs⟩
      · rw [ha q st sp r1 r2 h]
        exact ih _ _ _ _ h

theorem ordFinish_sim_lf {σ : Type} (absent : Nat → σ → Nat → Rd → σ)
    (ha : ∀ k st sp r1 r2, Sim r1 r2 → absent k st sp r1 = absent k st sp r2)
    {r1 r2 : Rd} (h : Sim r1 r2) : ∀ (fuel q : Nat) (st : σ),
      ordFinish absent r1 fuel q st = ordFinish absent r2 fuel q st := by
  intro fuel
  induction fuel with
  | zero => intro q st; rfl
  | succ fuel ih =>
    intro q st
    simp only [ordFinish]
    rw [pos_sim_lf R X h, ha q st r2.pos r1 r2 h]
    exact ih _ _

/-! ### Data -/

theorem dataHandle_sim_lf (k : Nat) (s : DataSt) (l sp : Nat) {r1 r2 : Rd} (h : Sim r1 r2) :
    Res.Rel PV (dataHandle k s l sp r1) (dataHandle k s l sp r2) := by
  unfold dataHandle
  refine rel_ite_lf (fun _ => ?_) (fun _ => rel_ite_lf (fun _ => ?_) (fun _ => rel_ite_lf (fun _ => ?_) (fun _ =>
    rel_ite_lf (fun _ => ?_) (fun _ => ?_))))
  · refine rel_bind_lf (readNameField_sim_lf R X l h) ?_
    rintro ⟨n, e, a⟩ ⟨n', e', b⟩ ⟨h1, _, hs⟩
    simp only at h1 hs; subst h1
    exact ⟨rfl, hs⟩
  · refine rel_bind_lf (delegate_sim_lf R X l h) ?_
    rintro ⟨s1, a⟩ ⟨s2, b⟩ ⟨h1, hs⟩
    simp only at h1 hs
    simp only [parseMeta_sim_lf R X h1]
    refine rel_bind_same_lf _ (fun _ => ⟨rfl, hs⟩)
  · refine rel_bind_lf (readWire_sim_lf R X l h) ?_
    rintro ⟨v, a⟩ ⟨v', b⟩ ⟨h1, hs⟩
    simp only at h1 hs; subst h1
    exact ⟨rfl, hs⟩
  · refine rel_bind_lf (delegate_sim_lf R X l h) ?_
    rintro ⟨s1, a⟩ ⟨s2, b⟩ ⟨h1, hs⟩
    simp only at h1 hs
    simp only [parseSigInfo_sim_lf R X h1]
    refine rel_bind_same_lf _ (fun _ => ⟨rfl, hs⟩)
  · refine rel_bind_lf (readWire_sim_lf R X l h) ?_
    rintro ⟨v, a⟩ ⟨v', b⟩ ⟨h1, hs⟩
    simp only at h1 hs; subst h1
    simp only [range_sim_lf R X _ _ hs]
    exact ⟨rfl, hs⟩

theorem dataAbsent_sim_lf (k : Nat) (s : DataSt) (sp : Nat) (r1 r2 : Rd) :
    dataAbsent k s sp r1 = dataAbsent k s sp r2 := rfl

theorem dataBody_sim_lf (s : DataSt × Nat) (typ l sp : Nat) {r1 r2 : Rd} (h : Sim r1 r2) :
    Res.Rel PV (dataBody s typ l sp r1) (dataBody s typ l sp r2) := by
  unfold dataBody
  exact ordLoop_sim_lf R X 7 dataIdx dataHandle dataAbsent
    (fun _ _ _ _ _ _ hs => dataHandle_sim_lf R X _ _ _ _ hs)
    (fun _ _ _ _ _ _ => rfl) typ l sp 9 s.2 s.1 r1 r2 h

theorem parseData_sim_lf (s0 : DataSt) {r1 r2 : Rd} (h : Sim r1 r2) : parseData s0 r1 = parseData s0 r2 := by
  apply rel_eq_lf
  unfold parseData
  rw [loopFuel_sim_lf R X h]
  refine rel_bind_lf (tlvLoop_sim_lf R X dataBody (fun _ _ _ _ _ _ hs => dataBody_sim_lf R X _ _ _ _ hs) _ _ _ _ h) ?_
  rintro ⟨⟨s, q⟩, a⟩ ⟨⟨s', q'⟩, b⟩ ⟨h1, hs⟩
  simp only at h1 hs
  cases h1
  simp only [ordFinish_sim_lf R X dataAbsent (fun _ _ _ _ _ _ => rfl) hs]
  exact rel_refl_lf _

/-! ### Interest -/

theorem interestHandle_sim_lf (k : Nat) (s : InterestSt) (l sp : Nat) {r1 r2 : Rd} (h : Sim r1 r2) :
    Res.Rel PV (interestHandle k s l sp r1) (interestHandle k s l sp r2) := by
  unfold interestHandle
  refine rel_ite_lf (fun _ => ?_) (fun _ => rel_ite_lf (fun _ => ⟨rfl, h⟩) (fun _ => rel_ite_lf (fun _ => ⟨rfl, h⟩) (fun _ =>
    rel_ite_lf (fun _ => ?_) (fun _ => rel_ite_lf (fun _ => ?_) (fun _ => rel_ite_lf (fun _ => ?_) (fun _ =>
    rel_ite_lf (fun _ => ?_) (fun _ => rel_ite_lf (fun _ => ?_) (fun _ => rel_ite_lf (fun _ => ?_) (fun _ => ?_)))))))))
  · simp only [pos_sim_lf R X h]
    refine rel_bind_lf (readNameField_sim_lf R X l h) ?_
    rintro ⟨n, e, a⟩ ⟨n', e', b⟩ ⟨h1, h2, hs⟩
    simp only at h1 h2 hs; subst h1; subst h2
    simp only [range_sim_lf R X _ _ hs]
    exact ⟨rfl, hs⟩
  · refine rel_bind_lf (delegate_sim_lf R X l h) ?_
    rintro ⟨s1, a⟩ ⟨s2, b⟩ ⟨h1, hs⟩
    simp only at h1 hs
    simp only [parseLinks_sim_lf R X h1]
    refine rel_bind_same_lf _ (fun _ => ⟨rfl, hs⟩)
  · refine rel_bind_lf (readNat_sim_lf R X l 32 h) ?_
    rintro ⟨v, a⟩ ⟨v', b⟩ ⟨h1, hs⟩
    simp only at h1 hs; subst h1
    exact ⟨rfl, hs⟩
  · refine rel_bind_lf (readNatural_sim_lf R X l h) ?_
    rintro ⟨v, a⟩ ⟨v', b⟩ ⟨h1, hs⟩
    simp only at h1 hs; subst h1
    exact ⟨rfl, hs⟩
  · have hk := skip_sim_lf R X 1 h
    cases e1 : r1.skip 1 <;> cases e2 : r2.skip 1 <;> rw [e1, e2] at hk <;> simp only [Res.Rel] at hk
    · rename_i a b
      simp only [pos_sim_lf R X hk, range_sim_lf R X _ _ hk]
      cases b.range (b.pos - 1) b.pos with
      | nil => simp [Res.Rel]
      | cons x t => exact ⟨rfl, hk⟩
    all_goals first | trivial | (subst hk; simp [Res.Rel])
  · refine rel_bind_lf (readWire_sim_lf R X l h) ?_
    rintro ⟨v, a⟩ ⟨v', b⟩ ⟨h1, hs⟩
    simp only at h1 hs; subst h1
    exact ⟨rfl, hs⟩
  · refine rel_bind_lf (delegate_sim_lf R X l h) ?_
    rintro ⟨s1, a⟩ ⟨s2, b⟩ ⟨h1, hs⟩
    simp only at h1 hs
    simp only [parseSigInfo_sim_lf R X h1]
    refine rel_bind_same_lf _ (fun _ => ⟨rfl, hs⟩)
  · refine rel_bind_lf (readWire_sim_lf R X l h) ?_
    rintro ⟨v, a⟩ ⟨v', b⟩ ⟨h1, hs⟩
    simp only at h1 hs; subst h1
    simp only [range_sim_lf R X _ _ hs]
    exact ⟨rfl, hs⟩

theorem interestAbsent_sim_lf (k : Nat) (s : InterestSt) (sp : Nat) {r1 r2 : Rd} (h : Sim r1 r2) :
    interestAbsent k s sp r1 = interestAbsent k s sp r2 := by
  unfold interestAbsent
  rw [range_sim_lf R X _ _ h]

theorem interestBody_sim_lf (s : InterestSt × Nat) (typ l sp : Nat) {r1 r2 : Rd} (h : Sim r1 r2) :
    Res.Rel PV (interestBody s typ l sp r1) (interestBody s typ l sp r2) := by
  unfold interestBody
  exact ordLoop_sim_lf R X 15 interestIdx interestHandle interestAbsent
    (fun _ _ _ _ _ _ hs => interestHandle_sim_lf R X _ _ _ _ hs)
    (fun _ _ _ _ _ hs => interestAbsent_sim_lf R X _ _ _ hs) typ l sp 17 s.2 s.1 r1 r2 h

theorem parseInterest_sim_lf (s0 : InterestSt) {r1 r2 : Rd} (h : Sim r1 r2) :
    parseInterest s0 r1 = parseInterest s0 r2 := by
  apply rel_eq_lf
  unfold parseInterest
  rw [loopFuel_sim_lf R X h]
  refine rel_bind_lf (tlvLoop_sim_lf R X interestBody (fun _ _ _ _ _ _ hs => interestBody_sim_lf R X _ _ _ _ hs) _ _ _ _ h) ?_
  rintro ⟨⟨s, q⟩, a⟩ ⟨⟨s', q'⟩, b⟩ ⟨h1, hs⟩
  simp only at h1 hs
  cases h1
  simp only [ordFinish_sim_lf R X interestAbsent (fun _ _ _ _ _ hs => interestAbsent_sim_lf R X _ _ _ hs) hs]
  exact rel_refl_lf _

/-! ### Packet -/

theorem packetBody_sim_lf (p : PacketSt) (typ l sp : Nat) {r1 r2 : Rd} (h : Sim r1 r2) :
    Res.Rel PV (packetBody p typ l sp r1) (packetBody p typ l sp r2) := by
  unfold packetBody
  refine rel_ite_lf (fun _ => ?_) (fun _ => rel_ite_lf (fun _ => ?_) (fun _ =>
    rel_ite_lf (fun _ => rel_oom_lf) (fun _ => unknownField_sim_lf R X _ _ _ h)))
  · refine rel_bind_lf (delegate_sim_lf R X l h) ?_
    rintro ⟨s1, a⟩ ⟨s2, b⟩ ⟨h1, hs⟩
    simp only at h1 hs
    simp only [parseInterest_sim_lf R X _ h1]
    refine rel_bind_same_lf _ (fun _ => ⟨rfl, hs⟩)
  · refine rel_bind_lf (delegate_sim_lf R X l h) ?_
    rintro ⟨s1, a⟩ ⟨s2, b⟩ ⟨h1, hs⟩
    simp only at h1 hs
    simp only [parseData_sim_lf R X _ h1]
    refine rel_bind_same_lf _ (fun _ => ⟨rfl, hs⟩)

theorem parsePacket_sim (r1 r2 : Rd) (h : Sim r1 r2) : parsePacket r1 = parsePacket r2 := by
  apply rel_eq_lf
  unfold parsePacket
  rw [loopFuel_sim_lf R X h]
  refine rel_bind_lf (tlvLoop_sim_lf R X packetBody (fun _ _ _ _ _ _ hs => packetBody_sim_lf R X _ _ _ _ hs) _ _ _ _ h) ?_
  rintro ⟨k, a⟩ ⟨k', b⟩ ⟨h1, _⟩
  simp only at h1; subst h1
  exact rel_refl_lf _

/-- `Spec{}.ReadData` over two healthy readers at the same logical state: same outcome -/
theorem readData_sim (r1 r2 : Rd) (h : Sim r1 r2) : readData r1 = readData r2 := by
  unfold readData
  rw [parsePacket_sim R X r1 r2 h]

/-- `Spec{}.ReadInterest` over two healthy readers at the same logical state: same outcome -/
theorem readInterest_sim (H : Bytes → Bytes) (r1 r2 : Rd) (h : Sim r1 r2) :
    readInterest H r1 = readInterest H r2 := by
  unfold readInterest
  rw [parsePacket_sim R X r1 r2 h]

/-- `ReadPacket` over two healthy readers at the same logical state: same outcome -/
theorem readPacket_sim (H : Bytes → Bytes) (r1 r2 : Rd) (h : Sim r1 r2) :
    readPacket H r1 = readPacket H r2 := by
  unfold readPacket
  rw [parsePacket_sim R X r1 r2 h]

end

end Ndn.C03
