/-
  C03/LemmasEncData.lean — MakeData output in normal form (`EncSpecs.makeData_flatten`).
-/
import NdnVerif.C03.LemmasEncPrim
namespace Ndn.C03

theorem dataSigCovered_eq (d : DataIn) : dataSigCovered d = dataCovered d := by
  unfold dataSigCovered dataCovered
  cases d.content <;> simp [optB]

theorem wrapPacket_flatten_enc (t len : Nat) (segs : List Bytes) :
    (wrapPacket t len segs).flatten = encTL t ++ encTL len ++ segs.flatten := by
  cases segs <;> simp [wrapPacket]

theorem siTLV_length_enc (t : Nat) (ht : t ≤ 252) (si : Option SigInfo) :
    (optB si (fun s => encTL t ++ encTL (sigInfoLen s) ++ encSigInfo s)).length
      = optN si (fun s => 1 + tlLen (sigInfoLen s) + sigInfoLen s) := by
  apply optB_length
  intro s
  simp [encTL_length, sigInfoLen_eq_thm, tlLen_small_enc ht]; omega

theorem contentTLV_length_enc (t : Nat) (ht : t ≤ 252) (c : Option (List Bytes)) :
    (optB c (fun c => encTL t ++ encTL (contentLen c) ++ c.flatten)).length
      = optN c (fun c => 1 + tlLen (contentLen c) + contentLen c) := by
  apply optB_length
  intro s
  simp only [List.length_append, encTL_length, contentLen_eq_enc, tlLen_small_enc ht]

theorem dataHead_length_enc (d : DataIn) :
    (dataHead d).length = nameFieldLen 7 d.name + (1 + tlLen (metaLen d.mi) + metaLen d.mi) := by
  simp [dataHead, encNameField_length, encTL_length, metaLen_eq_thm, tlLen_small_enc]; omega

theorem dataValue_length_enc (d : DataIn) (sv : Bytes) :
    (dataValue d sv).length = nameFieldLen 7 d.name + (1 + tlLen (metaLen d.mi) + metaLen d.mi)
      + optN d.content (fun c => 1 + tlLen (contentLen c) + contentLen c)
      + optN d.si (fun s => 1 + tlLen (sigInfoLen s) + sigInfoLen s)
      + (if d.est > 0 then 1 + tlLen sv.length + sv.length else 0) := by
  unfold dataValue
  simp only [List.length_append, dataHead_length_enc, siTLV_length_enc 22 (by omega),
    contentTLV_length_enc 21 (by omega)]
  split <;> simp [encTL_length, tlLen_small_enc]; omega

theorem ifNil_flatten_enc (t : Bytes) : (if t = [] then [] else [t] : List Bytes).flatten = t := by
  split <;> simp [*]

/-- unsigned Data: the segments joined are the value -/
theorem dataSegs_flatten_unsigned_enc (d : DataIn) (h : d.est = 0) (sv : Bytes) :
    (dataSegs d).flatten = dataValue d sv := by
  unfold dataSegs dataValue dataTail sigTL
  cases hc : d.content with
  | none => simp [h, optB]
  | some c => simp [h, optB, ifNil_flatten_enc]

theorem makeData_unsigned_enc (d : DataIn) (sign : Bytes → Bytes) (h : d.est = 0) :
    makeData d sign = .ok { wire := wrapPacket 6 (dataLen d) (dataSegs d), sigCovered := none } := by
  unfold makeData; rw [if_neg (by omega)]; rfl

theorem makeData_toolong_enc (d : DataIn) (sign : Bytes → Bytes) (h : d.est > 0)
    (hsv : (sign (dataSigCovered d)).length > d.est) : makeData d sign = .err := by
  unfold makeData; rw [if_pos h]; dsimp only; rw [if_pos hsv]

theorem makeData_signed_enc (d : DataIn) (sign : Bytes → Bytes) (h : d.est > 0)
    (hsv : (sign (dataSigCovered d)).length ≤ d.est) (w0 : Bytes)
    (hw : shrinkLength ((patchSig (wrapPacket 6 (dataLen d) (dataSegs d)) (dataSigIdx d) d.est
        (sign (dataSigCovered d))).getD 0 []) (fixSigShrink d.est (sign (dataSigCovered d)).length) = .ok w0) :
    makeData d sign = .ok (Encoded.mk ((patchSig (wrapPacket 6 (dataLen d) (dataSegs d)) (dataSigIdx d) d.est
        (sign (dataSigCovered d))).set 0 w0) (some (dataSigCovered d)) (sign (dataSigCovered d))) := by
  unfold makeData; rw [if_pos h]; dsimp only; rw [if_neg (by omega), hw, Res.bind_ok]; rfl

/-- the SignatureInfo TLV of a Data -/
def dataSI_enc (d : DataIn) : Bytes := optB d.si (fun s => encTL 22 ++ encTL (sigInfoLen s) ++ encSigInfo s)

theorem dataValue_none_enc (d : DataIn) (sv : Bytes) (hc : d.content = none) (h : d.est > 0) :
    dataValue d sv = dataHead d ++ dataSI_enc d ++ encTL 23 ++ encTL sv.length ++ sv := by
  unfold dataValue dataSI_enc; rw [hc, if_pos h]; simp [optB]

theorem dataValue_some_enc (d : DataIn) (sv : Bytes) (c : List Bytes) (hc : d.content = some c) (h : d.est > 0) :
    dataValue d sv = dataHead d ++ encTL 21 ++ encTL (contentLen c) ++ c.flatten ++ dataSI_enc d
      ++ encTL 23 ++ encTL sv.length ++ sv := by
  unfold dataValue dataSI_enc; rw [hc, if_pos h]; simp [optB]

theorem data_signed_wire_enc (d : DataIn) (sv : Bytes) (h : d.est > 0) (hsv : sv.length ≤ d.est)
    (hv : dataLen d + 16 < 2 ^ 62) :
    ∃ w0, shrinkLength ((patchSig (wrapPacket 6 (dataLen d) (dataSegs d)) (dataSigIdx d) d.est sv).getD 0 [])
        (fixSigShrink d.est sv.length) = .ok w0
      ∧ ((patchSig (wrapPacket 6 (dataLen d) (dataSegs d)) (dataSigIdx d) d.est sv).set 0 w0).flatten
        = encTL 6 ++ encTL (dataValue d sv).length ++ dataValue d sv := by
  have hmono := tlLen_mono_enc hsv
  have h23 : tlLen 23 = 1 := by decide
  have hlen : dataLen d - fixSigShrink d.est sv.length = (dataValue d sv).length := by
    rw [dataValue_length_enc]; unfold dataLen sigTLLen fixSigShrink
    rw [if_pos h, if_pos h]; omega
  have hle : fixSigShrink d.est sv.length ≤ dataLen d := by
    unfold dataLen sigTLLen fixSigShrink; rw [if_pos h]; omega
  cases hc : d.content with
  | none =>
    have hW : wrapPacket 6 (dataLen d) (dataSegs d)
        = [] ++ [(encTL 6 ++ encTL (dataLen d) ++ (dataHead d ++ dataSI_enc d ++ encTL 23)) ++ encTL d.est, []] := by
      simp [wrapPacket, dataSegs, hc, h, dataTail, sigTL, dataSI_enc]
    have hidx : dataSigIdx d = ([] : List Bytes).length + 1 := by simp [dataSigIdx, hc]
    rw [hW, hidx, patchSig_app_enc]
    have hs := shrinkLength_spec 6 (dataLen d) (fixSigShrink d.est sv.length)
      ((dataHead d ++ dataSI_enc d ++ encTL 23) ++ encTL sv.length) (by omega) (by omega) hle
    simp only [List.nil_append, List.getD_cons_zero, List.append_assoc] at hs ⊢
    refine ⟨_, hs, ?_⟩
    rw [hlen, dataValue_none_enc d sv hc h]
    simp
  | some c =>
    have hW : wrapPacket 6 (dataLen d) (dataSegs d)
        = ((encTL 6 ++ encTL (dataLen d) ++ (dataHead d ++ (encTL 21 ++ encTL (contentLen c)))) :: c)
          ++ [(dataSI_enc d ++ encTL 23) ++ encTL d.est, []] := by
      simp [wrapPacket, dataSegs, hc, h, dataTail, sigTL, dataSI_enc]
    have hidx : dataSigIdx d
        = ((encTL 6 ++ encTL (dataLen d) ++ (dataHead d ++ (encTL 21 ++ encTL (contentLen c)))) :: c).length + 1 := by
      simp [dataSigIdx, hc]
    rw [hW, hidx, patchSig_app_enc]
    have hs := shrinkLength_spec 6 (dataLen d) (fixSigShrink d.est sv.length)
      (dataHead d ++ (encTL 21 ++ encTL (contentLen c))) (by omega) (by omega) hle
    simp only [List.cons_append, List.getD_cons_zero, List.append_assoc] at hs ⊢
    refine ⟨_, hs, ?_⟩
    rw [hlen, dataValue_some_enc d sv c hc h]
    simp

theorem makeData_flatten_thm (d : DataIn) (sign : Bytes → Bytes) (e : Encoded) (hv : d.Valid)
    (hm : makeData d sign = .ok e) :
    e.wire.flatten = encTL 6 ++ encTL (dataValue d e.sigVal).length ++ dataValue d e.sigVal
    ∧ (d.est > 0 → e.sigVal = sign (dataCovered d) ∧ e.sigCovered = some (dataCovered d) ∧ e.sigVal.length ≤ d.est)
    ∧ (d.est = 0 → e.sigCovered = none) := by
  have hL : dataLen d + 16 < 2 ^ 62 := hv.2.2.2
  cases Nat.eq_zero_or_pos d.est with
  | inl h0 =>
    rw [makeData_unsigned_enc d sign h0] at hm
    injection hm with hm
    subst hm
    refine ⟨?_, fun h => by omega, fun _ => rfl⟩
    simp only [wrapPacket_flatten_enc, dataSegs_flatten_unsigned_enc d h0 []]
    have : dataLen d = (dataValue d []).length := by
      rw [dataValue_length_enc]; unfold dataLen sigTLLen
      rw [if_neg (by omega), if_neg (by omega)]
    rw [← this]
  | inr hp =>
    cases Nat.lt_or_ge d.est (sign (dataSigCovered d)).length with
    | inl hlong => rw [makeData_toolong_enc d sign hp hlong] at hm; cases hm
    | inr hsv =>
      obtain ⟨w0, hw, hfl⟩ := data_signed_wire_enc d (sign (dataSigCovered d)) hp hsv hL
      rw [makeData_signed_enc d sign hp hsv w0 hw] at hm
      injection hm with hm
      subst hm
      refine ⟨hfl, fun _ => ⟨?_, ?_, hsv⟩, fun h => by omega⟩
      · simp only [dataSigCovered_eq]
      · simp only [dataSigCovered_eq]

end Ndn.C03
