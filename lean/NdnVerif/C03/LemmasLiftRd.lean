/-
  C03/LemmasLiftRd.lean — the out-of-range reader facts `ReaderSpecsX` hold for the reader model, and
  the closed form of the parser-level refinement: for EVERY segmentation `segs` (segments after the
  first non-empty) and ALL bytes, decoding over `newWireReader segs` has exactly the outcome of
  decoding over `newBufferReader segs.flatten`.
-/
import NdnVerif.C03.LemmasReader
import NdnVerif.C03.LemmasName
import NdnVerif.C03.LemmasLift
namespace Ndn.C03

/-! ### Skip on a WireReader parked past its last segment -/

theorem wire_parked_lf {w : WireR} {buf : Bytes} {p : Nat} (h : At (.wire w) buf p)
    (hnl : ¬ w.seg < w.wire.length) : w.absPos = w.wire.flatten.length := by
  obtain ⟨hi, _⟩ := at_wire_dest h
  have hseg : w.seg = w.wire.length := by have := hi.1; omega
  have hpos := hi.2.2.1 hseg
  unfold WireR.absPos
  rw [hpos, hseg, accSz_length]; omega

theorem wire_skip_ok_lf (w : WireR) (buf : Bytes) (p n : Nat) (h : At (.wire w) buf p)
    (hl : p + n ≤ buf.length) : ∃ r', (Rd.wire w).skip n = .ok r' ∧ At r' buf (p + n) := by
  by_cases hlive : w.seg < w.wire.length
  · exact wire_skip_ok w buf p n h hlive hl
  · have habs := wire_parked_lf h hlive
    obtain ⟨_, _, _, hb4⟩ := at_wire_buf h
    have hn : n = 0 := by have := (hb4 n).1 hl; omega
    subst hn
    refine ⟨.wire w, ?_, h⟩
    have hg : ¬ (0 > w.absLength - w.absPos) := by omega
    simp [Rd.skip, WireR.skip, WireR.skipLoop, hlive]

theorem wire_skip_err_lf (w : WireR) (buf : Bytes) (p n : Nat) (h : At (.wire w) buf p)
    (hl : p + n > buf.length) : (Rd.wire w).skip n = .err := by
  obtain ⟨_, _, _, hb4⟩ := at_wire_buf h
  obtain ⟨_, _, _, _, h5⟩ := at_wire_dest h
  have hn : ¬ (w.absPos + n ≤ w.wire.flatten.length) := fun hh => by have := (hb4 n).2 hh; omega
  have hg : n > w.absLength - w.absPos := by
    rw [WireR.absLength_eq]; omega
  simp only [Rd.skip, WireR.skip, if_pos hg, Res.bind_err]

/-! ### Range and Delegate with out-of-range arguments -/

theorem buf_range_oob_lf (b : BufR) (buf : Bytes) (p s e : Nat) (h : At (.buf b) buf p)
    (hc : e > buf.length ∨ s > e) : (Rd.buf b).range s e = [] := by
  obtain ⟨rfl, _⟩ := (at_buf_iff _ _ _).1 h
  simp only [Rd.range, BufR.range, if_pos hc]

theorem wire_range_oob_lf (w : WireR) (buf : Bytes) (p s e : Nat) (h : At (.wire w) buf p)
    (hc : e > buf.length ∨ s > e) : (Rd.wire w).range s e = [] := by
  obtain ⟨_, _, _, h4, h5⟩ := at_wire_dest h
  obtain ⟨hb1, _⟩ := at_wire_buf h
  have hg : e + w.base > w.absLength ∨ s + w.base > e + w.base := by
    rw [WireR.absLength_eq]; omega
  simp only [Rd.range, WireR.rangeAbs, if_pos hg]

theorem buf_delegate_oob_lf (b : BufR) (buf : Bytes) (p l : Nat) (h : At (.buf b) buf p)
    (hp : p + l > buf.length) : ∃ r', (Rd.buf b).delegate l = .ok (.buf ⟨[], 0⟩, r') ∧ At r' buf p := by
  obtain ⟨rfl, _⟩ := (at_buf_iff _ _ _).1 h
  refine ⟨.buf ⟨buf, p⟩, ?_, h⟩
  have hg : p + l > buf.length := hp
  simp only [Rd.delegate, BufR.delegate, if_pos hg]

theorem wire_delegate_oob_lf (w : WireR) (buf : Bytes) (p l : Nat) (h : At (.wire w) buf p)
    (hp : p + l > buf.length) : ∃ r', (Rd.wire w).delegate l = .ok (.buf ⟨[], 0⟩, r') ∧ At r' buf p := by
  obtain ⟨_, _, _, hb4⟩ := at_wire_buf h
  obtain ⟨_, _, _, _, h5⟩ := at_wire_dest h
  have hn : ¬ (w.absPos + l ≤ w.wire.flatten.length) := fun hh => by have := (hb4 l).2 hh; omega
  have hg : w.seg ≥ w.wire.length ∨ l > w.absLength - w.absPos := by
    rw [WireR.absLength_eq]; omega
  refine ⟨.wire w, ?_, h⟩
  simp only [Rd.delegate, WireR.delegate, if_pos hg, Res.bind_ok, Res.pure_eq]

/-- the facts `ReaderSpecs` leaves open hold for both kinds of readers -/
theorem readerSpecsX : ReaderSpecsX where
  skip_ok r buf p n h hp := by
    cases r with
    | buf b => exact buf_skip_ok b buf p n h hp
    | wire w => exact wire_skip_ok_lf w buf p n h hp
  skip_err r buf p n h hp := by
    cases r with
    | buf b => exact buf_skip_err b buf p n h hp
    | wire w => exact wire_skip_err_lf w buf p n h hp
  range_oob r buf p s e h hc := by
    cases r with
    | buf b => exact buf_range_oob_lf b buf p s e h hc
    | wire w => exact wire_range_oob_lf w buf p s e h hc
  delegate_oob r buf p l h hp := by
    cases r with
    | buf b => exact buf_delegate_oob_lf b buf p l h hp
    | wire w => exact wire_delegate_oob_lf w buf p l h hp

/-! ### any segmentation decodes as the contiguous buffer, for all bytes -/

theorem sim_new_lf (segs : List Bytes) (h : ∀ i, 0 < i → i < segs.length → segs.getD i [] ≠ []) :
    Sim (newWireReader segs) (newBufferReader segs.flatten) :=
  ⟨segs.flatten, 0, at_newWireReader segs h, at_newBufferReader segs.flatten⟩

/-- `ReadData` over a WireReader on any segmentation = `ReadData` over the joined buffer -/
theorem readData_anySegmentation (segs : List Bytes)
    (h : ∀ i, 0 < i → i < segs.length → segs.getD i [] ≠ []) :
    readData (newWireReader segs) = readData (newBufferReader segs.flatten) :=
  readData_sim readerSpecs readerSpecsX _ _ (sim_new_lf segs h)

/-- `ReadInterest` over a WireReader on any segmentation = `ReadInterest` over the joined buffer -/
theorem readInterest_anySegmentation (H : Bytes → Bytes) (segs : List Bytes)
    (h : ∀ i, 0 < i → i < segs.length → segs.getD i [] ≠ []) :
    readInterest H (newWireReader segs) = readInterest H (newBufferReader segs.flatten) :=
  readInterest_sim readerSpecs readerSpecsX H _ _ (sim_new_lf segs h)

/-- `ReadPacket` over a WireReader on any segmentation = `ReadPacket` over the joined buffer -/
theorem readPacket_anySegmentation (H : Bytes → Bytes) (segs : List Bytes)
    (h : ∀ i, 0 < i → i < segs.length → segs.getD i [] ≠ []) :
    readPacket H (newWireReader segs) = readPacket H (newBufferReader segs.flatten) :=
  readPacket_sim readerSpecs readerSpecsX H _ _ (sim_new_lf segs h)

end Ndn.C03
